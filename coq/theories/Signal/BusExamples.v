(* Non-vacuity: concrete non-trivial schedules and states meeting the hypotheses of the C13 theorems. *)
Require Import List Arith Lia.
From Dasp Require Import Base.Res Signal.Bus Signal.BusSpec Signal.BusProofs Signal.BusHistProofs
  Signal.BusExh Signal.BusExhProofs.
Import ListNotations.

Definition exf (n : nat) : nat := 100 + n.

(* three outputs; 0 pulls three frames, 1 pulls two, 2 is the laggard that has pulled nothing *)
Definition ex_ops : list op := [OSend; OSend; OSend; ONext 0; ONext 0; ONext 1; ONext 0; ONext 1].
Definition ex_s : @st nat := {| pulled := 3; buf := [100; 101; 102]; fr := [(1, 2); (0, 3); (2, 0)]; nk := 3 |}.

Example ex_sched_ok : sched_ok 0 [] ex_ops.
Proof. cbn. intuition. Qed.

Example ex_run : run exf ex_ops init =
  Ok (ex_s, [ESend 0 0; ESend 1 0; ESend 2 0; EFrame 0 100; EFrame 0 101; EFrame 1 100; EFrame 0 102; EFrame 1 101]).
Proof. vm_compute. reflexivity. Qed.

Example ex_inv : Inv exf ex_s.
Proof. exact (run_inv exf _ _ _ ex_run). Qed.

(* the hypotheses of next_inv / pending_ok hold for each of the three outputs, at different lags *)
Example ex_pos : pos ex_s 0 = Some 3 /\ pos ex_s 1 = Some 2 /\ pos ex_s 2 = Some 0.
Proof. vm_compute. auto. Qed.
Example ex_pending : pending_frames ex_s 0 = Ok 0 /\ pending_frames ex_s 1 = Ok 1 /\ pending_frames ex_s 2 = Ok 3.
Proof. vm_compute. auto. Qed.

(* both branches of next_frame and the pull branch:
   output 1 reads from the backlog while 2 is behind it (nothing popped, no pull) *)
Example ex_next_keep : next_frame exf ex_s 1 =
  Ok ({| pulled := 3; buf := [100; 101; 102]; fr := [(1, 3); (0, 3); (2, 0)]; nk := 3 |}, 102).
Proof. vm_compute. reflexivity. Qed.
(* the laggard 2 is the only slowest reader: the front frame is popped and the other offsets shift *)
Example ex_next_pop : next_frame exf ex_s 2 =
  Ok ({| pulled := 3; buf := [101; 102]; fr := [(2, 0); (1, 1); (0, 2)]; nk := 3 |}, 100).
Proof. vm_compute. reflexivity. Qed.
(* output 0 has caught up: the source is pulled once and the frame is appended for the others *)
Example ex_next_pull : next_frame exf ex_s 0 =
  Ok ({| pulled := 4; buf := [100; 101; 102; 103]; fr := [(0, 4); (1, 2); (2, 0)]; nk := 3 |}, 103).
Proof. vm_compute. reflexivity. Qed.

(* dropping the slowest output trims the backlog to what output 1 still needs; dropping the fastest does not *)
Example ex_drop_slowest : drop_output ex_s 2 =
  Ok {| pulled := 3; buf := [102]; fr := [(1, 0); (0, 1)]; nk := 3 |}.
Proof. vm_compute. reflexivity. Qed.
Example ex_drop_fastest : drop_output ex_s 0 =
  Ok {| pulled := 3; buf := [100; 101; 102]; fr := [(1, 2); (2, 0)]; nk := 3 |}.
Proof. vm_compute. reflexivity. Qed.

(* a longer schedule: a never-pulling output is dropped, everything is dropped, a new output is attached
   and starts at the first frame nobody had pulled (index 4) *)
Definition ex_ops2 : list op :=
  ex_ops ++ [ONext 0; ODrop 2; OPending 1; ODrop 0; ODrop 1; OSend; ONext 3; ONext 3].
Example ex_run2 : match run exf ex_ops2 init with
  | Ok (s, tr) => pulled s = 6 /\ buf s = [] /\ fr s = [(3, 0)] /\
                  frames_of 3 tr = [104; 105] /\ In (ESend 3 4) tr /\ In (EPending 1 2) tr /\
                  frames_of 0 tr = [100; 101; 102; 103] /\ frames_of 2 tr = []
  | _ => False end.
Proof. vm_compute. intuition. Qed.
Example ex_sched_ok2 : sched_ok 0 [] ex_ops2.
Proof. cbn. intuition. Qed.

(* next on a dropped output and on a key that was never sent: the expect fires *)
Example ex_panic_dropped : run exf [OSend; OSend; ODrop 0; ONext 0] init = Panic PExpect.
Proof. vm_compute. reflexivity. Qed.
Example ex_panic_unknown : run exf [OSend; ONext 5] init = Panic PExpect.
Proof. vm_compute. reflexivity. Qed.
Example ex_not_sched_ok : ~ sched_ok 0 [] [OSend; OSend; ODrop 0; ONext 0].
Proof. cbv. intros [[H|[]] _]. discriminate H. Qed.

(* a finite source of two frames (then equilibrium 0), exhausted once two frames are pulled; output 0
   pulls past the end while output 1 lags, the Bus handle is dropped in between: the equilibrium frame
   is queued for the laggard, output 0 reports exhaustion although its sibling lags, output 1 only
   after it has received everything *)
Definition exfin (n : nat) : nat := if n <? 2 then 100 + n else 0.
Definition exx (n : nat) : bool := 2 <=? n.
Example ex_exhaustion :
  xrun exfin exx [XOp OSend; XOp OSend; XOp (ONext 0); XOp (ONext 0); XExhausted 0; XDropBus;
                  XOp (ONext 0); XExhausted 0; XExhausted 1;
                  XOp (ONext 1); XOp (ONext 1); XOp (ONext 1); XExhausted 1] init =
  Ok ({| pulled := 3; buf := []; fr := [(1, 0); (0, 0)]; nk := 2 |},
      [XEv (ESend 0 0); XEv (ESend 1 0); XEv (EFrame 0 100); XEv (EFrame 0 101); XExh 0 true; XBusDropped;
       XEv (EFrame 0 0); XExh 0 true; XExh 1 false;
       XEv (EFrame 1 100); XEv (EFrame 1 101); XEv (EFrame 1 0); XExh 1 true]).
Proof. vm_compute. reflexivity. Qed.
