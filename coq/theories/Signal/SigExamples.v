(* Non-vacuity for C04/C05: concrete non-trivial adaptor trees (a delay, binary nodes whose
   sources have different lengths, a borrowed base, a partial trailing frame) meeting the
   hypotheses of the theorems, on the executable [i16;2] / [u8;3] instances. *)
Require Import Floats.SpecFloat.
Require Import List ZArith Bool Lia.
From Flocq Require Import Core BinarySingleNaN.
From Dasp Require Import Base.Res Base.Float Signal.Sig Signal.SigProofs Signal.ExhaustProofs Signal.SigRun Signal.SigRunProofs.
Import ListNotations.
Open Scope Z_scope.

Definition fm := I16x2.
Notation zstream := (stream zframe Z Z Z (z_eqm fm) (fmt_nch fm) (fun l => l) z_fmap (z_add fm) (z_mul fm)
                            (z_scale fm) (z_offset fm) (z_tos fm) (z_ofs fm) (s_ltb fm) (s_neg fm)).
Notation zafter := (after zframe Z Z Z (z_eqm fm) (fmt_nch fm) (fun l => l) z_fmap (z_add fm) (z_mul fm)
                          (z_scale fm) (z_offset fm) (z_tos fm) (z_ofs fm) (s_ltb fm) (s_neg fm)).
Notation zcollect_until := (collect_until zframe Z Z Z (z_eqm fm) (fmt_nch fm) (fun l => l) z_fmap (z_add fm) (z_mul fm)
                          (z_scale fm) (z_offset fm) (z_tos fm) (z_ofs fm) (s_ltb fm) (s_neg fm)).
Notation zcollect_samples := (collect_samples zframe Z Z Z (z_eqm fm) (fmt_nch fm) (fun f => f) (fun l => l) z_fmap (z_add fm) (z_mul fm)
                          (z_scale fm) (z_offset fm) (z_tos fm) (z_ofs fm) (s_ltb fm) (s_neg fm)).

(* add_amp(delay(2, borrowed 4-frame source), offset_amp(10, 5 samples = 2 complete stereo frames)) *)
Definition ex_base : zsig := from_iter 1 [[1; 2]; [3; 4]; [5; 6]; [7; 8]].
Definition ex_tree : zsig :=
  AddAmp (Delay 2 (ByRef ex_base)) (OffsetAmp 10 (zfrom_samples (ops_of fm) 2 [100; 200; 300; 400; 500])).

(* the hypotheses of the pull / by_ref theorems: the base sits under a pending delay of 2 *)
Example ex_sub : sub_at [DLeft; DOnly] ex_tree = Some (ByRef ex_base) /\ delay_above [DLeft; DOnly] ex_tree = 2%nat.
Proof. split; reflexivity. Qed.

(* after 3 calls the base has been pulled once (3 - 2) and resumes at its second frame *)
Example ex_by_ref :
  sub_at [DLeft; DOnly] (zafter 3 ex_tree) = Some (ByRef (zafter 1 ex_base)) /\
  zstream (zafter 1 ex_base) 0 = [3; 4] /\
  leaf_counts (zafter 3 ex_tree) = [(1, 1%nat, 2%nat); (2, 3%nat, 6%nat)].
Proof. vm_compute. repeat split; reflexivity. Qed.

(* frames: silence+110/210, silence+310/410, then the base +equilibrium of the exhausted sample source *)
Example ex_stream : map (zstream ex_tree) (seq 0 4) = [[110; 210]; [310; 410]; [11; 12]; [13; 14]].
Proof. vm_compute. reflexivity. Qed.

(* exhaustion: min (2 + 4, 5 / 2) = 2 frames; is_exhausted turns true exactly after the second *)
Example ex_live : live_len zframe Z Z Z (fmt_nch fm) ex_tree = Some 2%nat /\
  map (fun n => exhausted (zafter n ex_tree)) (seq 0 4) = [false; false; true; true] /\
  fst (zcollect_until 10 ex_tree) = [[110; 210]; [310; 410]].
Proof. vm_compute. repeat split; reflexivity. Qed.

(* a delay keeps an exhausted source live while it emits silence *)
Example ex_delay_live :
  map (fun n => exhausted (zafter n (Delay 2 (from_iter 1 []) : zsig))) (seq 0 4) = [false; false; true; true].
Proof. vm_compute. reflexivity. Qed.

(* the trailing half frame (500) is dropped; interleaved output = 2 frames x 2 channels in channel order *)
Example ex_interleaved :
  match zcollect_samples 10 {| isig := OffsetAmp 10 (zfrom_samples (ops_of fm) 2 [100; 200; 300; 400; 500]); icur := None |} with
  | Ok (l, _) => l = [110; 210; 310; 410]
  | _ => False
  end.
Proof. vm_compute. reflexivity. Qed.

(* clip on u8: thresh 3 limits the signed amplitude x - 128 to [-3, 3] *)
Example ex_clip_u8 :
  map (clip_sample Z Z (z_tos U8x3) (z_ofs U8x3) (s_ltb U8x3) (s_neg U8x3) 3) [0; 120; 125; 128; 131; 140; 255]
  = [125; 125; 125; 128; 131; 131; 131].
Proof. vm_compute. reflexivity. Qed.

(* lift over a pointwise chain: one mapped frame per input frame *)
Example ex_lift :
  fst (zcollect_until 10 (lift zframe Z Z Z 1 [[1; 2]; [3; 4]] (fun s => OffsetAmp 5 (Map 7 (map_fn fm 0 0) s))))
  = [[7; 6]; [9; 8]].
Proof. vm_compute. reflexivity. Qed.
