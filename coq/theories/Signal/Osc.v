(* Model of the oscillators and noise sources of dasp_signal/src/lib.rs, written after the
   source over the numeric interface of OscNum.v.  Definitions only (total, computable).

   Rust                                             model
   rate(r).const_hz(h)  = ConstHz{step: h / r}      const_hz
   rate(r).hz(sig)      = Hz{hz: sig, rate}         SHz r ctl pulls   (ctl k = k-th frame of sig)
   Step::step                                       step_of
   Phase{step, next: 0.0}                           phase_new
   Phase::next_phase_wrapped_to(rem)                next_phase_wrapped_to
   Sine/Saw/Square::next                            sine_next / saw_next / square_next
   Noise::next_sample, noise_1                      noise_next, noise_1
   NoiseSimplex::next_sample, simplex_noise_1d      simplex_next, simplex_noise_1d *)
Require Import ZArith List.
From Dasp Require Import Signal.OscNum.
From DaspGen Require Import SimplexTable.
Import ListNotations.
Open Scope Z_scope.

Section Model.
Variable N : Num.
Notation T := (T N).
Notation one := (nof_Z N 1).

(* A phase-step source.  The control signal of Hz is an arbitrary frame sequence [ctl];
   [pulls] counts the frames taken from it so far (the leaf's pull counter). *)
Inductive step_src :=
| SConst (step : T)
| SHz (rate : T) (ctl : nat -> T) (pulls : nat).

(* Rate::const_hz : `ConstHz { step: hz / self.hz }` *)
Definition const_hz (rate hz : T) : step_src := SConst (ndiv N hz rate).
(* Rate::hz *)
Definition hz_src (rate : T) (ctl : nat -> T) : step_src := SHz rate ctl 0.

(* Step::step :  ConstHz: `self.step`;  Hz: `let hz = self.hz.next(); hz / self.rate.hz` *)
Definition step_of (s : step_src) : T * step_src :=
  match s with
  | SConst st => (st, s)
  | SHz rate ctl k => (ndiv N (ctl k) rate, SHz rate ctl (S k))
  end.

Definition pulls_of (s : step_src) : nat :=
  match s with SConst _ => O | SHz _ _ k => k end.

Record phase_st := { src : step_src; next : T }.

(* signal::phase : `Phase { step, next: 0.0 }` *)
Definition phase_new (s : step_src) : phase_st := {| src := s; next := nof_Z N 0 |}.

(* `let phase = self.next; self.next = (self.next + self.step.step()) % rem; phase` *)
Definition next_phase_wrapped_to (p : phase_st) (w : T) : T * phase_st :=
  let ph := next p in
  let '(st, s') := step_of (src p) in
  (ph, {| src := s'; next := nrem N (nadd N (next p) st) w |}).

Definition next_phase (p : phase_st) : T * phase_st := next_phase_wrapped_to p one.

(* Sine::next : `ops::f64::sin(PI_2 * phase)`; [sin_o] is the libm oracle *)
Definition sine_of (sin_o : T -> T) (phase : T) : T := sin_o (nmul N (ntwo_pi N) phase).
(* Saw::next : `phase * -2.0 + 1.0` *)
Definition saw_of (phase : T) : T := nadd N (nmul N phase (nof_Z N (-2))) one.
(* Square::next : `if phase < 0.5 { 1.0 } else { -1.0 }` *)
Definition square_of (phase : T) : T := if nltb N phase (nhalf N) then one else nof_Z N (-1).

Definition sine_next (sin_o : T -> T) (p : phase_st) : T * phase_st :=
  let '(ph, p') := next_phase p in (sine_of sin_o ph, p').
Definition saw_next (p : phase_st) : T * phase_st :=
  let '(ph, p') := next_phase p in (saw_of ph, p').
Definition square_next (p : phase_st) : T * phase_st :=
  let '(ph, p') := next_phase p in (square_of ph, p').

(* --- Noise ------------------------------------------------------------------------- *)
Definition two64 : Z := 2 ^ 64.
Definition wmul (a b : Z) : Z := (a * b) mod two64.      (* u64::wrapping_mul *)
Definition wadd (a b : Z) : Z := (a + b) mod two64.      (* u64::wrapping_add *)

(* the u64 hash of noise_1:
   let x = (seed << 13) ^ seed;
   x.wrapping_mul(x.wrapping_mul(x).wrapping_mul(PRIME_1).wrapping_add(PRIME_2)).wrapping_add(PRIME_3) & 0x7fffffff
   (`<<` on u64 discards the bits shifted out, in every build) *)
Definition noise_hash (seed : Z) : Z :=
  let x := Z.lxor (Z.shiftl seed noise_shift mod two64) seed in
  Z.land (wadd (wmul x (wadd (wmul (wmul x x) noise_prime_1) noise_prime_2)) noise_prime_3) noise_mask.

(* `1.0 - (hash as f64) / 1_073_741_824.0` *)
Definition noise_1 (seed : Z) : T :=
  nsub N one (ndiv N (nof_Z N (noise_hash seed)) (nof_Z N noise_divisor)).

(* Noise::next_sample : `let noise = noise_1(self.seed); self.seed = self.seed.wrapping_add(1); noise` *)
Definition noise_next (seed : Z) : T * Z := (noise_1 seed, wadd seed 1).

(* --- NoiseSimplex ------------------------------------------------------------------- *)
(* `PERM[(i as u8) as usize]` *)
Definition hash (i : Z) : Z := nth (Z.to_nat (i mod 256)) perm_table 0.

Definition grad (h0 : Z) (x : T) : T :=
  let h := Z.land h0 15 in
  let g := nadd N one (nof_Z N (Z.land h 7)) in
  let g := if Z.land h 8 =? 0 then g else nneg N g in
  nmul N g x.

(* `i0 + 1` is an i64 addition; floor(x) as i64 saturates at 2^63-1, where the addition would
   overflow.  The phase handed to this function is the result of `% 65536.0`, so |x| < 65536 (or NaN
   -> 0) and the case cannot arise; the model uses unbounded Z. *)
Definition simplex_noise_1d (x : T) : T :=
  let i0 := nto_i64 N (nfloor N x) in
  let i1 := i0 + 1 in
  let x0 := nsub N x (nof_Z N i0) in
  let x1 := nsub N x0 one in
  let t0 := nsub N one (nmul N x0 x0) in
  let t0 := nmul N t0 t0 in
  let n0 := nmul N (nmul N t0 t0) (grad (hash i0) x0) in
  let t1 := nsub N one (nmul N x1 x1) in
  let t1 := nmul N t1 t1 in
  let n1 := nmul N (nmul N t1 t1) (grad (hash i1) x1) in
  nmul N (nscale N) (nadd N n0 n1).

Definition simplex_next (p : phase_st) : T * phase_st :=
  let '(ph, p') := next_phase_wrapped_to p (nof_Z N simplex_wrap) in (simplex_noise_1d ph, p').

(* --- running a signal for n frames ---------------------------------------------------- *)
Fixpoint run {S : Type} (f : S -> T * S) (s : S) (n : nat) : list T * S :=
  match n with
  | O => ([], s)
  | Datatypes.S n' => let '(y, s1) := f s in let '(ys, s2) := run f s1 n' in (y :: ys, s2)
  end.

(* the step sizes a source hands out: k-th step from the current state *)
Definition nth_step (s : step_src) (k : nat) : T :=
  match s with
  | SConst st => st
  | SHz rate ctl p => ndiv N (ctl (p + k)%nat) rate
  end.

(* --- control signals built from dasp_signal's own sources and adaptors (mono f64 frames) ----
   For the oscillator the control is just the frame sequence it yields; these definitions say which
   sequence the adaptors define, and how often the underlying parts have been called after the
   control has yielded k frames.
     FromIterator::next : the iterator's items, then Frame::EQUILIBRIUM (0.0) for ever; one item is
       fetched at construction and one more per yielded frame until the iterator returns None.
     Gen / GenMut::next : one closure call per frame.
     AddAmp / MulAmp / ZipMap::next : `op(self.a.next(), self.b.next())` — BOTH parts are pulled on
       every frame, whether or not one of them is exhausted (is_exhausted plays no role in next).
     ScaleAmp / OffsetAmp::next : `self.signal.next() * amp` / `+ offset` (f64: Sample::mul_amp / add_amp). *)
Inductive ctl_shape :=
| CFin                           (* from_iter(b) alone *)
| CGen                           (* gen / gen_mut closure alone *)
| CAdd | CMul                    (* add_amp / mul_amp of the two *)
| CZip (f : T -> T -> T).        (* zip_map with closure f *)
Inductive ctl_top := TNone | TScale (t : T) | TOffset (t : T).

Definition fin_frame (b : list T) (k : nat) : T := nth k b (nof_Z N 0).
Definition gen_frame (a : list T) (k : nat) : T := nth k a (nof_Z N 0).

(* [fin_first] = the finite part is the receiver: `fin.op(gen)` instead of `gen.op(fin)` *)
Definition ctl_frame (sh : ctl_shape) (fin_first : bool) (tp : ctl_top) (a b : list T) (k : nat) : T :=
  let x := gen_frame a k in
  let y := fin_frame b k in
  let c := match sh with
           | CFin => y
           | CGen => x
           | CAdd => if fin_first then nadd N y x else nadd N x y
           | CMul => if fin_first then nmul N y x else nmul N x y
           | CZip f => if fin_first then f y x else f x y
           end in
  match tp with TNone => c | TScale t => nmul N c t | TOffset t => nadd N c t end.

(* calls of the closure / of Iterator::next after the control has yielded k frames *)
Definition gen_calls (sh : ctl_shape) (k : nat) : nat := match sh with CFin => O | _ => k end.
Definition iter_calls (sh : ctl_shape) (m k : nat) : nat := match sh with CGen => O | _ => S (Nat.min k m) end.

End Model.

Arguments CFin {N}. Arguments CGen {N}. Arguments CAdd {N}. Arguments CMul {N}. Arguments CZip {N}.
Arguments TNone {N}. Arguments TScale {N}. Arguments TOffset {N}.
Arguments SConst {N}. Arguments SHz {N}. Arguments src {N}. Arguments next {N}.
