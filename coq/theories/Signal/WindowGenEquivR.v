(* C20 — the GENERATED Window iterator (gen/WindowGen.v: Window::new, Window::next) instantiated with Coq's real
   numbers, the true cosine and identity sample conversions: the frames it yields carry the Hann window at the
   phases i/(n-1).  Ties the real-number clauses of the property (Signal/WindowRProofs.v) to the regenerated
   model.  Uses the standard library's real-number axioms only. *)
Require Import List Arith Reals.
From Dasp Require Import Base.Res Signal.Window Signal.WindowPrim Signal.WindowR Signal.WindowRProofs
  Signal.WindowGenGlue Signal.WindowGenEquiv.
From DaspGen Require Import WindowGen.
Import ListNotations.

(* Window::<[f64; nch], Hann>::new(n).take(m): frame i is hann(i/(n-1)) on every channel, for every i
   (the iterator never ends; beyond i = n-1 the phases repeat, Hann being 1-periodic) *)
Theorem gen_window_hann_values (nch n m : nat) : (2 <= n)%nat ->
  gen_window_take AR hannR R R (fun v => v) (fun v => v) nch n m =
  Ok (map (fun i => repeat (hannR (INR i / (INR n - 1))) nch) (seq 0 m)).
Proof.
  intros Hn. rewrite gen_window_take_eq. f_equal. apply map_ext. intros i. f_equal.
  exact (hann_window_values n i Hn).
Qed.

(* the rectangle window: 1 on every channel of every frame *)
Theorem gen_window_rect_values (nch n m : nat) :
  gen_window_take AR rectR R R (fun v => v) (fun v => v) nch n m = Ok (map (fun _ => repeat 1%R nch) (seq 0 m)).
Proof. rewrite gen_window_take_eq. reflexivity. Qed.
