(* The real-number instance of the converter's arithmetic (exact-arithmetic theorems) and the
   spec-level vocabulary of C08: positions P_n, the source as an infinite stream, the frames fed
   to an interpolator.  Definitions only. *)
Require Import Reals List ZArith.
From Flocq Require Import Raux.
From Dasp Require Import Signal.Converter.
Import ListNotations.
Open Scope R_scope.

Definition NR : Num := mkNum R 0 1 Rplus Rminus Rmult Rdiv Rle_bool Rlt_bool.
(* samples are reals, to_sample is the identity, equilibrium is 0 *)
Definition fmt_R : Fmt NR := mkFmt NR R (fun s => s) (fun x => x) 0.

Notation frameR := (frame fmt_R).

(* floor as a natural number, fractional part *)
Definition fl (x : R) : nat := Z.to_nat (Zfloor x).
Definition frac (x : R) : R := x - IZR (Zfloor x).

(* P_n = r_0 + ... + r_(n-1) *)
Fixpoint Ppos (rs : list R) (n : nat) {struct n} : R :=
  match n, rs with
  | S n', r :: rs' => r + Ppos rs' n'
  | _, _ => 0
  end.

(* frames pulled before output n starts: floor(P_(n-1)), nothing before the first output *)
Definition pulled_before (rs : list R) (n : nat) : nat :=
  match n with O => O | S j => fl (Ppos rs j) end.

Section Spec.
Context {N : Num} {Fm : Fmt N}.

(* the source as the converter sees it: its frames, then equilibrium for ever *)
Definition stream (s : source Fm) (i : nat) : frame Fm := nth i (rest s) (equilibrium (nch s)).
(* the first m frames of that stream, in order *)
Definition prefix (s : source Fm) (m : nat) : list (frame Fm) := map (stream s) (seq 0 m).
(* an interpolator after it was handed the given frames one by one *)
Definition feed (i : interp Fm) (l : list (frame Fm)) : interp Fm := fold_left next_source_frame l i.

(* the source after k pulls *)
Definition src_at (s : source Fm) (k : nat) : source Fm :=
  {| rest := skipn k (rest s); pulls := pulls s + k;
     iter_calls := iter_calls s + Nat.min k (length (rest s)); nch := nch s |}.

(* frame sequence seen through a floor interpolator primed with [l]: l, then the source *)
Definition floor_seq (l : frame Fm) (s : source Fm) (j : nat) : frame Fm :=
  match j with O => l | S j' => stream s j' end.
(* frame sequence seen through a linear interpolator primed with [a], [b] *)
Definition linear_seq (a b : frame Fm) (s : source Fm) (j : nat) : frame Fm :=
  match j with O => a | S O => b | S (S j') => stream s j' end.
End Spec.
