(* The IEEE binary64 instance of the converter's arithmetic and the sample formats used by
   the correspondence, with the conversion expressions of /repo/dasp_sample/src/conv.rs:
     i16 -> f64   s as f64 / 32_768.0              f64 -> i16   (s * 32_768.0) as i16
     u8  -> f64   i8::to_f64(u8::to_i8(s)) = (s - 128) as f64 / 128.0
     f64 -> u8    i8::to_u8((s * 128.0) as i8) = ((s * 128.0) as i8) + 128
     f32 -> f64   s as f64                         f64 -> f32   s as f32
   Definitions only. *)
Require Import Floats.SpecFloat.
Require Import ZArith.
From Flocq Require Import Core BinarySingleNaN.
From Dasp Require Import Base.Float Signal.Converter.
Open Scope Z_scope.

Definition NF : Num :=
  mkNum F64.t F64.zero F64.one F64.add F64.sub F64.mul F64.div F64.leb F64.ltb.

Definition c32768 : F64.t := F64.of_Z 32768.
Definition c128 : F64.t := F64.of_Z 128.

Definition fmt_f64 : Fmt NF := mkFmt NF F64.t (fun s => s) (fun x => x) F64.zero.
Definition fmt_f32 : Fmt NF := mkFmt NF F32.t f32_to_f64 f64_to_f32 F32.zero.
Definition fmt_i16 : Fmt NF :=
  mkFmt NF Z (fun s => F64.div (F64.of_Z s) c32768)
             (fun x => F64.to_Z_sat (-32768) 32767 (F64.mul x c32768)) 0.
Definition fmt_u8 : Fmt NF :=
  mkFmt NF Z (fun s => F64.div (F64.of_Z (s - 128)) c128)
             (fun x => F64.to_Z_sat (-128) 127 (F64.mul x c128) + 128) 128.
