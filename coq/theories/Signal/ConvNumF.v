(* The IEEE binary64 instance of the converter's arithmetic and the sample formats used by
   the correspondence, with the conversion expressions of /repo/dasp_sample/src/conv.rs:
     i16 -> f64   s as f64 / 32_768.0              f64 -> i16   (s * 32_768.0) as i16
     u8  -> f64   i8::to_f64(u8::to_i8(s)) = (s - 128) as f64 / 128.0
     f64 -> u8    i8::to_u8((s * 128.0) as i8) = ((s * 128.0) as i8) + 128
     f32 -> f64   s as f64                         f64 -> f32   s as f32
   Definitions only. *)
Require Import Floats.SpecFloat.
Require Import ZArith.
From Flocq Require Import Core BinarySingleNaN.
From Dasp Require Import Base.Res Base.Float Signal.Converter Sample.Rint Sample.ConvSpec Sample.SampleFmt Sample.SampleOps.
Open Scope Z_scope.

Definition NF : Num :=
  mkNum F64.t F64.zero F64.one F64.add F64.sub F64.mul F64.div F64.leb F64.ltb.

Definition c32768 : F64.t := F64.of_Z 32768.
Definition c128 : F64.t := F64.of_Z 128.

Definition fmt_f64 : Fmt NF := mkFmt NF F64.t (fun s => s) (fun x => x) F64.zero.
Definition fmt_f32 : Fmt NF := mkFmt NF F32.t f32_to_f64 f64_to_f32 F32.zero.
Definition fmt_i16 : Fmt NF :=
  mkFmt NF Z (fun s => F64.div (F64.of_Z s) c32768)
             (fun x => F64.to_Z_sat (-32768) 32767 (F64.mul x c32768)) 0.
Definition fmt_u8 : Fmt NF :=
  mkFmt NF Z (fun s => F64.div (F64.of_Z (s - 128)) c128)
             (fun x => F64.to_Z_sat (-128) 127 (F64.mul x c128) + 128) 128.

(* Every sample format of dasp_sample, with Sample::to_sample::<f64>() and f64::to_sample::<S>() taken
   from the GENERATED conversion tables (gen/ConvGen.v, gen/ConvFloatGen.v, regenerated from
   /repo/dasp_sample/src/conv.rs on every run) in the checked (dev profile) mode, and the equilibrium
   the property specifies (Sample/ConvSpec.v: 0 for signed, 2^(bits-1) for unsigned, 0.0 for floats) -
   NOT the value read from the source tables, so a wrong EQUILIBRIUM constant in the code disagrees.
   A conversion that panics has no value in this record: the fallback is the equilibrium and the
   harness reports the panic, so such a case shows up as a disagreement. *)
Definition spec_equilibrium (f : sfmt) : sty f :=
  match f with SInt fi => equilibrium fi | SF32 => F32.zero | SF64 => F64.zero end.

Definition unres {A} (d : A) (r : res A) : A := match r with Ok a => a | _ => d end.

Definition fmt_gen (f : sfmt) : Fmt NF :=
  mkFmt NF (sty f)
    (fun s => unres F64.zero (conv Checked f SF64 s))
    (fun x => unres (spec_equilibrium f) (conv Checked SF64 f x))
    (spec_equilibrium f).
