(* Lifting to arbitrary finite schedules: the invariant and the history relation (what every
   output has received so far, in terms of the trace) hold after every successful run. *)
Require Import List Arith Lia Bool.
From Dasp Require Import Base.Res Signal.Bus Signal.BusSpec Signal.BusProofs.
Import ListNotations.

Section Hist.
Context {F : Type} (f : nat -> F).
Notation st := (@st F).
Notation ev := (@ev F).
Notation Inv := (Inv f).

(* ---- traces ---- *)
Lemma frames_of_app k (t1 t2 : list ev) : frames_of k (t1 ++ t2) = frames_of k t1 ++ frames_of k t2.
Proof. induction t1 as [|e t IH]; [reflexivity|]. destruct e; cbn [app frames_of]; auto.
  destruct (k0 =? k); cbn [app]; now rewrite IH. Qed.

Lemma received_app k (t1 t2 : list ev) : received k (t1 ++ t2) = received k t1 + received k t2.
Proof. unfold received. now rewrite frames_of_app, app_length. Qed.

(* the history relation between a state and the trace that led to it *)
Record Hist (s : st) (tr : list ev) : Prop := {
  h_sent : forall k a, In (ESend k a) tr ->
             k < nk s /\ a + received k tr <= pulled s /\
             frames_of k tr = map f (seq a (received k tr)) /\
             (forall p, pos s k = Some p -> p = a + received k tr);
  h_live : forall k, is_live s k -> exists a, In (ESend k a) tr;
  h_fresh : forall k, nk s <= k -> frames_of k tr = [];
  h_cover : forall j, j < pulled s -> exists k a, In (ESend k a) tr /\ a <= j < a + received k tr
}.

Lemma hist_init : Hist init [].
Proof. constructor; cbn; try (intros; contradiction || reflexivity || lia). Qed.

Lemma in_snoc (e e' : ev) tr : In e (tr ++ [e']) <-> In e tr \/ e = e'.
Proof. rewrite in_app_iff. simpl. intuition. Qed.

Lemma step_send s tr : Inv s -> Hist s tr ->
  let s' := fst (send s) in Inv s' /\ Hist s' (tr ++ [ESend (nk s) (pulled s)]).
Proof.
  intros I H s'. destruct (send_inv f s I) as (I' & Hnew & Hold). fold s' in I', Hnew, Hold.
  assert (Hsnd : snd (send s) = nk s) by reflexivity. rewrite Hsnd in Hnew.
  assert (Hp : pulled s' = pulled s) by reflexivity.
  assert (Hn : nk s' = S (nk s)) by reflexivity.
  assert (Hrec : forall k, frames_of k (tr ++ [ESend (nk s) (pulled s)]) = frames_of k tr).
  { intros k. rewrite frames_of_app. cbn [frames_of]. apply app_nil_r. }
  assert (Hrc : forall k, received k (tr ++ [ESend (nk s) (pulled s)]) = received k tr).
  { intros k. unfold received. now rewrite Hrec. }
  split; [exact I'|]. constructor.
  - intros k a Hin. rewrite Hrec, Hrc, Hp, Hn. apply in_snoc in Hin. destruct Hin as [Hin|E].
    + destruct (h_sent _ _ H k a Hin) as (Hk & Hle & Hfr & Hpos).
      repeat split; try lia; try assumption. intros p. rewrite Hold by lia. apply Hpos.
    + injection E as -> ->. pose proof (h_fresh _ _ H (nk s) (le_n _)) as Hf.
      unfold received. rewrite Hf. cbn [length seq map]. repeat split; try lia.
      intros p. rewrite Hnew. intros [= <-]. lia.
  - intros k Hl. destruct (Nat.eq_dec k (nk s)) as [->|Hne].
    + exists (pulled s). apply in_snoc. now right.
    + apply pos_live in Hl. rewrite Hold in Hl by assumption. apply pos_live in Hl.
      destruct (h_live _ _ H k Hl) as [a Ha]. exists a. apply in_snoc. now left.
  - intros k Hk. rewrite Hrec. apply (h_fresh _ _ H). lia.
  - intros j Hj. rewrite Hp in Hj. destruct (h_cover _ _ H j Hj) as (k & a & Hin & Hr).
    exists k, a. rewrite Hrc. split; [apply in_snoc; now left|assumption].
Qed.

Lemma live_pos (s : st) k : is_live s k -> exists p, pos s k = Some p.
Proof. intros H. apply pos_live in H. destruct (pos s k); [eauto|congruence]. Qed.

Lemma step_next s tr key s' x : Inv s -> Hist s tr -> next_frame f s key = Ok (s', x) ->
  Inv s' /\ Hist s' (tr ++ [EFrame key x]).
Proof.
  intros I H Hnx.
  destruct (lookup key (fr s)) as [r|] eqn:Hr; [|rewrite next_unknown in Hnx by assumption; discriminate].
  assert (Hlive : is_live s key) by (unfold is_live; congruence).
  destruct (live_pos s key Hlive) as [p Hp].
  destruct (next_inv f s key p I Hp) as (s1 & Hnx1 & I' & Hkey & Hoth & Hpl & Hnk).
  rewrite Hnx1 in Hnx. injection Hnx as <- <-.
  destruct (h_live _ _ H key Hlive) as [a0 Ha0].
  destruct (h_sent _ _ H key a0 Ha0) as (Hk0 & Hle0 & Hfr0 & Hpos0). specialize (Hpos0 p Hp).
  assert (Hrec_o : forall k, k <> key -> frames_of k (tr ++ [EFrame key (f p)]) = frames_of k tr).
  { intros k Hne. rewrite frames_of_app. cbn [frames_of]. destruct (Nat.eqb_spec key k); [congruence|apply app_nil_r]. }
  assert (Hrec_k : frames_of key (tr ++ [EFrame key (f p)]) = frames_of key tr ++ [f p]).
  { rewrite frames_of_app. cbn [frames_of]. now rewrite Nat.eqb_refl. }
  assert (Hrc_o : forall k, k <> key -> received k (tr ++ [EFrame key (f p)]) = received k tr).
  { intros k Hne. unfold received. now rewrite Hrec_o. }
  assert (Hrc_k : received key (tr ++ [EFrame key (f p)]) = S (received key tr)).
  { unfold received. rewrite Hrec_k, app_length. cbn [length]. lia. }
  split; [exact I'|]. constructor.
  - intros k a Hin. apply in_snoc in Hin. destruct Hin as [Hin|E]; [|discriminate].
    destruct (h_sent _ _ H k a Hin) as (Hk & Hle & Hfr & Hpos). rewrite Hnk, Hpl.
    destruct (Nat.eq_dec k key) as [->|Hne].
    + specialize (Hpos p Hp). rewrite Hrc_k, Hrec_k, Hfr. repeat split; try lia.
      * rewrite seq_S, map_app. cbn [map]. do 3 f_equal. lia.
      * intros q. rewrite Hkey. intros [= <-]. lia.
    + rewrite Hrc_o, Hrec_o by assumption. repeat split; try lia; try assumption.
      intros q. rewrite Hoth by assumption. apply Hpos.
  - intros k Hl. destruct (Nat.eq_dec k key) as [->|Hne].
    + exists a0. apply in_snoc. now left.
    + apply pos_live in Hl. rewrite Hoth in Hl by assumption. apply pos_live in Hl.
      destruct (h_live _ _ H k Hl) as [a Ha]. exists a. apply in_snoc. now left.
  - intros k Hk. rewrite Hnk in Hk. rewrite Hrec_o by lia. now apply (h_fresh _ _ H).
  - intros j Hj. rewrite Hpl in Hj. destruct (Nat.lt_ge_cases j (pulled s)) as [Hlt|Hge].
    + destruct (h_cover _ _ H j Hlt) as (k & a & Hin & Hrg). exists k, a. split; [apply in_snoc; now left|].
      destruct (Nat.eq_dec k key) as [->|Hne]; [rewrite Hrc_k|rewrite Hrc_o by assumption]; lia.
    + exists key, a0. split; [apply in_snoc; now left|]. rewrite Hrc_k. lia.
Qed.

Lemma step_pending s tr key n : Hist s tr -> Hist s (tr ++ [EPending key n]).
Proof.
  intros H.
  assert (Hrec : forall k, frames_of k (tr ++ [EPending key n]) = frames_of k tr).
  { intros k. rewrite frames_of_app. cbn [frames_of]. apply app_nil_r. }
  assert (Hrc : forall k, received k (tr ++ [EPending key n]) = received k tr).
  { intros k. unfold received. now rewrite Hrec. }
  constructor.
  - intros k a Hin. apply in_snoc in Hin. destruct Hin as [Hin|E]; [|discriminate].
    rewrite Hrec, Hrc. now apply (h_sent _ _ H).
  - intros k Hl. destruct (h_live _ _ H k Hl) as [a Ha]. exists a. apply in_snoc. now left.
  - intros k Hk. rewrite Hrec. now apply (h_fresh _ _ H).
  - intros j Hj. destruct (h_cover _ _ H j Hj) as (k & a & Hin & Hrg). exists k, a. rewrite Hrc.
    split; [apply in_snoc; now left|assumption].
Qed.

Lemma step_drop s tr key s' : Inv s -> Hist s tr -> drop_output s key = Ok s' ->
  Inv s' /\ Hist s' (tr ++ [EDrop key]).
Proof.
  intros I H Hd. destruct (drop_inv f s key I) as (s1 & Hd1 & I' & Hgone & Hpl & Hnk & Hoth).
  rewrite Hd1 in Hd. injection Hd as <-.
  assert (Hrec : forall k, frames_of k (tr ++ [EDrop key]) = frames_of k tr).
  { intros k. rewrite frames_of_app. cbn [frames_of]. apply app_nil_r. }
  assert (Hrc : forall k, received k (tr ++ [EDrop key]) = received k tr).
  { intros k. unfold received. now rewrite Hrec. }
  split; [exact I'|]. constructor.
  - intros k a Hin. apply in_snoc in Hin. destruct Hin as [Hin|E]; [|discriminate].
    rewrite Hrec, Hrc, Hnk, Hpl. destruct (h_sent _ _ H k a Hin) as (Hk & Hle & Hfr & Hpos).
    repeat split; try assumption. intros p Hp. destruct (Nat.eq_dec k key) as [->|Hne].
    + unfold pos in Hp. rewrite Hgone in Hp. discriminate.
    + rewrite Hoth in Hp by assumption. now apply Hpos.
  - intros k Hl. destruct (Nat.eq_dec k key) as [->|Hne]; [exfalso; now apply Hl|].
    apply pos_live in Hl. rewrite Hoth in Hl by assumption. apply pos_live in Hl.
    destruct (h_live _ _ H k Hl) as [a Ha]. exists a. apply in_snoc. now left.
  - intros k Hk. rewrite Hrec. rewrite Hnk in Hk. now apply (h_fresh _ _ H).
  - intros j Hj. rewrite Hpl in Hj. destruct (h_cover _ _ H j Hj) as (k & a & Hin & Hrg). exists k, a. rewrite Hrc.
    split; [apply in_snoc; now left|assumption].
Qed.

Lemma step_hist s tr o s' e : Inv s -> Hist s tr -> step f s o = Ok (s', e) ->
  Inv s' /\ Hist s' (tr ++ [e]).
Proof.
  intros I H Hs. destruct o as [|k|k|k]; cbn [step] in Hs.
  - unfold send in Hs. injection Hs as <- <-. apply (step_send s tr I H).
  - apply bind_ok in Hs. destruct Hs as ([s1 x] & Hnx & E). cbn [fst snd] in E. injection E as <- <-.
    now apply (step_next s tr k s1 x).
  - apply bind_ok in Hs. destruct Hs as (n & Hpn & E). injection E as <- <-.
    split; [exact I|now apply step_pending].
  - apply bind_ok in Hs. destruct Hs as (s1 & Hd & E). injection E as <- <-.
    now apply (step_drop s tr k s1).
Qed.

Lemma run_hist ops : forall s tr0 s' tr, Inv s -> Hist s tr0 -> run f ops s = Ok (s', tr) ->
  Inv s' /\ Hist s' (tr0 ++ tr).
Proof.
  induction ops as [|o t IH]; intros s tr0 s' tr I H Hr; cbn [run] in Hr.
  - injection Hr as <- <-. rewrite app_nil_r. now split.
  - apply bind_ok in Hr. destruct Hr as ([s1 e] & Hs & Hr). cbn [fst snd] in Hr.
    apply bind_ok in Hr. destruct Hr as ([s2 tr2] & Hr2 & E). cbn [fst snd] in E. injection E as <- <-.
    destruct (step_hist s tr0 o s1 e I H Hs) as [I1 H1].
    destruct (IH s1 (tr0 ++ [e]) s2 tr2 I1 H1 Hr2) as [I2 H2].
    rewrite <- app_assoc in H2. now split.
Qed.

Theorem reachable ops s tr : run f ops init = Ok (s, tr) -> Inv s /\ Hist s tr.
Proof. intros Hr. apply (run_hist ops init [] s tr (inv_init f) hist_init Hr). Qed.

(* ---- the property clauses, for every finite schedule ---- *)
Theorem run_inv ops s tr : run f ops init = Ok (s, tr) -> Inv s.
Proof. intros Hr. apply (reachable ops s tr Hr). Qed.

Theorem run_stream ops s tr : run f ops init = Ok (s, tr) ->
  forall k a, In (ESend k a) tr -> frames_of k tr = map f (seq a (received k tr)).
Proof. intros Hr k a Hin. destruct (reachable ops s tr Hr) as [_ H]. apply (h_sent _ _ H k a Hin). Qed.

Theorem run_pending ops s tr : run f ops init = Ok (s, tr) ->
  forall k a, In (ESend k a) tr -> is_live s k ->
    a + received k tr <= pulled s /\ pending_frames s k = Ok (pulled s - (a + received k tr)).
Proof.
  intros Hr k a Hin Hl. destruct (reachable ops s tr Hr) as [I H].
  destruct (h_sent _ _ H k a Hin) as (_ & Hle & _ & Hpos). destruct (live_pos s k Hl) as [p Hp].
  rewrite <- (Hpos p Hp). split; [rewrite (Hpos p Hp); exact Hle|]. apply (pending_ok f s k p I Hp).
Qed.

Theorem run_pull_once ops s tr : run f ops init = Ok (s, tr) ->
  forall j, j < pulled s <-> exists k a, In (ESend k a) tr /\ a <= j < a + received k tr.
Proof.
  intros Hr j. destruct (reachable ops s tr Hr) as [_ H]. split; [apply (h_cover _ _ H)|].
  intros (k & a & Hin & Hrg). destruct (h_sent _ _ H k a Hin) as (_ & Hle & _). lia.
Qed.

Theorem run_backlog ops s tr : run f ops init = Ok (s, tr) ->
  buf s = map f (seq (pulled s - length (buf s)) (length (buf s))) /\
  length (buf s) <= pulled s /\
  (forall k a, is_live s k -> In (ESend k a) tr -> pulled s - (a + received k tr) <= length (buf s)) /\
  ((exists k, is_live s k) ->
     exists k a, is_live s k /\ In (ESend k a) tr /\ length (buf s) = pulled s - (a + received k tr)) /\
  ((forall k, ~ is_live s k) -> buf s = []) /\
  ((forall k a, is_live s k -> In (ESend k a) tr -> a + received k tr = pulled s) -> buf s = []).
Proof.
  intros Hr. destruct (reachable ops s tr Hr) as [I H].
  destruct (backlog_is_slowest_lag f s I) as (Hbuf & Hlen & Hemp & Hall & Hex).
  assert (Hposk : forall k a, is_live s k -> In (ESend k a) tr -> pos s k = Some (a + received k tr)).
  { intros k a Hl Hin. destruct (live_pos s k Hl) as [p Hp]. destruct (h_sent _ _ H k a Hin) as (_ & _ & _ & Hpos).
    rewrite Hp. f_equal. now apply Hpos. }
  assert (Hsome : fr s <> [] -> exists k a, is_live s k /\ In (ESend k a) tr /\ length (buf s) = pulled s - (a + received k tr)).
  { intros Hne. destruct (Hex Hne) as [k Hk].
    assert (Hl : is_live s k) by (apply pos_live; congruence).
    destruct (h_live _ _ H k Hl) as [a Ha]. exists k, a. split; [assumption|split; [assumption|]].
    rewrite (Hposk k a Hl Ha) in Hk. injection Hk as Hk. lia. }
  assert (Hnone : (forall k, ~ is_live s k) -> fr s = []).
  { intros Hno. destruct (fr s) as [|[k v] t] eqn:E; [reflexivity|]. exfalso. apply (Hno k).
    unfold is_live. rewrite E. simpl. rewrite Nat.eqb_refl. discriminate. }
  split; [exact Hbuf|]. split; [exact Hlen|]. split; [|split; [|split]].
  - intros k a Hl Hin. apply (Hall k _ (Hposk k a Hl Hin)).
  - intros [k Hl]. apply Hsome. intros E. apply Hl. unfold is_live. now rewrite E.
  - intros Hno. apply Hemp. now apply Hnone.
  - intros Hall_up.
    assert (Hd : fr s = [] \/ fr s <> []) by (destruct (fr s); [now left|right; discriminate]).
    destruct Hd as [E|E]; [now apply Hemp|].
    destruct (Hsome E) as (k & a & Hl & Hin & Hlen').
    specialize (Hall_up k a Hl Hin). apply length_zero_iff_nil. lia.
Qed.

(* ---- attachment point: an output attached after the prefix ops1 starts at the frame whose index
   is the number of source pulls made during ops1, whatever happens afterwards ---- *)
Lemma run_app ops1 ops2 s :
  run f (ops1 ++ ops2) s =
  bind (run f ops1 s) (fun r => bind (run f ops2 (fst r)) (fun r2 => Ok (fst r2, snd r ++ snd r2))).
Proof.
  revert s; induction ops1 as [|o t IH]; intros s; cbn [app run bind fst snd].
  - destruct (run f ops2 s) as [[s2 tr2]| |]; reflexivity.
  - destruct (step f s o) as [[s1 e]| |]; cbn [bind fst snd]; try reflexivity.
    rewrite IH. destruct (run f t s1) as [[s2 tr2]| |]; cbn [bind fst snd]; try reflexivity.
    destruct (run f ops2 s2) as [[s3 tr3]| |]; reflexivity.
Qed.

Theorem run_attach ops1 ops2 s tr : run f (ops1 ++ OSend :: ops2) init = Ok (s, tr) ->
  exists s1 tr1 tr2, run f ops1 init = Ok (s1, tr1) /\
    tr = tr1 ++ ESend (nk s1) (pulled s1) :: tr2 /\
    frames_of (nk s1) tr = map f (seq (pulled s1) (received (nk s1) tr)).
Proof.
  intros Hr. pose proof Hr as Hr0. rewrite run_app in Hr. apply bind_ok in Hr. destruct Hr as ([s1 tr1] & Hr1 & Hr).
  cbn [fst snd] in Hr. apply bind_ok in Hr. destruct Hr as ([s2 tr2] & Hr2 & E). cbn [fst snd] in E. injection E as <- <-.
  cbn [run step] in Hr2. unfold send in Hr2. cbn [bind fst snd] in Hr2.
  apply bind_ok in Hr2. destruct Hr2 as ([s3 tr3] & Hr3 & E). cbn [fst snd] in E. injection E as <- <-.
  exists s1, tr1, tr3. split; [exact Hr1|]. split; [reflexivity|].
  apply (run_stream _ _ _ Hr0). apply in_elt.
Qed.

(* ---- a schedule that only addresses live outputs never panics ---- *)
Lemma run_no_panic ops : forall s live, Inv s -> (forall k, In k live <-> is_live s k) ->
  sched_ok (nk s) live ops -> exists s' tr, run f ops s = Ok (s', tr).
Proof.
  induction ops as [|o t IH]; intros s live I Hlv Hok; [cbn; eauto|].
  assert (Hgo : forall s1 e live1, step f s o = Ok (s1, e) -> Inv s1 -> (forall k, In k live1 <-> is_live s1 k) ->
            sched_ok (nk s1) live1 t -> exists s' tr, run f (o :: t) s = Ok (s', tr)).
  { intros s1 e live1 Hs I1 Hlv1 Hok1. destruct (IH s1 live1 I1 Hlv1 Hok1) as (s' & tr & Hr).
    exists s', (e :: tr). cbn [run]. rewrite Hs. cbn [bind fst snd]. rewrite Hr. reflexivity. }
  destruct o as [|k|k|k]; cbn [sched_ok] in Hok.
  - destruct (send_inv f s I) as (I' & Hnew & Hold).
    apply (Hgo (fst (send s)) (ESend (nk s) (pulled s)) (nk s :: live)); [reflexivity|exact I'| |exact Hok].
    intros k. cbn [In]. rewrite Hlv, <- !pos_live. destruct (Nat.eq_dec k (nk s)) as [->|Hne].
    + change (snd (send s)) with (nk s) in Hnew. rewrite Hnew. split; [intros _; discriminate|now left].
    + rewrite Hold by assumption. intuition congruence.
  - destruct Hok as [Hin Hok]. apply Hlv in Hin. destruct (live_pos s k Hin) as [p Hp].
    destruct (next_inv f s k p I Hp) as (s1 & Hnx & I1 & Hkey & Hoth & Hpl & Hnk).
    apply (Hgo s1 (EFrame k (f p)) live); [cbn [step]; rewrite Hnx; reflexivity|exact I1| |now rewrite Hnk].
    intros k'. rewrite Hlv, <- !pos_live. destruct (Nat.eq_dec k' k) as [->|Hne].
    + rewrite Hkey, Hp. intuition congruence.
    + now rewrite Hoth.
  - destruct Hok as [Hin Hok]. apply Hlv in Hin. destruct (live_pos s k Hin) as [p Hp].
    destruct (pending_ok f s k p I Hp) as [Hpn _].
    apply (Hgo s (EPending k (pulled s - p)) live); [cbn [step]; rewrite Hpn; reflexivity|exact I|exact Hlv|exact Hok].
  - destruct (drop_inv f s k I) as (s1 & Hd & I1 & Hgone & Hpl & Hnk & Hoth).
    apply (Hgo s1 (EDrop k) (filter (fun j => negb (j =? k)) live)); [cbn [step]; rewrite Hd; reflexivity|exact I1| |now rewrite Hnk].
    intros k'. rewrite filter_In, Hlv. destruct (Nat.eqb_spec k' k) as [->|Hne]; cbn [negb].
    + unfold is_live at 2. rewrite Hgone. intuition congruence.
    + rewrite <- !pos_live, Hoth by assumption. intuition.
Qed.

Theorem sched_ok_runs ops : sched_ok 0 [] ops -> exists s tr, run f ops init = Ok (s, tr).
Proof. intros Hok. apply (run_no_panic ops init [] (inv_init f)); [|exact Hok].
  intros k. split; [intros []|]. intros H. exfalso. apply H. reflexivity. Qed.

(* ... and conversely a run that succeeds only addressed live outputs: the model panics exactly
   when next / pending_frames is issued for a key that was never sent or has been dropped *)
Lemma run_ok_sched ops : forall s live s' tr, Inv s -> (forall k, In k live <-> is_live s k) ->
  run f ops s = Ok (s', tr) -> sched_ok (nk s) live ops.
Proof.
  induction ops as [|o t IH]; intros s live s' tr I Hlv Hr; [exact Logic.I|].
  cbn [run] in Hr. apply bind_ok in Hr. destruct Hr as ([s1 e] & Hs & Hr). cbn [fst snd] in Hr.
  apply bind_ok in Hr. destruct Hr as ([s2 tr2] & Hr2 & _).
  destruct o as [|k|k|k]; cbn [sched_ok step] in *.
  - assert (E1 : s1 = fst (send s)) by (unfold send in *; injection Hs as E1 _; symmetry; exact E1). subst s1. clear Hs.
    destruct (send_inv f s I) as (I' & Hnew & Hold).
    apply (IH (fst (send s)) (nk s :: live) s2 tr2 I'); [|exact Hr2].
    intros k. cbn [In]. rewrite Hlv, <- !pos_live. destruct (Nat.eq_dec k (nk s)) as [->|Hne].
    + change (snd (send s)) with (nk s) in Hnew. rewrite Hnew. split; [intros _; discriminate|now left].
    + rewrite Hold by assumption. intuition congruence.
  - apply bind_ok in Hs. destruct Hs as ([s3 x] & Hnx & E). cbn [fst snd] in E. injection E as <- <-.
    destruct (lookup k (fr s)) as [r|] eqn:Hlk; [|rewrite next_unknown in Hnx by assumption; discriminate].
    assert (Hin : is_live s k) by (unfold is_live; congruence).
    split; [now apply Hlv|]. destruct (live_pos s k Hin) as [p Hp].
    destruct (next_inv f s k p I Hp) as (s4 & Hnx4 & I4 & Hkey & Hoth & Hpl & Hnk).
    rewrite Hnx4 in Hnx. injection Hnx as <- <-. rewrite <- Hnk.
    apply (IH s4 live s2 tr2 I4); [|exact Hr2].
    intros k'. rewrite Hlv, <- !pos_live. destruct (Nat.eq_dec k' k) as [->|Hne].
    + rewrite Hkey, Hp. intuition congruence.
    + now rewrite Hoth.
  - apply bind_ok in Hs. destruct Hs as (n & Hpn & E). injection E as <- <-.
    split; [|now apply (IH _ live _ _ I Hlv Hr2)].
    apply Hlv. unfold is_live. unfold pending_frames in Hpn. destruct (lookup k (fr s)); [discriminate|discriminate Hpn].
  - apply bind_ok in Hs. destruct Hs as (s3 & Hd & E). injection E as <- <-.
    destruct (drop_inv f s k I) as (s4 & Hd4 & I4 & Hgone & Hpl & Hnk & Hoth).
    rewrite Hd4 in Hd. injection Hd as <-. rewrite <- Hnk.
    apply (IH s4 (filter (fun j => negb (j =? k)) live) s2 tr2 I4); [|exact Hr2].
    intros k'. rewrite filter_In, Hlv. destruct (Nat.eqb_spec k' k) as [->|Hne]; cbn [negb].
    + unfold is_live at 2. rewrite Hgone. intuition congruence.
    + rewrite <- !pos_live, Hoth by assumption. intuition.
Qed.

Theorem sched_ok_iff ops : sched_ok 0 [] ops <-> exists s tr, run f ops init = Ok (s, tr).
Proof.
  split; [apply sched_ok_runs|]. intros (s & tr & Hr).
  apply (run_ok_sched ops init [] s tr (inv_init f)); [|exact Hr].
  intros k. split; [intros []|]. intros H. exfalso. apply H. reflexivity.
Qed.

End Hist.
