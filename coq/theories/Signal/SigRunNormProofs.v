(* The normalisation of Signal/SigRun.v ([norm_case]: every delay length clamped to 1 + the number of calls of next
   the case can make) is invisible: running the normalised case IS running the case, for every case (any trees, any
   ops, any number of borrowed bases) and every executable instance [OP] (the five hand instances and the instances
   over the C03 sample model alike).  So the correspondence may send delay(2^32), delay(usize::MAX) to the harness and
   to the unary-nat model.  From SigNormProofs (drel: "same tree up to delays that outlast the budget").
   Also: the Z counter of the executable take(n) is the nat counter of the proved Sig.take_next. *)
Require Import Floats.SpecFloat.
Require Import List ZArith Bool Arith Lia.
From Flocq Require Import Core BinarySingleNaN.
From Dasp Require Import Base.Res Base.Float Signal.Sig Signal.SigProofs Signal.SigNormProofs Signal.SigRun.
Import ListNotations.
Local Open Scope nat_scope.

Section P.
Variable OP : zops.

Notation R := (drel zframe Z Z Z).
Notation IR := (irel zframe Z Z Z).

Lemma R_obs j a b : R j a b ->
  exhausted a = exhausted b /\ leaf_counts a = leaf_counts b /\
  fst (znext OP a) = fst (znext OP b) /\ ztrace OP a = ztrace OP b.
Proof.
  intros H.
  destruct (drel_obs zframe Z Z Z (o_eqm OP) (o_nch OP) (fun l => l) z_fmap (o_add OP) (o_mul OP) (o_scale OP)
              (o_offset OP) (o_tos OP) (o_ofs OP) (o_ltb OP) (o_neg OP) j a b H) as [H1 [H2 [_ [H4 H5]]]].
  unfold znext, ztrace. auto.
Qed.

Lemma R_step j a b : R (S j) a b -> R j (snd (znext OP a)) (snd (znext OP b)).
Proof.
  intros H.
  exact (drel_step zframe Z Z Z (o_eqm OP) (o_nch OP) (fun l => l) z_fmap (o_add OP) (o_mul OP) (o_scale OP)
           (o_offset OP) (o_tos OP) (o_ofs OP) (o_ltb OP) (o_neg OP) j a b H).
Qed.

Lemma R_until j a b : R (S j) a b ->
  fst (zuntil_next OP a) = fst (zuntil_next OP b) /\ zuntil_trace OP a = zuntil_trace OP b /\
  R j (snd (zuntil_next OP a)) (snd (zuntil_next OP b)).
Proof.
  intros H.
  exact (drel_until zframe Z Z Z (o_eqm OP) (o_nch OP) (fun l => l) z_fmap (o_add OP) (o_mul OP) (o_scale OP)
           (o_offset OP) (o_tos OP) (o_ofs OP) (o_ltb OP) (o_neg OP) j a b H).
Qed.

Lemma R_le j j' a b : j' <= j -> R j a b -> R j' a b.
Proof. apply drel_le. Qed.

Lemma IR_le j j' st st' : j' <= j -> IR j st st' -> IR j' st st'.
Proof. intros Hj [H1 H2]. split; [exact H1|]. now apply R_le with j. Qed.

Lemma F2_le j j' l l' : j' <= j -> Forall2 (R j) l l' -> Forall2 (R j') l l'.
Proof. intros Hj H. induction H; constructor; auto. now apply R_le with j. Qed.

(* ---- k calls of next ---- *)
Lemma run_next_R k : forall j a b, R (k + j) a b ->
  fst (run_next OP k a) = fst (run_next OP k b) /\ R j (snd (run_next OP k a)) (snd (run_next OP k b)).
Proof.
  induction k as [|k IH]; intros j a b H; cbn [run_next]; [split; [reflexivity|exact H]|].
  destruct (R_obs _ _ _ H) as [He [_ [Hf Ht]]].
  pose proof (R_step (k + j) a b H) as Hs.
  destruct (znext OP a) as [x a1], (znext OP b) as [y b1]. cbn [fst snd] in Hf, Hs. subst y.
  destruct (R_obs _ _ _ Hs) as [He' _].
  specialize (IH j _ _ Hs).
  destruct (run_next OP k a1) as [la sa], (run_next OP k b1) as [lb sb]. cbn [fst snd] in *.
  destruct IH as [IH1 IH2]. split; [|exact IH2]. now rewrite He, He', Ht, IH1.
Qed.

Lemma run_until_R cap : forall extra j a b, R (cap + j) a b ->
  fst (run_until OP cap extra a) = fst (run_until OP cap extra b) /\
  R j (snd (run_until OP cap extra a)) (snd (run_until OP cap extra b)).
Proof.
  induction cap as [|cap IH]; intros extra j a b H; cbn [run_until]; [split; [reflexivity|exact H]|].
  destruct (R_until (cap + j) a b H) as [Hf [Ht Hs]].
  destruct (zuntil_next OP a) as [[x|] a1], (zuntil_next OP b) as [[y|] b1]; cbn [fst snd] in Hf, Hs; try discriminate.
  - injection Hf as ->. specialize (IH extra j _ _ Hs).
    destruct (run_until OP cap extra a1), (run_until OP cap extra b1). cbn [fst snd] in *.
    destruct IH as [IH1 IH2]. split; [|exact IH2]. now rewrite Ht, IH1.
  - destruct extra as [|extra].
    + cbn [fst snd]. rewrite Ht. split; [reflexivity|]. apply R_le with (cap + j); [lia|exact Hs].
    + specialize (IH extra j _ _ Hs).
      destruct (run_until OP cap extra a1), (run_until OP cap extra b1). cbn [fst snd] in *.
      destruct IH as [IH1 IH2]. split; [|exact IH2]. now rewrite Ht, IH1.
Qed.

Lemma run_take_R cap : forall extra n j a b, R (cap + j) a b ->
  fst (run_take OP cap extra n a) = fst (run_take OP cap extra n b) /\
  R j (snd (run_take OP cap extra n a)) (snd (run_take OP cap extra n b)).
Proof.
  induction cap as [|cap IH]; intros extra n j a b H; cbn [run_take]; [split; [reflexivity|exact H]|].
  destruct (take_live n).
  - destruct (R_obs _ _ _ H) as [_ [_ [Hf Ht]]].
    pose proof (R_step (cap + j) a b H) as Hs.
    destruct (znext OP a) as [x a1], (znext OP b) as [y b1]. cbn [fst snd] in Hf, Hs. subst y.
    specialize (IH extra (n - 1)%Z j _ _ Hs).
    destruct (run_take OP cap extra (n - 1)%Z a1), (run_take OP cap extra (n - 1)%Z b1). cbn [fst snd] in *.
    destruct IH as [IH1 IH2]. split; [|exact IH2]. now rewrite Ht, IH1.
  - destruct extra as [|extra].
    + cbn [fst snd]. split; [reflexivity|]. apply R_le with (S cap + j); [lia|exact H].
    + assert (H' : R (cap + j) a b) by (apply R_le with (S cap + j); [lia|exact H]).
      specialize (IH extra n j _ _ H').
      destruct (run_take OP cap extra n a), (run_take OP cap extra n b). cbn [fst snd] in *.
      destruct IH as [IH1 IH2]. split; [|exact IH2]. now rewrite IH1.
Qed.

(* ---- interleaved samples: one call refills at most twice (fuel 2) ---- *)
Lemma inter_trace_R j st st' : IR j st st' -> inter_trace OP st = inter_trace OP st'.
Proof.
  intros [Hc Hr]. unfold inter_trace. rewrite <- Hc.
  destruct (R_obs _ _ _ Hr) as [He [_ [_ Ht]]]. now rewrite He, Ht.
Qed.

Lemma next_sample_R j st st' : IR (2 + j) st st' ->
  match znext_sample OP 2 st, znext_sample OP 2 st' with
  | Ok (o, s1), Ok (o', s1') => o = o' /\ IR j s1 s1'
  | UB, UB => True
  | _, _ => False
  end.
Proof.
  intros H.
  exact (drel_next_sample zframe Z Z Z (o_eqm OP) (o_nch OP) (fun f => f) (fun l => l) z_fmap (o_add OP) (o_mul OP)
           (o_scale OP) (o_offset OP) (o_tos OP) (o_ofs OP) (o_ltb OP) (o_neg OP) 2 j st st' H).
Qed.

Lemma run_inter_R cap : forall extra j st st', IR (2 * cap + j) st st' ->
  fst (run_inter OP cap extra st) = fst (run_inter OP cap extra st') /\
  IR j (snd (run_inter OP cap extra st)) (snd (run_inter OP cap extra st')).
Proof.
  induction cap as [|cap IH]; intros extra j st st' H; cbn [run_inter]; [split; [reflexivity|exact H]|].
  replace (2 * S cap + j) with (2 + (2 * cap + j)) in H by lia.
  pose proof (inter_trace_R _ _ _ H) as Ht.
  pose proof (next_sample_R _ _ _ H) as Hn.
  destruct (znext_sample OP 2 st) as [[[x|] s1]| |], (znext_sample OP 2 st') as [[[y|] s1']| |]; try contradiction;
    try (apply proj1 in Hn; discriminate).
  - destruct Hn as [Hx Hs]. injection Hx as ->. specialize (IH extra j _ _ Hs).
    destruct (run_inter OP cap extra s1), (run_inter OP cap extra s1'). cbn [fst snd] in *.
    destruct IH as [IH1 IH2]. split; [|exact IH2]. now rewrite Ht, IH1.
  - destruct Hn as [_ Hs]. destruct extra as [|extra].
    + cbn [fst snd]. rewrite Ht. split; [reflexivity|]. apply IR_le with (2 * cap + j); [lia|exact Hs].
    + specialize (IH extra j _ _ Hs).
      destruct (run_inter OP cap extra s1), (run_inter OP cap extra s1'). cbn [fst snd] in *.
      destruct IH as [IH1 IH2]. split; [|exact IH2]. now rewrite Ht, IH1.
  - cbn [fst snd]. split; [reflexivity|]. apply IR_le with (2 + (2 * cap + j)); [lia|exact H].
Qed.

(* ---- the iterators as values ---- *)
Inductive zrel (j : nat) : zit -> zit -> Prop :=
| ZR_until a b : R j a b -> zrel j (ItUntil a) (ItUntil b)
| ZR_take n a b : R j a b -> zrel j (ItTake n a) (ItTake n b)
| ZR_inter st st' : IR j st st' -> zrel j (ItInter st) (ItInter st').

Lemma zrel_le j j' it it' : j' <= j -> zrel j it it' -> zrel j' it it'.
Proof.
  intros Hj H. destruct H; constructor; try (now apply R_le with j). now apply IR_le with j.
Qed.

Lemma zrel_sig j it it' : zrel j it it' -> R j (it_sig it) (it_sig it').
Proof. intros H. destruct H; cbn [it_sig]; auto. now destruct H. Qed.

Lemma it_step_R j it it' : zrel (2 + j) it it' ->
  fst (it_step OP it) = fst (it_step OP it') /\ zrel j (snd (it_step OP it)) (snd (it_step OP it')).
Proof.
  intros H. destruct H as [a b H|n a b H|st st' H]; cbn [it_step].
  - assert (H' : R (S j) a b) by (apply R_le with (2 + j); [lia|exact H]).
    destruct (R_until j a b H') as [Hf [Ht Hs]].
    destruct (zuntil_next OP a) as [[x|] a1], (zuntil_next OP b) as [[y|] b1]; cbn [fst snd] in Hf, Hs; try discriminate.
    + injection Hf as ->. cbn [fst snd]. rewrite Ht. split; [reflexivity|now constructor].
    + cbn [fst snd]. rewrite Ht. split; [reflexivity|now constructor].
  - destruct (take_live n).
    + assert (H' : R (S j) a b) by (apply R_le with (2 + j); [lia|exact H]).
      destruct (R_obs _ _ _ H') as [_ [_ [Hf Ht]]].
      pose proof (R_step j a b H') as Hs.
      destruct (znext OP a) as [x a1], (znext OP b) as [y b1]. cbn [fst snd] in Hf, Hs. subst y.
      cbn [fst snd]. rewrite Ht. split; [reflexivity|now constructor].
    + cbn [fst snd]. split; [reflexivity|]. constructor. apply R_le with (2 + j); [lia|exact H].
  - pose proof (inter_trace_R _ _ _ H) as Ht.
    pose proof (next_sample_R _ _ _ H) as Hn.
    destruct (znext_sample OP 2 st) as [[[x|] s1]| |], (znext_sample OP 2 st') as [[[y|] s1']| |]; try contradiction;
      try (apply proj1 in Hn; discriminate).
    + destruct Hn as [Hx Hs]. injection Hx as ->. cbn [fst snd]. rewrite Ht. split; [reflexivity|now constructor].
    + destruct Hn as [_ Hs]. cbn [fst snd]. rewrite Ht. split; [reflexivity|now constructor].
    + cbn [fst snd]. split; [reflexivity|]. constructor. apply IR_le with (2 + j); [lia|exact H].
Qed.

Lemma it_pre_R pre : forall j it it', zrel (2 * pre + j) it it' ->
  fst (it_pre OP pre it) = fst (it_pre OP pre it') /\ zrel j (snd (it_pre OP pre it)) (snd (it_pre OP pre it')).
Proof.
  induction pre as [|pre IH]; intros j it it' H; cbn [it_pre]; [split; [reflexivity|exact H]|].
  replace (2 * S pre + j) with (2 + (2 * pre + j)) in H by lia.
  destruct (it_step_R _ _ _ H) as [Hf Hs].
  destruct (it_step OP it) as [[r ev] it1], (it_step OP it') as [[r' ev'] it1']. cbn [fst snd] in Hf, Hs.
  injection Hf as -> ->. specialize (IH j _ _ Hs).
  destruct (it_pre OP pre it1), (it_pre OP pre it1'). cbn [fst snd] in *.
  destruct IH as [IH1 IH2]. split; [|exact IH2]. now rewrite IH1.
Qed.

Lemma it_drain_R cap : forall extra j it it', zrel (2 * cap + j) it it' ->
  fst (it_drain OP cap extra it) = fst (it_drain OP cap extra it') /\
  zrel j (snd (it_drain OP cap extra it)) (snd (it_drain OP cap extra it')).
Proof.
  induction cap as [|cap IH]; intros extra j it it' H; cbn [it_drain]; [split; [reflexivity|exact H]|].
  replace (2 * S cap + j) with (2 + (2 * cap + j)) in H by lia.
  destruct (it_step_R _ _ _ H) as [Hf Hs].
  destruct (it_step OP it) as [[r ev] it1], (it_step OP it') as [[r' ev'] it1']. cbn [fst snd] in Hf, Hs.
  injection Hf as -> ->.
  destruct r' as [p|].
  - specialize (IH extra j _ _ Hs).
    destruct (it_drain OP cap extra it1), (it_drain OP cap extra it1'). cbn [fst snd] in *.
    destruct IH as [IH1 IH2]. split; [|exact IH2]. now rewrite IH1.
  - destruct extra as [|extra].
    + cbn [fst snd]. split; [reflexivity|]. apply zrel_le with (2 * cap + j); [lia|exact Hs].
    + specialize (IH extra j _ _ Hs).
      destruct (it_drain OP cap extra it1), (it_drain OP cap extra it1'). cbn [fst snd] in *.
      destruct IH as [IH1 IH2]. split; [|exact IH2]. now rewrite IH1.
Qed.

Lemma it_nth_R k : forall acc j it it', zrel (2 * S k + j) it it' ->
  fst (it_nth OP k acc it) = fst (it_nth OP k acc it') /\ zrel j (snd (it_nth OP k acc it)) (snd (it_nth OP k acc it')).
Proof.
  induction k as [|k IH]; intros acc j it it' H; cbn [it_nth].
  - replace (2 * 1 + j) with (2 + j) in H by lia.
    destruct (it_step_R _ _ _ H) as [Hf Hs].
    destruct (it_step OP it) as [[r ev] it1], (it_step OP it') as [[r' ev'] it1']. cbn [fst snd] in Hf, Hs.
    injection Hf as -> ->. cbn [fst snd]. split; [reflexivity|exact Hs].
  - replace (2 * S (S k) + j) with (2 + (2 * S k + j)) in H by lia.
    destruct (it_step_R _ _ _ H) as [Hf Hs].
    destruct (it_step OP it) as [[r ev] it1], (it_step OP it') as [[r' ev'] it1']. cbn [fst snd] in Hf, Hs.
    injection Hf as -> ->.
    destruct r' as [p|].
    + apply IH. exact Hs.
    + cbn [fst snd]. split; [reflexivity|]. apply zrel_le with (2 * S k + j); [lia|exact Hs].
Qed.

(* ---- building the trees ---- *)
Lemma F2_nth j (l l' : list zsig) : Forall2 (R j) l l' -> forall i, R j (nth i l dummy) (nth i l' dummy).
Proof.
  intros H. induction H; intros [|i]; cbn [nth]; auto using DR_refl.
Qed.

Lemma build_R j c bases bases' arg arg' : Forall2 (R j) bases bases' -> R j arg arg' -> j < Z.to_nat c ->
  forall t, R j (build OP bases arg t) (build OP bases' arg' (clamp_tree c t)).
Proof.
  intros Hb Ha Hc t. induction t; cbn [build clamp_tree]; try (constructor; assumption); try apply DR_refl.
  - (* delay *)
    constructor; [|assumption].
    destruct (Z.min_spec k c) as [[_ ->]|[Hge ->]]; [now left|right; lia].
  - (* borrowed base *)
    constructor. now apply F2_nth.
  - exact Ha.
Qed.

Lemma own_build_trace_clamp c t : own_build_trace OP (clamp_tree c t) = own_build_trace OP t.
Proof. induction t; cbn [own_build_trace clamp_tree]; congruence. Qed.

Lemma ref_paths_clamp c t : ref_paths (clamp_tree c t) = ref_paths t.
Proof. induction t; cbn [ref_paths clamp_tree]; congruence. Qed.

Lemma set_nth_R j x x' : R j x x' -> forall l l', Forall2 (R j) l l' ->
  forall i, Forall2 (R j) (set_nth_sig i x l) (set_nth_sig i x' l').
Proof.
  intros Hx l l' H. induction H; intros [|i]; cbn [set_nth_sig]; constructor; auto.
Qed.

Definition byref_of (o : option zsig) : option zsig :=
  match o with Some (ByRef s) => Some s | _ => None end.

Lemma byref_of_R j p t t' : R j t t' ->
  match byref_of (sub_at p t), byref_of (sub_at p t') with
  | Some s, Some s' => R j s s'
  | None, None => True
  | _, _ => False
  end.
Proof.
  intros H. pose proof (drel_sub_at zframe Z Z Z j p t t' H) as Hs.
  destruct (sub_at p t) as [x|], (sub_at p t') as [x'|]; try contradiction; [|exact I].
  pose proof (drel_byref zframe Z Z Z j x x' Hs) as Hb.
  destruct x; destruct x'; cbn [byref_of]; try contradiction; auto.
Qed.

Lemma hand_back_step (final : zsig) (bs : list zsig) (ip : Z * path) :
  match sub_at (snd ip) final with
  | Some (ByRef s) => set_nth_sig (Z.to_nat (fst ip)) s bs
  | _ => bs
  end = match byref_of (sub_at (snd ip) final) with Some s => set_nth_sig (Z.to_nat (fst ip)) s bs | None => bs end.
Proof. destruct (sub_at (snd ip) final) as [[]|]; reflexivity. Qed.

Lemma hand_back_R j c t final final' : R j final final' -> forall bs bs', Forall2 (R j) bs bs' ->
  Forall2 (R j) (hand_back t final bs) (hand_back (clamp_tree c t) final' bs').
Proof.
  intros Hf. unfold hand_back. rewrite ref_paths_clamp.
  induction (ref_paths t) as [|ip ps IH]; intros bs bs' Hb; cbn [fold_left]; [exact Hb|].
  apply IH. rewrite !hand_back_step.
  pose proof (byref_of_R j (snd ip) final final' Hf) as Hr.
  destruct (byref_of (sub_at (snd ip) final)), (byref_of (sub_at (snd ip) final')); try contradiction; auto.
  now apply set_nth_R.
Qed.

Lemma enc_counts_R j a b : R j a b -> enc_counts a = enc_counts b.
Proof. intros H. unfold enc_counts. destruct (R_obs _ _ _ H) as [_ [Hl _]]. now rewrite Hl. Qed.

(* ---- one op ---- *)
Lemma run_op_R c o j bases bases' : Forall2 (R (op_budget o + j)) bases bases' -> op_budget o + j < Z.to_nat c ->
  fst (run_op OP bases o) = fst (run_op OP bases' (clamp_op c o)) /\
  Forall2 (R j) (snd (run_op OP bases o)) (snd (run_op OP bases' (clamp_op c o))).
Proof.
  intros Hb Hc.
  assert (Hb0 : Forall2 (R j) bases bases') by (apply F2_le with (op_budget o + j); [lia|exact Hb]).
  destruct o as [k t|cap extra t|n cap extra t|cap extra t|id fr cap extra t|j0 k t|kind n pre mode k cap extra t];
    cbn [run_op clamp_op op_budget] in *; rewrite own_build_trace_clamp.
  - (* ONext *)
    pose proof (build_R _ c _ _ dummy dummy Hb (DR_refl _ _ _ _ _ _) Hc t) as Hs.
    destruct (run_next_R _ _ _ _ Hs) as [H1 H2].
    destruct (run_next OP (Z.to_nat k) (build OP bases dummy t)) as [l s1],
             (run_next OP (Z.to_nat k) (build OP bases' dummy (clamp_tree c t))) as [l' s1']. cbn [fst snd] in *.
    split; [now rewrite H1, (enc_counts_R _ _ _ H2)|now apply hand_back_R].
  - (* OUntil *)
    pose proof (build_R _ c _ _ dummy dummy Hb (DR_refl _ _ _ _ _ _) Hc t) as Hs.
    destruct (run_until_R _ (Z.to_nat extra) _ _ _ Hs) as [H1 H2].
    destruct (run_until OP (Z.to_nat cap) (Z.to_nat extra) (build OP bases dummy t)) as [l s1],
             (run_until OP (Z.to_nat cap) (Z.to_nat extra) (build OP bases' dummy (clamp_tree c t))) as [l' s1']. cbn [fst snd] in *.
    split; [now rewrite H1, (enc_counts_R _ _ _ H2)|now apply hand_back_R].
  - (* OTake *)
    pose proof (build_R _ c _ _ dummy dummy Hb (DR_refl _ _ _ _ _ _) Hc t) as Hs.
    destruct (run_take_R _ (Z.to_nat extra) n _ _ _ Hs) as [H1 H2].
    destruct (run_take OP (Z.to_nat cap) (Z.to_nat extra) n (build OP bases dummy t)) as [l s1],
             (run_take OP (Z.to_nat cap) (Z.to_nat extra) n (build OP bases' dummy (clamp_tree c t))) as [l' s1']. cbn [fst snd] in *.
    split; [now rewrite H1, (enc_counts_R _ _ _ H2)|now apply hand_back_R].
  - (* OInter *)
    pose proof (build_R _ c _ _ dummy dummy Hb (DR_refl _ _ _ _ _ _) Hc t) as Hs.
    assert (Hi : IR (2 * Z.to_nat cap + j) {| isig := build OP bases dummy t; icur := None |}
                    {| isig := build OP bases' dummy (clamp_tree c t); icur := None |}) by (split; [reflexivity|exact Hs]).
    destruct (run_inter_R _ (Z.to_nat extra) _ _ _ Hi) as [H1 [_ H2]].
    destruct (run_inter OP (Z.to_nat cap) (Z.to_nat extra) {| isig := build OP bases dummy t; icur := None |}) as [l s1],
             (run_inter OP (Z.to_nat cap) (Z.to_nat extra) {| isig := build OP bases' dummy (clamp_tree c t); icur := None |}) as [l' s1'].
    cbn [fst snd] in *.
    split; [now rewrite H1, (enc_counts_R _ _ _ H2)|now apply hand_back_R].
  - (* OLift *)
    unfold lift. cbv beta.
    pose proof (build_R _ c _ _ (@from_iter zframe Z Z Z id fr) (@from_iter zframe Z Z Z id fr) Hb (DR_refl _ _ _ _ _ _) Hc t) as Hs.
    destruct (run_until_R _ (Z.to_nat extra) _ _ _ Hs) as [H1 H2].
    destruct (run_until OP (Z.to_nat cap) (Z.to_nat extra) (build OP bases (@from_iter zframe Z Z Z id fr) t)) as [l s1],
             (run_until OP (Z.to_nat cap) (Z.to_nat extra) (build OP bases' (@from_iter zframe Z Z Z id fr) (clamp_tree c t))) as [l' s1']. cbn [fst snd] in *.
    split; [now rewrite H1, (enc_counts_R _ _ _ H2)|now apply hand_back_R].
  - (* OSigClone *)
    rewrite <- Nat.add_assoc in Hb, Hc.
    pose proof (build_R _ c _ _ dummy dummy Hb (DR_refl _ _ _ _ _ _) Hc t) as Hs.
    destruct (run_next_R _ _ _ _ Hs) as [H1 H2].
    destruct (run_next OP (Z.to_nat j0) (build OP bases dummy t)) as [l0 s1],
             (run_next OP (Z.to_nat j0) (build OP bases' dummy (clamp_tree c t))) as [l0' s1']. cbn [fst snd] in H1, H2.
    destruct (run_next_R _ _ _ _ H2) as [H3 H4].
    destruct (run_next OP (Z.to_nat k) s1) as [la sa], (run_next OP (Z.to_nat k) s1') as [la' sa']. cbn [fst snd] in *.
    split; [now rewrite H1, H3, (enc_counts_R _ _ _ H4)|now apply hand_back_R].
  - (* OIter *)
    rewrite <- !Nat.add_assoc in Hb, Hc.
    pose proof (build_R _ c _ _ dummy dummy Hb (DR_refl _ _ _ _ _ _) Hc t) as Hs.
    set (s := build OP bases dummy t) in *. set (s' := build OP bases' dummy (clamp_tree c t)) in *.
    assert (H0 : zrel (2 * Z.to_nat pre + (2 * S (Z.to_nat k) + (2 * Z.to_nat cap + j)))
                   (match kind with 0%Z => ItUntil s | 1%Z => ItTake n s | _ => ItInter {| isig := s; icur := None |} end)
                   (match kind with 0%Z => ItUntil s' | 1%Z => ItTake n s' | _ => ItInter {| isig := s'; icur := None |} end)).
    { destruct kind as [|[p|p|]|p]; constructor; try exact Hs; split; try reflexivity; exact Hs. }
    destruct (it_pre_R _ _ _ _ H0) as [H1 H2].
    destruct (it_pre OP (Z.to_nat pre) _) as [l0 it1]. destruct (it_pre OP (Z.to_nat pre) _) as [l0' it1'].
    cbn [fst snd] in H1, H2. subst l0'.
    assert (Hd : zrel (2 * Z.to_nat cap + j) it1 it1') by (apply zrel_le with (2 * S (Z.to_nat k) + (2 * Z.to_nat cap + j)); [lia|exact H2]).
    assert (Hm :
      fst (match mode with
           | 0%Z => it_drain OP (Z.to_nat cap) (Z.to_nat extra) it1
           | 1%Z => let (a, ita) := it_drain OP (Z.to_nat cap) (Z.to_nat extra) it1 in
                    let (b, _) := it_drain OP (Z.to_nat cap) (Z.to_nat extra) it1 in (a ++ b, ita)
           | _ => let (o1, it') := it_nth OP (Z.to_nat k) [] it1 in
                  let (a, ita) := it_drain OP (Z.to_nat cap) (Z.to_nat extra) it' in (o1 :: a, ita)
           end) =
      fst (match mode with
           | 0%Z => it_drain OP (Z.to_nat cap) (Z.to_nat extra) it1'
           | 1%Z => let (a, ita) := it_drain OP (Z.to_nat cap) (Z.to_nat extra) it1' in
                    let (b, _) := it_drain OP (Z.to_nat cap) (Z.to_nat extra) it1' in (a ++ b, ita)
           | _ => let (o1, it') := it_nth OP (Z.to_nat k) [] it1' in
                  let (a, ita) := it_drain OP (Z.to_nat cap) (Z.to_nat extra) it' in (o1 :: a, ita)
           end) /\
      zrel j (snd (match mode with
           | 0%Z => it_drain OP (Z.to_nat cap) (Z.to_nat extra) it1
           | 1%Z => let (a, ita) := it_drain OP (Z.to_nat cap) (Z.to_nat extra) it1 in
                    let (b, _) := it_drain OP (Z.to_nat cap) (Z.to_nat extra) it1 in (a ++ b, ita)
           | _ => let (o1, it') := it_nth OP (Z.to_nat k) [] it1 in
                  let (a, ita) := it_drain OP (Z.to_nat cap) (Z.to_nat extra) it' in (o1 :: a, ita)
           end))
          (snd (match mode with
           | 0%Z => it_drain OP (Z.to_nat cap) (Z.to_nat extra) it1'
           | 1%Z => let (a, ita) := it_drain OP (Z.to_nat cap) (Z.to_nat extra) it1' in
                    let (b, _) := it_drain OP (Z.to_nat cap) (Z.to_nat extra) it1' in (a ++ b, ita)
           | _ => let (o1, it') := it_nth OP (Z.to_nat k) [] it1' in
                  let (a, ita) := it_drain OP (Z.to_nat cap) (Z.to_nat extra) it' in (o1 :: a, ita)
           end))).
    { assert (Hnth : forall o1 o1' itn itn', it_nth OP (Z.to_nat k) [] it1 = (o1, itn) -> it_nth OP (Z.to_nat k) [] it1' = (o1', itn') ->
                fst (let (a, ita) := it_drain OP (Z.to_nat cap) (Z.to_nat extra) itn in (o1 :: a, ita)) =
                fst (let (a, ita) := it_drain OP (Z.to_nat cap) (Z.to_nat extra) itn' in (o1' :: a, ita)) /\
                zrel j (snd (let (a, ita) := it_drain OP (Z.to_nat cap) (Z.to_nat extra) itn in (o1 :: a, ita)))
                       (snd (let (a, ita) := it_drain OP (Z.to_nat cap) (Z.to_nat extra) itn' in (o1' :: a, ita)))).
      { intros o1 o1' itn itn' E1 E2.
        destruct (it_nth_R _ [] _ _ _ H2) as [N1 N2]. rewrite E1, E2 in N1, N2. cbn [fst snd] in N1, N2. subst o1'.
        destruct (it_drain_R _ (Z.to_nat extra) _ _ _ N2) as [D1 D2].
        destruct (it_drain OP (Z.to_nat cap) (Z.to_nat extra) itn), (it_drain OP (Z.to_nat cap) (Z.to_nat extra) itn').
        cbn [fst snd] in *. split; [now rewrite D1|exact D2]. }
      assert (Hdr : fst (it_drain OP (Z.to_nat cap) (Z.to_nat extra) it1) = fst (it_drain OP (Z.to_nat cap) (Z.to_nat extra) it1') /\
                    zrel j (snd (it_drain OP (Z.to_nat cap) (Z.to_nat extra) it1)) (snd (it_drain OP (Z.to_nat cap) (Z.to_nat extra) it1')))
        by (apply it_drain_R; exact Hd).
      destruct mode as [|[p|p|]|p].
      - exact Hdr.
      - destruct (it_nth OP (Z.to_nat k) [] it1) eqn:E1, (it_nth OP (Z.to_nat k) [] it1') eqn:E2. eapply Hnth; reflexivity.
      - destruct (it_nth OP (Z.to_nat k) [] it1) eqn:E1, (it_nth OP (Z.to_nat k) [] it1') eqn:E2. eapply Hnth; reflexivity.
      - destruct Hdr as [D1 D2].
        destruct (it_drain OP (Z.to_nat cap) (Z.to_nat extra) it1), (it_drain OP (Z.to_nat cap) (Z.to_nat extra) it1').
        cbn [fst snd] in *. split; [now rewrite D1|exact D2].
      - destruct (it_nth OP (Z.to_nat k) [] it1) eqn:E1, (it_nth OP (Z.to_nat k) [] it1') eqn:E2. eapply Hnth; reflexivity. }
    destruct Hm as [M1 M2].
    match goal with |- context[let (l1, it2) := ?X in _] => destruct X as [l1 it2] end.
    match goal with |- context[let (l1, it2) := ?X in _] => destruct X as [l1' it2'] end.
    cbn [fst snd] in *. subst l1'.
    pose proof (zrel_sig _ _ _ M2) as Hsig.
    split; [now rewrite (enc_counts_R _ _ _ Hsig)|now apply hand_back_R].
Qed.

(* ---- the whole case ---- *)
Theorem run_ops_R c : forall ops j bases bases', Forall2 (R (ops_budget ops + j)) bases bases' ->
  ops_budget ops + j < Z.to_nat c ->
  run_ops OP bases ops = run_ops OP bases' (map (clamp_op c) ops).
Proof.
  induction ops as [|o ops IH]; intros j bases bases' Hb Hc; cbn [run_ops map ops_budget] in *; [reflexivity|].
  rewrite <- Nat.add_assoc in Hb, Hc.
  destruct (run_op_R c o _ _ _ Hb Hc) as [H1 H2].
  destruct (run_op OP bases o) as [l bs], (run_op OP bases' (clamp_op c o)) as [l' bs']. cbn [fst snd] in *.
  subst l'. f_equal. apply IH with j; [exact H2|lia].
Qed.

Lemma run_bases_R c j ts : j < Z.to_nat c ->
  fst (run_bases OP (map (clamp_tree c) ts)) = fst (run_bases OP ts) /\
  Forall2 (R j) (snd (run_bases OP ts)) (snd (run_bases OP (map (clamp_tree c) ts))).
Proof.
  intros Hc. unfold run_bases. cbn [fst snd]. split.
  - rewrite map_map. apply map_ext. intros t. now rewrite own_build_trace_clamp.
  - induction ts as [|t ts IH]; cbn [map]; constructor; [|exact IH].
    apply build_R; auto using DR_refl.
Qed.

(* running the normalised case is running the case *)
Theorem run_ops_norm (ts : list ztree) (ops : list zop) :
  let b := norm_bound ops in
  (let (l, bases) := run_bases OP (map (clamp_tree b) ts) in l ++ run_ops OP bases (map (clamp_op b) ops)) =
  (let (l, bases) := run_bases OP ts in l ++ run_ops OP bases ops).
Proof.
  intros b.
  assert (Hc : ops_budget ops + 0 < Z.to_nat b) by (unfold b, norm_bound; rewrite Nat2Z.id; lia).
  destruct (run_bases_R b (ops_budget ops + 0) ts Hc) as [H1 H2].
  destruct (run_bases OP (map (clamp_tree b) ts)) as [l' bs'], (run_bases OP ts) as [l bs]. cbn [fst snd] in *.
  subst l'. f_equal. symmetry. now apply run_ops_R with 0.
Qed.

(* ---- take(n): the Z counter of the executable model is the nat counter of Sig.take_next ---- *)
Notation ztake_next := (take_next zframe Z Z Z (o_eqm OP) (o_nch OP) (fun l => l) z_fmap (o_add OP) (o_mul OP) (o_scale OP)
                          (o_offset OP) (o_tos OP) (o_ofs OP) (o_ltb OP) (o_neg OP)).

Theorem take_counter (n : Z) (s : zsig) : (0 <= n)%Z ->
  it_step OP (ItTake n s) =
  match ztake_next (Z.to_nat n, s) with
  | (Some x, (n', s')) => (Some (13%Z :: enc_frame OP x), ztrace OP s, ItTake (Z.of_nat n') s')
  | (None, _) => (None, [], ItTake n s)
  end.
Proof.
  intros Hn. cbn [it_step]. unfold take_live, take_next. cbn [fst snd].
  destruct (Z.ltb_spec 0 n) as [Hp|Hz].
  - destruct (Z.to_nat n) as [|m] eqn:Em; [lia|].
    unfold znext. destruct (next _ _ _ _ _ _ _ _ _ _ _ _ _ _ _ _ s) as [x s'].
    replace (Z.of_nat m) with (n - 1)%Z by lia. reflexivity.
  - replace n with 0%Z by lia. reflexivity.
Qed.

End P.

Theorem run_case_norm_sound (c : zcase) : run_case_norm c = run_case c.
Proof. destruct c as [fm ts ops]. unfold run_case_norm, norm_case, run_case. apply run_ops_norm. Qed.
