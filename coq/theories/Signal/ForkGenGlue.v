(* The operation interpreter of Signal/ForkSpec.v re-built on the GENERATED methods of the Fork adaptor
   (gen/ForkGen.v, over the generated ring methods of gen/RingGen.v).  What is hand-written here is only what the
   CALLER does (the harness does exactly this): which of the four branch types a call goes to (the pair handed out by
   the last split: by_ref or by_rc; branch A or B), reading the two pending counts and the source's pull counter after
   every operation, and the sharing itself -- the two handles a split returns denote ONE state (gen/ForkGen.v
   represents Fork and every branch by the shared state they point to), so the interpreter threads the first handle.
   No proofs here. *)
Require Import List Arith Bool.
From Dasp Require Import Base.Res Base.ListX Ring.Bounded Ring.RingPrim Signal.SigGenPrim Signal.Fork Signal.ForkSpec.
From DaspGen Require Import RingGen ForkGen.
Import ListNotations.

Section Glue.
Context {A St : Type}.
Variable sig_next : St -> A * St.
Variable sig_pulls : St -> nat.       (* the harness's pull counter on the source *)
Notation gf := (fork_g St A).

(* rc: the current pair of branches came from by_rc (else by_ref);  x: branch A (else B) *)
Definition g_next (rc x : bool) (f : gf) : res (gf * A) :=
  match rc, x with
  | true, true => BranchRcA_next sig_next f
  | true, false => BranchRcB_next sig_next f
  | false, true => BranchRefA_next sig_next f
  | false, false => BranchRefB_next sig_next f
  end.

Definition g_pending (rc x : bool) (f : gf) : res nat :=
  match rc, x with
  | true, true => BranchRcA_pending_frames f
  | true, false => BranchRcB_pending_frames f
  | false, true => BranchRefA_pending_frames f
  | false, false => BranchRefB_pending_frames f
  end.

Definition g_exhausted (rc x : bool) (f : gf) : res bool :=
  match rc, x with
  | true, true => BranchRcA_is_exhausted f
  | true, false => BranchRcB_is_exhausted f
  | false, true => BranchRefA_is_exhausted f
  | false, false => BranchRefB_is_exhausted f
  end.

Definition g_observe (rc : bool) (f : gf) (v : fval A) : res (fobs A) :=
  let* pa := g_pending rc BrA f in
  let* pb := g_pending rc BrB f in
  Ok (v, sig_pulls (fg_signal f), pa, pb).

Definition gen_fstep (rc : bool) (f : gf) (o : fop) : res (bool * gf * fobs A) :=
  match o with
  | ONext x => let* (f', a) := g_next rc x f in let* ob := g_observe rc f' (VFrame a) in Ok (rc, f', ob)
  | OPending x => let* k := g_pending rc x f in let* ob := g_observe rc f (VCount k) in Ok (rc, f, ob)
  | OExhausted x => let* b := g_exhausted rc x f in let* ob := g_observe rc f (VFlag b) in Ok (rc, f, ob)
  | OByRef => let* (_, (a, _)) := Fork_by_ref f in let* ob := g_observe false a VUnit in Ok (false, a, ob)
  | OByRc => let* (a, _) := Fork_by_rc f in let* ob := g_observe true a VUnit in Ok (true, a, ob)
  end.

Fixpoint gen_frun (rc : bool) (f : gf) (ops : list fop) : res (bool * gf * list (fobs A)) :=
  match ops with
  | [] => Ok (rc, f, [])
  | o :: t => let* (rc1, f1, v) := gen_fstep rc f o in
              let* (rc2, f2, vs) := gen_frun rc1 f1 t in Ok (rc2, f2, v :: vs)
  end.

End Glue.
