(* Model of dasp_signal::Buffered (dasp_signal/src/lib.rs: `Signal::buffered`,
   `Buffered::next_frames`, `BufferedFrames`, `impl Signal for Buffered`) over the
   Bounded ring-buffer model of Ring/Bounded.v, and of the source it is driven by:
   `signal::from_iter` over a finite iterator (`FromIterator`, which keeps one
   frame of look-ahead), instrumented with pull counters.  Written after the
   source; no proofs here. *)
Require Import List Arith Bool.
From Dasp Require Import Base.Res Base.ListX Ring.Bounded.
Import ListNotations.

Section Buffered.
Context {A : Type}.
Variable EQ : A.          (* Frame::EQUILIBRIUM *)

(* ---------- the source: signal::from_iter(frames) ----------
   struct FromIterator { iter, next: Option<Item> }.  [it] is what the iterator
   still holds, [look] the stored look-ahead.  [ipulls] counts calls of the
   iterator's `next`, [pulls] counts calls of `Signal::next` on the source (the
   two instrumentation points of the harness). *)
Record source := { it : list A; look : option A; ipulls : nat; pulls : nat }.

(* Iterator::next of a finite (fused) iterator *)
Definition iter_next (l : list A) : option A * list A :=
  match l with [] => (None, []) | x :: t => (Some x, t) end.

(* from_iter: `let next = iter.next(); FromIterator { iter, next }` *)
Definition from_iter (l : list A) : source :=
  let r := iter_next l in {| it := snd r; look := fst r; ipulls := 1; pulls := 0 |}.

(* FromIterator::next:
     match self.next.take() { Some(frame) => { self.next = self.iter.next(); frame }
                              None => Frame::EQUILIBRIUM } *)
Definition src_next (s : source) : A * source :=
  match look s with
  | Some f => let r := iter_next (it s) in
              (f, {| it := snd r; look := fst r; ipulls := S (ipulls s); pulls := S (pulls s) |})
  | None => (EQ, {| it := it s; look := None; ipulls := ipulls s; pulls := S (pulls s) |})
  end.

(* FromIterator::is_exhausted: self.next.is_none() *)
Definition src_exhausted (s : source) : bool :=
  match look s with None => true | Some _ => false end.

(* ---------- Buffered { signal, ring_buffer } ---------- *)
Record buffered := { sig : source; rb : bounded A }.

(* Signal::buffered(self, ring_buffer) *)
Definition mk_buffered (s : source) (b : bounded A) : buffered := {| sig := s; rb := b |}.

(* `for _ in 0..n { ring_buffer.push(signal.next()); }` — the pushed-out element
   that `push` returns is dropped *)
Fixpoint refill (n : nat) (s : source) (b : bounded A) : res (source * bounded A) :=
  match n with
  | O => Ok (s, b)
  | S n' => let r := src_next s in
            let* p := push b (fst r) in
            refill n' (snd r) (fst p)
  end.

(* the refill loop of both `next` and `next_frames`: the range `0..ring_buffer.max_len()`
   is evaluated once, before the first push *)
Definition refill_now (u : buffered) : res buffered :=
  let* p := refill (max_len (rb u)) (sig u) (rb u) in Ok {| sig := fst p; rb := snd p |}.

(* The `loop` of Buffered::next has no bound in the source.  [next_loop] runs at
   most [fuel] iterations; [out_of_fuel] is NOT a Rust panic, it marks "the loop
   is still running after [fuel] iterations" (it would be a hang).  The theorems
   show it is never returned for fuel >= 2 from a valid ring buffer. *)
Definition out_of_fuel {X} : res X := Panic PExpect.

(* Buffered::next:
     loop { match ring_buffer.pop() {
              Some(frame) => return frame,
              None => for _ in 0..ring_buffer.max_len() { ring_buffer.push(signal.next()); } } } *)
Fixpoint next_loop (fuel : nat) (u : buffered) : res (A * buffered) :=
  match fuel with
  | O => out_of_fuel
  | S fuel' =>
    let* r := pop (rb u) in
    match snd r with
    | Some f => Ok (f, {| sig := sig u; rb := fst r |})
    | None => let* u' := refill_now {| sig := sig u; rb := fst r |} in next_loop fuel' u'
    end
  end.

(* Buffered::next_frames: `if ring_buffer.len() == 0 { refill }`, then hand out
   BufferedFrames { ring_buffer } *)
Definition next_frames (u : buffered) : res buffered :=
  if len (rb u) =? 0 then refill_now u else Ok u.

(* BufferedFrames::next = ring_buffer.pop().  [frames_take k]: the iterator is
   advanced through `.take(k)` (k calls at most, stopping at the first None) and
   then dropped; what it did not yield stays in the ring buffer. *)
Definition frames_take (k : nat) (u : buffered) : res (list A * buffered) :=
  let* r := drain k (rb u) in Ok (snd r, {| sig := sig u; rb := fst r |}).

(* BufferedFrames does not override size_hint: Iterator's default (0, None) *)
Definition frames_size_hint (u : buffered) : nat * option nat := (0, None).

(* Buffered::is_exhausted: self.ring_buffer.len() == 0 && self.signal.is_exhausted() *)
Definition is_exhausted (u : buffered) : bool :=
  (len (rb u) =? 0) && src_exhausted (sig u).

(* Buffered::into_parts *)
Definition into_parts (u : buffered) : source * bounded A := (sig u, rb u).

End Buffered.
Arguments source A : clear implicits.
Arguments buffered A : clear implicits.
