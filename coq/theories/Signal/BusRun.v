(* Executable instance of the bus model over Z with the observation encoding of
   harness/src/bin/c13.rs; evaluated by coqc on the correspondence cases.
   Sources (kind, L):  0: endless, frame n = 1000 + n, never exhausted;
                       1: from_iter of L frames 1000 + n, then equilibrium 0; exhausted when L <= pulls;
                       2: gen(5000 + 7n).add_amp(from_iter of L frames 100 + n): keeps producing
                          non-silent frames after it reports exhausted (L <= pulls).
   Outputs are addressed by slot index = key (the harness keeps the i-th output returned by send in slot i).
   After every operation:  tag payload... | pulls | backlog (-3 once the Bus handle is dropped: the hook is
   on Bus) | pending of every slot (-1 = dropped) | for kinds 1,2: is_exhausted of every slot (-1 = dropped). *)
Require Import List ZArith Bool Arith.
From Dasp Require Import Base.Res Signal.Bus Signal.BusExh.
Import ListNotations.
Open Scope Z_scope.

Inductive zop := ZSend | ZNext (i : Z) | ZPending (i : Z) | ZDrop (i : Z) | ZRun (i cnt : Z)
               | ZExh (i : Z) | ZDropBus.

Definition zn (k : nat) : Z := Z.of_nat k.
Definition n (z : Z) : nat := Z.to_nat z.

Definition srcf (kind L : Z) (j : nat) : Z :=
  if kind =? 0 then 1000 + zn j
  else if kind =? 1 then (if zn j <? L then 1000 + zn j else 0)
  else 5000 + 7 * zn j + (if zn j <? L then 100 + zn j else 0).
Definition srcx (kind L : Z) (j : nat) : bool :=
  if kind =? 0 then false else L <=? zn j.
Definition src := srcf 0 0.

Definition bst := @st Z.

Section Run.
Variables kind L : Z.
Let sf := srcf kind L.
Let sx := srcx kind L.

Definition enc_res (r : res Z) : Z :=
  match r with Ok p => p | Panic c => -10 - zn (panic_code c) | UB => -2 end.

Definition pend_all (s : bst) : list Z :=
  map (fun k => match lookup k (fr s) with
                | None => -1
                | Some _ => enc_res (rmap zn (pending_frames s k))
                end) (seq 0 (nk s)).
Definition exh_all (s : bst) : list Z :=
  if kind =? 0 then []
  else map (fun k => match lookup k (fr s) with
                     | None => -1
                     | Some _ => enc_res (rmap (fun b : bool => if b then 1 else 0) (output_is_exhausted sx s k))
                     end) (seq 0 (nk s)).

Definition snapshot (alive : bool) (s : bst) : list Z :=
  zn (pulled s) :: (if alive then zn (length (buf s)) else -3) :: pend_all s ++ exh_all s.

Definition live (s : bst) (k : nat) : bool := match lookup k (fr s) with Some _ => true | None => false end.

(* cnt consecutive next_frame on key k: first frame, last frame (-1 if none) and the number of
   positions where a frame is not its predecessor + 1 (the compact report of the harness op `R`) *)
Fixpoint run_next (cnt : nat) (s : bst) (k : nat) (first last breaks : Z) (started : bool) : res (bst * list Z) :=
  match cnt with
  | O => Ok (s, [5; first; last; breaks])
  | S c =>
    match next_frame sf s k with
    | Ok (s', x) =>
      run_next c s' k (if started then first else x) x
               (if started && negb (x =? last + 1) then breaks + 1 else breaks) true
    | Panic e => Panic e
    | UB => UB
    end
  end.

(* one operation: observation head, next state, bus handle alive.  An operation on a slot whose output
   is gone (or a send after the Bus handle was dropped) cannot be issued through the API: the harness
   reports tag 9, and the model must agree that the key is not registered (next_frame panics with the
   expect, pending_frames / is_exhausted with the index). *)
Definition zstep (alive : bool) (s : bst) (o : zop) : res (bst * list Z * bool) :=
  match o with
  | ZSend => if alive then let '(s', k) := send s in Ok (s', [1; zn k], alive) else Ok (s, [9], alive)
  | ZNext i =>
    match next_frame sf s (n i) with
    | Ok (s', x) => Ok (s', [2; x], alive)
    | Panic PExpect => if live s (n i) then UB else Ok (s, [9], alive)
    | Panic c => Panic c
    | UB => UB
    end
  | ZPending i =>
    match pending_frames s (n i) with
    | Ok p => Ok (s, [3; zn p], alive)
    | Panic PIndex => if live s (n i) then UB else Ok (s, [9], alive)
    | Panic c => Panic c
    | UB => UB
    end
  | ZExh i =>
    match output_is_exhausted sx s (n i) with
    | Ok b => Ok (s, [6; if b then 1 else 0], alive)
    | Panic PIndex => if live s (n i) then UB else Ok (s, [9], alive)
    | Panic c => Panic c
    | UB => UB
    end
  | ZRun i cnt =>
    if live s (n i)
    then match run_next (n cnt) s (n i) (-1) (-1) 0 false with
         | Ok (s', v) => Ok (s', v, alive) | Panic c => Panic c | UB => UB end
    else Ok (s, [9], alive)
  | ZDrop i =>
    if live s (n i)
    then match drop_output s (n i) with Ok s' => Ok (s', [4], alive) | Panic c => Panic c | UB => UB end
    else Ok (s, [9], alive)
  | ZDropBus => if alive then Ok (s, [7], false) else Ok (s, [9], alive)
  end.

Fixpoint zrun (alive : bool) (s : bst) (ops : list zop) : list (list Z) :=
  match ops with
  | [] => []
  | o :: t => match zstep alive s o with
              | Ok (s', v, alive') => (v ++ snapshot alive' s') :: zrun alive' s' t
              | Panic k => [[-1; zn (panic_code k)]]
              | UB => [[-2]]
              end
  end.
End Run.

Inductive rcase := BusCase (ops : list zop) | BusCaseX (kind L : Z) (ops : list zop).

Definition run_case (c : rcase) : list (list Z) :=
  match c with
  | BusCase ops => zrun 0 0 true init ops
  | BusCaseX kind L ops => zrun kind L true init ops
  end.

Definition zll_eqb (a b : list (list Z)) : bool :=
  if list_eq_dec (list_eq_dec Z.eq_dec) a b then true else false.

Definition check (c : rcase * list (list Z)) : bool := zll_eqb (run_case (fst c)) (snd c).
