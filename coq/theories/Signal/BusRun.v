(* Executable instance of the bus model over Z with the observation encoding of
   harness/src/bin/c13.rs; evaluated by coqc on the correspondence cases.
   Source: the n-th frame is 1000 + n.  Outputs are addressed by slot index = key
   (the harness keeps the i-th output returned by send in slot i).
   After every operation:  tag payload... | pulls | backlog | pending of every slot (-1 = dropped). *)
Require Import List ZArith Bool Arith.
From Dasp Require Import Base.Res Signal.Bus.
Import ListNotations.
Open Scope Z_scope.

Inductive zop := ZSend | ZNext (i : Z) | ZPending (i : Z) | ZDrop (i : Z) | ZRun (i cnt : Z).

Definition src (n : nat) : Z := 1000 + Z.of_nat n.
Definition zn (k : nat) : Z := Z.of_nat k.
Definition n (z : Z) : nat := Z.to_nat z.

Definition bst := @st Z.

Definition pend_all (s : bst) : list Z :=
  map (fun k => match lookup k (fr s) with
                | None => -1
                | Some _ => match pending_frames s k with Ok p => zn p | Panic c => -10 - zn (panic_code c) | UB => -2 end
                end) (seq 0 (nk s)).

Definition snapshot (s : bst) : list Z := zn (pulled s) :: zn (length (buf s)) :: pend_all s.

Definition live (s : bst) (k : nat) : bool := match lookup k (fr s) with Some _ => true | None => false end.

(* cnt consecutive next_frame on key k: first frame, last frame (-1 if none) and the number of
   positions where a frame is not its predecessor + 1 (the compact report of the harness op `R`) *)
Fixpoint run_next (cnt : nat) (s : bst) (k : nat) (first last breaks : Z) : res (bst * list Z) :=
  match cnt with
  | O => Ok (s, [5; first; last; breaks])
  | S c =>
    match next_frame src s k with
    | Ok (s', x) =>
      run_next c s' k (if first <? 0 then x else first) x
               (if (0 <=? last) && negb (x =? last + 1) then breaks + 1 else breaks)
    | Panic e => Panic e
    | UB => UB
    end
  end.

(* one operation: observation head and next state; an operation on a slot whose output
   is gone cannot be issued through the API (the Output has been consumed by drop): the harness
   reports tag 9, and the model must agree that the key is not registered (next_frame panics with
   the expect, pending_frames with the index). *)
Definition zstep (s : bst) (o : zop) : res (bst * list Z) :=
  match o with
  | ZSend => let '(s', k) := send s in Ok (s', [1; zn k])
  | ZNext i =>
    match next_frame src s (n i) with
    | Ok (s', x) => Ok (s', [2; x])
    | Panic PExpect => if live s (n i) then UB else Ok (s, [9])
    | Panic c => Panic c
    | UB => UB
    end
  | ZPending i =>
    match pending_frames s (n i) with
    | Ok p => Ok (s, [3; zn p])
    | Panic PIndex => if live s (n i) then UB else Ok (s, [9])
    | Panic c => Panic c
    | UB => UB
    end
  | ZRun i cnt =>
    if live s (n i) then run_next (n cnt) s (n i) (-1) (-1) 0 else Ok (s, [9])
  | ZDrop i =>
    if live s (n i)
    then match drop_output s (n i) with Ok s' => Ok (s', [4]) | Panic c => Panic c | UB => UB end
    else Ok (s, [9])
  end.

Fixpoint zrun (s : bst) (ops : list zop) : list (list Z) :=
  match ops with
  | [] => []
  | o :: t => match zstep s o with
              | Ok (s', v) => (v ++ snapshot s') :: zrun s' t
              | Panic k => [[-1; zn (panic_code k)]]
              | UB => [[-2]]
              end
  end.

Inductive rcase := BusCase (ops : list zop).

Definition run_case (c : rcase) : list (list Z) :=
  match c with BusCase ops => zrun init ops end.

Definition zll_eqb (a b : list (list Z)) : bool :=
  if list_eq_dec (list_eq_dec Z.eq_dec) a b then true else false.

Definition check (c : rcase * list (list Z)) : bool := zll_eqb (run_case (fst c)) (snd c).
