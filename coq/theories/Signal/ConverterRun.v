(* Executable Z-level interface of the converter model over IEEE binary64, with the
   observation encoding of harness/src/bin/c08.rs; evaluated by coqc on the correspondence cases. *)
Require Import Floats.SpecFloat.
Require Import List ZArith Bool.
From Flocq Require Import Core BinarySingleNaN.
From Dasp Require Import Base.Res Base.Float Signal.Converter Signal.ConverterOps Signal.ConvNumF Sample.ConvSpec Sample.SampleFmt.
Import ListNotations.
Open Scope Z_scope.

Inductive zctor := CHz (a b : Z) | CScale (m : Z) | CSample (m : Z) | CMul (ctl : list Z).
Inductive zop := ZNext | ZSetPlay (x : Z) | ZSetHz (a b : Z) | ZSetSample (x : Z) | ZUntil (cap : Z)
(* the accessors (Signal/ConverterOps.v), callable between any two outputs *)
| ZSource                   (* source(): is_exhausted of the source and its counters *)
| ZSrcPull                  (* source_mut().next() *)
| ZRebuild (c : zctor).     (* into_source(), a newly primed interpolator of the same kind, a constructor again *)
(* format code (0 f64, 1 f32, 2 i16, 3 u8: hand-written conversions of ConvNumF.v;
   100 + SampleFmt.sfmt_code: the generated conversions, all 14 formats), interpolator (0 floor,
   1 linear), channels, source frames (floats as bit patterns), constructor, operations, and the
   number of frames pulled from the source itself after the converter was dropped (a converter over a
   borrowed source `&mut S` / `by_ref()` has the same state as one that owns it) *)
Inductive zcase := ZCase (fmt itp nch : Z) (frames : list (list Z)) (c : zctor) (ops : list zop) (tail : Z).

Definition fuel_run : nat := 5000.
Definition b2z (b : bool) : Z := if b then 1 else 0.
Definition zn (k : nat) : Z := Z.of_nat k.
Definition fb := F64.of_bits.

Section Fmt.
Variable Fm : Fmt NF.
Variable enc : smp Fm -> Z.
Variable dec : Z -> smp Fm.

Definition encf (f : frame Fm) : list Z := map enc f.

(* the scale a Converter constructor hands to scale_playback_hz *)
Definition ctor_scale (c : zctor) : option F64.t :=
  match c with
  | CHz a b => Some (F64.div (fb a) (fb b))
  | CScale m => Some (fb m)
  | CSample m => Some (F64.div F64.one (fb m))
  | CMul _ => None
  end.

(* observations of the operations, then [tail] pulls from the source the converter leaves behind:
   `5 exhausted_before pulls iter frame..` each *)
Fixpoint run_tail (k : nat) (s : source Fm) : list (list Z) :=
  match k with
  | O => []
  | S k' => let (f, s') := src_next s in
            (5 :: b2z (src_exhausted s) :: zn (pulls s') :: zn (iter_calls s') :: encf f) :: run_tail k' s'
  end.

(* [linear]: the interpolator kind of the case (a rebuild primes a new one of the same kind) *)
Fixpoint run_ops (linear : bool) (c : conv Fm) (ops : list zop) (tail : nat) : list (list Z) :=
  match ops with
  | [] => run_tail tail (src c)
  | ZSource :: t =>
    [6; b2z (src_exhausted (src c)); zn (pulls (src c)); zn (iter_calls (src c))] :: run_ops linear c t tail
  | ZSrcPull :: t =>
    let (f, c') := source_pull c in
    (7 :: zn (pulls (src c')) :: zn (iter_calls (src c')) :: encf f) :: run_ops linear c' t tail
  | ZRebuild ct :: t =>
    match ctor_scale ct with
    | None => [[-4]]
    | Some sc =>
      match rebuild linear c sc with
      | Ok c' => [0; zn (pulls (src c')); zn (iter_calls (src c'))] :: run_ops linear c' t tail
      | Panic _ => [[8; 9]]
      | UB => [[-2]]
      end
    end
  | ZNext :: t =>
    match next fuel_run c with
    | Diverges => [[9]]
    | Done (out, c') =>
      (1 :: b2z (is_exhausted c) :: zn (pulls (src c')) :: zn (iter_calls (src c')) :: F64.bits (value c') :: encf out)
        :: run_ops linear c' t tail
    end
  | ZSetPlay x :: t => [3] :: run_ops linear (set_playback_hz_scale c (fb x)) t tail
  | ZSetHz a b :: t => [3] :: run_ops linear (set_hz_to_hz c (fb a) (fb b)) t tail
  | ZSetSample x :: t => [3] :: run_ops linear (set_sample_hz_scale c (fb x)) t tail
  | ZUntil cap :: t =>
    match until_exhausted fuel_run (Z.to_nat cap) c with
    | Diverges => [[9]]
    | Done (n, c') => [4; zn n; zn (pulls (src c'))] :: run_ops linear c' t tail
    end
  end.

Fixpoint run_mul_ops (m : mulhz Fm) (ops : list zop) (tail : nat) : list (list Z) :=
  match ops with
  | [] => run_tail tail (src (mconv m))
  | ZUntil cap :: t =>
    match mul_until_exhausted fuel_run (Z.to_nat cap) m with
    | Diverges => [[9]]
    | Done (n, m') => [4; zn n; zn (pulls (src (mconv m')))] :: run_mul_ops m' t tail
    end
  | _ :: t =>
    match mul_next fuel_run m with
    | Diverges => [[9]]
    | Done (out, m') =>
      (2 :: b2z (mul_exhausted m) :: zn (pulls (src (mconv m'))) :: zn (iter_calls (src (mconv m'))) :: encf out)
        :: run_mul_ops m' t tail
    end
  end.

(* priming as the public API does: Floor::new(source.next()); Linear::new(a, b) with
   a = source.next(), b = source.next() *)
Definition prime (itp : Z) (s : source Fm) : interp Fm * source Fm :=
  if itp =? 0 then let (a, s1) := src_next s in (IFloor a, s1)
  else let (a, s1) := src_next s in let (b, s2) := src_next s1 in (ILinear a b, s2).

Definition run_case_fmt (itp nch : Z) (frames : list (list Z)) (c : zctor) (ops : list zop) (tl : Z) : list (list Z) :=
  let s0 := from_iter (Z.to_nat nch) (map (map dec) frames) in
  let (i, s) := prime itp s0 in
  let hd := [0; zn (pulls s); zn (iter_calls s)] in
  let fin (r : res (conv Fm)) :=
    match r with
    | Ok cv => hd :: run_ops (negb (itp =? 0)) cv ops (Z.to_nat tl)
    | Panic _ => [[8; 9]]   (* the assertion carries a custom message: harness class 9 *)
    | UB => [[-2]]
    end in
  match c with
  | CHz a b => fin (from_hz_to_hz s i (fb a) (fb b))
  | CScale m => fin (scale_playback_hz s i (fb m))
  | CSample m => fin (scale_sample_hz s i (fb m))
  | CMul ctl =>
    match mul_hz s i (map fb ctl) with
    | Ok m => hd :: run_mul_ops m ops (Z.to_nat tl)
    | Panic _ => [[8; 9]]   (* the assertion carries a custom message: harness class 9 *)
    | UB => [[-2]]
    end
  end.
End Fmt.

Definition run_case (c : zcase) : list (list Z) :=
  match c with
  | ZCase fmt itp nch frames ct ops tl =>
    match fmt with
    | 0 => run_case_fmt fmt_f64 F64.bits F64.of_bits itp nch frames ct ops tl
    | 1 => run_case_fmt fmt_f32 F32.bits F32.of_bits itp nch frames ct ops tl
    | 2 => run_case_fmt fmt_i16 (fun z => z) (fun z => z) itp nch frames ct ops tl
    | 3 => run_case_fmt fmt_u8 (fun z => z) (fun z => z) itp nch frames ct ops tl
    | _ =>
      match sfmt_of_code (fmt - 100) with
      | Some f => run_case_fmt (fmt_gen f) (enc f) (dec f) itp nch frames ct ops tl
      | None => [[-3]]
      end
    end
  end.

Definition zll_eqb (a b : list (list Z)) : bool :=
  if list_eq_dec (list_eq_dec Z.eq_dec) a b then true else false.

Definition check (c : zcase * list (list Z)) : bool := zll_eqb (run_case (fst c)) (snd c).
