(* Specification vocabulary for the bus: absolute stream positions, the invariant,
   functions on traces, well-formed schedules.  Definitions only. *)
Require Import List Arith Bool.
From Dasp Require Import Base.Res Signal.Bus.
Import ListNotations.

Section Spec.
Context {F : Type} (f : nat -> F).

(* index (in the source stream) of the frame at the front of the backlog *)
Definition base (s : @st F) : nat := pulled s - length (buf s).
(* abs: absolute position of output k = index of the next source frame it will receive *)
Definition pos (s : @st F) (k : nat) : option nat :=
  option_map (fun r => base s + r) (lookup k (fr s)).
Definition is_live (s : @st F) (k : nat) : Prop := lookup k (fr s) <> None.

Record Inv (s : @st F) : Prop := {
  i_nodup : NoDup (keys (fr s));
  i_le : forall k r, lookup k (fr s) = Some r -> r <= length (buf s);
  i_len : length (buf s) <= pulled s;
  i_buf : forall i, i < length (buf s) -> nth_error (buf s) i = Some (f (base s + i));
  i_empty : fr s = [] -> buf s = [];
  i_min : fr s <> [] -> exists k, lookup k (fr s) = Some 0;
  i_keys : forall k, In k (keys (fr s)) -> k < nk s
}.

(* frames delivered to output k, in order *)
Fixpoint frames_of (k : nat) (tr : list (@ev F)) : list F :=
  match tr with
  | [] => []
  | EFrame k' x :: t => if k' =? k then x :: frames_of k t else frames_of k t
  | _ :: t => frames_of k t
  end.
Definition received (k : nat) (tr : list (@ev F)) : nat := length (frames_of k tr).

(* a schedule that only addresses outputs that exist: n = next key, live = keys of live outputs *)
Fixpoint sched_ok (n : nat) (live : list nat) (ops : list op) : Prop :=
  match ops with
  | [] => True
  | OSend :: t => sched_ok (S n) (n :: live) t
  | ONext k :: t => In k live /\ sched_ok n live t
  | OPending k :: t => In k live /\ sched_ok n live t
  | ODrop k :: t => sched_ok n (filter (fun j => negb (j =? k)) live) t
  end.

End Spec.
