(* Every definition of the GENERATED model of the Buffered adaptor (gen/BufferedGen.v, regenerated from
   dasp_signal/src/lib.rs by translate/sig2coq.py on every run, its ring-buffer calls going to the generated ring
   methods of gen/RingGen.v) equals the corresponding definition of the hand model (Signal/Buffered.v over
   Ring/Bounded.v) -- for ALL inputs, valid or not, including which panic / UB comes out -- when the abstract source
   is instantiated with the hand model's source (signal::from_iter with its look-ahead and counters).  The ring layer
   is crossed with the lemmas of Ring/RingGenEquiv.v (the components of c06_gen_bounded_agrees).  Hence the
   interpreter built on the generated methods (Signal/BufferedGenGlue.v) equals [step]/[run], and the refinement
   theorems of BufferedProofs are theorems about the regenerated model.

   The proofs are not syntactic: they rewrite the generated ring calls into the hand ring model, then split on every
   result; the refill loop is matched through its one-step behaviour ([for_each_refill]), so a temporary more or
   less or another spelling of the same step does not break them. *)
Require Import List Arith Bool Lia.
From Dasp Require Import Base.Res Base.ListX Ring.Bounded Ring.BoundedSpec Ring.BoundedProofs Ring.RingPrim
  Ring.RingGenGlue Ring.RingGenEquiv Signal.SigGenPrim Signal.Buffered Signal.BufferedSpec Signal.BufferedProofs
  Signal.BufferedGenGlue.
From DaspGen Require Import RingGen BufferedGen.
Import ListNotations.

Section Equiv.
Context {A : Type}.
Variable EQ : A.
Notation gb := (buffered_g (source A) A).
Notation gnext := (src_next EQ).
Notation gexh := (@src_exhausted A).

(* the two representations of Buffered { signal, ring_buffer } *)
Definition to_g (u : buffered A) : gb := {| bg_signal := sig u; bg_ring_buffer := rb u |}.
Definition of_g (g : gb) : buffered A := {| sig := bg_signal g; rb := bg_ring_buffer g |}.

Lemma of_to u : of_g (to_g u) = u.
Proof. destruct u; reflexivity. Qed.
Lemma to_of g : to_g (of_g g) = g.
Proof. destruct g; reflexivity. Qed.

Ltac ring_calls :=
  rewrite ?Bounded_push_eq, ?Bounded_pop_eq, ?Bounded_len_eq, ?Bounded_max_len_eq, ?Bounded_is_empty_eq,
    ?Bounded_is_full_eq, ?Bounded_get_eq, ?Bounded_iter_eq, ?Bounded_slices_eq.

Ltac split_res :=
  repeat match goal with
  | |- context [match ?r with Ok _ => _ | Panic _ => _ | UB => _ end] => destruct r as [[? ?]| |] eqn:?
  | |- context [bind ?r _] => destruct r as [[? ?]| |] eqn:?
  end; cbn [bind rmap fst snd] in *.

(* ---------------------------------------------------------------- the refill loop *)

(* `ring_buffer.push(signal.next())` on the pair of fields *)
Definition refill_step (g : gb) : res gb :=
  let r := gnext (bg_signal g) in
  let* p := push (bg_ring_buffer g) (fst r) in
  Ok {| bg_signal := snd r; bg_ring_buffer := fst p |}.

Lemma for_each_refill {B} (body : gb -> B -> res gb) :
  (forall g x, body g x = refill_step g) ->
  forall (xs : list B) g,
    for_each xs body g =
    rmap (fun p => {| bg_signal := fst p; bg_ring_buffer := snd p |})
         (refill EQ (length xs) (bg_signal g) (bg_ring_buffer g)).
Proof.
  intros Hb xs. induction xs as [|x t IH]; intros [s b]; [reflexivity|].
  cbn [for_each length refill bg_signal bg_ring_buffer]. rewrite Hb. unfold refill_step.
  cbn [bg_signal bg_ring_buffer].
  destruct (push b (fst (gnext s))) as [[b' o]| |]; cbn [bind fst snd]; try reflexivity.
  rewrite IH. reflexivity.
Qed.

Lemma range_length lo hi : length (range lo hi) = hi - lo.
Proof. unfold range. apply seq_length. Qed.

Ltac refill_body :=
  let g := fresh "g" in let x := fresh "x" in let gs := fresh "gs" in let gr := fresh "gr" in
  intros g x; unfold refill_step; destruct g as [gs gr];
  cbn [bg_signal bg_ring_buffer];
  destruct (gnext gs) as [? ?];
  cbn [fst snd bg_signal bg_ring_buffer with_bg_signal with_bg_ring_buffer]; ring_calls;
  match goal with |- context [push ?b ?f] => destruct (push b f) as [[? ?]| |] end; reflexivity.

(* ---------------------------------------------------------------- method by method *)

Lemma Signal_buffered_eq (s : source A) (b : bounded A) : Signal_buffered s b = Ok (to_g (mk_buffered s b)).
Proof. reflexivity. Qed.

Lemma Buffered_next_frames_eq (g : gb) :
  Buffered_next_frames gnext g = rmap (fun u' => (to_g u', rb u')) (next_frames EQ (of_g g)).
Proof.
  unfold Buffered_next_frames, next_frames, refill_now. ring_calls. unfold is_empty, is_full. destruct g as [s b].
  cbn [bind of_g rb sig bg_signal bg_ring_buffer].
  (* whichever way the emptiness test is written *)
  destruct (len b) as [|k] eqn:E; cbn [Nat.eqb negb bind]; [|reflexivity].
  ring_calls. cbn [bind].
  erewrite for_each_refill by refill_body.
  rewrite range_length, Nat.sub_0_r. cbn [bg_signal bg_ring_buffer with_bg_ring_buffer with_bg_signal].
  destruct (refill EQ (max_len b) s b) as [[s' b']| |]; reflexivity.
Qed.

Lemma Buffered_next_eq fuel : forall g : gb,
  Buffered_next gnext fuel g = rmap (fun r => (to_g (snd r), fst r)) (next_loop EQ fuel (of_g g)).
Proof.
  unfold Buffered_next. induction fuel as [|fuel IH]; intros [s b]; [reflexivity|].
  cbn [Buffered_next_loop next_loop]. ring_calls. cbn [of_g rb sig bg_signal bg_ring_buffer].
  destruct (pop b) as [[b' [x|]]| |]; cbn [bind fst snd with_bg_ring_buffer bg_signal bg_ring_buffer]; try reflexivity.
  unfold refill_now. ring_calls. cbn [bind rb sig].
  erewrite for_each_refill by refill_body.
  rewrite range_length, Nat.sub_0_r. cbn [bg_signal bg_ring_buffer with_bg_ring_buffer with_bg_signal].
  destruct (refill EQ (max_len b') s b') as [[s' b'']| |]; cbn [rmap bind fst snd]; try reflexivity.
  apply (IH {| bg_signal := s'; bg_ring_buffer := b'' |}).
Qed.

Lemma Buffered_is_exhausted_eq (g : gb) : Buffered_is_exhausted gexh g = Ok (is_exhausted (of_g g)).
Proof.
  unfold Buffered_is_exhausted, is_exhausted. ring_calls. unfold is_empty. destruct g as [s b].
  cbn [bind of_g rb sig bg_signal bg_ring_buffer].
  (* whichever way the conjunction is written: both operands are total *)
  destruct (src_exhausted s); cbn [bind andb]; ring_calls; cbn [bind]; destruct (len b); reflexivity.
Qed.

Lemma Buffered_into_parts_eq (g : gb) : Buffered_into_parts g = Ok (into_parts (of_g g)).
Proof. destruct g; reflexivity. Qed.

Lemma BufferedFrames_next_eq (b : bounded A) : BufferedFrames_next b = pop b.
Proof. unfold BufferedFrames_next. ring_calls. destruct (pop b) as [[b' o]| |]; reflexivity. Qed.

Lemma BufferedFrames_size_hint_eq (g : gb) :
  BufferedFrames_size_hint (bg_ring_buffer g) = Ok (frames_size_hint (of_g g)).
Proof. reflexivity. Qed.

Lemma gen_frames_loop_eq k : forall b : bounded A, gen_frames_loop k b = drain k b.
Proof.
  induction k as [|k IH]; intros b; [reflexivity|].
  cbn [gen_frames_loop drain]. rewrite BufferedFrames_next_eq.
  destruct (pop b) as [[b' [x|]]| |]; cbn [bind fst snd]; try reflexivity.
  rewrite IH. destruct (drain k b') as [[b'' xs]| |]; reflexivity.
Qed.

(* next_frames().take(k): the generated next_frames, the generated iterator, the borrow written back *)
Lemma gen_frames_take_eq k (g : gb) :
  gen_frames_take gnext k g =
  rmap (fun r => (to_g (snd r), fst r)) (let* u1 := next_frames EQ (of_g g) in frames_take k u1).
Proof.
  unfold gen_frames_take, frames_take. rewrite Buffered_next_frames_eq.
  destruct (next_frames EQ (of_g g)) as [[s1 b1]| |]; cbn [rmap bind rb sig]; try reflexivity.
  rewrite gen_frames_loop_eq. destruct (drain k b1) as [[b2 xs]| |]; reflexivity.
Qed.

Lemma gen_frames_all_eq (g : gb) :
  gen_frames_all gnext g =
  rmap (fun r => (to_g (snd r), fst r)) (let* u1 := next_frames EQ (of_g g) in frames_take (S (len (rb u1))) u1).
Proof.
  unfold gen_frames_all, frames_take. rewrite Buffered_next_frames_eq.
  destruct (next_frames EQ (of_g g)) as [[s1 b1]| |]; cbn [rmap bind rb sig]; try reflexivity.
  ring_calls. cbn [bind]. rewrite gen_frames_loop_eq. destruct (drain (S (len b1)) b1) as [[b2 xs]| |]; reflexivity.
Qed.

Lemma gen_frames_hint_eq (g : gb) :
  gen_frames_hint gnext g =
  rmap (fun u1 => (to_g u1, frames_size_hint u1)) (next_frames EQ (of_g g)).
Proof.
  unfold gen_frames_hint. rewrite Buffered_next_frames_eq.
  destruct (next_frames EQ (of_g g)) as [[s1 b1]| |]; reflexivity.
Qed.

Theorem gen_step_eq fuel (g : gb) (o : bop) :
  gen_step gnext gexh fuel g o = rmap (fun r => (to_g (fst r), snd r)) (step EQ fuel (of_g g) o).
Proof.
  unfold gen_step, step; destruct o.
  - rewrite Buffered_next_eq. destruct (next_loop EQ fuel (of_g g)) as [[f u']| |]; reflexivity.
  - rewrite gen_frames_take_eq.
    destruct (next_frames EQ (of_g g)) as [u1| |]; cbn [bind rmap]; try reflexivity.
    destruct (frames_take k u1) as [[l u2]| |]; reflexivity.
  - rewrite gen_frames_all_eq.
    destruct (next_frames EQ (of_g g)) as [u1| |]; cbn [bind rmap]; try reflexivity.
    destruct (frames_take (S (len (rb u1))) u1) as [[l u2]| |]; reflexivity.
  - rewrite gen_frames_hint_eq. destruct (next_frames EQ (of_g g)) as [u1| |]; reflexivity.
  - rewrite Buffered_is_exhausted_eq. cbn [bind rmap fst snd]. now rewrite to_of.
Qed.

Theorem gen_run_eq fuel (ops : list bop) : forall g : gb,
  gen_run gnext gexh fuel g ops = rmap (fun r => (to_g (fst r), snd r)) (run EQ fuel (of_g g) ops).
Proof.
  induction ops as [|o t IH]; intros g.
  - cbn [gen_run run rmap fst snd]. now rewrite to_of.
  - cbn [gen_run run]. rewrite gen_step_eq.
    destruct (step EQ fuel (of_g g) o) as [[u' v]| |]; cbn [bind rmap fst snd]; try reflexivity.
    rewrite IH, of_to. destruct (run EQ fuel u' t) as [[u'' vs]| |]; reflexivity.
Qed.

(* ---------------------------------------------------------------- the statements props/C14.v pins *)

(* every generated method of the Buffered adaptor is the hand model's, for all inputs *)
Definition buffered_methods_agree : Prop :=
  (forall (s : source A) (b : bounded A), Signal_buffered s b = Ok (to_g (mk_buffered s b))) /\
  (forall fuel (g : gb), Buffered_next gnext fuel g = rmap (fun r => (to_g (snd r), fst r)) (next_loop EQ fuel (of_g g))) /\
  (forall g : gb, Buffered_next_frames gnext g = rmap (fun u' => (to_g u', rb u')) (next_frames EQ (of_g g))) /\
  (forall b : bounded A, BufferedFrames_next b = pop b) /\
  (forall g : gb, BufferedFrames_size_hint (bg_ring_buffer g) = Ok (frames_size_hint (of_g g))) /\
  (forall g : gb, Buffered_is_exhausted gexh g = Ok (is_exhausted (of_g g))) /\
  (forall g : gb, Buffered_into_parts g = Ok (into_parts (of_g g))) /\
  (forall k (g : gb), gen_frames_take gnext k g =
      rmap (fun r => (to_g (snd r), fst r)) (let* u1 := next_frames EQ (of_g g) in frames_take k u1)).

Theorem gen_buffered_agrees :
  buffered_methods_agree /\
  (forall fuel (g : gb) (o : bop),
     gen_step gnext gexh fuel g o = rmap (fun r => (to_g (fst r), snd r)) (step EQ fuel (of_g g) o)) /\
  (forall fuel (ops : list bop) (g : gb),
     gen_run gnext gexh fuel g ops = rmap (fun r => (to_g (fst r), snd r)) (run EQ fuel (of_g g) ops)).
Proof.
  split; [|split; [exact gen_step_eq|exact gen_run_eq]].
  unfold buffered_methods_agree. repeat match goal with |- _ /\ _ => split end.
  - exact Signal_buffered_eq.
  - exact Buffered_next_eq.
  - exact Buffered_next_frames_eq.
  - exact BufferedFrames_next_eq.
  - exact BufferedFrames_size_hint_eq.
  - exact Buffered_is_exhausted_eq.
  - exact Buffered_into_parts_eq.
  - exact gen_frames_take_eq.
Qed.

(* the history refinement, restated for the interpreter over the regenerated methods *)
Theorem gen_run_refines fuel (ops : list bop) (g : gb) : 2 <= fuel -> Inv (bg_ring_buffer g) ->
  exists g' vs, gen_run gnext gexh fuel g ops = Ok (g', vs) /\ Inv (bg_ring_buffer g') /\
                max_len (bg_ring_buffer g') = max_len (bg_ring_buffer g) /\
                spec_run EQ (max_len (bg_ring_buffer g)) (abs_u (of_g g)) ops = (abs_u (of_g g'), vs).
Proof.
  intros Hf I. rewrite gen_run_eq.
  destruct (run_refines EQ fuel ops (of_g g) Hf I) as [u' [vs [-> [I' [C' Hs]]]]].
  exists (to_g u'), vs. cbn [rmap fst snd]. rewrite of_to. auto.
Qed.

End Equiv.
