(* C20 — the window model (Signal/Window.v) instantiated with Coq's real numbers and
   the true cosine of the standard library (Rtrigo).  Definitions only. *)
Require Import Reals.
From Flocq Require Import Raux.
From Dasp Require Import Signal.Window.
Open Scope R_scope.

(* Rust `x % y` on reals: the remainder of the division truncated toward zero (C fmod) *)
Definition Rrem (x y : R) : R := x - IZR (Ztrunc (x / y)) * y.

Definition AR : arith :=
  mkArith R 0 (1 / 2) 1 (PI * 2) Rplus Rminus Rmult Rdiv Rrem INR.

(* Hann::window on a real phase: 0.5 * (1 - cos (p * (PI * 2))) *)
Definition hannR (p : R) : R := hann AR cos p.
Definition rectR (p : R) : R := rect AR p.

(* fractional part *)
Definition frac (x : R) : R := x - IZR (Zfloor x).

(* the i-th phase sampled by Window::new(n), and the i-th window value *)
Definition window_phase (n i : nat) : R := phase_at AR i (window_new AR n).
Definition hann_window_value (n i : nat) : R := hannR (window_phase n i).
