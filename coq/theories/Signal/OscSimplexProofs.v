(* The simplex-noise output bound on exact reals: |0.395 * (n0 + n1)| <= 1 for every phase,
   every pair of table entries and the gradients as coded (Interval: bisection + Taylor models;
   the margin is 1.6e-4).  The rounded (binary64) evaluation is covered by OscSimplexRnd.v / OscSimplexIEEE.v. *)
Require Import ZArith Reals Lia Lra.
From Flocq Require Import Core.
From Dasp Require Import Signal.OscNum Signal.Osc Signal.OscSimplexCore.
From DaspGen Require Import SimplexTable.
Open Scope R_scope.

Notation NR := NumR.

(* the gradient is one of +-1 .. +-8 *)
Lemma grad_R (h : Z) (x : R) : exists g, -8 <= g <= 8 /\ grad NR h x = g * x.
Proof.
  unfold grad. cbn [NumR nadd nmul nneg nof_Z].
  set (k := Z.land (Z.land h 15) 7).
  assert (Hk : (0 <= k <= 7)%Z).
  { unfold k. change 7%Z with (Z.ones 3). rewrite Z.land_ones by lia.
    pose proof (Z.mod_pos_bound (Z.land h 15) (2 ^ 3) ltac:(reflexivity)). change (2 ^ 3)%Z with 8%Z in *. change (Z.ones 3) with 7%Z. lia. }
  assert (H0 : 0 <= IZR k) by (apply IZR_le; lia).
  assert (H7 : IZR k <= 7) by (apply IZR_le; lia).
  destruct (Z.land (Z.land h 15) 8 =? 0)%Z.
  - exists (1 + IZR k). split; [lra|reflexivity].
  - exists (- (1 + IZR k)). split; [lra|reflexivity].
Qed.

Theorem simplex_real_bound (x : R) : -1 <= simplex_noise_1d NR x <= 1.
Proof.
  unfold simplex_noise_1d. cbn [NumR nadd nsub nmul nof_Z nto_i64 nfloor nscale].
  rewrite Ztrunc_IZR. set (i0 := Zfloor x).
  destruct (grad_R (hash i0) (x - IZR i0)) as (g0 & Hg0 & E0).
  destruct (grad_R (hash (i0 + 1)) (x - IZR i0 - 1)) as (g1 & Hg1 & E1).
  rewrite E0, E1.
  assert (Hx : 0 <= x - IZR i0 <= 1).
  { unfold i0. pose proof (Zfloor_lb x). pose proof (Zfloor_ub x). lra. }
  unfold simplex_scale_num, simplex_scale_den.
  exact (simplex_core (x - IZR i0) g0 g1 Hx Hg0 Hg1).
Qed.

(* ... hence every frame of the simplex-noise signal on exact reals, whatever the step source *)
Lemma length_perm : length perm_table = 256%nat.
Proof. reflexivity. Qed.
