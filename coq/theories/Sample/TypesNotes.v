(* C15 — notes about the CURRENT table that are outside the property (not part of the closure of
   props/C15.v, so that a later `impl_neg!(I20)` does not break the property's proof):
   the property speaks of "negation of signed ones"; in the source
     - U11 has a Neg impl although it is unsigned (the negation theorems hold for it as well:
       dev panics unless the operand is 0, release returns 2048 - a);
     - I20 is signed but has no Neg impl (`-x` does not compile for I20), so there is nothing to check. *)
Require Import List ZArith Bool String.
From Dasp Require Import Base.Res Sample.TypesModel.
From DaspGen Require Import TypesTable.
Import ListNotations.
Open Scope Z_scope.

Lemma note_neg_impls :
  map tname (filter has_neg types_table) = ["I11"; "I24"; "I48"; "U11"]%string.
Proof. reflexivity. Qed.

Lemma note_unsigned_with_neg : exists r, In r types_table /\ tsigned r = false /\ has_neg r = true.
Proof. exists row_U11. cbv [types_table In]. auto 10. Qed.

Lemma note_signed_without_neg : exists r, In r types_table /\ tsigned r = true /\ has_neg r = false.
Proof. exists row_I20. cbv [types_table In]. auto 10. Qed.

Lemma note_u11_neg : neg dev row_U11 0 = Ok 0 /\ neg dev row_U11 1 = Panic PExpect /\
  neg release row_U11 1 = Ok 2047 /\ neg release row_U11 2047 = Ok 1.
Proof. vm_compute. auto. Qed.
