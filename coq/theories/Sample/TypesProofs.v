(* C15 — proofs about the model of the custom-width sample types (TypesModel.v).
   Everything is proved for an arbitrary well-formed row ([row_ok], a decidable condition);
   the generated table is then shown to consist of well-formed rows by computation. *)
Require Import List ZArith Bool String Lia.
From Dasp Require Import Base.Res Sample.TypesModel.
Import ListNotations.
Open Scope Z_scope.

(* ---- well-formed rows ---- *)

Definition row_ok (r : row) : Prop :=
  rep_signed r = true /\ 0 < nbits r /\ nbits r + 2 <= rep_bits r /\ total r = 2 ^ nbits r /\
  (if tsigned r
   then rmin r = - 2 ^ (nbits r - 1) /\ rmax r = 2 ^ (nbits r - 1) - 1 /\ eqv r = 0
   else rmin r = 0 /\ rmax r = 2 ^ nbits r - 1 /\ eqv r = 2 ^ (nbits r - 1)).

Definition row_okb (r : row) : bool :=
  rep_signed r && (0 <? nbits r) && (nbits r + 2 <=? rep_bits r) && (total r =? 2 ^ nbits r) &&
  (if tsigned r
   then (rmin r =? - 2 ^ (nbits r - 1)) && (rmax r =? 2 ^ (nbits r - 1) - 1) && (eqv r =? 0)
   else (rmin r =? 0) && (rmax r =? 2 ^ nbits r - 1) && (eqv r =? 2 ^ (nbits r - 1))).

Lemma row_okb_ok r : row_okb r = true -> row_ok r.
Proof.
  unfold row_okb, row_ok. intros H.
  repeat (apply andb_prop in H; destruct H as [H ?]).
  rewrite Z.ltb_lt in *. rewrite Z.leb_le in *. rewrite Z.eqb_eq in *.
  repeat split; auto.
  destruct (tsigned r);
    repeat match goal with Hx : _ && _ = true |- _ => apply andb_prop in Hx; destruct Hx end;
    rewrite ?Z.eqb_eq in *; auto.
Qed.

(* the linear facts everything below is derived from *)
Record facts (r : row) : Prop := mkFacts {
  f_signed : rep_signed r = true;
  f_bits : 0 < rep_bits r;
  f_total : total r = rmax r - rmin r + 1;
  f_pow : total r = 2 ^ nbits r;
  f_min : rmin r <= 0;
  f_max : 0 <= rmax r;
  f_lo : imin (rep r) <= rmin r - total r;
  f_hi : rmax r + total r <= imax (rep r);
  f_div : exists q, 2 ^ rep_bits r = q * total r
}.

Lemma pow2_half n : 0 < n -> 2 ^ n = 2 * 2 ^ (n - 1).
Proof. intros H. replace n with (Z.succ (n - 1)) at 1 by lia. rewrite Z.pow_succ_r by lia. reflexivity. Qed.

Lemma row_ok_facts r : row_ok r -> facts r.
Proof.
  intros (Hs & Hn & Hrb & Ht & Hmm).
  assert (Hh : 2 ^ nbits r = 2 * 2 ^ (nbits r - 1)) by (apply pow2_half; lia).
  assert (Hhp : 0 < 2 ^ (nbits r - 1)) by (apply Z.pow_pos_nonneg; lia).
  assert (Hsplit : 2 ^ (rep_bits r - 1) = 2 ^ (nbits r + 1) * 2 ^ (rep_bits r - 2 - nbits r)).
  { rewrite <- Z.pow_add_r by lia. f_equal. lia. }
  assert (Hn1 : 2 ^ (nbits r + 1) = 2 * 2 ^ nbits r) by (rewrite Z.pow_add_r by lia; lia).
  assert (Hrest : 0 < 2 ^ (rep_bits r - 2 - nbits r)) by (apply Z.pow_pos_nonneg; lia).
  assert (Hbig : 2 * 2 ^ nbits r <= 2 ^ (rep_bits r - 1)) by nia.
  assert (Hdiv : 2 ^ rep_bits r = 2 ^ (rep_bits r - nbits r) * 2 ^ nbits r).
  { rewrite <- Z.pow_add_r by lia. f_equal. lia. }
  unfold rep, imin, imax. cbn [fst snd].
  destruct (tsigned r); destruct Hmm as (Hmin & Hmax & _);
    (constructor; try rewrite Hs; try rewrite Ht; try rewrite Hmin; try rewrite Hmax;
     [reflexivity | lia | lia | reflexivity | lia | lia | unfold rep, imin; cbn [fst snd]; rewrite ?Hs; lia
      | unfold rep, imax; cbn [fst snd]; rewrite ?Hs; lia | eexists; exact Hdiv]).
Qed.

(* ---- machine integers ---- *)

Lemma in_ity_iff t z : in_ity t z = true <-> imin t <= z <= imax t.
Proof. unfold in_ity. rewrite andb_true_iff, !Z.leb_le. tauto. Qed.

Lemma prim_ok c t z : imin t <= z <= imax t -> prim c t z = Ok z.
Proof.
  intros H. unfold prim, prim_in.
  destruct (Z.leb_spec (imin t) z), (Z.leb_spec z (imax t)); try lia. reflexivity.
Qed.

Lemma prim_in_ok oc t z : imin t <= z <= imax t -> prim_in oc t (imin t) (imax t) z = Ok z.
Proof. intros H. apply (prim_ok (mkCfg false oc)). exact H. Qed.

Lemma prim_overflow c t z : ~ (imin t <= z <= imax t) ->
  prim c t z = if overflow_checks c then Panic POverflow else Ok (iwrap t z).
Proof.
  intros H. unfold prim, prim_in.
  destruct (Z.leb_spec (imin t) z), (Z.leb_spec z (imax t)); try lia; reflexivity.
Qed.

(* signed wrap: in range and congruent modulo 2^bits *)
Lemma iwrap_signed_spec b z : 0 < b ->
  imin (true, b) <= iwrap (true, b) z <= imax (true, b) /\ exists k, iwrap (true, b) z = z + k * 2 ^ b.
Proof.
  intros Hb. unfold imin, imax, iwrap. cbn [fst snd].
  assert (Hh := pow2_half b Hb).
  assert (Hp : 0 < 2 ^ (b - 1)) by (apply Z.pow_pos_nonneg; lia).
  pose proof (Z.mod_pos_bound (z + 2 ^ (b - 1)) (2 ^ b) ltac:(lia)) as Hm.
  split; [lia|].
  exists (- ((z + 2 ^ (b - 1)) / 2 ^ b)).
  pose proof (Z.div_mod (z + 2 ^ (b - 1)) (2 ^ b) ltac:(lia)). lia.
Qed.

Lemma iwrap_id t z : 0 < snd t -> imin t <= z <= imax t -> iwrap t z = z.
Proof.
  destruct t as [sg b]. unfold imin, imax, iwrap. cbn [fst snd]. intros Hb H.
  assert (Hh := pow2_half b Hb).
  destruct sg.
  - rewrite Z.mod_small by lia. lia.
  - apply Z.mod_small. lia.
Qed.

(* ---- the wrap loops ---- *)

Section LoopProofs.
  Variables (oc : bool) (t : ity) (mn mx tot : Z).
  Let lo := imin t.
  Let hi := imax t.
  Hypothesis Htot : 0 < tot.
  Hypothesis Hlo : lo <= mn - tot.
  Hypothesis Hhi : mx + tot <= hi.
  Hypothesis Hspan : tot = mx - mn + 1.

  Lemma loop_down_spec : forall fuel v, lo <= v <= hi -> v <= mx + Z.of_nat fuel * tot ->
    exists w, loop_down oc t lo hi mx tot fuel v = Some (Ok w) /\
              w <= mx /\ (v <= mx -> w = v) /\ (mx < v -> mn <= w) /\ lo <= w <= hi /\
              exists k, w = v + k * tot.
  Proof using Htot Hlo Hhi Hspan.
    induction fuel as [|f IH]; intros v Hv Hf; cbn [loop_down];
      destruct (Z.gtb_spec v mx) as [Hgt|Hle].
    - lia.
    - exists v. repeat split; try lia. exists 0. lia.
    - unfold lo, hi. rewrite prim_in_ok by (fold lo hi; lia). fold lo hi.
      destruct (IH (v - tot)) as (w & E & Hw1 & Hw2 & Hw3 & Hw4 & k & Hk); [lia | lia |].
      exists w. split; [exact E|]. repeat split; try lia.
      exists (k - 1). lia.
    - exists v. repeat split; try lia. exists 0. lia.
  Qed.

  Lemma loop_up_spec : forall fuel v, lo <= v <= hi -> mn <= v + Z.of_nat fuel * tot ->
    exists w, loop_up oc t lo hi mn tot fuel v = Some (Ok w) /\
              mn <= w /\ (mn <= v -> w = v) /\ (v < mn -> w <= mx) /\ lo <= w <= hi /\
              exists k, w = v + k * tot.
  Proof using Htot Hlo Hhi Hspan.
    induction fuel as [|f IH]; intros v Hv Hf; cbn [loop_up];
      destruct (Z.ltb_spec v mn) as [Hlt|Hge].
    - lia.
    - exists v. repeat split; try lia. exists 0. lia.
    - unfold lo, hi. rewrite prim_in_ok by (fold lo hi; lia). fold lo hi.
      destruct (IH (v + tot)) as (w & E & Hw1 & Hw2 & Hw3 & Hw4 & k & Hk); [lia | lia |].
      exists w. split; [exact E|]. repeat split; try lia.
      exists (k + 1). lia.
    - exists v. repeat split; try lia. exists 0. lia.
  Qed.
End LoopProofs.

Lemma fuel_enough tot v : 0 < tot -> Z.abs v < Z.of_nat (Z.to_nat (Z.abs v / Z.max 1 tot + 2)) * tot.
Proof.
  intros Ht. rewrite Z.max_r by lia.
  pose proof (Z.div_pos (Z.abs v) tot ltac:(lia) Ht) as Hq.
  rewrite Z2Nat.id by lia.
  pose proof (Z.mul_succ_div_gt (Z.abs v) tot Ht). lia.
Qed.

(* From<Rep>: terminates (the fuel suffices), no panic in either configuration, lands in range,
   differs from the argument by a multiple of TOTAL *)
Lemma from_rep_spec c r v : facts r -> imin (rep r) <= v <= imax (rep r) ->
  exists w, from_rep c r v = Ok w /\ in_range r w /\ exists k, w = v + k * total r.
Proof.
  intros F Hv. destruct F as [_ _ Hspan Hpow Hmn Hmx Hlo Hhi _].
  assert (Htot : 0 < total r) by lia.
  pose proof (fuel_enough (total r) v Htot) as Hfuel.
  unfold from_rep, wrap_overflow_fuel, fuel_for.
  set (fuel := Z.to_nat (Z.abs v / Z.max 1 (total r) + 2)) in *.
  destruct (loop_down_spec (overflow_checks c) (rep r) (rmin r) (rmax r) (total r) Htot Hlo Hhi Hspan fuel v)
    as (w1 & E1 & Hw1 & Hsame & Hwent & Hrep1 & k1 & Hk1); [lia | lia |].
  cbv zeta. rewrite E1.
  destruct (loop_up_spec (overflow_checks c) (rep r) (rmin r) (rmax r) (total r) Htot Hlo Hhi Hspan fuel w1)
    as (w & E2 & Hw2 & Hsame2 & Hwent2 & _ & k2 & Hk2); [lia | |].
  { destruct (Z.le_gt_cases v (rmax r)) as [Hc|Hc]; [rewrite Hsame by lia; lia | specialize (Hwent Hc); nia]. }
  rewrite E2. exists w. split; [reflexivity|]. split.
  - unfold in_range. split; [lia|].
    destruct (Z.le_gt_cases (rmin r) w1) as [Hc|Hc]; [rewrite Hsame2 by lia; lia | apply Hwent2; lia].
  - exists (k1 + k2). lia.
Qed.

Lemma wrap_once_spec c r s : facts r -> rmin r - total r <= s <= rmax r + total r ->
  exists w, wrap_overflow_once c r s = Ok w /\ in_range r w /\ exists k, w = s + k * total r.
Proof.
  intros F Hs. destruct F as [_ _ Hspan Hpow Hmn Hmx Hlo Hhi _].
  unfold wrap_overflow_once, in_range.
  destruct (Z.gtb_spec s (rmax r)); [|destruct (Z.ltb_spec s (rmin r))].
  - rewrite prim_ok by lia. eexists; split; [reflexivity|]. split; [lia|]. exists (-1). lia.
  - rewrite prim_ok by lia. eexists; split; [reflexivity|]. split; [lia|]. exists 1. lia.
  - eexists; split; [reflexivity|]. split; [lia|]. exists 0. lia.
Qed.

(* ---- new ---- *)

Lemma new_spec r v : (in_range r v -> new r v = Some v) /\ (~ in_range r v -> new r v = None).
Proof.
  unfold new, in_range.
  destruct (Z.gtb_spec v (rmax r)), (Z.ltb_spec v (rmin r)); cbn [orb]; split; intros; try lia; reflexivity.
Qed.

Lemma expect_new_spec r v :
  (in_range r v -> expect_new r v = Ok v) /\ (~ in_range r v -> expect_new r v = Panic PExpect).
Proof.
  unfold expect_new. destruct (new_spec r v) as [H1 H2].
  split; intros H; [rewrite H1 | rewrite H2]; auto.
Qed.

(* ---- arithmetic ---- *)

Lemma range_in_rep r v : facts r -> in_range r v -> imin (rep r) <= v <= imax (rep r).
Proof. intros [_ _ Hspan _ Hmn Hmx Hlo Hhi _] H. unfold in_range in H. lia. Qed.

(* sums and differences of in-range values fit the Rep and are at most one TOTAL away from the range *)
Lemma addsub_near r o a b : facts r -> o <> OMul -> in_range r a -> in_range r b ->
  rmin r - total r <= exact o a b <= rmax r + total r.
Proof.
  intros [_ _ Hspan _ Hmn Hmx _ _ _] Ho Ha Hb. unfold in_range in *.
  destruct o; cbn [exact]; try congruence; lia.
Qed.

Lemma near_in_rep r s : facts r -> rmin r - total r <= s <= rmax r + total r ->
  imin (rep r) <= s <= imax (rep r).
Proof. intros [_ _ _ _ _ _ Hlo Hhi _] H. lia. Qed.

(* Any configuration with debug assertions (overflow checks on or off): the exact result when it is
   in range; otherwise the panic of `.expect(..)`.  The primitive + and - on the Rep cannot
   overflow for in-range operands (bits + 2 <= rep_bits), so rustc's overflow check never fires;
   Mul uses checked_mul, which turns a Rep overflow into the same `expect` panic. *)
Lemma arith_debug c r o a b : facts r -> debug_assertions c = true -> in_range r a -> in_range r b ->
  (in_range r (exact o a b) -> arith c r o a b = Ok (exact o a b)) /\
  (~ in_range r (exact o a b) -> arith c r o a b = Panic PExpect).
Proof.
  intros F Hda Ha Hb. unfold arith. rewrite Hda.
  destruct o.
  1,2: match goal with |- context[prim _ _ (exact ?o _ _)] =>
         assert (Hnear : rmin r - total r <= exact o a b <= rmax r + total r)
           by (apply addsub_near; [exact F | discriminate | exact Ha | exact Hb]);
         rewrite prim_ok by (apply near_in_rep; assumption); cbn [bind]; apply expect_new_spec
       end.
  cbn [exact]. destruct (in_ity (rep r) (a * b)) eqn:Ein.
  - apply expect_new_spec.
  - split; intros H; [|reflexivity]. exfalso.
    assert (Hn : ~ (imin (rep r) <= a * b <= imax (rep r))) by (rewrite <- in_ity_iff; congruence).
    apply Hn. apply range_in_rep; assumption.
Qed.

Lemma arith_dev r o a b : facts r -> in_range r a -> in_range r b ->
  (in_range r (exact o a b) -> arith dev r o a b = Ok (exact o a b)) /\
  (~ in_range r (exact o a b) -> arith dev r o a b = Panic PExpect).
Proof. intros F. exact (arith_debug dev r o a b F eq_refl). Qed.

Lemma neg_debug c r a : facts r -> debug_assertions c = true -> in_range r a ->
  (in_range r (- a) -> neg c r a = Ok (- a)) /\
  (~ in_range r (- a) -> neg c r a = Panic PExpect).
Proof.
  intros F Hda Ha. unfold neg. rewrite Hda.
  assert (Hnear : rmin r - total r <= - a <= rmax r + total r).
  { destruct F as [_ _ Hspan _ Hmn Hmx _ _ _]. unfold in_range in Ha. lia. }
  rewrite prim_ok by (apply near_in_rep; assumption). cbn [bind]. apply expect_new_spec.
Qed.

(* the two's-complement reduction at the Rep width: a Rep value congruent modulo 2^rep_bits *)
Lemma iwrap_rep r z : facts r ->
  imin (rep r) <= iwrap (rep r) z <= imax (rep r) /\ exists k, iwrap (rep r) z = z + k * 2 ^ rep_bits r.
Proof.
  intros F. unfold rep. rewrite (f_signed r F). apply iwrap_signed_spec. exact (f_bits r F).
Qed.

(* Any configuration without debug assertions (overflow checks on or off): no panic, the result is
   in range and congruent to the exact result modulo TOTAL. *)
Lemma arith_nodebug c r o a b : facts r -> debug_assertions c = false ->
  in_range r a -> in_range r b ->
  exists w, arith c r o a b = Ok w /\ in_range r w /\ exists k, w = exact o a b + k * total r.
Proof.
  intros F Hda Ha Hb. unfold arith. rewrite Hda.
  destruct o.
  1,2: match goal with |- context[prim _ _ (exact ?o _ _)] =>
         assert (Hnear : rmin r - total r <= exact o a b <= rmax r + total r)
           by (apply addsub_near; [exact F | discriminate | exact Ha | exact Hb]);
         rewrite prim_ok by (apply near_in_rep; assumption); cbn [bind];
         apply wrap_once_spec; assumption
       end.
  cbn [exact]. destruct (iwrap_rep r (a * b) F) as (Hs & ks & Hks).
  destruct (from_rep_spec c r _ F Hs) as (w & E & Hr & k & Hk).
  destruct (f_div r F) as (q & Hq).
  exists w. split; [exact E|]. split; [exact Hr|].
  exists (k + ks * q). rewrite Hk, Hks, Hq. ring.
Qed.

Lemma arith_release r o a b : facts r -> in_range r a -> in_range r b ->
  exists w, arith release r o a b = Ok w /\ in_range r w /\ exists k, w = exact o a b + k * total r.
Proof. intros F. exact (arith_nodebug release r o a b F eq_refl). Qed.

Lemma neg_nodebug c r a : facts r -> debug_assertions c = false -> in_range r a ->
  exists w, neg c r a = Ok w /\ in_range r w /\ exists k, w = - a + k * total r.
Proof.
  intros F Hda Ha. unfold neg. rewrite Hda.
  assert (Hnear : rmin r - total r <= - a <= rmax r + total r).
  { destruct F as [_ _ Hspan _ Hmn Hmx _ _ _]. unfold in_range in Ha. lia. }
  rewrite prim_ok by (apply near_in_rep; assumption). cbn [bind].
  apply wrap_once_spec; assumption.
Qed.

Lemma in_range_dec r v : {in_range r v} + {~ in_range r v}.
Proof.
  unfold in_range. destruct (Z_le_dec (rmin r) v); [destruct (Z_le_dec v (rmax r))|]; [left|right|right]; lia.
Qed.

(* whatever the configuration (the four combinations of the two flags): a returned value is in range *)
Lemma arith_never_outside c r o a b w : facts r -> in_range r a -> in_range r b ->
  arith c r o a b = Ok w -> in_range r w.
Proof.
  intros F Ha Hb H.
  destruct (debug_assertions c) eqn:Hda.
  - destruct (arith_debug c r o a b F Hda Ha Hb) as [H1 H2].
    destruct (in_range_dec r (exact o a b)) as [Hi|Hi].
    + rewrite (H1 Hi) in H. injection H as <-. exact Hi.
    + rewrite (H2 Hi) in H. discriminate.
  - destruct (arith_nodebug c r o a b F Hda Ha Hb) as (w' & E & Hr & _).
    rewrite H in E. injection E as <-. exact Hr.
Qed.

Lemma neg_never_outside c r a w : facts r -> in_range r a -> neg c r a = Ok w -> in_range r w.
Proof.
  intros F Ha H.
  destruct (debug_assertions c) eqn:Hda.
  - destruct (neg_debug c r a F Hda Ha) as [H1 H2].
    destruct (in_range_dec r (- a)) as [Hi|Hi].
    + rewrite (H1 Hi) in H. injection H as <-. exact Hi.
    + rewrite (H2 Hi) in H. discriminate.
  - destruct (neg_nodebug c r a F Hda Ha) as (w' & E & Hr & _). rewrite H in E. injection E as <-. exact Hr.
Qed.

(* the representative of a residue class in [MIN, MAX] is unique: "wrapped into range" determines the value *)
Lemma wrapped_unique r w1 w2 : facts r -> in_range r w1 -> in_range r w2 ->
  (exists k, w1 = w2 + k * total r) -> w1 = w2.
Proof.
  intros [_ _ Hspan _ _ _ _ _ _] H1 H2 (k & Hk). unfold in_range in *.
  assert (k = 0) by nia. subst k. lia.
Qed.

Lemma cong_mod w e m : (exists k, w = e + k * m) -> (w - e) mod m = 0.
Proof. intros (k & ->). replace (e + k * m - e) with (k * m) by ring. apply Z_mod_mult. Qed.

(* the overflow-checks setting is irrelevant on in-range operands: two configurations that agree on
   debug_assertions compute the same result *)
Lemma arith_oc_irrelevant c c' r o a b : facts r -> debug_assertions c = debug_assertions c' ->
  in_range r a -> in_range r b -> arith c r o a b = arith c' r o a b.
Proof.
  intros F Hd Ha Hb. destruct (debug_assertions c) eqn:Hda; symmetry in Hd.
  - destruct (arith_debug c r o a b F Hda Ha Hb) as [H1 H2].
    destruct (arith_debug c' r o a b F Hd Ha Hb) as [H1' H2'].
    destruct (in_range_dec r (exact o a b)) as [Hi|Hi]; [rewrite H1, H1' | rewrite H2, H2']; auto.
  - destruct (arith_nodebug c r o a b F Hda Ha Hb) as (w & E & Hr & k & Hk).
    destruct (arith_nodebug c' r o a b F Hd Ha Hb) as (w' & E' & Hr' & k' & Hk').
    rewrite E, E'. f_equal. apply (wrapped_unique r w w' F Hr Hr'). exists (k - k'). lia.
Qed.

Lemma neg_oc_irrelevant c c' r a : facts r -> debug_assertions c = debug_assertions c' ->
  in_range r a -> neg c r a = neg c' r a.
Proof.
  intros F Hd Ha. destruct (debug_assertions c) eqn:Hda; symmetry in Hd.
  - destruct (neg_debug c r a F Hda Ha) as [H1 H2].
    destruct (neg_debug c' r a F Hd Ha) as [H1' H2'].
    destruct (in_range_dec r (- a)) as [Hi|Hi]; [rewrite H1, H1' | rewrite H2, H2']; auto.
  - destruct (neg_nodebug c r a F Hda Ha) as (w & E & Hr & k & Hk).
    destruct (neg_nodebug c' r a F Hd Ha) as (w' & E' & Hr' & k' & Hk').
    rewrite E, E'. f_equal. apply (wrapped_unique r w w' F Hr Hr'). exists (k - k'). lia.
Qed.

(* ---- widening From impls ---- *)

Definition widen_okb (tbl : list row) (r : row) (s : src) : bool :=
  match src_range tbl s with
  | Some (slo, shi) =>
      (0 <? rep_bits r) && (imin (rep r) <=? slo) && (shi <=? imax (rep r)) && (rmin r <=? slo) && (shi <=? rmax r)
  | None => false
  end.

Lemma widen_ok tbl r s : widen_okb tbl r s = true ->
  exists slo shi, src_range tbl s = Some (slo, shi) /\
    forall v, slo <= v <= shi -> from_src r s v = v /\ in_range r v.
Proof.
  unfold widen_okb. destruct (src_range tbl s) as [[slo shi]|]; [|discriminate].
  intros H. repeat (apply andb_prop in H; destruct H as [H ?]).
  rewrite Z.ltb_lt in *. rewrite Z.leb_le in *.
  exists slo, shi. split; [reflexivity|]. intros v Hv. split.
  - unfold from_src. apply iwrap_id; [exact H | lia].
  - unfold in_range. lia.
Qed.

(* custom sources also name an existing row whose Rep is the one written in the from-list *)
Definition src_declb (tbl : list row) (s : src) : bool :=
  match s with
  | SPrim _ b => 0 <? b
  | SCustom nm usg ub =>
      match find_row tbl nm with
      | Some u => Bool.eqb (rep_signed u) usg && (rep_bits u =? ub)
      | None => false
      end
  end.

(* ---- ordering ---- *)

Lemma order_spec a b :
  (t_eq a b = true <-> a = b) /\ (t_lt a b = true <-> a < b) /\ (t_le a b = true <-> a <= b) /\
  (t_gt a b = true <-> a > b) /\ (t_ge a b = true <-> a >= b) /\
  (t_cmp a b = Lt <-> a < b) /\ (t_cmp a b = Eq <-> a = b) /\ (t_cmp a b = Gt <-> a > b).
Proof.
  unfold t_eq, t_lt, t_le, t_gt, t_ge, t_cmp.
  rewrite Z.eqb_eq, Z.ltb_lt, Z.leb_le, Z.gtb_ltb, Z.ltb_lt, Z.geb_leb, Z.leb_le, Z.compare_eq_iff.
  repeat split; intros; try lia; try (apply Z.compare_lt_iff; lia); try (apply Z.compare_gt_iff; lia).
  - apply Z.compare_lt_iff. assumption.
  - apply Z.compare_gt_iff in H. lia.
Qed.
