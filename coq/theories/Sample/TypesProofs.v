(* C15 — proofs about the model of the custom-width sample types (TypesModel.v).
   Everything is proved for an arbitrary well-formed row ([row_ok], a decidable condition);
   the generated table is then shown to consist of well-formed rows by computation. *)
Require Import List ZArith Bool String Lia.
From Dasp Require Import Base.Res Sample.TypesModel.
Import ListNotations.
Open Scope Z_scope.

(* ---- well-formed rows ---- *)

Definition row_ok (r : row) : Prop :=
  rep_signed r = true /\ 0 < nbits r /\ nbits r + 2 <= rep_bits r /\ total r = 2 ^ nbits r /\
  (if tsigned r
   then rmin r = - 2 ^ (nbits r - 1) /\ rmax r = 2 ^ (nbits r - 1) - 1 /\ eqv r = 0
   else rmin r = 0 /\ rmax r = 2 ^ nbits r - 1 /\ eqv r = 2 ^ (nbits r - 1)).

Definition row_okb (r : row) : bool :=
  rep_signed r && (0 <? nbits r) && (nbits r + 2 <=? rep_bits r) && (total r =? 2 ^ nbits r) &&
  (if tsigned r
   then (rmin r =? - 2 ^ (nbits r - 1)) && (rmax r =? 2 ^ (nbits r - 1) - 1) && (eqv r =? 0)
   else (rmin r =? 0) && (rmax r =? 2 ^ nbits r - 1) && (eqv r =? 2 ^ (nbits r - 1))).

Lemma row_okb_ok r : row_okb r = true -> row_ok r.
Proof.
  unfold row_okb, row_ok. intros H.
  repeat (apply andb_prop in H; destruct H as [H ?]).
  rewrite Z.ltb_lt in *. rewrite Z.leb_le in *. rewrite Z.eqb_eq in *.
  repeat split; auto.
  destruct (tsigned r);
    repeat match goal with Hx : _ && _ = true |- _ => apply andb_prop in Hx; destruct Hx end;
    rewrite ?Z.eqb_eq in *; auto.
Qed.

(* the linear facts everything below is derived from *)
Record facts (r : row) : Prop := mkFacts {
  f_signed : rep_signed r = true;
  f_bits : 0 < rep_bits r;
  f_total : total r = rmax r - rmin r + 1;
  f_pow : total r = 2 ^ nbits r;
  f_min : rmin r <= 0;
  f_max : 0 <= rmax r;
  f_lo : imin (rep r) <= rmin r - total r;
  f_hi : rmax r + total r <= imax (rep r);
  f_div : exists q, 2 ^ rep_bits r = q * total r
}.

Lemma pow2_half n : 0 < n -> 2 ^ n = 2 * 2 ^ (n - 1).
Proof. intros H. replace n with (Z.succ (n - 1)) at 1 by lia. rewrite Z.pow_succ_r by lia. reflexivity. Qed.

Lemma row_ok_facts r : row_ok r -> facts r.
Proof.
  intros (Hs & Hn & Hrb & Ht & Hmm).
  assert (Hh : 2 ^ nbits r = 2 * 2 ^ (nbits r - 1)) by (apply pow2_half; lia).
  assert (Hhp : 0 < 2 ^ (nbits r - 1)) by (apply Z.pow_pos_nonneg; lia).
  assert (Hsplit : 2 ^ (rep_bits r - 1) = 2 ^ (nbits r + 1) * 2 ^ (rep_bits r - 2 - nbits r)).
  { rewrite <- Z.pow_add_r by lia. f_equal. lia. }
  assert (Hn1 : 2 ^ (nbits r + 1) = 2 * 2 ^ nbits r) by (rewrite Z.pow_add_r by lia; lia).
  assert (Hrest : 0 < 2 ^ (rep_bits r - 2 - nbits r)) by (apply Z.pow_pos_nonneg; lia).
  assert (Hbig : 2 * 2 ^ nbits r <= 2 ^ (rep_bits r - 1)) by nia.
  assert (Hdiv : 2 ^ rep_bits r = 2 ^ (rep_bits r - nbits r) * 2 ^ nbits r).
  { rewrite <- Z.pow_add_r by lia. f_equal. lia. }
  unfold rep, imin, imax. cbn [fst snd].
  destruct (tsigned r); destruct Hmm as (Hmin & Hmax & _);
    (constructor; try rewrite Hs; try rewrite Ht; try rewrite Hmin; try rewrite Hmax;
     [reflexivity | lia | lia | reflexivity | lia | lia | unfold rep, imin; cbn [fst snd]; rewrite ?Hs; lia
      | unfold rep, imax; cbn [fst snd]; rewrite ?Hs; lia | eexists; exact Hdiv]).
Qed.

(* ---- machine integers ---- *)

Lemma in_ity_iff t z : in_ity t z = true <-> imin t <= z <= imax t.
Proof. unfold in_ity. rewrite andb_true_iff, !Z.leb_le. tauto. Qed.

Lemma prim_ok c t z : imin t <= z <= imax t -> prim c t z = Ok z.
Proof.
  intros H. unfold prim, prim_in.
  destruct (Z.leb_spec (imin t) z), (Z.leb_spec z (imax t)); try lia. reflexivity.
Qed.

Lemma prim_in_ok oc t z : imin t <= z <= imax t -> prim_in oc t (imin t) (imax t) z = Ok z.
Proof. intros H. apply (prim_ok (mkCfg false oc)). exact H. Qed.

Lemma prim_overflow c t z : ~ (imin t <= z <= imax t) ->
  prim c t z = if overflow_checks c then Panic POverflow else Ok (iwrap t z).
Proof.
  intros H. unfold prim, prim_in.
  destruct (Z.leb_spec (imin t) z), (Z.leb_spec z (imax t)); try lia; reflexivity.
Qed.

(* signed wrap: in range and congruent modulo 2^bits *)
Lemma iwrap_signed_spec b z : 0 < b ->
  imin (true, b) <= iwrap (true, b) z <= imax (true, b) /\ exists k, iwrap (true, b) z = z + k * 2 ^ b.
Proof.
  intros Hb. unfold imin, imax, iwrap. cbn [fst snd].
  assert (Hh := pow2_half b Hb).
  assert (Hp : 0 < 2 ^ (b - 1)) by (apply Z.pow_pos_nonneg; lia).
  pose proof (Z.mod_pos_bound (z + 2 ^ (b - 1)) (2 ^ b) ltac:(lia)) as Hm.
  split; [lia|].
  exists (- ((z + 2 ^ (b - 1)) / 2 ^ b)).
  pose proof (Z.div_mod (z + 2 ^ (b - 1)) (2 ^ b) ltac:(lia)). lia.
Qed.

Lemma iwrap_id t z : 0 < snd t -> imin t <= z <= imax t -> iwrap t z = z.
Proof.
  destruct t as [sg b]. unfold imin, imax, iwrap. cbn [fst snd]. intros Hb H.
  assert (Hh := pow2_half b Hb).
  destruct sg.
  - rewrite Z.mod_small by lia. lia.
  - apply Z.mod_small. lia.
Qed.

(* ---- the wrap loops ---- *)

Section LoopProofs.
  Variables (oc : bool) (t : ity) (mn mx tot : Z).
  Let lo := imin t.
  Let hi := imax t.
  Hypothesis Htot : 0 < tot.
  Hypothesis Hlo : lo <= mn - tot.
  Hypothesis Hhi : mx + tot <= hi.
  Hypothesis Hspan : tot = mx - mn + 1.

  Lemma loop_down_spec : forall fuel v, lo <= v <= hi -> v <= mx + Z.of_nat fuel * tot ->
    exists w, loop_down oc t lo hi mx tot fuel v = Some (Ok w) /\
              w <= mx /\ (v <= mx -> w = v) /\ (mx < v -> mn <= w) /\ lo <= w <= hi /\
              exists k, w = v + k * tot.
  Proof using Htot Hlo Hhi Hspan.
    induction fuel as [|f IH]; intros v Hv Hf; cbn [loop_down];
      destruct (Z.gtb_spec v mx) as [Hgt|Hle].
    - lia.
    - exists v. repeat split; try lia. exists 0. lia.
    - unfold lo, hi. rewrite prim_in_ok by (fold lo hi; lia). fold lo hi.
      destruct (IH (v - tot)) as (w & E & Hw1 & Hw2 & Hw3 & Hw4 & k & Hk); [lia | lia |].
      exists w. split; [exact E|]. repeat split; try lia.
      exists (k - 1). lia.
    - exists v. repeat split; try lia. exists 0. lia.
  Qed.

  Lemma loop_up_spec : forall fuel v, lo <= v <= hi -> mn <= v + Z.of_nat fuel * tot ->
    exists w, loop_up oc t lo hi mn tot fuel v = Some (Ok w) /\
              mn <= w /\ (mn <= v -> w = v) /\ (v < mn -> w <= mx) /\ lo <= w <= hi /\
              exists k, w = v + k * tot.
  Proof using Htot Hlo Hhi Hspan.
    induction fuel as [|f IH]; intros v Hv Hf; cbn [loop_up];
      destruct (Z.ltb_spec v mn) as [Hlt|Hge].
    - lia.
    - exists v. repeat split; try lia. exists 0. lia.
    - unfold lo, hi. rewrite prim_in_ok by (fold lo hi; lia). fold lo hi.
      destruct (IH (v + tot)) as (w & E & Hw1 & Hw2 & Hw3 & Hw4 & k & Hk); [lia | lia |].
      exists w. split; [exact E|]. repeat split; try lia.
      exists (k + 1). lia.
    - exists v. repeat split; try lia. exists 0. lia.
  Qed.
End LoopProofs.

Lemma fuel_enough tot v : 0 < tot -> Z.abs v < Z.of_nat (Z.to_nat (Z.abs v / Z.max 1 tot + 2)) * tot.
Proof.
  intros Ht. rewrite Z.max_r by lia.
  pose proof (Z.div_pos (Z.abs v) tot ltac:(lia) Ht) as Hq.
  rewrite Z2Nat.id by lia.
  pose proof (Z.mul_succ_div_gt (Z.abs v) tot Ht). lia.
Qed.

(* From<Rep>: terminates (the fuel suffices), no panic in either configuration, lands in range,
   differs from the argument by a multiple of TOTAL *)
Lemma from_rep_spec c r v : facts r -> imin (rep r) <= v <= imax (rep r) ->
  exists w, from_rep c r v = Ok w /\ in_range r w /\ exists k, w = v + k * total r.
Proof.
  intros F Hv. destruct F as [_ _ Hspan Hpow Hmn Hmx Hlo Hhi _].
  assert (Htot : 0 < total r) by lia.
  pose proof (fuel_enough (total r) v Htot) as Hfuel.
  unfold from_rep, wrap_overflow_fuel, fuel_for.
  set (fuel := Z.to_nat (Z.abs v / Z.max 1 (total r) + 2)) in *.
  destruct (loop_down_spec (overflow_checks c) (rep r) (rmin r) (rmax r) (total r) Htot Hlo Hhi Hspan fuel v)
    as (w1 & E1 & Hw1 & Hsame & Hwent & Hrep1 & k1 & Hk1); [lia | lia |].
  cbv zeta. rewrite E1.
  destruct (loop_up_spec (overflow_checks c) (rep r) (rmin r) (rmax r) (total r) Htot Hlo Hhi Hspan fuel w1)
    as (w & E2 & Hw2 & Hsame2 & Hwent2 & _ & k2 & Hk2); [lia | |].
  { destruct (Z.le_gt_cases v (rmax r)) as [Hc|Hc]; [rewrite Hsame by lia; lia | specialize (Hwent Hc); nia]. }
  rewrite E2. exists w. split; [reflexivity|]. split.
  - unfold in_range. split; [lia|].
    destruct (Z.le_gt_cases (rmin r) w1) as [Hc|Hc]; [rewrite Hsame2 by lia; lia | apply Hwent2; lia].
  - exists (k1 + k2). lia.
Qed.

Lemma wrap_once_spec c r s : facts r -> rmin r - total r <= s <= rmax r + total r ->
  exists w, wrap_overflow_once c r s = Ok w /\ in_range r w /\ exists k, w = s + k * total r.
Proof.
  intros F Hs. destruct F as [_ _ Hspan Hpow Hmn Hmx Hlo Hhi _].
  unfold wrap_overflow_once, in_range.
  destruct (Z.gtb_spec s (rmax r)); [|destruct (Z.ltb_spec s (rmin r))].
  - rewrite prim_ok by lia. eexists; split; [reflexivity|]. split; [lia|]. exists (-1). lia.
  - rewrite prim_ok by lia. eexists; split; [reflexivity|]. split; [lia|]. exists 1. lia.
  - eexists; split; [reflexivity|]. split; [lia|]. exists 0. lia.
Qed.

(* ---- new ---- *)

Lemma new_spec r v : (in_range r v -> new r v = Some v) /\ (~ in_range r v -> new r v = None).
Proof.
  unfold new, in_range.
  destruct (Z.gtb_spec v (rmax r)), (Z.ltb_spec v (rmin r)); cbn [orb]; split; intros; try lia; reflexivity.
Qed.

Lemma expect_new_spec r v :
  (in_range r v -> expect_new r v = Ok v) /\ (~ in_range r v -> expect_new r v = Panic PExpect).
Proof.
  unfold expect_new. destruct (new_spec r v) as [H1 H2].
  split; intros H; [rewrite H1 | rewrite H2]; auto.
Qed.

(* ---- arithmetic ---- *)

Lemma range_in_rep r v : facts r -> in_range r v -> imin (rep r) <= v <= imax (rep r).
Proof. intros [_ _ Hspan _ Hmn Hmx Hlo Hhi _] H. unfold in_range in H. lia. Qed.

(* dev profile: the exact result when it is in range; otherwise a panic — the `expect` of the
   checked constructor when the exact result still fits the Rep, rustc's overflow check when it does not *)
Lemma arith_dev r o a b : facts r ->
  let e := exact o a b in
  (in_range r e -> arith dev r o a b = Ok e) /\
  (~ in_range r e -> arith dev r o a b = Panic (if in_ity (rep r) e then PExpect else POverflow)).
Proof.
  intros F e. unfold arith. fold e. cbn [debug_assertions dev].
  destruct (in_ity (rep r) e) eqn:Ein.
  - apply in_ity_iff in Ein. rewrite prim_ok by exact Ein. cbn [bind]. apply expect_new_spec.
  - assert (Hn : ~ (imin (rep r) <= e <= imax (rep r))) by (rewrite <- in_ity_iff; congruence).
    rewrite prim_overflow by exact Hn. cbn [overflow_checks dev bind]. split; intros H; [|reflexivity].
    exfalso. apply Hn. apply range_in_rep; assumption.
Qed.

Lemma neg_dev r a : facts r ->
  (in_range r (- a) -> neg dev r a = Ok (- a)) /\
  (~ in_range r (- a) -> neg dev r a = Panic (if in_ity (rep r) (- a) then PExpect else POverflow)).
Proof.
  intros F. unfold neg. cbn [debug_assertions dev].
  destruct (in_ity (rep r) (- a)) eqn:Ein.
  - apply in_ity_iff in Ein. rewrite prim_ok by exact Ein. cbn [bind]. apply expect_new_spec.
  - assert (Hn : ~ (imin (rep r) <= - a <= imax (rep r))) by (rewrite <- in_ity_iff; congruence).
    rewrite prim_overflow by exact Hn. cbn [overflow_checks dev bind]. split; intros H; [|reflexivity].
    exfalso. apply Hn. apply range_in_rep; assumption.
Qed.

(* sums and differences of in-range values fit the Rep and are at most one TOTAL away from the range *)
Lemma addsub_near r o a b : facts r -> o <> OMul -> in_range r a -> in_range r b ->
  rmin r - total r <= exact o a b <= rmax r + total r.
Proof.
  intros [_ _ Hspan _ Hmn Hmx _ _ _] Ho Ha Hb. unfold in_range in *.
  destruct o; cbn [exact]; try congruence; lia.
Qed.

(* the primitive operator in a configuration without overflow checks: a Rep value congruent mod 2^rep_bits *)
Lemma prim_nocheck c r z : facts r -> overflow_checks c = false ->
  exists s, prim c (rep r) z = Ok s /\ imin (rep r) <= s <= imax (rep r) /\ exists k, s = z + k * 2 ^ rep_bits r.
Proof.
  intros F Hoc.
  destruct (in_ity (rep r) z) eqn:Ein.
  - apply in_ity_iff in Ein. exists z. rewrite prim_ok by exact Ein. repeat split; try lia. exists 0. lia.
  - assert (Hn : ~ (imin (rep r) <= z <= imax (rep r))) by (rewrite <- in_ity_iff; congruence).
    rewrite prim_overflow by exact Hn. rewrite Hoc.
    exists (iwrap (rep r) z). split; [reflexivity|].
    unfold rep. rewrite (f_signed r F). apply iwrap_signed_spec. exact (f_bits r F).
Qed.

(* any configuration without debug assertions in which the primitive operator does not panic:
   result in range and congruent to the exact result modulo TOTAL *)
Lemma arith_nodebug c r o a b : facts r -> debug_assertions c = false ->
  in_range r a -> in_range r b ->
  forall x, arith c r o a b = x ->
  (exists w, x = Ok w /\ in_range r w /\ exists k, w = exact o a b + k * total r) \/
  (overflow_checks c = true /\ o = OMul /\ ~ (imin (rep r) <= exact o a b <= imax (rep r)) /\ x = Panic POverflow).
Proof.
  intros F Hda Ha Hb x Hx. unfold arith in Hx. rewrite Hda in Hx.
  destruct o.
  1,2: match type of Hx with context[exact ?o _ _] =>
         assert (Hnear : rmin r - total r <= exact o a b <= rmax r + total r)
           by (apply addsub_near; [exact F | discriminate | exact Ha | exact Hb]);
         rewrite prim_ok in Hx by (destruct F as [_ _ Hspan _ Hmn Hmx Hlo Hhi _]; lia); cbn [bind] in Hx;
         destruct (wrap_once_spec c r (exact o a b) F Hnear) as (w & E & Hr & Hk);
         left; exists w; rewrite E in Hx; auto
       end.
  destruct (in_ity (rep r) (exact OMul a b)) eqn:Ein.
  - apply in_ity_iff in Ein. rewrite prim_ok in Hx by exact Ein. cbn [bind] in Hx.
    destruct (from_rep_spec c r _ F Ein) as (w & E & Hr & Hk). left. exists w. rewrite E in Hx. auto.
  - assert (Hn : ~ (imin (rep r) <= exact OMul a b <= imax (rep r))) by (rewrite <- in_ity_iff; congruence).
    destruct (overflow_checks c) eqn:Hoc.
    + right. rewrite prim_overflow, Hoc in Hx by exact Hn. cbn [bind] in Hx. auto.
    + left. destruct (prim_nocheck c r (exact OMul a b) F Hoc) as (s & Es & Hs & ks & Hks).
      rewrite Es in Hx. cbn [bind] in Hx.
      destruct (from_rep_spec c r s F Hs) as (w & E & Hr & k & Hk).
      destruct (f_div r F) as (q & Hq).
      exists w. rewrite E in Hx. split; [auto|]. split; [exact Hr|].
      exists (k + ks * q). rewrite Hk, Hks, Hq. ring.
Qed.

Lemma arith_release r o a b : facts r -> in_range r a -> in_range r b ->
  exists w, arith release r o a b = Ok w /\ in_range r w /\ exists k, w = exact o a b + k * total r.
Proof.
  intros F Ha Hb.
  destruct (arith_nodebug release r o a b F eq_refl Ha Hb _ eq_refl) as [H|(H & _)]; [exact H | discriminate H].
Qed.

Lemma neg_nodebug c r a : facts r -> debug_assertions c = false -> in_range r a ->
  exists w, neg c r a = Ok w /\ in_range r w /\ exists k, w = - a + k * total r.
Proof.
  intros F Hda Ha. unfold neg. rewrite Hda.
  assert (Hnear : rmin r - total r <= - a <= rmax r + total r).
  { destruct F as [_ _ Hspan _ Hmn Hmx _ _ _]. unfold in_range in Ha. lia. }
  rewrite prim_ok by (destruct F as [_ _ Hspan _ Hmn Hmx Hlo Hhi _]; lia). cbn [bind].
  apply wrap_once_spec; assumption.
Qed.

(* whatever the configuration (the four combinations of the two flags): a returned value is in range *)
Lemma arith_never_outside c r o a b w : facts r -> in_range r a -> in_range r b ->
  arith c r o a b = Ok w -> in_range r w.
Proof.
  intros F Ha Hb H.
  destruct (debug_assertions c) eqn:Hda.
  - unfold arith in H. rewrite Hda in H.
    destruct (prim c (rep r) (exact o a b)) as [s| |]; cbn [bind] in H; try discriminate.
    destruct (Z_le_dec (rmin r) s) as [H1|H1]; [destruct (Z_le_dec s (rmax r)) as [H2|H2]|].
    + destruct (expect_new_spec r s) as [E _]. rewrite E in H by (unfold in_range; lia).
      injection H as <-. unfold in_range; lia.
    + destruct (expect_new_spec r s) as [_ E]. rewrite E in H by (unfold in_range; lia). discriminate.
    + destruct (expect_new_spec r s) as [_ E]. rewrite E in H by (unfold in_range; lia). discriminate.
  - destruct (arith_nodebug c r o a b F Hda Ha Hb _ eq_refl) as [(w' & E & Hr & _)|(_ & _ & _ & E)];
      rewrite H in E; [injection E as <-; exact Hr | discriminate].
Qed.

Lemma neg_never_outside c r a w : facts r -> in_range r a -> neg c r a = Ok w -> in_range r w.
Proof.
  intros F Ha H.
  destruct (debug_assertions c) eqn:Hda.
  - unfold neg in H. rewrite Hda in H.
    destruct (prim c (rep r) (- a)) as [s| |]; cbn [bind] in H; try discriminate.
    destruct (Z_le_dec (rmin r) s) as [H1|H1]; [destruct (Z_le_dec s (rmax r)) as [H2|H2]|].
    + destruct (expect_new_spec r s) as [E _]. rewrite E in H by (unfold in_range; lia).
      injection H as <-. unfold in_range; lia.
    + destruct (expect_new_spec r s) as [_ E]. rewrite E in H by (unfold in_range; lia). discriminate.
    + destruct (expect_new_spec r s) as [_ E]. rewrite E in H by (unfold in_range; lia). discriminate.
  - destruct (neg_nodebug c r a F Hda Ha) as (w' & E & Hr & _). rewrite H in E. injection E as <-. exact Hr.
Qed.

(* the representative of a residue class in [MIN, MAX] is unique: "wrapped into range" determines the value *)
Lemma wrapped_unique r w1 w2 : facts r -> in_range r w1 -> in_range r w2 ->
  (exists k, w1 = w2 + k * total r) -> w1 = w2.
Proof.
  intros [_ _ Hspan _ _ _ _ _ _] H1 H2 (k & Hk). unfold in_range in *.
  assert (k = 0) by nia. subst k. lia.
Qed.

Lemma cong_mod w e m : (exists k, w = e + k * m) -> (w - e) mod m = 0.
Proof. intros (k & ->). replace (e + k * m - e) with (k * m) by ring. apply Z_mod_mult. Qed.

(* ---- widening From impls ---- *)

Definition widen_okb (tbl : list row) (r : row) (s : src) : bool :=
  match src_range tbl s with
  | Some (slo, shi) =>
      (0 <? rep_bits r) && (imin (rep r) <=? slo) && (shi <=? imax (rep r)) && (rmin r <=? slo) && (shi <=? rmax r)
  | None => false
  end.

Lemma widen_ok tbl r s : widen_okb tbl r s = true ->
  exists slo shi, src_range tbl s = Some (slo, shi) /\
    forall v, slo <= v <= shi -> from_src r s v = v /\ in_range r v.
Proof.
  unfold widen_okb. destruct (src_range tbl s) as [[slo shi]|]; [|discriminate].
  intros H. repeat (apply andb_prop in H; destruct H as [H ?]).
  rewrite Z.ltb_lt in *. rewrite Z.leb_le in *.
  exists slo, shi. split; [reflexivity|]. intros v Hv. split.
  - unfold from_src. apply iwrap_id; [exact H | lia].
  - unfold in_range. lia.
Qed.

(* custom sources also name an existing row whose Rep is the one written in the from-list *)
Definition src_declb (tbl : list row) (s : src) : bool :=
  match s with
  | SPrim _ b => 0 <? b
  | SCustom nm usg ub =>
      match find_row tbl nm with
      | Some u => Bool.eqb (rep_signed u) usg && (rep_bits u =? ub)
      | None => false
      end
  end.

(* ---- ordering ---- *)

Lemma order_spec a b :
  (t_eq a b = true <-> a = b) /\ (t_lt a b = true <-> a < b) /\ (t_le a b = true <-> a <= b) /\
  (t_gt a b = true <-> a > b) /\ (t_ge a b = true <-> a >= b) /\
  (t_cmp a b = Lt <-> a < b) /\ (t_cmp a b = Eq <-> a = b) /\ (t_cmp a b = Gt <-> a > b).
Proof.
  unfold t_eq, t_lt, t_le, t_gt, t_ge, t_cmp.
  rewrite Z.eqb_eq, Z.ltb_lt, Z.leb_le, Z.gtb_ltb, Z.ltb_lt, Z.geb_leb, Z.leb_le, Z.compare_eq_iff.
  repeat split; intros; try lia; try (apply Z.compare_lt_iff; lia); try (apply Z.compare_gt_iff; lia).
  - apply Z.compare_lt_iff. assumption.
  - apply Z.compare_gt_iff in H. lia.
Qed.
