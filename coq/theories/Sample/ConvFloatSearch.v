(* Model-level search for C02 (DESIGN 5.1a): when a generated proof no longer checks, the functions
   regenerated from conv.rs are evaluated inside coqc against this hand-written executable reference
   of the specification on structured inputs.  Definitions only; not used by any proof. *)
Require Import Floats.SpecFloat.
Require Import ZArith NArith List Bool Uint63.
From Flocq Require Import Core BinarySingleNaN.
From Dasp Require Import Base.Res Base.Float Sample.Rint Sample.ConvSpec Sample.ConvRun Sample.ConvFloatRun.
From DaspGen Require Import ConvGen ConvFloatGen.
Import ListNotations.
Open Scope Z_scope.

(* amplitude / 2^(bits-1): the integer rounded once, the quotient exact *)
Definition ref_i2f32 (i : fmt) (z : Z) : F32.t := F32.div (F32.of_Z (amp i z)) (F32.of_Z (half i)).
Definition ref_i2f64 (i : fmt) (z : Z) : F64.t := F64.div (F64.of_Z (amp i z)) (F64.of_Z (half i)).

(* trunc (f * 2^(bits-1)) re-offset; meaningful on the domain -1 <= f < 1 only *)
Definition ref_f2i32 (i : fmt) (x : F32.t) : Z :=
  F32.to_Z_sat (- half i) (half i - 1) (F32.mul x (F32.of_Z (half i))) + (if signed i then 0 else half i).
Definition ref_f2i64 (i : fmt) (x : F64.t) : Z :=
  F64.to_Z_sat (- half i) (half i - 1) (F64.mul x (F64.of_Z (half i))) + (if signed i then 0 else half i).

Definition dom32 (x : F32.t) : bool :=
  F32.is_finite x && F32.leb (F32.neg F32.one) x && F32.ltb x F32.one.
Definition dom64 (x : F64.t) : bool :=
  F64.is_finite x && F64.leb (F64.neg F64.one) x && F64.ltb x F64.one.

(* rows [input; expected; observation...] for the inputs on which the regenerated function differs *)
Definition spec_bad_i2f (m s fw : Z) (vals : list Z) : list (list Z) :=
  match fmt_of_code s with
  | Some fs =>
    flat_map (fun v =>
      let o := if fw =? 32 then obs_f32 (to_sample_f32_of_int (mode_of m) fs v) else obs_f64 (to_sample_f64_of_int (mode_of m) fs v) in
      let e := if fw =? 32 then F32.bits (ref_i2f32 fs v) else F64.bits (ref_i2f64 fs v) in
      if zl_eqb o [0; e] then [] else [v :: e :: o]) vals
  | None => [[-1]]
  end.

Definition spec_bad_f2i (m fw d : Z) (bits : list Z) : list (list Z) :=
  match fmt_of_code d with
  | Some fd =>
    flat_map (fun b =>
      let indom := if fw =? 32 then dom32 (F32.of_bits b) else dom64 (F64.of_bits b) in
      if indom then
        let o := if fw =? 32 then obs_of (to_sample_int_of_f32 (mode_of m) fd (F32.of_bits b))
                 else obs_of (to_sample_int_of_f64 (mode_of m) fd (F64.of_bits b)) in
        let e := if fw =? 32 then ref_f2i32 fd (F32.of_bits b) else ref_f2i64 fd (F64.of_bits b) in
        if zl_eqb o [0; e] then [] else [b :: e :: o]
      else []) bits
  | None => [[-1]]
  end.
