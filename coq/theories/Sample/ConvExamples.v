(* Non-vacuity: concrete, non-trivial inputs meeting the hypotheses of the C01 theorems,
   evaluated on the generated code and on the specification. *)
Require Import ZArith Bool Lia.
From Dasp Require Import Base.Res Sample.Rint Sample.ConvSpec Sample.ConvSpecProofs.
From DaspGen Require Import ConvGen.
Open Scope Z_scope.

(* mid-range negative narrowing, signed -> offset-unsigned through two calls (i16 -1 -> u8 127) *)
Example ex_i16_u8_minus_one :
  in_range FI16 (-1) /\ to_sample Checked FI16 FU8 (-1) = Ok 127 /\ spec_conv FI16 FU8 (-1) = 127 /\
  to_sample Wrapping FI16 FU8 (-1) = Ok 127.
Proof. unfold in_range; vm_compute; intuition congruence. Qed.

(* negative, not a multiple of the step: floor (-2), where truncation would give -1 *)
Example ex_i16_i8_floor :
  in_range FI16 (-257) /\ to_sample Checked FI16 FI8 (-257) = Ok (-2) /\ spec_conv FI16 FI8 (-257) = -2 /\
  Z.quot (-257) 256 = -1.
Proof. unfold in_range; vm_compute; intuition congruence. Qed.

(* 64 -> 24 bit, negative mid-range, unsigned target: three calls deep *)
Example ex_i64_u24 :
  in_range FI64 (-1234567890123456789) /\
  to_sample Checked FI64 FU24 (-1234567890123456789) = Ok 7265775 /\
  spec_conv FI64 FU24 (-1234567890123456789) = 7265775 /\ in_range FU24 7265775.
Proof. unfold in_range; vm_compute; intuition congruence. Qed.

(* unsigned -> signed widening *)
Example ex_u8_i16_widen :
  in_range FU8 200 /\ to_sample Checked FU8 FI16 200 = Ok 18432 /\ spec_conv FU8 FI16 200 = (200 - 128) * 256.
Proof. unfold in_range; vm_compute; intuition congruence. Qed.

(* widening then narrowing back (hypothesis bits s <= bits d holds, value negative) *)
Example ex_roundtrip :
  bits FI8 <= bits FU48 /\ in_range FI8 (-3) /\
  bind (to_sample Checked FI8 FU48 (-3)) (to_sample Checked FU48 FI8) = Ok (-3).
Proof. unfold in_range; vm_compute; intuition congruence. Qed.

(* ... and the hypothesis is needed: narrowing first loses the low bits *)
Example ex_roundtrip_needs_widening :
  spec_conv FI8 FI16 (spec_conv FI16 FI8 257) = 256.
Proof. reflexivity. Qed.

(* via an intermediate at least as wide as the narrower endpoint (i32 -> U24 -> i8, negative) *)
Example ex_via :
  Z.min (bits FI32) (bits FI8) <= bits FU24 /\ in_range FI32 (-123456789) /\
  bind (to_sample Checked FI32 FU24 (-123456789)) (to_sample Checked FU24 FI8) = to_sample Checked FI32 FI8 (-123456789) /\
  to_sample Checked FI32 FI8 (-123456789) = Ok (-8).
Proof. unfold in_range; vm_compute; intuition congruence. Qed.

(* ... and that hypothesis is needed too: through a narrower intermediate the result differs *)
Example ex_via_needs_width :
  spec_conv FI8 FI32 (spec_conv FI32 FI8 (-123456789)) <> spec_conv FI32 FI32 (-123456789).
Proof. vm_compute; congruence. Qed.

(* the extremes: MIN -> MIN always; MAX -> MAX when narrowing; widening MAX is NOT the target's MAX *)
Example ex_extremes :
  spec_conv FU16 FI64 (fmin FU16) = fmin FI64 /\ spec_conv FI64 FU16 (fmax FI64) = fmax FU16 /\
  spec_conv FI8 FI16 (fmax FI8) = 32512 /\ fmax FI16 = 32767.
Proof. vm_compute; intuition congruence. Qed.

(* the checked semantics is not vacuous: an out-of-range representation value of I24 (possible only
   through new_unchecked) overflows i32 in `s.inner() + 8_388_608`: panic in debug, wrap in release *)
Example ex_out_of_range_source :
  ~ in_range FI24 2147483647 /\ to_sample Checked FI24 FU24 2147483647 = Panic POverflow /\
  to_sample Wrapping FI24 FU24 2147483647 = Ok (-2139095041).
Proof. unfold in_range; vm_compute; intuition (congruence || lia). Qed.
