(* C03 -- integer clauses of the sample amplitude arithmetic (Sample/SampleOps.v):
   the generated companion table says what the statement says; add_amp is re-centred integer addition,
   Ok exactly when the signed sum is representable; offsetting by zero is the identity.
   Built on C01 (to_sample = spec_conv for every pair, both profiles) and C15 (I24 / I48 operators). *)
Require Import ZArith Bool Lia List.
From Dasp Require Import Base.Res Sample.Rint Sample.RintProofs Sample.ConvSpec Sample.ConvSpecProofs
  Sample.ConvTheorems Sample.SampleFmt Sample.SampleOps.
From Dasp Require Sample.TypesModel Sample.TypesProofs Sample.TypesTableProofs.
From DaspGen Require Import FormatTable ConvGen ConvCorrect SampleTable.
From DaspGen Require TypesTable.
Import ListNotations.
Open Scope Z_scope.

(* ---- the table ---- *)
Definition expected_signed (f : fmt) : fmt :=
  match f with FU8 => FI8 | FU16 => FI16 | FU24 => FI32 | FU32 => FI32 | FU48 => FI64 | FU64 => FI64 | x => x end.

Lemma sample_table_ok : forall f : fmt,
  src_signed_fmt f = expected_signed f /\
  signed (src_signed_fmt f) = true /\
  (signed f = true -> src_signed_fmt f = f) /\
  bits f <= bits (src_signed_fmt f) /\
  src_float64 f = (48 <=? bits f) /\
  equilibrium_of (SInt f) = equilibrium f /\
  equilibrium f = (if signed f then 0 else 2 ^ (bits f - 1)).
Proof. destruct f; vm_compute; repeat split; try congruence; try discriminate. Qed.

Lemma signed_sg f : signed (src_signed_fmt f) = true.
Proof. apply sample_table_ok. Qed.
Lemma bits_sg f : bits f <= bits (src_signed_fmt f).
Proof. apply sample_table_ok. Qed.

(* ---- ranges as numerals ---- *)
Lemma in_range_num f z : in_range f z <-> src_min f <= z <= src_max f.
Proof. destruct (format_table_ok f) as (H1 & H2 & _). unfold in_range. rewrite H1, H2. tauto. Qed.

Lemma custom_in_range f r z : custom_row f = Some r -> (in_range f z <-> TypesModel.in_range r z).
Proof.
  rewrite in_range_num. unfold TypesModel.in_range.
  destruct f; intros H; inversion H; subst; cbn; tauto.
Qed.

Lemma custom_in_table f r : custom_row f = Some r -> In r TypesTable.types_table.
Proof. destruct f; intros H; inversion H; subst; cbn; tauto. Qed.

Lemma prim_range f : custom_row f = None -> tmin (src_rep f) = src_min f /\ tmax (src_rep f) = src_max f.
Proof. destruct f; intros H; try discriminate; split; reflexivity. Qed.

(* ---- `+` at an integer sample type ---- *)
Lemma int_add_ok m sg x a : in_range sg x -> in_range sg a -> in_range sg (x + a) -> int_add m sg x a = Ok (x + a).
Proof.
  intros Hx Ha Hs. unfold int_add. destruct (custom_row sg) as [r|] eqn:E.
  - pose proof (custom_in_table _ _ E) as Hin.
    rewrite (custom_in_range _ _ x E) in Hx. rewrite (custom_in_range _ _ a E) in Ha.
    rewrite (custom_in_range _ _ (x + a) E) in Hs.
    destruct m; cbn [cfg_of].
    + destruct (TypesTableProofs.tbl_arith_debug r Hin TypesModel.OAdd x a Hx Ha) as [H _]. apply H. exact Hs.
    + destruct (TypesProofs.arith_release r TypesModel.OAdd x a (TypesTableProofs.table_facts r Hin) Hx Ha)
        as (w & Ew & Hw & k & Hk).
      rewrite Ew. f_equal. cbn [TypesModel.exact] in Hk.
      pose proof (TypesProofs.f_total r (TypesTableProofs.table_facts r Hin)) as Ht.
      unfold TypesModel.in_range in *. set (T := TypesModel.total r) in *.
      assert (HT : 0 < T) by lia.
      destruct (Z.eq_dec k 0) as [->|Hk0]; [lia|]. exfalso.
      assert (Hc : k <= -1 \/ 1 <= k) by lia.
      destruct Hc as [Hc|Hc]; [assert (k * T <= - T) by nia | assert (T <= k * T) by nia]; lia.
  - destruct (prim_range _ E) as [H1 H2]. rewrite in_range_num in Hs. unfold add, arith.
    destruct m; [apply chk_ok | rewrite wrap_id; [reflexivity|]]; lia.
Qed.

Lemma int_add_overflow sg x a : in_range sg x -> in_range sg a -> ~ in_range sg (x + a) ->
  exists k, int_add Checked sg x a = Panic k.
Proof.
  intros Hx Ha Hs. unfold int_add. destruct (custom_row sg) as [r|] eqn:E.
  - pose proof (custom_in_table _ _ E) as Hin.
    rewrite (custom_in_range _ _ x E) in Hx. rewrite (custom_in_range _ _ a E) in Ha.
    rewrite (custom_in_range _ _ (x + a) E) in Hs.
    destruct (TypesTableProofs.tbl_arith_debug r Hin TypesModel.OAdd x a Hx Ha) as [_ H].
    cbn [cfg_of]. rewrite (H Hs). eexists; reflexivity.
  - destruct (prim_range _ E) as [H1 H2]. rewrite in_range_num in Hs. unfold add, arith, chk.
    destruct (fits (src_rep sg) (x + a)) eqn:Ef.
    + apply fits_spec in Ef. exfalso. apply Hs. lia.
    + eexists; reflexivity.
Qed.

(* ---- add_amp on the integer formats ---- *)
Lemma add_amp_int m fi s a :
  in_range fi s -> in_range (src_signed_fmt fi) a -> in_range (src_signed_fmt fi) (spec_conv fi (src_signed_fmt fi) s + a) ->
  add_amp m (SInt fi) s a = Ok (spec_conv (src_signed_fmt fi) fi (spec_conv fi (src_signed_fmt fi) s + a)).
Proof.
  intros Hs Ha Hsum. unfold add_amp, to_signed. cbn [signed_of conv native_add].
  rewrite (to_sample_correct_all m fi _ s Hs). cbn [bind].
  rewrite int_add_ok; [ | now apply spec_in_range | exact Ha | exact Hsum ]. cbn [bind].
  now apply to_sample_correct_all.
Qed.

Lemma add_amp_int_overflow fi s a :
  in_range fi s -> in_range (src_signed_fmt fi) a -> ~ in_range (src_signed_fmt fi) (spec_conv fi (src_signed_fmt fi) s + a) ->
  exists k, add_amp Checked (SInt fi) s a = Panic k.
Proof.
  intros Hs Ha Hsum. unfold add_amp, to_signed. cbn [signed_of conv native_add].
  rewrite (to_sample_correct_all Checked fi _ s Hs). cbn [bind].
  destruct (int_add_overflow (src_signed_fmt fi) _ a (spec_in_range fi _ s Hs) Ha Hsum) as [k ->].
  eexists; reflexivity.
Qed.

(* the signed conversion of a sample is its amplitude scaled to the companion's width *)
Lemma to_signed_value fi s :
  spec_conv fi (src_signed_fmt fi) s = amp fi s * 2 ^ (bits (src_signed_fmt fi) - bits fi).
Proof.
  rewrite <- (spec_widen_exact fi (src_signed_fmt fi) s (bits_sg fi)).
  unfold amp at 1. now rewrite signed_sg.
Qed.

(* converting the signed sum back: amplitude + floor(a / 2^k), re-offset *)
Lemma recentre fi s a :
  spec_conv (src_signed_fmt fi) fi (spec_conv fi (src_signed_fmt fi) s + a)
  = s + a / 2 ^ (bits (src_signed_fmt fi) - bits fi).
Proof.
  rewrite to_signed_value.
  pose proof (bits_sg fi) as Hb. pose proof (bits_pos fi) as Hp.
  set (k := bits (src_signed_fmt fi) - bits fi) in *.
  rewrite spec_conv_eq. unfold offset at 1. rewrite signed_sg. rewrite Z.sub_0_r.
  replace (bits (src_signed_fmt fi)) with (bits fi + k) by (unfold k; lia).
  rewrite (Z.pow_add_r 2 (bits fi) k) by lia.
  assert (0 < 2 ^ bits fi) by (apply pow2_pos; lia).
  assert (0 < 2 ^ k) by (apply pow2_pos; lia).
  rewrite (Z.mul_comm (2 ^ bits fi) (2 ^ k)).
  rewrite Z.div_mul_cancel_r by lia.
  rewrite Z.div_add_l by lia. rewrite amp_offset. lia.
Qed.

Theorem add_amp_recentred m fi s a :
  let sg := src_signed_fmt fi in
  let k := bits sg - bits fi in
  in_range fi s -> in_range sg a -> in_range sg (amp fi s * 2 ^ k + a) ->
  add_amp m (SInt fi) s a = Ok (s + a / 2 ^ k).
Proof.
  intros sg k Hs Ha Hsum. subst sg k. rewrite <- to_signed_value in Hsum.
  rewrite add_amp_int by assumption. now rewrite recentre.
Qed.

Theorem add_amp_overflow fi s a :
  let sg := src_signed_fmt fi in
  let k := bits sg - bits fi in
  in_range fi s -> in_range sg a -> ~ in_range sg (amp fi s * 2 ^ k + a) ->
  exists p, add_amp Checked (SInt fi) s a = Panic p.
Proof.
  intros sg k Hs Ha Hsum. subst sg k. rewrite <- to_signed_value in Hsum. now apply add_amp_int_overflow.
Qed.

(* formats whose Signed companion has the same width (all but U24 and U48): plain x + a, no clamping *)
Theorem add_amp_same_width m fi s a :
  bits (src_signed_fmt fi) = bits fi ->
  in_range fi s -> in_range (src_signed_fmt fi) a -> in_range fi (s + a) ->
  add_amp m (SInt fi) s a = Ok (s + a).
Proof.
  intros Hb Hs Ha Hsum.
  pose proof (add_amp_recentred m fi s a) as H. cbv zeta in H. rewrite Hb, Z.sub_diag in H.
  change (2 ^ 0) with 1 in H. rewrite Z.mul_1_r, Z.div_1_r in H. apply H; try assumption.
  apply in_range_amp. unfold amp. rewrite signed_sg.
  apply in_range_amp in Hsum. rewrite amp_offset in *.
  assert (Hh : half (src_signed_fmt fi) = half fi) by (unfold half; now rewrite Hb).
  rewrite Hh. unfold offset in Hsum. destruct (signed fi); lia.
Qed.

Theorem add_amp_zero_int m fi s : in_range fi s -> add_amp m (SInt fi) s 0 = Ok s.
Proof.
  intros Hs. pose proof (add_amp_int m fi s 0 Hs) as H. rewrite Z.add_0_r in H.
  rewrite H.
  - now rewrite spec_widen_lossless by apply bits_sg.
  - apply in_range_amp. unfold amp. rewrite signed_sg. pose proof (half_pos (src_signed_fmt fi)). lia.
  - now apply spec_in_range.
Qed.

(* to_signed_sample is the re-centred amplitude (unsigned formats are NOT treated as raw integers) *)
Theorem to_signed_int m fi s : in_range fi s ->
  to_signed m (SInt fi) s = Ok (amp fi s * 2 ^ (bits (src_signed_fmt fi) - bits fi)).
Proof.
  intros Hs. unfold to_signed. cbn [signed_of conv].
  rewrite (to_sample_correct_all m fi _ s Hs). now rewrite to_signed_value.
Qed.
