(* C03 -- the fourteen sample formats of dasp_sample (twelve integer formats of Sample/ConvSpec.v
   plus f32 and f64) and the Coq type of a value of each.  Definitions only. *)
Require Import Floats.SpecFloat.
Require Import ZArith Bool.
From Flocq Require Import Core BinarySingleNaN.
From Dasp Require Import Base.Float Sample.ConvSpec.
Open Scope Z_scope.

Inductive sfmt := SInt (f : fmt) | SF32 | SF64.

(* an integer sample is its value (I24/U24/I48/U48: the value of the inner field), a float sample an IEEE value *)
Definition sty (f : sfmt) : Type :=
  match f with SInt _ => Z | SF32 => F32.t | SF64 => F64.t end.

Definition all_sfmts : list sfmt := (List.map SInt all_fmts ++ SF32 :: SF64 :: nil)%list.

(* codes of the correspondence: 0..11 = ConvSpec.fmt_code, 12 = f32, 13 = f64 *)
Definition sfmt_code (f : sfmt) : Z :=
  match f with SInt fi => fmt_code fi | SF32 => 12 | SF64 => 13 end.
Definition sfmt_of_code (c : Z) : option sfmt :=
  match c with
  | 12 => Some SF32 | 13 => Some SF64
  | _ => match fmt_of_code c with Some fi => Some (SInt fi) | None => None end
  end.

(* Z encoding of a value: integers as themselves, floats as IEEE bit patterns *)
Definition enc (f : sfmt) : sty f -> Z :=
  match f with SInt _ => fun z => z | SF32 => F32.bits | SF64 => F64.bits end.
Definition dec (f : sfmt) : Z -> sty f :=
  match f with SInt _ => fun z => z | SF32 => F32.of_bits | SF64 => F64.of_bits end.

(* the values a well-formed sample of the format can take (floats: anything) *)
Definition s_in_range (f : sfmt) : sty f -> Prop :=
  match f with SInt fi => in_range fi | SF32 => fun _ => True | SF64 => fun _ => True end.
