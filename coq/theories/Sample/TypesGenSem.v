(* C15 — semantic support for the GENERATED model of the operation bodies of the macros
   new_sample_type!, impl_neg!, impl_from! (coq/gen/TypesOpsGen.v, written by
   translate/typesops2coq.py from the CURRENT dasp_sample/src/types.rs at every run).
   Definitions only; nothing here mentions the hand model's functions (TypesModel.v is imported
   for the build configuration record [cfg] alone), so the generated model is an independent
   second reading of the source.  The two are proved equal in TypesGenEquiv.v.

   Rust                                   generated Gallina
   a value of $Rep / of $T                [Z] (the newtype is its field)
   Option<$T>, Option<$Rep>               [option Z]
   a function body                        a term of type [M A] = [option (res A)]:
                                            Some (Ok v)     returns v
                                            Some (Panic k)  panics (POverflow: rustc's overflow check on + - * unary -;
                                                            PExpect: `.expect(..)` on None)
                                            None            a `while` loop used up the [fuel] argument
   a + b, a - b, a * b, -a  on $Rep        [p_add c t a b] ... = Sample/Rint.v's [arith] ([add] [sub] [mul] [neg]) at the Rep type t:
                                            overflow-checks on : [chk]  (panic if the exact result does not fit)
                                            overflow-checks off: [wrap] (two's complement)
   a.checked_mul(b)                       [p_checked_mul t a b] : None iff the exact product does not fit (any build)
   a.wrapping_mul(b) (…add, …sub)         [p_wrapping_mul t a b] = wrap (any build)
   e as $Rep                              [p_as t e] = Rint.cast = wrap (never panics)
   cfg!(debug_assertions)                 [debug_assertions c]
   o.expect(".."), o.and_then(f)          [p_expect o], [p_and_then o f]
   while cond { body }  (on `mut self`)   [p_while cond body fuel self0]: at most [fuel] iterations, then None *)
Require Import List ZArith Bool String.
From Dasp Require Import Base.Res Sample.Rint Sample.TypesModel.
Import ListNotations.
Open Scope Z_scope.

(* the arguments of one `new_sample_type!($T: $Rep, eq: $EQ, min: $MIN, max: $MAX, total: $TOTAL, from: ...)` *)
Record margs := mkArgs {
  a_name : string;   (* $T *)
  a_rep : mty;       (* $Rep *)
  a_eq : Z;          (* $EQ *)
  a_min : Z;         (* $MIN *)
  a_max : Z;         (* $MAX *)
  a_total : Z        (* $TOTAL *)
}.

Definition M (A : Type) : Type := option (res A).
Definition ret {A} (a : A) : M A := Some (Ok a).
Definition bindM {A B} (m : M A) (f : A -> M B) : M B :=
  match m with
  | Some (Ok a) => f a
  | Some (Panic k) => Some (Panic k)
  | Some UB => Some UB
  | None => None
  end.
Notation "'let!' x ':=' m 'in' k" := (bindM m (fun x => k))
  (at level 200, x name, m at level 100, k at level 200).

Definition mode_of (c : cfg) : mode := if overflow_checks c then Checked else Wrapping.

(* [p_arith c t z] = [Rint.arith (mode_of c) t z] (TypesGenEquiv.p_arith_rint).  The in-range test comes first only
   to spare the EXECUTED model a 64-bit [mod] per loop iteration when overflow checks are off. *)
Definition p_arith (c : cfg) (t : mty) (z : Z) : res Z :=
  if fits t z then Ok z else Rint.arith (mode_of c) t z.

Definition p_add (c : cfg) (t : mty) (a b : Z) : M Z := Some (p_arith c t (a + b)).
Definition p_sub (c : cfg) (t : mty) (a b : Z) : M Z := Some (p_arith c t (a - b)).
Definition p_mul (c : cfg) (t : mty) (a b : Z) : M Z := Some (p_arith c t (a * b)).
Definition p_neg (c : cfg) (t : mty) (a : Z) : M Z := Some (p_arith c t (- a)).

Definition p_checked (t : mty) (z : Z) : option Z := if fits t z then Some z else None.
Definition p_checked_add (t : mty) (a b : Z) : option Z := p_checked t (a + b).
Definition p_checked_sub (t : mty) (a b : Z) : option Z := p_checked t (a - b).
Definition p_checked_mul (t : mty) (a b : Z) : option Z := p_checked t (a * b).
Definition p_wrapping_add (t : mty) (a b : Z) : Z := wrap t (a + b).
Definition p_wrapping_sub (t : mty) (a b : Z) : Z := wrap t (a - b).
Definition p_wrapping_mul (t : mty) (a b : Z) : Z := wrap t (a * b).
Definition p_as (t : mty) (a : Z) : Z := cast t a.

Definition p_expect {A} (o : option A) : M A :=
  match o with Some x => ret x | None => Some (Panic PExpect) end.
Definition p_and_then {A B} (o : option A) (f : A -> M (option B)) : M (option B) :=
  match o with Some x => f x | None => ret None end.

Fixpoint p_while {S} (cond : S -> M bool) (body : S -> M S) (fuel : nat) (s : S) : M S :=
  let! b := cond s in
  if b then
    match fuel with
    | O => None
    | S f => let! s' := body s in p_while cond body f s'
    end
  else ret s.

(* ---- what one macro invocation expands to: the impls that exist for the type ---- *)

Inductive gsrc :=
| GPrim (t : mty)                       (* `from: u8`        -> impl_from!($T: $Rep from $U)          *)
| GCustom (nm : string) (urep : mty).   (* `from: {I11:i16}` -> impl_from!($T: $Rep from {$U: $URep}) *)

Record gops := mkOps {
  o_args : margs;
  o_new : cfg -> nat -> Z -> M (option Z);              (* $T::new *)
  o_wrap_once : cfg -> nat -> Z -> M Z;                 (* $T::wrap_overflow_once *)
  o_wrap : cfg -> nat -> Z -> M Z;                      (* $T::wrap_overflow *)
  o_from_rep : cfg -> nat -> Z -> M Z;                  (* <$T as From<$Rep>>::from *)
  o_add : cfg -> nat -> Z -> Z -> M Z;                  (* <$T as Add>::add *)
  o_sub : cfg -> nat -> Z -> Z -> M Z;
  o_mul : cfg -> nat -> Z -> Z -> M Z;
  o_neg : option (cfg -> nat -> Z -> M Z);              (* Some iff an `impl_neg!($T);` line exists *)
  o_froms : list (gsrc * (cfg -> nat -> Z -> M Z))      (* the widening From impls, in from-list order *)
}.

(* a fuel that suffices for every Rep value (TypesGenEquiv.fuel_args_enough) *)
Definition fuel_args (p : margs) : nat := Z.to_nat (tmax (a_rep p) / Z.max 1 (a_total p) + 3).
