(* C03 -- scaling by 1.0 on the WIDE integer formats: i32 / u32 (Float companion f32, 24-bit mantissa) and
   i64 / u64 (f64, 53-bit mantissa).  The amplitude does not fit the mantissa, so `mul_amp 1.0` is NOT the
   identity (Sample/SampleOpsFloatProofs.v: mul_amp_one_wide_refuted); what holds, for EVERY in-range sample
   and in both build profiles:
     - no panic, the result is in range (it is the SATURATING `as` cast that keeps the top end in: samples
       within half an ulp of MAX go to the float 1.0, outside the documented [-1,1) domain of the
       float -> int conversion, and 1.0 * 2^(bits-1) = 2^(bits-1) is clamped to MAX);
     - the result is  min (MAX, equilibrium + RNE(amplitude))  where RNE is round-to-nearest-even of the
       integer amplitude to the float companion's precision (one rounding; the division and the
       multiplication by 2^(bits-1) and the product with 1.0 are exact);
     - |result - sample| <= 2^(bits - prec - 2): half an ulp of the top binade (64 for the 32-bit formats,
       512 for the 64-bit formats) -- a fortiori the 2^(bits - prec) of the plan; the bound is attained.
   Instances of Sample/SampleOpsWideLemmas.v at binary32 / binary64 on the literals of the generated conversions. *)
Require Import Floats.SpecFloat.
Require Import ZArith Reals Lia Lra Bool.
From Flocq Require Import Core BinarySingleNaN.
From Dasp Require Import Base.Res Base.Float Sample.Rint Sample.ConvSpec Sample.ConvSpecProofs Sample.ConvTheorems
  Sample.SampleFmt Sample.SampleOps Sample.SampleOpsProofs Sample.SampleOpsLemmas Sample.SampleOpsFloatProofs
  Sample.SampleOpsWideLemmas.
From DaspGen Require Import FormatTable ConvGen ConvFloatGen SampleTable.
Open Scope Z_scope.

(* round-to-nearest-even of an integer to the precision of the format's Float companion, as an integer *)
Definition rne (fi : fmt) (a : Z) : Z := if src_float64 fi then rndZ 53 1024 a else rndZ 24 128 a.

(* what [rne] is, in Flocq's terms: the real rounding operator of the companion's format applied to the integer *)
Lemma rne_spec fi a :
  IZR (rne fi a) = round radix2 (FLT_exp (if src_float64 fi then 3 - 1024 - 53 else 3 - 128 - 24) (prec_of fi)) ZnearestE (IZR a).
Proof.
  unfold rne, prec_of. destruct (src_float64 fi).
  - apply (IZR_rndZ 53 1024).
  - apply (IZR_rndZ 24 128).
Qed.

Lemma pipe32_wide a k lo hi L : 24 < k <= 63 -> lo = - 2 ^ k -> hi = 2 ^ k - 1 -> lo <= a <= hi ->
  is_pow2 (F32.of_bits L) k = true ->
  let r := F32.to_Z_sat lo hi (F32.mul (F32.mul (F32.div (F32.of_Z a) (F32.of_bits L)) identity32) (F32.of_bits L)) in
  r = Z.max lo (Z.min hi (rndZ 24 128 a)) /\ lo <= r <= hi /\ Z.abs (r - a) <= 2 ^ (k - 1 - 24).
Proof.
  intros Hk Hlo Hhi Hr HL. destruct (is_pow2_correct _ _ HL) as (F & V & _).
  destruct (is_pow2_correct _ _ one32) as (F1 & V1 & S1).
  apply (pipeline_one_wide 24 128 p24 pe24 ltac:(lia) ltac:(lia) a k lo hi); auto.
Qed.

Lemma pipe64_wide a k lo hi L : 53 < k <= 63 -> lo = - 2 ^ k -> hi = 2 ^ k - 1 -> lo <= a <= hi ->
  is_pow2 (F64.of_bits L) k = true ->
  let r := F64.to_Z_sat lo hi (F64.mul (F64.mul (F64.div (F64.of_Z a) (F64.of_bits L)) identity64) (F64.of_bits L)) in
  r = Z.max lo (Z.min hi (rndZ 53 1024 a)) /\ lo <= r <= hi /\ Z.abs (r - a) <= 2 ^ (k - 1 - 53).
Proof.
  intros Hk Hlo Hhi Hr HL. destruct (is_pow2_correct _ _ HL) as (F & V & _).
  destruct (is_pow2_correct _ _ one64) as (F1 & V1 & S1).
  apply (pipeline_one_wide 53 1024 p53 pe53 ltac:(lia) ltac:(lia) a k lo hi); auto.
Qed.

(* the statement for one format *)
Definition wide_ok (m : mode) (fi : fmt) (s : Z) : Prop :=
  exists r, mul_amp m (SInt fi) s (identity_of (SInt fi)) = Ok r /\
    r = Z.min (fmax fi) (equilibrium fi + rne fi (amp fi s)) /\
    in_range fi r /\
    Z.abs (r - s) <= 2 ^ (bits fi - prec_of fi - 2).

Section PerFormat.
Variable m : mode.

Lemma mul_one_i32_wide s : in_range FI32 s -> wide_ok m FI32 s.
Proof.
  intros Hs. pose proof Hs as Hs'. unfold wide_ok.
  signed_open Hs.
  destruct (pipe32_wide s 31 (-2147483648) 2147483647 1325400064) as (V & R & E);
    [lia | reflexivity | reflexivity | lia | vm_compute; reflexivity | ].
  cbv zeta in V, R, E. eexists. split; [reflexivity|].
  pose proof (rndZ_abs_le 24 128 p24 ltac:(lia) ltac:(lia) s 31 ltac:(lia)) as B.
  change (2 ^ 31) with 2147483648 in B.
  unfold rne, prec_of, in_range, fmax, fmin, equilibrium, amp, half. cbn [src_float64 signed bits].
  change (2 ^ (32 - 1)) with 2147483648. change (2 ^ (32 - 24 - 2)) with 64. change (2 ^ (31 - 1 - 24)) with 64 in E.
  repeat split; lia.
Qed.

Lemma mul_one_i64_wide s : in_range FI64 s -> wide_ok m FI64 s.
Proof.
  intros Hs. pose proof Hs as Hs'. unfold wide_ok.
  signed_open Hs.
  destruct (pipe64_wide s 63 (-9223372036854775808) 9223372036854775807 4890909195324358656) as (V & R & E);
    [lia | reflexivity | reflexivity | lia | vm_compute; reflexivity | ].
  cbv zeta in V, R, E. eexists. split; [reflexivity|].
  pose proof (rndZ_abs_le 53 1024 p53 ltac:(lia) ltac:(lia) s 63 ltac:(lia)) as B.
  change (2 ^ 63) with 9223372036854775808 in B.
  unfold rne, prec_of, in_range, fmax, fmin, equilibrium, amp, half. cbn [src_float64 signed bits].
  change (2 ^ (64 - 1)) with 9223372036854775808. change (2 ^ (64 - 53 - 2)) with 512.
  change (2 ^ (63 - 1 - 53)) with 512 in E.
  repeat split; lia.
Qed.

Lemma mul_one_u32_wide s : in_range FU32 s -> wide_ok m FU32 s.
Proof.
  intros Hs. pose proof Hs as Hs'. unfold wide_ok.
  unsigned_open m s Hs FU32 FI32 u32_to_i32 i32_to_u32 a Ha.
  destruct (pipe32_wide a 31 (-2147483648) 2147483647 1325400064) as (V & R & E);
    [lia | reflexivity | reflexivity | lia | vm_compute; reflexivity | ].
  cbv zeta in V, R, E.
  set (r := F32.to_Z_sat _ _ _) in *.
  change (i32_to_u32 m r) with (to_sample m FI32 FU32 r).
  rewrite to_sample_correct_all by (apply in_range_num; cbn [src_min src_max]; lia).
  eexists. split; [reflexivity|].
  pose proof (rndZ_abs_le 24 128 p24 ltac:(lia) ltac:(lia) a 31 ltac:(lia)) as B.
  change (2 ^ 31) with 2147483648 in B.
  assert (Ea : a = s - 2147483648).
  { subst a. unfold spec_conv, amp, half. cbn [signed bits]. change (2 ^ (32 - 1)) with 2147483648.
    rewrite Z.div_mul by (vm_compute; discriminate). lia. }
  assert (Er : spec_conv FI32 FU32 r = r + 2147483648).
  { unfold spec_conv, amp, half. cbn [signed bits]. change (2 ^ (32 - 1)) with 2147483648.
    rewrite Z.div_mul by (vm_compute; discriminate). lia. }
  rewrite Er. apply in_range_num in Hs'. cbn [src_min src_max] in Hs'.
  unfold rne, prec_of, in_range, fmax, fmin, equilibrium, amp, half. cbn [src_float64 signed bits].
  change (2 ^ (32 - 1)) with 2147483648. change (2 ^ (32 - 24 - 2)) with 64. change (2 ^ (31 - 1 - 24)) with 64 in E.
  rewrite <- Ea. repeat split; lia.
Qed.

Lemma mul_one_u64_wide s : in_range FU64 s -> wide_ok m FU64 s.
Proof.
  intros Hs. pose proof Hs as Hs'. unfold wide_ok.
  unsigned_open m s Hs FU64 FI64 u64_to_i64 i64_to_u64 a Ha.
  destruct (pipe64_wide a 63 (-9223372036854775808) 9223372036854775807 4890909195324358656) as (V & R & E);
    [lia | reflexivity | reflexivity | lia | vm_compute; reflexivity | ].
  cbv zeta in V, R, E.
  set (r := F64.to_Z_sat _ _ _) in *.
  change (i64_to_u64 m r) with (to_sample m FI64 FU64 r).
  rewrite to_sample_correct_all by (apply in_range_num; cbn [src_min src_max]; lia).
  eexists. split; [reflexivity|].
  pose proof (rndZ_abs_le 53 1024 p53 ltac:(lia) ltac:(lia) a 63 ltac:(lia)) as B.
  change (2 ^ 63) with 9223372036854775808 in B.
  assert (Ea : a = s - 9223372036854775808).
  { subst a. unfold spec_conv, amp, half. cbn [signed bits]. change (2 ^ (64 - 1)) with 9223372036854775808.
    rewrite Z.div_mul by (vm_compute; discriminate). lia. }
  assert (Er : spec_conv FI64 FU64 r = r + 9223372036854775808).
  { unfold spec_conv, amp, half. cbn [signed bits]. change (2 ^ (64 - 1)) with 9223372036854775808.
    rewrite Z.div_mul by (vm_compute; discriminate). lia. }
  rewrite Er. apply in_range_num in Hs'. cbn [src_min src_max] in Hs'.
  unfold rne, prec_of, in_range, fmax, fmin, equilibrium, amp, half. cbn [src_float64 signed bits].
  change (2 ^ (64 - 1)) with 9223372036854775808. change (2 ^ (64 - 53 - 2)) with 512.
  change (2 ^ (63 - 1 - 53)) with 512 in E.
  rewrite <- Ea. repeat split; lia.
Qed.

End PerFormat.

(* ---- all four wide formats ---- *)

(* [prec_of fi < bits fi] singles out i32, u32 (24 < 32) and i64, u64 (53 < 64) *)
Theorem mul_amp_one_wide m fi s : prec_of fi < bits fi -> in_range fi s ->
  exists r, mul_amp m (SInt fi) s (identity_of (SInt fi)) = Ok r /\
    r = Z.min (fmax fi) (equilibrium fi + rne fi (amp fi s)) /\
    in_range fi r /\
    Z.abs (r - s) <= 2 ^ (bits fi - prec_of fi - 2).
Proof.
  intros Hb Hs. destruct fi; unfold prec_of in Hb; cbn [bits src_float64] in Hb; try (exfalso; lia).
  - exact (mul_one_i32_wide m s Hs).
  - exact (mul_one_i64_wide m s Hs).
  - exact (mul_one_u32_wide m s Hs).
  - exact (mul_one_u64_wide m s Hs).
Qed.

(* the plan's (weaker) form of the bound *)
Corollary mul_amp_one_wide_loose m fi s : prec_of fi < bits fi -> in_range fi s ->
  exists r, mul_amp m (SInt fi) s (identity_of (SInt fi)) = Ok r /\ in_range fi r /\
    Z.abs (r - s) <= 2 ^ (bits fi - prec_of fi).
Proof.
  intros Hb Hs. destruct (mul_amp_one_wide m fi s Hb Hs) as (r & E & _ & R & B).
  exists r. repeat split; try assumption; try apply R.
  eapply Z.le_trans; [exact B|]. apply Z.pow_le_mono_r; lia.
Qed.

(* [rne] is the identity on integers that fit the mantissa, is monotone, and maps 2^k-bounded integers to
   2^k-bounded integers *)
Lemma rne_small fi a : Z.abs a <= 2 ^ prec_of fi -> rne fi a = a.
Proof.
  unfold rne, prec_of. destruct (src_float64 fi); intros H.
  - apply (rndZ_small 53 1024 p53); [lia | lia | exact H].
  - apply (rndZ_small 24 128 p24); [lia | lia | exact H].
Qed.

Lemma rne_monotone fi a b : a <= b -> rne fi a <= rne fi b.
Proof.
  unfold rne. destruct (src_float64 fi); intros H.
  - now apply (rndZ_monotone 53 1024 p53).
  - now apply (rndZ_monotone 24 128 p24).
Qed.

Lemma rne_error fi a : prec_of fi < bits fi -> - half fi <= a <= half fi ->
  Z.abs (rne fi a - a) <= 2 ^ (bits fi - prec_of fi - 2).
Proof.
  intros Hb Ha. unfold rne. unfold half in Ha.
  destruct fi; unfold prec_of in *; cbn [bits src_float64] in *; try (exfalso; lia).
  - apply (rndZ_error 24 128 p24 ltac:(lia) ltac:(lia) a 31); [lia|]. change (32 - 1) with 31 in Ha. lia.
  - apply (rndZ_error 53 1024 p53 ltac:(lia) ltac:(lia) a 63); [lia|]. change (64 - 1) with 63 in Ha. lia.
  - apply (rndZ_error 24 128 p24 ltac:(lia) ltac:(lia) a 31); [lia|]. change (32 - 1) with 31 in Ha. lia.
  - apply (rndZ_error 53 1024 p53 ltac:(lia) ltac:(lia) a 63); [lia|]. change (64 - 1) with 63 in Ha. lia.
Qed.

Lemma rne_facts fi a b :
  IZR (rne fi a) = round radix2 (FLT_exp (if src_float64 fi then 3 - 1024 - 53 else 3 - 128 - 24) (prec_of fi)) ZnearestE (IZR a) /\
  (Z.abs a <= 2 ^ prec_of fi -> rne fi a = a) /\
  (a <= b -> rne fi a <= rne fi b) /\
  (prec_of fi < bits fi -> - half fi <= a <= half fi -> Z.abs (rne fi a - a) <= 2 ^ (bits fi - prec_of fi - 2)).
Proof.
  repeat split.
  - apply rne_spec.
  - apply rne_small.
  - apply rne_monotone.
  - apply rne_error.
Qed.

(* hence: still exact whenever the AMPLITUDE fits the mantissa (for u32 / u64: samples within 2^prec of the
   equilibrium) -- this contains the former c03_mul_one_wide_partial and adds its unsigned forms *)
Theorem mul_amp_one_wide_small m fi s : prec_of fi < bits fi -> in_range fi s ->
  Z.abs (amp fi s) <= 2 ^ prec_of fi -> mul_amp m (SInt fi) s (identity_of (SInt fi)) = Ok s.
Proof.
  intros Hb Hs Hsm. destruct (mul_amp_one_wide m fi s Hb Hs) as (r & E & V & _ & _).
  rewrite E. f_equal. rewrite V, rne_small by exact Hsm.
  rewrite amp_offset, equilibrium_offset. destruct Hs as [_ Hs]. lia.
Qed.

(* the bound 2^(bits - prec - 2) is attained (a tie, rounded to even), and the top end saturates:
   MAX - 63 (resp. MAX - 511) is a tie between MAX + 1 - 128 and MAX + 1, goes up to the float 1.0 and is clamped to MAX *)
Theorem mul_amp_one_wide_attained m :
  mul_amp m (SInt FI32) (2 ^ 30 + 64) identity32 = Ok (2 ^ 30) /\
  mul_amp m (SInt FU32) (2 ^ 31 + 2 ^ 30 + 64) identity32 = Ok (2 ^ 31 + 2 ^ 30) /\
  mul_amp m (SInt FI64) (2 ^ 62 + 512) identity64 = Ok (2 ^ 62) /\
  mul_amp m (SInt FU64) (2 ^ 63 + 2 ^ 62 + 512) identity64 = Ok (2 ^ 63 + 2 ^ 62) /\
  mul_amp m (SInt FI32) (fmax FI32 - 63) identity32 = Ok (fmax FI32) /\
  mul_amp m (SInt FU32) (fmax FU32 - 63) identity32 = Ok (fmax FU32) /\
  mul_amp m (SInt FI64) (fmax FI64 - 511) identity64 = Ok (fmax FI64) /\
  mul_amp m (SInt FU64) (fmax FU64 - 511) identity64 = Ok (fmax FU64) /\
  mul_amp m (SInt FI32) (fmin FI32 + 63) identity32 = Ok (fmin FI32) /\
  mul_amp m (SInt FU64) 511 identity64 = Ok 0.
Proof. destruct m; vm_compute; repeat split; reflexivity. Qed.

(* non-vacuity: the hypotheses of mul_amp_one_wide / _small hold for mid-range, non-representable and extreme samples *)
Example wide_hyps_sat :
  (prec_of FI32 < bits FI32 /\ in_range FI32 16777217 /\ in_range FI32 (fmax FI32) /\ in_range FI32 (fmin FI32)) /\
  (prec_of FU32 < bits FU32 /\ in_range FU32 2164260865 /\ in_range FU32 0) /\
  (prec_of FI64 < bits FI64 /\ in_range FI64 9007199254740993) /\
  (prec_of FU64 < bits FU64 /\ in_range FU64 9232379236109516801 /\ in_range FU64 (fmax FU64)) /\
  (Z.abs (amp FU32 2147483649) <= 2 ^ prec_of FU32 /\ Z.abs (amp FI64 (-9007199254740992)) <= 2 ^ prec_of FI64).
Proof. vm_compute. repeat split; discriminate. Qed.
