(* Lemmas about the machine-integer semantics of Rint.v. *)
Require Import ZArith Bool Lia.
From Dasp Require Import Base.Res Sample.Rint.
Open Scope Z_scope.

Lemma tables_ok : forall t,
  tmod t = 2 ^ tbits t /\
  tmin t = (if tsigned t then - 2 ^ (tbits t - 1) else 0) /\
  tmax t = (if tsigned t then 2 ^ (tbits t - 1) - 1 else 2 ^ tbits t - 1).
Proof. destruct t; vm_compute; auto. Qed.

Lemma fits_spec t z : fits t z = true <-> tmin t <= z <= tmax t.
Proof. unfold fits. rewrite andb_true_iff, !Z.leb_le. tauto. Qed.

Lemma chk_ok t z : tmin t <= z <= tmax t -> chk t z = Ok z.
Proof. intros H. unfold chk. apply fits_spec in H. now rewrite H. Qed.

Lemma chk_inv t z v : chk t z = Ok v -> v = z /\ tmin t <= z <= tmax t.
Proof.
  unfold chk. destruct (fits t z) eqn:E; intros H; inversion H; subst.
  split; auto. now apply fits_spec.
Qed.

Lemma wrap_id t z : tmin t <= z <= tmax t -> wrap t z = z.
Proof.
  intros H. unfold wrap.
  assert (Hm : tmax t = tmin t + tmod t - 1) by (destruct t; reflexivity).
  rewrite Z.mod_small by lia. lia.
Qed.

Lemma wrap_range t z : tmin t <= wrap t z <= tmax t.
Proof.
  unfold wrap.
  assert (Hm : tmax t = tmin t + tmod t - 1) by (destruct t; reflexivity).
  assert (Hp : 0 < tmod t) by (destruct t; reflexivity).
  pose proof (Z.mod_pos_bound (z - tmin t) (tmod t) Hp). lia.
Qed.

Lemma wrap_congr t z : (wrap t z - z) mod tmod t = 0.
Proof.
  unfold wrap.
  assert (Hp : tmod t <> 0) by (destruct t; discriminate).
  rewrite (Z.mod_eq (z - tmin t) (tmod t)) by exact Hp.
  replace (z - tmin t - tmod t * ((z - tmin t) / tmod t) + tmin t - z)
    with ((- ((z - tmin t) / tmod t)) * tmod t) by ring.
  apply Z.mod_mul; exact Hp.
Qed.

(* debug -> release transfer, building blocks (used syntax-directedly on generated code) *)
Lemma le_res_refl {A} (a : res A) : le_res a a.
Proof. intros v H; exact H. Qed.

Lemma le_res_arith t z : le_res (arith Checked t z) (arith Wrapping t z).
Proof.
  intros v H. cbn [arith] in *. apply chk_inv in H. destruct H as [-> H].
  now rewrite wrap_id.
Qed.

Lemma le_res_bind {A B} (a b : res A) (f g : A -> res B) :
  le_res a b -> (forall x, le_res (f x) (g x)) -> le_res (bind a f) (bind b g).
Proof.
  intros Hab Hfg v H. apply bind_ok in H. destruct H as [x [Ha Hf]].
  rewrite (Hab _ Ha). cbn [bind]. now apply Hfg.
Qed.

Lemma le_res_if {A} (c : bool) (a b a' b' : res A) :
  le_res a a' -> le_res b b' -> le_res (if c then a else b) (if c then a' else b').
Proof. destruct c; auto. Qed.

Lemma le_res_add t a b : le_res (add Checked t a b) (add Wrapping t a b).
Proof. apply le_res_arith. Qed.
Lemma le_res_sub t a b : le_res (sub Checked t a b) (sub Wrapping t a b).
Proof. apply le_res_arith. Qed.
Lemma le_res_mul t a b : le_res (mul Checked t a b) (mul Wrapping t a b).
Proof. apply le_res_arith. Qed.
Lemma le_res_neg t a : le_res (neg Checked t a) (neg Wrapping t a).
Proof. apply le_res_arith. Qed.
Lemma le_res_idiv t a b : le_res (idiv Checked t a b) (idiv Wrapping t a b).
Proof. apply le_res_refl. Qed.
