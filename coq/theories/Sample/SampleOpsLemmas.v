(* C03 -- the IEEE facts the float clauses of the amplitude arithmetic need, proved once for any
   (prec, emax) with 2 <= prec <= 64 < emax (binary32 and binary64), over Flocq:
     int -> float -> times 1.0 or 0.0 -> int  round trip of an integer that fits the mantissa. *)
Require Import Floats.SpecFloat.
Require Import ZArith Reals Lia Lra Bool.
From Flocq Require Import Core BinarySingleNaN Mult_error.
From Dasp Require Import Base.Float.
Open Scope Z_scope.

Section G.
Variables prec emax : Z.
Context (prec_gt_0_ : Prec_gt_0 prec).
Context (prec_lt_emax_ : Prec_lt_emax prec emax).
Hypothesis Hprec : 2 <= prec.
Hypothesis Hemax : 64 < emax.
Hypothesis Hprec64 : prec <= 64.

Notation bf := (binary_float prec emax).
Let emin := (3 - emax - prec)%Z.
Let fexp := FLT_exp emin prec.
Notation rnd := (round radix2 fexp ZnearestE).
Notation of_int := (gof_Z prec emax prec_gt_0_ prec_lt_emax_).
Notation fdiv := (gdiv prec emax prec_gt_0_ prec_lt_emax_).
Notation fmul := (gmul prec emax prec_gt_0_ prec_lt_emax_).
Notation fadd := (gadd prec emax prec_gt_0_ prec_lt_emax_).

Lemma fmt_bpow k : 0 <= k -> generic_format radix2 fexp (bpow radix2 k).
Proof.
  intros Hk. apply generic_format_bpow. unfold fexp, FLT_exp, emin.
  pose proof prec_gt_0_ as P; unfold Prec_gt_0 in P. lia.
Qed.

(* an integer below 2^prec in magnitude is a float *)
Lemma fmt_small_int z : Z.abs z <= 2 ^ prec -> generic_format radix2 fexp (IZR z).
Proof.
  intros Hz.
  destruct (Z.eq_dec (Z.abs z) (2 ^ prec)) as [E|NE].
  - assert (Hc : z = 2 ^ prec \/ z = - 2 ^ prec) by lia.
    destruct Hc as [-> | ->].
    + change (2 ^ prec) with (radix2 ^ prec). rewrite IZR_Zpower by lia. apply fmt_bpow. lia.
    + rewrite opp_IZR. apply generic_format_opp.
      change (2 ^ prec) with (radix2 ^ prec). rewrite IZR_Zpower by lia. apply fmt_bpow. lia.
  - apply generic_format_FLT. exists (Float radix2 z 0).
    + unfold F2R; simpl. ring.
    + simpl. change (radix2 ^ prec) with (2 ^ prec). lia.
    + simpl. unfold emin. lia.
Qed.

Lemma rnd_IZR_le_pow (z k : Z) : 0 <= k -> (Z.abs z <= 2^k)%Z -> (Rabs (rnd (IZR z)) <= bpow radix2 k)%R.
Proof.
  intros Hk Hz.
  apply abs_round_le_generic; auto with typeclass_instances.
  - apply (@fexp_correct prec emax prec_gt_0_).
  - now apply fmt_bpow.
  - rewrite <- abs_IZR. rewrite <- IZR_Zpower by lia. apply IZR_le. exact Hz.
Qed.

Lemma of_int_correct (z k : Z) : 0 <= k <= 63 -> (Z.abs z <= 2^k)%Z ->
  B2R (of_int z) = rnd (IZR z) /\ is_finite (of_int z) = true.
Proof.
  intros Hk Hz. unfold gof_Z.
  pose proof (@binary_normalize_correct prec emax prec_gt_0_ prec_lt_emax_ mode_NE z 0 false) as H.
  cbv zeta in H. replace (F2R (Float radix2 z 0)) with (IZR z) in H by (unfold F2R; simpl; ring).
  rewrite Rlt_bool_true in H.
  - destruct H as (H1 & H2 & _). split; assumption.
  - eapply Rle_lt_trans. { apply rnd_IZR_le_pow with (k:=k); lia. }
    apply bpow_lt. lia.
Qed.

(* int as fN / 2^k *)
Theorem of_int_div_pow2 (z k : Z) (P : bf) : 0 <= k <= 63 -> (Z.abs z <= 2^k)%Z ->
  is_finite P = true -> B2R P = bpow radix2 k ->
  B2R (fdiv (of_int z) P) = (rnd (IZR z) / bpow radix2 k)%R
  /\ is_finite (fdiv (of_int z) P) = true.
Proof.
  intros Hk Hz Fy Hy.
  destruct (of_int_correct z k Hk Hz) as [Hx Fx].
  pose proof (@Bdiv_correct prec emax prec_gt_0_ prec_lt_emax_ mode_NE (of_int z) P) as H.
  rewrite Hx, Hy in H.
  assert (Hne : bpow radix2 k <> 0%R) by (apply Rgt_not_eq, bpow_gt_0).
  specialize (H Hne).
  assert (Hfmt : generic_format radix2 fexp (rnd (IZR z) / bpow radix2 k)).
  { unfold Rdiv. rewrite <- bpow_opp.
    destruct (Req_dec (rnd (IZR z)) 0) as [Z0|NZ].
    - rewrite Z0, Rmult_0_l. apply generic_format_0.
    - apply mult_bpow_exact_FLT.
      + apply generic_format_round; auto with typeclass_instances. apply (@fexp_correct prec emax prec_gt_0_).
      + assert (1 <= mag radix2 (rnd (IZR z)))%Z.
        { apply mag_ge_bpow.
          assert (Hz0 : z <> 0%Z) by (intro; subst; apply NZ; rewrite round_0; auto with typeclass_instances).
          replace (1 - 1)%Z with 0%Z by lia. change (bpow radix2 0) with 1%R.
          apply abs_round_ge_generic; auto with typeclass_instances.
          * apply (@fexp_correct prec emax prec_gt_0_).
          * change 1%R with (bpow radix2 0). apply fmt_bpow. lia.
          * rewrite <- abs_IZR. apply IZR_le. lia. }
        unfold emin. lia. }
  rewrite round_generic in H by (auto with typeclass_instances).
  rewrite Rlt_bool_true in H.
  - destruct H as (H1 & H2 & _). split; [exact H1 | unfold gdiv; rewrite H2; exact Fx].
  - unfold Rdiv. rewrite Rabs_mult. rewrite (Rabs_pos_eq (/ _)) by (left; apply Rinv_0_lt_compat, bpow_gt_0).
    apply Rle_lt_trans with (bpow radix2 k * / bpow radix2 k)%R.
    + apply Rmult_le_compat_r. { left; apply Rinv_0_lt_compat, bpow_gt_0. }
      apply rnd_IZR_le_pow; lia.
    + rewrite Rinv_r by exact Hne. change 1%R with (bpow radix2 0). apply bpow_lt. lia.
Qed.

(* a product whose exact value r is a float of magnitude below 2^emax is exact *)
Lemma fmul_exact (x y : bf) (r : R) : is_finite x = true -> is_finite y = true ->
  (B2R x * B2R y = r)%R -> generic_format radix2 fexp r -> (Rabs r < bpow radix2 emax)%R ->
  B2R (fmul x y) = r /\ is_finite (fmul x y) = true /\
  (Bsign (fmul x y) = xorb (Bsign x) (Bsign y)).
Proof.
  intros Fx Fy Hr Hf Hb.
  pose proof (@Bmult_correct prec emax prec_gt_0_ prec_lt_emax_ mode_NE x y) as H.
  rewrite Hr in H. rewrite round_generic in H by (auto with typeclass_instances).
  rewrite Rlt_bool_true in H by exact Hb.
  destruct H as (H1 & H2 & H3). unfold gmul. rewrite H1, H2, Fx, Fy. repeat split.
  apply H3. rewrite Fx, Fy in H2. destruct (Bmult mode_NE x y); try reflexivity; discriminate.
Qed.

Lemma B2R_lt_emax (x : bf) : (Rabs (B2R x) < bpow radix2 emax)%R.
Proof.
  destruct x as [s|s| |s mx ex Hx]; simpl; try (rewrite Rabs_R0; apply bpow_gt_0).
  apply (@abs_B2R_lt_emax prec emax (B754_finite s mx ex Hx)).
Qed.

(* x * 1.0 = x, bit for bit, for every x (finite or not) *)
Theorem fmul_one (x one : bf) : is_finite one = true -> B2R one = 1%R -> Bsign one = false ->
  fmul x one = x.
Proof.
  intros F1 H1 S1.
  destruct (is_finite x) eqn:Fx.
  - destruct (fmul_exact x one (B2R x) Fx F1) as (Hv & Hf & Hs).
    + rewrite H1. ring.
    + apply generic_format_B2R.
    + apply B2R_lt_emax.
    + apply B2R_Bsign_inj; auto. rewrite Hs, S1. now destruct (Bsign x).
  - destruct x as [s|s| |s mx ex Hx]; try discriminate.
    + destruct one as [s1|s1| |s1 m1 e1 H1']; try discriminate.
      * simpl in H1. exfalso; lra.
      * simpl in S1. subst s1. unfold gmul. simpl. now destruct s.
    + unfold gmul. destruct one; reflexivity.
Qed.

(* x * 0.0 is a zero for finite x *)
Theorem fmul_zero (x z0 : bf) : is_finite x = true -> is_finite z0 = true -> B2R z0 = 0%R ->
  B2R (fmul x z0) = 0%R /\ is_finite (fmul x z0) = true.
Proof.
  intros Fx F0 H0.
  destruct (fmul_exact x z0 0%R Fx F0) as (Hv & Hf & _).
  - rewrite H0. ring.
  - apply generic_format_0.
  - rewrite Rabs_R0. apply bpow_gt_0.
  - split; assumption.
Qed.

(* x + 0.0 has the value of x (the sign of a zero result may differ: -0.0 + 0.0 = +0.0) *)
Theorem fadd_zero (x z0 : bf) : is_finite x = true -> is_finite z0 = true -> B2R z0 = 0%R ->
  B2R (fadd x z0) = B2R x /\ is_finite (fadd x z0) = true.
Proof.
  intros Fx F0 H0.
  pose proof (@Bplus_correct prec emax prec_gt_0_ prec_lt_emax_ mode_NE x z0 Fx F0) as H.
  rewrite H0, Rplus_0_r in H. rewrite round_generic in H by (auto with typeclass_instances; apply generic_format_B2R).
  rewrite Rlt_bool_true in H by apply B2R_lt_emax.
  destruct H as (H1 & H2 & _). split; assumption.
Qed.

(* (y * 2^k) as int, when y * 2^k is the integer a *)
Theorem to_int_exact (y P : bf) (a k lo hi : Z) : 0 <= k <= 63 ->
  is_finite y = true -> is_finite P = true -> B2R P = bpow radix2 k ->
  (B2R y = IZR a / bpow radix2 k)%R -> generic_format radix2 fexp (IZR a) -> Z.abs a <= 2 ^ 64 ->
  lo <= a <= hi ->
  gto_Z_sat prec emax lo hi (fmul y P) = a.
Proof.
  intros Hk Fy FP HP Hy Hfa Hab Hr.
  destruct (fmul_exact y P (IZR a) Fy FP) as (Hv & Hf & _).
  - rewrite Hy, HP. field. apply Rgt_not_eq, bpow_gt_0.
  - exact Hfa.
  - rewrite <- abs_IZR. apply Rle_lt_trans with (IZR (2 ^ 64)); [now apply IZR_le|].
    change (2 ^ 64) with (radix2 ^ 64). rewrite IZR_Zpower by lia. apply bpow_lt. lia.
  - assert (Ht : Btrunc (fmul y P) = a).
    { apply eq_IZR. rewrite (@Btrunc_correct prec emax prec_lt_emax_). rewrite Hv.
      apply round_generic; auto with typeclass_instances.
      apply generic_format_FIX. exists (Float radix2 a 0); [unfold F2R; simpl; ring | reflexivity].
      }
    unfold gto_Z_sat. destruct (fmul y P) as [s|s| |s mx ex Hx] eqn:E; try discriminate; rewrite Ht; lia.
Qed.

(* the whole pipeline on an integer that fits the mantissa: (a as fN / 2^k [* g]) * 2^k as int *)
Theorem pipeline_one (a k lo hi : Z) (P one : bf) : 0 <= k <= 63 -> Z.abs a <= 2 ^ k -> Z.abs a <= 2 ^ prec ->
  is_finite P = true -> B2R P = bpow radix2 k ->
  is_finite one = true -> B2R one = 1%R -> Bsign one = false ->
  lo <= a <= hi ->
  gto_Z_sat prec emax lo hi (fmul (fmul (fdiv (of_int a) P) one) P) = a.
Proof.
  intros Hk Ha Hap FP HP F1 H1 S1 Hr.
  rewrite (fmul_one (fdiv (of_int a) P) one) by assumption.
  destruct (of_int_div_pow2 a k P Hk Ha FP HP) as [Hv Hf].
  pose proof (fmt_small_int a Hap) as Hfa.
  rewrite round_generic in Hv by (auto with typeclass_instances).
  apply to_int_exact with (k := k); auto.
  assert (2 ^ k <= 2 ^ 64) by (apply Z.pow_le_mono_r; lia). lia.
Qed.

Theorem pipeline_zero (a k lo hi : Z) (P z0 : bf) : 0 <= k <= 63 -> Z.abs a <= 2 ^ k ->
  is_finite P = true -> B2R P = bpow radix2 k ->
  is_finite z0 = true -> B2R z0 = 0%R ->
  lo <= 0 <= hi ->
  gto_Z_sat prec emax lo hi (fmul (fmul (fdiv (of_int a) P) z0) P) = 0.
Proof.
  intros Hk Ha FP HP F0 H0 Hr.
  destruct (of_int_div_pow2 a k P Hk Ha FP HP) as [Hv Hf].
  destruct (fmul_zero _ z0 Hf F0 H0) as [Hz Fz].
  apply to_int_exact with (k := k); auto.
  - rewrite Hz. unfold Rdiv. now rewrite Rmult_0_l.
  - apply generic_format_0.
  - simpl. lia.
Qed.

End G.
