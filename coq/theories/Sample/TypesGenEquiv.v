(* C15 — the model of the operation bodies REGENERATED from dasp_sample/src/types.rs at every run
   (coq/gen/TypesOpsGen.v, over Sample/Rint.v's machine integers) equals the hand-written model
   (Sample/TypesModel.v) on ALL inputs, for every row of the table, every build configuration and
   every fuel.  Hence every theorem of props/C15.v about the hand model is a theorem about the
   regenerated one (restated for the generated operations at the end of this file).

   Structure:
     1. bridge between the two machine-integer semantics (TypesModel.prim/iwrap vs Rint.arith/wrap);
     2. for ANY well-formed row r ([facts], TypesProofs.v) and macro arguments p that say the same ([args_match]):
        g_f c p fuel x = hand f c r x,
        one lemma per generated function (these are the lemmas that stop compiling when a macro body
        changes its meaning: lib/props/c15.py names the first one that fails);
     3. the generated instantiation [gen_ops] is, by conversion, what the table says the macros expand to
        ([gen_ops_shape]); so 2. applies to every row;
     4. the fuel [fuel_args] suffices for every Rep value: the out-of-fuel outcome [None] is excluded. *)
Require Import List ZArith Bool String Lia.
From Dasp Require Import Base.Res Sample.Rint Sample.RintProofs Sample.TypesModel Sample.TypesProofs
  Sample.TypesGenSem Sample.TypesTableProofs.
From DaspGen Require Import TypesTable TypesOpsGen.
Import ListNotations.
Open Scope Z_scope.

(* ---- 1. the two machine-integer semantics ---- *)

Definition ity_of (t : mty) : ity := (Rint.tsigned t, tbits t).

Definition mty_of (t : ity) : option mty :=
  match t with
  | (true, 8) => Some i8 | (true, 16) => Some i16 | (true, 32) => Some i32 | (true, 64) => Some i64
  | (false, 8) => Some u8 | (false, 16) => Some u16 | (false, 32) => Some u32 | (false, 64) => Some u64
  | _ => None
  end.

Lemma mty_of_ity t m : mty_of t = Some m -> t = ity_of m.
Proof.
  destruct t as [[|] b]; unfold mty_of;
    repeat match goal with |- context [match ?x with _ => _ end] => destruct x; try discriminate end;
    intros H; injection H as <-; reflexivity.
Qed.

Lemma imin_ity t : imin (ity_of t) = tmin t.
Proof. destruct t; reflexivity. Qed.

Lemma imax_ity t : imax (ity_of t) = tmax t.
Proof. destruct t; reflexivity. Qed.

Lemma in_ity_fits t z : in_ity (ity_of t) z = fits t z.
Proof. unfold in_ity, fits. rewrite imin_ity, imax_ity. reflexivity. Qed.

Lemma iwrap_wrap t z : iwrap (ity_of t) z = wrap t z.
Proof.
  unfold wrap.
  destruct t; cbv [iwrap ity_of Rint.tsigned tbits tmin tmod fst snd];
    match goal with
    | |- context [2 ^ ?a] => let v := eval vm_compute in (2 ^ a) in change (2 ^ a) with v
    end;
    repeat match goal with
    | |- context [2 ^ ?a] => let v := eval vm_compute in (2 ^ a) in change (2 ^ a) with v
    end;
    rewrite ?Z.sub_0_r, ?Z.add_0_r; try reflexivity;
    match goal with |- (z + ?k) mod _ - _ = _ => replace (z + k) with (z - - k) by lia; lia end.
Qed.

(* a primitive + - * unary- on the Rep: the hand model's [prim] is Rint's [arith] *)
Lemma prim_rint c t z : prim c (ity_of t) z = Rint.arith (mode_of c) t z.
Proof.
  unfold prim, prim_in, mode_of. rewrite imin_ity, imax_ity, iwrap_wrap.
  destruct (overflow_checks c); cbn [Rint.arith]; unfold chk, fits;
    destruct ((tmin t <=? z) && (z <=? tmax t)) eqn:E; try reflexivity.
  apply andb_prop in E. destruct E as [E1 E2]. apply Z.leb_le in E1, E2.
  rewrite wrap_id by lia. reflexivity.
Qed.

(* the generated code's primitive operators are Rint's *)
Lemma p_arith_rint c t z : p_arith c t z = Rint.arith (mode_of c) t z.
Proof.
  unfold p_arith. destruct (fits t z) eqn:E; [|reflexivity].
  apply fits_spec in E. destruct (mode_of c); cbn [Rint.arith]; [rewrite chk_ok | rewrite wrap_id]; auto.
Qed.

Lemma p_ops_rint c t a b :
  p_add c t a b = Some (Rint.add (mode_of c) t a b) /\ p_sub c t a b = Some (Rint.sub (mode_of c) t a b) /\
  p_mul c t a b = Some (Rint.mul (mode_of c) t a b) /\ p_neg c t a = Some (Rint.neg (mode_of c) t a).
Proof. unfold p_add, p_sub, p_mul, p_neg. rewrite !p_arith_rint. auto. Qed.

Lemma p_add_prim c t a b : p_add c t a b = Some (prim c (ity_of t) (a + b)).
Proof. unfold p_add. rewrite p_arith_rint, prim_rint. reflexivity. Qed.
Lemma p_sub_prim c t a b : p_sub c t a b = Some (prim c (ity_of t) (a - b)).
Proof. unfold p_sub. rewrite p_arith_rint, prim_rint. reflexivity. Qed.
Lemma p_mul_prim c t a b : p_mul c t a b = Some (prim c (ity_of t) (a * b)).
Proof. unfold p_mul. rewrite p_arith_rint, prim_rint. reflexivity. Qed.
Lemma p_neg_prim c t a : p_neg c t a = Some (prim c (ity_of t) (- a)).
Proof. unfold p_neg. rewrite p_arith_rint, prim_rint. reflexivity. Qed.

Lemma bindM_ret_r {A} (m : M A) : bindM m ret = m.
Proof. destruct m as [[a|k|]|]; reflexivity. Qed.

Lemma bindM_some {A B} (x : res A) (f : A -> M B) :
  bindM (Some x) f = match x with Ok a => f a | Panic k => Some (Panic k) | UB => Some UB end.
Proof. reflexivity. Qed.

Lemma p_while_ext {S} (cond cond' : S -> M bool) (body body' : S -> M S) :
  (forall s, cond s = cond' s) -> (forall s, body s = body' s) ->
  forall fuel s, p_while cond body fuel s = p_while cond' body' fuel s.
Proof.
  intros Hc Hb. induction fuel as [|f IH]; intros s; cbn [p_while]; rewrite Hc.
  - reflexivity.
  - rewrite Hb. destruct (cond' s) as [[[|]|k|]|]; cbn [bindM]; try reflexivity.
    destruct (body' s) as [[s'|k|]|]; cbn [bindM]; try reflexivity. apply IH.
Qed.

(* ---- 2. generated function = hand function, for any row and matching macro arguments ---- *)

Definition args_match (r : row) (p : margs) : Prop :=
  tname r = a_name p /\ rep r = ity_of (a_rep p) /\ eqv r = a_eq p /\
  rmin r = a_min p /\ rmax r = a_max p /\ total r = a_total p.

Ltac use_match H :=
  let Hn := fresh "Hname" in let Hr := fresh "Hrep" in let He := fresh "Heq" in
  let Hmn := fresh "Hmin" in let Hmx := fresh "Hmax" in let Ht := fresh "Htot" in
  destruct H as (Hn & Hr & He & Hmn & Hmx & Ht);
  unfold k_MIN, k_MAX, k_EQUILIBRIUM, k_MIN_REP, k_MAX_REP, k_TOTAL;
  rewrite <- ?He, <- ?Hmn, <- ?Hmx, <- ?Ht;
  rewrite ?p_add_prim, ?p_sub_prim, ?p_mul_prim, ?p_neg_prim; rewrite <- ?Hr.

(* case analysis on every comparison in the goal; branches that cannot both be taken (v > MAX and v < MIN, ...)
   and arithmetic side conditions by lia, which sees the linear facts of a well-formed row *)
Ltac split_cmp :=
  repeat match goal with
  | |- context [Z.gtb ?a ?b] => destruct (Z.gtb_spec a b)
  | |- context [Z.ltb ?a ?b] => destruct (Z.ltb_spec a b)
  | |- context [Z.leb ?a ?b] => destruct (Z.leb_spec a b)
  | |- context [Z.geb ?a ?b] => rewrite (Z.geb_leb a b)
  | |- context [Z.eqb ?a ?b] => destruct (Z.eqb_spec a b)
  end; cbn [orb andb negb]; try reflexivity; try lia.

Section Generic.
  Variables (r : row) (p : margs).
  Hypothesis Hm : args_match r p.
  (* MIN <= 0 <= MAX, TOTAL = MAX - MIN + 1, [MIN - TOTAL, MAX + TOTAL] inside the Rep: used only to discard
     impossible combinations of comparisons, so that a harmless reordering of the tests in a macro body
     does not break the equivalence *)
  Hypothesis HF : facts r.

  Lemma g_new_eq c fuel v : g_new c p fuel v = ret (new r v).
  Proof.
    destruct HF as [_ _ Hspan _ Hmn Hmx Hlo Hhi _].
    unfold g_new, new, ret. use_match Hm. split_cmp.
  Qed.

  Lemma g_new_unchecked_eq c fuel v : g_new_unchecked c p fuel v = ret v.
  Proof. reflexivity. Qed.

  Lemma g_inner_eq c (q : margs) fuel v : g_inner c q fuel v = ret v.
  Proof. reflexivity. Qed.

  Lemma g_wrap_overflow_once_eq c fuel v :
    g_wrap_overflow_once c p fuel v = Some (wrap_overflow_once c r v).
  Proof.
    destruct HF as [_ _ Hspan _ Hmn Hmx Hlo Hhi _].
    unfold g_wrap_overflow_once, wrap_overflow_once, ret. use_match Hm. split_cmp.
  Qed.

  (* the two `while` loops: fuelled iteration of the generated condition/body = the hand model's loops *)
  Lemma while_down_eq c t mx tot fuel : forall v,
    p_while (fun s => ret (s >? mx)) (fun s => Some (prim c t (s - tot))) fuel v =
    loop_down (overflow_checks c) t (imin t) (imax t) mx tot fuel v.
  Proof.
    induction fuel as [|f IH]; intros v; cbn [p_while loop_down]; unfold ret at 1; cbn [bindM];
      destruct (v >? mx); try reflexivity.
    unfold prim. destruct (prim_in (overflow_checks c) t (imin t) (imax t) (v - tot)) as [w|k|]; cbn [bindM];
      [apply IH | reflexivity | reflexivity].
  Qed.

  Lemma while_up_eq c t mn tot fuel : forall v,
    p_while (fun s => ret (s <? mn)) (fun s => Some (prim c t (s + tot))) fuel v =
    loop_up (overflow_checks c) t (imin t) (imax t) mn tot fuel v.
  Proof.
    induction fuel as [|f IH]; intros v; cbn [p_while loop_up]; unfold ret at 1; cbn [bindM];
      destruct (v <? mn); try reflexivity.
    unfold prim. destruct (prim_in (overflow_checks c) t (imin t) (imax t) (v + tot)) as [w|k|]; cbn [bindM];
      [apply IH | reflexivity | reflexivity].
  Qed.

  Lemma g_wrap_overflow_eq c fuel v : g_wrap_overflow c p fuel v = wrap_overflow_fuel c r fuel v.
  Proof.
    unfold g_wrap_overflow, wrap_overflow_fuel. cbv zeta.
    rewrite (p_while_ext _ (fun s => ret (s >? rmax r)) _ (fun s => Some (prim c (rep r) (s - total r))))
      by (intros s; use_match Hm; reflexivity).
    rewrite while_down_eq.
    destruct (loop_down (overflow_checks c) (rep r) (imin (rep r)) (imax (rep r)) (rmax r) (total r) fuel v)
      as [[v1|k|]|]; cbn [bindM]; try reflexivity.
    rewrite (p_while_ext _ (fun s => ret (s <? rmin r)) _ (fun s => Some (prim c (rep r) (s + total r))))
      by (intros s; use_match Hm; reflexivity).
    rewrite while_up_eq. apply bindM_ret_r.
  Qed.

  Lemma g_from_rep_eq c fuel v : g_from_rep c p fuel v = wrap_overflow_fuel c r fuel v.
  Proof. unfold g_from_rep. apply g_wrap_overflow_eq. Qed.

  Lemma g_add_eq c fuel a b : g_add c p fuel a b = Some (arith c r OAdd a b).
  Proof.
    unfold g_add, arith. cbn [exact]. use_match Hm.
    destruct (prim c (rep r) (a + b)) as [s|k|]; destruct (debug_assertions c); cbn [bindM bind]; try reflexivity.
    - rewrite g_new_eq. cbn [bindM ret]. unfold expect_new. destruct (new r s); reflexivity.
    - apply g_wrap_overflow_once_eq.
  Qed.

  Lemma g_sub_eq c fuel a b : g_sub c p fuel a b = Some (arith c r OSub a b).
  Proof.
    unfold g_sub, arith. cbn [exact]. use_match Hm.
    destruct (prim c (rep r) (a - b)) as [s|k|]; destruct (debug_assertions c); cbn [bindM bind]; try reflexivity.
    - rewrite g_new_eq. cbn [bindM ret]. unfold expect_new. destruct (new r s); reflexivity.
    - apply g_wrap_overflow_once_eq.
  Qed.

  Lemma g_neg_eq c fuel a : g_neg c p fuel a = Some (neg c r a).
  Proof.
    unfold g_neg, neg. use_match Hm.
    destruct (prim c (rep r) (- a)) as [s|k|]; destruct (debug_assertions c); cbn [bindM bind]; try reflexivity.
    - rewrite g_new_eq. cbn [bindM ret]. unfold expect_new. destruct (new r s); reflexivity.
    - apply g_wrap_overflow_once_eq.
  Qed.

  (* Mul: with debug assertions no loop is involved; without, the result is that of the two loops on the
     wrapped product (whatever the fuel) *)
  Lemma g_mul_eq c fuel a b :
    g_mul c p fuel a b =
    if debug_assertions c then Some (arith c r OMul a b) else wrap_overflow_fuel c r fuel (iwrap (rep r) (a * b)).
  Proof.
    unfold g_mul, arith. destruct (debug_assertions c).
    - unfold p_checked_mul, p_checked. destruct Hm as (_ & Hr & _). rewrite Hr, in_ity_fits.
      destruct (fits (a_rep p) (a * b)); cbn [p_and_then]; [|reflexivity].
      rewrite g_new_eq. cbn [bindM ret]. unfold expect_new. destruct (new r (a * b)); reflexivity.
    - rewrite g_from_rep_eq. unfold p_wrapping_mul. destruct Hm as (_ & Hr & _). rewrite Hr, iwrap_wrap. reflexivity.
  Qed.

  Lemma g_from_prim_eq c fuel s v : g_from_prim c p fuel v = ret (from_src r s v).
  Proof.
    unfold g_from_prim, from_src, p_as, cast. destruct Hm as (_ & Hr & _). rewrite Hr, iwrap_wrap. reflexivity.
  Qed.

  Lemma g_from_custom_eq c (pu : margs) fuel s v : g_from_custom c p pu fuel v = ret (from_src r s v).
  Proof.
    unfold g_from_custom. rewrite g_inner_eq. cbn [bindM ret].
    unfold from_src, p_as, cast. destruct Hm as (_ & Hr & _). rewrite Hr, iwrap_wrap. reflexivity.
  Qed.
End Generic.

(* ---- 3. the generated instantiation is what the table says the macros expand to ---- *)

Definition args_of_row (r : row) : option margs :=
  match mty_of (rep r) with
  | Some t => Some (mkArgs (tname r) t (eqv r) (rmin r) (rmax r) (total r))
  | None => None
  end.

(* impl_froms!: a `{U:URep}` entry expands to impl_from! arm 1 (source = the row named U), an identifier to arm 2 *)
Definition from_of (tbl : list row) (p : margs) (s : src) : option (gsrc * (cfg -> nat -> Z -> M Z)) :=
  match s with
  | SPrim sg b =>
      match mty_of (sg, b) with
      | Some t => Some (GPrim t, fun c => g_from_prim c p)
      | None => None
      end
  | SCustom nm usg ub =>
      match find_row tbl nm, mty_of (usg, ub) with
      | Some u, Some t =>
          match args_of_row u with
          | Some pu => Some (GCustom nm t, fun c => g_from_custom c p pu)
          | None => None
          end
      | _, _ => None
      end
  end.

Fixpoint all_some {A} (l : list (option A)) : option (list A) :=
  match l with
  | [] => Some []
  | Some x :: t => match all_some t with Some t' => Some (x :: t') | None => None end
  | None :: _ => None
  end.

Definition ops_of_row (tbl : list row) (r : row) : option gops :=
  match args_of_row r with
  | Some p =>
      match all_some (map (from_of tbl p) (froms r)) with
      | Some fs =>
          Some (mkOps p (fun c => g_new c p) (fun c => g_wrap_overflow_once c p) (fun c => g_wrap_overflow c p)
                  (fun c => g_from_rep c p) (fun c => g_add c p) (fun c => g_sub c p) (fun c => g_mul c p)
                  (if has_neg r then Some (fun c => g_neg c p) else None) fs)
      | None => None
      end
  | None => None
  end.

(* by conversion: the [gops] records the translator wrote for the invocations of the CURRENT source are the
   generated functions applied to the rows' own constants, Neg exactly where the table says so, and one
   widening From per from-list entry, built by the arm of impl_from! that impl_froms! selects *)
Lemma gen_ops_shape : map Some gen_ops = map (ops_of_row types_table) types_table.
Proof. reflexivity. Qed.

Lemma args_of_row_match r p : args_of_row r = Some p -> args_match r p.
Proof.
  unfold args_of_row. destruct (mty_of (rep r)) as [t|] eqn:E; [|discriminate].
  intros H. injection H as <-. apply mty_of_ity in E. unfold args_match. cbn. auto 10.
Qed.

Lemma all_some_Forall2 {A B} (f : A -> option B) (P : A -> B -> Prop) :
  (forall a b, f a = Some b -> P a b) -> forall l l', all_some (map f l) = Some l' -> Forall2 P l l'.
Proof.
  intros Hf. induction l as [|a l IH]; intros l' H; cbn [map all_some] in H.
  - injection H as <-. constructor.
  - destruct (f a) as [b|] eqn:E; [|discriminate].
    destruct (all_some (map f l)) as [t'|]; [|discriminate].
    injection H as <-. constructor; [apply Hf, E | apply IH; reflexivity].
Qed.

Lemma from_of_eq tbl r p s gf : args_match r p -> from_of tbl p s = Some gf ->
  forall c fuel v, snd gf c fuel v = ret (from_src r s v).
Proof.
  intros Hm H c fuel v. destruct s as [sg b|nm usg ub]; cbn [from_of] in H.
  - destruct (mty_of (sg, b)); [|discriminate]. injection H as <-. cbn [snd].
    apply g_from_prim_eq. exact Hm.
  - destruct (find_row tbl nm) as [u|]; [|discriminate].
    destruct (mty_of (usg, ub)); [|discriminate].
    destruct (args_of_row u) as [pu|]; [|discriminate]. injection H as <-. cbn [snd].
    apply g_from_custom_eq. exact Hm.
Qed.

Definition o_arith (o : gops) (k : binop) : cfg -> nat -> Z -> Z -> M Z :=
  match k with OAdd => o_add o | OSub => o_sub o | OMul => o_mul o end.

(* generated = hand model, on all inputs, for every configuration and EVERY fuel (the out-of-fuel
   outcome included: the loops of the two models run out of fuel on exactly the same arguments) *)
Definition ops_agree_any_fuel (r : row) (o : gops) : Prop :=
  args_match r (o_args o) /\
  forall c fuel,
    (forall v, o_new o c fuel v = ret (new r v)) /\
    (forall v, o_wrap_once o c fuel v = Some (wrap_overflow_once c r v)) /\
    (forall v, o_wrap o c fuel v = wrap_overflow_fuel c r fuel v) /\
    (forall v, o_from_rep o c fuel v = wrap_overflow_fuel c r fuel v) /\
    (forall a b, o_add o c fuel a b = Some (arith c r OAdd a b)) /\
    (forall a b, o_sub o c fuel a b = Some (arith c r OSub a b)) /\
    (forall a b, o_mul o c fuel a b =
                 if debug_assertions c then Some (arith c r OMul a b)
                 else wrap_overflow_fuel c r fuel (iwrap (rep r) (a * b))) /\
    match o_neg o with
    | Some f => has_neg r = true /\ forall a, f c fuel a = Some (neg c r a)
    | None => has_neg r = false
    end /\
    Forall2 (fun s gf => forall v, snd gf c fuel v = ret (from_src r s v)) (froms r) (o_froms o).

Lemma ops_of_row_agree tbl r o : facts r -> ops_of_row tbl r = Some o -> ops_agree_any_fuel r o.
Proof.
  intros HF. unfold ops_of_row. destruct (args_of_row r) as [p|] eqn:Ea; [|discriminate].
  destruct (all_some (map (from_of tbl p) (froms r))) as [fs|] eqn:Ef; [|discriminate].
  intros H. injection H as <-. pose proof (args_of_row_match r p Ea) as Hm.
  split; [exact Hm|]. intros c fuel. cbn [o_new o_wrap_once o_wrap o_from_rep o_add o_sub o_mul o_neg o_froms].
  split; [intros v; apply g_new_eq; assumption|].
  split; [intros v; apply g_wrap_overflow_once_eq; assumption|].
  split; [intros v; apply g_wrap_overflow_eq; assumption|].
  split; [intros v; apply g_from_rep_eq; assumption|].
  split; [intros a b; apply g_add_eq; assumption|].
  split; [intros a b; apply g_sub_eq; assumption|].
  split; [intros a b; apply g_mul_eq; assumption|].
  split.
  - destruct (has_neg r); [split; [reflexivity|intros a; apply g_neg_eq; assumption] | reflexivity].
  - apply (all_some_Forall2 (from_of tbl p)); [|exact Ef].
    intros s gf Hs v. apply (from_of_eq tbl r p s gf Hm Hs).
Qed.

Lemma nth_gen_ops i r : nth_error types_table i = Some r ->
  exists o, nth_error gen_ops i = Some o /\ ops_of_row types_table r = Some o.
Proof.
  intros H. pose proof (f_equal (fun l => nth_error l i) gen_ops_shape) as E. cbv beta in E.
  rewrite !nth_error_map, H in E. cbn [option_map] in E.
  destruct (nth_error gen_ops i) as [o|]; cbn [option_map] in E; [|discriminate].
  exists o. split; [reflexivity|]. congruence.
Qed.

Lemma gen_ops_agree_any_fuel : forall i r, nth_error types_table i = Some r ->
  exists o, nth_error gen_ops i = Some o /\ ops_agree_any_fuel r o.
Proof.
  intros i r H. destruct (nth_gen_ops i r H) as (o & Ho & Hr).
  exists o. split; [exact Ho | apply (ops_of_row_agree types_table); [apply table_facts, (nth_error_In _ _ H) | exact Hr]].
Qed.

(* ---- 4. the out-of-fuel case is excluded: [fuel_args] suffices for every value of the Rep ---- *)

Section Mono.
  Variables (oc : bool) (t : ity) (lo hi mn mx tot : Z).

  Lemma loop_down_mono : forall f v x, loop_down oc t lo hi mx tot f v = Some x ->
    forall f', (f <= f')%nat -> loop_down oc t lo hi mx tot f' v = Some x.
  Proof.
    induction f as [|f IH]; intros v x H f' Hle; cbn [loop_down] in H.
    - destruct f'; cbn [loop_down]; destruct (v >? mx); try discriminate; exact H.
    - destruct f' as [|f']; [lia|]. cbn [loop_down]. destruct (v >? mx); [|exact H].
      destruct (prim_in oc t lo hi (v - tot)); try exact H. apply (IH _ _ H). lia.
  Qed.

  Lemma loop_up_mono : forall f v x, loop_up oc t lo hi mn tot f v = Some x ->
    forall f', (f <= f')%nat -> loop_up oc t lo hi mn tot f' v = Some x.
  Proof.
    induction f as [|f IH]; intros v x H f' Hle; cbn [loop_up] in H.
    - destruct f'; cbn [loop_up]; destruct (v <? mn); try discriminate; exact H.
    - destruct f' as [|f']; [lia|]. cbn [loop_up]. destruct (v <? mn); [|exact H].
      destruct (prim_in oc t lo hi (v + tot)); try exact H. apply (IH _ _ H). lia.
  Qed.
End Mono.

Lemma wrap_overflow_fuel_mono c r f v x : wrap_overflow_fuel c r f v = Some x ->
  forall f', (f <= f')%nat -> wrap_overflow_fuel c r f' v = Some x.
Proof.
  unfold wrap_overflow_fuel. cbv zeta. intros H f' Hle.
  destruct (loop_down (overflow_checks c) (rep r) (imin (rep r)) (imax (rep r)) (rmax r) (total r) f v)
    as [y|] eqn:E; [|discriminate].
  rewrite (loop_down_mono _ _ _ _ _ _ _ _ _ E f' Hle).
  destruct y as [v1|k|]; try exact H.
  apply (loop_up_mono _ _ _ _ _ _ _ _ _ H f' Hle).
Qed.

(* with at least the fuel the hand model gives itself, the two loops return what From<Rep> returns *)
Lemma wrap_overflow_fuel_enough c r v fuel : facts r -> imin (rep r) <= v <= imax (rep r) ->
  (fuel_for r v <= fuel)%nat -> wrap_overflow_fuel c r fuel v = Some (from_rep c r v).
Proof.
  intros F Hv Hle. destruct (from_rep_spec c r v F Hv) as (w & E & _).
  rewrite E. unfold from_rep in E.
  destruct (wrap_overflow_fuel c r (fuel_for r v) v) as [x|] eqn:Ew; [|discriminate].
  subst x. exact (wrap_overflow_fuel_mono _ _ _ _ _ Ew fuel Hle).
Qed.

Lemma fuel_args_enough r p v : facts r -> args_match r p -> imin (rep r) <= v <= imax (rep r) ->
  (fuel_for r v <= fuel_args p)%nat.
Proof.
  intros F (_ & Hr & _ & _ & _ & Ht) Hv. unfold fuel_for, fuel_args.
  rewrite <- Ht, <- imax_ity, <- Hr.
  assert (Htot : 0 < total r) by (destruct F as [_ _ Hspan _ Hmn Hmx _ _ _]; lia).
  rewrite Z.max_r by lia.
  assert (Hsym : imin (rep r) = - imax (rep r) - 1).
  { unfold rep, imin, imax. cbn [fst snd]. rewrite (f_signed r F). lia. }
  assert (Habs : Z.abs v <= imax (rep r) + 1 * total r) by lia.
  pose proof (Z.div_le_mono _ _ (total r) Htot Habs) as Hd.
  rewrite Z.div_add in Hd by lia.
  pose proof (Z.div_pos (Z.abs v) (total r) ltac:(lia) Htot).
  apply Z2Nat.inj_le; lia.
Qed.

(* generated = hand model on all inputs, every configuration, any fuel >= fuel_args: no loop runs out *)
Definition ops_agree (r : row) (o : gops) : Prop :=
  a_name (o_args o) = tname r /\
  forall c fuel, (fuel_args (o_args o) <= fuel)%nat ->
    (forall v, o_new o c fuel v = ret (new r v)) /\
    (forall v, o_wrap_once o c fuel v = Some (wrap_overflow_once c r v)) /\
    (forall v, imin (rep r) <= v <= imax (rep r) ->
               o_wrap o c fuel v = Some (from_rep c r v) /\ o_from_rep o c fuel v = Some (from_rep c r v)) /\
    (forall k a b, o_arith o k c fuel a b = Some (arith c r k a b)) /\
    match o_neg o with
    | Some f => has_neg r = true /\ forall a, f c fuel a = Some (neg c r a)
    | None => has_neg r = false
    end /\
    Forall2 (fun s gf => forall v, snd gf c fuel v = ret (from_src r s v)) (froms r) (o_froms o).

Lemma any_fuel_agree r o : facts r -> ops_agree_any_fuel r o -> ops_agree r o.
Proof.
  intros F (Hm & H). split; [symmetry; exact (proj1 Hm)|].
  intros c fuel Hfuel. destruct (H c fuel) as (Hnew & Honce & Hwrap & Hfrom & Hadd & Hsub & Hmul & Hneg & Hfroms).
  assert (Hloops : forall v, imin (rep r) <= v <= imax (rep r) ->
                     wrap_overflow_fuel c r fuel v = Some (from_rep c r v)).
  { intros v Hv. apply wrap_overflow_fuel_enough; [exact F | exact Hv |].
    pose proof (fuel_args_enough r (o_args o) v F Hm Hv). lia. }
  repeat split; try assumption.
  - rewrite Hwrap. apply Hloops, H0.
  - rewrite Hfrom. apply Hloops, H0.
  - intros k a b. destruct k; cbn [o_arith]; [apply Hadd | apply Hsub |].
    rewrite Hmul. unfold arith. destruct (debug_assertions c); [reflexivity|].
    apply Hloops. apply iwrap_rep. exact F.
Qed.

Lemma row_of_nth i r : nth_error types_table i = Some r -> In r types_table.
Proof. apply nth_error_In. Qed.

Lemma gen_ops_agree : forall i r, nth_error types_table i = Some r ->
  exists o, nth_error gen_ops i = Some o /\ ops_agree r o.
Proof.
  intros i r H. destruct (gen_ops_agree_any_fuel i r H) as (o & Ho & Ha).
  exists o. split; [exact Ho|]. apply any_fuel_agree; [|exact Ha].
  apply table_facts. exact (row_of_nth i r H).
Qed.

Lemma gen_ops_length : List.length gen_ops = List.length types_table.
Proof. pose proof (f_equal (@List.length _) gen_ops_shape) as H. rewrite !map_length in H. exact H. Qed.

Lemma gen_covers : List.length gen_ops = List.length types_table /\
  forall i r, nth_error types_table i = Some r -> exists o, nth_error gen_ops i = Some o /\ a_name (o_args o) = tname r.
Proof.
  split; [exact gen_ops_length|]. intros i r H. destruct (gen_ops_agree i r H) as (o & Ho & Hn & _).
  exists o. auto.
Qed.

Lemma Forall2_impl_In {A B} (P Q : A -> B -> Prop) l l' :
  (forall a b, In a l -> P a b -> Q a b) -> Forall2 P l l' -> Forall2 Q l l'.
Proof.
  intros H F. induction F as [|a b l l' Hab F IH]; constructor.
  - apply H; [left; reflexivity | exact Hab].
  - apply IH. intros a' b' Hin. apply H. right. exact Hin.
Qed.

(* ---- the property, restated for the REGENERATED operations ---- *)

Section Restated.
  Variables (i : nat) (r : row) (o : gops).
  Hypothesis Hr : nth_error types_table i = Some r.
  Hypothesis Ho : nth_error gen_ops i = Some o.
  Variables (c : cfg) (fuel : nat).
  Hypothesis Hfuel : (fuel_args (o_args o) <= fuel)%nat.

  Lemma the_ops : ops_agree r o.
  Proof. destruct (gen_ops_agree i r Hr) as (o' & Ho' & H). congruence. Qed.

  Lemma gen_new_spec v :
    (in_range r v -> o_new o c fuel v = ret (Some v)) /\ (~ in_range r v -> o_new o c fuel v = ret None).
  Proof.
    destruct the_ops as (_ & H). destruct (H c fuel Hfuel) as (Hnew & _).
    rewrite Hnew. destruct (new_spec r v) as [H1 H2]. split; intros Hv; [rewrite H1 | rewrite H2]; auto.
  Qed.

  Lemma gen_from_rep_spec v : imin (rep r) <= v <= imax (rep r) ->
    exists w, o_from_rep o c fuel v = ret w /\ in_range r w /\ (w - v) mod 2 ^ nbits r = 0.
  Proof.
    intros Hv. destruct the_ops as (_ & H). destruct (H c fuel Hfuel) as (_ & _ & Hfrom & _).
    destruct (Hfrom v Hv) as [_ ->].
    destruct (tbl_from_rep r (row_of_nth i r Hr) c v Hv) as (w & E & Hw). exists w. rewrite E. auto.
  Qed.

  Lemma gen_arith_debug : debug_assertions c = true -> forall k a b, in_range r a -> in_range r b ->
    (in_range r (exact k a b) -> o_arith o k c fuel a b = ret (exact k a b)) /\
    (~ in_range r (exact k a b) -> o_arith o k c fuel a b = Some (Panic PExpect)).
  Proof.
    intros Hd k a b Ha Hb. destruct the_ops as (_ & H). destruct (H c fuel Hfuel) as (_ & _ & _ & Har & _).
    rewrite Har. destruct (tbl_arith_debug_any r (row_of_nth i r Hr) c Hd k a b Ha Hb) as [H1 H2].
    split; intros Hx; [rewrite H1 | rewrite H2]; auto.
  Qed.

  Lemma gen_arith_release : debug_assertions c = false -> forall k a b, in_range r a -> in_range r b ->
    exists w, o_arith o k c fuel a b = ret w /\ in_range r w /\ (w - exact k a b) mod 2 ^ nbits r = 0.
  Proof.
    intros Hd k a b Ha Hb. destruct the_ops as (_ & H). destruct (H c fuel Hfuel) as (_ & _ & _ & Har & _).
    rewrite Har. destruct (tbl_arith_nodebug_any r (row_of_nth i r Hr) c Hd k a b Ha Hb) as (w & E & Hw).
    exists w. rewrite E. auto.
  Qed.

  Lemma gen_neg_spec f : o_neg o = Some f -> forall a, in_range r a ->
    (debug_assertions c = true ->
       (in_range r (- a) -> f c fuel a = ret (- a)) /\ (~ in_range r (- a) -> f c fuel a = Some (Panic PExpect))) /\
    (debug_assertions c = false ->
       exists w, f c fuel a = ret w /\ in_range r w /\ (w - - a) mod 2 ^ nbits r = 0).
  Proof.
    intros Hf a Ha. destruct the_ops as (_ & H). destruct (H c fuel Hfuel) as (_ & _ & _ & _ & Hneg & _).
    rewrite Hf in Hneg. destruct Hneg as [Hhas Hneg]. rewrite Hneg. split; intros Hd.
    - destruct (tbl_neg_debug_any r (row_of_nth i r Hr) Hhas c Hd a Ha) as [H1 H2].
      split; intros Hx; [rewrite H1 | rewrite H2]; auto.
    - destruct (tbl_neg_nodebug_any r (row_of_nth i r Hr) Hhas c Hd a Ha) as (w & E & Hw).
      exists w. rewrite E. auto.
  Qed.

  Lemma gen_widening_spec : Forall2 (fun s gf =>
      exists slo shi, src_range types_table s = Some (slo, shi) /\
        forall v, slo <= v <= shi -> snd gf c fuel v = ret v /\ in_range r v) (froms r) (o_froms o).
  Proof.
    destruct the_ops as (_ & H). destruct (H c fuel Hfuel) as (_ & _ & _ & _ & _ & Hfr).
    refine (Forall2_impl_In _ _ _ _ _ Hfr). intros s gf Hin E. cbv beta in E.
    destruct (table_widen r s (row_of_nth i r Hr) Hin) as (slo & shi & Hs & Hv).
    exists slo, shi. split; [exact Hs|]. intros v Hv'. destruct (Hv v Hv') as [E' Hi]. rewrite E, E'. auto.
  Qed.

  (* no operation of the regenerated model returns a value outside [MIN, MAX], panics aside; none runs out of fuel *)
  Lemma gen_never_outside k a b w : in_range r a -> in_range r b ->
    o_arith o k c fuel a b <> None /\ (o_arith o k c fuel a b = ret w -> in_range r w).
  Proof.
    intros Ha Hb. destruct the_ops as (_ & H). destruct (H c fuel Hfuel) as (_ & _ & _ & Har & _).
    rewrite Har. split; [discriminate|]. intros E. injection E as E.
    exact (proj1 (tbl_never_outside r (row_of_nth i r Hr) c a b w Ha Hb) k E).
  Qed.
End Restated.
