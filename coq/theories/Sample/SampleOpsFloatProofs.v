(* C03 -- float clauses of the sample amplitude arithmetic: scaling by 1.0 is the identity exactly for the
   integer formats that fit the float companion's mantissa (8/16/24-bit with f32, 48-bit with f64), scaling by
   0.0 gives the equilibrium for all twelve integer formats, with the counterexamples for the wide formats;
   f32/f64 samples: x * 1.0 = x bit for bit, x * 0.0 and x + 0.0 numerically.
   Instances of Sample/SampleOpsLemmas.v at binary32 / binary64 on the literals of the generated conversions. *)
Require Import Floats.SpecFloat.
Require Import ZArith Reals Lia Lra Bool.
From Flocq Require Import Core BinarySingleNaN.
From Dasp Require Import Base.Res Base.Float Sample.Rint Sample.ConvSpec Sample.ConvSpecProofs Sample.ConvTheorems
  Sample.SampleFmt Sample.SampleOps Sample.SampleOpsProofs Sample.SampleOpsLemmas.
From DaspGen Require Import FormatTable ConvGen ConvFloatGen SampleTable.
Open Scope Z_scope.

(* a float literal is +2^k: decided by computation on the literal's bit pattern *)
Definition is_pow2 {prec emax} (x : binary_float prec emax) (k : Z) : bool :=
  match x with
  | B754_finite false m e _ => (Z.pos m =? 2 ^ (k - e)) && (e <=? k)
  | _ => false
  end.

Lemma is_pow2_correct {prec emax} (x : binary_float prec emax) k : is_pow2 x k = true ->
  is_finite x = true /\ B2R x = bpow radix2 k /\ Bsign x = false.
Proof.
  destruct x as [s|s| |s m e H]; try discriminate. destruct s; try discriminate. cbn [is_pow2].
  intros Hb. apply andb_prop in Hb. destruct Hb as [H1 H2]. apply Z.eqb_eq in H1. apply Z.leb_le in H2.
  repeat split. cbn [B2R cond_Zopp]. unfold F2R. cbn [Fnum Fexp]. rewrite H1.
  change (2 ^ (k - e)) with (radix2 ^ (k - e)). rewrite IZR_Zpower by lia. rewrite <- bpow_plus. f_equal. lia.
Qed.

Lemma one32 : is_pow2 identity32 0 = true. Proof. vm_compute. reflexivity. Qed.
Lemma one64 : is_pow2 identity64 0 = true. Proof. vm_compute. reflexivity. Qed.

Ltac pow_num :=
  repeat match goal with
         | |- context[2 ^ ?k] => let v := eval vm_compute in (2 ^ k) in change (2 ^ k) with v
         | H : context[2 ^ ?k] |- _ => let v := eval vm_compute in (2 ^ k) in change (2 ^ k) with v in H
         end.

Lemma pipe32_one a k lo hi L : 0 <= k <= 63 -> Z.abs a <= 2 ^ k -> Z.abs a <= 2 ^ 24 ->
  is_pow2 (F32.of_bits L) k = true -> lo <= a <= hi ->
  F32.to_Z_sat lo hi (F32.mul (F32.mul (F32.div (F32.of_Z a) (F32.of_bits L)) identity32) (F32.of_bits L)) = a.
Proof.
  intros Hk Ha Hp HL Hr. destruct (is_pow2_correct _ _ HL) as (F & V & _).
  destruct (is_pow2_correct _ _ one32) as (F1 & V1 & S1).
  apply (pipeline_one 24 128 p24 pe24 ltac:(lia) ltac:(lia) a k lo hi); auto.
Qed.

Lemma pipe64_one a k lo hi L : 0 <= k <= 63 -> Z.abs a <= 2 ^ k -> Z.abs a <= 2 ^ 53 ->
  is_pow2 (F64.of_bits L) k = true -> lo <= a <= hi ->
  F64.to_Z_sat lo hi (F64.mul (F64.mul (F64.div (F64.of_Z a) (F64.of_bits L)) identity64) (F64.of_bits L)) = a.
Proof.
  intros Hk Ha Hp HL Hr. destruct (is_pow2_correct _ _ HL) as (F & V & _).
  destruct (is_pow2_correct _ _ one64) as (F1 & V1 & S1).
  apply (pipeline_one 53 1024 p53 pe53 ltac:(lia) ltac:(lia) a k lo hi); auto.
Qed.

Lemma pipe32_zero a k lo hi L : 0 <= k <= 63 -> Z.abs a <= 2 ^ k ->
  is_pow2 (F32.of_bits L) k = true -> lo <= 0 <= hi ->
  F32.to_Z_sat lo hi (F32.mul (F32.mul (F32.div (F32.of_Z a) (F32.of_bits L)) F32.zero) (F32.of_bits L)) = 0.
Proof.
  intros Hk Ha HL Hr. destruct (is_pow2_correct _ _ HL) as (F & V & _).
  apply (pipeline_zero 24 128 p24 pe24 ltac:(lia) ltac:(lia) a k lo hi); auto.
Qed.

Lemma pipe64_zero a k lo hi L : 0 <= k <= 63 -> Z.abs a <= 2 ^ k ->
  is_pow2 (F64.of_bits L) k = true -> lo <= 0 <= hi ->
  F64.to_Z_sat lo hi (F64.mul (F64.mul (F64.div (F64.of_Z a) (F64.of_bits L)) F64.zero) (F64.of_bits L)) = 0.
Proof.
  intros Hk Ha HL Hr. destruct (is_pow2_correct _ _ HL) as (F & V & _).
  apply (pipeline_zero 53 1024 p53 pe53 ltac:(lia) ltac:(lia) a k lo hi); auto.
Qed.

(* ---- per format ---- *)
Ltac prep :=
  unfold mul_amp, to_float;
  cbn [float_of src_float64 conv native_mul identity_of fzero_of
       to_sample_f32_of_int to_sample_int_of_f32 to_sample_f64_of_int to_sample_int_of_f64].

Ltac range_of H := apply in_range_num in H; cbn [src_min src_max] in H.

(* signed formats: iN::to_fX, fX::to_iN are single expressions *)
Ltac signed_open Hs :=
  prep; cbv beta delta [i8_to_f32 i16_to_f32 i24_to_f32 i32_to_f32 i48_to_f64 i64_to_f64
                        f32_to_i8 f32_to_i16 f32_to_i24 f32_to_i32 f64_to_i48 f64_to_i64]; cbn [bind];
  range_of Hs; f_equal.
Ltac signed_one pipe kk Hs :=
  signed_open Hs; apply pipe with (k := kk); [ lia | pow_num; lia | pow_num; lia | vm_compute; reflexivity | lia ].
Ltac signed_zero pipe kk Hs :=
  signed_open Hs; apply pipe with (k := kk); [ lia | pow_num; lia | vm_compute; reflexivity | lia ].

(* unsigned formats go through the same-width signed twin, as conv.rs writes them *)
Ltac unsigned_open m s Hs fu fi to_tw of_tw a Ha :=
  prep; cbv beta delta [u8_to_f32 u16_to_f32 u24_to_f32 u32_to_f32 u48_to_f64 u64_to_f64
                        f32_to_u8 f32_to_u16 f32_to_u24 f32_to_u32 f64_to_u48 f64_to_u64];
  change (to_tw m s) with (to_sample m fu fi s);
  rewrite (to_sample_correct_all m fu fi s Hs); cbn [bind];
  cbv beta delta [i8_to_f32 i16_to_f32 i24_to_f32 i32_to_f32 i48_to_f64 i64_to_f64
                  f32_to_i8 f32_to_i16 f32_to_i24 f32_to_i32 f64_to_i48 f64_to_i64]; cbn [bind];
  pose proof (spec_in_range fu fi s Hs) as Ha;
  set (a := spec_conv fu fi s) in *;
  range_of Ha.
Ltac unsigned_one m s Hs fu fi to_tw of_tw pipe kk :=
  let a := fresh "a" in let Ha := fresh "Ha" in
  unsigned_open m s Hs fu fi to_tw of_tw a Ha;
  rewrite pipe with (k := kk); [ | lia | pow_num; lia | pow_num; lia | vm_compute; reflexivity | lia ];
  change (of_tw m a) with (to_sample m fi fu a);
  rewrite to_sample_correct_all by (apply in_range_num; cbn [src_min src_max]; lia);
  f_equal; subst a; apply spec_widen_lossless; cbn; lia.
Ltac unsigned_zero m s Hs fu fi to_tw of_tw pipe kk :=
  let a := fresh "a" in let Ha := fresh "Ha" in
  unsigned_open m s Hs fu fi to_tw of_tw a Ha;
  rewrite pipe with (k := kk); [ | lia | pow_num; lia | vm_compute; reflexivity | lia ];
  change (of_tw m 0) with (to_sample m fi fu 0);
  rewrite to_sample_correct_all by (apply in_range_num; cbn [src_min src_max]; lia);
  f_equal.

Section PerFormat.
Variable m : mode.

Lemma mul_one_i8 s : in_range FI8 s -> mul_amp m (SInt FI8) s identity32 = Ok s.
Proof. intros Hs. signed_one pipe32_one 7 Hs. Qed.
Lemma mul_one_i16 s : in_range FI16 s -> mul_amp m (SInt FI16) s identity32 = Ok s.
Proof. intros Hs. signed_one pipe32_one 15 Hs. Qed.
Lemma mul_one_i24 s : in_range FI24 s -> mul_amp m (SInt FI24) s identity32 = Ok s.
Proof. intros Hs. signed_one pipe32_one 23 Hs. Qed.
Lemma mul_one_i48 s : in_range FI48 s -> mul_amp m (SInt FI48) s identity64 = Ok s.
Proof. intros Hs. signed_one pipe64_one 47 Hs. Qed.

Lemma mul_zero_i8 s : in_range FI8 s -> mul_amp m (SInt FI8) s F32.zero = Ok 0.
Proof. intros Hs. signed_zero pipe32_zero 7 Hs. Qed.
Lemma mul_zero_i16 s : in_range FI16 s -> mul_amp m (SInt FI16) s F32.zero = Ok 0.
Proof. intros Hs. signed_zero pipe32_zero 15 Hs. Qed.
Lemma mul_zero_i24 s : in_range FI24 s -> mul_amp m (SInt FI24) s F32.zero = Ok 0.
Proof. intros Hs. signed_zero pipe32_zero 23 Hs. Qed.
Lemma mul_zero_i32 s : in_range FI32 s -> mul_amp m (SInt FI32) s F32.zero = Ok 0.
Proof. intros Hs. signed_zero pipe32_zero 31 Hs. Qed.
Lemma mul_zero_i48 s : in_range FI48 s -> mul_amp m (SInt FI48) s F64.zero = Ok 0.
Proof. intros Hs. signed_zero pipe64_zero 47 Hs. Qed.
Lemma mul_zero_i64 s : in_range FI64 s -> mul_amp m (SInt FI64) s F64.zero = Ok 0.
Proof. intros Hs. signed_zero pipe64_zero 63 Hs. Qed.

Lemma mul_one_u8 s : in_range FU8 s -> mul_amp m (SInt FU8) s identity32 = Ok s.
Proof. intros Hs. unsigned_one m s Hs FU8 FI8 u8_to_i8 i8_to_u8 pipe32_one 7. Qed.
Lemma mul_one_u16 s : in_range FU16 s -> mul_amp m (SInt FU16) s identity32 = Ok s.
Proof. intros Hs. unsigned_one m s Hs FU16 FI16 u16_to_i16 i16_to_u16 pipe32_one 15. Qed.
Lemma mul_one_u24 s : in_range FU24 s -> mul_amp m (SInt FU24) s identity32 = Ok s.
Proof. intros Hs. unsigned_one m s Hs FU24 FI24 u24_to_i24 i24_to_u24 pipe32_one 23. Qed.
Lemma mul_one_u48 s : in_range FU48 s -> mul_amp m (SInt FU48) s identity64 = Ok s.
Proof. intros Hs. unsigned_one m s Hs FU48 FI48 u48_to_i48 i48_to_u48 pipe64_one 47. Qed.

Lemma mul_zero_u8 s : in_range FU8 s -> mul_amp m (SInt FU8) s F32.zero = Ok 128.
Proof. intros Hs. unsigned_zero m s Hs FU8 FI8 u8_to_i8 i8_to_u8 pipe32_zero 7. Qed.
Lemma mul_zero_u16 s : in_range FU16 s -> mul_amp m (SInt FU16) s F32.zero = Ok 32768.
Proof. intros Hs. unsigned_zero m s Hs FU16 FI16 u16_to_i16 i16_to_u16 pipe32_zero 15. Qed.
Lemma mul_zero_u24 s : in_range FU24 s -> mul_amp m (SInt FU24) s F32.zero = Ok 8388608.
Proof. intros Hs. unsigned_zero m s Hs FU24 FI24 u24_to_i24 i24_to_u24 pipe32_zero 23. Qed.
Lemma mul_zero_u32 s : in_range FU32 s -> mul_amp m (SInt FU32) s F32.zero = Ok 2147483648.
Proof. intros Hs. unsigned_zero m s Hs FU32 FI32 u32_to_i32 i32_to_u32 pipe32_zero 31. Qed.
Lemma mul_zero_u48 s : in_range FU48 s -> mul_amp m (SInt FU48) s F64.zero = Ok 140737488355328.
Proof. intros Hs. unsigned_zero m s Hs FU48 FI48 u48_to_i48 i48_to_u48 pipe64_zero 47. Qed.
Lemma mul_zero_u64 s : in_range FU64 s -> mul_amp m (SInt FU64) s F64.zero = Ok 9223372036854775808.
Proof. intros Hs. unsigned_zero m s Hs FU64 FI64 u64_to_i64 i64_to_u64 pipe64_zero 63. Qed.

(* the wide formats: still exact whenever the amplitude itself fits the mantissa *)
Lemma mul_one_i32_small s : in_range FI32 s -> Z.abs s <= 2 ^ 24 -> mul_amp m (SInt FI32) s identity32 = Ok s.
Proof. intros Hs Hsm. signed_one pipe32_one 31 Hs. Qed.
Lemma mul_one_i64_small s : in_range FI64 s -> Z.abs s <= 2 ^ 53 -> mul_amp m (SInt FI64) s identity64 = Ok s.
Proof. intros Hs Hsm. signed_one pipe64_one 63 Hs. Qed.

End PerFormat.

(* ---- all integer formats ---- *)
Definition prec_of (fi : fmt) : Z := if src_float64 fi then 53 else 24.

Theorem mul_amp_one_exact m fi s : bits fi <= prec_of fi -> in_range fi s ->
  mul_amp m (SInt fi) s (identity_of (SInt fi)) = Ok s.
Proof.
  intros Hb Hs. destruct fi; unfold prec_of in Hb; cbn [bits src_float64] in Hb; try (exfalso; lia).
  - exact (mul_one_i8 m s Hs).
  - exact (mul_one_i16 m s Hs).
  - exact (mul_one_i24 m s Hs).
  - exact (mul_one_i48 m s Hs).
  - exact (mul_one_u8 m s Hs).
  - exact (mul_one_u16 m s Hs).
  - exact (mul_one_u24 m s Hs).
  - exact (mul_one_u48 m s Hs).
Qed.

Theorem mul_amp_zero m fi s : in_range fi s ->
  mul_amp m (SInt fi) s (fzero_of (SInt fi)) = Ok (equilibrium fi).
Proof.
  intros Hs. destruct fi.
  - exact (mul_zero_i8 m s Hs).
  - exact (mul_zero_i16 m s Hs).
  - exact (mul_zero_i24 m s Hs).
  - exact (mul_zero_i32 m s Hs).
  - exact (mul_zero_i48 m s Hs).
  - exact (mul_zero_i64 m s Hs).
  - exact (mul_zero_u8 m s Hs).
  - exact (mul_zero_u16 m s Hs).
  - exact (mul_zero_u24 m s Hs).
  - exact (mul_zero_u32 m s Hs).
  - exact (mul_zero_u48 m s Hs).
  - exact (mul_zero_u64 m s Hs).
Qed.

(* 32-bit formats with f32 and 64-bit formats with f64 do NOT fit the mantissa: scaling by 1.0 changes a sample *)
Theorem mul_amp_one_wide_refuted m :
  mul_amp m (SInt FI32) 16777217 identity32 = Ok 16777216 /\
  mul_amp m (SInt FU32) 2164260865 identity32 = Ok 2164260864 /\
  mul_amp m (SInt FI64) 9007199254740993 identity64 = Ok 9007199254740992 /\
  mul_amp m (SInt FU64) 9232379236109516801 identity64 = Ok 9232379236109516800 /\
  mul_amp m (SInt FI32) 2147483647 identity32 = Ok 2147483647.
Proof. destruct m; vm_compute; repeat split; reflexivity. Qed.

(* ---- f32 / f64 samples ---- *)
Theorem mul_amp_one_f32 m x : mul_amp m SF32 x identity32 = Ok x.
Proof.
  unfold mul_amp, to_float. cbn [float_of conv native_mul bind]. f_equal. destruct (is_pow2_correct _ _ one32) as (F1 & V1 & S1).
  apply (fmul_one 24 128 p24 pe24); auto.
Qed.
Theorem mul_amp_one_f64 m x : mul_amp m SF64 x identity64 = Ok x.
Proof.
  unfold mul_amp, to_float. cbn [float_of conv native_mul bind]. f_equal. destruct (is_pow2_correct _ _ one64) as (F1 & V1 & S1).
  apply (fmul_one 53 1024 p53 pe53); auto.
Qed.

Theorem mul_amp_zero_f32 m x : is_finite x = true ->
  exists r, mul_amp m SF32 x F32.zero = Ok r /\ B2R r = 0%R /\ is_finite r = true.
Proof.
  intros Fx. unfold mul_amp, to_float. cbn [float_of conv native_mul bind]. eexists; split; [reflexivity|].
  apply (fmul_zero 24 128 p24 pe24); auto.
Qed.
Theorem mul_amp_zero_f64 m x : is_finite x = true ->
  exists r, mul_amp m SF64 x F64.zero = Ok r /\ B2R r = 0%R /\ is_finite r = true.
Proof.
  intros Fx. unfold mul_amp, to_float. cbn [float_of conv native_mul bind]. eexists; split; [reflexivity|].
  apply (fmul_zero 53 1024 p53 pe53); auto.
Qed.

Theorem add_amp_zero_f32 m x : is_finite x = true ->
  exists r, add_amp m SF32 x F32.zero = Ok r /\ B2R r = B2R x /\ is_finite r = true.
Proof.
  intros Fx. unfold add_amp, to_signed. cbn [signed_of conv native_add bind]. eexists; split; [reflexivity|].
  apply (fadd_zero 24 128 p24 pe24); auto.
Qed.
Theorem add_amp_zero_f64 m x : is_finite x = true ->
  exists r, add_amp m SF64 x F64.zero = Ok r /\ B2R r = B2R x /\ is_finite r = true.
Proof.
  intros Fx. unfold add_amp, to_signed. cbn [signed_of conv native_add bind]. eexists; split; [reflexivity|].
  apply (fadd_zero 53 1024 p53 pe53); auto.
Qed.

(* -0.0 + 0.0 = +0.0: offsetting by zero is the identity on the VALUE, not on the bit pattern *)
Lemma add_amp_zero_f32_negzero m : add_amp m SF32 (B754_zero true) F32.zero = Ok (B754_zero false).
Proof. vm_compute. reflexivity. Qed.

