(* C15 — non-vacuity: concrete rows and operands meeting the hypotheses of each theorem and
   exercising the range-dependent branches (panic / wrap / multi-wrap / loop). *)
Require Import List ZArith Bool String.
From Dasp Require Import Base.Res Sample.TypesModel Sample.TypesProofs Sample.TypesTableProofs.
From DaspGen Require Import TypesTable.
Import ListNotations.
Open Scope Z_scope.

Example ex_rows_in_table : In row_I24 types_table /\ In row_U11 types_table /\ In row_I48 types_table.
Proof. cbv [types_table In]. tauto. Qed.

Example ex_operands_in_range : in_range row_I24 8388607 /\ in_range row_I24 (-8388608) /\ ~ in_range row_I24 8388608.
Proof. unfold in_range. cbn. repeat split; try discriminate. intros [_ H]. apply H. reflexivity. Qed.

(* new: accepts MAX, rejects MAX+1 and MIN-1 *)
Example ex_new : new row_I24 8388607 = Some 8388607 /\ new row_I24 8388608 = None /\ new row_U11 (-1) = None.
Proof. vm_compute. auto. Qed.

(* MAX + 1: panic (expect) in the dev profile, wraps to MIN in the release profile *)
Example ex_add_overflow :
  arith dev row_I24 OAdd 8388607 1 = Panic PExpect /\ arith release row_I24 OAdd 8388607 1 = Ok (-8388608).
Proof. vm_compute. auto. Qed.

(* MIN - 1 *)
Example ex_sub_overflow :
  arith dev row_U11 OSub 0 1 = Panic PExpect /\ arith release row_U11 OSub 0 1 = Ok 2047.
Proof. vm_compute. auto. Qed.

(* a product that needs many wraps and also overflows the i16 Rep: checked_mul is None, so the
   `expect` panics with debug assertions; otherwise wrapping_mul gives -2047 and wrap_overflow adds
   TOTAL once — in all four configurations, whatever the overflow-checks setting *)
Example ex_mul_multiwrap :
  arith dev row_I11 OMul 1023 1023 = Panic PExpect /\ arith (mkCfg true false) row_I11 OMul 1023 1023 = Panic PExpect /\
  arith release row_I11 OMul 1023 1023 = Ok 1 /\ arith (mkCfg false true) row_I11 OMul 1023 1023 = Ok 1 /\
  (1023 * 1023) mod 2048 = 1.
Proof. vm_compute. auto 6. Qed.

(* defect F8 (fixed in the tree that is modelled): 256 * 256 = 65536 wraps to 0 in the i16 Rep; with
   debug assertions and without overflow checks it must still panic *)
Example ex_mul_rep_wrap_to_zero :
  arith (mkCfg true false) row_I11 OMul 256 256 = Panic PExpect /\ arith dev row_I11 OMul 256 256 = Panic PExpect /\
  arith (mkCfg false true) row_I11 OMul 256 256 = Ok 0 /\ arith release row_I11 OMul 256 256 = Ok 0.
Proof. vm_compute. auto 6. Qed.

(* a product out of range that still fits the Rep: the while loop runs 31 times *)
Example ex_mul_loop :
  arith dev row_I24 OMul 16384 16384 = Panic PExpect /\ arith release row_I24 OMul 16384 16384 = Ok 0 /\
  arith release row_I24 OMul 8388607 255 = Ok 8388353.
Proof. vm_compute. auto. Qed.

(* From<Rep> with the extreme Rep values: 32768 loop iterations for the 48-bit types *)
Example ex_from_far :
  from_rep release row_I48 9223372036854775807 = Ok (-1) /\ from_rep dev row_I48 (-9223372036854775808) = Ok 0 /\
  from_rep dev row_U11 (-32768) = Ok 0 /\ from_rep release row_U11 32767 = Ok 2047.
Proof. vm_compute. auto. Qed.

(* negation of MIN (defect F5, fixed in the tree that is modelled): panic / stays MIN *)
Example ex_neg_min :
  has_neg row_I24 = true /\ neg dev row_I24 (-8388608) = Panic PExpect /\ neg release row_I24 (-8388608) = Ok (-8388608) /\
  neg dev row_I24 5 = Ok (-5) /\ neg release row_I24 5 = Ok (-5).
Proof. vm_compute. auto. Qed.

(* widening: U11 -> I20 keeps 2047; u32 -> I48 keeps 2^32-1 *)
Example ex_widen :
  In (SCustom "U11" true 16) (froms row_I20) /\ from_src row_I20 (SCustom "U11" true 16) 2047 = 2047 /\
  In (SPrim false 32) (froms row_I48) /\ from_src row_I48 (SPrim false 32) 4294967295 = 4294967295.
Proof. cbv [froms row_I20 row_I48 In]. repeat split; auto 12. Qed.
