(* C02: consequences of the per-function correctness of the generated float conversions
   (gen/ConvFloatCorrect.v): correctly rounded quotient, range, monotonicity, equilibrium,
   exactness, round trip; f32 <-> f64.  The consequences are proved once, for any binary format
   with 2 <= prec <= 64 < emax and any pair of conversion functions that meet the two
   correctness statements, then instantiated with the generated f32 and f64 dispatch functions. *)
Require Import Floats.SpecFloat.
Require Import ZArith Bool Lia Reals Lra.
From Flocq Require Import Core BinarySingleNaN.
From Dasp Require Import Base.Res Base.Float Base.FloatLemmas Sample.Rint Sample.ConvSpec Sample.ConvSpecProofs
  Sample.ConvFloatSpec Sample.ConvFloatTactics.
From DaspGen Require Import ConvGen ConvFloatGen ConvFloatCorrect.
Open Scope Z_scope.

Section Consequences.
Variables prec emax : Z.
Context (prec_gt_0_ : Prec_gt_0 prec).
Context (prec_lt_emax_ : Prec_lt_emax prec emax).
Hypothesis Hprec : 2 <= prec <= 64.
Hypothesis Hemax : 64 < emax.
Notation bf := (BinarySingleNaN.binary_float prec emax).
Notation rnd := (rndNE prec emax).
Variable to_f : mode -> fmt -> Z -> res bf.
Variable to_i : mode -> fmt -> bf -> res Z.
Hypothesis to_f_ok : forall m i z, in_range i z -> i2f_spec prec emax i z (to_f m i z).
Hypothesis to_i_ok : forall m i f, in_domain prec emax f -> to_i m i f = Ok (f2i_val prec emax i f).

Lemma fscale_pos i : (0 < fscale i)%R.
Proof. apply bpow_gt_0. Qed.

Lemma fscale_half i : fscale i = IZR (half i).
Proof. unfold fscale, half. pose proof (bits_pos i). now rewrite IZR_pow2 by lia. Qed.

Lemma bits_k i : 0 <= bits i - 1 <= 63.
Proof. pose proof (bits_pos i). pose proof (bits_le_64 i). lia. Qed.

Lemma amp_abs i z : in_range i z -> Z.abs (amp i z) <= 2 ^ (bits i - 1).
Proof. intros H. apply in_range_amp in H. unfold half in H. lia. Qed.

(* ---- integer -> float ---- *)

(* the value: one rounding of the integer then exact scaling = the correctly rounded quotient *)
Lemma to_float_value m i z : in_range i z ->
  exists f, to_f m i z = Ok f /\ is_finite f = true /\
    B2R f = (rnd (IZR (amp i z)) / fscale i)%R /\
    B2R f = rnd (IZR (amp i z) / fscale i).
Proof.
  intros Hr. destruct (to_f_ok m i z Hr) as (f & E & Fin & V).
  exists f. repeat split; try assumption.
  rewrite V. unfold rndNE, fscale. symmetry.
  apply rnd_div_pow2; [exact Hemax | apply bits_k].
Qed.

Lemma to_float_range m i z f : in_range i z -> to_f m i z = Ok f -> (-1 <= B2R f <= 1)%R.
Proof.
  intros Hr E. destruct (to_f_ok m i z Hr) as (f' & E' & _ & V). rewrite E in E'. inversion E'; subst f'.
  pose proof (rnd_IZR_le_pow prec emax prec_gt_0_ Hprec Hemax (amp i z) (bits i - 1) (proj1 (bits_k i)) (amp_abs i z Hr)) as B.
  fold (rndNE prec emax (IZR (amp i z))) in B. fold (fscale i) in B.
  pose proof (fscale_pos i) as P. rewrite V.
  apply Rabs_le_inv in B. split.
  - apply Rmult_le_reg_r with (fscale i); [exact P|]. unfold Rdiv. rewrite Rmult_assoc, Rinv_l by lra. lra.
  - apply Rmult_le_reg_r with (fscale i); [exact P|]. unfold Rdiv. rewrite Rmult_assoc, Rinv_l by lra. lra.
Qed.

Lemma to_float_monotone m i z1 z2 f1 f2 : in_range i z1 -> in_range i z2 -> z1 <= z2 ->
  to_f m i z1 = Ok f1 -> to_f m i z2 = Ok f2 -> (B2R f1 <= B2R f2)%R.
Proof.
  intros H1 H2 Hle E1 E2.
  destruct (to_f_ok m i z1 H1) as (g1 & G1 & _ & V1). rewrite E1 in G1. inversion G1; subst g1.
  destruct (to_f_ok m i z2 H2) as (g2 & G2 & _ & V2). rewrite E2 in G2. inversion G2; subst g2.
  rewrite V1, V2. pose proof (fscale_pos i) as P.
  apply Rmult_le_compat_r; [left; now apply Rinv_0_lt_compat|].
  apply (rnd_le prec emax prec_gt_0_). apply IZR_le. rewrite !amp_offset. lia.
Qed.

Lemma to_float_equilibrium_value m i f : to_f m i (equilibrium i) = Ok f -> B2R f = 0%R.
Proof.
  intros E.
  assert (Hr : in_range i (equilibrium i)).
  { apply in_range_amp. rewrite amp_offset, equilibrium_offset. pose proof (half_pos i). lia. }
  destruct (to_f_ok m i _ Hr) as (g & G & _ & V). rewrite E in G. inversion G; subst g.
  rewrite V, amp_offset, equilibrium_offset, Z.sub_diag. unfold rndNE.
  rewrite round_0 by auto with typeclass_instances. unfold Rdiv. apply Rmult_0_l.
Qed.

Lemma to_float_exact m i z f : bits i <= prec -> in_range i z -> to_f m i z = Ok f ->
  B2R f = (IZR (amp i z) / fscale i)%R.
Proof.
  intros Hb Hr E. destruct (to_f_ok m i z Hr) as (g & G & _ & V). rewrite E in G. inversion G; subst g.
  rewrite V. f_equal. apply (rnd_IZR_small prec emax Hprec Hemax).
  etransitivity; [now apply amp_abs|]. apply Z.pow_le_mono_r; lia.
Qed.

(* ---- float -> integer ---- *)

Lemma to_int_in_range m i f v : in_domain prec emax f -> to_i m i f = Ok v -> in_range i v.
Proof.
  intros D E. rewrite (to_i_ok m i f D) in E. inversion E; subst v.
  now apply (f2i_val_in_range prec emax).
Qed.

Lemma f2i_val_monotone i (f1 f2 : bf) : (B2R f1 <= B2R f2)%R -> f2i_val prec emax i f1 <= f2i_val prec emax i f2.
Proof.
  intros H. unfold f2i_val. apply Z.add_le_mono_r. apply Ztrunc_le.
  apply Rmult_le_compat_r; [left; apply fscale_pos | exact H].
Qed.

Lemma to_int_monotone m i f1 f2 v1 v2 : in_domain prec emax f1 -> in_domain prec emax f2 ->
  (B2R f1 <= B2R f2)%R -> to_i m i f1 = Ok v1 -> to_i m i f2 = Ok v2 -> v1 <= v2.
Proof.
  intros D1 D2 H E1 E2. rewrite to_i_ok in E1, E2 by assumption. inversion E1; inversion E2; subst.
  now apply f2i_val_monotone.
Qed.

Lemma to_int_zero m i f : is_finite f = true -> B2R f = 0%R -> to_i m i f = Ok (equilibrium i).
Proof.
  intros Fin Z0. rewrite to_i_ok by (split; [exact Fin | rewrite Z0; lra]). f_equal.
  unfold f2i_val. rewrite Z0, Rmult_0_l. change 0%R with (IZR 0). rewrite Ztrunc_IZR. reflexivity.
Qed.

Lemma to_int_minus_one m i f : is_finite f = true -> B2R f = (-1)%R -> to_i m i f = Ok (fmin i).
Proof.
  intros Fin M1. rewrite to_i_ok by (split; [exact Fin | rewrite M1; lra]). f_equal.
  unfold f2i_val. rewrite M1, fscale_half.
  replace (-1 * IZR (half i))%R with (IZR (- half i)) by (rewrite opp_IZR; ring).
  rewrite Ztrunc_IZR. unfold fmin. destruct (signed i); lia.
Qed.

(* the float -> integer conversion inverts the integer -> float conversion wherever that one is exact:
   for each single value whose conversion did not round ... *)
Lemma roundtrip_pointwise m m' i z f : in_range i z -> to_f m i z = Ok f ->
  B2R f = (IZR (amp i z) / fscale i)%R -> to_i m' i f = Ok z.
Proof.
  intros Hr E V. destruct (to_f_ok m i z Hr) as (g & G & Fin & _). rewrite E in G. inversion G; subst g.
  pose proof (fscale_pos i) as P. apply in_range_amp in Hr as Ha.
  assert (D : in_domain prec emax f).
  { split; [exact Fin|]. rewrite V, fscale_half. rewrite fscale_half in P.
    destruct Ha as [A1 A2]. apply IZR_le in A1. apply IZR_lt in A2. rewrite opp_IZR in A1. split.
    - apply Rmult_le_reg_r with (IZR (half i)); [exact P|]. unfold Rdiv. rewrite Rmult_assoc, Rinv_l by lra. lra.
    - apply Rmult_lt_reg_r with (IZR (half i)); [exact P|]. unfold Rdiv. rewrite Rmult_assoc, Rinv_l by lra. lra. }
  rewrite to_i_ok by exact D. f_equal. unfold f2i_val. rewrite V.
  unfold Rdiv. rewrite Rmult_assoc, Rinv_l, Rmult_1_r by lra. rewrite Ztrunc_IZR, amp_offset. unfold offset. lia.
Qed.

(* ... hence for every value of a format that fits the mantissa *)
Lemma roundtrip m m' i z : bits i <= prec -> in_range i z -> bind (to_f m i z) (to_i m' i) = Ok z.
Proof.
  intros Hb Hr. destruct (to_f_ok m i z Hr) as (f & E & _ & _).
  pose proof (to_float_exact m i z f Hb Hr E) as V. rewrite E. cbn [bind].
  now apply (roundtrip_pointwise m m' i z f).
Qed.
End Consequences.

(* ------------------------------------------------------------------------------------------------ *)
(* instances: the generated dispatch functions *)

Definition to_f32 := to_sample_f32_of_int.
Definition to_f64 := to_sample_f64_of_int.
Definition of_f32 := to_sample_int_of_f32.
Definition of_f64 := to_sample_int_of_f64.

(* equilibrium -> +0.0 exactly (the sign of the zero is not determined by the value): by evaluation *)
Lemma to_f32_equilibrium m i : to_sample_f32_of_int m i (equilibrium i) = Ok (B754_zero false).
Proof. destruct m, i; vm_compute; reflexivity. Qed.
Lemma to_f64_equilibrium m i : to_sample_f64_of_int m i (equilibrium i) = Ok (B754_zero false).
Proof. destruct m, i; vm_compute; reflexivity. Qed.

(* instantiation of a lemma of the section: the format facts and the two generated-code
   correctness lemmas (gen/ConvFloatCorrect.v) fill the section's variables and hypotheses *)
Ltac inst L := intros; eapply L;
  first [ exact p24 | exact p53 | exact prec32_ok | exact prec64_ok | exact emax32_ok | exact emax64_ok
        | exact to_f32_correct | exact to_f64_correct | exact of_f32_correct | exact of_f64_correct | eassumption ].

Lemma to_f32_value : forall m i z, in_range i z ->
  exists f, to_sample_f32_of_int m i z = Ok f /\ is_finite f = true /\
    B2R f = (rndNE 24 128 (IZR (amp i z)) / fscale i)%R /\
    B2R f = rndNE 24 128 (IZR (amp i z) / fscale i).
Proof. inst to_float_value. Qed.
Lemma to_f32_range : forall m i z f, in_range i z -> to_sample_f32_of_int m i z = Ok f -> (-1 <= B2R f <= 1)%R.
Proof. inst to_float_range. Qed.
Lemma to_f32_monotone : forall m i z1 z2 f1 f2, in_range i z1 -> in_range i z2 -> z1 <= z2 ->
  to_sample_f32_of_int m i z1 = Ok f1 -> to_sample_f32_of_int m i z2 = Ok f2 -> (B2R f1 <= B2R f2)%R.
Proof. exact (to_float_monotone 24 128 p24 _ _ to_f32_correct of_f32_correct). Qed.
Lemma to_f32_exact : forall m i z f, bits i <= 24 -> in_range i z -> to_sample_f32_of_int m i z = Ok f ->
  B2R f = (IZR (amp i z) / fscale i)%R.
Proof. inst to_float_exact. Qed.
Lemma of_f32_value : forall m i f, in_domain 24 128 f -> to_sample_int_of_f32 m i f = Ok (f2i_val 24 128 i f).
Proof. exact of_f32_correct. Qed.
Lemma of_f32_in_range : forall m i f v, in_domain 24 128 f -> to_sample_int_of_f32 m i f = Ok v -> in_range i v.
Proof. exact (to_int_in_range 24 128 _ of_f32_correct). Qed.
Lemma of_f32_monotone : forall m i f1 f2 v1 v2, in_domain 24 128 f1 -> in_domain 24 128 f2 -> (B2R f1 <= B2R f2)%R ->
  to_sample_int_of_f32 m i f1 = Ok v1 -> to_sample_int_of_f32 m i f2 = Ok v2 -> v1 <= v2.
Proof. exact (to_int_monotone 24 128 _ of_f32_correct). Qed.
Lemma of_f32_zero : forall m i (f : F32.t), is_finite f = true -> B2R f = 0%R -> to_sample_int_of_f32 m i f = Ok (equilibrium i).
Proof. inst to_int_zero. Qed.
Lemma of_f32_minus_one : forall m i (f : F32.t), is_finite f = true -> B2R f = (-1)%R -> to_sample_int_of_f32 m i f = Ok (fmin i).
Proof. inst to_int_minus_one. Qed.
Lemma roundtrip_f32 : forall m m' i z, bits i <= 24 -> in_range i z ->
  bind (to_sample_f32_of_int m i z) (to_sample_int_of_f32 m' i) = Ok z.
Proof. inst roundtrip. Qed.
Lemma roundtrip_f32_pointwise : forall m m' i z (f : F32.t), in_range i z -> to_sample_f32_of_int m i z = Ok f ->
  B2R f = (IZR (amp i z) / fscale i)%R -> to_sample_int_of_f32 m' i f = Ok z.
Proof. exact (roundtrip_pointwise 24 128 _ _ to_f32_correct of_f32_correct). Qed.

Lemma to_f64_value : forall m i z, in_range i z ->
  exists f, to_sample_f64_of_int m i z = Ok f /\ is_finite f = true /\
    B2R f = (rndNE 53 1024 (IZR (amp i z)) / fscale i)%R /\
    B2R f = rndNE 53 1024 (IZR (amp i z) / fscale i).
Proof. inst to_float_value. Qed.
Lemma to_f64_range : forall m i z f, in_range i z -> to_sample_f64_of_int m i z = Ok f -> (-1 <= B2R f <= 1)%R.
Proof. inst to_float_range. Qed.
Lemma to_f64_monotone : forall m i z1 z2 f1 f2, in_range i z1 -> in_range i z2 -> z1 <= z2 ->
  to_sample_f64_of_int m i z1 = Ok f1 -> to_sample_f64_of_int m i z2 = Ok f2 -> (B2R f1 <= B2R f2)%R.
Proof. exact (to_float_monotone 53 1024 p53 _ _ to_f64_correct of_f64_correct). Qed.
Lemma to_f64_exact : forall m i z f, bits i <= 53 -> in_range i z -> to_sample_f64_of_int m i z = Ok f ->
  B2R f = (IZR (amp i z) / fscale i)%R.
Proof. inst to_float_exact. Qed.
Lemma of_f64_value : forall m i f, in_domain 53 1024 f -> to_sample_int_of_f64 m i f = Ok (f2i_val 53 1024 i f).
Proof. exact of_f64_correct. Qed.
Lemma of_f64_in_range : forall m i f v, in_domain 53 1024 f -> to_sample_int_of_f64 m i f = Ok v -> in_range i v.
Proof. exact (to_int_in_range 53 1024 _ of_f64_correct). Qed.
Lemma of_f64_monotone : forall m i f1 f2 v1 v2, in_domain 53 1024 f1 -> in_domain 53 1024 f2 -> (B2R f1 <= B2R f2)%R ->
  to_sample_int_of_f64 m i f1 = Ok v1 -> to_sample_int_of_f64 m i f2 = Ok v2 -> v1 <= v2.
Proof. exact (to_int_monotone 53 1024 _ of_f64_correct). Qed.
Lemma of_f64_zero : forall m i (f : F64.t), is_finite f = true -> B2R f = 0%R -> to_sample_int_of_f64 m i f = Ok (equilibrium i).
Proof. inst to_int_zero. Qed.
Lemma of_f64_minus_one : forall m i (f : F64.t), is_finite f = true -> B2R f = (-1)%R -> to_sample_int_of_f64 m i f = Ok (fmin i).
Proof. inst to_int_minus_one. Qed.
Lemma roundtrip_f64 : forall m m' i z, bits i <= 53 -> in_range i z ->
  bind (to_sample_f64_of_int m i z) (to_sample_int_of_f64 m' i) = Ok z.
Proof. inst roundtrip. Qed.
Lemma roundtrip_f64_pointwise : forall m m' i z (f : F64.t), in_range i z -> to_sample_f64_of_int m i z = Ok f ->
  B2R f = (IZR (amp i z) / fscale i)%R -> to_sample_int_of_f64 m' i f = Ok z.
Proof. exact (roundtrip_pointwise 53 1024 _ _ to_f64_correct of_f64_correct). Qed.


(* ---- f32 <-> f64 ---- *)

Lemma f32_f64_exact m (x : F32.t) :
  exists y, to_sample_f32_f64 m x = Ok y /\
    (is_finite x = true -> is_finite y = true /\ B2R y = B2R x /\ Bsign y = Bsign x) /\
    (x = B754_nan -> y = B754_nan) /\ (forall s, x = B754_infinity s -> y = B754_infinity s).
Proof.
  exists (Float.f32_to_f64 x). split; [apply f32_f64_def|]. split; [|split].
  - intros Fin. unfold Float.f32_to_f64.
    destruct (gconv_exact 24 128 53 1024 p24 p53 pe53 x) as (A & B & C); try lia; try assumption.
    repeat split; assumption.
  - intros ->. reflexivity.
  - intros s ->. reflexivity.
Qed.

(* f64 -> f32: the value correctly rounded (nearest, ties to even) into binary32 when that is below
   2^128, else the infinity of the same sign; the sign is kept; NaN -> NaN, +-inf -> +-inf *)
Lemma f64_f32_rounded m (x : F64.t) :
  exists y, to_sample_f64_f32 m x = Ok y /\
    (is_finite x = true ->
       if Rlt_bool (Rabs (rndNE 24 128 (B2R x))) (bpow radix2 128)
       then B2R y = rndNE 24 128 (B2R x) /\ is_finite y = true /\ Bsign y = Bsign x
       else y = B754_infinity (Bsign x)) /\
    (x = B754_nan -> y = B754_nan) /\ (forall s, x = B754_infinity s -> y = B754_infinity s).
Proof.
  exists (Float.f64_to_f32 x). split; [apply f64_f32_def|]. split; [|split].
  - intros Fin. exact (gconv_correct 53 1024 24 128 p24 pe24 x Fin).
  - intros ->. reflexivity.
  - intros s ->. reflexivity.
Qed.

(* a value already representable in binary32 (e.g. one that came from an f32) is converted exactly *)
Lemma f64_f32_of_f32 m m' (x : F32.t) : is_finite x = true ->
  exists y z, to_sample_f32_f64 m x = Ok y /\ to_sample_f64_f32 m' y = Ok z /\ B2R z = B2R x /\ is_finite z = true.
Proof.
  intros Fin. exists (Float.f32_to_f64 x), (Float.f64_to_f32 (Float.f32_to_f64 x)).
  split; [apply f32_f64_def|]. split; [apply f64_f32_def|].
  destruct (gconv_exact 24 128 53 1024 p24 p53 pe53 x) as (A & B & _); try lia; try assumption.
  pose proof (gconv_correct 53 1024 24 128 p24 pe24 (Float.f32_to_f64 x) B) as H.
  unfold Float.f32_to_f64 in *. rewrite A in H.
  rewrite round_generic in H by (auto with typeclass_instances; apply generic_format_B2R).
  rewrite Rlt_bool_true in H by apply abs_B2R_lt_emax.
  destruct H as (H1 & H2 & _). split; assumption.
Qed.

(* ---- the same float format: `x.to_sample::<f32>()` on an f32 (f64 on an f64) dispatches to the blanket
   `impl<S> FromSample<S> for S`: the value itself, bit for bit (a NaN stays the NaN, -0.0 stays -0.0) ---- *)
Lemma float_same_format (m : mode) :
  (forall x : F32.t, to_sample_f32_f32 m x = Ok x) /\ (forall x : F64.t, to_sample_f64_f64 m x = Ok x).
Proof. split; reflexivity. Qed.

(* ---- a decidable sufficient test for the documented domain (used by the non-vacuity examples) ---- *)
Definition dom_b {prec emax : Z} (f : BinarySingleNaN.binary_float prec emax) : bool :=
  match f with
  | B754_zero _ => true
  | B754_finite s m e _ => (e <? 0) && ((Zpos m <? 2 ^ (- e)) || (s && (Zpos m =? 2 ^ (- e))))
  | _ => false
  end.

Lemma dom_b_ok {prec emax : Z} (f : BinarySingleNaN.binary_float prec emax) : dom_b f = true -> in_domain prec emax f.
Proof.
  destruct f as [s|s| |s m e Hb]; try discriminate; intros H.
  - split; [reflexivity|]. cbn [B2R]. lra.
  - split; [reflexivity|]. cbn [dom_b] in H. apply andb_true_iff in H. destruct H as [He H].
    apply Z.ltb_lt in He. cbn [B2R]. unfold F2R. cbn [Fnum Fexp].
    pose proof (bpow_gt_0 radix2 e) as P.
    assert (I : (bpow radix2 e * IZR (2 ^ (- e)) = 1)%R).
    { rewrite IZR_pow2 by lia. rewrite <- bpow_plus. replace (e + - e) with 0 by lia. reflexivity. }
    assert (Pm : (0 < IZR (Z.pos m))%R) by now apply IZR_lt.
    apply orb_true_iff in H. destruct H as [H|H].
    + apply Z.ltb_lt in H. apply IZR_lt in H.
      assert (IZR (Z.pos m) * bpow radix2 e < 1)%R by nra.
      destruct s; cbn [cond_Zopp]; [rewrite opp_IZR|]; nra.
    + apply andb_true_iff in H. destruct H as [-> H]. apply Z.eqb_eq in H.
      cbn [cond_Zopp]. change (Z.opp (Z.pos m)) with (- Z.pos m). rewrite opp_IZR, H. nra.
Qed.
