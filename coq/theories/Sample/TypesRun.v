(* Executable Z-level interface of the custom-width sample type model over the GENERATED
   table, with the observation encoding of harness/src/bin/c15.rs.  Evaluated by coqc on
   the correspondence cases. *)
Require Import List ZArith Bool String.
From Dasp Require Import Base.Res Sample.TypesModel.
From DaspGen Require Import TypesTable.
Import ListNotations.
Open Scope Z_scope.

Inductive zop :=
| ZProfile                    (* [3; debug_assertions; overflow_checks] *)
| ZConsts                     (* [5; MIN; MAX; EQUILIBRIUM; signed; bits] *)
| ZSrcs                       (* [6; has_neg; (kind, a, b)*] the widening sources in source order *)
| ZNew (v : Z)                (* [0] | [1; v] *)
| ZFrom (v : Z)               (* [2; w] | [8; code] *)
| ZWiden (k : Z) (v : Z)      (* k-th entry of the from-list: [2; w] | [0] if v is not a value of the source *)
| ZArith (o : Z) (a b : Z)    (* o = 0 add, 1 sub, 2 mul : [2; w] | [8; code] | [0] if an operand is out of range *)
| ZNeg (a : Z)                (* [2; w] | [8; code] | [0] | [7] if the type has no Neg *)
| ZGrid (o : Z) (xs ys : list Z) (* every pair (a, b), a in xs (outer), b in ys: [10; hash of the ZArith observations; count] *)
| ZCmp (a b : Z).             (* [4; eq; ne; lt; le; gt; ge; cmp+1; partial_cmp+1; max; min] *)

(* da = cfg!(debug_assertions), oc = overflow-checks of the build the observations come from *)
Inductive tcase := TCase (da oc : bool) (ty : Z) (ops : list zop).

Definition zb (b : bool) : Z := if b then 1 else 0.
Definition zn (k : nat) : Z := Z.of_nat k.

Definition enc_res (x : res Z) : list Z :=
  match x with
  | Ok w => [2; w]
  | Panic k => [8; zn (panic_code k)]
  | UB => [-2]
  end.

Definition enc_src (s : src) : list Z :=
  match s with
  | SPrim sg b => [0; zb sg; b]
  | SCustom nm _ ub =>
      match find_row types_table nm with
      | Some u => [1; zb (tsigned u); nbits u]
      | None => [-1; 0; 0]
      end
  end.

Definition binop_of (o : Z) : option binop :=
  match o with 0 => Some OAdd | 1 => Some OSub | 2 => Some OMul | _ => None end.

Definition cmp_code (c : comparison) : Z := match c with Lt => 0 | Eq => 1 | Gt => 2 end.

Definition in_src (s : src) (v : Z) : bool :=
  match src_range types_table s with
  | Some (lo, hi) => (lo <=? v) && (v <=? hi)
  | None => false
  end.

Definition arith_obs (c : cfg) (r : row) (p : binop) (a b : Z) : list Z :=
  if in_rangeb r a && in_rangeb r b then enc_res (arith c r p a b) else [0].

(* order-sensitive hash of a sequence of observations (same function in harness/src/bin/c15.rs) *)
Definition hstep (h x : Z) : Z := (h * 1000003 + x) mod 2305843009213693951.
Definition hobs (h : Z) (l : list Z) : Z :=
  match l with
  | [t; v] => hstep (hstep h t) v
  | [t] => hstep (hstep h t) 0
  | _ => hstep (hstep h (-1)) 0
  end.

Definition run_op (c : cfg) (r : row) (o : zop) : list Z :=
  match o with
  | ZProfile => [3; zb (debug_assertions c); zb (overflow_checks c)]
  | ZConsts => [5; rmin r; rmax r; eqv r; zb (tsigned r); nbits r]
  | ZSrcs => 6 :: zb (has_neg r) :: flat_map enc_src (froms r)
  | ZNew v => match new r v with Some x => [1; x] | None => [0] end
  | ZFrom v => enc_res (from_rep c r v)
  | ZWiden k v =>
      match nth_error (froms r) (Z.to_nat k) with
      | Some s => if in_src s v then [2; from_src r s v] else [0]
      | None => [-3]
      end
  | ZArith o a b =>
      match binop_of o with
      | Some p => arith_obs c r p a b
      | None => [-3]
      end
  | ZGrid o xs ys =>
      match binop_of o with
      | Some p => [10; fold_left (fun h a => fold_left (fun h b => hobs h (arith_obs c r p a b)) ys h) xs 7;
                   Z.of_nat (List.length xs * List.length ys)]
      | None => [-3]
      end
  | ZNeg a =>
      if has_neg r then (if in_rangeb r a then enc_res (neg c r a) else [0]) else [7]
  | ZCmp a b =>
      if negb (in_rangeb r a && in_rangeb r b) then [0] else
      [4; zb (t_eq a b); zb (negb (t_eq a b)); zb (t_lt a b); zb (t_le a b); zb (t_gt a b); zb (t_ge a b);
       cmp_code (t_cmp a b); cmp_code (t_cmp a b);
       Z.max a b; Z.min a b]
  end.

Definition run_case (c : tcase) : list (list Z) :=
  match c with
  | TCase da oc ty ops =>
      match nth_error types_table (Z.to_nat ty) with
      | Some r => map (run_op (mkCfg da oc) r) ops
      | None => [[-3]]
      end
  end.

Definition zll_eqb (a b : list (list Z)) : bool :=
  if list_eq_dec (list_eq_dec Z.eq_dec) a b then true else false.

Definition check (c : tcase * list (list Z)) : bool := zll_eqb (run_case (fst c)) (snd c).
