(* C03 -- the IEEE facts behind `mul_amp 1.0` on the WIDE integer formats (i32/u32 with f32, i64/u64 with f64),
   whose amplitudes do not fit the float companion's mantissa.  Proved once for any (prec, emax) with
   2 <= prec <= 64 < emax, over Flocq:

     rnd_IZR_is_int     round-to-nearest-even of an integer is an integer ([rndZ a])
     rndZ_error         |rndZ a - a| <= 2^(k-1-prec)  for |a| <= 2^k   (half an ulp of the binade below 2^k)
     pipeline_one_wide  ((a as fN / 2^k) * 1.0 * 2^k) as iN  with the SATURATING cast into [-2^k, 2^k - 1]
                        = clamp (rndZ a): in range, within 2^(k-1-prec) of a.
   The division and the multiplication by 2^k are exact (the product reaches at most 2^k < 2^emax, also when
   rndZ a = 2^k, i.e. the float is exactly 1.0, outside the [-1,1) domain of the conversion); that top case is
   where the saturating cast clamps 2^k to 2^k - 1. *)
Require Import Floats.SpecFloat.
Require Import ZArith Reals Lia Lra Bool.
From Flocq Require Import Core BinarySingleNaN Mult_error.
From Dasp Require Import Base.Float Base.FloatLemmas Sample.SampleOpsLemmas.
Open Scope Z_scope.

Section G.
Variables prec emax : Z.
Context (prec_gt_0_ : Prec_gt_0 prec).
Context (prec_lt_emax_ : Prec_lt_emax prec emax).
Hypothesis Hprec : 2 <= prec.
Hypothesis Hemax : 64 < emax.
Hypothesis Hprec64 : prec <= 64.

Notation bf := (binary_float prec emax).
Let emin := (3 - emax - prec)%Z.
Let fexp := FLT_exp emin prec.
Notation rnd := (round radix2 fexp ZnearestE).
Notation of_int := (gof_Z prec emax prec_gt_0_ prec_lt_emax_).
Notation fdiv := (gdiv prec emax prec_gt_0_ prec_lt_emax_).
Notation fmul := (gmul prec emax prec_gt_0_ prec_lt_emax_).

Local Instance fexp_valid_w : Valid_exp fexp := @fexp_correct prec emax prec_gt_0_.

(* round-to-nearest-even of the integer a, as an integer *)
Definition rndZ (a : Z) : Z := Ztrunc (rnd (IZR a)).

Lemma rnd_IZR_is_int (a : Z) : exists z : Z, rnd (IZR a) = IZR z.
Proof.
  destruct (Z_le_gt_dec (cexp radix2 fexp (IZR a)) 0) as [Hc|Hc].
  - exists a. apply round_generic; auto with typeclass_instances.
    replace (IZR a) with (F2R (Float radix2 a 0)) by (unfold F2R; simpl; ring).
    apply generic_format_F2R. intros _.
    replace (F2R (Float radix2 a 0)) with (IZR a) by (unfold F2R; simpl; ring). exact Hc.
  - unfold round, F2R. cbn [Fnum Fexp].
    exists (ZnearestE (scaled_mantissa radix2 fexp (IZR a)) * 2 ^ cexp radix2 fexp (IZR a)).
    rewrite mult_IZR, IZR_pow2 by lia. reflexivity.
Qed.

Lemma IZR_rndZ (a : Z) : IZR (rndZ a) = rnd (IZR a).
Proof. unfold rndZ. destruct (rnd_IZR_is_int a) as [z E]. rewrite E. now rewrite Ztrunc_IZR. Qed.

Lemma rndZ_small (a : Z) : Z.abs a <= 2 ^ prec -> rndZ a = a.
Proof.
  intros Ha. apply eq_IZR. rewrite IZR_rndZ. apply round_generic; auto with typeclass_instances.
  apply (fmt_small_int prec emax prec_gt_0_ Hprec Hemax). exact Ha.
Qed.

Lemma rndZ_abs_le (a k : Z) : 0 <= k -> Z.abs a <= 2 ^ k -> Z.abs (rndZ a) <= 2 ^ k.
Proof.
  intros Hk Ha. apply le_IZR. rewrite abs_IZR, IZR_rndZ, IZR_pow2 by lia.
  apply (SampleOpsLemmas.rnd_IZR_le_pow prec emax prec_gt_0_ Hprec Hemax); assumption.
Qed.

Lemma rndZ_monotone (a b : Z) : a <= b -> rndZ a <= rndZ b.
Proof.
  intros H. apply le_IZR. rewrite !IZR_rndZ. apply round_le; auto with typeclass_instances. now apply IZR_le.
Qed.

(* half an ulp of the binade just below 2^k *)
Lemma rndZ_error (a k : Z) : prec < k -> Z.abs a <= 2 ^ k -> Z.abs (rndZ a - a) <= 2 ^ (k - 1 - prec).
Proof.
  intros Hk Ha.
  assert (P0 : 0 <= 2 ^ (k - 1 - prec)) by (apply Z.pow_nonneg; lia).
  destruct (Z.eq_dec (Z.abs a) (2 ^ k)) as [E|NE].
  - (* a = +-2^k is a float *)
    assert (R : rndZ a = a).
    { apply eq_IZR. rewrite IZR_rndZ. apply round_generic; auto with typeclass_instances.
      assert (Hc : a = 2 ^ k \/ a = - 2 ^ k) by lia.
      destruct Hc as [-> | ->].
      - rewrite IZR_pow2 by lia. apply (SampleOpsLemmas.fmt_bpow prec emax prec_gt_0_ Hprec Hemax). lia.
      - rewrite opp_IZR, IZR_pow2 by lia. apply generic_format_opp.
        apply (SampleOpsLemmas.fmt_bpow prec emax prec_gt_0_ Hprec Hemax). lia. }
    rewrite R. replace (a - a) with 0 by lia. simpl. exact P0.
  - destruct (Z.eq_dec a 0) as [->|Hz].
    + rewrite rndZ_small by (simpl; apply Z.pow_nonneg; lia). simpl. exact P0.
    + apply le_IZR. rewrite abs_IZR, minus_IZR, IZR_rndZ.
      eapply Rle_trans; [apply error_le_half_ulp; auto with typeclass_instances|].
      assert (Hx : IZR a <> 0%R) by (intro E0; apply Hz; now apply eq_IZR).
      rewrite ulp_neq_0 by exact Hx.
      assert (M : mag radix2 (IZR a) <= k).
      { apply mag_le_bpow; [exact Hx|]. rewrite <- abs_IZR, <- IZR_pow2 by lia. apply IZR_lt. lia. }
      assert (C : cexp radix2 fexp (IZR a) <= k - prec).
      { unfold cexp, fexp, FLT_exp, emin. lia. }
      rewrite IZR_pow2 by lia.
      replace (k - 1 - prec) with (-1 + (k - prec)) by lia. rewrite bpow_plus.
      change (bpow radix2 (-1)) with (/ 2)%R.
      apply Rmult_le_compat_l; [lra|]. now apply bpow_le.
Qed.

(* the whole pipeline on ANY amplitude of the signed k+1-bit format:
   ((a as fN / 2^k) * 1.0 * 2^k) as iN, the cast saturating into [lo, hi] = [-2^k, 2^k - 1] *)
Theorem pipeline_one_wide (a k lo hi : Z) (P one : bf) : prec < k <= 63 ->
  lo = - 2 ^ k -> hi = 2 ^ k - 1 -> lo <= a <= hi ->
  is_finite P = true -> B2R P = bpow radix2 k ->
  is_finite one = true -> B2R one = 1%R -> Bsign one = false ->
  let r := gto_Z_sat prec emax lo hi (fmul (fmul (fdiv (of_int a) P) one) P) in
  r = Z.max lo (Z.min hi (rndZ a)) /\ lo <= r <= hi /\ Z.abs (r - a) <= 2 ^ (k - 1 - prec).
Proof.
  intros Hk Hlo Hhi Hr FP HP F1 H1 S1 r.
  assert (Ha : Z.abs a <= 2 ^ k) by lia.
  assert (V : r = Z.max lo (Z.min hi (rndZ a))).
  { unfold r. rewrite (fmul_one prec emax prec_gt_0_ prec_lt_emax_ (fdiv (of_int a) P) one) by assumption.
    destruct (of_int_div_pow2 prec emax prec_gt_0_ prec_lt_emax_ Hprec Hemax a k P ltac:(lia) Ha FP HP) as [Hv Hf].
    destruct (fmul_exact prec emax prec_gt_0_ prec_lt_emax_ (fdiv (of_int a) P) P (rnd (IZR a)) Hf FP) as (Hm & Fm & _).
    - rewrite Hv, HP. fold emin. fold fexp. field. apply Rgt_not_eq, bpow_gt_0.
    - apply generic_format_round; auto with typeclass_instances.
    - eapply Rle_lt_trans; [apply (SampleOpsLemmas.rnd_IZR_le_pow prec emax prec_gt_0_ Hprec Hemax a k); lia|].
      apply bpow_lt. lia.
    - rewrite (to_Z_sat_finite prec emax prec_lt_emax_ lo hi _ Fm). rewrite Hm. reflexivity. }
  pose proof (rndZ_abs_le a k ltac:(lia) Ha) as B.
  pose proof (rndZ_error a k ltac:(lia) Ha) as E.
  split; [exact V|]. rewrite V. split; lia.
Qed.

End G.
