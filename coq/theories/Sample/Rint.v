(* Machine-integer semantics of the Rust operations that occur in
   dasp_sample/src/conv.rs.  Values are [Z]; a machine type is one of the eight
   primitive integer types.  Definitions only (lemmas: RintProofs.v).

   Rust                         model
   a + b, a - b, a * b, -a      [arith m t (a (op) b)]:
                                  debug build   (m = Checked)  : Ok if the exact result fits, else Panic POverflow
                                  release build (m = Wrapping) : Ok (two's-complement wrap of the exact result)
   a / b                        [idiv]: truncated division; panics on b = 0 and on MIN / -1 in every build
   e as T  (int -> int)         [cast T e] = wrap T e      (never panics, any build)
   a << k  (0 <= k < bits)      [shl T a k] = wrap T (a * 2^k)   (never panics: bits shifted out are lost)
   a >> k  (0 <= k < bits)      [shr T a k] = floor (a / 2^k)    (arithmetic shift on signed, logical on unsigned)
   T::new_unchecked(e), .inner()  identities on the representation value

   Shift counts are literals; the translator rejects a count outside [0, bits)
   (rustc rejects it too), so the shifts need no panic case. *)
Require Import ZArith Bool.
From Dasp Require Import Base.Res.
Open Scope Z_scope.

Inductive mty := i8 | i16 | i32 | i64 | u8 | u16 | u32 | u64.

Definition tbits (t : mty) : Z :=
  match t with i8 | u8 => 8 | i16 | u16 => 16 | i32 | u32 => 32 | i64 | u64 => 64 end.
Definition tsigned (t : mty) : bool :=
  match t with i8 | i16 | i32 | i64 => true | _ => false end.
(* numeral tables (no [2 ^ bits] left symbolic: the automation needs numerals);
   RintProofs.tables_ok relates them to 2 ^ tbits *)
Definition tmin (t : mty) : Z :=
  match t with i8 => -128 | i16 => -32768 | i32 => -2147483648 | i64 => -9223372036854775808 | _ => 0 end.
Definition tmax (t : mty) : Z :=
  match t with
  | i8 => 127 | i16 => 32767 | i32 => 2147483647 | i64 => 9223372036854775807
  | u8 => 255 | u16 => 65535 | u32 => 4294967295 | u64 => 18446744073709551615
  end.
Definition tmod (t : mty) : Z :=
  match t with
  | i8 | u8 => 256 | i16 | u16 => 65536 | i32 | u32 => 4294967296 | i64 | u64 => 18446744073709551616
  end.

(* build profile: overflow checks on (debug) / off (release) *)
Inductive mode := Checked | Wrapping.

Definition wrap (t : mty) (z : Z) : Z := (z - tmin t) mod tmod t + tmin t.
Definition fits (t : mty) (z : Z) : bool := (tmin t <=? z) && (z <=? tmax t).
Definition chk (t : mty) (z : Z) : res Z := if fits t z then Ok z else Panic POverflow.

Definition arith (m : mode) (t : mty) (z : Z) : res Z :=
  match m with Checked => chk t z | Wrapping => Ok (wrap t z) end.

Definition add (m : mode) (t : mty) (a b : Z) : res Z := arith m t (a + b).
Definition sub (m : mode) (t : mty) (a b : Z) : res Z := arith m t (a - b).
Definition mul (m : mode) (t : mty) (a b : Z) : res Z := arith m t (a * b).
Definition neg (m : mode) (t : mty) (a : Z) : res Z := arith m t (- a).
Definition idiv (m : mode) (t : mty) (a b : Z) : res Z :=
  if b =? 0 then Panic PDivZero
  else if (a =? tmin t) && (b =? -1) then Panic POverflow
  else Ok (Z.quot a b).

Definition cast (t : mty) (a : Z) : Z := wrap t a.
Definition shl (t : mty) (a k : Z) : Z := wrap t (a * 2 ^ k).
Definition shr (t : mty) (a k : Z) : Z := a / 2 ^ k.

(* "if the debug build returns a value, the release build returns the same value" *)
Definition le_res {A} (a b : res A) : Prop := forall v, a = Ok v -> b = Ok v.
