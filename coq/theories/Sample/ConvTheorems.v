(* C01: the generated conversions meet the specification in both build profiles, and
   the code-level forms of the specification's consequences.  Combines the generated
   per-pair lemmas (gen/ConvCorrect.v, gen/ConvTransfer.v) with ConvSpecProofs.v. *)
Require Import ZArith Bool Lia.
From Dasp Require Import Base.Res Sample.Rint Sample.RintProofs Sample.ConvSpec Sample.ConvSpecProofs.
From DaspGen Require Import FormatTable ConvGen ConvTransfer ConvCorrect.
Open Scope Z_scope.

Lemma spec_same f z : spec_conv f f z = z.
Proof.
  rewrite spec_conv_eq. rewrite Z.div_mul; [lia | ].
  pose proof (pow2_pos (bits f)). pose proof (bits_pos f). lia.
Qed.

Lemma to_sample_same m f z : to_sample m f f z = Ok z.
Proof. destruct f; reflexivity. Qed.

(* the diagonal, code and formula together: converting to the SAME format (the blanket identity impl) returns the value *)
Lemma to_sample_same_format m f z : to_sample m f f z = Ok z /\ spec_conv f f z = z.
Proof. split; [apply to_sample_same | apply spec_same]. Qed.

(* every ordered pair (the 132 distinct ones and the 12 identities), both build profiles *)
Lemma to_sample_correct_all m s d z : in_range s z -> to_sample m s d z = Ok (spec_conv s d z).
Proof.
  intros Hr. destruct (fmt_eq_dec s d) as [-> | Hne].
  - now rewrite to_sample_same, spec_same.
  - destruct m; [ | apply to_sample_transfer ]; now apply to_sample_correct.
Qed.

Lemma to_sample_release s d z : s <> d -> in_range s z -> to_sample Wrapping s d z = Ok (spec_conv s d z).
Proof. intros _ Hr. now apply to_sample_correct_all. Qed.

Lemma to_sample_in_range m s d z : in_range s z ->
  exists v, to_sample m s d z = Ok v /\ in_range d v.
Proof. intros Hr. eexists; split; [now apply to_sample_correct_all | now apply spec_in_range]. Qed.

Lemma to_sample_monotone m s d z1 z2 v1 v2 : in_range s z1 -> in_range s z2 -> z1 <= z2 ->
  to_sample m s d z1 = Ok v1 -> to_sample m s d z2 = Ok v2 -> v1 <= v2.
Proof.
  intros H1 H2 Hle E1 E2. rewrite to_sample_correct_all in E1, E2 by assumption.
  inversion E1; inversion E2; subst. now apply spec_monotone.
Qed.

Lemma to_sample_roundtrip m s d z : bits s <= bits d -> in_range s z ->
  bind (to_sample m s d z) (to_sample m d s) = Ok z.
Proof.
  intros Hb Hr. rewrite (to_sample_correct_all m s d z Hr). cbn [bind].
  rewrite to_sample_correct_all by now apply spec_in_range.
  now rewrite spec_widen_lossless.
Qed.

Lemma to_sample_via m s mid d z : Z.min (bits s) (bits d) <= bits mid -> in_range s z ->
  bind (to_sample m s mid z) (to_sample m mid d) = to_sample m s d z.
Proof.
  intros Hb Hr. rewrite (to_sample_correct_all m s mid z Hr). cbn [bind].
  rewrite to_sample_correct_all by now apply spec_in_range.
  rewrite (to_sample_correct_all m s d z Hr). now rewrite spec_via.
Qed.

Lemma spec_max_widen_lt s d : bits s < bits d -> spec_conv s d (fmax s) < fmax d.
Proof.
  intros H. rewrite spec_max_widen by lia.
  assert (2 ^ 1 <= 2 ^ (bits d - bits s)) by (apply Z.pow_le_mono_r; lia).
  change (2 ^ 1) with 2 in *. lia.
Qed.
