(* C03 -- model of the provided methods of `trait Sample` (dasp_sample/src/lib.rs), written after the source:

     fn to_signed_sample(self) -> Self::Signed { self.to_sample() }
     fn to_float_sample(self)  -> Self::Float  { self.to_sample() }
     fn add_amp(self, amp: Self::Signed) -> Self { let self_s = self.to_signed_sample(); (self_s + amp).to_sample() }
     fn mul_amp(self, amp: Self::Float)  -> Self { let self_f = self.to_float_sample();  (self_f * amp).to_sample() }

   `to_sample` is what the GENERATED dispatch tables say (gen/ConvGen.v, gen/ConvFloatGen.v, from conv.rs),
   Signed / Float / EQUILIBRIUM come from the GENERATED companion table (gen/SampleTable.v, from impl_sample!),
   `+` on a primitive integer is Rint.add (overflow check in debug, wrap in release), `+` on I24/I48 is the
   C15 model of types.rs (Sample/TypesModel.v: `new(..).expect(..)` in debug, `wrap_overflow_once` in release),
   `+` / `*` on f32/f64 are IEEE (Base/Float.v).  Definitions only. *)
Require Import Floats.SpecFloat.
Require Import ZArith Bool.
From Flocq Require Import Core BinarySingleNaN.
From Dasp Require Import Base.Res Base.Float Sample.Rint Sample.ConvSpec Sample.SampleFmt.
From Dasp Require Sample.TypesModel.
From DaspGen Require Import FormatTable ConvGen ConvFloatGen SampleTable.
From DaspGen Require TypesTable.
Open Scope Z_scope.

(* Sample::to_sample::<D>() for any ordered pair of the 14 formats.  Same type: the blanket
   `impl<S> FromSample<S> for S` (identity; ConvGen.to_sample also returns Ok z on the diagonal). *)
Definition conv (m : mode) (s d : sfmt) : sty s -> res (sty d) :=
  match s as s0, d as d0 return sty s0 -> res (sty d0) with
  | SInt a, SInt b => to_sample m a b
  | SInt a, SF32 => to_sample_f32_of_int m a
  | SInt a, SF64 => to_sample_f64_of_int m a
  | SF32, SInt b => to_sample_int_of_f32 m b
  | SF64, SInt b => to_sample_int_of_f64 m b
  | SF32, SF32 => fun x => Ok x
  | SF32, SF64 => to_sample_f32_f64 m
  | SF64, SF32 => to_sample_f64_f32 m
  | SF64, SF64 => fun x => Ok x
  end.

(* the two Cargo profiles: debug = debug_assertions + overflow checks, release = neither *)
Definition cfg_of (m : mode) : TypesModel.cfg :=
  match m with Checked => TypesModel.dev | Wrapping => TypesModel.release end.

Definition custom_row (f : fmt) : option TypesModel.row :=
  match f with
  | FI24 => Some TypesTable.row_I24 | FI48 => Some TypesTable.row_I48
  | FU24 => Some TypesTable.row_U24 | FU48 => Some TypesTable.row_U48
  | _ => None
  end.

(* `a + b` / `a * b` at an integer sample type *)
Definition int_add (m : mode) (f : fmt) (a b : Z) : res Z :=
  match custom_row f with
  | Some r => TypesModel.arith (cfg_of m) r TypesModel.OAdd a b
  | None => Rint.add m (src_rep f) a b
  end.
Definition int_mul (m : mode) (f : fmt) (a b : Z) : res Z :=
  match custom_row f with
  | Some r => TypesModel.arith (cfg_of m) r TypesModel.OMul a b
  | None => Rint.mul m (src_rep f) a b
  end.

(* core::ops::Add / Mul of a sample type *)
Definition native_add (m : mode) (f : sfmt) : sty f -> sty f -> res (sty f) :=
  match f with
  | SInt fi => int_add m fi
  | SF32 => fun a b => Ok (F32.add a b)
  | SF64 => fun a b => Ok (F64.add a b)
  end.
Definition native_mul (m : mode) (f : sfmt) : sty f -> sty f -> res (sty f) :=
  match f with
  | SInt fi => int_mul m fi
  | SF32 => fun a b => Ok (F32.mul a b)
  | SF64 => fun a b => Ok (F64.mul a b)
  end.

Definition to_signed (m : mode) (f : sfmt) (s : sty f) : res (sty (signed_of f)) := conv m f (signed_of f) s.
Definition to_float (m : mode) (f : sfmt) (s : sty f) : res (sty (float_of f)) := conv m f (float_of f) s.

Definition add_amp (m : mode) (f : sfmt) (s : sty f) (amp : sty (signed_of f)) : res (sty f) :=
  let* self_s := to_signed m f s in
  let* sum := native_add m (signed_of f) self_s amp in
  conv m (signed_of f) f sum.

Definition mul_amp (m : mode) (f : sfmt) (s : sty f) (amp : sty (float_of f)) : res (sty f) :=
  let* self_f := to_float m f s in
  let* prod := native_mul m (float_of f) self_f amp in
  conv m (float_of f) f prod.

(* the zero amplitude of the Signed companion: 0, +0.0 *)
Definition szero_of (f : sfmt) : sty (signed_of f) :=
  match f as f0 return sty (signed_of f0) with
  | SInt _ => 0
  | SF32 => F32.zero
  | SF64 => F64.zero
  end.

(* <Self::Float as FloatSample>::IDENTITY *)
Definition identity_of (f : sfmt) : sty (float_of f) :=
  match f as f0 return sty (float_of f0) with
  | SInt fi => if src_float64 fi as b return sty (if b then SF64 else SF32) then identity64 else identity32
  | SF32 => identity32
  | SF64 => identity64
  end.

(* +0.0 of the Float companion *)
Definition fzero_of (f : sfmt) : sty (float_of f) :=
  match f as f0 return sty (float_of f0) with
  | SInt fi => if src_float64 fi as b return sty (if b then SF64 else SF32) then F64.zero else F32.zero
  | SF32 => F32.zero
  | SF64 => F64.zero
  end.
