(* C15 — non-vacuity for the theorems about the REGENERATED operations (coq/gen/TypesOpsGen.v):
   concrete rows, fuels and operands meeting the hypotheses, exercising the panic / wrap / loop
   branches of the generated code itself (evaluated by vm_compute, not through the hand model). *)
Require Import List ZArith Bool String.
From Dasp Require Import Base.Res Sample.Rint Sample.TypesModel Sample.TypesGenSem Sample.TypesGenEquiv.
From DaspGen Require Import TypesTable TypesOpsGen.
Import ListNotations.
Open Scope Z_scope.

(* the hypotheses `nth_error types_table i = Some r`, `nth_error gen_ops i = Some o`, `fuel_args (o_args o) <= fuel` *)
Example ex_gen_hyps :
  nth_error types_table 2 = Some row_I24 /\ nth_error gen_ops 2 = Some ops_I24 /\
  fuel_args (o_args ops_I24) = 130%nat /\ Z.of_nat (fuel_args (o_args ops_I48)) = 32770 /\ fuel_args (o_args ops_U11) = 18%nat.
Proof. repeat split; try reflexivity; vm_compute; reflexivity. Qed.

Example ex_gen_new :
  o_new ops_I24 dev 130 8388607 = ret (Some 8388607) /\ o_new ops_I24 dev 130 8388608 = ret None /\
  o_new ops_U11 release 18 (-1) = ret None.
Proof. vm_compute. auto. Qed.

(* MAX + 1: `expect` panic with debug assertions, wraps to MIN without *)
Example ex_gen_add_overflow :
  o_add ops_I24 dev 130 8388607 1 = Some (Panic PExpect) /\ o_add ops_I24 release 130 8388607 1 = ret (-8388608) /\
  o_sub ops_U11 (mkCfg true false) 18 0 1 = Some (Panic PExpect) /\ o_sub ops_U11 (mkCfg false true) 18 0 1 = ret 2047.
Proof. vm_compute. auto 6. Qed.

(* Mul: checked_mul is None (Rep overflow) -> expect panics whatever overflow-checks says; wrapping_mul + both loops *)
Example ex_gen_mul :
  o_mul ops_I11 dev 18 256 256 = Some (Panic PExpect) /\ o_mul ops_I11 (mkCfg true false) 18 256 256 = Some (Panic PExpect) /\
  o_mul ops_I11 release 18 1023 1023 = ret 1 /\ o_mul ops_I11 (mkCfg false true) 18 1023 1023 = ret 1 /\
  o_mul ops_I24 release 130 16384 16384 = ret 0.
Proof. vm_compute. auto 8. Qed.

(* the fuel matters: the 16 iterations of 16384 * 16384 = 2^28 do not fit in 15, and do in 16 *)
Example ex_gen_fuel :
  o_mul ops_I24 release 15 16384 16384 = None /\ o_mul ops_I24 release 16 16384 16384 = ret 0 /\
  o_from_rep ops_U11 dev 15 (-32768) = None /\ o_from_rep ops_U11 dev 18 (-32768) = ret 0.
Proof. vm_compute. auto 6. Qed.

(* From<Rep> at the Rep extremes of the 48-bit types: 32768 iterations *)
Example ex_gen_from_far :
  o_from_rep ops_I48 release (fuel_args (o_args ops_I48)) 9223372036854775807 = ret (-1) /\
  o_from_rep ops_I48 dev (fuel_args (o_args ops_I48)) (-9223372036854775808) = ret 0.
Proof. vm_compute. auto. Qed.

Example ex_gen_neg :
  (exists f, o_neg ops_I24 = Some f /\ f dev 130%nat (-8388608) = Some (Panic PExpect) /\
             f release 130%nat (-8388608) = ret (-8388608) /\ f dev 130%nat 5 = ret (-5)) /\
  o_neg ops_I20 = None.
Proof. split; [eexists; split; [reflexivity|]; vm_compute; auto | reflexivity]. Qed.

Example ex_gen_widen :
  map fst (o_froms ops_I20) = [GPrim i8; GCustom "I11" i16; GPrim i16; GPrim u8; GCustom "U11" i16; GPrim u16] /\
  map (fun gf => snd gf dev 130%nat 2047) (o_froms ops_I20) = [ret 2047; ret 2047; ret 2047; ret 2047; ret 2047; ret 2047].
Proof. vm_compute. auto. Qed.
