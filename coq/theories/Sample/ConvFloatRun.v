(* Executable interface of the generated FLOAT conversions (gen/ConvFloatGen.v), used by the
   C01 check only to validate the translator's float emission against the crate (the float
   properties themselves belong to C02).  Floats travel as IEEE bit patterns. *)
Require Import Floats.SpecFloat.
Require Import ZArith NArith List Bool Uint63.
From Flocq Require Import Core BinarySingleNaN.
From Dasp Require Import Base.Res Base.Float Sample.Rint Sample.ConvSpec Sample.ConvRun.
From DaspGen Require Import ConvGen ConvFloatGen.
Import ListNotations.
Open Scope Z_scope.

Definition obs_f32 (r : res F32.t) : list Z :=
  match r with Ok v => [0; F32.bits v] | Panic k => [8; Z.of_nat (panic_code k)] | UB => [9] end.
Definition obs_f64 (r : res F64.t) : list Z :=
  match r with Ok v => [0; F64.bits v] | Panic k => [8; Z.of_nat (panic_code k)] | UB => [9] end.

Inductive fcase :=
| FI2F (m s f : Z) (vals : list Z)      (* integer format s -> f32 (f = 32) / f64 (f = 64) *)
| FF2I (m f d : Z) (bits : list Z)      (* f32 / f64 bit patterns -> integer format d *)
| FF2F (m f : Z) (bits : list Z)        (* f32 -> f64 (f = 32), f64 -> f32 (f = 64) *)
| FFSame (m f : Z) (bits : list Z).     (* f32 -> f32 (f = 32), f64 -> f64 (f = 64): the blanket identity impl *)

Definition run_fcase (c : fcase) : list (list Z) :=
  match c with
  | FI2F m s f vals =>
    match fmt_of_code s with
    | Some fs => map (fun v => if f =? 32 then obs_f32 (to_sample_f32_of_int (mode_of m) fs v)
                               else obs_f64 (to_sample_f64_of_int (mode_of m) fs v)) vals
    | None => [[-1]]
    end
  | FF2I m f d bits =>
    match fmt_of_code d with
    | Some fd => map (fun b => if f =? 32 then obs_of (to_sample_int_of_f32 (mode_of m) fd (F32.of_bits b))
                               else obs_of (to_sample_int_of_f64 (mode_of m) fd (F64.of_bits b))) bits
    | None => [[-1]]
    end
  | FF2F m f bits =>
    map (fun b => if f =? 32 then obs_f64 (to_sample_f32_f64 (mode_of m) (F32.of_bits b))
                  else obs_f32 (to_sample_f64_f32 (mode_of m) (F64.of_bits b))) bits
  | FFSame m f bits =>
    map (fun b => if f =? 32 then obs_f32 (to_sample_f32_f32 (mode_of m) (F32.of_bits b))
                  else obs_f64 (to_sample_f64_f64 (mode_of m) (F64.of_bits b))) bits
  end.

Definition fcheck (c : fcase * list (list Z)) : bool := zll_eqb (run_fcase (fst c)) (snd c).
