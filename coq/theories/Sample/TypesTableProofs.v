(* C15 — the GENERATED table (coq/gen/TypesTable.v) consists of well-formed rows; the checks are
   decidable and discharged by computation, so they are re-run on whatever table the translator
   produces from the current source. *)
Require Import List ZArith Bool String Lia.
From Dasp Require Import Base.Res Sample.TypesModel Sample.TypesProofs.
From DaspGen Require Import TypesTable.
Import ListNotations.
Open Scope Z_scope.

Lemma table_okb : forallb row_okb types_table = true.
Proof. vm_compute. reflexivity. Qed.

Lemma table_row_ok r : In r types_table -> row_ok r.
Proof. intros H. apply row_okb_ok. exact (proj1 (forallb_forall _ _) table_okb r H). Qed.

Lemma table_facts r : In r types_table -> facts r.
Proof. intros H. apply row_ok_facts, table_row_ok, H. Qed.

(* table consistency in the words of the property *)
Lemma table_consistent r : In r types_table ->
  rep_signed r = true /\ 0 < nbits r /\ nbits r + 2 <= rep_bits r /\ total r = 2 ^ nbits r /\
  (if tsigned r
   then rmin r = - 2 ^ (nbits r - 1) /\ rmax r = 2 ^ (nbits r - 1) - 1 /\ eqv r = 0
   else rmin r = 0 /\ rmax r = 2 ^ nbits r - 1 /\ eqv r = 2 ^ (nbits r - 1)) /\
  total r = rmax r - rmin r + 1 /\
  (exists q, 2 ^ rep_bits r = q * total r).
Proof.
  intros H. pose proof (table_row_ok r H) as (A & B & C & D & E).
  pose proof (table_facts r H) as F.
  repeat split; auto. exact (f_total r F). exact (f_div r F).
Qed.

Definition covers (sg : bool) (n : Z) : bool :=
  existsb (fun r => Bool.eqb (tsigned r) sg && (nbits r =? n)) types_table.

Lemma table_covers :
  List.length types_table = 8%nat /\ NoDup (map tname types_table) /\
  forall sg n, In n [11; 20; 24; 48] -> exists r, In r types_table /\ tsigned r = sg /\ nbits r = n.
Proof.
  split; [reflexivity|]. split.
  - vm_compute. repeat (constructor; [intros H; repeat (destruct H as [H|H]; [discriminate H|]); exact H|]).
    constructor.
  - intros sg n Hn.
    assert (Hc : covers sg n = true).
    { destruct sg; repeat (destruct Hn as [<-|Hn]; [vm_compute; reflexivity|]); destruct Hn. }
    unfold covers in Hc. apply existsb_exists in Hc. destruct Hc as (r & Hin & Hb).
    apply andb_prop in Hb. destruct Hb as [H1 H2].
    exists r. split; [exact Hin|]. split; [apply Bool.eqb_prop, H1 | apply Z.eqb_eq, H2].
Qed.

Lemma table_widen_okb :
  forallb (fun r => forallb (fun s => widen_okb types_table r s && src_declb types_table s) (froms r)) types_table = true.
Proof. vm_compute. reflexivity. Qed.

Lemma table_widen r s : In r types_table -> In s (froms r) ->
  exists slo shi, src_range types_table s = Some (slo, shi) /\
    forall v, slo <= v <= shi -> from_src r s v = v /\ in_range r v.
Proof.
  intros Hr Hs.
  pose proof (proj1 (forallb_forall _ _) table_widen_okb r Hr) as H. cbv beta in H.
  pose proof (proj1 (forallb_forall _ _) H s Hs) as H2. cbv beta in H2.
  apply andb_prop in H2. apply widen_ok. exact (proj1 H2).
Qed.

(* ---- the statements of props/C15.v ---- *)

Lemma tbl_new : forall r, In r types_table -> forall v,
  (in_range r v -> new r v = Some v) /\ (~ in_range r v -> new r v = None).
Proof. intros r _. exact (new_spec r). Qed.

Lemma tbl_from_rep : forall r, In r types_table -> forall c v, imin (rep r) <= v <= imax (rep r) ->
  exists w, from_rep c r v = Ok w /\ in_range r w /\ (w - v) mod 2 ^ nbits r = 0.
Proof.
  intros r Hr c v Hv. pose proof (table_facts r Hr) as F.
  destruct (from_rep_spec c r v F Hv) as (w & E & Hin & Hk).
  exists w. repeat split; try assumption. apply Hin. apply Hin.
  rewrite <- (f_pow r F). apply cong_mod. exact Hk.
Qed.

(* dev profile (kept in this form: Sample/SampleOpsProofs.v of C03 uses it) *)
Lemma tbl_arith_debug : forall r, In r types_table -> forall o a b, in_range r a -> in_range r b ->
  (in_range r (exact o a b) -> arith dev r o a b = Ok (exact o a b)) /\
  (~ in_range r (exact o a b) -> arith dev r o a b = Panic PExpect).
Proof. intros r Hr o a b. exact (arith_dev r o a b (table_facts r Hr)). Qed.

Lemma tbl_arith_debug_any : forall r, In r types_table -> forall c, debug_assertions c = true ->
  forall o a b, in_range r a -> in_range r b ->
  (in_range r (exact o a b) -> arith c r o a b = Ok (exact o a b)) /\
  (~ in_range r (exact o a b) -> arith c r o a b = Panic PExpect).
Proof. intros r Hr c Hc o a b. exact (arith_debug c r o a b (table_facts r Hr) Hc). Qed.

Lemma tbl_arith_nodebug_any : forall r, In r types_table -> forall c, debug_assertions c = false ->
  forall o a b, in_range r a -> in_range r b ->
  exists w, arith c r o a b = Ok w /\ in_range r w /\ (w - exact o a b) mod 2 ^ nbits r = 0.
Proof.
  intros r Hr c Hc o a b Ha Hb. pose proof (table_facts r Hr) as F.
  destruct (arith_nodebug c r o a b F Hc Ha Hb) as (w & E & Hin & Hk).
  exists w. split; [exact E|]. split; [exact Hin|].
  rewrite <- (f_pow r F). apply cong_mod. exact Hk.
Qed.

Lemma tbl_neg_debug_any : forall r, In r types_table -> has_neg r = true ->
  forall c, debug_assertions c = true -> forall a, in_range r a ->
  (in_range r (- a) -> neg c r a = Ok (- a)) /\
  (~ in_range r (- a) -> neg c r a = Panic PExpect).
Proof. intros r Hr _ c Hc a. exact (neg_debug c r a (table_facts r Hr) Hc). Qed.

Lemma tbl_neg_nodebug_any : forall r, In r types_table -> has_neg r = true ->
  forall c, debug_assertions c = false -> forall a, in_range r a ->
  exists w, neg c r a = Ok w /\ in_range r w /\ (w - - a) mod 2 ^ nbits r = 0.
Proof.
  intros r Hr _ c Hc a Ha. pose proof (table_facts r Hr) as F.
  destruct (neg_nodebug c r a F Hc Ha) as (w & E & Hin & Hk).
  exists w. split; [exact E|]. split; [exact Hin|].
  rewrite <- (f_pow r F). apply cong_mod. exact Hk.
Qed.

Lemma tbl_overflow_checks_irrelevant : forall r, In r types_table ->
  forall c c', debug_assertions c = debug_assertions c' -> forall a b, in_range r a -> in_range r b ->
  (forall o, arith c r o a b = arith c' r o a b) /\ neg c r a = neg c' r a.
Proof.
  intros r Hr c c' Hd a b Ha Hb. pose proof (table_facts r Hr) as F. split.
  - intros o. apply arith_oc_irrelevant; assumption.
  - apply neg_oc_irrelevant; assumption.
Qed.

Lemma tbl_never_outside : forall r, In r types_table -> forall c a b w, in_range r a -> in_range r b ->
  (forall o, arith c r o a b = Ok w -> in_range r w) /\ (neg c r a = Ok w -> in_range r w).
Proof.
  intros r Hr c a b w Ha Hb. pose proof (table_facts r Hr) as F. split.
  - intros o. apply arith_never_outside; assumption.
  - apply neg_never_outside; assumption.
Qed.

Lemma tbl_wrapped_unique : forall r, In r types_table -> forall w1 w2, in_range r w1 -> in_range r w2 ->
  (exists k, w1 = w2 + k * 2 ^ nbits r) -> w1 = w2.
Proof.
  intros r Hr w1 w2 H1 H2 Hk. pose proof (table_facts r Hr) as F.
  apply (wrapped_unique r w1 w2 F H1 H2). rewrite (f_pow r F). exact Hk.
Qed.

Lemma tbl_any_wellformed_row : forall r, row_ok r -> forall c o a b, in_range r a -> in_range r b ->
  (debug_assertions c = true ->
     (in_range r (exact o a b) -> arith c r o a b = Ok (exact o a b)) /\
     (~ in_range r (exact o a b) -> arith c r o a b = Panic PExpect)) /\
  (debug_assertions c = false ->
     exists w, arith c r o a b = Ok w /\ in_range r w /\ (w - exact o a b) mod 2 ^ nbits r = 0).
Proof.
  intros r Hok c o a b Ha Hb. pose proof (row_ok_facts r Hok) as F. split; intros Hc.
  - exact (arith_debug c r o a b F Hc Ha Hb).
  - destruct (arith_nodebug c r o a b F Hc Ha Hb) as (w & E & Hin & Hk).
    exists w. split; [exact E|]. split; [exact Hin|]. rewrite <- (f_pow r F). apply cong_mod. exact Hk.
Qed.
