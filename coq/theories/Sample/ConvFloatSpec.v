(* Specification of float <-> integer sample conversion (property C02).  Definitions only.

   integer -> float:  the signed amplitude divided by 2^(bits-1), correctly rounded: the result is the
                      finite float  round_NE(amp) / 2^(bits-1)  -- the integer is rounded once to the
                      mantissa width, the scaling by the power of two is exact (ConvFloatTheorems shows
                      this equals round_NE(amp / 2^(bits-1)), the correctly rounded quotient)
   float -> integer:  on the documented domain (finite, -1 <= f < 1):
                      trunc(f * 2^(bits-1)), plus the half-range offset for unsigned formats *)
Require Import Floats.SpecFloat.
Require Import ZArith Bool Reals.
From Flocq Require Import Core BinarySingleNaN.
From Dasp Require Import Base.Res Base.Float Sample.ConvSpec.
Open Scope Z_scope.

Section G.
Variables prec emax : Z.
Notation bf := (BinarySingleNaN.binary_float prec emax).

(* round to nearest, ties to even, into the format (precision prec, minimal exponent 3 - emax - prec) *)
Definition rndNE (x : R) : R := round radix2 (FLT_exp (3 - emax - prec) prec) ZnearestE x.

(* the value of the scale factor 2^(bits-1) *)
Definition fscale (i : fmt) : R := bpow radix2 (bits i - 1).

Definition i2f_spec (i : fmt) (z : Z) (r : res bf) : Prop :=
  exists f, r = Ok f /\ is_finite f = true /\ B2R f = (rndNE (IZR (amp i z)) / fscale i)%R.

(* the documented input domain of the float -> integer conversions (conv.rs:10-14) *)
Definition in_domain (f : bf) : Prop := is_finite f = true /\ (-1 <= B2R f < 1)%R.

Definition f2i_val (i : fmt) (f : bf) : Z :=
  Ztrunc (B2R f * fscale i) + (if signed i then 0 else half i).
End G.

(* the signed format of the same width (unsigned conversions go through it) *)
Definition twin (i : fmt) : fmt :=
  match i with
  | FU8 => FI8 | FU16 => FI16 | FU24 => FI24 | FU32 => FI32 | FU48 => FI48 | FU64 => FI64
  | s => s
  end.
