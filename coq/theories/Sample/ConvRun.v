(* Executable Z-level interface of the generated conversion model, evaluated by coqc
   on the same cases as the real crate (lib/props/c01.py, harness/src/bin/c01.rs). *)
Require Import ZArith NArith List Bool Uint63.
From Dasp Require Import Base.Res Sample.Rint Sample.ConvSpec.
From DaspGen Require Import FormatTable ConvGen.
Import ListNotations.
Open Scope Z_scope.

(* compact input syntax for big integers in case files: magnitude = h * 2^32 + l as two
   primitive 63-bit literals (a decimal Z literal of 19 digits costs ~1 ms to parse, these ~0.1 ms) *)
Definition zp (h l : int) : Z := Uint63.to_Z h * 4294967296 + Uint63.to_Z l.
Definition zn (h l : int) : Z := - zp h l.
Arguments zp (h l)%uint63.
Arguments zn (h l)%uint63.

(* mode code: 0 = debug build (overflow checks on), 1 = release build *)
Definition mode_of (c : Z) : mode := if c =? 0 then Checked else Wrapping.

(* one observation per input value: [0; v] returned v, [8; k] panicked with kind k *)
Definition obs_of (r : res Z) : list Z :=
  match r with Ok v => [0; v] | Panic k => [8; Z.of_nat (panic_code k)] | UB => [9] end.

(* the harness flags a returned value the target format's own validity check (T::new) rejects with
   tag 6; by the generated table that is a value outside [MIN, MAX] of the target (for in-range sources
   c01_in_range proves it never happens; out-of-range representation values of I24/.. can produce it) *)
Definition obs_valid (fd : fmt) (o : list Z) : list Z :=
  match o with
  | [0; v] => if (src_min fd <=? v) && (v <=? src_max fd) then o else [6; v]
  | _ => o
  end.

Definition conv_codes (m s d v : Z) : list Z :=
  match fmt_of_code s, fmt_of_code d with
  | Some fs, Some fd => obs_valid fd (obs_of (to_sample (mode_of m) fs fd v))
  | _, _ => [-1]
  end.

(* position-sensitive digest of a run of observations (exhaustive sweeps) *)
Definition dig_p : Z := 2305843009213693951.   (* 2^61 - 1 *)
Definition dig_enc (o : list Z) : Z :=
  match o with [0; v] => v mod dig_p | [8; k] => 1152921504606846976 + k | _ => 7 end.
Definition dig_step (acc : Z) (o : list Z) : Z := (acc * 1000003 + dig_enc o + 1) mod dig_p.

Inductive ccase :=
| CVals (m s d : Z) (vals : list Z)          (* explicit inputs, every observation compared *)
| CRange (m s d lo : Z) (n : N)              (* inputs lo, lo+1, ..., lo+n-1, digest compared *)
| CConsts (f : Z).                           (* the crate's constants of format f against the generated table *)

(* what the harness op `consts` must print for format f: MIN, MAX, <T as Sample>::EQUILIBRIUM,
   types::EQUILIBRIUM, and T::new accepting MIN and MAX, rejecting MIN-1 and MAX+1 *)
Definition consts_codes (f : Z) : list Z :=
  match fmt_of_code f with
  | Some ff => [0; src_min ff; src_max ff; src_equilibrium ff; src_equilibrium ff; 1; 1; 1; 1]
  | None => [-1]
  end.

Definition run_case (c : ccase) : list (list Z) :=
  match c with
  | CVals m s d vals => map (conv_codes m s d) vals
  | CRange m s d lo n =>
    [[snd (N.iter n (fun p => (fst p + 1, dig_step (snd p) (conv_codes m s d (fst p)))) (lo, 0))]]
  | CConsts f => [consts_codes f]
  end.

Definition zl_eqb (a b : list Z) : bool := if list_eq_dec Z.eq_dec a b then true else false.
Definition zll_eqb (a b : list (list Z)) : bool := if list_eq_dec (list_eq_dec Z.eq_dec) a b then true else false.

Definition check (c : ccase * list (list Z)) : bool := zll_eqb (run_case (fst c)) (snd c).

(* model-level search (DESIGN 5.1a): the inputs on which the regenerated function
   does not return what the specification prescribes *)
Definition spec_bad (m s d : Z) (vals : list Z) : list (list Z) :=
  match fmt_of_code s, fmt_of_code d with
  | Some fs, Some fd =>
    flat_map (fun v => let o := obs_of (to_sample (mode_of m) fs fd v) in
                       if zl_eqb o [0; spec_conv fs fd v] then [] else [v :: spec_conv fs fd v :: o]) vals
  | _, _ => [[-1]]
  end.
