(* C15 — model of the custom-width integer sample types of dasp_sample/src/types.rs
   (macro new_sample_type!, impl_neg!, impl_from!), written after the source.

   A type is a [row] of the table generated from the eight macro invocations
   (coq/gen/TypesTable.v).  Values of the newtype are the Z value of its Rep field.
   Definitions only; proofs are in TypesProofs.v. *)
Require Import List ZArith Bool String.
From Dasp Require Import Base.Res.
Import ListNotations.
Open Scope Z_scope.

(* ---- machine integers (own copy; Base/Rint.v belongs to another property) ---- *)

(* a primitive integer type: (signed?, bits) *)
Definition ity : Type := (bool * Z)%type.
Definition imin (t : ity) : Z := if fst t then - 2 ^ (snd t - 1) else 0.
Definition imax (t : ity) : Z := if fst t then 2 ^ (snd t - 1) - 1 else 2 ^ snd t - 1.
Definition in_ity (t : ity) (z : Z) : bool := (imin t <=? z) && (z <=? imax t).
(* two's-complement reduction: [as] casts, and + - * unary- without overflow checks *)
Definition iwrap (t : ity) (z : Z) : Z :=
  if fst t then (z + 2 ^ (snd t - 1)) mod 2 ^ snd t - 2 ^ (snd t - 1) else z mod 2 ^ snd t.

(* ---- build configuration ----
   cfg!(debug_assertions) selects the branch inside add/sub/mul/neg;
   overflow-checks decides whether a primitive + - * unary- on the Rep panics or wraps.
   The two Cargo profiles: dev = both on, release = both off. *)
Record cfg := mkCfg { debug_assertions : bool; overflow_checks : bool }.
Definition dev : cfg := mkCfg true true.
Definition release : cfg := mkCfg false false.
Definition profile (dbg : bool) : cfg := mkCfg dbg dbg.

(* result of a primitive arithmetic operator at type t whose exact result is z.
   [prim_in] takes the bounds of t precomputed (lo = imin t, hi = imax t), so that the loops
   below do not recompute 2^63 at every iteration when the model is executed. *)
Definition prim_in (oc : bool) (t : ity) (lo hi : Z) (z : Z) : res Z :=
  if (lo <=? z) && (z <=? hi) then Ok z
  else if oc then Panic POverflow else Ok (iwrap t z).
Definition prim (c : cfg) (t : ity) (z : Z) : res Z :=
  prim_in (overflow_checks c) t (imin t) (imax t) z.

(* ---- table rows ---- *)

Inductive src :=
| SPrim (signed : bool) (bits : Z)                      (* `from: u8`        : $T(other as $Rep) *)
| SCustom (nm : string) (usigned : bool) (ubits : Z).   (* `from: {I11:i16}` : $T(other.inner() as $Rep) *)

Record row := mkRow {
  tname : string;        (* $T *)
  nbits : Z;             (* the number in the type's name (the only place the source states the width) *)
  tsigned : bool;        (* name starts with I *)
  rep_signed : bool;     (* $Rep *)
  rep_bits : Z;
  eqv : Z;               (* eq: *)
  rmin : Z;              (* min: *)
  rmax : Z;              (* max: *)
  total : Z;             (* total: *)
  froms : list src;      (* from: *)
  has_neg : bool         (* impl_neg!($T) present *)
}.

Definition rep (r : row) : ity := (rep_signed r, rep_bits r).
Definition in_rangeb (r : row) (v : Z) : bool := (rmin r <=? v) && (v <=? rmax r).
Definition in_range (r : row) (v : Z) : Prop := rmin r <= v <= rmax r.

(* ---- the newtype's functions ---- *)

(* pub fn new(val) -> Option<Self> { if val > MAX_REP || val < MIN_REP { None } else { Some($T(val)) } } *)
Definition new (r : row) (v : Z) : option Z :=
  if (v >? rmax r) || (v <? rmin r) then None else Some v.

(* fn wrap_overflow_once(self):
     if self.0 > MAX_REP { $T(self.0 - TOTAL) } else if self.0 < MIN_REP { $T(self.0 + TOTAL) } else { self } *)
Definition wrap_overflow_once (c : cfg) (r : row) (v : Z) : res Z :=
  if v >? rmax r then prim c (rep r) (v - total r)
  else if v <? rmin r then prim c (rep r) (v + total r)
  else Ok v.

(* fn wrap_overflow(mut self):
     while self.0 > MAX_REP { self.0 -= TOTAL; }
     while self.0 < MIN_REP { self.0 += TOTAL; }
   [None] = the fuel ran out (the theorems show it never does with [fuel_for]). *)
Section Loops.
  (* oc = overflow checks; t lo hi = the Rep type and its bounds; mn mx tot = MIN_REP MAX_REP TOTAL *)
  Variables (oc : bool) (t : ity) (lo hi mn mx tot : Z).

  Fixpoint loop_down (fuel : nat) (v : Z) : option (res Z) :=
    if v >? mx then
      match fuel with
      | O => None
      | S f => match prim_in oc t lo hi (v - tot) with
               | Ok v' => loop_down f v'
               | Panic k => Some (Panic k)
               | UB => Some UB
               end
      end
    else Some (Ok v).

  Fixpoint loop_up (fuel : nat) (v : Z) : option (res Z) :=
    if v <? mn then
      match fuel with
      | O => None
      | S f => match prim_in oc t lo hi (v + tot) with
               | Ok v' => loop_up f v'
               | Panic k => Some (Panic k)
               | UB => Some UB
               end
      end
    else Some (Ok v).
End Loops.

Definition wrap_overflow_fuel (c : cfg) (r : row) (fuel : nat) (v : Z) : option (res Z) :=
  let t := rep r in
  let lo := imin t in
  let hi := imax t in
  match loop_down (overflow_checks c) t lo hi (rmax r) (total r) fuel v with
  | Some (Ok v1) => loop_up (overflow_checks c) t lo hi (rmin r) (total r) fuel v1
  | x => x
  end.

Definition fuel_for (r : row) (v : Z) : nat := Z.to_nat (Z.abs v / Z.max 1 (total r) + 2).

(* impl From<$Rep> for $T { fn from(val) { $T(val).wrap_overflow() } };  UB stands for "does not terminate within the fuel" *)
Definition from_rep (c : cfg) (r : row) (v : Z) : res Z :=
  match wrap_overflow_fuel c r (fuel_for r v) v with
  | Some x => x
  | None => UB
  end.

Inductive binop := OAdd | OSub | OMul.
Definition exact (o : binop) (a b : Z) : Z :=
  match o with OAdd => a + b | OSub => a - b | OMul => a * b end.

Definition expect_new (r : row) (v : Z) : res Z :=
  match new r v with Some x => Ok x | None => Panic PExpect end.

(* fn add/sub(self, other) { if cfg!(debug_assertions) { $T::new(self.0 OP other.0).expect(..) }
                             else { $T(self.0 OP other.0).wrap_overflow_once() } }
   fn mul(self, other)     { if cfg!(debug_assertions) {
                                 self.0.checked_mul(other.0).and_then($T::new).expect(..) }
                             else { $T::from(self.0.wrapping_mul(other.0)) } }
   (Mul as of /repo 45c5fdf: checked_mul = None when the product does not fit the Rep, whatever the
    overflow-checks setting; wrapping_mul = two's-complement reduction, whatever the setting) *)
Definition arith (c : cfg) (r : row) (o : binop) (a b : Z) : res Z :=
  match o with
  | OAdd | OSub =>
      let* s := prim c (rep r) (exact o a b) in
      if debug_assertions c then expect_new r s else wrap_overflow_once c r s
  | OMul =>
      if debug_assertions c then
        (if in_ity (rep r) (a * b) then expect_new r (a * b) else Panic PExpect)
      else from_rep c r (iwrap (rep r) (a * b))
  end.

(* impl_neg!: fn neg(self) { if cfg!(debug_assertions) { $T::new(-self.0).expect(..) }
                            else { $T(-self.0).wrap_overflow_once() } }
   (only for the rows with has_neg; the model function itself does not look at the flag) *)
Definition neg (c : cfg) (r : row) (a : Z) : res Z :=
  let* s := prim c (rep r) (- a) in
  if debug_assertions c then expect_new r s else wrap_overflow_once c r s.

(* impl_from!: $T(other as $Rep)  /  $T(other.inner() as $Rep) — an `as` cast, never a panic, no range check *)
Definition from_src (r : row) (s : src) (v : Z) : Z := iwrap (rep r) v.

(* values a source of a widening From can take *)
Fixpoint find_row (tbl : list row) (nm : string) : option row :=
  match tbl with
  | [] => None
  | r :: t => if String.eqb (tname r) nm then Some r else find_row t nm
  end.

Definition src_range (tbl : list row) (s : src) : option (Z * Z) :=
  match s with
  | SPrim sg b => Some (imin (sg, b), imax (sg, b))
  | SCustom nm _ _ => match find_row tbl nm with Some u => Some (rmin u, rmax u) | None => None end
  end.

(* #[derive(PartialEq, Eq, PartialOrd, Ord)] on `struct $T($Rep)`: comparison of the single field *)
Definition t_eq (a b : Z) : bool := a =? b.
Definition t_lt (a b : Z) : bool := a <? b.
Definition t_le (a b : Z) : bool := a <=? b.
Definition t_gt (a b : Z) : bool := a >? b.
Definition t_ge (a b : Z) : bool := a >=? b.
Definition t_cmp (a b : Z) : comparison := a ?= b.
