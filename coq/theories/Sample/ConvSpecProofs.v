(* Consequences of the specification ConvSpec.spec_conv alone, for all formats
   parametrically (no case analysis over the twelve formats except to learn
   [bits f >= 1]).  Nothing here mentions the generated code. *)
Require Import ZArith Bool Lia.
From Dasp Require Import Sample.ConvSpec.
Open Scope Z_scope.

Definition offset (f : fmt) : Z := if signed f then 0 else half f.

Lemma bits_pos f : 1 <= bits f.
Proof. destruct f; cbn; lia. Qed.

Lemma half_pos f : 0 < half f.
Proof. unfold half. apply Z.pow_pos_nonneg; [lia | pose proof (bits_pos f); lia]. Qed.

Lemma pow_bits f : 2 ^ bits f = 2 * half f.
Proof.
  unfold half. pose proof (bits_pos f).
  replace (bits f) with (1 + (bits f - 1)) at 1 by lia.
  rewrite Z.pow_add_r by lia. reflexivity.
Qed.

Lemma amp_offset f z : amp f z = z - offset f.
Proof. unfold amp, offset. destruct (signed f); lia. Qed.

Lemma equilibrium_offset f : equilibrium f = offset f.
Proof. reflexivity. Qed.

Lemma spec_conv_eq s d z : spec_conv s d z = (z - offset s) * 2 ^ bits d / 2 ^ bits s + offset d.
Proof. unfold spec_conv. rewrite amp_offset. reflexivity. Qed.

Lemma in_range_amp f z : in_range f z <-> - half f <= amp f z < half f.
Proof. unfold in_range, fmin, fmax, amp. destruct (signed f); lia. Qed.

(* ---- the scaling floor(A * 2^bd / 2^bs) ---- *)
Definition scale (bs bd A : Z) : Z := A * 2 ^ bd / 2 ^ bs.

Lemma pow2_pos k : 0 <= k -> 0 < 2 ^ k.
Proof. intros; apply Z.pow_pos_nonneg; lia. Qed.

Lemma pow2_split a b : 0 <= a <= b -> 2 ^ b = 2 ^ (b - a) * 2 ^ a.
Proof. intros H. rewrite <- Z.pow_add_r by lia. f_equal; lia. Qed.

Lemma scale_widen bs bd A : 0 <= bs <= bd -> scale bs bd A = A * 2 ^ (bd - bs).
Proof.
  intros H. unfold scale. rewrite (pow2_split bs bd H), Z.mul_assoc.
  apply Z.div_mul. pose proof (pow2_pos bs); lia.
Qed.

Lemma scale_narrow bs bd A : 0 <= bd <= bs -> scale bs bd A = A / 2 ^ (bs - bd).
Proof.
  intros H. unfold scale. rewrite (pow2_split bd bs H).
  apply Z.div_mul_cancel_r; [pose proof (pow2_pos (bs - bd)) | pose proof (pow2_pos bd)]; lia.
Qed.

Lemma scale_range hs hd A : 0 < hs -> 0 < hd -> - hs <= A < hs ->
  - hd <= A * (2 * hd) / (2 * hs) < hd.
Proof.
  intros Hs Hd HA. split.
  - apply Z.div_le_lower_bound; nia.
  - apply Z.div_lt_upper_bound; nia.
Qed.

Lemma scale_scale bs bm bd A : 0 <= bs -> 0 <= bm -> 0 <= bd -> Z.min bs bd <= bm ->
  scale bm bd (scale bs bm A) = scale bs bd A.
Proof.
  intros Hs Hm Hd Hmin.
  destruct (Z.le_gt_cases bs bm) as [Hsm | Hms].
  - (* widen first: exact *)
    rewrite (scale_widen bs bm) by lia. unfold scale.
    rewrite (pow2_split bs bm) by lia.
    replace (A * 2 ^ (bm - bs) * 2 ^ bd) with (A * 2 ^ bd * 2 ^ (bm - bs)) by ring.
    rewrite (Z.mul_comm (2 ^ (bm - bs)) (2 ^ bs)).
    apply Z.div_mul_cancel_r; [pose proof (pow2_pos bs) | pose proof (pow2_pos (bm - bs))]; lia.
  - (* bm < bs, hence bd <= bm: two narrowings compose *)
    assert (Hdm : bd <= bm) by lia.
    rewrite (scale_narrow bs bm), (scale_narrow bm bd), (scale_narrow bs bd) by lia.
    rewrite Z.div_div; [ | pose proof (pow2_pos (bs - bm)); lia | apply pow2_pos; lia ].
    rewrite <- Z.pow_add_r by lia. do 2 f_equal. lia.
Qed.

(* ---- the consequences ---- *)

(* every result is a valid value of the target format (what new_unchecked relies on for 24/48 bits) *)
Lemma spec_in_range s d z : in_range s z -> in_range d (spec_conv s d z).
Proof.
  intros H. apply in_range_amp in H. apply in_range_amp.
  assert (E : amp d (spec_conv s d z) = amp s z * (2 * half d) / (2 * half s)).
  { unfold spec_conv. rewrite !pow_bits. unfold amp at 1. destruct (signed d); lia. }
  rewrite E. apply scale_range; auto using half_pos.
Qed.

Lemma spec_monotone s d z1 z2 : z1 <= z2 -> spec_conv s d z1 <= spec_conv s d z2.
Proof.
  intros H. unfold spec_conv. apply Z.add_le_mono_r. apply Z.div_le_mono.
  - apply pow2_pos. pose proof (bits_pos s); lia.
  - apply Z.mul_le_mono_nonneg_r; [pose proof (pow2_pos (bits d)); pose proof (bits_pos d); lia | ].
    rewrite !amp_offset. lia.
Qed.

Lemma spec_equilibrium s d : spec_conv s d (equilibrium s) = equilibrium d.
Proof.
  rewrite spec_conv_eq, !equilibrium_offset. rewrite Z.sub_diag, Z.mul_0_l, Z.div_0_l; [unfold equilibrium, offset; lia | ].
  pose proof (pow2_pos (bits s)); pose proof (bits_pos s); lia.
Qed.

Lemma spec_min s d : spec_conv s d (fmin s) = fmin d.
Proof.
  unfold spec_conv. rewrite !pow_bits.
  assert (E : amp s (fmin s) = - half s) by (unfold amp, fmin; destruct (signed s); lia).
  rewrite E. replace (- half s * (2 * half d)) with (- half d * (2 * half s)) by ring.
  rewrite Z.div_mul by (pose proof (half_pos s); lia).
  unfold fmin. destruct (signed d); lia.
Qed.

Lemma amp_max s : amp s (fmax s) = half s - 1.
Proof. unfold amp, fmax; destruct (signed s); lia. Qed.

Lemma half_split s d : bits d <= bits s -> half s = half d * 2 ^ (bits s - bits d).
Proof.
  intros H. unfold half. pose proof (bits_pos d).
  rewrite <- Z.pow_add_r by lia. f_equal; lia.
Qed.

(* narrowing (or equal width): MAX goes to MAX *)
Lemma spec_max_narrow s d : bits d <= bits s -> spec_conv s d (fmax s) = fmax d.
Proof.
  intros H. unfold spec_conv. rewrite amp_max.
  pose proof (bits_pos d). pose proof (bits_pos s).
  change (scale (bits s) (bits d) (half s - 1) + (if signed d then 0 else half d) = fmax d).
  rewrite scale_narrow by lia. rewrite (half_split s d H).
  set (k := 2 ^ (bits s - bits d)).
  assert (Hk : 0 < k) by (apply pow2_pos; lia).
  replace (half d * k - 1) with ((half d - 1) * k + (k - 1)) by ring.
  rewrite Z.div_add_l by lia. rewrite Z.div_small by lia.
  unfold fmax. destruct (signed d); lia.
Qed.

(* widening: MAX goes to the largest multiple of the step 2^(bits d - bits s) below 2^(bits d - 1),
   which is MAX of the target minus (step - 1): NOT the target's MAX unless the widths are equal *)
Lemma spec_max_widen s d : bits s <= bits d ->
  spec_conv s d (fmax s) = fmax d - (2 ^ (bits d - bits s) - 1).
Proof.
  intros H. unfold spec_conv. rewrite amp_max.
  pose proof (bits_pos d). pose proof (bits_pos s).
  change (scale (bits s) (bits d) (half s - 1) + (if signed d then 0 else half d) = fmax d - (2 ^ (bits d - bits s) - 1)).
  rewrite scale_widen by lia. rewrite (half_split d s H).
  unfold fmax. rewrite (half_split d s H). destruct (signed d); lia.
Qed.

(* widening is lossless: narrowing back returns the input (any z) *)
Lemma spec_widen_lossless s d z : bits s <= bits d -> spec_conv d s (spec_conv s d z) = z.
Proof.
  intros H. pose proof (bits_pos s).
  rewrite (spec_conv_eq d s), (spec_conv_eq s d).
  replace ((z - offset s) * 2 ^ bits d / 2 ^ bits s + offset d - offset d)
    with (scale (bits s) (bits d) (z - offset s)) by (unfold scale; lia).
  rewrite scale_widen by lia.
  change ((z - offset s) * 2 ^ (bits d - bits s) * 2 ^ bits s / 2 ^ bits d)
    with (scale (bits d) (bits s) ((z - offset s) * 2 ^ (bits d - bits s))).
  rewrite scale_narrow by lia.
  rewrite Z.div_mul by (pose proof (pow2_pos (bits d - bits s)); lia). lia.
Qed.

Lemma spec_widen_injective s d z1 z2 : bits s <= bits d ->
  spec_conv s d z1 = spec_conv s d z2 -> z1 = z2.
Proof.
  intros H E. rewrite <- (spec_widen_lossless s d z1 H), <- (spec_widen_lossless s d z2 H). now rewrite E.
Qed.

(* converting through an intermediate format at least as wide as the narrower endpoint *)
Lemma spec_via s m d z : Z.min (bits s) (bits d) <= bits m ->
  spec_conv m d (spec_conv s m z) = spec_conv s d z.
Proof.
  intros H. pose proof (bits_pos s). pose proof (bits_pos m). pose proof (bits_pos d).
  rewrite (spec_conv_eq m d), (spec_conv_eq s m), (spec_conv_eq s d).
  replace ((z - offset s) * 2 ^ bits m / 2 ^ bits s + offset m - offset m)
    with (scale (bits s) (bits m) (z - offset s)) by (unfold scale; lia).
  change (scale (bits m) (bits d) (scale (bits s) (bits m) (z - offset s)) + offset d =
          scale (bits s) (bits d) (z - offset s) + offset d).
  rewrite scale_scale by lia. reflexivity.
Qed.

(* the statement's "rounded toward negative infinity when narrowing", in the usual floor form *)
Lemma spec_floor s d z : bits d <= bits s ->
  let k := 2 ^ (bits s - bits d) in
  let r := spec_conv s d z - offset d in
  r * k <= amp s z < (r + 1) * k.
Proof.
  intros H k r. pose proof (bits_pos d).
  assert (Hk : 0 < k) by (apply pow2_pos; lia).
  assert (E : r = amp s z / k).
  { unfold r. rewrite spec_conv_eq, <- (amp_offset s).
    replace (amp s z * 2 ^ bits d / 2 ^ bits s + offset d - offset d) with (scale (bits s) (bits d) (amp s z))
      by (unfold scale; lia).
    apply scale_narrow; lia. }
  rewrite E. pose proof (Z.div_mod (amp s z) k ltac:(lia)). pose proof (Z.mod_pos_bound (amp s z) k Hk). nia.
Qed.

(* ... and "multiplied by 2^(target bits - source bits)" exactly when widening *)
Lemma spec_widen_exact s d z : bits s <= bits d ->
  amp d (spec_conv s d z) = amp s z * 2 ^ (bits d - bits s).
Proof.
  intros H. pose proof (bits_pos s).
  rewrite (amp_offset d), spec_conv_eq, <- (amp_offset s).
  replace (amp s z * 2 ^ bits d / 2 ^ bits s + offset d - offset d) with (scale (bits s) (bits d) (amp s z))
    by (unfold scale; lia).
  apply scale_widen; lia.
Qed.
