(* Non-vacuity for C02: concrete, non-trivial inputs meeting the hypotheses of the theorems,
   evaluated on the generated code (floats shown as IEEE bit patterns through obs_f32 / obs_f64:
   [0; bits] = returned that float, no panic). *)
Require Import Floats.SpecFloat.
Require Import ZArith Bool Lia Reals List.
From Flocq Require Import Core BinarySingleNaN.
From Dasp Require Import Base.Res Base.Float Sample.Rint Sample.ConvSpec Sample.ConvRun Sample.ConvFloatRun
  Sample.ConvFloatSpec Sample.ConvFloatTheorems.
From DaspGen Require Import ConvGen ConvFloatGen.
Import ListNotations.
Open Scope Z_scope.

(* integer wider than the mantissa: 2^24 + 1 is rounded (tie to even, down) to 2^24, then scaled
   exactly: 2^24 / 2^31 = 2^-7 = 0x3C000000; 2^24 + 3 rounds up to 2^24 + 4 *)
Example ex_i32_f32_rounds :
  in_range FI32 16777217 /\ 24 < bits FI32 /\
  obs_f32 (to_sample_f32_of_int Checked FI32 16777217) = [0; 1006632960] /\
  obs_f32 (to_sample_f32_of_int Checked FI32 16777219) = [0; 1006632962] /\
  obs_f32 (to_sample_f32_of_int Wrapping FI32 16777217) = [0; 1006632960].
Proof. unfold in_range; vm_compute; intuition congruence. Qed.

(* unsigned source, through the signed twin: u8 200 -> amplitude 72 -> 72/128 = 0.5625 (exact: 8 <= 53) *)
Example ex_u8_f64_exact :
  in_range FU8 200 /\ bits FU8 <= 53 /\ amp FU8 200 = 72 /\
  obs_f64 (to_sample_f64_of_int Checked FU8 200) = [0; 4603241769126068224].
Proof. unfold in_range; vm_compute; intuition congruence. Qed.

(* the extremes: MIN -> -1.0 exactly; u64::MAX (amplitude 2^63 - 1) rounds UP to +1.0 in f32: the
   result range is the closed interval [-1, 1] *)
Example ex_extremes :
  obs_f32 (to_sample_f32_of_int Checked FI24 (-8388608)) = [0; 3212836864] /\
  in_range FU64 18446744073709551615 /\
  obs_f32 (to_sample_f32_of_int Checked FU64 18446744073709551615) = [0; 1065353216] /\
  obs_f32 (to_sample_f32_of_int Checked FU64 9223372036854775808) = [0; 0].
Proof. unfold in_range; vm_compute; intuition congruence. Qed.

(* float -> integer: -0.7f32 = -0.699999988...; * 32768 = -22937.5996...: truncation toward zero gives
   -22937 (floor would give -22938); unsigned target re-offset: 9831 *)
Example ex_f32_i16_trunc :
  in_domain 24 128 (F32.of_bits 3207803699) /\
  to_sample_int_of_f32 Checked FI16 (F32.of_bits 3207803699) = Ok (-22937) /\
  to_sample_int_of_f32 Checked FU16 (F32.of_bits 3207803699) = Ok 9831 /\
  to_sample_int_of_f32 Wrapping FU16 (F32.of_bits 3207803699) = Ok 9831 /\
  f2i_val 24 128 FU16 (F32.of_bits 3207803699) = 9831.
Proof.
  assert (D : in_domain 24 128 (F32.of_bits 3207803699)) by (apply dom_b_ok; vm_compute; reflexivity).
  split; [exact D|]. split; [vm_compute; reflexivity|]. split; [vm_compute; reflexivity|]. split; [vm_compute; reflexivity|].
  pose proof (of_f32_value Checked FU16 _ D) as H.
  assert (E : to_sample_int_of_f32 Checked FU16 (F32.of_bits 3207803699) = Ok 9831) by (vm_compute; reflexivity).
  rewrite E in H. now inversion H.
Qed.

(* the largest float below 1 (1 - 2^-24) into a 24-bit and a 48-bit format: in range *)
Example ex_just_below_one :
  in_domain 24 128 (F32.of_bits 1065353215) /\
  to_sample_int_of_f32 Checked FI24 (F32.of_bits 1065353215) = Ok 8388607 /\
  to_sample_int_of_f32 Checked FU48 (F32.of_bits 1065353215) = Ok 281474968322048 /\
  in_range FU48 281474968322048.
Proof.
  split; [apply dom_b_ok; vm_compute; reflexivity|].
  unfold in_range; vm_compute; intuition congruence.
Qed.

(* -1.0 -> MIN and 0.0 / -0.0 -> equilibrium *)
Example ex_minus_one_and_zero :
  in_domain 53 1024 (F64.of_bits 13830554455654793216) /\
  to_sample_int_of_f64 Checked FI48 (F64.of_bits 13830554455654793216) = Ok (fmin FI48) /\
  to_sample_int_of_f64 Checked FU8 (F64.of_bits 13830554455654793216) = Ok 0 /\
  to_sample_int_of_f64 Checked FU8 (F64.of_bits 9223372036854775808) = Ok 128.
Proof.
  split; [apply dom_b_ok; vm_compute; reflexivity|].
  vm_compute; intuition congruence.
Qed.

(* round trip where the integer -> float conversion is exact (16 <= 24), unsigned, mid-range *)
Example ex_roundtrip :
  bits FU16 <= 24 /\ in_range FU16 12345 /\
  bind (to_sample_f32_of_int Checked FU16 12345) (to_sample_int_of_f32 Checked FU16) = Ok 12345.
Proof. unfold in_range; vm_compute; intuition congruence. Qed.

(* a 32-bit value with few significant bits converts exactly although 32 > 24, and comes back *)
Example ex_roundtrip_pointwise :
  in_range FI32 (-50331648) /\
  bind (to_sample_f32_of_int Checked FI32 (-50331648)) (to_sample_int_of_f32 Checked FI32) = Ok (-50331648).
Proof. unfold in_range; vm_compute; intuition congruence. Qed.

(* ... and the hypothesis is needed: i32 -> f32 -> i32 does not return 2^24 + 1 *)
Example ex_roundtrip_needs_exactness :
  bind (to_sample_f32_of_int Checked FI32 16777217) (to_sample_int_of_f32 Checked FI32) = Ok 16777216.
Proof. vm_compute; reflexivity. Qed.

(* f64 -> f32 rounds (0.1 is not representable in either; the f32 nearest to the f64 0.1 is 0x3DCCCCCD),
   f32 -> f64 is exact *)
Example ex_f64_f32 :
  is_finite (F64.of_bits 4591870180066957722) = true /\
  obs_f32 (to_sample_f64_f32 Checked (F64.of_bits 4591870180066957722)) = [0; 1036831949] /\
  obs_f64 (to_sample_f32_f64 Checked (F32.of_bits 1036831949)) = [0; 4591870180174331904].
Proof. vm_compute; intuition congruence. Qed.

(* OUTSIDE the documented domain nothing is claimed; the model shows what Rust (>= 1.45) does:
   the cast saturates (1.0 -> i16::MAX), and the 24-bit path produces an out-of-range I24 *)
Example ex_outside_domain :
  to_sample_int_of_f32 Checked FI16 (F32.of_bits 1065353216) = Ok 32767 /\
  to_sample_int_of_f32 Checked FI24 (F32.of_bits 1065353216) = Ok 8388608 /\ ~ in_range FI24 8388608.
Proof. unfold in_range; vm_compute; intuition congruence. Qed.
