(* Specification of integer <-> integer sample conversion (property C01):
   the twelve integer sample formats and "exact power-of-two amplitude rescaling,
   rounded toward negative infinity when narrowing".  Definitions only; the
   consequences (in-range, monotone, ...) are proved in ConvSpecProofs.v from
   these definitions alone. *)
Require Import ZArith Bool.
Open Scope Z_scope.

Inductive fmt :=
| FI8 | FI16 | FI24 | FI32 | FI48 | FI64
| FU8 | FU16 | FU24 | FU32 | FU48 | FU64.

Definition bits (f : fmt) : Z :=
  match f with
  | FI8 | FU8 => 8 | FI16 | FU16 => 16 | FI24 | FU24 => 24
  | FI32 | FU32 => 32 | FI48 | FU48 => 48 | FI64 | FU64 => 64
  end.
Definition signed (f : fmt) : bool :=
  match f with FI8 | FI16 | FI24 | FI32 | FI48 | FI64 => true | _ => false end.

Definition half (f : fmt) : Z := 2 ^ (bits f - 1).
Definition fmin (f : fmt) : Z := if signed f then - half f else 0.
Definition fmax (f : fmt) : Z := if signed f then half f - 1 else 2 * half f - 1.
Definition in_range (f : fmt) (z : Z) : Prop := fmin f <= z <= fmax f.
(* the value that represents silence: 0 for signed, half-range for offset-unsigned *)
Definition equilibrium (f : fmt) : Z := if signed f then 0 else half f.

(* signed amplitude of a value: value minus half-range for unsigned formats *)
Definition amp (f : fmt) (z : Z) : Z := if signed f then z else z - half f.

(* amplitude * 2^(bits d - bits s), rounded toward negative infinity
   ([Z./] is floor division for a positive divisor), re-offset for the target *)
Definition spec_conv (s d : fmt) (z : Z) : Z :=
  amp s z * 2 ^ bits d / 2 ^ bits s + (if signed d then 0 else half d).

Definition fmt_eq_dec (a b : fmt) : {a = b} + {a <> b}.
Proof. decide equality. Defined.

Definition all_fmts : list fmt :=
  (FI8 :: FI16 :: FI24 :: FI32 :: FI48 :: FI64 :: FU8 :: FU16 :: FU24 :: FU32 :: FU48 :: FU64 :: nil)%list.

Definition fmt_code (f : fmt) : Z :=
  match f with
  | FI8 => 0 | FI16 => 1 | FI24 => 2 | FI32 => 3 | FI48 => 4 | FI64 => 5
  | FU8 => 6 | FU16 => 7 | FU24 => 8 | FU32 => 9 | FU48 => 10 | FU64 => 11
  end.
Definition fmt_of_code (c : Z) : option fmt :=
  match c with
  | 0 => Some FI8 | 1 => Some FI16 | 2 => Some FI24 | 3 => Some FI32 | 4 => Some FI48 | 5 => Some FI64
  | 6 => Some FU8 | 7 => Some FU16 | 8 => Some FU24 | 9 => Some FU32 | 10 => Some FU48 | 11 => Some FU64
  | _ => None
  end.
