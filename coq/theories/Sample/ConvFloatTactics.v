(* The lemmas and tactics applied to the generated float conversions (gen/ConvFloatProofs_*.v).
   Hand-written; nothing here depends on gen/ConvFloatGen.v.  The four shapes conv.rs uses:

     signed integer -> float      Ok (div (of_Z z) c)                      c = 2^(bits-1) as a literal
     unsigned integer -> float    let* x := <to the signed twin> in <signed twin -> float> x
     float -> signed integer      Ok (to_Z_sat lo hi (mul f c))            [lo,hi] = range of the cast's target
     float -> unsigned integer    let* x := <float -> signed twin> in <signed twin -> unsigned> x

   The integer twin conversions are those of C01: [to_sample m s d z = Ok (spec_conv s d z)]
   (Sample/ConvTheorems.v, itself about the code generated from conv.rs). *)
Require Import Floats.SpecFloat.
Require Import ZArith Bool Lia Reals Lra.
From Flocq Require Import Core BinarySingleNaN.
From Dasp Require Import Base.Res Base.Float Base.FloatLemmas Sample.Rint Sample.ConvSpec Sample.ConvSpecProofs
  Sample.ConvTheorems Sample.ConvFloatSpec.
From DaspGen Require Import ConvGen.
Open Scope Z_scope.

Lemma bits_le_64 i : bits i <= 64.
Proof. destruct i; cbn; lia. Qed.

Lemma bits_twin i : bits (twin i) = bits i.
Proof. destruct i; reflexivity. Qed.

Lemma signed_twin i : signed (twin i) = true.
Proof. destruct i; reflexivity. Qed.

Lemma half_twin i : half (twin i) = half i.
Proof. unfold half. now rewrite bits_twin. Qed.

Lemma in_range_signed_abs i z : signed i = true -> in_range i z -> Z.abs z <= 2 ^ (bits i - 1).
Proof. unfold in_range, fmin, fmax, half. intros ->. lia. Qed.

(* unsigned -> signed twin: the amplitude; signed twin -> unsigned: plus half range *)
Lemma spec_to_twin i z : spec_conv i (twin i) z = amp i z.
Proof.
  unfold spec_conv. rewrite bits_twin, signed_twin, Z.div_mul; [lia|].
  pose proof (bits_pos i). apply Z.pow_nonzero; lia.
Qed.

Lemma spec_from_twin i x : signed i = false -> spec_conv (twin i) i x = x + half i.
Proof.
  intros Hs. unfold spec_conv, amp. rewrite bits_twin, signed_twin, Hs, Z.div_mul; [lia|].
  pose proof (bits_pos i). apply Z.pow_nonzero; lia.
Qed.

Lemma amp_twin i x : amp (twin i) x = x.
Proof. unfold amp. now rewrite signed_twin. Qed.

Section G.
Variables prec emax : Z.
Context (prec_gt_0_ : Prec_gt_0 prec).
Context (prec_lt_emax_ : Prec_lt_emax prec emax).
Hypothesis Hprec : 2 <= prec <= 64.
Hypothesis Hemax : 64 < emax.
Notation bf := (BinarySingleNaN.binary_float prec emax).
Notation of_int := (gof_Z prec emax prec_gt_0_ prec_lt_emax_).
Notation fmul := (gmul prec emax prec_gt_0_ prec_lt_emax_).
Notation fdiv := (gdiv prec emax prec_gt_0_ prec_lt_emax_).
Notation ispow2 := (is_pow2 prec emax).

Lemma i2f_signed (i : fmt) (z : Z) (c : bf) :
  signed i = true -> ispow2 c (bits i - 1) = true -> in_range i z ->
  i2f_spec prec emax i z (Ok (fdiv (of_int z) c)).
Proof.
  intros Hs Hc Hr. pose proof (bits_pos i). pose proof (bits_le_64 i).
  destruct (of_int_div_pow2 prec emax prec_gt_0_ prec_lt_emax_ Hprec Hemax z (bits i - 1) c) as (E & _ & Fin);
    [lia | exact Hc | now apply in_range_signed_abs |].
  exists (fdiv (of_int z) c). repeat split; [exact Fin|].
  unfold amp. rewrite Hs. exact E.
Qed.

Lemma i2f_unsigned (m : mode) (i : fmt) (z : Z) (g : res Z) (h : Z -> res bf) :
  signed i = false -> g = to_sample m i (twin i) z -> in_range i z ->
  (forall x, in_range (twin i) x -> i2f_spec prec emax (twin i) x (h x)) ->
  i2f_spec prec emax i z (bind g h).
Proof.
  intros Hs -> Hr Hh. rewrite (to_sample_correct_all m i (twin i) z Hr). cbn [bind].
  assert (Hr' : in_range (twin i) (spec_conv i (twin i) z)) by now apply spec_in_range.
  destruct (Hh _ Hr') as (f & E & Fin & V). exists f. repeat split; [exact E | exact Fin |].
  rewrite V, amp_twin, spec_to_twin. unfold fscale. now rewrite bits_twin.
Qed.

Lemma f2i_signed (i : fmt) (f c : bf) (lo hi : Z) :
  signed i = true -> ispow2 c (bits i - 1) = true -> lo <= fmin i -> fmax i <= hi -> in_domain prec emax f ->
  Ok (gto_Z_sat prec emax lo hi (fmul f c)) = Ok (f2i_val prec emax i f).
Proof.
  intros Hs Hc Hlo Hhi [Fin Dom]. pose proof (bits_pos i). pose proof (bits_le_64 i).
  unfold fmin, fmax, half in *. rewrite Hs in *.
  destruct (mul_pow2_trunc prec emax prec_gt_0_ prec_lt_emax_ Hprec Hemax f c (bits i - 1) lo hi) as [E _];
    [lia | exact Fin | exact Hc | exact Dom | lia | lia |].
  unfold f2i_val, fscale. rewrite Hs, E. f_equal. lia.
Qed.

Lemma f2i_val_in_range (i : fmt) (f : bf) : in_domain prec emax f -> in_range i (f2i_val prec emax i f).
Proof.
  intros [Fin Dom]. pose proof (bits_pos i).
  pose proof (Ztrunc_scaled_range (B2R f) (bits i - 1) ltac:(lia) Dom) as R.
  unfold in_range, f2i_val, fscale, fmin, fmax, half. destruct (signed i); lia.
Qed.

Lemma f2i_unsigned (m : mode) (i : fmt) (f : bf) (g : res Z) (h : Z -> res Z) :
  signed i = false -> g = Ok (f2i_val prec emax (twin i) f) -> (forall x, h x = to_sample m (twin i) i x) ->
  in_domain prec emax f -> bind g h = Ok (f2i_val prec emax i f).
Proof.
  intros Hs -> Hh Dom. cbn [bind]. rewrite Hh.
  rewrite to_sample_correct_all by now apply f2i_val_in_range.
  rewrite spec_from_twin by exact Hs. f_equal.
  unfold f2i_val, fscale. rewrite bits_twin, signed_twin, Hs. lia.
Qed.
End G.

(* ---- binary32 / binary64 instances, stated over the F32 / F64 operations the generated code uses ---- *)
Definition i2f_signed32 i z c : signed i = true -> is_pow2 24 128 c (bits i - 1) = true -> in_range i z ->
  i2f_spec 24 128 i z (Ok (F32.div (F32.of_Z z) c)) := i2f_signed 24 128 p24 pe24 prec32_ok emax32_ok i z c.
Definition i2f_signed64 i z c : signed i = true -> is_pow2 53 1024 c (bits i - 1) = true -> in_range i z ->
  i2f_spec 53 1024 i z (Ok (F64.div (F64.of_Z z) c)) := i2f_signed 53 1024 p53 pe53 prec64_ok emax64_ok i z c.
Definition i2f_unsigned32 m i z g (h : Z -> res F32.t) := i2f_unsigned 24 128 m i z g h.
Definition i2f_unsigned64 m i z g (h : Z -> res F64.t) := i2f_unsigned 53 1024 m i z g h.
Definition f2i_signed32 i (f c : F32.t) lo hi : signed i = true -> is_pow2 24 128 c (bits i - 1) = true ->
  lo <= fmin i -> fmax i <= hi -> in_domain 24 128 f ->
  Ok (F32.to_Z_sat lo hi (F32.mul f c)) = Ok (f2i_val 24 128 i f) := f2i_signed 24 128 p24 pe24 prec32_ok emax32_ok i f c lo hi.
Definition f2i_signed64 i (f c : F64.t) lo hi : signed i = true -> is_pow2 53 1024 c (bits i - 1) = true ->
  lo <= fmin i -> fmax i <= hi -> in_domain 53 1024 f ->
  Ok (F64.to_Z_sat lo hi (F64.mul f c)) = Ok (f2i_val 53 1024 i f) := f2i_signed 53 1024 p53 pe53 prec64_ok emax64_ok i f c lo hi.
Definition f2i_unsigned32 m i (f : F32.t) g h := f2i_unsigned 24 128 m i f g h.
Definition f2i_unsigned64 m i (f : F64.t) g h := f2i_unsigned 53 1024 m i f g h.

(* ---- the tactics ---- *)

(* goal: i2f_spec p e I z (fn m z) with fn a generated function *)
Ltac i2f_core m z Hr :=
  cbv beta;
  lazymatch goal with
  | |- i2f_spec _ _ _ _ (?fn _ _) => unfold fn
  end;
  first
  [ (apply i2f_signed32 || apply i2f_signed64); [reflexivity | vm_compute; reflexivity | exact Hr]
  | (eapply (i2f_unsigned32 m) || eapply (i2f_unsigned64 m));
      [ reflexivity | reflexivity | exact Hr
      | let x := fresh "x" in let Hx := fresh "Hx" in
        intros x Hx; cbn [twin] in Hx |- *; i2f_core m x Hx ] ].

(* goal: forall m z, in_range I z -> i2f_spec p e I z (to_sample_fN_of_int m I z) *)
Ltac solve_i2f :=
  let m := fresh "m" in let z := fresh "z" in let Hr := fresh "Hr" in
  intros m z Hr;
  lazymatch goal with
  | |- i2f_spec _ _ _ _ (?d _ _ _) => unfold d
  end;
  i2f_core m z Hr.

(* goal: fn m f = Ok (f2i_val p e I f) with fn a generated function *)
Ltac f2i_core m f Hd :=
  cbv beta;
  lazymatch goal with
  | |- ?fn _ _ = Ok _ => unfold fn
  end;
  first
  [ (apply f2i_signed32 || apply f2i_signed64);
      [reflexivity | vm_compute; reflexivity | vm_compute; discriminate | vm_compute; discriminate | exact Hd]
  | (eapply (f2i_unsigned32 m) || eapply (f2i_unsigned64 m));
      [ reflexivity | cbn [twin]; f2i_core m f Hd | intros; reflexivity | exact Hd ] ].

(* goal: forall m f, in_domain p e f -> to_sample_int_of_fN m I f = Ok (f2i_val p e I f) *)
Ltac solve_f2i :=
  let m := fresh "m" in let f := fresh "f" in let Hd := fresh "Hd" in
  intros m f Hd;
  lazymatch goal with
  | |- ?d _ _ _ = Ok _ => unfold d
  end;
  f2i_core m f Hd.

Ltac conv_f2f_def := intros; reflexivity.
