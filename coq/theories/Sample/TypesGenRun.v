(* Executable interface of the REGENERATED model (coq/gen/TypesOpsGen.v), with the same case and
   observation encoding as Sample/TypesRun.v.  Depends on the generated definitions only — not on the
   equivalence proof — so it still builds when Sample/TypesGenEquiv.v no longer checks; that is when it
   is used (lib/props/c15.py, DESIGN 5.1(a)): [check_gen] finds the cases on which the regenerated
   model and the hand model differ, [check_gen_obs] compares the regenerated model with the crate.
   Operations that no macro body decides (profile, consts, from-list, comparisons) are answered by the
   hand model's [run_op]. *)
Require Import List ZArith Bool String.
From Dasp Require Import Base.Res Sample.Rint Sample.TypesModel Sample.TypesGenSem Sample.TypesRun.
From DaspGen Require Import TypesTable TypesOpsGen.
Import ListNotations.
Open Scope Z_scope.

Definition enc_m (x : M Z) : list Z :=
  match x with
  | Some r => enc_res r
  | None => [-4]           (* a generated `while` loop ran out of fuel *)
  end.

Definition find_ops (nm : string) : option gops :=
  find (fun o => String.eqb (a_name (o_args o)) nm) gen_ops.

(* is v a value of the source type of a widening From? *)
Definition gsrc_in (s : gsrc) (v : Z) : bool :=
  match s with
  | GPrim t => fits t v
  | GCustom nm _ =>
      match find_ops nm with
      | Some u => (a_min (o_args u) <=? v) && (v <=? a_max (o_args u))
      | None => false
      end
  end.

Section Run.
  Variables (c : cfg) (r : row) (o : gops) (fuel : nat).
  Let p := o_args o.
  Definition inr (v : Z) : bool := (a_min p <=? v) && (v <=? a_max p).

  Definition arith_obs_gen (k : binop) (a b : Z) : list Z :=
    if inr a && inr b then
      enc_m (match k with OAdd => o_add o | OSub => o_sub o | OMul => o_mul o end c fuel a b)
    else [0].

  Definition run_op_gen (z : zop) : list Z :=
    match z with
    | ZNew v =>
        match o_new o c fuel v with
        | Some (Ok (Some x)) => [1; x]
        | Some (Ok None) => [0]
        | Some (Panic k) => [8; zn (panic_code k)]
        | Some UB => [-2]
        | None => [-4]
        end
    | ZFrom v => enc_m (o_from_rep o c fuel v)
    | ZWiden k v =>
        match nth_error (o_froms o) (Z.to_nat k) with
        | Some (s, f) => if gsrc_in s v then enc_m (f c fuel v) else [0]
        | None => [-3]
        end
    | ZArith k a b =>
        match binop_of k with
        | Some q => arith_obs_gen q a b
        | None => [-3]
        end
    | ZGrid k xs ys =>
        match binop_of k with
        | Some q => [10; fold_left (fun h a => fold_left (fun h b => hobs h (arith_obs_gen q a b)) ys h) xs 7;
                     Z.of_nat (List.length xs * List.length ys)]
        | None => [-3]
        end
    | ZNeg a =>
        match o_neg o with
        | Some f => if inr a then enc_m (f c fuel a) else [0]
        | None => [7]
        end
    | _ => run_op c r z
    end.
End Run.

Definition run_case_gen (t : tcase) : list (list Z) :=
  match t with
  | TCase da oc ty ops =>
      match nth_error types_table (Z.to_nat ty), nth_error gen_ops (Z.to_nat ty) with
      | Some r, Some o => let fuel := fuel_args (o_args o) in map (run_op_gen (mkCfg da oc) r o fuel) ops
      | _, _ => [[-3]]
      end
  end.

(* regenerated model vs hand model (no implementation involved) *)
Definition check_gen (t : tcase) : bool := zll_eqb (run_case_gen t) (run_case t).
(* regenerated model vs the crate's observations *)
Definition check_gen_obs (t : tcase * list (list Z)) : bool := zll_eqb (run_case_gen (fst t)) (snd t).
