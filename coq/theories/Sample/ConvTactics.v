(* The tactics applied to the generated conversion functions (gen/ConvProofs_*.v,
   gen/ConvTransfer.v).  Hand-written; nothing here depends on the generated code. *)
Require Import ZArith Bool Lia.
From Dasp Require Import Base.Res Sample.Rint Sample.RintProofs Sample.ConvSpec.
Open Scope Z_scope.

(* lia decides goals with division / modulo by numerals *)
Ltac Zify.zify_post_hook ::= Z.div_mod_to_equations.

Create HintDb convdb.
Create HintDb convle.

Lemma bind_Ok {A B} (a : A) (f : A -> res B) : bind (Ok a) f = f a.
Proof. reflexivity. Qed.

(* every [2 ^ k] with closed k becomes a numeral *)
Ltac pow_norm := repeat match goal with
  | |- context[2 ^ ?k] => let v := eval vm_compute in (2 ^ k) in change (2 ^ k) with v
  | H : context[2 ^ ?k] |- _ => let v := eval vm_compute in (2 ^ k) in change (2 ^ k) with v in H end.

Ltac conv_side := cbn [tmin tmax]; lia.

Ltac conv_step := first
  [ rewrite bind_Ok
  | match goal with |- context[chk ?t ?z] => rewrite (chk_ok t z) by conv_side end
  | match goal with |- context[wrap ?t ?z] => rewrite (wrap_id t z) by conv_side end
  | match goal with |- context[if ?a <? ?b then _ else _] => destruct (Z.ltb_spec a b) end
  | match goal with |- context[if ?a <=? ?b then _ else _] => destruct (Z.leb_spec a b) end
  | match goal with |- context[if ?a =? ?b then _ else _] => destruct (Z.eqb_spec a b) end ].

(* goal: forall z, in_range S z -> to_sample Checked S D z = Ok (spec_conv S D z), S and D constructors.
   Unfold the dispatch and every generated function, turn the format facts into numerals,
   discharge each overflow check and each "wrap is the identity" side condition by lia,
   split on each [if], finish by lia. *)
Ltac solve_conv :=
  let z := fresh "z" in let Hr := fresh "Hr" in
  intros z Hr;
  cbv beta iota delta [in_range fmin fmax signed half bits] in Hr;
  autounfold with convdb;
  cbv beta iota delta [add sub mul neg arith shl shr cast spec_conv amp signed half bits];
  pow_norm;
  repeat conv_step;
  first [ f_equal; lia | idtac ].

(* goal: forall z, le_res (f Checked z) (f Wrapping z) for a generated f: follow the syntax *)
Ltac transfer_step := first
  [ apply le_res_refl
  | apply le_res_add | apply le_res_sub | apply le_res_mul | apply le_res_neg | apply le_res_idiv
  | solve [auto with convle]
  | apply le_res_if
  | apply le_res_bind; [ | intro ] ].

Ltac solve_transfer f := intro; unfold f; repeat transfer_step.
