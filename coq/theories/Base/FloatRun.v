(* Executable test interface of Base/Float.v: evaluated by coqc against rustc's
   f32/f64 on the same bit patterns (lib/floatbase.py, harness/src/bin/fbase.rs). *)
Require Import ZArith List Bool.
From Dasp Require Import Base.Float.
Import ListNotations.
Open Scope Z_scope.

Definition b2z (b : bool) : Z := if b then 1 else 0.

Definition int_range (code : Z) : Z * Z :=
  match code with
  | 0 => (-128, 127) | 1 => (-32768, 32767) | 2 => (-2147483648, 2147483647)
  | 3 => (-9223372036854775808, 9223372036854775807)
  | 4 => (0, 255) | 5 => (0, 65535) | 6 => (0, 4294967295) | _ => (0, 18446744073709551615)
  end.

(* case = [opcode; fmt(32|64); args...] *)
Definition feval (c : list Z) : list Z :=
  match c with
  | [op; 32; a; b] =>
    let x := F32.of_bits a in let y := F32.of_bits b in
    match op with
    | 0 => [F32.bits (F32.add x y)] | 1 => [F32.bits (F32.sub x y)] | 2 => [F32.bits (F32.mul x y)]
    | 3 => [F32.bits (F32.div x y)] | 4 => [F32.bits (F32.rem x y)]
    | 5 => [b2z (F32.ltb x y); b2z (F32.leb x y); b2z (F32.eqb x y)]
    | 6 => [F32.bits (F32.sqrt x); F32.bits (F32.floor x); F32.bits (F32.trunc x); F32.bits (F32.neg x); F32.bits (F32.abs x)]
    | 7 => let r := int_range b in [F32.to_Z_sat (fst r) (snd r) x]
    | 8 => [F64.bits (f32_to_f64 x)]
    | 9 => [F32.bits (F32.of_Z a)]
    | _ => []
    end
  | [op; 64; a; b] =>
    let x := F64.of_bits a in let y := F64.of_bits b in
    match op with
    | 0 => [F64.bits (F64.add x y)] | 1 => [F64.bits (F64.sub x y)] | 2 => [F64.bits (F64.mul x y)]
    | 3 => [F64.bits (F64.div x y)] | 4 => [F64.bits (F64.rem x y)]
    | 5 => [b2z (F64.ltb x y); b2z (F64.leb x y); b2z (F64.eqb x y)]
    | 6 => [F64.bits (F64.sqrt x); F64.bits (F64.floor x); F64.bits (F64.trunc x); F64.bits (F64.neg x); F64.bits (F64.abs x)]
    | 7 => let r := int_range b in [F64.to_Z_sat (fst r) (snd r) x]
    | 8 => [F32.bits (f64_to_f32 x)]
    | 9 => [F64.bits (F64.of_Z a)]
    | _ => []
    end
  | _ => []
  end.

Definition zl_eqb (a b : list Z) : bool := if list_eq_dec Z.eq_dec a b then true else false.
Definition fcheck (c : list Z * list (list Z)) : bool :=
  match snd c with [o] => zl_eqb (feval (fst c)) o | _ => false end.
