(* Generic Flocq lemmas about Base/Float.v's operations, for any binary format with
   2 <= prec <= 64 < emax (binary32 and binary64 are instances at the end):

     of_int_correct      `z as fN`            = round_NE z                       (|z| <= 2^63... no overflow)
     div_pow2_exact      x / 2^k              is exact when x is 0 or |x| >= 1   (no underflow possible)
     of_int_div_pow2     `z as fN / 2^k.0`    = round_NE(z) / 2^k  = round_NE(z / 2^k), finite
     mul_pow2_exact      x * 2^k.0            is exact when |x| <= 1             (scaling up cannot round)
     to_Z_sat_finite     `x as iN`            = clamp (Ztrunc x)
     mul_pow2_trunc      `(x * 2^k.0) as iN`  = Ztrunc (x * 2^k) in [-2^k, 2^k - 1]  for -1 <= x < 1
     gconv_correct       `x as fM`            = Flocq's rounding spec (binary_normalize_correct)
     gconv_exact         widening             is exact
   The power-of-two constant is any float [c] with [is_pow2 c k = true] (a decidable check on the
   literal's bit pattern), so the lemmas apply to the translator's `of_bits` literals. *)
Require Import Floats.SpecFloat.
Require Import ZArith Bool Lia Reals Lra.
From Flocq Require Import Core BinarySingleNaN Mult_error.
From Dasp Require Import Base.Float.
Open Scope Z_scope.

Lemma IZR_pow2 (k : Z) : 0 <= k -> IZR (2 ^ k) = bpow radix2 k.
Proof. intros Hk. change (IZR (2 ^ k)) with (IZR (radix2 ^ k)). now rewrite IZR_Zpower. Qed.

Lemma Ztrunc_scaled_range (x : R) (k : Z) : 0 <= k -> (-1 <= x < 1)%R ->
  - 2 ^ k <= Ztrunc (x * bpow radix2 k) <= 2 ^ k - 1.
Proof.
  intros Hk [Hlo Hhi]. pose proof (bpow_gt_0 radix2 k) as P.
  assert (L : (IZR (- 2 ^ k) <= x * bpow radix2 k)%R) by (rewrite opp_IZR, IZR_pow2 by lia; nra).
  assert (U : (x * bpow radix2 k < IZR (2 ^ k))%R) by (rewrite IZR_pow2 by lia; nra).
  split.
  - rewrite <- (Ztrunc_IZR (- 2 ^ k)). now apply Ztrunc_le.
  - destruct (Rle_or_lt 0 (x * bpow radix2 k)) as [Pos|Neg].
    + rewrite Ztrunc_floor by exact Pos.
      assert (Zfloor (x * bpow radix2 k) < 2 ^ k); [|lia].
      apply lt_IZR. eapply Rle_lt_trans; [apply Zfloor_lb | exact U].
    + rewrite Ztrunc_ceil by lra.
      assert (Zceil (x * bpow radix2 k) <= 0).
      { apply Zceil_glb. simpl. lra. }
      assert (0 < 2 ^ k) by (apply Z.pow_pos_nonneg; lia). lia.
Qed.

Section G.
Variables prec emax : Z.
Context (prec_gt_0_ : Prec_gt_0 prec).
Context (prec_lt_emax_ : Prec_lt_emax prec emax).
Hypothesis Hprec : 2 <= prec <= 64.
Hypothesis Hemax : 64 < emax.

Notation bf := (BinarySingleNaN.binary_float prec emax).
Let emin := (3 - emax - prec)%Z.
Let fexp := FLT_exp emin prec.
Notation rnd := (round radix2 fexp ZnearestE).
Notation of_int := (gof_Z prec emax prec_gt_0_ prec_lt_emax_).
Notation fmul := (gmul prec emax prec_gt_0_ prec_lt_emax_).
Notation fdiv := (gdiv prec emax prec_gt_0_ prec_lt_emax_).

Local Instance fexp_valid : Valid_exp fexp := @fexp_correct prec emax prec_gt_0_.

Lemma fmt_bpow (k : Z) : 0 <= k -> generic_format radix2 fexp (bpow radix2 k).
Proof. intros Hk. apply generic_format_bpow. unfold fexp, FLT_exp, emin. lia. Qed.

Lemma fmt_F2R (m e : Z) : Z.abs m < 2 ^ prec -> emin <= e -> generic_format radix2 fexp (F2R (Float radix2 m e)).
Proof. intros Hm He. apply generic_format_FLT. now apply (FLT_spec radix2 emin prec _ (Float radix2 m e)). Qed.


(* ---- the power-of-two constant, recognised on its bit pattern ---- *)
Definition is_pow2 (c : bf) (k : Z) : bool :=
  match c with
  | B754_finite false m e _ => (Zpos m =? 2 ^ (prec - 1)) && (e =? k - (prec - 1))
  | _ => false
  end.

Lemma is_pow2_correct (c : bf) (k : Z) : is_pow2 c k = true ->
  B2R c = bpow radix2 k /\ is_finite c = true.
Proof.
  destruct c as [s|s| |s m e Hb]; try discriminate. destruct s; try discriminate.
  cbn [is_pow2]. rewrite andb_true_iff, Z.eqb_eq, Z.eqb_eq. intros [Hm He]. split; [|reflexivity].
  cbn [B2R]. unfold F2R. cbn [Fnum Fexp cond_Zopp]. rewrite Hm, He, IZR_pow2 by lia.
  rewrite <- bpow_plus. f_equal. lia.
Qed.

(* ---- round to nearest even: order, small integers, scaling by a power of two ---- *)
Lemma rnd_le (x y : R) : (x <= y)%R -> (rnd x <= rnd y)%R.
Proof. intros H. apply round_le; auto with typeclass_instances. Qed.

Lemma rnd_IZR_small (z : Z) : Z.abs z <= 2 ^ prec -> rnd (IZR z) = IZR z.
Proof.
  intros Hz. apply round_generic; auto with typeclass_instances.
  destruct (Z.eq_dec (Z.abs z) (2 ^ prec)) as [E|N].
  - assert (Hb : generic_format radix2 fexp (bpow radix2 prec)) by (apply fmt_bpow; lia).
    destruct (Z.abs_spec z) as [[_ A]|[_ A]]; rewrite A in E.
    + now rewrite E, IZR_pow2 by lia.
    + replace z with (- 2 ^ prec) by lia. rewrite opp_IZR, IZR_pow2 by lia. now apply generic_format_opp.
  - replace (IZR z) with (F2R (Float radix2 z 0)) by (unfold F2R; simpl; ring).
    apply fmt_F2R; [lia | unfold emin; lia].
Qed.

Lemma rnd_IZR_le_pow (z k : Z) : 0 <= k -> Z.abs z <= 2 ^ k -> (Rabs (rnd (IZR z)) <= bpow radix2 k)%R.
Proof.
  intros Hk Hz. apply abs_round_le_generic; auto with typeclass_instances.
  - now apply fmt_bpow.
  - rewrite <- abs_IZR, <- IZR_pow2 by lia. now apply IZR_le.
Qed.

Lemma rnd_IZR_ge_1 (z : Z) : z <> 0 -> (1 <= Rabs (rnd (IZR z)))%R.
Proof.
  intros Hz. change 1%R with (bpow radix2 0).
  apply abs_round_ge_generic; auto with typeclass_instances.
  - apply fmt_bpow; lia.
  - rewrite <- abs_IZR. change (bpow radix2 0) with (IZR 1). apply IZR_le. lia.
Qed.

(* scaling by 2^e commutes with rounding as long as both sides stay in the normal range *)
Lemma rnd_scale (x : R) (e : Z) : x <> 0%R -> emin + prec <= mag radix2 x -> emin + prec <= mag radix2 x + e ->
  rnd (x * bpow radix2 e) = (rnd x * bpow radix2 e)%R.
Proof.
  intros Hx H1 H2.
  assert (C : cexp radix2 fexp (x * bpow radix2 e) = cexp radix2 fexp x + e).
  { unfold cexp, fexp, FLT_exp. rewrite mag_mult_bpow by exact Hx. lia. }
  unfold round, scaled_mantissa. rewrite C. unfold F2R. cbn [Fnum Fexp].
  replace (x * bpow radix2 e * bpow radix2 (- (cexp radix2 fexp x + e)))%R
    with (x * bpow radix2 (- cexp radix2 fexp x))%R.
  - rewrite bpow_plus. ring.
  - rewrite Rmult_assoc, <- bpow_plus. f_equal. f_equal. ring.
Qed.

Lemma rnd_div_pow2 (z k : Z) : 0 <= k <= 63 ->
  rnd (IZR z / bpow radix2 k) = (rnd (IZR z) / bpow radix2 k)%R.
Proof.
  intros Hk. unfold Rdiv. rewrite <- bpow_opp.
  destruct (Z.eq_dec z 0) as [->|Hz].
  - now rewrite Rmult_0_l, round_0, Rmult_0_l by auto with typeclass_instances.
  - assert (M : 1 <= mag radix2 (IZR z)).
    { apply mag_ge_bpow. replace (1 - 1) with 0 by lia. change (bpow radix2 0) with (IZR 1).
      rewrite <- abs_IZR. apply IZR_le. lia. }
    apply rnd_scale; [ | unfold emin; lia | unfold emin; lia ].
    intro E. apply Hz. now apply eq_IZR.
Qed.

(* ---- `z as fN` ---- *)
Lemma of_int_correct (z k : Z) : 0 <= k <= 64 -> Z.abs z <= 2 ^ k ->
  B2R (of_int z) = rnd (IZR z) /\ is_finite (of_int z) = true.
Proof.
  intros Hk Hz. unfold gof_Z.
  pose proof (@binary_normalize_correct prec emax prec_gt_0_ prec_lt_emax_ mode_NE z 0 false) as H.
  cbv zeta in H.
  change (round radix2 (SpecFloat.fexp prec emax) (round_mode mode_NE)) with rnd in H.
  replace (F2R (Float radix2 z 0)) with (IZR z) in H by (unfold F2R; simpl; ring).
  rewrite Rlt_bool_true in H.
  - destruct H as (H1 & H2 & _). split; assumption.
  - eapply Rle_lt_trans; [apply rnd_IZR_le_pow with (k := k); lia|]. apply bpow_lt. lia.
Qed.

Lemma of_int_0 : of_int 0 = B754_zero false.
Proof. reflexivity. Qed.

(* ---- x / 2^k ---- *)
Lemma div_pow2_exact (x c : bf) (k : Z) : 0 <= k <= 63 ->
  is_finite x = true -> is_pow2 c k = true ->
  (B2R x = 0 \/ 1 <= Rabs (B2R x))%R -> (Rabs (B2R x) <= bpow radix2 k)%R ->
  B2R (fdiv x c) = (B2R x / bpow radix2 k)%R /\ is_finite (fdiv x c) = true.
Proof.
  intros Hk Fx Hc H1 Hle. destruct (is_pow2_correct c k Hc) as [Hy Fy].
  pose proof (@Bdiv_correct prec emax prec_gt_0_ prec_lt_emax_ mode_NE x c) as H.
  change (round radix2 (SpecFloat.fexp prec emax) (round_mode mode_NE)) with rnd in H.
  rewrite Hy in H.
  assert (Hne : bpow radix2 k <> 0%R) by (apply Rgt_not_eq, bpow_gt_0). specialize (H Hne).
  assert (Hfmt : generic_format radix2 fexp (B2R x / bpow radix2 k)).
  { unfold Rdiv. rewrite <- bpow_opp. destruct H1 as [Z0|G1].
    - rewrite Z0, Rmult_0_l. apply generic_format_0.
    - apply mult_bpow_exact_FLT.
      + apply generic_format_B2R.
      + assert (1 <= mag radix2 (B2R x)).
        { apply mag_ge_bpow. replace (1 - 1) with 0 by lia. exact G1. }
        unfold emin. lia. }
  rewrite round_generic in H by (auto with typeclass_instances).
  rewrite Rlt_bool_true in H.
  - destruct H as (E1 & E2 & _). split; [exact E1 | unfold gdiv; rewrite E2; exact Fx].
  - unfold Rdiv. rewrite Rabs_mult, (Rabs_pos_eq (/ _)) by (left; apply Rinv_0_lt_compat, bpow_gt_0).
    apply Rle_lt_trans with (bpow radix2 k * / bpow radix2 k)%R.
    + apply Rmult_le_compat_r; [left; apply Rinv_0_lt_compat, bpow_gt_0 | exact Hle].
    + rewrite Rinv_r by exact Hne. change 1%R with (bpow radix2 0). apply bpow_lt. lia.
Qed.

(* `z as fN / 2^k.0`: one rounding, of the integer; the quotient is exact; equivalently the
   exact quotient z / 2^k correctly rounded *)
Theorem of_int_div_pow2 (z k : Z) (c : bf) : 0 <= k <= 63 -> is_pow2 c k = true -> Z.abs z <= 2 ^ k ->
  B2R (fdiv (of_int z) c) = (rnd (IZR z) / bpow radix2 k)%R /\
  B2R (fdiv (of_int z) c) = rnd (IZR z / bpow radix2 k) /\
  is_finite (fdiv (of_int z) c) = true.
Proof.
  intros Hk Hc Hz.
  destruct (of_int_correct z k) as [Hx Fx]; [lia | exact Hz |].
  destruct (div_pow2_exact (of_int z) c k) as [E F]; [lia | exact Fx | exact Hc | | | ].
  - rewrite Hx. destruct (Z.eq_dec z 0) as [->|Hz0].
    + left. apply round_0; auto with typeclass_instances.
    + right. now apply rnd_IZR_ge_1.
  - rewrite Hx. apply rnd_IZR_le_pow; lia.
  - rewrite Hx in E. repeat split; [exact E | now rewrite rnd_div_pow2 | exact F].
Qed.

(* ---- x * 2^k: exact ---- *)
Lemma mul_pow2_exact (x c : bf) (k : Z) : 0 <= k <= 64 -> is_finite x = true -> is_pow2 c k = true ->
  (Rabs (B2R x) <= 1)%R ->
  B2R (fmul x c) = (B2R x * bpow radix2 k)%R /\ is_finite (fmul x c) = true.
Proof.
  intros Hk Fx Hc Hx. destruct (is_pow2_correct c k Hc) as [Hy Fy].
  pose proof (@Bmult_correct prec emax prec_gt_0_ prec_lt_emax_ mode_NE x c) as H.
  change (round radix2 (SpecFloat.fexp prec emax) (round_mode mode_NE)) with rnd in H.
  rewrite Hy in H.
  assert (Fmt : generic_format radix2 fexp (B2R x * bpow radix2 k)).
  { destruct (@FLT_format_generic radix2 emin prec prec_gt_0_ (B2R x) (generic_format_B2R prec emax x)) as [f E Hm He].
    rewrite E. unfold F2R. rewrite Rmult_assoc, <- bpow_plus.
    change (IZR (Fnum f) * bpow radix2 (Fexp f + k))%R with (F2R (Float radix2 (Fnum f) (Fexp f + k))).
    apply fmt_F2R; [exact Hm | lia]. }
  rewrite round_generic in H by (auto with typeclass_instances).
  rewrite Rlt_bool_true in H.
  - destruct H as (H1 & H2 & _). rewrite Fx, Fy in H2. unfold gmul. split; assumption.
  - rewrite Rabs_mult, (Rabs_pos_eq (bpow radix2 k)) by apply bpow_ge_0.
    apply Rle_lt_trans with (1 * bpow radix2 k)%R.
    + apply Rmult_le_compat_r; [apply bpow_ge_0 | exact Hx].
    + rewrite Rmult_1_l. apply bpow_lt. lia.
Qed.

(* ---- `x as iN` ---- *)
Lemma to_Z_sat_finite (lo hi : Z) (x : bf) : is_finite x = true ->
  gto_Z_sat prec emax lo hi x = Z.max lo (Z.min hi (Ztrunc (B2R x))).
Proof.
  intros Fx.
  assert (E : BinarySingleNaN.Btrunc x = Ztrunc (B2R x)).
  { apply eq_IZR. rewrite (@Btrunc_correct prec emax prec_lt_emax_ x). apply round_FIX_IZR. }
  destruct x; try discriminate; unfold gto_Z_sat; now rewrite E.
Qed.


(* `(x * 2^k.0) as iN` on the domain -1 <= x < 1: the product is exact, the cast truncates and
   does not saturate whenever the target holds [-2^k, 2^k - 1] *)
Theorem mul_pow2_trunc (x c : bf) (k lo hi : Z) : 0 <= k <= 63 -> is_finite x = true -> is_pow2 c k = true ->
  (-1 <= B2R x < 1)%R -> lo <= - 2 ^ k -> 2 ^ k - 1 <= hi ->
  gto_Z_sat prec emax lo hi (fmul x c) = Ztrunc (B2R x * bpow radix2 k) /\
  - 2 ^ k <= Ztrunc (B2R x * bpow radix2 k) <= 2 ^ k - 1.
Proof.
  intros Hk Fx Hc Hx Hlo Hhi.
  destruct (mul_pow2_exact x c k) as [E F]; [lia | exact Fx | exact Hc | apply Rabs_le; lra |].
  pose proof (Ztrunc_scaled_range (B2R x) k (proj1 Hk) Hx) as R.
  split; [|exact R]. rewrite to_Z_sat_finite by exact F. rewrite E. lia.
Qed.

End G.

(* ---- conversion between two formats ([gconv], `f32 as f64` / `f64 as f32`) ---- *)
Section Conv.
Variables p1 e1 p2 e2 : Z.
Context (H1 : Prec_gt_0 p1) (H1' : Prec_lt_emax p1 e1).
Context (H2 : Prec_gt_0 p2) (H2' : Prec_lt_emax p2 e2).
Notation conv := (gconv p1 e1 p2 e2 H2 H2').
Notation rnd2 := (round radix2 (FLT_exp (3 - e2 - p2) p2) ZnearestE).

(* non-finite inputs and zeros are mapped structurally *)
Lemma gconv_nan : conv B754_nan = B754_nan. Proof. reflexivity. Qed.
Lemma gconv_inf s : conv (B754_infinity s) = B754_infinity s. Proof. reflexivity. Qed.
Lemma gconv_zero s : conv (B754_zero s) = B754_zero s. Proof. reflexivity. Qed.

(* finite inputs: Flocq's specification of rounding a real to the target format in mode
   nearest-even -- the correctly rounded value when it is below 2^emax, else the infinity
   of the same sign; the sign is preserved (also when the result underflows to zero) *)
Theorem gconv_correct (x : BinarySingleNaN.binary_float p1 e1) : is_finite x = true ->
  if Rlt_bool (Rabs (rnd2 (B2R x))) (bpow radix2 e2)
  then B2R (conv x) = rnd2 (B2R x) /\ is_finite (conv x) = true /\ Bsign (conv x) = Bsign x
  else conv x = B754_infinity (Bsign x).
Proof.
  destruct x as [s|s| |s m e Hb]; try discriminate; intros _.
  - cbn [gconv B2R]. rewrite round_0 by auto with typeclass_instances. rewrite Rabs_R0.
    rewrite Rlt_bool_true by apply bpow_gt_0. repeat split.
  - cbn [gconv]. unfold gof_ZE.
    pose proof (@binary_normalize_correct p2 e2 H2 H2' mode_NE (if s then Z.neg m else Z.pos m) e s) as H.
    cbv zeta in H.
    change (round radix2 (SpecFloat.fexp p2 e2) (round_mode mode_NE)) with rnd2 in H.
    assert (E : F2R (Float radix2 (if s then Z.neg m else Z.pos m) e) = B2R (B754_finite s m e Hb)).
    { cbn [B2R]. destruct s; reflexivity. }
    rewrite E in H.
    destruct (Rlt_bool (Rabs (rnd2 (B2R (B754_finite s m e Hb)))) (bpow radix2 e2)).
    + destruct H as (A & B & C). repeat split; [exact A | exact B |].
      cbn [Bsign]. rewrite C. rewrite <- E. unfold F2R. cbn [Fnum Fexp].
      pose proof (bpow_gt_0 radix2 e) as P.
      destruct s.
      * rewrite Rcompare_Lt; [reflexivity|].
        assert (IZR (Z.neg m) < 0)%R by now apply IZR_lt. nra.
      * rewrite Rcompare_Gt; [reflexivity|].
        assert (0 < IZR (Z.pos m))%R by now apply IZR_lt. nra.
    + cbn [Bsign].
      assert (S : Rlt_bool (B2R (B754_finite s m e Hb)) 0 = s).
      { rewrite <- E. unfold F2R. cbn [Fnum Fexp]. pose proof (bpow_gt_0 radix2 e) as P. destruct s.
        - apply Rlt_bool_true. assert (IZR (Z.neg m) < 0)%R by now apply IZR_lt. nra.
        - apply Rlt_bool_false. assert (0 < IZR (Z.pos m))%R by now apply IZR_lt. nra. }
      rewrite S in H. unfold binary_overflow in H. cbn [overflow_to_inf] in H.
      destruct (binary_normalize p2 e2 H2 H2' mode_NE (if s then Z.neg m else Z.pos m) e s); try discriminate.
      cbn [B2SF] in H. now inversion H.
Qed.

(* widening (more precision, larger exponent range on both sides) is exact *)
Theorem gconv_exact (x : BinarySingleNaN.binary_float p1 e1) : p1 <= p2 -> e1 <= e2 -> 3 - e2 - p2 <= 3 - e1 - p1 ->
  is_finite x = true ->
  B2R (conv x) = B2R x /\ is_finite (conv x) = true /\ Bsign (conv x) = Bsign x.
Proof.
  intros Hp He Hm Fx.
  assert (Fmt : generic_format radix2 (FLT_exp (3 - e2 - p2) p2) (B2R x)).
  { destruct (@FLT_format_generic radix2 (3 - e1 - p1) p1 H1 (B2R x) (generic_format_B2R p1 e1 x)) as [f E Hm1 He1].
    rewrite E. apply generic_format_FLT. apply (FLT_spec radix2 (3 - e2 - p2) p2 _ f); [reflexivity | | lia].
    eapply Z.lt_le_trans; [exact Hm1|]. apply Z.pow_le_mono_r; [reflexivity | exact Hp]. }
  pose proof (gconv_correct x Fx) as H.
  rewrite round_generic in H by (auto with typeclass_instances).
  rewrite Rlt_bool_true in H; [exact H|].
  eapply Rlt_le_trans; [apply abs_B2R_lt_emax | apply bpow_le; exact He].
Qed.
End Conv.

(* ---- binary32 / binary64 instances ---- *)
Lemma prec32_ok : 2 <= 24 <= 64. Proof. lia. Qed.
Lemma emax32_ok : 64 < 128. Proof. lia. Qed.
Lemma prec64_ok : 2 <= 53 <= 64. Proof. lia. Qed.
Lemma emax64_ok : 64 < 1024. Proof. lia. Qed.
