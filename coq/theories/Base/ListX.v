(* List utilities shared by the ring-buffer, signal and graph models. *)
Require Import List Arith Lia Bool.
Import ListNotations.

Section ListX.
Context {A : Type}.

Fixpoint set_nth (i : nat) (x : A) (l : list A) : list A :=
  match l, i with
  | [], _ => []
  | _ :: t, O => x :: t
  | h :: t, S k => h :: set_nth k x t
  end.

Lemma set_nth_length i x (l : list A) : length (set_nth i x l) = length l.
Proof. revert i; induction l as [|h t IH]; intros [|k]; simpl; auto. Qed.

Lemma nth_error_set_nth_eq i x (l : list A) : i < length l -> nth_error (set_nth i x l) i = Some x.
Proof. revert i; induction l as [|h t IH]; intros [|k] H; simpl in *; try lia; auto. apply IH; lia. Qed.

Lemma nth_error_set_nth_neq i j x (l : list A) : i <> j -> nth_error (set_nth i x l) j = nth_error l j.
Proof. revert i j; induction l as [|h t IH]; intros [|i] [|j] H; simpl; auto; try congruence. Qed.

Lemma nth_error_set_nth i j x (l : list A) :
  nth_error (set_nth i x l) j = if (i =? j) && (i <? length l) then Some x else nth_error l j.
Proof.
  destruct (Nat.eqb_spec i j) as [->|Hne]; simpl.
  - destruct (Nat.ltb_spec j (length l)) as [H|H].
    + now apply nth_error_set_nth_eq.
    + assert (E : nth_error l j = None) by (apply nth_error_None; lia).
      rewrite E. apply nth_error_None. rewrite set_nth_length. lia.
  - now apply nth_error_set_nth_neq.
Qed.

Lemma list_eq_nth (l1 l2 : list A) :
  length l1 = length l2 -> (forall i, i < length l1 -> nth_error l1 i = nth_error l2 i) -> l1 = l2.
Proof.
  revert l2; induction l1 as [|a l1 IH]; intros [|b l2] HL H; simpl in *; try discriminate; auto.
  f_equal.
  - specialize (H 0 ltac:(lia)). simpl in H. congruence.
  - apply IH; [lia|]. intros i Hi. apply (H (S i)). lia.
Qed.

Lemma nth_error_skipn s (l : list A) i : nth_error (skipn s l) i = nth_error l (s + i).
Proof. revert l; induction s as [|s IH]; intros [|a l]; simpl; auto. now destruct i. Qed.

Lemma nth_error_firstn n (l : list A) i :
  nth_error (firstn n l) i = if i <? n then nth_error l i else None.
Proof.
  revert l i; induction n as [|n IH]; intros [|a l] [|i]; simpl; auto.
  - now destruct (S i <? S n).
  - rewrite IH. reflexivity.
Qed.

Lemma nth_error_Some_lt (l : list A) i x : nth_error l i = Some x -> i < length l.
Proof. intros H. apply nth_error_Some. congruence. Qed.

Lemma nth_error_lt_Some (l : list A) i : i < length l -> exists x, nth_error l i = Some x.
Proof. intros H. destruct (nth_error l i) eqn:E; eauto. apply nth_error_None in E. lia. Qed.

End ListX.

Lemma mod_wrap n s i : s < n -> i < n -> (s + i) mod n = if s + i <? n then s + i else s + i - n.
Proof.
  intros Hs Hi. destruct (Nat.ltb_spec (s + i) n) as [H|H].
  - apply Nat.mod_small; lia.
  - symmetry. apply Nat.mod_unique with 1; lia.
Qed.

Lemma mod_inj n s i j : s < n -> i < n -> j < n -> (s + i) mod n = (s + j) mod n -> i = j.
Proof. intros Hs Hi Hj. rewrite !mod_wrap by lia.
  destruct (Nat.ltb_spec (s + i) n), (Nat.ltb_spec (s + j) n); lia. Qed.

Ltac modw := repeat (progress (repeat (rewrite mod_wrap by lia);
  repeat match goal with |- context[?a <? ?b] => destruct (Nat.ltb_spec a b) end)); try lia.

Lemma nth_error_map_in {A B} (f : A -> B) (l : list A) i :
  nth_error (map f l) i = option_map f (nth_error l i).
Proof. revert i; induction l as [|a l IH]; intros [|i]; simpl; auto. Qed.
