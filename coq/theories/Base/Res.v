(* Results of modelled Rust operations: a value, a panic of some kind, or
   undefined behaviour (an unchecked access that went out of bounds).
   Theorems state [= Ok _]: they prove the absence of panics and of UB under
   the property's hypotheses instead of totalising them away. *)
Require Import List.
Import ListNotations.

Inductive panic_kind := POverflow | PIndex | PAssert | PExpect | PDivZero.

Inductive res (A : Type) : Type :=
| Ok (a : A)
| Panic (k : panic_kind)
| UB.
Arguments Ok {A} a.
Arguments Panic {A} k.
Arguments UB {A}.

Definition bind {A B} (r : res A) (f : A -> res B) : res B :=
  match r with Ok a => f a | Panic k => Panic k | UB => UB end.

Definition rmap {A B} (f : A -> B) (r : res A) : res B :=
  match r with Ok a => Ok (f a) | Panic k => Panic k | UB => UB end.

Notation "'let*' x ':=' r 'in' k" := (bind r (fun x => k))
  (at level 200, x pattern, r at level 100, k at level 200).

(* unchecked read: out of range = UB *)
Definition get_unchecked {A} (l : list A) (i : nat) : res A :=
  match nth_error l i with Some x => Ok x | None => UB end.

(* checked read ([l[i]]): out of range = index panic *)
Definition get_checked {A} (l : list A) (i : nat) : res A :=
  match nth_error l i with Some x => Ok x | None => Panic PIndex end.

Definition panic_code (k : panic_kind) : nat :=
  match k with POverflow => 1 | PIndex => 2 | PAssert => 3 | PExpect => 4 | PDivZero => 5 end.

Lemma bind_ok {A B} (r : res A) (f : A -> res B) b :
  bind r f = Ok b -> exists a, r = Ok a /\ f a = Ok b.
Proof. destruct r; simpl; intros H; try discriminate. eauto. Qed.
