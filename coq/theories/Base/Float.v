(* IEEE-754 binary32 / binary64 as used by the models: Flocq 4.1 BinarySingleNaN,
   round-to-nearest-even, one NaN.  Definitions only (all executable under
   vm_compute); lemmas live in FloatLemmas.v and in the property developments.

   Rust operation            model
   + - * / sqrt              Bplus/Bminus/Bmult/Bdiv/Bsqrt mode_NE
   int as fN                 of_Z  (binary_normalize mode_NE z 0)
   fN as int (>= 1.45)       to_Z_sat lo hi  (NaN -> 0, saturating, truncation toward zero)
   f32 as f64 / f64 as f32   fconv (renormalise mantissa/exponent in the target format)
   x % y                     frem  (exact: x - trunc(x/y)*y, sign of x)
   < <= == > >=              Bcompare
   floor                     Bnearbyint mode_DN
   to_bits / from_bits       bits_of / of_bits (NaN canonicalised to the quiet NaN) *)
Require Import Floats.SpecFloat.
Require Import ZArith Bool Lia.
From Flocq Require Import Core BinarySingleNaN.
From Flocq Require Binary Bits.
Open Scope Z_scope.

Section Generic.
Variables prec emax : Z.
Context (prec_gt_0_ : Prec_gt_0 prec).
Context (prec_lt_emax_ : Prec_lt_emax prec emax).
Notation bf := (BinarySingleNaN.binary_float prec emax).

Definition gadd (x y : bf) : bf := @Bplus prec emax prec_gt_0_ prec_lt_emax_ mode_NE x y.
Definition gsub (x y : bf) : bf := @Bminus prec emax prec_gt_0_ prec_lt_emax_ mode_NE x y.
Definition gmul (x y : bf) : bf := @Bmult prec emax prec_gt_0_ prec_lt_emax_ mode_NE x y.
Definition gdiv (x y : bf) : bf := @Bdiv prec emax prec_gt_0_ prec_lt_emax_ mode_NE x y.
Definition gsqrt (x : bf) : bf := @Bsqrt prec emax prec_gt_0_ prec_lt_emax_ mode_NE x.
Definition gneg (x : bf) : bf := Bopp x.
Definition gabs (x : bf) : bf := Babs x.
Definition gfloor (x : bf) : bf := @Bnearbyint prec emax prec_lt_emax_ mode_DN x.
Definition gtrunc (x : bf) : bf := @Bnearbyint prec emax prec_lt_emax_ mode_ZR x.
Definition gof_Z (z : Z) : bf := @binary_normalize prec emax prec_gt_0_ prec_lt_emax_ mode_NE z 0 false.
Definition gof_ZE (m e : Z) (s : bool) : bf :=
  @binary_normalize prec emax prec_gt_0_ prec_lt_emax_ mode_NE m e s.

Definition gcmp (x y : bf) : option comparison := Bcompare x y.
Definition glt (x y : bf) : bool := match gcmp x y with Some Lt => true | _ => false end.
Definition gle (x y : bf) : bool := match gcmp x y with Some Lt | Some Eq => true | _ => false end.
Definition geq (x y : bf) : bool := match gcmp x y with Some Eq => true | _ => false end.
Definition ggt (x y : bf) : bool := glt y x.
Definition gge (x y : bf) : bool := gle y x.

Definition gis_nan (x : bf) : bool := BinarySingleNaN.is_nan x.
Definition gis_finite (x : bf) : bool := BinarySingleNaN.is_finite x.

(* `x as iN/uN`: NaN -> 0, out of range saturates, otherwise truncation toward zero *)
Definition gto_Z_sat (lo hi : Z) (x : bf) : Z :=
  match x with
  | B754_nan => 0
  | B754_infinity s => if s then lo else hi
  | _ => Z.max lo (Z.min hi (BinarySingleNaN.Btrunc x))
  end.

(* Rust `%` (C fmod): exact remainder with the sign of the dividend *)
Definition grem (x y : bf) : bf :=
  match x, y with
  | B754_nan, _ | _, B754_nan => B754_nan
  | B754_infinity _, _ => B754_nan
  | _, B754_zero _ => B754_nan
  | B754_zero s, _ => B754_zero s
  | _, B754_infinity _ => x
  | B754_finite sx mx ex _, B754_finite _ my ey _ =>
    let e := Z.min ex ey in
    let a := Zpos mx * 2 ^ (ex - e) in
    let b := Zpos my * 2 ^ (ey - e) in
    let r := a mod b in
    gof_ZE (if sx then - r else r) e sx
  end.

Definition gbits (mw ew : Z) (x : bf) : Z :=
  let emin := 3 - emax - prec in
  let sign (s : bool) := if s then 2 ^ (mw + ew) else 0 in
  match x with
  | B754_zero s => sign s
  | B754_infinity s => sign s + (2 ^ ew - 1) * 2 ^ mw
  | B754_nan => (2 ^ ew - 1) * 2 ^ mw + 2 ^ (mw - 1)
  | B754_finite s m e _ =>
    sign s + (if 2 ^ mw <=? Zpos m then (e - emin + 1) * 2 ^ mw + (Zpos m - 2 ^ mw) else Zpos m)
  end.

End Generic.

(* conversion between formats: renormalise in the target format (exact when widening) *)
Definition gconv (p1 e1 p2 e2 : Z) (H2 : Prec_gt_0 p2) (H2' : Prec_lt_emax p2 e2)
  (x : BinarySingleNaN.binary_float p1 e1) : BinarySingleNaN.binary_float p2 e2 :=
  match x with
  | B754_nan => B754_nan
  | B754_infinity s => B754_infinity s
  | B754_zero s => B754_zero s
  | B754_finite s m e _ => gof_ZE p2 e2 H2 H2' (if s then Zneg m else Zpos m) e s
  end.

Definition f32 := BinarySingleNaN.binary_float 24 128.
Definition f64 := BinarySingleNaN.binary_float 53 1024.

Lemma p24 : Prec_gt_0 24. Proof. reflexivity. Qed.
Lemma p53 : Prec_gt_0 53. Proof. reflexivity. Qed.
Lemma pe24 : Prec_lt_emax 24 128. Proof. reflexivity. Qed.
Lemma pe53 : Prec_lt_emax 53 1024. Proof. reflexivity. Qed.

Module F32.
  Definition t := f32.
  Definition add : t -> t -> t := gadd 24 128 p24 pe24.
  Definition sub : t -> t -> t := gsub 24 128 p24 pe24.
  Definition mul : t -> t -> t := gmul 24 128 p24 pe24.
  Definition div : t -> t -> t := gdiv 24 128 p24 pe24.
  Definition sqrt : t -> t := gsqrt 24 128 p24 pe24.
  Definition neg : t -> t := gneg 24 128.
  Definition abs : t -> t := gabs 24 128.
  Definition floor : t -> t := gfloor 24 128 pe24.
  Definition trunc : t -> t := gtrunc 24 128 pe24.
  Definition rem : t -> t -> t := grem 24 128 p24 pe24.
  Definition of_Z : Z -> t := gof_Z 24 128 p24 pe24.
  Definition to_Z_sat : Z -> Z -> t -> Z := gto_Z_sat 24 128.
  Definition ltb : t -> t -> bool := glt 24 128.
  Definition leb : t -> t -> bool := gle 24 128.
  Definition eqb : t -> t -> bool := geq 24 128.
  Definition gtb : t -> t -> bool := ggt 24 128.
  Definition geb : t -> t -> bool := gge 24 128.
  Definition is_nan : t -> bool := gis_nan 24 128.
  Definition is_finite : t -> bool := gis_finite 24 128.
  Definition bits : t -> Z := gbits 24 128 23 8.
  Definition of_bits (z : Z) : t := Binary.B2BSN 24 128 (Bits.b32_of_bits z).
  Definition zero : t := B754_zero false.
  Definition one : t := of_Z 1.
End F32.

Module F64.
  Definition t := f64.
  Definition add : t -> t -> t := gadd 53 1024 p53 pe53.
  Definition sub : t -> t -> t := gsub 53 1024 p53 pe53.
  Definition mul : t -> t -> t := gmul 53 1024 p53 pe53.
  Definition div : t -> t -> t := gdiv 53 1024 p53 pe53.
  Definition sqrt : t -> t := gsqrt 53 1024 p53 pe53.
  Definition neg : t -> t := gneg 53 1024.
  Definition abs : t -> t := gabs 53 1024.
  Definition floor : t -> t := gfloor 53 1024 pe53.
  Definition trunc : t -> t := gtrunc 53 1024 pe53.
  Definition rem : t -> t -> t := grem 53 1024 p53 pe53.
  Definition of_Z : Z -> t := gof_Z 53 1024 p53 pe53.
  Definition to_Z_sat : Z -> Z -> t -> Z := gto_Z_sat 53 1024.
  Definition ltb : t -> t -> bool := glt 53 1024.
  Definition leb : t -> t -> bool := gle 53 1024.
  Definition eqb : t -> t -> bool := geq 53 1024.
  Definition gtb : t -> t -> bool := ggt 53 1024.
  Definition geb : t -> t -> bool := gge 53 1024.
  Definition is_nan : t -> bool := gis_nan 53 1024.
  Definition is_finite : t -> bool := gis_finite 53 1024.
  Definition bits : t -> Z := gbits 53 1024 52 11.
  Definition of_bits (z : Z) : t := Binary.B2BSN 53 1024 (Bits.b64_of_bits z).
  Definition zero : t := B754_zero false.
  Definition one : t := of_Z 1.
End F64.

Definition f32_to_f64 : f32 -> f64 := gconv 24 128 53 1024 p53 pe53.
Definition f64_to_f32 : f64 -> f32 := gconv 53 1024 24 128 p24 pe24.
