(* The sinc model on a CONSTANT buffer, exact reals with the true sin, cos, PI (instance Dsp/SincR.v):
   once primed (idx = depth) and every buffered frame equal to (c, ..., c), the model's own
   [interpolate] returns the frame (c * ksum, ..., c * ksum), where ksum is the sum of the 2*depth
   Hann-windowed sinc weights the fold visits (left tap n, right tap n, n = 0 .. depth-1), for every
   depth >= 1 and every position x.  For 0 < x < 1 no weight takes the `a == 0.0` branch and the sum
   is the closed expression [K].  The numeric bound on [K] is in SincKernelBound.v. *)
Require Import Reals List Arith Lia Lra.
From Dasp Require Import Base.Res Base.ListX Ring.Bounded Ring.Fixed Ring.FixedSpec Ring.FixedProofs
  Dsp.Sinc Dsp.SincProofs Dsp.SincR Dsp.SincRProofs.
Import ListNotations.
Local Arguments Nat.mul : simpl never.
Local Arguments Nat.modulo : simpl never.
Local Arguments Nat.div : simpl never.
Local Arguments INR : simpl never.
Open Scope R_scope.

(* [smp FmtR] and [R] are convertible but not syntactically equal: fix the type before ring *)
Ltac rring := match goal with |- @eq _ ?a ?b => change (@eq R a b) end; ring.

(* the weights the fold visits at tap n: left phase x, right phase 1 - x *)
Definition wl (d : nat) (x : R) (n : nat) : R := weight NumR sin cos d (tap_arg NumR x n).
Definition wr (d : nat) (x : R) (n : nat) : R := weight NumR sin cos d (tap_arg NumR (n_sub NumR (n_one NumR) x) n).

(* sum of the weights of taps n0 .. n0+k-1, in the order of the fold *)
Fixpoint ksum_from (d : nat) (x : R) (n0 k : nat) : R :=
  match k with
  | O => 0
  | S k' => (wl d x n0 + wr d x n0) + ksum_from d x (S n0) k'
  end.
Definition ksum (d : nat) (x : R) : R := ksum_from d x 0 d.

(* the same sum without the `a == 0.0` test: Hann-windowed sinc, d and the tap number as reals *)
Definition hw (d a : R) : R := sin a / a * (/ 2 + / 2 * cos (a / d)).
Fixpoint K (d x n0 : R) (k : nat) : R :=
  match k with
  | O => 0
  | S k' => (hw d (PI * (x + n0)) + hw d (PI * (1 - x + n0))) + K d x (n0 + 1) k'
  end.

Lemma weight_nonzero (d : nat) (a : R) : a <> 0 -> weight NumR sin cos d a = hw (INR d) a.
Proof.
  intros Ha. unfold weight, hw. cbn [T n_eq0 n_one n_div n_add n_mul n_half n_of_nat NumR].
  destruct (Req_EM_T a 0) as [E|_]; [contradiction|]. reflexivity.
Qed.

Lemma ksum_from_K (d : nat) (x : R) : 0 < x < 1 -> forall k n0, ksum_from d x n0 k = K (INR d) x (INR n0) k.
Proof.
  intros Hx. induction k as [|k IH]; intros n0; [reflexivity|].
  cbn [ksum_from K]. rewrite IH, S_INR. f_equal. unfold wl, wr, tap_arg.
  cbn [T n_mul n_add n_sub n_one n_pi n_of_nat NumR].
  pose proof PI_RGT_0 as Hpi. pose proof (pos_INR n0) as Hn.
  rewrite !weight_nonzero; [reflexivity| |]; apply Rgt_not_eq, Rmult_lt_0_compat; lra.
Qed.

Lemma ksum_K (d : nat) (x : R) : 0 < x < 1 -> ksum d x = K (INR d) x 0 d.
Proof. intros Hx. unfold ksum. rewrite (ksum_from_K d x Hx). reflexivity. Qed.

(* ------------------------------------------------------------------------------------------- *)
Section Const.
Variable ch : nat.
Notation WF := (WF NumR FmtR ch).
Notation interp := (interpolate NumR sin cos FmtR ch).
Notation step := (tap_step NumR sin cos FmtR).

(* every buffered frame is (c, ..., c) *)
Definition ConstBuf (c : R) (s : sinc NumR FmtR) : Prop :=
  forall fr, In fr (fdata (frames s)) -> fr = repeat c ch.

Lemma zip2_acc_repeat (w a c : R) : forall n, zip2 (acc w) (repeat a n) (repeat c n) = repeat (a + w * c) n.
Proof. induction n as [|n IH]; simpl; [reflexivity|]. rewrite IH. reflexivity. Qed.

Lemma fget_const d s c i : WF d s -> ConstBuf c s -> fget (frames s) i = Ok (repeat c ch).
Proof.
  intros W Hc. destruct (fget_wf NumR FmtR ch d s i W) as (w & fr & _ & _ & E & Hn & _).
  rewrite E. f_equal. apply Hc. eapply nth_error_In. exact Hn.
Qed.

Lemma zip_acc_repeat (w a c : R) : zip_acc NumR FmtR w (repeat a ch) (repeat c ch) = Ok (repeat (a + w * c) ch).
Proof. rewrite zip_acc_R by (rewrite !repeat_length; reflexivity). rewrite zip2_acc_repeat. reflexivity. Qed.

Lemma step_const d s c x (a : R) n : WF d s -> ConstBuf c s -> (n < Nat.min (idx s + 1) d)%nat ->
  step s x d (repeat a ch) n = Ok (repeat (a + wl d x n * c + wr d x n * c) ch).
Proof.
  intros W Hc Hn. unfold tap_step.
  rewrite (no_underflow NumR FmtR ch d s n W Hn). cbn [bind].
  rewrite (fget_const d s c _ W Hc). cbn [bind].
  cbn [smp FmtR]. rewrite zip_acc_repeat. cbn [bind].
  rewrite (fget_const d s c _ W Hc). cbn [bind].
  cbn [smp FmtR]. rewrite zip_acc_repeat. reflexivity.
Qed.

Lemma fold_const d s c x : WF d s -> ConstBuf c s -> forall k n0 (a : R), (n0 + k <= Nat.min (idx s + 1) d)%nat ->
  fold_range NumR FmtR (step s x d) (repeat a ch) n0 k = Ok (repeat (a + c * ksum_from d x n0 k) ch).
Proof.
  intros W Hc. induction k as [|k IH]; intros n0 a Hk; cbn [fold_range ksum_from].
  - f_equal. f_equal. rring.
  - rewrite (step_const d s c x a n0 W Hc) by lia. cbn [bind].
    rewrite IH by lia. f_equal. f_equal. rring.
Qed.

(* primed, constant buffer: the output frame is c times the weight sum, on every channel *)
Theorem interpolate_const d s c x : WF d s -> idx s = d -> ConstBuf c s ->
  interp s x = Ok (repeat (c * ksum d x) ch).
Proof.
  intros W Hi Hc. unfold interpolate.
  rewrite (max_depth_wf _ _ _ d s W), (sdepth_wf _ _ _ d s W). cbn [bind].
  rewrite Hi. replace (Nat.min (d + 1) d) with d by lia.
  unfold equil_frame. cbn [equil FmtR].
  etransitivity; [exact (fold_const d s c x W Hc d 0%nat 0 ltac:(lia))|].
  unfold ksum. f_equal. f_equal. rring.
Qed.

(* from a bound on the weight sum to the 1 % clause; x = 0 is the grid case (exact) *)
Theorem interpolate_const_close d s c x (eps : R) : WF d s -> idx s = d -> ConstBuf c s -> 0 <= x < 1 -> 0 <= eps ->
  (forall y, 0 < y < 1 -> Rabs (K (INR d) y 0 d - 1) <= eps) ->
  exists fr, interp s x = Ok fr /\ length fr = ch /\ Forall (fun y => Rabs (y - c) <= eps * Rabs c) fr.
Proof.
  intros W Hi Hc Hx He HK. destruct (Req_dec x 0) as [->|Hx0].
  - exists (repeat c ch). rewrite (interpolate_grid ch d s W), (fget_const d s c _ W Hc).
    split; [reflexivity|]. split; [apply repeat_length|].
    apply Forall_forall. intros y Hy. apply repeat_spec in Hy. subst y.
    unfold Rminus. rewrite Rplus_opp_r, Rabs_R0. apply Rmult_le_pos; [exact He|apply Rabs_pos].
  - exists (repeat (c * ksum d x) ch). split; [apply interpolate_const; assumption|].
    split; [apply repeat_length|].
    apply Forall_forall. intros y Hy. apply repeat_spec in Hy. subst y.
    rewrite ksum_K by lra.
    replace (c * K (INR d) x 0 d - c) with ((K (INR d) x 0 d - 1) * c) by ring.
    rewrite Rabs_mult. apply Rmult_le_compat_r; [apply Rabs_pos|]. apply HK. lra.
Qed.

End Const.
