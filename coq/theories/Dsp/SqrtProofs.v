(* The no_std square-root bit trick on Flocq floats: for every normal x >= 0 the result is
   within 7% of the real square root (f32 and f64), the u32/u64 addition never wraps (so a debug
   build does not panic), zero maps to a negligible value. *)
Require Import Floats.SpecFloat.
Require Import ZArith Reals Bool Lia Lra.
From Flocq Require Import Core BinarySingleNaN.
From Flocq Require Binary Bits.
From Dasp Require Import Base.Float Dsp.Sqrt Dsp.SqrtReal.
From DaspGen Require Import SqrtMagic.
Open Scope Z_scope.

(* mantissa and exponent range of a finite float *)
Lemma bounded_range prec emax m e : (0 < prec) -> SpecFloat.bounded prec emax m e = true ->
  Z.pos m < 2 ^ prec /\ 3 - emax - prec <= e <= emax - prec.
Proof.
  intros Hp H. unfold SpecFloat.bounded in H. apply andb_prop in H. destruct H as [H1 H2].
  apply Zle_bool_imp_le in H2.
  unfold SpecFloat.canonical_mantissa in H1. apply Zeq_bool_eq in H1.
  unfold SpecFloat.fexp, SpecFloat.emin in H1.
  rewrite Digits.Zpos_digits2_pos in H1.
  pose proof (Digits.Zdigits_correct radix2 (Z.pos m)) as [_ Hd].
  rewrite Z.abs_eq in Hd by lia. change (radix_val radix2) with 2 in Hd.
  assert (Hdg : Digits.Zdigits radix2 (Z.pos m) <= prec) by lia.
  split; [|lia].
  apply Z.lt_le_trans with (1 := Hd). apply Z.pow_le_mono_r; lia.
Qed.

(* ---------- binary32 ---------- *)
Definition normal32 (x : f32) : Prop :=
  match x with B754_finite false m _ _ => 2 ^ 23 <= Z.pos m | _ => False end.

Lemma bits32_normal m e H : 2 ^ 23 <= Z.pos m ->
  let x : f32 := B754_finite false m e H in
  F32.bits x = (e + 150) * 2 ^ 23 + (Z.pos m - 2 ^ 23) /\
  0 <= Z.pos m - 2 ^ 23 < 2 ^ 23 /\ 1 <= e + 150 <= 254 /\
  B2R x = dec 23 127 (e + 150) (Z.pos m - 2 ^ 23).
Proof.
  intros Hn x. destruct (bounded_range 24 128 m e ltac:(lia) H) as [Hm He].
  split; [|split; [lia|split; [lia|]]].
  - unfold x, F32.bits, gbits. cbv zeta. rewrite (Zle_imp_le_bool _ _ Hn). lia.
  - unfold x, dec. simpl B2R. unfold F2R. cbn [Fnum Fexp cond_Zopp].
    replace (e + 150 - 127) with (23 + e) by lia. rewrite bpow_plus.
    rewrite minus_IZR. change (IZR (2 ^ 23)) with (bpow radix2 23).
    pose proof (bpow_gt_0 radix2 23). field. lra.
Qed.

Lemma of_bits32_normal k M : 1 <= k <= 254 -> 0 <= M < 2 ^ 23 ->
  B2R (F32.of_bits (k * 2 ^ 23 + M)) = dec 23 127 k M.
Proof.
  intros Hk HM. unfold F32.of_bits. rewrite Binary.B2R_B2BSN.
  unfold Bits.b32_of_bits, Bits.binary_float_of_bits. rewrite Binary.B2R_FF2B.
  unfold Bits.binary_float_of_bits_aux, Bits.split_bits.
  assert (E1 : (k * 2 ^ 23 + M) mod 2 ^ 23 = M).
  { rewrite Z.add_comm, Z.mod_add by lia. apply Z.mod_small. lia. }
  assert (E2 : ((k * 2 ^ 23 + M) / 2 ^ 23) mod 2 ^ 8 = k).
  { rewrite Z.add_comm, Z.div_add by lia. rewrite (Z.div_small M) by lia. apply Z.mod_small. lia. }
  rewrite E1, E2.
  assert (Hk0 : Zeq_bool k 0 = false) by (apply Zeq_is_eq_bool_false || (destruct (Zeq_bool_spec k 0); [lia|reflexivity])).
  rewrite Hk0.
  assert (Hk1 : Zeq_bool k (2 ^ 8 - 1) = false) by (destruct (Zeq_bool_spec k (2 ^ 8 - 1)); [lia|reflexivity]).
  rewrite Hk1.
  destruct (M + 2 ^ 23) as [|px|px] eqn:EM; try lia.
  unfold Binary.FF2R, dec, F2R. cbn [Fnum Fexp cond_Zopp].
  match goal with |- context [Z.leb ?a ?b] => assert (Hs : Z.leb a b = false) by (apply Z.leb_gt; lia) end.
  rewrite Hs. cbn [cond_Zopp].
  change (emin (23 + 1) (2 ^ (8 - 1))) with (-149).
  replace (k + -149 - 1) with (- 23 + (k - 127)) by lia. rewrite bpow_plus.
  rewrite <- EM, plus_IZR. change (IZR (2 ^ 23)) with (bpow radix2 23).
  change (bpow radix2 (-23)) with (/ bpow radix2 23)%R. pose proof (bpow_gt_0 radix2 23). field. lra.
Qed.

Lemma trick32_bits z : 0 <= z < 255 * 2 ^ 23 ->
  trick_bits 32 magic32 shift32 z = (z + 127 * 2 ^ 23) / 2 /\ z + magic32 < 2 ^ 32.
Proof.
  intros Hz. unfold trick_bits, magic32, shift32. rewrite Z.shiftr_div_pow2 by lia.
  rewrite Z.mod_small by lia. split; [reflexivity|lia].
Qed.

Theorem sqrt_trick32_bound (x : f32) : normal32 x ->
  (Rabs (B2R (sqrt_trick32 x) - sqrt (B2R x)) <= 0.07 * sqrt (B2R x))%R /\
  F32.bits x + magic32 < 2 ^ 32.
Proof.
  destruct x as [b|b| |[|] m e H]; unfold normal32; try contradiction. intros Hn.
  destruct (bits32_normal m e H Hn) as (Hb & HM & He & HR). cbv zeta in Hb, HR.
  assert (Hz : 0 <= F32.bits (B754_finite false m e H) < 255 * 2 ^ 23) by (rewrite Hb; lia).
  destruct (trick32_bits _ Hz) as [Ht Hov]. split; [|exact Hov].
  unfold sqrt_trick32. change (F32.geb (B754_finite false m e H) F32.zero) with true. cbv iota.
  rewrite Ht, HR, Hb.
  destruct (trick_value 23 127 (e + 150) (Z.pos m - 2 ^ 23) ltac:(lia) eq_refl HM) as (k & M' & Ez & HM' & Hk & Hbound).
  replace ((e + 150) * 2 ^ 23 + (Z.pos m - 2 ^ 23) + 127 * 2 ^ 23) with ((e + 150) * 2 ^ 23 + (Z.pos m - 2 ^ 23) + 127 * 2 ^ 23) by reflexivity.
  rewrite Ez.
  assert (Hkr : 1 <= k <= 254).
  { subst k. split; [apply Z.div_le_lower_bound; lia|apply Z.div_le_upper_bound; lia]. }
  rewrite (of_bits32_normal k M' Hkr HM'). exact Hbound.
Qed.

(* ---------- binary64 ---------- *)
Definition normal64 (x : f64) : Prop :=
  match x with B754_finite false m _ _ => 2 ^ 52 <= Z.pos m | _ => False end.

Lemma bits64_normal m e H : 2 ^ 52 <= Z.pos m ->
  let x : f64 := B754_finite false m e H in
  F64.bits x = (e + 1075) * 2 ^ 52 + (Z.pos m - 2 ^ 52) /\
  0 <= Z.pos m - 2 ^ 52 < 2 ^ 52 /\ 1 <= e + 1075 <= 2046 /\
  B2R x = dec 52 1023 (e + 1075) (Z.pos m - 2 ^ 52).
Proof.
  intros Hn x. destruct (bounded_range 53 1024 m e ltac:(lia) H) as [Hm He].
  split; [|split; [lia|split; [lia|]]].
  - unfold x, F64.bits, gbits. cbv zeta. rewrite (Zle_imp_le_bool _ _ Hn). lia.
  - unfold x, dec. simpl B2R. unfold F2R. cbn [Fnum Fexp cond_Zopp].
    replace (e + 1075 - 1023) with (52 + e) by lia. rewrite bpow_plus.
    rewrite minus_IZR. change (IZR (2 ^ 52)) with (bpow radix2 52).
    pose proof (bpow_gt_0 radix2 52). field. lra.
Qed.

Lemma of_bits64_normal k M : 1 <= k <= 2046 -> 0 <= M < 2 ^ 52 ->
  B2R (F64.of_bits (k * 2 ^ 52 + M)) = dec 52 1023 k M.
Proof.
  intros Hk HM. unfold F64.of_bits. rewrite Binary.B2R_B2BSN.
  unfold Bits.b64_of_bits, Bits.binary_float_of_bits. rewrite Binary.B2R_FF2B.
  unfold Bits.binary_float_of_bits_aux, Bits.split_bits.
  assert (E1 : (k * 2 ^ 52 + M) mod 2 ^ 52 = M).
  { rewrite Z.add_comm, Z.mod_add by lia. apply Z.mod_small. lia. }
  assert (E2 : ((k * 2 ^ 52 + M) / 2 ^ 52) mod 2 ^ 11 = k).
  { rewrite Z.add_comm, Z.div_add by lia. rewrite (Z.div_small M) by lia. apply Z.mod_small. lia. }
  rewrite E1, E2.
  assert (Hk0 : Zeq_bool k 0 = false) by (destruct (Zeq_bool_spec k 0); [lia|reflexivity]).
  rewrite Hk0.
  assert (Hk1 : Zeq_bool k (2 ^ 11 - 1) = false) by (destruct (Zeq_bool_spec k (2 ^ 11 - 1)); [lia|reflexivity]).
  rewrite Hk1.
  destruct (M + 2 ^ 52) as [|px|px] eqn:EM; try lia.
  unfold Binary.FF2R, dec, F2R. cbn [Fnum Fexp cond_Zopp].
  match goal with |- context [Z.leb ?a ?b] => assert (Hs : Z.leb a b = false) by (apply Z.leb_gt; lia) end.
  rewrite Hs. cbn [cond_Zopp].
  change (emin (52 + 1) (2 ^ (11 - 1))) with (-1074).
  replace (k + -1074 - 1) with (- 52 + (k - 1023)) by lia. rewrite bpow_plus.
  rewrite <- EM, plus_IZR. change (IZR (2 ^ 52)) with (bpow radix2 52).
  change (bpow radix2 (-52)) with (/ bpow radix2 52)%R. pose proof (bpow_gt_0 radix2 52). field. lra.
Qed.

Lemma trick64_bits z : 0 <= z < 2047 * 2 ^ 52 ->
  trick_bits 64 magic64 shift64 z = (z + 1023 * 2 ^ 52) / 2 /\ z + magic64 < 2 ^ 64.
Proof.
  intros Hz. unfold trick_bits, magic64, shift64. rewrite Z.shiftr_div_pow2 by lia.
  rewrite Z.mod_small by lia. split; [reflexivity|lia].
Qed.

Theorem sqrt_trick64_bound (x : f64) : normal64 x ->
  (Rabs (B2R (sqrt_trick64 x) - sqrt (B2R x)) <= 0.07 * sqrt (B2R x))%R /\
  F64.bits x + magic64 < 2 ^ 64.
Proof.
  destruct x as [b|b| |[|] m e H]; unfold normal64; try contradiction. intros Hn.
  destruct (bits64_normal m e H Hn) as (Hb & HM & He & HR). cbv zeta in Hb, HR.
  assert (Hz : 0 <= F64.bits (B754_finite false m e H) < 2047 * 2 ^ 52) by (rewrite Hb; lia).
  destruct (trick64_bits _ Hz) as [Ht Hov]. split; [|exact Hov].
  unfold sqrt_trick64. change (F64.geb (B754_finite false m e H) F64.zero) with true. cbv iota.
  rewrite Ht, HR, Hb.
  destruct (trick_value 52 1023 (e + 1075) (Z.pos m - 2 ^ 52) ltac:(lia) eq_refl HM) as (k & M' & Ez & HM' & Hk & Hbound).
  rewrite Ez.
  assert (Hkr : 1 <= k <= 2046).
  { subst k. split; [apply Z.div_le_lower_bound; lia|apply Z.div_le_upper_bound; lia]. }
  rewrite (of_bits64_normal k M' Hkr HM'). exact Hbound.
Qed.

(* zero: a negligible positive value instead of 0 (1.5 * 2^-64, resp. 1.5 * 2^-512) *)
Lemma sqrt_trick_zero :
  F32.bits (sqrt_trick32 F32.zero) = 532676608 /\ F64.bits (sqrt_trick64 F64.zero) = 2303591209400008704.
Proof. split; vm_compute; reflexivity. Qed.
