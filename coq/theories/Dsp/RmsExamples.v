(* Non-vacuity: concrete non-trivial instances of the hypotheses of the C11 theorems. *)
Require Import Floats.SpecFloat.
Require Import ZArith Reals List Bool Lia.
From Flocq Require Import Core BinarySingleNaN.
From Dasp Require Import Base.Res Base.Float Ring.Fixed Dsp.Rms Dsp.Sqrt Dsp.RmsInst Dsp.RmsErr
  Dsp.RmsProofs Dsp.RmsIeee Dsp.SqrtProofs Dsp.RmsRun Dsp.RmsDrift.
Import ListNotations.

(* a history longer than the window with a reset inside meets the hypotheses of c11_value *)
Example value_hyps :
  (1 <= 2)%nat /\ (1 < 2)%nat /\
  Forall (op_ok 2) [@ONext NumR [1; 2]%R; @ONext NumR [3; 4]%R; @ONextSq NumR [5; 6]%R; OCurrent; OReset;
                    @ONext NumR [7; 8]%R; @ONext NumR [1; 1]%R; @ONext NumR [0; 2]%R].
Proof. repeat split; try lia; repeat constructor. Qed.

(* IEEE theorem: a wrapped f32 state (first = 1), loud then quiet, eviction happens, sums finite *)
Definition ex_state : rms NumF32std :=
  rms_new NumF32std 1 {| first := 1; fdata := [[F32.zero]; [F32.zero]] |}.
Definition ex_loud : f32 := F32.of_Z 1000.
Definition ex_quiet : f32 := F32.div F32.one (F32.of_Z 1000).

Example nonneg_hyps :
  match run NumF32std ex_state [@ONext NumF32std [ex_loud]; @ONext NumF32std [ex_loud]; @ONext NumF32std [ex_quiet]] with
  | Ok (st2, _) =>
    (1 <= flen (window NumF32std st2))%nat /\
    match rms_next NumF32std st2 [ex_quiet] with
    | Ok (st3, out) => forallb F32.is_finite (square_sum NumF32std st3) = true /\
                       forallb (fun o => negb (F32.is_nan o)) out = true
    | _ => False
    end
  | _ => False
  end.
Proof. vm_compute. repeat split; try reflexivity; lia. Qed.

(* the sqrt-trick theorems are about normal floats: 1.0, 2.0 (odd exponent), the smallest normal *)
Example normal_one : normal32 F32.one /\ normal32 (F32.of_Z 2) /\ normal32 (F32.of_bits 8388608) /\
                     normal64 F64.one /\ normal64 (F64.of_bits 4503599627370496).
Proof. vm_compute. repeat split; discriminate. Qed.

Example trick_values :
  F32.bits (sqrt_trick32 F32.one) = F32.bits F32.one /\
  F32.bits (sqrt_trick32 (F32.of_Z 4)) = F32.bits (F32.of_Z 2) /\
  F64.bits (sqrt_trick64 (F64.of_Z 4)) = F64.bits (F64.of_Z 2) /\
  F32.bits (sqrt_trick32 (F32.of_Z 2)) = 1069547520%Z (* 1.5 for sqrt 2 *).
Proof. vm_compute. repeat split. Qed.

(* the error-bound verdict on the quiet-after-loud run above: the bound is not vacuous (it is
   finite and the observed sums lie inside it), and it REJECTS a sum that is off by 1 at 1e6 *)
Example verdict_accepts :
  check_code (RCase 0 0 1 1 [[0]; [0]]
     [ZNext [1148846080]; ZNext [1148846080]; ZNext [981668463]; ZNext [981668463]; ZReset; ZNext [1065353216]],
     run_case (RCase 0 0 1 1 [[0]; [0]]
     [ZNext [1148846080]; ZNext [1148846080]; ZNext [981668463]; ZNext [981668463]; ZReset; ZNext [1065353216]])) = 0%Z.
Proof. vm_compute. reflexivity. Qed.

Example verdict_rejects :
  e_verdict (u_of 24) (eta_of 24 128) 2 (e_init 2)
    [EPush (B2D ex_loud) (B2D (F32.mul ex_loud ex_loud)); EPush (B2D ex_quiet) (B2D (F32.of_Z 1000000))] = true /\
  e_verdict (u_of 24) (eta_of 24 128) 2 (e_init 2)
    [EPush (B2D ex_loud) (B2D (F32.mul ex_loud ex_loud)); EPush (B2D ex_quiet) (B2D (F32.of_Z 1000001))] = false.
Proof. vm_compute. split; reflexivity. Qed.

(* ---- non-vacuity of c11_drift_bound / c11_output_bound: a concrete f32 history (window 2, start
   index 1, loud, loud, quiet, current, quiet -- the loud squares are evicted --, reset, 1.0, quiet,
   quiet) meets every hypothesis; the bound E it yields is finite and small (about 1.07 after the
   loud/quiet part where the exact window sum is 2e-6 and the stored float sum is 0 -- the bound is
   absolute, as the running sum's error is; about 5.4e-7 at the end, E restarted at the reset) ---- *)
Definition drift_ops : list (op NumF32std) :=
  [@ONext NumF32std [ex_loud]; @ONext NumF32std [ex_loud]; @ONextSq NumF32std [ex_quiet]; OCurrent;
   @ONext NumF32std [ex_quiet]; OReset;
   @ONext NumF32std [F32.one]; @ONext NumF32std [ex_quiet]; @ONext NumF32std [ex_quiet]].

Example drift_hyps :
  (1 <= 2)%nat /\ (Z.of_nat 2 <= 2 ^ 24)%Z /\ (1 < 2)%nat /\ Forall (opK_ok NumF32std 1) drift_ops /\
  sums_ok NumF32std F32.is_finite (new_stateK NumF32std 2 1 1) drift_ops = true.
Proof. split; [lia|]. split; [lia|]. split; [lia|]. split; [repeat constructor|vm_compute; reflexivity]. Qed.

Example drift_values :
  (let e := e_after 24 128 2 (chan_evs NumF32std 0 (firstn 5 drift_ops)) in
   esum e = Float radix2 147573966608450 (-66) /\ dleb (eerr e) (Float radix2 11 (-3)) = true /\
   dleb (Float radix2 1 0) (eerr e) = true) /\
  (let e := e_after 24 128 2 (chan_evs NumF32std 0 drift_ops) in
   esum e = Float radix2 147573966608450 (-66) /\ dleb (eerr e) (Float radix2 1 (-20)) = true) /\
  match run NumF32std (new_stateK NumF32std 2 1 1) (firstn 5 drift_ops) with
  | Ok (st, _) => map B2Dy (square_sum NumF32std st) = [d0]
  | _ => False
  end.
Proof. vm_compute. repeat split; reflexivity. Qed.

(* two channels, f64, N = 3 > number of pushes before the reset (zero padding), then eviction *)
Definition drift_ops64 : list (op NumF64std) :=
  [@ONext NumF64std [F64.of_Z 3; F64.of_Z (-4)]; @ONext NumF64std [F64.one; F64.of_Z 1000000]; OReset;
   @ONextSq NumF64std [F64.of_Z 5; F64.one]; @ONext NumF64std [F64.one; F64.one];
   @ONext NumF64std [F64.div F64.one (F64.of_Z 3); F64.one]; @ONext NumF64std [F64.one; F64.of_Z 7]].

Example drift_hyps64 :
  (1 <= 3)%nat /\ (Z.of_nat 3 <= 2 ^ 24)%Z /\ (2 < 3)%nat /\ Forall (opK_ok NumF64std 2) drift_ops64 /\
  sums_ok NumF64std F64.is_finite (new_stateK NumF64std 3 2 2) drift_ops64 = true.
Proof. split; [lia|]. split; [lia|]. split; [lia|]. split; [repeat constructor|vm_compute; reflexivity]. Qed.

(* the zero-window state of the theorems is the state of the examples above and the state the
   correspondence builds for an all-zero `init` (RmsRun.mk_state); the dyadic reading of a float in
   the theorems is the one of the verdict *)
Example new_state_is_ex_state : new_stateK NumF32std 2 1 1 = ex_state.
Proof. reflexivity. Qed.

Example new_state_is_mk_state :
  mk_state NumF32std F32.of_bits 2 1 [[0; 0]; [0; 0]; [0; 0]]%Z = Ok (new_stateK NumF32std 3 2 1).
Proof. reflexivity. Qed.

Example dyadic_reading_same : forall prec emax, @B2D prec emax = @B2Dy prec emax.
Proof. reflexivity. Qed.
