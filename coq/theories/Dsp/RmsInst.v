(* The two arithmetics of the RMS model: Coq reals (exact) and IEEE binary32/binary64
   (std sqrt or the no_std bit trick). *)
Require Import Floats.SpecFloat.
Require Import ZArith Reals Bool.
From Flocq Require Import Core BinarySingleNaN.
From Dasp Require Import Base.Float Dsp.Rms Dsp.Sqrt.

Definition NumR : num :=
  {| T := R; zero := 0%R; add := Rplus; sub := Rminus; mul := Rmult; div := Rdiv;
     ltb := Rlt_bool; of_nat := INR; sqrt := R_sqrt.sqrt |}.

(* `self.window.len() as f32` then Sample::from_sample::<f32> (identity) *)
Definition of_nat32 (n : nat) : f32 := F32.of_Z (Z.of_nat n).
(* `self.window.len() as f32` then Sample::from_sample::<f64> (`s as f64`) *)
Definition of_nat64 (n : nat) : f64 := f32_to_f64 (F32.of_Z (Z.of_nat n)).

Definition NumF32 (sq : f32 -> f32) : num :=
  {| T := f32; zero := F32.zero; add := F32.add; sub := F32.sub; mul := F32.mul; div := F32.div;
     ltb := F32.ltb; of_nat := of_nat32; sqrt := sq |}.
Definition NumF64 (sq : f64 -> f64) : num :=
  {| T := f64; zero := F64.zero; add := F64.add; sub := F64.sub; mul := F64.mul; div := F64.div;
     ltb := F64.ltb; of_nat := of_nat64; sqrt := sq |}.

Definition NumF32std := NumF32 sqrt_std32.
Definition NumF32nostd := NumF32 sqrt_trick32.
Definition NumF64std := NumF64 sqrt_std64.
Definition NumF64nostd := NumF64 sqrt_trick64.
