(* Numeric part of the C18 "constant input within 1 %" clause: bounds on sinc near 0 from the
   standard library's alternating-series bound for sin, and the tactic that bounds the Hann-windowed
   sinc weight sum K (Dsp/SincConst.v) for one concrete depth with Interval. *)
Require Import Reals Lra Lia Psatz.
From Interval Require Import Tactic.
From Dasp Require Import Dsp.SincConst.
Open Scope R_scope.

Lemma INR_fact_val (n : nat) (z : Z) : Z.of_nat (fact n) = z -> INR (fact n) = IZR z.
Proof. intros <-. apply INR_IZR_INZ. Qed.

Lemma sin_ge_cubic a : 0 <= a <= 1 -> a - a * a * a / 6 <= sin a.
Proof.
  intros [H0 H1].
  assert (Hpi : 1 <= PI) by (interval with (i_prec 40)).
  destruct (SIN a H0 ltac:(lra)) as [Hlb _].
  unfold sin_lb, sin_approx in Hlb. cbn [sum_f_R0] in Hlb. unfold sin_term in Hlb.
  rewrite (INR_fact_val (2 * 0 + 1) 1 eq_refl), (INR_fact_val (2 * 1 + 1) 6 eq_refl),
    (INR_fact_val (2 * 2 + 1) 120 eq_refl), (INR_fact_val (2 * 3 + 1) 5040 eq_refl) in Hlb.
  simpl pow in Hlb.
  pose (p5 := a * a * a * a * a).
  assert (Hp : 0 <= p5) by (unfold p5; repeat apply Rmult_le_pos; lra).
  assert (Ha2 : a * a <= 1) by nra.
  assert (Hq : p5 * (a * a) <= p5).
  { rewrite <- (Rmult_1_r p5) at 2. apply Rmult_le_compat_l; assumption. }
  match type of Hlb with ?L <= _ =>
    replace L with (a - a * a * a / 6 + (p5 / 120 - p5 * (a * a) / 5040)) in Hlb by (unfold p5; field) end.
  lra.
Qed.

Lemma sinc_bounds a : 0 < a <= 1 -> 1 - a * a / 6 <= sin a / a <= 1.
Proof.
  intros [H0 H1]. split.
  - pose proof (sin_ge_cubic a ltac:(lra)) as H.
    apply Rmult_le_reg_r with a; [exact H0|].
    replace (sin a / a * a) with (sin a) by (field; lra).
    replace ((1 - a * a / 6) * a) with (a - a * a * a / 6) by field. exact H.
  - apply Rmult_le_reg_r with a; [exact H0|].
    replace (sin a / a * a) with (sin a) by (field; lra).
    pose proof (sin_lt_x a H0). lra.
Qed.

(* sinc (PI * y) for 0 < y <= 1/64 *)
Lemma sinc_near_0 y : 0 < y <= 1 / 64 -> 9993 / 10000 <= sin (PI * y) / (PI * y) <= 1.
Proof.
  intros [H0 H1].
  assert (Ha : 0 < PI * y) by (apply Rmult_lt_0_compat; [apply PI_RGT_0|exact H0]).
  assert (Hb : PI * y <= 1) by (interval with (i_prec 40)).
  destruct (sinc_bounds (PI * y) (conj Ha Hb)) as [L U]. split; [|exact U].
  eapply Rle_trans; [|exact L]. interval with (i_prec 40).
Qed.

(* One depth: |K d x - 1| <= 1/100 on (0, 1).  Three regions.  Near x = 0 the left tap 0 is
   sinc(PI x) * hann, with sinc(PI x) in [0.9993, 1] (sinc_near_0) abstracted as a variable; near x = 1 the
   same for the right tap 0; in the middle no argument of a sinc is near 0.  Interval: bisection on x
   (Taylor models in the middle region, plain interval evaluation as fall-back and near the ends, where
   this Interval version's Taylor model of sin around a multiple of PI is too wide). *)
Ltac kbound :=
  let x := fresh "x" in let H0 := fresh "H0" in let H1 := fresh "H1" in
  intros x [H0 H1];
  destruct (Rle_lt_dec x (1 / 64)) as [Hs|Hs]; [|destruct (Rle_lt_dec (63 / 64) x) as [Hl|Hl]];
  cbn [K]; unfold hw;
  [ pose proof (sinc_near_0 (x + 0) ltac:(lra)) as Hsn;
    set (s := sin (PI * (x + 0)) / (PI * (x + 0))) in *; clearbody s;
    assert (Hx : 0 <= x <= 1 / 64) by lra; clear - Hx Hsn;
    interval with (i_bisect x, i_depth 30, i_prec 40)
  | pose proof (sinc_near_0 (1 - x + 0) ltac:(lra)) as Hsn;
    set (s := sin (PI * (1 - x + 0)) / (PI * (1 - x + 0))) in *; clearbody s;
    assert (Hx : 63 / 64 <= x <= 1) by lra; clear - Hx Hsn;
    interval with (i_bisect x, i_depth 30, i_prec 40)
  | assert (Hx : 1 / 64 <= x <= 63 / 64) by lra; clear - Hx;
    first [ interval with (i_bisect x, i_taylor x, i_degree 5, i_depth 30, i_prec 40)
          | interval with (i_bisect x, i_depth 30, i_prec 40) ] ].
