(* FloatSample::sample_sqrt (dasp_sample/src/lib.rs:309-323 -> dasp_sample/src/ops.rs).
   std build:    x.sqrt()  = IEEE-754 correctly rounded square root = Bsqrt mode_NE.
   no_std build: if x >= 0.0 { from_bits((x.to_bits() + MAGIC) >> K) } else { NAN }
   on the unsigned bit pattern (u32 / u64; the addition is reduced modulo 2^W as in a
   release build -- SqrtProofs.v shows it never wraps, so a debug build does not panic).
   MAGIC and K are read from the source by translate/sqrt_magic.py (gen/SqrtMagic.v). *)
Require Import Floats.SpecFloat.
Require Import ZArith Bool.
From Flocq Require Import Core BinarySingleNaN.
From Dasp Require Import Base.Float.
From DaspGen Require Import SqrtMagic.
Open Scope Z_scope.

Definition sqrt_std32 : f32 -> f32 := F32.sqrt.
Definition sqrt_std64 : f64 -> f64 := F64.sqrt.

(* the integer part of the trick, on bit patterns *)
Definition trick_bits (width magic shift bits : Z) : Z :=
  Z.shiftr ((bits + magic) mod 2 ^ width) shift.

Definition sqrt_trick32 (x : f32) : f32 :=
  if F32.geb x F32.zero then F32.of_bits (trick_bits 32 magic32 shift32 (F32.bits x))
  else B754_nan.

Definition sqrt_trick64 (x : f64) : f64 :=
  if F64.geb x F64.zero then F64.of_bits (trick_bits 64 magic64 shift64 (F64.bits x))
  else B754_nan.
