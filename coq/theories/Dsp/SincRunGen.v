(* The executable sinc model (Dsp/Sinc.v on IEEE binary64, Dsp/SincRun.v) for ALL fourteen sample formats,
   over the C03 sample model: Sample/SampleOps.v (`to_sample::<f64>()`, `to_sample::<S>()`,
   `to_signed_sample`, `add_amp`, built from the GENERATED conversions gen/ConvGen.v, gen/ConvFloatGen.v,
   gen/SampleTable.v, regenerated from /repo on every run).

   The regenerated model must not FOLLOW a wrong conversion silently.  Three things are therefore taken
   from the SPECIFICATION (Sample/ConvSpec.v, IEEE) and compared with what the generated model computes:
     - Frame::EQUILIBRIUM is the true equilibrium (0 / 2^(bits-1) / +0.0);
     - `to_sample::<f64>()` of every input sample of the case (and of the equilibrium) must be
       amplitude / 2^(bits-1) (f32: exact widening); otherwise the case is answered [[-7]];
     - every tap accumulation `vs.add_amp((p).to_sample::<S>().to_signed_sample())` is compared with
       the specification value (on the documented domain -1 <= p < 1: trunc(p * 2^(bits-1)) added to the
       amplitude of vs, overflow exactly when that sum leaves the format's range; floats: IEEE narrowing
       and addition); a difference -- a value where the specification has another value, a panic where
       it has a value, a value where it overflows -- becomes UB, i.e. a disagreement with the crate.
   Codes: 10 + ConvSpec.fmt_code for the integer formats, 22 = f32, 23 = f64 (0, 1, 2 stay the hand
   instances of Dsp/SincRun.v).  Integer samples travel as their (inner) value. *)
Require Import Floats.SpecFloat.
Require Import List ZArith Bool.
From Flocq Require Import Core BinarySingleNaN.
From Dasp Require Import Base.Res Base.ListX Base.Float Ring.Bounded Ring.Fixed Dsp.Sinc Dsp.SincRun.
From Dasp Require Import Sample.Rint Sample.ConvSpec Sample.SampleFmt Sample.SampleOps.
From DaspGen Require Import FormatTable SampleTable.
Import ListNotations.
Open Scope Z_scope.

Definition true_equil (f : sfmt) : sty f :=
  match f with SInt fi => equilibrium fi | SF32 => F32.zero | SF64 => F64.zero end.

(* specification of to_sample::<f64>(), as bits *)
Definition spec_to_f64 (f : sfmt) (z : Z) : Z :=
  match f with
  | SInt fi => F64.bits (F64.div (F64.of_Z (amp fi z)) (F64.of_Z (half fi)))
  | SF32 => F64.bits (f32_to_f64 (F32.of_bits z))
  | SF64 => F64.bits (F64.of_bits z)
  end.

Definition gen_to_f64 (f : sfmt) (s : sty f) : res f64 := conv Checked f SF64 s.

Definition input_ok (f : sfmt) (z : Z) : bool :=
  match gen_to_f64 f (dec f z) with
  | Ok v => F64.bits v =? spec_to_f64 f z
  | _ => false
  end.

(* specification of one tap accumulation on the Z encoding:
   None = outside the documented domain (nothing to compare), Some None = overflow, Some (Some w) = value *)
Definition spec_tap (f : sfmt) (v : Z) (p : f64) : option (option Z) :=
  match f with
  | SInt fi =>
    if F64.leb (F64.of_Z (-1)) p && F64.ltb p (F64.of_Z 1) then
      let q := F64.to_Z_sat (- 2 ^ 70) (2 ^ 70) (F64.mul p (F64.of_Z (half fi))) in
      let sum := amp fi v + q in
      if (- half fi <=? sum) && (sum <=? half fi - 1)
      then Some (Some (sum + (if signed fi then 0 else half fi)))
      else Some None
    else None
  | SF32 => Some (Some (F32.bits (F32.add (F32.of_bits v) (f64_to_f32 p))))
  | SF64 => Some (Some (F64.bits (F64.add (F64.of_bits v) p)))
  end.

(* vs.add_amp(p.to_sample::<S>().to_signed_sample()) through the generated model *)
Definition gen_tap (f : sfmt) (v : sty f) (p : f64) : res (sty f) :=
  let* y := conv Checked SF64 f p in
  let* a := to_signed Checked f y in
  add_amp Checked f v a.

Definition guarded_tap (f : sfmt) (v : sty f) (p : f64) : res (sty f) :=
  match gen_tap f v p, spec_tap f (enc f v) p with
  | Ok x, Some (Some w) => if enc f x =? w then Ok x else UB
  | Ok _, Some None => UB
  | Panic _, Some (Some _) => UB
  | Panic _, Some None => Panic POverflow
  | Panic _, None => Panic POverflow
  | r, None => r
  | UB, _ => UB
  end.

Definition FmtGen (f : sfmt) : Sinc.fmt NumF64 :=
  @Build_fmt NumF64 (sty f) (true_equil f)
    (fun s : sty f => match gen_to_f64 f s with Ok v => v | _ => B754_nan end)
    (fun (v : sty f) (p : f64) => guarded_tap f v p).

Definition gen_code (c : Z) : option sfmt := if 10 <=? c then sfmt_of_code (c - 10) else None.

(* every input sample of a case, and the equilibrium *)
Fixpoint op_samples (ops : list zop) : list Z :=
  match ops with
  | [] => []
  | ZPush fr :: t => fr ++ op_samples t
  | _ :: t => op_samples t
  end.

Definition case_samples (c : scase) : list Z :=
  match c with
  | DCase _ _ _ _ _ ops => op_samples ops
  | VCase _ _ _ _ source _ _ ops => concat source ++ op_samples ops
  end.

Definition case_code (c : scase) : Z :=
  match c with DCase fc _ _ _ _ _ => fc | VCase fc _ _ _ _ _ _ _ => fc end.

Definition run_case_all (c : scase) (sin_v cos_v : list Z) : list (list Z) :=
  match gen_code (case_code c) with
  | None => run_case c sin_v cos_v
  | Some f =>
    if forallb (input_ok f) (enc f (true_equil f) :: case_samples c) then
      match c with
      | DCase _ ch depth sa ca ops =>
        run_d (FmtGen f) (dec f) (enc f) (combine sa sin_v) (combine ca cos_v) (Z.to_nat ch) (Z.to_nat depth) ops
      | VCase _ ch depth ratio source sa ca ops =>
        run_v (FmtGen f) (dec f) (enc f) (combine sa sin_v) (combine ca cos_v) (Z.to_nat ch) (Z.to_nat depth) ratio source ops
      end
    else [[-7]]
  end.

Definition check_all (c : scase * list (list Z)) : bool :=
  match snd c with
  | sin_v :: cos_v :: rest =>
    (length sin_v =? length (fst (case_args (fst c))))%nat
    && (length cos_v =? length (snd (case_args (fst c))))%nat
    && zll_eqb (run_case_all (fst c) sin_v cos_v) rest
  | _ => false
  end.
