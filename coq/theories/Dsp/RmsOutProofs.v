(* The output of the IEEE detector (std build: correctly rounded division and square root) against
   the true RMS of the last N inputs:
     |out - rms| <= (1 + 3u) sqrt(E/N) + 3u rms + 3 sqrt(eta)
   E = the executable drift bound of the running sum (RmsDriftProofs.drift_bound_gen), u = 2^-prec,
   eta = 2^(emin-1).  The sqrt(eta) term is the underflow of the division sum/N (a subnormal quotient
   has an absolute error of up to eta, the square root turns it into sqrt(eta): 2^-75 for binary32,
   2^-538 for binary64); it cannot be removed.  Needs `len as f32` exact, i.e. N <= 2^24. *)
Require Import Floats.SpecFloat.
Require Import ZArith Reals List Bool Arith Lia Lra Psatz.
From Flocq Require Import Core BinarySingleNaN Relative Calc.Operations.
From Dasp Require Import Base.Res Base.ListX Base.Float Base.FloatLemmas Ring.Bounded Ring.Fixed Ring.FixedSpec
  Dsp.Rms Dsp.Sqrt Dsp.RmsInst Dsp.RmsErr Dsp.RmsErrProofs Dsp.RmsProofs Dsp.RmsDrift Dsp.RmsProjProofs
  Dsp.RmsDriftProofs.
Import ListNotations.
Open Scope R_scope.
Notation sqrt := R_sqrt.sqrt.

(* ---------- real square root ---------- *)
Lemma sqrt_diff (a b : R) : 0 <= a -> 0 <= b -> Rabs (sqrt a - sqrt b) <= sqrt (Rabs (a - b)).
Proof.
  assert (H : forall a b, 0 <= b -> b <= a -> sqrt a - sqrt b <= sqrt (a - b)).
  { intros x y Hy Hxy.
    pose proof (sqrt_pos x) as Px. pose proof (sqrt_pos y) as Py. pose proof (sqrt_pos (x - y)) as Pr.
    pose proof (sqrt_def x ltac:(lra)) as Dx. pose proof (sqrt_def y Hy) as Dy.
    pose proof (sqrt_def (x - y) ltac:(lra)) as Dr.
    destruct (Rle_or_lt (sqrt x - sqrt y) (sqrt (x - y))) as [L|L]; [exact L|]. exfalso. nra. }
  intros Ha Hb. destruct (Rle_or_lt b a) as [L|L].
  - rewrite (Rabs_pos_eq (a - b)) by lra. rewrite Rabs_pos_eq; [apply H; assumption|].
    pose proof (sqrt_le_1 b a Hb Ha L). lra.
  - rewrite (Rabs_left (a - b)) by lra. rewrite Rabs_left1.
    + replace (- (sqrt a - sqrt b)) with (sqrt b - sqrt a) by ring. replace (- (a - b)) with (b - a) by ring.
      apply H; lra.
    + pose proof (sqrt_le_1 a b Ha Hb ltac:(lra)). lra.
Qed.

Lemma sqrt_rel (a e : R) : 0 <= a -> Rabs e <= 1 -> Rabs (sqrt (a * (1 + e)) - sqrt a) <= Rabs e * sqrt a.
Proof.
  intros Ha He. apply Rabs_le_inv in He.
  rewrite sqrt_mult by lra. set (y := sqrt (1 + e)).
  assert (Py : 0 <= y) by apply sqrt_pos.
  assert (Dy : y * y = 1 + e) by (apply sqrt_def; lra).
  pose proof (sqrt_pos a) as Pa.
  replace (sqrt a * y - sqrt a) with ((y - 1) * sqrt a) by ring.
  rewrite Rabs_mult, (Rabs_pos_eq (sqrt a)) by exact Pa.
  apply Rmult_le_compat_r; [exact Pa|].
  apply Rabs_le. unfold Rabs. destruct (Rcase_abs e); split; nra.
Qed.

Lemma sqrt_ge_self (x : R) : 0 <= x <= 1 -> x <= sqrt x.
Proof.
  intros [H0 H1]. pose proof (sqrt_pos x) as P. pose proof (sqrt_def x H0) as D.
  assert (sqrt x <= 1) by (rewrite <- sqrt_1; apply sqrt_le_1; lra). nra.
Qed.

Section Out.
Variables prec emax : Z.
Context (Hp : Prec_gt_0 prec) (He : Prec_lt_emax prec emax).
Notation bf := (binary_float prec emax).
Let emin := (3 - emax - prec)%Z.
Notation fexp := (FLT_exp emin prec).
Notation rnd := (round radix2 fexp ZnearestE).
Notation z0 := (B754_zero false : bf).
Notation fdiv := (gdiv prec emax Hp He).
Notation fsqrt := (gsqrt prec emax Hp He).
Notation uR := (F2R (u_of prec)).
Notation etaR := (F2R (eta_of prec emax)).

Local Instance fexp_valid' : Valid_exp fexp := @fexp_correct prec emax Hp.

Lemma uR_le1 : uR <= 1.
Proof.
  rewrite (uR_eq prec). change 1 with (bpow radix2 0). apply bpow_le. unfold Prec_gt_0 in Hp. lia.
Qed.

Lemma etaR_le1 : etaR <= 1.
Proof.
  rewrite (etaR_eq prec emax). change 1 with (bpow radix2 0). apply bpow_le.
  unfold Prec_gt_0 in Hp. unfold Prec_lt_emax in He. lia.
Qed.

(* one channel: sqrt(sum / N) computed in floating point against the real sqrt(sum / N) *)
Lemma out_scalar (s n : bf) (Nn : nat) : (1 <= Nn)%nat ->
  is_finite s = true -> 0 <= B2R s -> B2R n = INR Nn ->
  Rabs (B2R (fsqrt (fdiv s n)) - sqrt (B2R s / INR Nn)) <= 3 * uR * sqrt (B2R s / INR Nn) + 3 * sqrt etaR.
Proof.
  intros HN Fs Ps En.
  assert (HNr : 1 <= INR Nn) by (change 1 with (INR 1); apply le_INR; exact HN).
  assert (Hi : 0 < / INR Nn <= 1).
  { split; [apply Rinv_0_lt_compat; lra|]. rewrite <- Rinv_1. apply Rinv_le_contravar; lra. }
  set (t := B2R s / INR Nn).
  assert (Pt : 0 <= t) by (unfold t, Rdiv; nra).
  assert (Lt : t <= B2R s) by (unfold t, Rdiv; nra).
  pose proof (Bdiv_correct prec emax Hp He mode_NE s n ltac:(rewrite En; lra)) as HD.
  change (round radix2 (SpecFloat.fexp prec emax) (round_mode mode_NE)) with rnd in HD.
  rewrite En in HD. fold t in HD.
  rewrite Rlt_bool_true in HD.
  2:{ apply Rle_lt_trans with (B2R s).
      - apply abs_round_le_generic; auto with typeclass_instances; [apply generic_format_B2R|].
        rewrite Rabs_pos_eq; assumption.
      - eapply Rle_lt_trans; [apply Rle_abs|apply abs_B2R_lt_emax]. }
  destruct HD as (Em & _ & _).
  destruct (Bsqrt_correct prec emax Hp He mode_NE (Bdiv mode_NE s n)) as (Eo & _ & _).
  change (round radix2 (SpecFloat.fexp prec emax) (round_mode mode_NE)) with rnd in Eo.
  unfold gsqrt, gdiv. rewrite Eo, Em. set (m := rnd t).
  assert (Pm : 0 <= m) by (apply (rnd_ge0 prec emax Hp); exact Pt).
  pose proof (uR_ge0 prec) as Pu. pose proof (etaR_ge0 prec emax) as Pe.
  pose proof uR_le1 as Lu. pose proof etaR_le1 as Le.
  set (A := sqrt t). assert (PA : 0 <= A) by apply sqrt_pos.
  assert (Pse : 0 <= sqrt etaR) by apply sqrt_pos.
  (* the quotient: relative error or (subnormal) absolute error *)
  assert (Hm : Rabs (sqrt m - A) <= uR * A + sqrt etaR).
  { destruct (error_N_FLT radix2 emin prec Hp (fun x => negb (Z.even x)) t) as (eps & eta & H1 & H2 & H0 & Hr).
    change (round radix2 (FLT_exp emin prec) (Znearest (fun x => negb (Z.even x))) t) with m in Hr.
    assert (E1 : / 2 * bpow radix2 (- prec + 1) = uR).
    { rewrite (uR_eq prec), bpow_plus. change (bpow radix2 1) with 2. field. }
    assert (E2 : / 2 * bpow radix2 emin = etaR).
    { rewrite (etaR_eq prec emax). fold emin. unfold Zminus. rewrite bpow_plus. change (bpow radix2 (- (1))) with (/ 2). ring. }
    rewrite E1 in H1. rewrite E2 in H2.
    apply Rmult_integral in H0. destruct H0 as [Z|Z].
    - subst eps. replace (t * (1 + 0) + eta) with (t + eta) in Hr by ring.
      assert (Hd : Rabs (sqrt m - A) <= sqrt (Rabs (m - t))) by (apply sqrt_diff; assumption).
      assert (Hle : sqrt (Rabs (m - t)) <= sqrt etaR).
      { apply sqrt_le_1; [apply Rabs_pos|exact Pe|]. rewrite Hr. replace (t + eta - t) with eta by ring. exact H2. }
      nra.
    - subst eta. rewrite Rplus_0_r in Hr. rewrite Hr.
      pose proof (sqrt_rel t eps Pt ltac:(lra)) as Hs. fold A in Hs.
      assert (Rabs eps * A <= uR * A) by (apply Rmult_le_compat_r; assumption). lra. }
  pose proof (rnd_err prec emax Hp (sqrt m)) as Ho. rewrite (Rabs_pos_eq (sqrt m)) in Ho by apply sqrt_pos.
  change (round radix2 (FLT_exp (3 - emax - prec) prec) ZnearestE (sqrt m)) with (rnd (sqrt m)) in Ho.
  pose proof (sqrt_ge_self etaR (conj Pe Le)) as Hee.
  apply Rabs_le_inv in Hm.
  assert (Hsm : sqrt m <= A + uR * A + sqrt etaR) by lra.
  assert (Hum : uR * sqrt m <= uR * (A + uR * A + sqrt etaR)) by (apply Rmult_le_compat_l; assumption).
  assert (H1 : uR * (uR * A) <= uR * A) by (assert (0 <= uR * A) by nra; nra).
  assert (H2 : uR * sqrt etaR <= sqrt etaR) by nra.
  apply Rabs_le_inv in Ho. apply Rabs_le. lra.
Qed.

Variable ofn : nat -> bf.
Notation KS := (NumG prec emax Hp He ofn fsqrt).

(* the std detector after any history: every channel of current() (= the last output of next()) *)
Theorem out_bound_gen (N C fst0 : nat) (ops : list (op KS)) :
  (1 <= N)%nat -> (fst0 < N)%nat -> B2R (ofn N) = INR N -> Forall (opK_ok KS C) ops ->
  sums_ok KS is_finite (new_stateK KS N C fst0) ops = true ->
  exists st' outs, run KS (new_stateK KS N C fst0) ops = Ok (st', outs) /\
    length (rms_current KS st') = C /\
    forall c, (c < C)%nat ->
      let Ek := F2R (eerr (e_after prec emax N (chan_evs KS c ops))) in
      let rms := true_rms N C (feed [] (opsR prec emax Hp He ofn fsqrt ops)) c in
      Rabs (B2R (nth c (rms_current KS st') z0) - rms) <=
      (1 + 3 * uR) * sqrt (Ek / INR N) + 3 * uR * rms + 3 * sqrt etaR.
Proof.
  intros HN Hf Hofn Hops Hfin.
  destruct (drift_bound_gen prec emax Hp He ofn fsqrt N C fst0 ops HN Hf Hops Hfin) as (st' & outs & E & HL & HC & HB).
  exists st', outs. split; [exact E|].
  split; [unfold rms_current, calc_rms_squared; now rewrite !map_length|].
  intros c Hc. cbv zeta. destruct (HB c Hc) as (HS & Fs & Ps & HE). clear HB.
  set (e := e_after prec emax N (chan_evs KS c ops)) in *.
  set (s := nth c (square_sum KS st') z0) in *.
  assert (Hout : nth c (rms_current KS st') z0 = fsqrt (fdiv s (ofn N))).
  { unfold rms_current, calc_rms_squared.
    rewrite (nth_map_in KS (Rms.sqrt KS)) by (rewrite map_length; lia).
    rewrite (nth_map_in KS (fun x => div KS x (of_nat KS (flen (window KS st'))))) by lia.
    rewrite HL. reflexivity. }
  rewrite Hout.
  pose proof (out_scalar s (ofn N) N HN Fs Ps Hofn) as Ho.
  assert (HNr : 1 <= INR N) by (change 1 with (INR 1); apply le_INR; exact HN).
  assert (Hi : 0 < / INR N) by (apply Rinv_0_lt_compat; lra).
  unfold true_rms, mean_sq. rewrite <- HS.
  set (S := F2R (esum e)) in *. set (Ek := F2R (eerr e)) in *.
  assert (PS : 0 <= S) by (rewrite HS; apply sum_sq_nonneg).
  set (A := sqrt (B2R s / INR N)) in *. set (Rm := sqrt (S / INR N)).
  assert (HA : Rabs (A - Rm) <= sqrt (Ek / INR N)).
  { eapply Rle_trans; [apply sqrt_diff; unfold Rdiv; nra|].
    apply sqrt_le_1; [apply Rabs_pos|unfold Rdiv; apply Rmult_le_pos; [eapply Rle_trans; [apply Rabs_pos|exact HE]|lra]|].
    replace (B2R s / INR N - S / INR N) with ((B2R s - S) * / INR N) by (unfold Rdiv; ring).
    rewrite Rabs_mult, (Rabs_pos_eq (/ INR N)) by lra. unfold Rdiv. apply Rmult_le_compat_r; [lra|exact HE]. }
  pose proof (uR_ge0 prec) as Pu.
  assert (PR : 0 <= sqrt (Ek / INR N)) by apply sqrt_pos.
  apply Rabs_le_inv in HA. apply Rabs_le_inv in Ho.
  assert (HuA : uR * A <= uR * (Rm + sqrt (Ek / INR N))) by (apply Rmult_le_compat_l; lra).
  apply Rabs_le. split; nra.
Qed.

End Out.

(* ---------- `len as f32` (and its f64 image) is exact for N <= 2^24 ---------- *)
Lemma of_nat32_exact (n : nat) : (Z.of_nat n <= 2 ^ 24)%Z -> B2R (of_nat32 n) = INR n.
Proof.
  intros H. unfold of_nat32, F32.of_Z.
  destruct (of_int_correct 24 128 p24 pe24 prec32_ok emax32_ok (Z.of_nat n) 24) as [E _]; [lia|lia|].
  rewrite E, rnd_IZR_small by (try exact prec32_ok; lia). now rewrite <- INR_IZR_INZ.
Qed.

Lemma of_nat64_exact (n : nat) : (Z.of_nat n <= 2 ^ 24)%Z -> B2R (of_nat64 n) = INR n.
Proof.
  intros H. unfold of_nat64, f32_to_f64.
  destruct (of_int_correct 24 128 p24 pe24 prec32_ok emax32_ok (Z.of_nat n) 24) as [E F]; [lia|lia|].
  destruct (gconv_exact 24 128 53 1024 p24 p53 pe53 (F32.of_Z (Z.of_nat n))) as (E' & _); try lia; [exact F|].
  rewrite E'. now apply of_nat32_exact.
Qed.

(* ---------- the instances on the executed models ---------- *)
Lemma drift_bound_f32 (sq : f32 -> f32) (N C fst0 : nat) (ops : list (op (NumF32 sq))) (k : nat) :
  (1 <= N)%nat -> (fst0 < N)%nat -> Forall (opK_ok (NumF32 sq) C) ops ->
  sums_ok (NumF32 sq) F32.is_finite (new_stateK (NumF32 sq) N C fst0) ops = true ->
  exists st_k outs, run (NumF32 sq) (new_stateK (NumF32 sq) N C fst0) (firstn k ops) = Ok (st_k, outs) /\
    flen (window (NumF32 sq) st_k) = N /\ length (square_sum (NumF32 sq) st_k) = C /\
    forall c, (c < C)%nat ->
      let e := e_after 24 128 N (chan_evs (NumF32 sq) c (firstn k ops)) in
      let s := nth c (square_sum (NumF32 sq) st_k) F32.zero in
      F2R (esum e) = sum_sq c (last_n N C (feed [] (map (opR (K := NumF32 sq) B2R) (firstn k ops)))) /\
      F32.is_finite s = true /\ 0 <= B2R s /\
      Rabs (B2R s - F2R (esum e)) <= F2R (eerr e).
Proof. exact (drift_bound_steps 24 128 p24 pe24 of_nat32 sq N C fst0 ops k). Qed.

Lemma drift_bound_f64 (sq : f64 -> f64) (N C fst0 : nat) (ops : list (op (NumF64 sq))) (k : nat) :
  (1 <= N)%nat -> (fst0 < N)%nat -> Forall (opK_ok (NumF64 sq) C) ops ->
  sums_ok (NumF64 sq) F64.is_finite (new_stateK (NumF64 sq) N C fst0) ops = true ->
  exists st_k outs, run (NumF64 sq) (new_stateK (NumF64 sq) N C fst0) (firstn k ops) = Ok (st_k, outs) /\
    flen (window (NumF64 sq) st_k) = N /\ length (square_sum (NumF64 sq) st_k) = C /\
    forall c, (c < C)%nat ->
      let e := e_after 53 1024 N (chan_evs (NumF64 sq) c (firstn k ops)) in
      let s := nth c (square_sum (NumF64 sq) st_k) F64.zero in
      F2R (esum e) = sum_sq c (last_n N C (feed [] (map (opR (K := NumF64 sq) B2R) (firstn k ops)))) /\
      F64.is_finite s = true /\ 0 <= B2R s /\
      Rabs (B2R s - F2R (esum e)) <= F2R (eerr e).
Proof. exact (drift_bound_steps 53 1024 p53 pe53 of_nat64 sq N C fst0 ops k). Qed.

Lemma out_bound_f32 (N C fst0 : nat) (ops : list (op NumF32std)) :
  (1 <= N)%nat -> (Z.of_nat N <= 2 ^ 24)%Z -> (fst0 < N)%nat -> Forall (opK_ok NumF32std C) ops ->
  sums_ok NumF32std F32.is_finite (new_stateK NumF32std N C fst0) ops = true ->
  exists st' outs, run NumF32std (new_stateK NumF32std N C fst0) ops = Ok (st', outs) /\
    length (rms_current NumF32std st') = C /\
    forall c, (c < C)%nat ->
      let Ek := F2R (eerr (e_after 24 128 N (chan_evs NumF32std c ops))) in
      let rms := true_rms N C (feed [] (map (opR (K := NumF32std) B2R) ops)) c in
      Rabs (B2R (nth c (rms_current NumF32std st') F32.zero) - rms) <=
      (1 + 3 * F2R (u_of 24)) * sqrt (Ek / INR N) + 3 * F2R (u_of 24) * rms + 3 * sqrt (F2R (eta_of 24 128)).
Proof.
  intros HN H24 Hf. exact (out_bound_gen 24 128 p24 pe24 of_nat32 N C fst0 ops HN Hf (of_nat32_exact N H24)).
Qed.

Lemma out_bound_f64 (N C fst0 : nat) (ops : list (op NumF64std)) :
  (1 <= N)%nat -> (Z.of_nat N <= 2 ^ 24)%Z -> (fst0 < N)%nat -> Forall (opK_ok NumF64std C) ops ->
  sums_ok NumF64std F64.is_finite (new_stateK NumF64std N C fst0) ops = true ->
  exists st' outs, run NumF64std (new_stateK NumF64std N C fst0) ops = Ok (st', outs) /\
    length (rms_current NumF64std st') = C /\
    forall c, (c < C)%nat ->
      let Ek := F2R (eerr (e_after 53 1024 N (chan_evs NumF64std c ops))) in
      let rms := true_rms N C (feed [] (map (opR (K := NumF64std) B2R) ops)) c in
      Rabs (B2R (nth c (rms_current NumF64std st') F64.zero) - rms) <=
      (1 + 3 * F2R (u_of 53)) * sqrt (Ek / INR N) + 3 * F2R (u_of 53) * rms + 3 * sqrt (F2R (eta_of 53 1024)).
Proof.
  intros HN H24 Hf. exact (out_bound_gen 53 1024 p53 pe53 of_nat64 N C fst0 ops HN Hf (of_nat64_exact N H24)).
Qed.
