(* Non-vacuity of the C18 constant-input clause: a primed, wrapped, constant stereo buffer of depth 4 meeting
   the hypotheses of constant_1pct_small_depths, and the fact that such a state is what an interpolator
   holds after 2*depth constant source frames. *)
Require Import Reals List Arith Lia Lra.
From Dasp Require Import Base.Res Base.ListX Ring.Bounded Ring.Fixed Ring.FixedSpec
  Dsp.Sinc Dsp.SincProofs Dsp.SincR Dsp.SincConst Dsp.SincKernelBound.
Import ListNotations.
Open Scope R_scope.

(* depth 4, two channels, ring buffer's first index in the middle, read index primed *)
Definition ex_const (c : R) : sinc NumR FmtR :=
  Build_sinc NumR FmtR (@Build_fixed (list R) 3 (repeat [c; c] 8)) 4.

Example ex_const_hyp (c : R) :
  WF NumR FmtR 2 4 (ex_const c) /\ idx (ex_const c) = 4%nat /\
  (forall fr, In fr (fdata (frames (ex_const c))) -> fr = repeat c 2).
Proof.
  assert (H : forall fr, In fr (repeat [c; c] 8) -> fr = [c; c]) by (intros fr; apply repeat_spec).
  unfold WF, ex_const, InvF, flen; cbn [frames idx first fdata]. rewrite repeat_length.
  repeat split; try lia.
  - intros fr Hin. rewrite (H fr Hin). reflexivity.
  - exact H.
Qed.

(* ... so at x = 3/8 both channels are within 1 % of c = -3/4 *)
Example ex_const_close : exists fr,
  interpolate NumR sin cos FmtR 2 (ex_const (-3/4)) (3/8) = Ok fr /\ length fr = 2%nat /\
  Forall (fun y => Rabs (y - -3/4) <= 1 / 100 * Rabs (-3/4)) fr.
Proof.
  destruct (ex_const_hyp (-3/4)) as (W & Hi & Hc).
  apply (constant_1pct_small_depths 2 4 (ex_const (-3/4)) (-3/4) (3/8)); auto; try lia; lra.
Qed.

(* the state after 2*depth = 8 constant source frames pushed into a fresh interpolator *)
Definition push_all (r : res (sinc NumR FmtR)) (l : list (list R)) : res (sinc NumR FmtR) :=
  fold_left (fun r fr => let* s := r in next_source_frame NumR FmtR s fr) l r.

Example ex_const_reached (c : R) :
  push_all (sinc_init NumR FmtR 2 4) (repeat [c; c] 8)
  = Ok (Build_sinc NumR FmtR (@Build_fixed (list R) 0 (repeat [c; c] 8)) 4).
Proof. reflexivity. Qed.
