(* Window bookkeeping of the RMS model for ANY arithmetic: every channel c of the frame model
   (ring buffer of frames + frame of running sums) follows the scalar view [spush]/[sreset] of
   RmsDrift.v -- the evicted frame is the oldest one, its c-th sample is what is subtracted from the
   c-th running sum.  Also: a history of well-formed operations on a well-formed state never panics
   and performs no out-of-range unchecked access. *)
Require Import List Arith Bool Lia.
From Dasp Require Import Base.Res Base.ListX Ring.Bounded Ring.BoundedSpec Ring.BoundedProofs
  Ring.Fixed Ring.FixedSpec Ring.FixedProofs Dsp.Rms Dsp.RmsDrift.
Import ListNotations.

Section Proj.
Variable K : num.
Notation T := (Rms.T K).
Notation z := (zero K).

Definition SInv (N C : nat) (st : rms K) : Prop :=
  nch K st = C /\ InvF (window K st) /\ flen (window K st) = N /\
  Forall (fun f : frame K => length f = C) (fq (window K st)) /\ length (square_sum K st) = C.

Lemma zip_map_lengthK (g : T -> T -> T) a b : length (zip_map K g a b) = Nat.min (length a) (length b).
Proof. revert b; induction a as [|x a IH]; intros [|y b]; simpl; auto. Qed.

Lemma zip_map_nthK (g : T -> T -> T) a b c : c < length a -> c < length b ->
  nth c (zip_map K g a b) z = g (nth c a z) (nth c b z).
Proof.
  revert b c; induction a as [|x a IH]; intros [|y b] [|c] Ha Hb; simpl in *; try lia; auto.
  apply IH; lia.
Qed.

Lemma nth_map_in (g : T -> T) (l : list T) c : c < length l -> nth c (map g l) z = g (nth c l z).
Proof.
  intros H. rewrite (nth_indep _ z (g z)) by (rewrite map_length; exact H). apply map_nth.
Qed.

Lemma repeat_all {A} (x : A) n : Forall (fun y => y = x) (repeat x n).
Proof. induction n; simpl; auto. Qed.

Lemma all_repeat {A} (x : A) l : Forall (fun y => y = x) l -> l = repeat x (length l).
Proof. induction 1; simpl; congruence. Qed.

Lemma rotl_all {A} (x : A) k l : Forall (fun y => y = x) l -> Forall (fun y => y = x) (rotl k l).
Proof.
  intros H. unfold rotl. apply Forall_app. split.
  - revert l H. induction k as [|k IH]; intros [|y l] H; simpl; auto. inversion H; auto.
  - revert l H. induction k as [|k IH]; intros [|y l] H; simpl; auto. inversion H; subst. constructor; auto.
Qed.

Lemma map_repeat' {A B} (g : A -> B) x n : map g (repeat x n) = repeat (g x) n.
Proof. induction n; simpl; congruence. Qed.

Lemma nth_equilibrium c C : nth c (equilibrium K C) z = z.
Proof.
  unfold equilibrium. destruct (Nat.lt_ge_cases c C).
  - apply nth_repeat.
  - apply nth_overflow. rewrite repeat_length. lia.
Qed.

(* the state made by Rms::new over a zero window *)
Lemma SInv_new N C fst0 : fst0 < N -> SInv N C (new_stateK K N C fst0) /\
  forall c, proj K c (new_stateK K N C fst0) = sreset K N.
Proof.
  intros Hf.
  assert (Hq : fq (zero_window K N C fst0) = repeat (equilibrium K C) N).
  { unfold fq, zero_window. cbn [first fdata].
    rewrite (all_repeat (equilibrium K C) (rotl fst0 (repeat (equilibrium K C) N))).
    - now rewrite rotl_length, repeat_length.
    - apply rotl_all, repeat_all. }
  split.
  - unfold SInv, new_stateK, rms_new. cbn [nch window square_sum]. rewrite Hq.
    repeat split.
    + unfold InvF, flen, zero_window. cbn [first fdata]. now rewrite repeat_length.
    + unfold flen, zero_window. cbn [fdata]. apply repeat_length.
    + apply Forall_forall. intros f Hin. apply repeat_spec in Hin. subst f. apply repeat_length.
    + apply repeat_length.
  - intros c. unfold proj, new_stateK, rms_new. cbn [window square_sum]. rewrite Hq.
    unfold sreset. rewrite map_repeat', !nth_equilibrium. reflexivity.
Qed.

(* one push *)
Lemma proj_push N C cl st fr : SInv N C st -> length fr = C ->
  exists st', next_squared_gen K cl st fr = Ok (st', calc_rms_squared K st') /\ SInv N C st' /\
    forall c, c < C -> proj K c st' = spush K cl (proj K c st) (nth c fr z).
Proof.
  intros (Hn & HI & HL & HF & Hlen) Hfr.
  destruct (fpush_refines (window K st) (square_frame K fr) HI) as (f' & old & q' & Hp & HI' & HL' & Hq0 & Hab).
  assert (Hq' : fq f' = q' ++ [square_frame K fr]).
  { rewrite fabs_eq in Hab. now inversion Hab. }
  assert (Hsqlen : length (square_frame K fr) = C) by (unfold square_frame; now rewrite map_length).
  rewrite Hq0 in HF. inversion HF as [|? ? Hold HFq']; subst.
  unfold next_squared_gen. rewrite Hp. cbn [bind fst snd].
  eexists. split; [reflexivity|]. split.
  - unfold SInv. cbn [nch window square_sum]. repeat split; auto; try lia.
    + rewrite Hq'. apply Forall_app. split; auto.
    + rewrite !zip_map_lengthK, Hlen, Hsqlen, Hold. lia.
  - intros c Hc. unfold proj. cbn [window square_sum]. rewrite Hq', Hq0, map_app. cbn [map].
    unfold spush. cbn [fst snd]. f_equal.
    + do 2 f_equal. unfold square_frame. apply (nth_map_in (fun s => mul K s s)). lia.
    + rewrite zip_map_nthK by (rewrite ?zip_map_lengthK; lia).
      rewrite zip_map_nthK by lia. do 3 f_equal.
      all: unfold square_frame; apply (nth_map_in (fun s => mul K s s)); lia.
Qed.

(* reset *)
Lemma proj_reset N C st : SInv N C st ->
  exists st', rms_reset K st = Ok st' /\ SInv N C st' /\ forall c, proj K c st' = sreset K N.
Proof.
  intros (Hn & HI & HL & HF & Hlen). unfold rms_reset.
  destruct (fmap_refines (fun _ => equilibrium K (nch K st)) (window K st) HI) as (f' & E & HI' & HL' & Hab).
  rewrite E. cbn [bind fst]. eexists. split; [reflexivity|].
  assert (Hq' : fq f' = repeat (equilibrium K C) N).
  { rewrite fabs_eq in Hab. pose proof (f_equal snd Hab) as Hm. cbn [snd] in Hm. rewrite Hm, Hn.
    rewrite <- HL, <- (fabs_length (window K st)). generalize (fq (window K st)).
    intros l; induction l as [|a l IHl]; simpl; [reflexivity|now rewrite IHl]. }
  split.
  - unfold SInv. cbn [nch window square_sum]. rewrite Hq', Hn. repeat split; auto; try lia.
    + apply Forall_forall. intros f Hin. apply repeat_spec in Hin. subst f. apply repeat_length.
    + apply repeat_length.
  - intros c. unfold proj. cbn [window square_sum]. rewrite Hq', Hn.
    unfold sreset. rewrite map_repeat', !nth_equilibrium. reflexivity.
Qed.

Lemma forallb_nth (fin : T -> bool) (l : list T) c : forallb fin l = true -> c < length l -> fin (nth c l z) = true.
Proof. intros H Hc. rewrite forallb_forall in H. apply H. now apply nth_In. Qed.

(* a whole history: no panic, no UB, every channel follows the scalar view, and the finiteness of
   the stored sums of the frame model gives the finiteness of the stored sums of each channel *)
Lemma run_proj (fin : T -> bool) N C : forall ops st, SInv N C st -> Forall (opK_ok K C) ops ->
  exists st' outs, run K st ops = Ok (st', outs) /\ SInv N C st' /\
    (forall c, c < C -> proj K c st' = srun K (clamp K) N (proj K c st) (chan_evs K c ops)) /\
    (sums_ok K fin st ops = true ->
     forall c, c < C -> srun_ok K fin (clamp K) N (proj K c st) (chan_evs K c ops) = true).
Proof.
  induction ops as [|o ops IH]; intros st HI Hops.
  - exists st, []. simpl. auto.
  - inversion Hops as [|? ? Ho Hops']; subst.
    assert (Hpush : forall fr, length fr = C ->
      forall g : frame K -> frame K,
      (let* r := next_squared_gen K (clamp K) st fr in Ok (fst r, g (snd r))) = step K st o ->
      (forall c, chan_evs K c (o :: ops) = Some (nth c fr z) :: chan_evs K c ops) ->
      exists st' outs, run K st (o :: ops) = Ok (st', outs) /\ SInv N C st' /\
        (forall c, c < C -> proj K c st' = srun K (clamp K) N (proj K c st) (chan_evs K c (o :: ops))) /\
        (sums_ok K fin st (o :: ops) = true ->
         forall c, c < C -> srun_ok K fin (clamp K) N (proj K c st) (chan_evs K c (o :: ops)) = true)).
    { intros fr Hfr g Hstep Hev.
      destruct (proj_push N C (clamp K) st fr HI Hfr) as (st1 & E1 & I1 & P1).
      rewrite E1 in Hstep. cbn [bind fst snd] in Hstep.
      destruct (IH st1 I1 Hops') as (st2 & outs & E2 & I2 & P2 & F2).
      exists st2. eexists. split; [|split; [exact I2|split]].
      - unfold run in *. cbn [run_gen]. change (step_gen K (clamp K) st o) with (step K st o).
        rewrite <- Hstep. cbn [bind fst snd]. rewrite E2. cbn [bind fst snd]. reflexivity.
      - intros c Hc. rewrite Hev. cbn [srun]. rewrite <- (P1 c Hc). apply P2. exact Hc.
      - intros Hs c Hc. cbn [sums_ok] in Hs. rewrite <- Hstep in Hs.
        apply andb_prop in Hs. destruct Hs as [Hs1 Hs2].
        rewrite Hev. cbn [srun_ok]. rewrite <- (P1 c Hc). apply andb_true_intro. split.
        + unfold proj. cbn [snd]. apply forallb_nth; [exact Hs1|]. destruct I1 as (_ & _ & _ & _ & L1). lia.
        + apply F2; assumption. }
    destruct o as [fr|fr| | ].
    + apply (Hpush fr Ho (map (sqrt K))); [reflexivity|intros c; reflexivity].
    + apply (Hpush fr Ho (fun x => x)).
      * cbn [step step_gen]. unfold step. cbn [step_gen].
        destruct (next_squared_gen K (clamp K) st fr) as [[a b]| |]; reflexivity.
      * intros c; reflexivity.
    + destruct (IH st HI Hops') as (st2 & outs & E2 & I2 & P2 & F2).
      exists st2. eexists. split; [|split; [exact I2|split]].
      * unfold run in *. cbn [run_gen step_gen bind fst snd]. rewrite E2. cbn [bind fst snd]. reflexivity.
      * intros c Hc. apply P2. exact Hc.
      * intros Hs c Hc. cbn [sums_ok] in Hs. unfold step in Hs. cbn [step_gen] in Hs.
        apply andb_prop in Hs. apply F2; tauto.
    + destruct (proj_reset N C st HI) as (st1 & E1 & I1 & P1).
      destruct (IH st1 I1 Hops') as (st2 & outs & E2 & I2 & P2 & F2).
      exists st2. eexists. split; [|split; [exact I2|split]].
      * unfold run in *. cbn [run_gen step_gen]. rewrite E1. cbn [bind fst snd]. rewrite E2. cbn [bind fst snd]. reflexivity.
      * intros c Hc. change (chan_evs K c (OReset :: ops)) with (None :: chan_evs K c ops). cbn [srun].
        rewrite <- (P1 c). apply P2. exact Hc.
      * intros Hs c Hc. change (chan_evs K c (OReset :: ops)) with (None :: chan_evs K c ops). cbn [srun_ok].
        cbn [sums_ok] in Hs. unfold step in Hs. cbn [step_gen] in Hs. rewrite E1 in Hs. cbn [bind] in Hs.
        apply andb_prop in Hs. rewrite <- (P1 c). apply F2; tauto.
Qed.

Lemma sums_ok_firstn (fin : T -> bool) k : forall ops st, sums_ok K fin st ops = true -> sums_ok K fin st (firstn k ops) = true.
Proof.
  induction k as [|k IH]; intros [|o ops] st H; simpl in *; auto.
  destruct (step K st o) as [[st' out]| |]; try discriminate.
  apply andb_prop in H. destruct H as [H1 H2]. rewrite H1. simpl. now apply IH.
Qed.

End Proj.
