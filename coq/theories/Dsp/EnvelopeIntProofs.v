(* The envelope update on the integer sample formats whose Float is f32 and whose Signed type
   has the same width (i8 i16 u8 u16): outside the known class K2 (detected amplitude at the
   format minimum) and with envelope and detected value on the same side of equilibrium (which
   the three rectifiers guarantee), the update does not panic and lies EXACTLY between the
   previous envelope and the detected value. *)
Require Import Floats.SpecFloat.
Require Import ZArith Bool List Lia Reals Lra.
From Flocq Require Import Core BinarySingleNaN.
From Dasp Require Import Base.Res Base.Float Dsp.MInt Dsp.EnvNum Dsp.Peak Dsp.Envelope
  Dsp.PeakProofs Dsp.FloatIntLemmas.
Import ListNotations.
Open Scope Z_scope.

Definition is_envfmt (f : ifmt) : bool := match f with I8 | I16 | U8 | U16 => true | _ => false end.

Lemma envfmt_cases f : is_envfmt f = true -> f = I8 \/ f = I16 \/ f = U8 \/ f = U16.
Proof. destruct f; cbn; intros H; try discriminate; auto. Qed.

Lemma to_signed_env f s : is_envfmt f = true -> in_range f s ->
  to_signed f s = Ok (s - equil f) /\ in_range (signed_fmt f) (s - equil f).
Proof.
  intros Hf Hs. destruct (to_signed_ok f s Hs) as [E R].
  assert (A : signed_amp f s = s - equil f).
  { unfold signed_amp. destruct (envfmt_cases f Hf) as [ -> | [ -> | [ -> | -> ]]]; cbn; lia. }
  rewrite A in *. split; assumption.
Qed.

Lemma from_signed_ok f s : is_envfmt f = true -> in_range (signed_fmt f) s ->
  from_signed f s = Ok (s + equil f) /\ in_range f (s + equil f).
Proof.
  intros Hf Hs.
  destruct (envfmt_cases f Hf) as [ -> | [ -> | [ -> | -> ]]]; unfold in_range, imin, imax in Hs; cbn in Hs;
    cbn [from_signed signed_fmt].
  - split; [f_equal; cbn; lia | unfold in_range; cbn; lia].
  - split; [f_equal; cbn; lia | unfold in_range; cbn; lia].
  - destruct (Z.ltb_spec s 0).
    + rewrite chk_ok by (unfold in_range; cbn; lia). cbn [bind].
      rewrite chk_ok by (unfold in_range; cbn; lia). cbn [bind].
      rewrite (wrap_id U8) by (unfold in_range; cbn; lia). split; [f_equal; cbn; lia | unfold in_range; cbn; lia].
    + rewrite (wrap_id U8) by (unfold in_range; cbn; lia).
      rewrite chk_ok by (unfold in_range; cbn; lia). split; [reflexivity | unfold in_range; cbn; lia].
  - destruct (Z.ltb_spec s 0).
    + rewrite chk_ok by (unfold in_range; cbn; lia). cbn [bind].
      rewrite chk_ok by (unfold in_range; cbn; lia). cbn [bind].
      rewrite (wrap_id U16) by (unfold in_range; cbn; lia). split; [f_equal; cbn; lia | unfold in_range; cbn; lia].
    + rewrite (wrap_id U16) by (unfold in_range; cbn; lia).
      rewrite chk_ok by (unfold in_range; cbn; lia). split; [reflexivity | unfold in_range; cbn; lia].
Qed.

(* the scaled amplitude: trunc(RN(z/2^k * g) * 2^k), as computed by mul_amp through f32 *)
Definition scale_amp (sf : ifmt) (z : Z) (g : f32) : Z :=
  f32_to_signed sf (F32.mul (signed_to_f32 sf z) g).

Lemma scale_amp_bounds (sf : ifmt) (z : Z) (g : f32) :
  sf = I8 \/ sf = I16 -> in_range sf z -> is_finite g = true -> (0 <= B2R g <= 1)%R ->
  (0 <= z -> 0 <= scale_amp sf z g <= z) /\ (z <= 0 -> z <= scale_amp sf z g <= 0).
Proof.
  intros Hsf Hz Fg Hg.
  set (k := bits sf - 1).
  assert (Hk : 0 <= k < 24) by (unfold k; destruct Hsf as [ -> | -> ]; cbn; lia).
  assert (Hr : imin sf = - 2 ^ k /\ imax sf = 2 ^ k - 1) by (unfold k; destruct Hsf as [ -> | -> ]; cbn; lia).
  destruct Hr as [Hlo Hhi]. unfold in_range in Hz. rewrite Hlo, Hhi in Hz.
  assert (Hza : Z.abs z <= 2 ^ k) by lia.
  unfold scale_amp, signed_to_f32, f32_to_signed, pow2f. fold k. rewrite Hlo, Hhi.
  destruct (div_pow2_exact 24 128 p24 pe24 z k Hk Hza) as [Vx Fx].
  set (x := F32.div (F32.of_Z z) (F32.of_Z (2 ^ k))) in *.
  change (gdiv 24 128 p24 pe24 (gof_Z 24 128 p24 pe24 z) (gof_Z 24 128 p24 pe24 (2 ^ k))) with x in Vx, Fx.
  destruct (mul_gain 24 128 p24 pe24 x g Fx Fg Hg) as (Fp & _ & Pp & Pn).
  set (p := F32.mul x g) in *. change (gmul 24 128 p24 pe24 x g) with p in Fp, Pp, Pn.
  assert (Bk : (0 < bpow radix2 k)%R) by apply bpow_gt_0.
  assert (Zk : (IZR z / bpow radix2 k * bpow radix2 k = IZR z)%R) by (field; lra).
  assert (Hx1 : (Rabs (B2R x) <= 1)%R).
  { rewrite Vx. unfold Rdiv. rewrite Rabs_mult, (Rabs_pos_eq (/ _)) by (left; now apply Rinv_0_lt_compat).
    apply Rmult_le_reg_r with (bpow radix2 k); [exact Bk|]. rewrite Rmult_assoc, Rinv_l, Rmult_1_r, Rmult_1_l by lra.
    rewrite <- abs_IZR. change 2 with (radix_val radix2) in Hza. rewrite <- IZR_Zpower by lia. now apply IZR_le. }
  assert (Hp1 : (Rabs (B2R p) <= 1)%R).
  { destruct (Rle_dec 0 (B2R x)) as [S|S].
    - specialize (Pp S). rewrite Rabs_pos_eq by lra. rewrite Rabs_pos_eq in Hx1 by lra. lra.
    - assert (S' : (B2R x <= 0)%R) by lra. specialize (Pn S'). rewrite Rabs_left1 by lra. rewrite Rabs_left1 in Hx1 by lra. lra. }
  destruct (mul_pow2_exact 24 128 p24 pe24 p k Fp Hk Hp1) as [Vq Fq].
  set (q := F32.mul p (F32.of_Z (2 ^ k))) in *.
  change (gmul 24 128 p24 pe24 p (gof_Z 24 128 p24 pe24 (2 ^ k))) with q in Vq, Fq.
  unfold F32.to_Z_sat. rewrite (to_Z_sat_finite 24 128 pe24 _ _ q Fq). rewrite Vq.
  split; intros Sz.
  - assert (Sx : (0 <= B2R x)%R).
    { rewrite Vx. apply Rmult_le_pos; [now apply IZR_le | left; now apply Rinv_0_lt_compat]. }
    specialize (Pp Sx).
    assert (T0 : 0 <= Ztrunc (B2R p * bpow radix2 k)).
    { rewrite <- (Ztrunc_IZR 0). apply Ztrunc_le. apply Rmult_le_pos; lra. }
    assert (T1 : Ztrunc (B2R p * bpow radix2 k) <= z).
    { apply Z.le_trans with (Ztrunc (IZR z)); [|rewrite Ztrunc_IZR; lia].
      apply Ztrunc_le. rewrite <- Zk, <- Vx. apply Rmult_le_compat_r; lra. }
    lia.
  - assert (Sx : (B2R x <= 0)%R).
    { rewrite Vx. unfold Rdiv. rewrite <- (Rmult_0_l (/ bpow radix2 k)).
      apply Rmult_le_compat_r; [left; now apply Rinv_0_lt_compat | now apply IZR_le]. }
    specialize (Pn Sx).
    assert (T0 : Ztrunc (B2R p * bpow radix2 k) <= 0).
    { rewrite <- (Ztrunc_IZR 0). apply Ztrunc_le. rewrite <- (Rmult_0_l (bpow radix2 k)). apply Rmult_le_compat_r; lra. }
    assert (T1 : z <= Ztrunc (B2R p * bpow radix2 k)).
    { apply Z.le_trans with (Ztrunc (IZR z)); [rewrite Ztrunc_IZR; lia|].
      apply Ztrunc_le. rewrite <- Zk, <- Vx. apply Rmult_le_compat_r; lra. }
    lia.
Qed.

Lemma signed_fmt_env f : is_envfmt f = true -> signed_fmt f = I8 \/ signed_fmt f = I16.
Proof. intros H. destruct (envfmt_cases f H) as [ -> | [ -> | [ -> | -> ]]]; cbn; auto. Qed.

Lemma signed_fmt_idem f : is_envfmt f = true -> signed_fmt (signed_fmt f) = signed_fmt f.
Proof. intros H. destruct (envfmt_cases f H) as [ -> | [ -> | [ -> | -> ]]]; reflexivity. Qed.

Theorem env_step_i_ok (f : ifmt) (ga gr : f32) (l d : Z) :
  is_envfmt f = true ->
  is_finite ga = true -> is_finite gr = true -> (0 <= B2R ga <= 1)%R -> (0 <= B2R gr <= 1)%R ->
  in_range f l -> in_range f d ->
  in_range (signed_fmt f) (- (d - equil f)) ->      (* outside K2: the detected amplitude is not the minimum *)
  in_range (signed_fmt f) (l - d) ->                (* same side of equilibrium *)
  let g := if l <? d then ga else gr in
  let m := scale_amp (signed_fmt f) (l - d) g in
  env_step_i f ga gr l d = Ok (d + m) /\
  (d <= l -> d <= d + m <= l) /\ (l <= d -> l <= d + m <= d) /\
  Z.min l d <= d + m <= Z.max l d.
Proof.
  intros Hf Fa Fr Ha Hr Hl Hd Hnd Hdiff g m.
  assert (Fg : is_finite g = true) by (unfold g; destruct (l <? d); assumption).
  assert (Hg : (0 <= B2R g <= 1)%R) by (unfold g; destruct (l <? d); assumption).
  destruct (scale_amp_bounds (signed_fmt f) (l - d) g (signed_fmt_env f Hf) Hdiff Fg Hg) as [Bp Bn].
  fold m in Bp, Bn.
  destruct (to_signed_env f d Hf Hd) as [Ed Rd]. destruct (to_signed_env f l Hf Hl) as [El Rl].
  assert (Rm : in_range (signed_fmt f) m).
  { unfold in_range in *. destruct (Z.le_ge_cases 0 (l - d)) as [S|S]; [specialize (Bp S) | specialize (Bn S)]; lia. }
  assert (Rsum : in_range (signed_fmt f) (d - equil f + m)).
  { unfold in_range in *. destruct (Z.le_ge_cases 0 (l - d)) as [S|S]; [specialize (Bp S) | specialize (Bn S)]; lia. }
  split.
  - unfold env_step_i. fold g. rewrite Ed. cbn [bind].
    unfold tneg. rewrite tchk_ok by exact Hnd. cbn [bind].
    unfold add_amp_i at 1. rewrite El. cbn [bind]. unfold tadd.
    replace (l - equil f + - (d - equil f)) with (l - d) by lia.
    rewrite tchk_ok by exact Hdiff. cbn [bind].
    destruct (from_signed_ok f (l - d) Hf Hdiff) as [Efs Rfs]. rewrite Efs. cbn [bind].
    unfold mul_amp_i, to_f32.
    destruct (to_signed_env f (l - d + equil f) Hf Rfs) as [Ets _]. rewrite Ets. cbn [bind].
    replace (l - d + equil f - equil f) with (l - d) by lia.
    unfold from_f32. change (f32_to_signed (signed_fmt f) (F32.mul (signed_to_f32 (signed_fmt f) (l - d)) g)) with m.
    destruct (from_signed_ok f m Hf Rm) as [Efm Rfm]. rewrite Efm. cbn [bind].
    destruct (to_signed_env f (m + equil f) Hf Rfm) as [Etm _]. rewrite Etm. cbn [bind].
    replace (m + equil f - equil f) with m by lia.
    unfold add_amp_i. rewrite Ed. cbn [bind]. unfold tadd. rewrite tchk_ok by exact Rsum. cbn [bind].
    destruct (from_signed_ok f (d - equil f + m) Hf Rsum) as [Efe _]. rewrite Efe. f_equal. lia.
  - split; [|split].
    + intros S. assert (S' : 0 <= l - d) by lia. specialize (Bp S'). lia.
    + intros S. assert (S' : l - d <= 0) by lia. specialize (Bn S'). lia.
    + destruct (Z.le_ge_cases 0 (l - d)) as [S|S]; [specialize (Bp S) | specialize (Bn S)]; lia.
Qed.

(* =========================================================================
   Whole frames and whole runs of the peak detectors, outside the known class K2 *)

(* the side of equilibrium the rectifier [which] produces (0 full, 1 positive, 2 negative) *)
Definition on_side (of : ifmt) (which : Z) (x : Z) : Prop :=
  if which =? 2 then imin of < x <= equil of else equil of <= x <= imax of.

Fixpoint all3 {A B C} (P : A -> B -> C -> Prop) (l1 : list A) (l2 : list B) (l3 : list C) : Prop :=
  match l1, l2, l3 with
  | [], [], [] => True
  | a :: t1, b :: t2, c :: t3 => P a b c /\ all3 P t1 t2 t3
  | _, _, _ => False
  end.
Definition between3 : list Z -> list Z -> list Z -> Prop := all3 (fun l d e => Z.min l d <= e <= Z.max l d).

Section Gains.
Variables ga gr : f32.
Hypothesis Fa : is_finite ga = true.
Hypothesis Fr : is_finite gr = true.
Hypothesis Ha : (0 <= B2R ga <= 1)%R.
Hypothesis Hr : (0 <= B2R gr <= 1)%R.

Lemma step_side (of : ifmt) (which l d : Z) : is_envfmt of = true ->
  on_side of which l -> on_side of which d ->
  exists e, env_step_i of ga gr l d = Ok e /\ on_side of which e /\ Z.min l d <= e <= Z.max l d.
Proof.
  intros Hf Sl Sd.
  assert (R : in_range of l /\ in_range of d /\ in_range (signed_fmt of) (- (d - equil of)) /\
              in_range (signed_fmt of) (l - d)).
  { unfold on_side in Sl, Sd. unfold in_range.
    destruct (envfmt_cases of Hf) as [ -> | [ -> | [ -> | -> ]]]; cbn in *; destruct (which =? 2); lia. }
  destruct R as (Rl & Rd & Rn & Rdiff).
  destruct (env_step_i_ok of ga gr l d Hf Fa Fr Ha Hr Rl Rd Rn Rdiff) as (E & _ & _ & B).
  eexists. split; [exact E|]. split; [|exact B].
  unfold on_side in *. destruct (which =? 2); lia.
Qed.

Lemma frame_side (of : ifmt) (which : Z) (last d : list Z) : is_envfmt of = true ->
  Forall (on_side of which) last -> Forall (on_side of which) d -> length last = length d ->
  exists e, map2M (env_step_i of ga gr) last d = Ok e /\ Forall (on_side of which) e /\
            length e = length last /\ between3 last d e.
Proof.
  intros Hf Sl. revert d. induction Sl as [|l last Hl Sl IH]; intros d Sd HL.
  - destruct d; [|discriminate]. exists []. repeat split; constructor.
  - destruct d as [|x d]; [discriminate|]. inversion Sd as [|? ? Hx Sd']; subst.
    destruct (step_side of which l x Hf Hl Hx) as (e & E & Se & Be).
    destruct (IH d Sd' ltac:(cbn in HL; lia)) as (es & Es & Ses & Les & Bes).
    exists (e :: es). cbn [map2M]. rewrite E. cbn [bind]. rewrite Es. cbn [bind].
    repeat split; [constructor; assumption | cbn; lia | exact (proj1 Be) | exact (proj2 Be) | exact Bes].
Qed.
End Gains.

Lemma detect_side (f : ifmt) (which : Z) (fr : list Z) :
  which = 0 \/ which = 1 \/ which = 2 -> is_envfmt (peak_out_fmt f which) = true ->
  Forall (in_range f) fr -> (which = 0 \/ which = 2 -> ~ In (imin f) fr) ->
  exists d, detect_peak_i f which fr = Ok d /\ Forall (on_side (peak_out_fmt f which) which) d /\
            length d = length fr.
Proof.
  intros Hw Hf Hr Hmin. destruct Hw as [ -> | [ -> | -> ]]; cbn [detect_peak_i peak_out_fmt] in *.
  - (* full wave: output in the Signed format *)
    assert (Hf' : is_envfmt f = true) by (destruct f; cbn in *; congruence).
    specialize (Hmin (or_introl eq_refl)). unfold full_wave_frame_i.
    induction Hr as [|s fr Hs Hr IH].
    + exists []. repeat split; constructor.
    + destruct IH as (d & E & Sd & Ld). { intros I. apply Hmin. now right. }
      assert (Hs' : s <> imin f) by (intros ->; apply Hmin; now left).
      assert (A : signed_amp f s = s - equil f).
      { unfold signed_amp. destruct (envfmt_cases f Hf') as [ -> | [ -> | [ -> | -> ]]]; cbn; lia. }
      assert (Rn : in_range (signed_fmt f) (- signed_amp f s)).
      { rewrite A. unfold in_range in *. destruct (envfmt_cases f Hf') as [ -> | [ -> | [ -> | -> ]]]; cbn in *; lia. }
      exists (Z.abs (signed_amp f s) :: d). cbn [mapM]. rewrite (full_wave_i_spec f s Hs Rn). cbn [bind].
      rewrite E. cbn [bind]. repeat split; [|cbn; lia]. constructor; [|exact Sd].
      rewrite A. unfold on_side, in_range in *. destruct (envfmt_cases f Hf') as [ -> | [ -> | [ -> | -> ]]]; cbn in *; lia.
  - exists (pos_half_frame_i f fr). split; [reflexivity|]. unfold pos_half_frame_i. split; [|apply map_length].
    apply Forall_map. eapply Forall_impl; [|exact Hr]. intros s Hs. rewrite pos_half_i_spec.
    unfold on_side, in_range in *. destruct (envfmt_cases f Hf) as [ -> | [ -> | [ -> | -> ]]]; cbn in *; lia.
  - specialize (Hmin (or_intror eq_refl)).
    exists (neg_half_frame_i f fr). split; [reflexivity|]. unfold neg_half_frame_i. split; [|apply map_length].
    apply Forall_map. rewrite Forall_forall in *. intros s Is. specialize (Hr s Is).
    assert (Hs' : s <> imin f) by (intros ->; now apply Hmin). rewrite neg_half_i_spec.
    unfold on_side, in_range in *. destruct (envfmt_cases f Hf) as [ -> | [ -> | [ -> | -> ]]]; cbn in *; lia.
Qed.

(* what a run must look like: every frame detected without panic and every output frame,
   channel by channel, between the previous envelope and the detected value *)
Fixpoint run_between (f : ifmt) (which : Z) (last : list Z) (frames outs : list (list Z)) : Prop :=
  match frames, outs with
  | [], [] => True
  | fr :: t, e :: t' =>
    (exists d, detect_peak_i f which fr = Ok d /\ between3 last d e) /\ run_between f which e t t'
  | _, _ => False
  end.

Theorem idet_run_ok (f : ifmt) (which : Z) (frames : list (list Z)) (dt : idetector) :
  which = 0 \/ which = 1 \/ which = 2 -> is_envfmt (peak_out_fmt f which) = true ->
  is_finite (iattack dt) = true -> is_finite (irelease dt) = true ->
  (0 <= B2R (iattack dt) <= 1)%R -> (0 <= B2R (irelease dt) <= 1)%R ->
  Forall (on_side (peak_out_fmt f which) which) (ilast dt) ->
  Forall (fun fr => Forall (in_range f) fr /\ length fr = length (ilast dt)) frames ->
  ~ KnownClass_K2 f which frames ->
  exists outs, idet_run f which dt frames = Ok outs /\ run_between f which (ilast dt) frames outs.
Proof.
  intros Hw Hf. revert dt. induction frames as [|fr t IH]; intros dt Fa Fr Ha Hr Sl Hfr Hk.
  - exists []. split; constructor.
  - inversion Hfr as [|? ? [Rfr Lfr] Ht]; subst.
    assert (Hmin : which = 0 \/ which = 2 -> ~ In (imin f) fr).
    { intros W I. apply Hk. split; [exact W|]. exists fr. split; [now left | exact I]. }
    destruct (detect_side f which fr Hw Hf Rfr Hmin) as (d & Ed & Sd & Ld).
    destruct (frame_side (iattack dt) (irelease dt) Fa Fr Ha Hr (peak_out_fmt f which) which (ilast dt) d Hf Sl Sd
                ltac:(lia)) as (e & Ee & Se & Le & Be).
    set (dt' := {| ilast := e; iattack := iattack dt; irelease := irelease dt |}).
    destruct (IH dt' Fa Fr Ha Hr Se) as (outs & Er & Br).
    { cbn [ilast dt']. rewrite Le. exact Ht. }
    { intros [W (fr' & I & M)]. apply Hk. split; [exact W|]. exists fr'. split; [now right | exact M]. }
    exists (e :: outs). cbn [idet_run]. rewrite Ed. cbn [bind]. unfold idet_next. rewrite Ee. cbn [bind].
    fold dt'. rewrite Er. cbn [bind]. split; [reflexivity|]. cbn [run_between]. split; [|exact Br].
    exists d. split; assumption.
Qed.

(* Detector::new starts on the right side for every rectifier *)
Lemma idet_new_side (of : ifmt) (which : Z) (nch : nat) (ga gr : f32) : is_envfmt of = true ->
  Forall (on_side of which) (ilast (idet_new of nch ga gr)).
Proof.
  intros Hf. cbn [idet_new ilast]. apply Forall_forall. intros x Hx. apply repeat_spec in Hx. subst x.
  unfold on_side. destruct (envfmt_cases of Hf) as [ -> | [ -> | [ -> | -> ]]]; cbn; destruct (which =? 2); lia.
Qed.

(* the gain hypothesis in executable form *)
Definition f32_unit (x : f32) : bool := F32.leb F32.zero x && F32.leb x F32.one.

Lemma f32_unit_R (g : f32) : f32_unit g = true -> is_finite g = true /\ (0 <= B2R g <= 1)%R.
Proof.
  unfold f32_unit, F32.leb, gle, gcmp. intros H. apply andb_true_iff in H. destruct H as [H0 H1].
  assert (Fg : is_finite g = true).
  { destruct g as [s| [|] | |s m e Hb]; try reflexivity; cbn in H0, H1; try discriminate. }
  split; [exact Fg|].
  destruct (of_int_exact 24 128 p24 pe24 1 ltac:(cbn; lia)) as [V1 F1].
  change (gof_Z 24 128 p24 pe24 1) with F32.one in V1, F1.
  rewrite Bcompare_correct in H0, H1 by (auto; reflexivity). rewrite V1 in H1. cbn [B2R F32.zero] in H0.
  split.
  - destruct (Rcompare_spec 0 (B2R g)); try discriminate; lra.
  - destruct (Rcompare_spec (B2R g) 1); try discriminate; lra.
Qed.
