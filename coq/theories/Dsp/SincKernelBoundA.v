(* |K d x - 1| <= 1/100 for 0 < x < 1, depths 4, 5, 6, 7, 8 (Interval; see SincKernelTac.v).  Split over several
   files only so that they check in parallel. *)
Require Import Reals Lra.
From Interval Require Import Tactic.
From Dasp Require Import Dsp.SincConst Dsp.SincKernelTac.
Open Scope R_scope.

Lemma K_bound_4 : forall x, 0 < x < 1 -> Rabs (K 4 x 0 4 - 1) <= 1 / 100.
Proof. kbound. Qed.

Lemma K_bound_5 : forall x, 0 < x < 1 -> Rabs (K 5 x 0 5 - 1) <= 1 / 100.
Proof. kbound. Qed.

Lemma K_bound_6 : forall x, 0 < x < 1 -> Rabs (K 6 x 0 6 - 1) <= 1 / 100.
Proof. kbound. Qed.

Lemma K_bound_7 : forall x, 0 < x < 1 -> Rabs (K 7 x 0 7 - 1) <= 1 / 100.
Proof. kbound. Qed.

Lemma K_bound_8 : forall x, 0 < x < 1 -> Rabs (K 8 x 0 8 - 1) <= 1 / 100.
Proof. kbound. Qed.

