(* The drift bound of C11, end to end: along the IEEE run of the model (Flocq binary floats of ANY
   format, instantiated to binary32 and binary64 at the end) the stored running sum of every channel
   stays within the executable bound E (RmsErr.e_bound, the tolerance of the correspondence verdict)
   of the exact sum of the squares of the last N inputs.

   1. rounding model  |rnd t - t| <= u |t| + eta  of FLT round-to-nearest-even (Relative.error_N_FLT)
   2. one IEEE step: from "the stored sum after the step is finite" follows that x, x*x, sum + x*x and
      the difference were all finite and equal to the rounded real operations (Bmult/Bplus/Bminus_correct);
      the subtraction of two non-negative finite floats never overflows; the float clamp is the real clamp
   3. the scalar induction (relation [Rel] between the float state of one channel and the dyadic
      bookkeeping of e_bound), with resets
   4. the exact side: esum of e_bound = sum of squares of the last N inputs since new/reset (the
      vocabulary of RmsProofs: last_n, sum_sq, feed)
   5. lifting to the frame model through RmsProjProofs.run_proj. *)
Require Import Floats.SpecFloat.
Require Import ZArith Reals List Bool Arith Lia Lra.
From Flocq Require Import Core BinarySingleNaN Relative Calc.Operations.
From Dasp Require Import Base.Res Base.ListX Base.Float Ring.Bounded Ring.Fixed Ring.FixedSpec
  Dsp.Rms Dsp.RmsInst Dsp.RmsErr Dsp.RmsErrProofs Dsp.RmsProofs Dsp.RmsDrift Dsp.RmsProjProofs.
Import ListNotations.
Open Scope R_scope.

Section Flt.
Variables prec emax : Z.
Context (Hp : Prec_gt_0 prec) (He : Prec_lt_emax prec emax).
Notation bf := (binary_float prec emax).
Let emin := (3 - emax - prec)%Z.
Notation fexp := (FLT_exp emin prec).
Notation rnd := (round radix2 fexp ZnearestE).
Notation z0 := (B754_zero false : bf).
Notation fadd := (gadd prec emax Hp He).
Notation fsub := (gsub prec emax Hp He).
Notation fmul := (gmul prec emax Hp He).
Notation flt := (glt prec emax).
Notation ud := (u_of prec).
Notation etad := (eta_of prec emax).
Notation uR := (F2R (u_of prec)).
Notation etaR := (F2R (eta_of prec emax)).

Local Instance fexp_valid : Valid_exp fexp := @fexp_correct prec emax Hp.

(* ---------- 1. the rounding model ---------- *)
Lemma uR_eq : uR = bpow radix2 (- prec).
Proof. unfold u_of, F2R. cbn [Fnum Fexp]. ring. Qed.

Lemma etaR_eq : etaR = bpow radix2 (emin - 1).
Proof. unfold eta_of, F2R, emin. cbn [Fnum Fexp]. ring. Qed.

Lemma uR_ge0 : 0 <= uR.
Proof. rewrite uR_eq. apply bpow_ge_0. Qed.
Lemma etaR_ge0 : 0 <= etaR.
Proof. rewrite etaR_eq. apply bpow_ge_0. Qed.

Lemma rnd_err (t : R) : Rabs (rnd t - t) <= uR * Rabs t + etaR.
Proof.
  destruct (error_N_FLT radix2 emin prec Hp (fun x => negb (Z.even x)) t) as (eps & eta & H1 & H2 & _ & Hr).
  change (round radix2 (FLT_exp emin prec) (Znearest (fun x => negb (Z.even x))) t) with (rnd t) in Hr.
  rewrite Hr. replace (t * (1 + eps) + eta - t) with (t * eps + eta) by ring.
  assert (E1 : / 2 * bpow radix2 (- prec + 1) = uR).
  { rewrite uR_eq, bpow_plus. change (bpow radix2 1) with 2. field. }
  assert (E2 : / 2 * bpow radix2 emin = etaR).
  { rewrite etaR_eq. unfold Zminus. rewrite bpow_plus. change (bpow radix2 (- (1))) with (/ 2). ring. }
  rewrite E1 in H1. rewrite E2 in H2.
  eapply Rle_trans; [apply Rabs_triang|]. rewrite Rabs_mult.
  apply Rplus_le_compat; [|exact H2].
  rewrite Rmult_comm. apply Rmult_le_compat_r; [apply Rabs_pos|exact H1].
Qed.

Lemma rnd_ge0 (t : R) : 0 <= t -> 0 <= rnd t.
Proof.
  intros H. apply round_ge_generic; auto with typeclass_instances. apply generic_format_0.
Qed.

Lemma B2R_B2Dy (x : bf) : F2R (B2Dy x) = B2R x.
Proof. destruct x; simpl; try reflexivity; unfold F2R; simpl; ring. Qed.

(* ---------- 2. one IEEE step ---------- *)
Definition fclamp (d : bf) : bf := if flt d z0 then z0 else d.

Lemma mul_self_cases (x : bf) :
  (is_finite x = true /\ is_finite (fmul x x) = true /\ B2R (fmul x x) = rnd (B2R x * B2R x) /\
   Bsign (fmul x x) = false) \/
  fmul x x = B754_infinity false \/ fmul x x = B754_nan.
Proof.
  destruct x as [s|s| |s m e H].
  - left. unfold gmul. cbn [Bmult B2R is_finite Bsign]. rewrite Rmult_0_l, round_0 by auto with typeclass_instances.
    repeat split; auto. now destruct s.
  - right. left. unfold gmul. cbn [Bmult]. now destruct s.
  - right. right. reflexivity.
  - pose proof (Bmult_correct prec emax Hp He mode_NE (B754_finite s m e H) (B754_finite s m e H)) as HC.
    change (round radix2 (SpecFloat.fexp prec emax) (round_mode mode_NE)) with rnd in HC.
    unfold gmul. destruct (Rlt_bool _ _).
    + destruct HC as (E & F & S). left. cbn [is_finite andb] in F. repeat split; auto.
      rewrite S; [cbn [Bsign]; now destruct s|].
      destruct (Bmult mode_NE (B754_finite s m e H) (B754_finite s m e H)); try discriminate; reflexivity.
    + right. left. unfold binary_overflow in HC. cbn [overflow_to_inf Bsign] in HC.
      rewrite xorb_nilpotent in HC.
      destruct (Bmult mode_NE (B754_finite s m e H) (B754_finite s m e H)); simpl in HC; try discriminate.
      now inversion HC.
Qed.

Lemma add_cases (s q : bf) : is_finite s = true -> is_finite q = true -> Bsign q = false ->
  (is_finite (fadd s q) = true /\ B2R (fadd s q) = rnd (B2R s + B2R q)) \/ fadd s q = B754_infinity false.
Proof.
  intros Fs Fq Sq. pose proof (Bplus_correct prec emax Hp He mode_NE s q Fs Fq) as HC.
  change (round radix2 (SpecFloat.fexp prec emax) (round_mode mode_NE)) with rnd in HC.
  unfold gadd. destruct (Rlt_bool _ _).
  - destruct HC as (E & F & _). left. split; assumption.
  - destruct HC as (HC & Sg). right. rewrite Sg, Sq in HC. unfold binary_overflow in HC. cbn [overflow_to_inf] in HC.
    destruct (Bplus mode_NE s q); simpl in HC; try discriminate. now inversion HC.
Qed.

(* the difference of two non-negative finite floats never overflows *)
Lemma sub_ok (a r : bf) : is_finite a = true -> is_finite r = true -> 0 <= B2R a -> 0 <= B2R r ->
  is_finite (fsub a r) = true /\ B2R (fsub a r) = rnd (B2R a - B2R r).
Proof.
  intros Fa Fr Pa Pr. pose proof (Bminus_correct prec emax Hp He mode_NE a r Fa Fr) as HC.
  change (round radix2 (SpecFloat.fexp prec emax) (round_mode mode_NE)) with rnd in HC.
  rewrite Rlt_bool_true in HC.
  - destruct HC as (E & F & _). unfold gsub. split; assumption.
  - apply Rle_lt_trans with (Rmax (B2R a) (B2R r)).
    + apply abs_round_le_generic; auto with typeclass_instances.
      * apply Rmax_case; apply generic_format_B2R.
      * apply Rabs_le. pose proof (Rmax_l (B2R a) (B2R r)). pose proof (Rmax_r (B2R a) (B2R r)). lra.
    + apply Rmax_case.
      * eapply Rle_lt_trans; [apply Rle_abs|apply abs_B2R_lt_emax].
      * eapply Rle_lt_trans; [apply Rle_abs|apply abs_B2R_lt_emax].
Qed.

Lemma clamp_ok (d : bf) : is_finite d = true ->
  is_finite (fclamp d) = true /\ B2R (fclamp d) = clampR (B2R d) /\ 0 <= B2R (fclamp d).
Proof.
  intros Fd. unfold fclamp, glt, gcmp.
  rewrite (Bcompare_correct prec emax d z0 Fd eq_refl). cbn [B2R]. unfold clampR.
  destruct (Rcompare_spec (B2R d) 0) as [H|H|H]; destruct (Rlt_bool_spec (B2R d) 0) as [H'|H']; try lra;
    cbn [B2R is_finite]; repeat split; auto; lra.
Qed.

Lemma add_inf (s : bf) : is_finite s = true -> fadd s (B754_infinity false) = B754_infinity false.
Proof. destruct s; try discriminate; reflexivity. Qed.
Lemma add_nan (s : bf) : fadd s B754_nan = B754_nan.
Proof. destruct s; reflexivity. Qed.
Lemma sub_inf (r : bf) : is_finite r = true -> fsub (B754_infinity false) r = B754_infinity false.
Proof. destruct r; try discriminate; reflexivity. Qed.
Lemma sub_nan (r : bf) : fsub B754_nan r = B754_nan.
Proof. destruct r; reflexivity. Qed.

(* "the stored sum is finite" implies that nothing overflowed inside the step *)
Lemma step_cases (s x old : bf) :
  is_finite s = true -> is_finite old = true -> 0 <= B2R s -> 0 <= B2R old ->
  is_finite (fclamp (fsub (fadd s (fmul x x)) old)) = true ->
  is_finite x = true /\ is_finite (fmul x x) = true /\ B2R (fmul x x) = rnd (B2R x * B2R x) /\
  B2R (fadd s (fmul x x)) = rnd (B2R s + B2R (fmul x x)) /\
  B2R (fsub (fadd s (fmul x x)) old) = rnd (B2R (fadd s (fmul x x)) - B2R old) /\
  B2R (fclamp (fsub (fadd s (fmul x x)) old)) = clampR (B2R (fsub (fadd s (fmul x x)) old)) /\
  0 <= B2R (fclamp (fsub (fadd s (fmul x x)) old)).
Proof.
  intros Fs Fo Ps Po Fin.
  destruct (mul_self_cases x) as [(Fx & Fq & Eq & Sq)|[Eq|Eq]].
  - destruct (add_cases s (fmul x x) Fs Fq Sq) as [(Fa & Ea)|Ea].
    + assert (Pa : 0 <= B2R (fadd s (fmul x x))).
      { rewrite Ea. apply rnd_ge0. rewrite Eq. pose proof (rnd_ge0 (B2R x * B2R x)) as Hq.
        pose proof (Rle_0_sqr (B2R x)) as Hsq. unfold Rsqr in Hsq. lra. }
      destruct (sub_ok _ old Fa Fo Pa Po) as (Fd & Ed).
      destruct (clamp_ok _ Fd) as (_ & Ec & Pc). repeat split; assumption.
    + exfalso. rewrite Ea, (sub_inf old Fo) in Fin. discriminate.
  - exfalso. rewrite Eq, (add_inf s Fs), (sub_inf old Fo) in Fin. discriminate.
  - exfalso. rewrite Eq, add_nan, sub_nan in Fin. discriminate.
Qed.

(* ---------- 3. the scalar induction ---------- *)
Variable ofn : nat -> bf.
Variable sq : bf -> bf.
Notation KG := (NumG prec emax Hp He ofn sq).

Lemma clampK (d : bf) : clamp KG d = fclamp d.
Proof. reflexivity. Qed.

Definition wrel (w : bf) (d : dy) : Prop :=
  is_finite w = true /\ 0 <= B2R w /\ 0 <= F2R d /\ Rabs (B2R w - F2R d) <= uR * F2R d + etaR.

Definition rsum (l : list dy) : R := fold_right Rplus 0 (map F2R l).

Definition Rel (N : nat) (st : sstate KG) (e : est) : Prop :=
  length (fst st) = N /\ Forall2 wrel (fst st) (ewin e) /\
  is_finite (snd st) = true /\ 0 <= B2R (snd st) /\
  F2R (esum e) = rsum (ewin e) /\ Rabs (B2R (snd st) - F2R (esum e)) <= F2R (eerr e).

Lemma F2R_d0 : F2R d0 = 0.
Proof. unfold d0, F2R. simpl. ring. Qed.

Lemma rsum_ge0 q w : Forall2 wrel q w -> 0 <= rsum w.
Proof.
  unfold rsum. induction 1 as [|a b q w (_ & _ & H & _) _ IH]; simpl; lra.
Qed.

Lemma rsum_app a b : rsum (a ++ b) = rsum a + rsum b.
Proof. unfold rsum. induction a as [|x a IH]; simpl; [ring|]. rewrite IH. ring. Qed.

Lemma Rel_reset N : Rel N (sreset KG N) (e_init N).
Proof.
  unfold Rel, sreset, e_init. cbn [fst snd ewin esum eerr]. rewrite repeat_length.
  assert (Hw : wrel z0 d0).
  { unfold wrel. cbn [is_finite B2R]. rewrite F2R_d0, Rminus_0_r, Rabs_R0, Rmult_0_r.
    pose proof etaR_ge0. repeat split; auto; lra. }
  assert (HF : Forall2 wrel (repeat (zero KG) N) (repeat d0 N)) by (induction N; simpl; constructor; auto).
  assert (Hs : rsum (repeat d0 N) = 0).
  { clear HF. unfold rsum. induction N as [|n IH]; simpl; [reflexivity|]. rewrite IH, F2R_d0. ring. }
  repeat split; auto.
  - cbn [B2R zero NumG]. lra.
  - rewrite Hs. apply F2R_d0.
  - cbn [B2R zero NumG]. rewrite F2R_d0, Rminus_0_r, Rabs_R0. lra.
Qed.

Lemma Rel_push N st e (x : bf) : (1 <= N)%nat -> Rel N st e ->
  is_finite (snd (spush KG (clamp KG) st x)) = true ->
  Rel N (spush KG (clamp KG) st x) (e_push ud etad e (dmul (B2Dy x) (B2Dy x))).
Proof.
  intros HN (HL & HW & Fs & Ps & HS & HE) Fin.
  destruct st as [q s]. destruct e as [ew es ee]. cbn [fst snd ewin esum eerr] in *.
  destruct HW as [|old r q' w' (Fo & Po & Pr & Er) HW']; [simpl in HL; lia|].
  unfold spush in *. cbn [fst snd] in *. unfold e_push. cbn [ewin esum eerr].
  cbn [mul add sub NumG] in *. rewrite clampK in *.
  destruct (step_cases s x old Fs Fo Ps Po Fin) as (Fx & Fq & Eq & Ea & Ed & Ec & Pc).
  set (X := B2Dy x). set (Q := dmul X X).
  assert (HQ : F2R Q = B2R x * B2R x) by (unfold Q, dmul, X; now rewrite F2R_mult, B2R_B2Dy).
  assert (PQ : 0 <= F2R Q) by (rewrite HQ; pose proof (Rle_0_sqr (B2R x)) as Hs; unfold Rsqr in Hs; exact Hs).
  assert (Pw' : 0 <= rsum w') by (apply (rsum_ge0 q' w' HW')).
  assert (HSv : F2R es = F2R r + rsum w') by (rewrite HS; reflexivity).
  assert (HS' : F2R (dsub (dadd es Q) r) = rsum (w' ++ [Q])).
  { unfold dsub, dadd. rewrite F2R_minus, F2R_plus, rsum_app, HSv. unfold rsum. simpl. ring. }
  assert (Pqt : 0 <= B2R (fmul x x)) by (rewrite Eq; apply rnd_ge0; lra).
  assert (Eqt : Rabs (B2R (fmul x x) - F2R Q) <= uR * F2R Q + etaR).
  { rewrite Eq, HQ. pose proof (rnd_err (B2R x * B2R x)) as H. rewrite (Rabs_pos_eq (B2R x * B2R x)) in H by lra. exact H. }
  unfold Rel. cbn [fst snd ewin esum eerr]. repeat split.
  - rewrite app_length. simpl in *. lia.
  - apply Forall2_app; [exact HW'|]. constructor; [|constructor]. repeat split; assumption.
  - exact Fin.
  - exact Pc.
  - exact HS'.
  - rewrite Ec.
    apply (drift_step ud etad es ee Q r (B2R s) (B2R (fmul x x)) (B2R old) (B2R (fadd s (fmul x x)))
             (B2R (fsub (fadd s (fmul x x)) old))).
    + apply uR_ge0.
    + apply etaR_ge0.
    + rewrite HSv. lra.
    + eapply Rle_trans; [apply Rabs_pos|exact HE].
    + exact PQ.
    + exact Pr.
    + rewrite HS', rsum_app. unfold rsum at 2. simpl. lra.
    + exact HE.
    + exact Eqt.
    + exact Er.
    + rewrite Ea. apply rnd_err.
    + rewrite Ed. apply rnd_err.
Qed.

Lemma srun_rel N : (1 <= N)%nat -> forall evs st e, Rel N st e ->
  srun_ok KG is_finite (clamp KG) N st evs = true ->
  Rel N (srun KG (clamp KG) N st evs) (e_bound ud etad N e (dy_evs prec emax evs)).
Proof.
  intros HN. induction evs as [|[x|] evs IH]; intros st e HR Hok; cbn [srun srun_ok dy_evs map option_map e_bound] in *.
  - exact HR.
  - apply andb_prop in Hok. destruct Hok as [H1 H2].
    apply IH; [|exact H2]. apply Rel_push; assumption.
  - apply IH; [apply Rel_reset|exact Hok].
Qed.

(* ---------- 4. the exact side: esum = sum of the squares of the last N inputs ---------- *)
Definition frR (fr : list bf) : rframe := map B2R fr.

Lemma chan_frR c (fr : list bf) : chan c (frR fr) = B2R (nth c fr z0).
Proof. unfold chan, frR. change 0 with (B2R z0). apply map_nth. Qed.

Definition sqs (c : nat) (l : list rframe) : list R := map (fun f => chan c f * chan c f) l.

Lemma e_win_exact N C c : (1 <= N)%nat -> forall (ops : list (op KG)) xs e,
  map F2R (ewin e) = sqs c (last_n N C xs) ->
  map F2R (ewin (e_bound ud etad N e (dy_evs prec emax (chan_evs KG c ops)))) =
  sqs c (last_n N C (feed xs (map (opR (K := KG) B2R) ops))).
Proof.
  intros HN. induction ops as [|o ops IH]; intros xs e HE; [exact HE|].
  assert (Hpush : forall fr,
    map F2R (ewin (e_push ud etad e (dmul (B2Dy (nth c fr z0)) (B2Dy (nth c fr z0))))) =
    sqs c (last_n N C (xs ++ [frR fr]))).
  { intros fr. unfold e_push.
    destruct (ewin e) as [|r w'] eqn:Ew.
    - exfalso. pose proof (f_equal (@length R) HE) as HL. unfold sqs in HL. rewrite !map_length, last_n_length in HL.
      simpl in HL. lia.
    - cbn [ewin]. rewrite last_n_snoc by exact HN. unfold sqs in *. rewrite !map_app, map_tl', <- HE. cbn [map tl].
      f_equal. f_equal. unfold dmul. rewrite F2R_mult, B2R_B2Dy, chan_frR. reflexivity. }
  destruct o as [fr|fr| | ]; cbn [chan_evs flat_map app dy_evs map option_map e_bound opR feed].
  - apply IH. apply Hpush.
  - apply IH. apply Hpush.
  - apply IH. exact HE.
  - apply IH. unfold e_init. cbn [ewin]. rewrite last_n_nil. unfold sqs.
    rewrite !RmsProofs.map_repeat, chan_zero_frame, F2R_d0. f_equal. ring.
Qed.

Lemma rsum_sum_sq c l (w : list dy) : map F2R w = sqs c l -> rsum w = sum_sq c l.
Proof. intros H. unfold rsum, sum_sq. now rewrite H. Qed.

(* ---------- 5. the frame model ---------- *)
(* the exact inputs of a float history *)
Definition opsR (ops : list (op KG)) : list (op NumR) := map (opR (K := KG) B2R) ops.

Theorem drift_bound_gen (N C fst0 : nat) (ops : list (op KG)) :
  (1 <= N)%nat -> (fst0 < N)%nat -> Forall (opK_ok KG C) ops ->
  sums_ok KG is_finite (new_stateK KG N C fst0) ops = true ->
  exists st' outs, run KG (new_stateK KG N C fst0) ops = Ok (st', outs) /\
    flen (window KG st') = N /\ length (square_sum KG st') = C /\
    forall c, (c < C)%nat ->
      let e := e_after prec emax N (chan_evs KG c ops) in
      F2R (esum e) = sum_sq c (last_n N C (feed [] (opsR ops))) /\
      is_finite (nth c (square_sum KG st') z0) = true /\ 0 <= B2R (nth c (square_sum KG st') z0) /\
      Rabs (B2R (nth c (square_sum KG st') z0) - F2R (esum e)) <= F2R (eerr e).
Proof.
  intros HN Hf Hops Hfin.
  destruct (SInv_new KG N C fst0 Hf) as [I0 P0].
  destruct (run_proj KG is_finite N C ops _ I0 Hops) as (st' & outs & E & I' & P & F).
  exists st', outs. split; [exact E|].
  split; [destruct I' as (_ & _ & L & _); exact L|]. split; [destruct I' as (_ & _ & _ & _ & L); exact L|].
  intros c Hc. cbv zeta. unfold e_after.
  specialize (P c Hc). specialize (F Hfin c Hc). rewrite P0 in P, F.
  pose proof (srun_rel N HN _ _ _ (Rel_reset N) F) as (_ & _ & Fs & Ps & HS & HE).
  rewrite <- P in Fs, Ps, HE. unfold proj in Fs, Ps, HE. cbn [snd] in Fs, Ps, HE.
  split; [|split; [exact Fs|split; [exact Ps|exact HE]]].
  rewrite HS. apply rsum_sum_sq. unfold opsR. apply (e_win_exact N C c HN ops [] (e_init N)).
  unfold e_init. cbn [ewin]. rewrite last_n_nil. unfold sqs.
  rewrite !RmsProofs.map_repeat, chan_zero_frame, F2R_d0. f_equal. ring.
Qed.

(* the same after every number k of operations of the history *)
Theorem drift_bound_steps (N C fst0 : nat) (ops : list (op KG)) (k : nat) :
  (1 <= N)%nat -> (fst0 < N)%nat -> Forall (opK_ok KG C) ops ->
  sums_ok KG is_finite (new_stateK KG N C fst0) ops = true ->
  exists st_k outs, run KG (new_stateK KG N C fst0) (firstn k ops) = Ok (st_k, outs) /\
    flen (window KG st_k) = N /\ length (square_sum KG st_k) = C /\
    forall c, (c < C)%nat ->
      let e := e_after prec emax N (chan_evs KG c (firstn k ops)) in
      F2R (esum e) = sum_sq c (last_n N C (feed [] (opsR (firstn k ops)))) /\
      is_finite (nth c (square_sum KG st_k) z0) = true /\ 0 <= B2R (nth c (square_sum KG st_k) z0) /\
      Rabs (B2R (nth c (square_sum KG st_k) z0) - F2R (esum e)) <= F2R (eerr e).
Proof.
  intros HN Hf Hops Hfin. apply drift_bound_gen; auto.
  - apply Forall_firstn'. exact Hops.
  - apply sums_ok_firstn. exact Hfin.
Qed.

End Flt.
