(* Structural theorems about the sinc model, for every arithmetic, every oracle, every sample format:
   kernel half-width, absence of usize underflow, tap indices in range, the only possible failure of
   interpolate is a failure of the format's add_amp; next_source_frame and reset keep the invariant;
   reset returns to the initial state. *)
Require Import List Arith ZArith Bool Lia.
From Dasp Require Import Base.Res Base.ListX Ring.Bounded Ring.Fixed Ring.FixedSpec Ring.FixedProofs Dsp.Sinc.
Import ListNotations.
Local Arguments Nat.mul : simpl never.
Local Arguments Nat.modulo : simpl never.
Local Arguments Nat.div : simpl never.

Section Proofs.
Variable N : num.
Variables sin_o cos_o : T N -> T N.
Variable M : fmt N.
Variable ch : nat.

Notation frame := (list (smp M)).
Notation sinc := (sinc N M).
Notation interpolate := (interpolate N sin_o cos_o M ch).
Notation tap_step := (tap_step N sin_o cos_o M).
Notation zip_acc := (zip_acc N M).

(* reachable states of an interpolator of the given depth over frames of [ch] channels *)
Definition WF (depth : nat) (s : sinc) : Prop :=
  InvF (frames s) /\ flen (frames s) = 2 * depth /\ 1 <= depth /\ idx s <= depth /\
  (forall fr, In fr (fdata (frames s)) -> length fr = ch).

Lemma sdepth_wf d s : WF d s -> sdepth N M s = d.
Proof.
  intros (_ & HL & _). unfold sdepth. rewrite HL.
  replace (2 * d) with (d * 2) by lia. apply Nat.div_mul. lia.
Qed.

Lemma max_depth_wf d s : WF d s -> max_depth N M s = Ok (Nat.min (idx s + 1) d).
Proof.
  intros W. pose proof (sdepth_wf d s W) as HD. destruct W as (_ & HL & Hd & Hi & _).
  unfold max_depth. rewrite HD, HL.
  destruct (Nat.leb_spec (2 * d) (idx s + d)) as [H|H].
  - unfold usub. destruct (Nat.leb_spec d (2 * d)); [|lia]. f_equal. lia.
  - destruct (Z.ltb_spec (Z.of_nat (idx s + 1) - Z.of_nat d) 0) as [H2|H2]; f_equal; lia.
Qed.

Lemma no_underflow d s n : WF d s -> n < Nat.min (idx s + 1) d -> usub (idx s) n = Ok (idx s - n).
Proof. intros _ H. unfold usub. destruct (Nat.leb_spec n (idx s)); [reflexivity|lia]. Qed.

Lemma no_underflow_md d s n md : WF d s -> max_depth N M s = Ok md -> n < md ->
  n <= idx s /\ usub (idx s) n = Ok (idx s - n).
Proof.
  intros W E H. rewrite (max_depth_wf d s W) in E. injection E as <-.
  split; [lia|]. apply (no_underflow d s n W H).
Qed.

(* Fixed's Index wraps: every index reads a stored frame *)
Lemma fget_wf d s i : WF d s ->
  exists w fr, fwrapped (frames s) i = Ok w /\ w < flen (frames s) /\
               fget (frames s) i = Ok fr /\ nth_error (fdata (frames s)) w = Some fr /\ length fr = ch.
Proof.
  intros (I & _ & _ & _ & HF). unfold fget.
  destruct (fwrapped_ok (frames s) i I) as [w [E [_ Hlt]]]. rewrite E. simpl.
  unfold get_checked. destruct (nth_error_lt_Some (fdata (frames s)) w Hlt) as [v Hv]. rewrite Hv.
  exists w, v. repeat split; auto. apply HF. eapply nth_error_In; eauto.
Qed.

(* a failure that is a failure of the sample format's add_amp *)
Definition from_add {A} (r : res A) : Prop :=
  match r with
  | Ok _ => False
  | Panic k => exists v p, add_amp_f M v p = Panic k
  | UB => exists v p, add_amp_f M v p = UB
  end.

Definition ok_or_add (P : frame -> Prop) (r : res frame) : Prop :=
  match r with Ok fr => P fr | _ => from_add r end.

Lemma zip_acc_cls w : forall v fr, length v = length fr ->
  ok_or_add (fun v' => length v' = length v) (zip_acc w v fr).
Proof.
  induction v as [|vs v IH]; intros [|r fr] HL; simpl in *; try discriminate; auto.
  destruct (add_amp_f M vs (n_mul N w (to_f M r))) eqn:E; simpl; eauto.
  specialize (IH fr ltac:(lia)).
  destruct (zip_acc w v fr); simpl in *; auto.
Qed.

Lemma tap_step_cls d s x dd v n : WF d s -> n < Nat.min (idx s + 1) d -> length v = ch ->
  ok_or_add (fun v' => length v' = ch) (tap_step s x dd v n).
Proof.
  intros W Hn Hv. unfold Sinc.tap_step. rewrite (no_underflow d s n W Hn). simpl.
  destruct (fget_wf d s (idx s - n) W) as (w1 & f1 & _ & _ & E1 & _ & L1). rewrite E1. simpl.
  pose proof (zip_acc_cls (weight N sin_o cos_o dd (tap_arg N x n)) v f1 ltac:(lia)) as C1.
  destruct (zip_acc _ v f1) as [v1| |]; simpl in *; auto.
  destruct (fget_wf d s (idx s + 1 + n) W) as (w2 & f2 & _ & _ & E2 & _ & L2). rewrite E2. simpl.
  pose proof (zip_acc_cls (weight N sin_o cos_o dd (tap_arg N (n_sub N (n_one N) x) n)) v1 f2 ltac:(lia)) as C2.
  destruct (zip_acc _ v1 f2); simpl in *; auto. lia.
Qed.

Lemma fold_range_cls d s x dd : WF d s -> forall k n0 v, n0 + k <= Nat.min (idx s + 1) d -> length v = ch ->
  ok_or_add (fun v' => length v' = ch) (fold_range N M (tap_step s x dd) v n0 k).
Proof.
  intros W. induction k as [|k IH]; intros n0 v Hk Hv; simpl; auto.
  pose proof (tap_step_cls d s x dd v n0 W ltac:(lia) Hv) as C.
  destruct (tap_step s x dd v n0); simpl in *; auto.
  apply IH; auto. lia.
Qed.

Lemma equil_frame_length : length (equil_frame N M ch) = ch.
Proof. apply repeat_length. Qed.

(* interpolate never ends in UB, an index panic, an underflow or an assertion of its own: it returns a
   frame of the right width, or fails exactly where the sample format's add_amp fails *)
Theorem interpolate_cls d s x : WF d s -> ok_or_add (fun fr => length fr = ch) (interpolate s x).
Proof.
  intros W. unfold Sinc.interpolate. rewrite (max_depth_wf d s W). simpl.
  apply (fold_range_cls d s x _ W); [lia|apply equil_frame_length].
Qed.

Theorem interpolate_safe d s x : WF d s ->
  match interpolate s x with
  | Ok fr => length fr = ch
  | Panic k => exists v p, add_amp_f M v p = Panic k
  | UB => exists v p, add_amp_f M v p = UB
  end.
Proof. intros W. pose proof (interpolate_cls d s x W) as C. destruct (interpolate s x); exact C. Qed.

Theorem interpolate_ok d s x : WF d s -> (forall v p, exists r, add_amp_f M v p = Ok r) ->
  exists fr, interpolate s x = Ok fr /\ length fr = ch.
Proof.
  intros W Tot. pose proof (interpolate_cls d s x W) as C.
  destruct (interpolate s x) as [fr|k|]; simpl in C; eauto.
  - destruct C as (v & p & E). destruct (Tot v p) as [r Er]. congruence.
  - destruct C as (v & p & E). destruct (Tot v p) as [r Er]. congruence.
Qed.

(* ---- next_source_frame ---- *)
Lemma In_set_nth {A} i (x : A) l y : In y (set_nth i x l) -> y = x \/ In y l.
Proof.
  revert i; induction l as [|h t IH]; intros [|i] H; simpl in *; auto.
  - destruct H; auto.
  - destruct H as [H|H]; auto. destruct (IH i H); auto.
Qed.

Lemma next_source_frame_wf d s fr : WF d s -> length fr = ch ->
  exists s', next_source_frame N M s fr = Ok s' /\ WF d s' /\
    idx s' = Nat.min (idx s + 1) d /\
    (exists old q', fq (frames s) = old :: q' /\ fq (frames s') = q' ++ [fr]).
Proof.
  intros W Hfr. pose proof (sdepth_wf d s W) as HD. destruct W as (I & HL & Hd & Hi & HF).
  unfold next_source_frame.
  destruct (fpush_refines (frames s) fr I) as (f' & old & q' & E & I' & L' & Hq & Habs).
  rewrite E. simpl. eexists. split; [reflexivity|]. rewrite HD.
  assert (Hdata : forall g, In g (fdata f') -> length g = ch).
  { intros g Hg. unfold fpush in E. destruct (get_unchecked (fdata (frames s)) (first (frames s))); simpl in E; try discriminate.
    inversion E; subst f'. simpl in Hg. apply In_set_nth in Hg. destruct Hg as [->|Hg]; auto. }
  split; [|split].
  - unfold WF; simpl. repeat split; auto; try lia. destruct (Nat.ltb_spec (idx s) d); lia.
  - simpl. destruct (Nat.ltb_spec (idx s) d); lia.
  - exists old, q'. split; auto. simpl. rewrite fabs_eq in Habs. congruence.
Qed.

(* ---- reset and the initial state ---- *)
Definition silent (d : nat) : sinc :=
  {| frames := {| first := 0; fdata := repeat (equil_frame N M ch) (2 * d) |}; idx := 0 |}.

Lemma map_const_repeat {A B} (c : B) (l : list A) : map (fun _ => c) l = repeat c (length l).
Proof. induction l; simpl; congruence. Qed.

Lemma sinc_init_silent d : 1 <= d -> sinc_init N M ch d = Ok (silent d).
Proof.
  intros Hd. unfold sinc_init, f_from, f_from_raw_parts. rewrite repeat_length.
  destruct (Nat.ltb_spec 0 (2 * d)); [|lia]. simpl bind. unfold sinc_new, flen. cbn [fdata].
  rewrite repeat_length.
  assert (E : (2 * d) mod 2 = 0) by (rewrite Nat.mul_comm; apply Nat.mod_mul; lia).
  rewrite E. reflexivity.
Qed.

Lemma silent_wf d : 1 <= d -> WF d (silent d).
Proof.
  intros Hd. unfold WF, silent, InvF, flen; cbn [frames idx first fdata]. rewrite repeat_length.
  repeat split; try lia. intros fr H. apply repeat_spec in H. subst. apply equil_frame_length.
Qed.

Theorem reset_silent d s : WF d s -> reset N M ch s = Ok (silent d).
Proof.
  intros (I & HL & Hd & _). unfold reset, fset_first, rmod.
  destruct (Nat.eqb_spec (flen (frames s)) 0); [lia|]. simpl bind.
  rewrite Nat.mod_0_l by lia.
  unfold fmap_in_place, fslices. cbn [first fdata flen]. cbn [Nat.ltb Nat.leb]. simpl bind.
  cbn [fst snd skipn firstn map app]. rewrite map_const_repeat.
  unfold flen in HL. rewrite HL. reflexivity.
Qed.

End Proofs.
