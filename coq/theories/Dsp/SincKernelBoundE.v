(* |K d x - 1| <= 1/100 for 0 < x < 1, depths 16 (Interval; see SincKernelTac.v).  Split over several
   files only so that they check in parallel. *)
Require Import Reals Lra.
From Interval Require Import Tactic.
From Dasp Require Import Dsp.SincConst Dsp.SincKernelTac.
Open Scope R_scope.

Lemma K_bound_16 : forall x, 0 < x < 1 -> Rabs (K 16 x 0 16 - 1) <= 1 / 100.
Proof. kbound. Qed.

