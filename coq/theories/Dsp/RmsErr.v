(* The executable error bound E of C11 ("within a rigorous floating-point error bound").
   Exact dyadic arithmetic on Flocq's [float radix2] (mantissa * 2^exponent, both Z), so it
   runs under vm_compute; the SAME function is the tolerance of the correspondence verdict
   (RmsRun.v) and the subject of the drift theorem (RmsErrProofs.v: one step on reals;
   RmsDriftProofs.v: the induction along the IEEE run, `c11_drift_bound`).

   One channel.  q = x*x exact square entering, r = exact square leaving (N steps old, 0 while the
   window is still zero-padded), S = exact sum of the squares in the window, T = bound on
   |square_sum_float - S| before the step, u = 2^-prec, eta = 2^(emin-1) (half the smallest
   subnormal; every operation satisfies |fl(t) - t| <= u|t| + eta when it does not overflow):
     A  = S + T + q + (u q + eta)                      >= |square_sum + fl(x*x)|
     B  = (1+u) A + eta + r + (u r + eta)              >= |fl(square_sum + fl(x*x)) - fl(r)|
     T' = up (T + (u q + eta) + (u r + eta) + (u A + eta) + (u B + eta))
   (the clamp at zero cannot increase the error since S' >= 0);  [up] rounds the mantissa up to
   64 bits so that the bound stays small over long histories; reset: T = 0, S = 0. *)
Require Import ZArith List Bool.
From Flocq Require Import Core Calc.Operations.
Import ListNotations.
Open Scope Z_scope.

Notation dy := (float radix2).
Definition d0 : dy := Float radix2 0 0.
Definition d1 : dy := Float radix2 1 0.
Definition dadd (a b : dy) : dy := Fplus a b.
Definition dsub (a b : dy) : dy := Fminus a b.
Definition dmul (a b : dy) : dy := Fmult a b.
Definition dabs (a : dy) : dy := Fabs a.
Definition dleb (a b : dy) : bool := let '(x, y, _) := Falign a b in Z.leb x y.

(* round up to a mantissa of at most 65 bits (identity on small or non-positive mantissas) *)
Definition dup (a : dy) : dy :=
  let m := Fnum a in
  let k := Z.log2 m - 64 in
  if 0 <? k then Float radix2 ((m + 2 ^ k - 1) / 2 ^ k) (Fexp a + k) else a.

Record est := { ewin : list dy; esum : dy; eerr : dy }.

Definition e_init (N : nat) : est := {| ewin := repeat d0 N; esum := d0; eerr := d0 |}.

Definition e_next (u eta S T q r : dy) : dy :=
  let eq := dadd (dmul u q) eta in
  let er := dadd (dmul u r) eta in
  let A := dadd (dadd (dadd S T) q) eq in
  let B := dadd (dadd (dadd (dmul (dadd d1 u) A) eta) r) er in
  dup (dadd (dadd (dadd (dadd T eq) er) (dadd (dmul u A) eta)) (dadd (dmul u B) eta)).

Definition e_push (u eta : dy) (st : est) (q : dy) : est :=
  match ewin st with
  | [] => st
  | r :: w' => {| ewin := w' ++ [q]; esum := dsub (dadd (esum st) q) r;
                  eerr := e_next u eta (esum st) (eerr st) q r |}
  end.

(* events of one channel: an input x with the float running sum observed after it, or a reset *)
Inductive ev := EPush (x : dy) (s : dy) | EReset.

Fixpoint e_verdict (u eta : dy) (N : nat) (st : est) (evs : list ev) : bool :=
  match evs with
  | [] => true
  | EReset :: t => e_verdict u eta N (e_init N) t
  | EPush x s :: t =>
    let st' := e_push u eta st (dmul x x) in
    dleb (dabs (dsub s (esum st'))) (eerr st') && e_verdict u eta N st' t
  end.

(* the bound after a history (no observations), for reporting *)
Fixpoint e_bound (u eta : dy) (N : nat) (st : est) (xs : list (option dy)) : est :=
  match xs with
  | [] => st
  | None :: t => e_bound u eta N (e_init N) t
  | Some x :: t => e_bound u eta N (e_push u eta st (dmul x x)) t
  end.

Definition u_of (prec : Z) : dy := Float radix2 1 (- prec).
Definition eta_of (prec emax : Z) : dy := Float radix2 1 (3 - emax - prec - 1).
