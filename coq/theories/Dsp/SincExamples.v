(* Non-vacuity of the C18 theorems: concrete non-trivial states meeting their hypotheses, and the
   witness of the known-finding class K5 (integer frames overflow in add_amp when the kernel overshoots). *)
Require Import Floats.SpecFloat.
Require Import Reals List Arith ZArith Lia.
From Flocq Require Import Core BinarySingleNaN.
From Dasp Require Import Base.Res Base.ListX Base.Float Ring.Bounded Ring.Fixed Ring.FixedSpec
  Dsp.Sinc Dsp.SincProofs Dsp.SincR Dsp.SincRProofs Dsp.SincRun.
Import ListNotations.

(* ---- a priming-phase state: depth 3, two frames pushed so far would give idx 2; here idx 1 and the ring
   buffer's first index in the middle (wrapped reads) ---- *)
Open Scope R_scope.
Definition ex_s : sinc NumR FmtR :=
  Build_sinc NumR FmtR (@Build_fixed (list R) 4 [[1]; [2]; [3]; [4]; [5]; [6]]) 1.

Example ex_s_wf : WF NumR FmtR 1 3 ex_s.
Proof.
  unfold WF, ex_s, InvF, flen; cbn [frames idx first fdata length]. repeat split; try lia.
  intros fr H. simpl in H. repeat (destruct H as [<-|H]; [reflexivity|]). contradiction.
Qed.

(* kernel half-width clamped while priming: min (1+1) 3 = 2 < depth *)
Example ex_s_max_depth : max_depth NumR FmtR ex_s = Ok 2%nat.
Proof. rewrite (max_depth_wf _ _ 1 3 ex_s ex_s_wf). reflexivity. Qed.

(* x = 0 reads frames[idx] through the wrap: storage slot (4 + 1) mod 6 = 5 *)
Example ex_s_grid : interpolate NumR sin cos FmtR 1 ex_s 0 = Ok [6].
Proof. rewrite (interpolate_grid 1 3 ex_s ex_s_wf). reflexivity. Qed.

Definition ex_g : sinc NumR FmtR :=
  Build_sinc NumR FmtR (@Build_fixed (list R) 4 [[0]; [-1]; [1/2]; [0]; [7]; [1]]) 1.
Example ex_g_wf : WF NumR FmtR 1 3 ex_g.
Proof.
  unfold WF, ex_g, InvF, flen; cbn [frames idx first fdata length]. repeat split; try lia.
  intros fr H. simpl in H. repeat (destruct H as [<-|H]; [reflexivity|]). contradiction.
Qed.

(* linearity at a fractional position, any oracle *)
Example ex_linear (so co : R -> R) : exists rF rG,
  interpolate NumR so co FmtR 1 ex_s (1/4) = Ok rF /\ interpolate NumR so co FmtR 1 ex_g (1/4) = Ok rG /\
  interpolate NumR so co FmtR 1 (lin_sinc 2 (-3) ex_s ex_g) (1/4) = Ok (lin_frame 2 (-3) rF rG).
Proof. apply (interpolate_linear so co 1 2 (-3) 3 ex_s ex_g (1/4) ex_s_wf ex_g_wf); reflexivity. Qed.

(* ratio 1, depth 2, three stereo source frames: two silent outputs, the source, silence again *)
Example ex_delay : exists s0 c',
  sinc_init NumR FmtR 2 2 = Ok s0 /\
  conv_run NumR sin cos FmtR 2 1 (conv_new NumR FmtR [[1; -1]; [2; -2]; [3; -3]] s0 1) 6
  = Ok (Some ([[0; 0]; [0; 0]; [1; -1]; [2; -2]; [3; -3]; [0; 0]], c')) /\ pulls c' = 5%nat.
Proof.
  assert (Hsrc : forall fr : list R, In fr [[1; -1]; [2; -2]; [3; -3]] -> length fr = 2%nat).
  { intros fr H. simpl in H. repeat (destruct H as [<-|H]; [reflexivity|]). contradiction. }
  exact (converter_delay 2 2 ltac:(lia) [[1; -1]; [2; -2]; [3; -3]] Hsrc 1 6 ltac:(lia)).
Qed.

(* reset from a mid-stream state gives the state a fresh interpolator starts from *)
Example ex_reset : reset NumR FmtR 1 ex_s = sinc_init NumR FmtR 1 3.
Proof. rewrite (reset_silent NumR FmtR 1 3 ex_s ex_s_wf), sinc_init_silent by lia. reflexivity. Qed.
Close Scope R_scope.

(* ---- known-finding class K5: integer frames ---- *)
Open Scope Z_scope.

(* the class, on one evaluation: the checked i16 accumulation overflows *)
Definition KnownClass_int_overshoot (sin_o cos_o : f64 -> f64) (ch : nat) (s : sinc NumF64 FmtI16) (x : f64) : Prop :=
  interpolate NumF64 sin_o cos_o FmtI16 ch s x = Panic POverflow.

Lemma i16_add_cases v p : (exists r, add_amp_f FmtI16 v p = Ok r) \/ add_amp_f FmtI16 v p = Panic POverflow.
Proof.
  unfold FmtI16; cbn [add_amp_f].
  match goal with |- context [if ?c then _ else _] => destruct c end; eauto.
Qed.

(* outside the class an integer interpolation succeeds: the only possible failure of interpolate is the
   overflow of the sample format's addition *)
Theorem i16_outside_class sin_o cos_o ch d s x : WF NumF64 FmtI16 ch d s ->
  ~ KnownClass_int_overshoot sin_o cos_o ch s x ->
  exists fr, interpolate NumF64 sin_o cos_o FmtI16 ch s x = Ok fr /\ length fr = ch.
Proof.
  intros W NC. pose proof (interpolate_cls NumF64 sin_o cos_o FmtI16 ch d s x W) as C.
  unfold KnownClass_int_overshoot in NC.
  destruct (interpolate NumF64 sin_o cos_o FmtI16 ch s x) as [fr|k|]; cbn [ok_or_add from_add] in C.
  - eauto.
  - destruct C as (v & p & E). destruct (i16_add_cases v p) as [[r Er]|Ep]; [congruence|].
    rewrite Ep in E. injection E as <-. contradiction.
  - destruct C as (v & p & E). destruct (i16_add_cases v p) as [[r Er]|Ep]; congruence.
Qed.

(* witness: depth 2, frames -32768 -32768 32767 32767, x = 0.5 (sin/cos values of glibc as data) *)
Definition k5_sin : list (Z * Z) :=
  [(4609753056924675352, 4607182418800017408); (4616991696741409234, 13830554455654793216)].
Definition k5_cos : list (Z * Z) :=
  [(4605249457297304856, 4604544271217802189); (4612488097114038738, 13827916308072577996)].
Definition k5_state : sinc NumF64 FmtI16 :=
  Build_sinc NumF64 FmtI16 (@Build_fixed (list Z) 0 [[-32768]; [-32768]; [32767]; [32767]]) 2.

Example k5_state_wf : WF NumF64 FmtI16 1 2 k5_state.
Proof.
  unfold WF, k5_state, InvF, flen; cbn [frames idx first fdata length]. repeat split; try lia.
  intros fr H. simpl in H. repeat (destruct H as [<-|H]; [reflexivity|]). contradiction.
Qed.

Lemma int_overshoot_refuted : exists sin_o cos_o s x,
  WF NumF64 FmtI16 1 2 s /\ KnownClass_int_overshoot sin_o cos_o 1 s x.
Proof.
  exists (oracle k5_sin), (oracle k5_cos), k5_state, (F64.of_bits 4602678819172646912).
  split; [exact k5_state_wf|]. unfold KnownClass_int_overshoot. vm_compute. reflexivity.
Qed.

(* the same evaluation through the Z-level interface, against what the crate printed *)
Example k5_check :
  check (DCase 2 1 2 [4609753056924675352; 4616991696741409234] [4605249457297304856; 4612488097114038738]
           [ZPush [-32768]; ZPush [-32768]; ZPush [32767]; ZPush [32767]; ZInterp 4602678819172646912],
         [[4607182418800017408; 13830554455654793216]; [4604544271217802189; 13827916308072577996];
          [7]; [7]; [7]; [7]; [7]; [8; 1]]) = true.
Proof. vm_compute. reflexivity. Qed.

(* ---- the Converter's setters between outputs (Dsp/SincConv.v): non-vacuity of c18_delay_reannounce ----
   ratio 1, depth 2, the same rates announced again through all three setters and the source looked at, before the
   first output, while priming and once primed: still the source delayed by 2 *)
Require Import Lra.
From Dasp Require Import Dsp.SincConv Dsp.SincConvProofs.
Open Scope R_scope.
Definition ex_script : list (cop NumR) :=
  [CSetHz (44100 : T NumR) 44100; CNext; CSetPlay (1 : T NumR); CNext; CPeek; CNext; CSetSample (1 : T NumR);
   CSetHz (48000 : T NumR) 48000; CNext; CNext; CSetHz (44100 : T NumR) 44100; CNext].

Example ex_script_announces : Forall (announces NumR 1) ex_script.
Proof.
  unfold ex_script.
  repeat (apply Forall_cons; [first [exact I | apply announces_one_play | apply announces_one_sample
                                     | apply announces_one_hz; lra]|]).
  apply Forall_nil.
Qed.

Example ex_delay_script : exists s0 c',
  sinc_init NumR FmtR 2 2 = Ok s0 /\
  conv_script NumR FmtR 2 sin cos 1 (conv_new NumR FmtR [[1; -1]; [2; -2]; [3; -3]] s0 1) ex_script
  = Ok (Some ([[0; 0]; [0; 0]; [1; -1]; [2; -2]; [3; -3]; [0; 0]], c')) /\ pulls c' = 5%nat.
Proof.
  assert (Hsrc : forall fr : list R, In fr [[1; -1]; [2; -2]; [3; -3]] -> length fr = 2%nat).
  { intros fr H. simpl in H. repeat (destruct H as [<-|H]; [reflexivity|]). contradiction. }
  exact (converter_delay_script 2 2 ltac:(lia) [[1; -1]; [2; -2]; [3; -3]] Hsrc 1 ex_script ltac:(lia) ex_script_announces).
Qed.
Close Scope R_scope.
