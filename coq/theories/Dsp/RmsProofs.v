(* Exact-arithmetic theorems about the RMS model (instance NumR): the invariant
   "square_sum = column sums of the window, window = squares of the last N inputs,
   zero-padded", the value theorem, reset, inert clamp, adaptor. *)
Require Import Reals List Arith Lia Lra Bool.
From Flocq Require Import Core.
From Dasp Require Import Base.Res Base.ListX Ring.Bounded Ring.BoundedSpec Ring.BoundedProofs
  Ring.Fixed Ring.FixedSpec Ring.FixedProofs Dsp.Rms Dsp.RmsInst.
Import ListNotations.
Open Scope R_scope.

(* ---------- specification vocabulary (independent of the model) ---------- *)
Definition rframe := list R.
Definition zero_frame (C : nat) : rframe := repeat 0 C.
Definition chan (c : nat) (f : rframe) : R := nth c f 0.
(* the last N frames of the input history, a zero-initialised window counting as preceding silence *)
Definition last_n (N C : nat) (xs : list rframe) : list rframe :=
  skipn (length xs) (repeat (zero_frame C) N ++ xs).
Definition sum_sq (c : nat) (fs : list rframe) : R :=
  fold_right Rplus 0 (map (fun f => chan c f * chan c f) fs).
Definition mean_sq (N C : nat) (xs : list rframe) (c : nat) : R := sum_sq c (last_n N C xs) / INR N.
Definition true_rms (N C : nat) (xs : list rframe) (c : nat) : R := R_sqrt.sqrt (mean_sq N C xs c).

(* what each operation of a history must return; [xs] = inputs since new/reset *)
Fixpoint spec_run (N C : nat) (xs : list rframe) (ops : list (op NumR)) : list rframe :=
  match ops with
  | [] => []
  | ONext fr :: t => map (true_rms N C (xs ++ [fr])) (seq 0 C) :: spec_run N C (xs ++ [fr]) t
  | ONextSq fr :: t => map (mean_sq N C (xs ++ [fr])) (seq 0 C) :: spec_run N C (xs ++ [fr]) t
  | OCurrent :: t => map (true_rms N C xs) (seq 0 C) :: spec_run N C xs t
  | OReset :: t => [] :: spec_run N C [] t
  end.

(* inputs since the last reset *)
Fixpoint feed (xs : list rframe) (ops : list (op NumR)) : list rframe :=
  match ops with
  | [] => xs
  | ONext fr :: t | ONextSq fr :: t => feed (xs ++ [fr]) t
  | OCurrent :: t => feed xs t
  | OReset :: t => feed [] t
  end.

Definition op_ok (C : nat) (o : op NumR) : Prop :=
  match o with ONext fr | ONextSq fr => length fr = C | _ => True end.

Definition sqf (f : rframe) : rframe := map (fun s => s * s) f.
Definition colsum (c : nat) (w : list rframe) : R := fold_right Rplus 0 (map (chan c) w).

(* ---------- list facts ---------- *)
Lemma zip_map_length (g : R -> R -> R) a b : length (zip_map NumR g a b) = Nat.min (length a) (length b).
Proof. revert b; induction a as [|x a IH]; intros [|y b]; simpl; auto. Qed.

Lemma zip_map_nth (g : R -> R -> R) a b c : (c < length a)%nat -> (c < length b)%nat ->
  nth c (zip_map NumR g a b) 0 = g (nth c a 0) (nth c b 0).
Proof.
  revert b c; induction a as [|x a IH]; intros [|y b] [|c] Ha Hb; simpl in *; try lia; auto.
  apply IH; lia.
Qed.

Lemma zip_map_ext (g h : R -> R -> R) a b :
  (forall c, (c < length a)%nat -> (c < length b)%nat -> g (nth c a 0) (nth c b 0) = h (nth c a 0) (nth c b 0)) ->
  zip_map NumR g a b = zip_map NumR h a b.
Proof.
  revert b; induction a as [|x a IH]; intros [|y b] H; simpl; auto.
  f_equal.
  - apply (H 0%nat); simpl; lia.
  - apply IH. intros c Ha Hb. apply (H (S c)); simpl; lia.
Qed.

Lemma frame_ext (l : rframe) (g : nat -> R) C :
  length l = C -> (forall c, (c < C)%nat -> nth c l 0 = g c) -> l = map g (seq 0 C).
Proof.
  intros HL H. apply (nth_ext _ _ 0 0).
  - now rewrite map_length, seq_length.
  - intros c Hc. rewrite HL in Hc. rewrite (H c Hc).
    rewrite (nth_indep _ 0 (g 0%nat)) by now rewrite map_length, seq_length.
    rewrite map_nth, seq_nth by lia. reflexivity.
Qed.

Lemma chan_map (g : R -> R) f c : g 0 = 0 -> chan c (map g f) = g (chan c f).
Proof.
  intros H0. unfold chan. destruct (Nat.lt_ge_cases c (length f)) as [H|H].
  - rewrite (nth_indep _ 0 (g 0)) by now rewrite map_length. apply map_nth.
  - rewrite !nth_overflow by (try rewrite map_length; lia). now rewrite H0.
Qed.

Lemma chan_sqf f c : chan c (sqf f) = chan c f * chan c f.
Proof. unfold sqf. apply (chan_map (fun s => s * s)). ring. Qed.

Lemma sqf_zero C : sqf (zero_frame C) = zero_frame C.
Proof. unfold sqf, zero_frame. induction C; simpl; [reflexivity|]. f_equal; [ring|assumption]. Qed.

Lemma map_repeat {A B} (f : A -> B) x n : map f (repeat x n) = repeat (f x) n.
Proof. induction n; simpl; congruence. Qed.

Lemma Forall_skipn {A} (P : A -> Prop) n : forall l, Forall P l -> Forall P (skipn n l).
Proof. induction n as [|n IH]; intros [|y l] Hl; simpl; auto. inversion Hl; auto. Qed.

Lemma Forall_firstn' {A} (P : A -> Prop) n : forall l, Forall P l -> Forall P (firstn n l).
Proof. induction n as [|n IH]; intros [|y l] Hl; simpl; auto. inversion Hl; auto. Qed.

Lemma all_eq_repeat {A} (z : A) l : Forall (fun x => x = z) l -> l = repeat z (length l).
Proof. induction 1; simpl; congruence. Qed.

Lemma Forall_repeat {A} (z : A) n : Forall (fun x => x = z) (repeat z n).
Proof. induction n; simpl; auto. Qed.

Lemma rotl_all_eq {A} (z : A) k l : Forall (fun x => x = z) l <-> Forall (fun x => x = z) (rotl k l).
Proof.
  unfold rotl. split; intros H.
  - apply Forall_app. split; [now apply Forall_skipn|now apply Forall_firstn'].
  - apply Forall_app in H. destruct H as [H1 H2]. rewrite <- (firstn_skipn k l). apply Forall_app. tauto.
Qed.

Lemma map_tl' {A B} (f : A -> B) l : map f (tl l) = tl (map f l).
Proof. destruct l; reflexivity. Qed.

Lemma tl_skipn {A} k (p : list A) : tl (skipn k p) = skipn (S k) p.
Proof.
  revert p; induction k as [|k IH]; intros [|x p]; try reflexivity.
  change (tl (skipn k p) = skipn (S k) p). apply IH.
Qed.

Lemma last_n_length N C xs : length (last_n N C xs) = N.
Proof. unfold last_n. rewrite skipn_length, app_length, repeat_length. lia. Qed.

Lemma last_n_snoc N C xs x : (1 <= N)%nat -> last_n N C (xs ++ [x]) = tl (last_n N C xs) ++ [x].
Proof.
  intros HN. unfold last_n. rewrite tl_skipn, app_length. simpl.
  rewrite app_assoc. replace (length xs + 1)%nat with (S (length xs)) by lia.
  rewrite skipn_app. rewrite app_length, repeat_length.
  replace (S (length xs) - (N + length xs))%nat with 0%nat by lia. reflexivity.
Qed.

Lemma last_n_map_sqf N C xs : last_n N C (map sqf xs) = map sqf (last_n N C xs).
Proof.
  unfold last_n. rewrite map_length, <- skipn_map, map_app. do 2 f_equal.
  rewrite map_repeat. now rewrite sqf_zero.
Qed.

Lemma last_n_nil N C : last_n N C [] = repeat (zero_frame C) N.
Proof. unfold last_n. simpl. now rewrite app_nil_r. Qed.

Lemma last_n_frames N C xs : Forall (fun f => length f = C) xs ->
  Forall (fun f => length f = C) (last_n N C xs).
Proof.
  intros H. unfold last_n.
  assert (Hp : Forall (fun f => length f = C) (repeat (zero_frame C) N ++ xs)).
  { apply Forall_app. split; auto. apply Forall_forall. intros f Hf. apply repeat_spec in Hf. subst.
    apply repeat_length. }
  apply Forall_skipn. exact Hp.
Qed.

Lemma colsum_sqf c l : colsum c (map sqf l) = sum_sq c l.
Proof.
  unfold colsum, sum_sq. induction l as [|f l IH]; simpl; [reflexivity|]. now rewrite IH, chan_sqf.
Qed.

Lemma colsum_app c a b : colsum c (a ++ b) = colsum c a + colsum c b.
Proof. unfold colsum. induction a as [|f a IH]; simpl; [ring|]. rewrite IH. ring. Qed.

Lemma sum_sq_nonneg c l : 0 <= sum_sq c l.
Proof.
  unfold sum_sq. induction l as [|f l IH]; simpl; [lra|].
  pose proof (Rle_0_sqr (chan c f)) as H. unfold Rsqr in H. lra.
Qed.

Ltac llia := cbn [T NumR] in *; unfold frame, rframe in *; cbn [T NumR] in *; lia.

(* ---------- the invariant ---------- *)
Definition Inv (N C : nat) (st : rms NumR) (xs : list rframe) : Prop :=
  nch NumR st = C /\ InvF (window NumR st) /\ flen (window NumR st) = N /\
  fq (window NumR st) = last_n N C (map sqf xs) /\
  length (square_sum NumR st) = C /\
  (forall c, (c < C)%nat -> chan c (square_sum NumR st) = colsum c (fq (window NumR st))).

Definition cl_ok (cl : R -> R) : Prop := forall d, 0 <= d -> cl d = d.

Lemma clamp_ok : cl_ok (clamp NumR).
Proof.
  intros d Hd. unfold clamp. simpl. destruct (Rlt_bool_spec d 0) as [H|H]; [lra|reflexivity].
Qed.
Lemma id_ok : cl_ok (fun d => d).
Proof. intros d _. reflexivity. Qed.

Lemma equilibrium_R C : equilibrium NumR C = zero_frame C.
Proof. reflexivity. Qed.

Lemma chan_zero_frame c C : chan c (zero_frame C) = 0.
Proof.
  unfold chan, zero_frame. destruct (Nat.lt_ge_cases c C).
  - apply nth_repeat.
  - apply nth_overflow. rewrite repeat_length. lia.
Qed.

Lemma colsum_zero c C N : colsum c (repeat (zero_frame C) N) = 0.
Proof. unfold colsum. induction N; simpl; [reflexivity|]. rewrite IHN, chan_zero_frame. ring. Qed.

Lemma Inv_new N C fst0 : (fst0 < N)%nat ->
  Inv N C (rms_new NumR C {| first := fst0; fdata := repeat (zero_frame C) N |}) [].
Proof.
  intros H. unfold Inv, rms_new, InvF, flen. simpl. rewrite repeat_length.
  assert (Hq : fq {| first := fst0; fdata := repeat (zero_frame C) N |} = repeat (zero_frame C) N).
  { unfold fq. cbn [first fdata].
    rewrite (all_eq_repeat (zero_frame C) (rotl fst0 (repeat (zero_frame C) N))).
    - now rewrite rotl_length, repeat_length.
    - apply rotl_all_eq. apply Forall_repeat. }
  repeat split; auto.
  - simpl. rewrite last_n_nil. exact Hq.
  - apply repeat_length.
  - intros c Hc. etransitivity; [apply chan_zero_frame|]. symmetry. etransitivity; [|apply (colsum_zero c C N)].
    f_equal. exact Hq.
Qed.

(* one push: state after, and the values stored *)
Lemma next_squared_inv N C cl st xs fr :
  (1 <= N)%nat -> cl_ok cl -> Inv N C st xs -> Forall (fun f => length f = C) xs -> length fr = C ->
  exists st', next_squared_gen NumR cl st fr = Ok (st', map (mean_sq N C (xs ++ [fr])) (seq 0 C)) /\
              next_squared_gen NumR (fun d => d) st fr = next_squared_gen NumR cl st fr /\
              Inv N C st' (xs ++ [fr]).
Proof.
  intros HN Hcl (Hn & HI & HL & Hq & Hlen & Hsum) Hxs Hfr.
  assert (Hgen : forall cl', cl_ok cl' ->
     exists st', next_squared_gen NumR cl' st fr = Ok (st', calc_rms_squared NumR st') /\
       window NumR st' = fst (match fpush (window NumR st) (sqf fr) with Ok r => r | _ => (window NumR st, []) end) /\
       square_sum NumR st' = zip_map NumR (fun s r => s - r) (zip_map NumR Rplus (square_sum NumR st) (sqf fr))
            (snd (match fpush (window NumR st) (sqf fr) with Ok r => r | _ => (window NumR st, []) end)) /\
       nch NumR st' = nch NumR st).
  { intros cl' Hcl'. unfold next_squared_gen. change (square_frame NumR fr) with (sqf fr).
    destruct (fpush_refines (window NumR st) (sqf fr) HI) as (f' & old & q' & Hp & HI' & HL' & Hq0 & Hab).
    rewrite Hp. cbn [bind fst snd].
    eexists. split; [reflexivity|]. cbn [window square_sum nch fst snd].
    split; [reflexivity|]. split; [|reflexivity].
    { apply zip_map_ext. intros c Hc1 Hc2. cbn [sub NumR].
      apply Hcl'. rewrite zip_map_length in Hc1.
      rewrite zip_map_nth by lia.
      assert (HcC : (c < C)%nat) by lia.
      cbn [add NumR].
      change (0 <= chan c (square_sum NumR st) + chan c (sqf fr) - chan c old).
      rewrite (Hsum c HcC), chan_sqf.
      assert (Hcs : colsum c (fq (window NumR st)) = chan c old + colsum c q') by (rewrite Hq0; reflexivity).
      rewrite Hcs.
      assert (Hq'nn : 0 <= colsum c q').
      { assert (Hq1 : q' = tl (last_n N C (map sqf xs))) by (rewrite <- Hq, Hq0; reflexivity).
        rewrite last_n_map_sqf in Hq1. rewrite Hq1, <- map_tl'. rewrite colsum_sqf. apply sum_sq_nonneg. }
      pose proof (Rle_0_sqr (chan c fr)) as Hsq. unfold Rsqr in Hsq. lra. } }
  destruct (Hgen cl Hcl) as (st1 & E1 & W1 & S1 & N1).
  destruct (Hgen (fun d => d) id_ok) as (st2 & E2 & W2 & S2 & N2).
  assert (Est : st2 = st1).
  { destruct st1, st2. cbn in *. congruence. }
  destruct (fpush_refines (window NumR st) (sqf fr) HI) as (f' & old & q' & Hp & HI' & HL' & Hq0 & Hab).
  rewrite Hp in W1, S1. cbn [fst snd] in W1, S1.
  assert (Hq' : fq f' = q' ++ [sqf fr]) by (rewrite fabs_eq in Hab; inversion Hab as [[Hfst' Hfq']]; exact Hfq').
  assert (Hwin : fq (window NumR st1) = last_n N C (map sqf (xs ++ [fr]))).
  { rewrite W1, Hq', map_app. simpl. rewrite last_n_snoc by exact HN. rewrite <- Hq, Hq0. reflexivity. }
  assert (Hfr_all : Forall (fun f => length f = C) (last_n N C (map sqf xs))).
  { apply last_n_frames. apply Forall_forall. intros f Hf. apply in_map_iff in Hf. destruct Hf as (g & <- & Hg).
    unfold sqf. rewrite map_length. rewrite Forall_forall in Hxs. now apply Hxs. }
  assert (Hold_len : length old = C).
  { rewrite <- Hq, Hq0 in Hfr_all. inversion Hfr_all; assumption. }
  assert (Hlen1 : length (square_sum NumR st1) = C).
  { rewrite S1, !zip_map_length. unfold sqf. rewrite map_length.
    change (Nat.min (Nat.min (length (square_sum NumR st)) (length fr)) (length old) = C).
    rewrite Hlen, Hfr, Hold_len, !Nat.min_id. reflexivity. }
  assert (Hsum1 : forall c, (c < C)%nat -> chan c (square_sum NumR st1) = colsum c (fq (window NumR st1))).
  { intros c Hc. rewrite S1. unfold chan. rewrite zip_map_nth.
    2:{ rewrite zip_map_length. unfold sqf. rewrite map_length. llia. }
    2:{ llia. }
    rewrite zip_map_nth by (unfold sqf; try rewrite map_length; llia).
    cbn [add sub NumR].
    change (chan c (square_sum NumR st) + chan c (sqf fr) - chan c old = colsum c (fq (window NumR st1))).
    rewrite (Hsum c Hc).
    assert (Hcs : colsum c (fq (window NumR st)) = chan c old + colsum c q') by (rewrite Hq0; reflexivity).
    rewrite Hcs, W1, Hq', colsum_app. unfold colsum. simpl. ring. }
  assert (Inv1 : Inv N C st1 (xs ++ [fr])).
  { unfold Inv. rewrite W1 in *. repeat split; auto; try congruence. }
  exists st1. split; [|split; [etransitivity; [exact E2|rewrite Est; symmetry; exact E1]|exact Inv1]].
  rewrite E1. do 2 f_equal.
  apply frame_ext.
  - unfold calc_rms_squared. now rewrite map_length.
  - intros c Hc. unfold calc_rms_squared. cbn [of_nat div NumR].
    change (chan c (map (fun s : R => s / INR (flen (window NumR st1))) (square_sum NumR st1)) = mean_sq N C (xs ++ [fr]) c).
    rewrite (chan_map (fun s => s / INR (flen (window NumR st1)))) by (unfold Rdiv; ring).
    rewrite (Hsum1 c Hc), Hwin, last_n_map_sqf, colsum_sqf. unfold mean_sq.
    destruct Inv1 as (_ & _ & HLn & _). now rewrite HLn.
Qed.

Lemma current_spec N C st xs : Inv N C st xs ->
  rms_current NumR st = map (true_rms N C xs) (seq 0 C).
Proof.
  intros (Hn & HI & HL & Hq & Hlen & Hsum). unfold rms_current, calc_rms_squared.
  apply frame_ext.
  - now rewrite !map_length.
  - intros c Hc. cbn [sqrt of_nat div NumR].
    change (chan c (map R_sqrt.sqrt (map (fun s : R => s / INR (flen (window NumR st))) (square_sum NumR st))) = true_rms N C xs c).
    rewrite (chan_map R_sqrt.sqrt) by apply sqrt_0.
    rewrite (chan_map (fun s => s / INR (flen (window NumR st)))) by (unfold Rdiv; ring).
    rewrite (Hsum c Hc), Hq, last_n_map_sqf, colsum_sqf, HL. reflexivity.
Qed.

Lemma reset_inv N C st xs : Inv N C st xs ->
  exists st', rms_reset NumR st = Ok st' /\ Inv N C st' [] /\
              first (window NumR st') = first (window NumR st) /\
              fq (window NumR st') = repeat (zero_frame C) N /\ square_sum NumR st' = zero_frame C.
Proof.
  intros (Hn & HI & HL & Hq & Hlen & Hsum). unfold rms_reset.
  destruct (fmap_refines (fun _ => equilibrium NumR (nch NumR st)) (window NumR st) HI) as (f' & E & HI' & HL' & Hab).
  rewrite E. cbn [bind fst]. eexists. split; [reflexivity|].
  assert (Hq' : fq f' = repeat (zero_frame C) N).
  { rewrite fabs_eq in Hab. pose proof (f_equal snd Hab) as Hm. cbn [snd] in Hm. rewrite Hm, Hn, equilibrium_R.
    rewrite <- HL, <- (fabs_length (window NumR st)). generalize (fq (window NumR st)).
    intros l; induction l as [|a l IHl]; simpl; [reflexivity|now rewrite IHl]. }
  assert (Hf' : first f' = first (window NumR st)).
  { rewrite fabs_eq in Hab. exact (f_equal fst Hab). }
  split; [|repeat split; auto].
  - unfold Inv. cbn [nch window square_sum]. repeat split; auto; try congruence.
    + rewrite Hq'. simpl. now rewrite last_n_nil.
    + rewrite Hn, equilibrium_R. apply repeat_length.
    + intros c Hc. rewrite Hq', colsum_zero, Hn, equilibrium_R. apply chan_zero_frame.
  - cbn. now rewrite Hn.
Qed.

(* ---------- histories ---------- *)
Lemma run_gen_spec N C cl : (1 <= N)%nat -> cl_ok cl -> forall ops st xs,
  Inv N C st xs -> Forall (fun f => length f = C) xs -> Forall (op_ok C) ops ->
  exists st', run_gen NumR cl st ops = Ok (st', spec_run N C xs ops) /\
              run_gen NumR (fun d => d) st ops = run_gen NumR cl st ops /\
              Inv N C st' (feed xs ops).
Proof.
  intros HN Hcl. induction ops as [|o ops IH]; intros st xs HI Hxs Hops.
  - exists st. simpl. auto.
  - inversion Hops as [|? ? Ho Hops']; subst.
    assert (Hxs' : forall fr, length fr = C -> Forall (fun f => length f = C) (xs ++ [fr])).
    { intros fr Hfr. apply Forall_app. split; auto. }
    destruct o as [fr|fr| | ]; cbn [run_gen step_gen spec_run feed].
    + simpl in Ho. unfold rms_next_gen.
      destruct (next_squared_inv N C cl st xs fr HN Hcl HI Hxs Ho) as (st1 & E1 & Eid & I1).
      rewrite Eid, E1. cbn [bind fst snd].
      destruct (IH st1 (xs ++ [fr]) I1 (Hxs' fr Ho) Hops') as (st2 & E2 & Eid2 & I2).
      rewrite Eid2, E2. cbn [bind fst snd]. exists st2. split; [|split; [reflexivity|exact I2]].
      do 3 f_equal. rewrite map_map. reflexivity.
    + simpl in Ho.
      destruct (next_squared_inv N C cl st xs fr HN Hcl HI Hxs Ho) as (st1 & E1 & Eid & I1).
      rewrite Eid, E1. cbn [bind fst snd].
      destruct (IH st1 (xs ++ [fr]) I1 (Hxs' fr Ho) Hops') as (st2 & E2 & Eid2 & I2).
      rewrite Eid2, E2. cbn [bind fst snd]. exists st2. auto.
    + cbn [bind fst snd].
      destruct (IH st xs HI Hxs Hops') as (st2 & E2 & Eid2 & I2).
      rewrite Eid2, E2. cbn [bind fst snd]. exists st2. split; [|split; [reflexivity|exact I2]].
      now rewrite (current_spec N C st xs HI).
    + destruct (reset_inv N C st xs HI) as (st1 & E1 & I1 & _).
      rewrite E1. cbn [bind fst snd].
      destruct (IH st1 [] I1 (Forall_nil _) Hops') as (st2 & E2 & Eid2 & I2).
      rewrite Eid2, E2. cbn [bind fst snd]. exists st2. auto.
Qed.

Definition new_state (N C fst0 : nat) : rms NumR :=
  rms_new NumR C {| first := fst0; fdata := repeat (zero_frame C) N |}.

Theorem rms_value N C fst0 ops : (1 <= N)%nat -> (fst0 < N)%nat -> Forall (op_ok C) ops ->
  exists st', run NumR (new_state N C fst0) ops = Ok (st', spec_run N C [] ops) /\
              rms_current NumR st' = map (true_rms N C (feed [] ops)) (seq 0 C).
Proof.
  intros HN Hf Hops.
  destruct (run_gen_spec N C (clamp NumR) HN clamp_ok ops (new_state N C fst0) [] (Inv_new N C fst0 Hf) (Forall_nil _) Hops)
    as (st' & E & _ & I).
  exists st'. split; [exact E|]. now apply current_spec.
Qed.

Theorem rms_invariant N C fst0 ops : (1 <= N)%nat -> (fst0 < N)%nat -> Forall (op_ok C) ops ->
  exists st' outs, run NumR (new_state N C fst0) ops = Ok (st', outs) /\
    fq (window NumR st') = map sqf (last_n N C (feed [] ops)) /\
    (forall c, (c < C)%nat -> chan c (square_sum NumR st') = colsum c (fq (window NumR st'))).
Proof.
  intros HN Hf Hops.
  destruct (run_gen_spec N C (clamp NumR) HN clamp_ok ops (new_state N C fst0) [] (Inv_new N C fst0 Hf) (Forall_nil _) Hops)
    as (st' & E & _ & (Hn & HI & HL & Hq & Hlen & Hsum)).
  exists st', (spec_run N C [] ops). split; [exact E|]. split; [|exact Hsum].
  now rewrite Hq, last_n_map_sqf.
Qed.

Theorem rms_clamp_inert N C fst0 ops : (1 <= N)%nat -> (fst0 < N)%nat -> Forall (op_ok C) ops ->
  run_gen NumR (fun d => d) (new_state N C fst0) ops = run NumR (new_state N C fst0) ops.
Proof.
  intros HN Hf Hops.
  destruct (run_gen_spec N C (clamp NumR) HN clamp_ok ops (new_state N C fst0) [] (Inv_new N C fst0 Hf) (Forall_nil _) Hops)
    as (st' & _ & E & _). exact E.
Qed.

(* reset after any history restores the all-zero state: window contents all zero, sum zero,
   and from there the detector behaves as a new one (spec_run restarts from []) *)
Theorem rms_reset_zero N C fst0 ops : (1 <= N)%nat -> (fst0 < N)%nat -> Forall (op_ok C) ops ->
  exists st' outs st'', run NumR (new_state N C fst0) ops = Ok (st', outs) /\
    rms_reset NumR st' = Ok st'' /\
    fdata (window NumR st'') = repeat (zero_frame C) N /\ square_sum NumR st'' = zero_frame C /\
    rms_current NumR st'' = zero_frame C.
Proof.
  intros HN Hf Hops.
  destruct (run_gen_spec N C (clamp NumR) HN clamp_ok ops (new_state N C fst0) [] (Inv_new N C fst0 Hf) (Forall_nil _) Hops)
    as (st' & E & _ & I).
  destruct (reset_inv N C st' _ I) as (st'' & E' & I' & Hfst & Hq & Hs).
  exists st', (spec_run N C [] ops), st''. split; [exact E|]. split; [exact E'|].
  assert (Hd : fdata (window NumR st'') = repeat (zero_frame C) N).
  { destruct I' as (_ & HI'' & HL'' & _).
    rewrite (all_eq_repeat (zero_frame C) (fdata (window NumR st''))).
    - f_equal. exact HL''.
    - apply (rotl_all_eq _ (first (window NumR st''))).
      change (Forall (fun x => x = zero_frame C) (fq (window NumR st''))).
      replace (fq (window NumR st'')) with (repeat (zero_frame C) N) by (symmetry; exact Hq). apply Forall_repeat. }
  split; [exact Hd|]. split; [exact Hs|].
  rewrite (current_spec N C st'' [] I').
  symmetry. apply frame_ext; [apply repeat_length|].
  intros c Hc. unfold zero_frame. rewrite nth_repeat. unfold true_rms, mean_sq.
  rewrite last_n_nil. replace (sum_sq c (repeat (zero_frame C) N)) with 0.
  - unfold Rdiv. rewrite Rmult_0_l. now rewrite sqrt_0.
  - rewrite <- colsum_sqf, map_repeat, sqf_zero. now rewrite colsum_zero.
Qed.

(* ---------- adaptor = detector fed frame by frame; one source frame per output ---------- *)
Section Adaptor.
Variable K : num.
Lemma adaptor_run_spec k : forall (a : adaptor K),
  adaptor_run K a k =
  match run K (det K a) (map (fun i => ONext (src K a (pulls K a + i))) (seq 0 k)) with
  | Ok (st', outs) => Ok ({| src := src K a; pulls := pulls K a + k; det := st' |}, outs)
  | Panic p => Panic p
  | UB => UB
  end.
Proof.
  induction k as [|k IH]; intros a.
  - simpl. rewrite Nat.add_0_r. destruct a; reflexivity.
  - cbn [adaptor_run seq map]. unfold run. cbn [run_gen step_gen]. unfold adaptor_next, rms_next.
    rewrite Nat.add_0_r.
    destruct (rms_next_gen K (clamp K) (det K a) (src K a (pulls K a))) as [[st1 out]| |]; cbn [bind fst snd]; auto.
    rewrite IH. cbn [src pulls det]. rewrite <- seq_shift, map_map.
    assert (Hm : map (fun i => ONext (src K a (S (pulls K a) + i))) (seq 0 k) =
                 map (fun x => ONext (src K a (pulls K a + S x))) (seq 0 k)).
    { apply map_ext. intros i. do 2 f_equal. lia. }
    rewrite Hm. fold (run K st1).
    destruct (run K st1 (map (fun x : nat => ONext (src K a (pulls K a + S x))) (seq 0 k))) as [[st2 outs]| |]; cbn [bind fst snd]; auto.
    do 3 f_equal. lia.
Qed.
End Adaptor.
