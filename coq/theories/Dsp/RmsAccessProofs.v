(* Accessors and structural operations of the RMS detector and of its signal adaptor, for ANY
   arithmetic [K] (round 3, coverage closing: these are the parts of dasp_rms/src/lib.rs and
   dasp_signal/src/rms.rs that the value theorems do not mention but the correspondence observes):
     window_frames  = the length of the ring buffer handed to Rms::new, after every history;
     derive(Clone)  = the same state (detector and adaptor);
     dasp_signal::rms::Rms::into_parts after k outputs = (the source advanced by k frames, the
       detector that has been fed exactly those k frames), and using the parts on their own
       (detector.next(source.next())) continues the adaptor's output stream. *)
Require Import List Arith Lia Bool.
From Dasp Require Import Base.Res Base.ListX Ring.Bounded Ring.Fixed Dsp.Rms Dsp.RmsProofs.
Import ListNotations.

Section Access.
Variable K : num.

Lemma fpush_flen {A} (f : fixed A) (x : A) f' old : fpush f x = Ok (f', old) -> flen f' = flen f.
Proof.
  unfold fpush. destruct (get_unchecked (fdata f) (first f)) as [o| |]; cbn [bind]; try discriminate.
  intros E. inversion E; subst. unfold flen. cbn [fdata]. apply set_nth_length.
Qed.

Lemma fmap_in_place_flen {A} (g : A -> A) (f : fixed A) f' l :
  fmap_in_place g f = Ok (f', l) -> flen f' = flen f.
Proof.
  unfold fmap_in_place, fslices.
  destruct (flen f <? first f) eqn:E; cbn [bind]; try discriminate.
  intros H. inversion H; subst. unfold flen. cbn [fdata fst snd].
  rewrite app_length, !map_length, <- app_length, firstn_skipn. reflexivity.
Qed.

Lemma next_squared_gen_frames cl st fr st' out :
  next_squared_gen K cl st fr = Ok (st', out) -> window_frames K st' = window_frames K st.
Proof.
  unfold next_squared_gen.
  destruct (fpush (window K st) (square_frame K fr)) as [[w old]| |] eqn:E; cbn [bind]; try discriminate.
  intros H. inversion H; subst. unfold window_frames. cbn [window fst]. eapply fpush_flen; eauto.
Qed.

(* one operation of a history never changes the window length *)
Lemma step_window_frames st o st' out :
  step K st o = Ok (st', out) -> window_frames K st' = window_frames K st.
Proof.
  unfold step, step_gen. destruct o as [fr|fr| |].
  - unfold rms_next_gen.
    destruct (next_squared_gen K (clamp K) st fr) as [[s1 o1]| |] eqn:E; cbn [bind]; try discriminate.
    intros H. inversion H; subst. cbn [fst]. eapply next_squared_gen_frames; eauto.
  - apply next_squared_gen_frames.
  - intros H. inversion H; subst. reflexivity.
  - unfold rms_reset.
    destruct (fmap_in_place (fun _ => equilibrium K (nch K st)) (window K st)) as [[w l]| |] eqn:E;
      cbn [bind]; try discriminate.
    intros H. inversion H; subst. unfold window_frames. cbn [window fst]. eapply fmap_in_place_flen; eauto.
Qed.

(* window_frames after any history = the length of the ring buffer given to Rms::new *)
Theorem run_window_frames ops : forall st st' outs,
  run K st ops = Ok (st', outs) -> window_frames K st' = window_frames K st.
Proof.
  induction ops as [|o t IH]; intros st st' outs.
  - cbn. intros H. inversion H; subst. reflexivity.
  - unfold run. cbn [run_gen]. fold (step K st o).
    destruct (step K st o) as [[s1 o1]| |] eqn:E; cbn [bind]; try discriminate.
    cbn [fst snd]. fold (run K s1 t).
    destruct (run K s1 t) as [[s2 o2]| |] eqn:E2; cbn [bind]; try discriminate.
    intros H. inversion H; subst. cbn [fst].
    rewrite (IH _ _ _ E2). eapply step_window_frames; eauto.
Qed.

Theorem new_window_frames (c : nat) (w : fixed (frame K)) : window_frames K (rms_new K c w) = flen w.
Proof. reflexivity. Qed.

(* derive(Clone) *)
Theorem rms_clone_same (st : rms K) : rms_clone K st = st.
Proof. destruct st; reflexivity. Qed.

Theorem adaptor_clone_same (a : adaptor K) : adaptor_clone K a = a.
Proof. destruct a as [s p d]; unfold adaptor_clone; cbn [src pulls det]. rewrite rms_clone_same. reflexivity. Qed.

(* into_parts of the detector returns exactly the two stored fields *)
Theorem into_parts_fields (st : rms K) : into_parts K st = (window K st, square_sum K st).
Proof. reflexivity. Qed.

(* into_parts of the adaptor after k outputs: the source advanced by k, the detector fed those k frames *)
Theorem adaptor_into_parts_after_run k (a a' : adaptor K) outs :
  adaptor_run K a k = Ok (a', outs) ->
  exists st', run K (det K a) (map (fun i => ONext (src K a (pulls K a + i))) (seq 0 k)) = Ok (st', outs)
              /\ adaptor_into_parts K a' = (src K a, pulls K a + k, st').
Proof.
  rewrite adaptor_run_spec.
  destruct (run K (det K a) (map (fun i => ONext (src K a (pulls K a + i))) (seq 0 k))) as [[st' o]| |];
    try discriminate.
  intros H. inversion H; subst. exists st'. split; reflexivity.
Qed.

(* the parts used on their own continue the adaptor: detector.next(source.next()) is adaptor.next() *)
Theorem adaptor_parts_continue (a : adaptor K) :
  let '(s, p, d) := adaptor_into_parts K a in
  adaptor_next K a =
  match rms_next K d (s p) with
  | Ok (d', out) => Ok ({| src := s; pulls := S p; det := d' |}, out)
  | Panic q => Panic q
  | UB => UB
  end.
Proof.
  unfold adaptor_into_parts, adaptor_next.
  destruct (rms_next K (det K a) (src K a (pulls K a))) as [[d' out]| |]; reflexivity.
Qed.

Theorem new_run_window_frames (c : nat) (w : fixed (frame K)) (ops : list (op K)) st' outs :
  run K (rms_new K c w) ops = Ok (st', outs) -> window_frames K st' = flen w.
Proof. intros H. rewrite (run_window_frames ops _ _ _ H). apply new_window_frames. Qed.

Theorem into_parts_clone_all (st : rms K) (a : adaptor K) :
  into_parts K st = (window K st, square_sum K st) /\ rms_clone K st = st /\ adaptor_clone K a = a.
Proof. split; [apply into_parts_fields|]. split; [apply rms_clone_same|apply adaptor_clone_same]. Qed.

End Access.
