(* Machine-integer sample formats used by the C19 models (rectifiers, envelope follower).
   Values are Z.  Debug-build semantics: + - and unary - panic on overflow ([chk]);
   `as` casts and << wrap ([wrap]).  The custom types I24/I48/U24/U48 are a range over an
   i32/i64 representation ([rep]); their arithmetic checks the representation first and then
   the type's own range (`new(..).expect("arithmetic operation overflowed")`).
   Definitions only. *)
Require Import ZArith Bool List.
From Dasp Require Import Base.Res.
Import ListNotations.
Open Scope Z_scope.

Inductive ifmt := I8 | I16 | I24 | I32 | I48 | I64 | U8 | U16 | U24 | U32 | U48 | U64.

Definition ifmt_eqb (a b : ifmt) : bool :=
  match a, b with
  | I8, I8 | I16, I16 | I24, I24 | I32, I32 | I48, I48 | I64, I64
  | U8, U8 | U16, U16 | U24, U24 | U32, U32 | U48, U48 | U64, U64 => true
  | _, _ => false
  end.

Definition bits (f : ifmt) : Z :=
  match f with
  | I8 | U8 => 8 | I16 | U16 => 16 | I24 | U24 => 24 | I32 | U32 => 32 | I48 | U48 => 48 | I64 | U64 => 64
  end.

Definition is_signed (f : ifmt) : bool :=
  match f with I8 | I16 | I24 | I32 | I48 | I64 => true | _ => false end.

Definition imin (f : ifmt) : Z := if is_signed f then - 2 ^ (bits f - 1) else 0.
Definition imax (f : ifmt) : Z := if is_signed f then 2 ^ (bits f - 1) - 1 else 2 ^ bits f - 1.

(* Sample::EQUILIBRIUM *)
Definition equil (f : ifmt) : Z := if is_signed f then 0 else 2 ^ (bits f - 1).

Definition in_range (f : ifmt) (z : Z) : Prop := imin f <= z <= imax f.
Definition in_rangeb (f : ifmt) (z : Z) : bool := (imin f <=? z) && (z <=? imax f).

(* the primitive type that carries the value *)
Definition rep (f : ifmt) : ifmt :=
  match f with I24 | U24 => I32 | I48 | U48 => I64 | x => x end.

(* Sample::Signed  (impl_sample! table of dasp_sample/src/lib.rs) *)
Definition signed_fmt (f : ifmt) : ifmt :=
  match f with
  | U8 => I8 | U16 => I16 | U24 => I32 | U32 => I32 | U48 => I64 | U64 => I64
  | s => s
  end.

Definition chk (f : ifmt) (z : Z) : res Z := if in_rangeb f z then Ok z else Panic POverflow.

(* two's-complement reduction into the primitive type [f] *)
Definition wrap (f : ifmt) (z : Z) : Z :=
  let m := 2 ^ bits f in
  if is_signed f then (z + m / 2) mod m - m / 2 else z mod m.

(* arithmetic of a sample type: primitive -> checked; custom -> checked in the
   representation, then `new(..).expect(..)` (message contains "overflow") *)
Definition tchk (f : ifmt) (z : Z) : res Z := let* v := chk (rep f) z in chk f v.
Definition tadd (f : ifmt) (a b : Z) : res Z := tchk f (a + b).
Definition tneg (f : ifmt) (a : Z) : res Z := tchk f (- a).

(* -------------------------------------------------------------------------
   to_signed_sample : dasp_sample/src/conv.rs, the `to_<Signed>` function of each
   unsigned format; identity on the signed formats (`impl<S> FromSample<S> for S`). *)
Definition to_signed (f : ifmt) (s : Z) : res Z :=
  match f with
  | U8 =>  (* if s < 128 { s as i8 - 127 - 1 } else { (s - 128) as i8 } *)
    if s <? 128 then let* a := chk I8 (wrap I8 s - 127) in chk I8 (a - 1)
    else let* b := chk U8 (s - 128) in Ok (wrap I8 b)
  | U16 =>
    if s <? 32768 then let* a := chk I16 (wrap I16 s - 32767) in chk I16 (a - 1)
    else let* b := chk U16 (s - 32768) in Ok (wrap I16 b)
  | U24 =>  (* (s.inner() - 8_388_608) << 8   : i32 *)
    let* a := chk I32 (s - 8388608) in Ok (wrap I32 (a * 2 ^ 8))
  | U32 =>
    if s <? 2147483648 then let* a := chk I32 (wrap I32 s - 2147483647) in chk I32 (a - 1)
    else let* b := chk U32 (s - 2147483648) in Ok (wrap I32 b)
  | U48 =>  (* (s.inner() - 140_737_488_355_328) << 16   : i64 *)
    let* a := chk I64 (s - 140737488355328) in Ok (wrap I64 (a * 2 ^ 16))
  | U64 =>
    if s <? 9223372036854775808 then let* a := chk I64 (wrap I64 s - 9223372036854775807) in chk I64 (a - 1)
    else let* b := chk U64 (s - 9223372036854775808) in Ok (wrap I64 b)
  | _ => Ok s
  end.

(* the amplitude of [s] about equilibrium, in units of the signed format *)
Definition signed_amp (f : ifmt) (s : Z) : Z := (s - equil f) * 2 ^ (bits (signed_fmt f) - bits f).

(* map with panics, left to right (Frame::map calls the closure per channel in order) *)
Fixpoint mapM {A B} (g : A -> res B) (l : list A) : res (list B) :=
  match l with
  | [] => Ok []
  | x :: t => let* y := g x in let* r := mapM g t in Ok (y :: r)
  end.

Fixpoint map2M {A B C} (g : A -> B -> res C) (l1 : list A) (l2 : list B) : res (list C) :=
  match l1, l2 with
  | x :: t1, y :: t2 => let* z := g x y in let* r := map2M g t1 t2 in Ok (z :: r)
  | _, _ => Ok []
  end.
