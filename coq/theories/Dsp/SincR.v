(* The exact-arithmetic instance of Dsp/Sinc.v: Coq's reals with the true sin, cos and PI, real-valued
   samples.  Definitions only. *)
Require Import Reals List.
From Dasp Require Import Base.Res Dsp.Sinc.
Import ListNotations.
Open Scope R_scope.

Definition NumR : num := {|
  T := R;
  n_zero := 0; n_one := 1; n_half := / 2; n_pi := PI;
  n_add := Rplus; n_sub := Rminus; n_mul := Rmult; n_div := Rdiv;
  n_of_nat := INR;
  n_eq0 := fun a => if Req_EM_T a 0 then true else false;
  n_ge1 := fun v => if Rle_dec 1 v then true else false;
|}.

(* real-valued samples: to_sample is the identity, add_amp is + *)
Definition FmtR : fmt NumR :=
  @Build_fmt NumR R 0 (fun s : R => s) (fun (v : R) (p : R) => Ok (v + p)).

(* pointwise combination of two frames / two buffers / two interpolator states *)
Fixpoint zip2 {A B C} (f : A -> B -> C) (l1 : list A) (l2 : list B) : list C :=
  match l1, l2 with
  | x :: t1, y :: t2 => f x y :: zip2 f t1 t2
  | _, _ => []
  end.

Definition lin_frame (a b : R) (f g : list R) : list R := zip2 (fun x y => a * x + b * y) f g.

Definition lin_sinc (a b : R) (sF sG : sinc NumR FmtR) : sinc NumR FmtR :=
  Build_sinc NumR FmtR
    (@Ring.Fixed.Build_fixed (list R) (Ring.Fixed.first (frames sF))
       (zip2 (lin_frame a b) (Ring.Fixed.fdata (frames sF)) (Ring.Fixed.fdata (frames sG))))
    (idx sF).
