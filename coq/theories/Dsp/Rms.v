(* Model of dasp_rms::Rms (dasp_rms/src/lib.rs) and of the signal adaptor
   dasp_signal::rms::Rms (dasp_signal/src/rms.rs:110-120), written after the source,
   once, over a small numeric record [num]; instantiated in RmsInst.v with Coq reals
   (exact-arithmetic theorems) and with Base/Float.v F32/F64 (execution, IEEE theorems).

   Rust                                         model
   Rms { window: Fixed<S>, square_sum }         [rms] (nch = NumChannels of the frame type)
   Rms::new(ring_buffer)                        [rms_new]   square_sum = Frame::EQUILIBRIUM
   reset(): iter_mut() stores EQUILIBRIUM       [rms_reset] ([fmap_in_place], first unchanged)
   next_squared: to_float_frame().map(s*s);     [next_squared]  (the frame given to the model is
     window.push; square_sum.add_amp(new)          the float frame, conversions are C02)
     .zip_map(removed, |s,r| clamp(s - r));
     calc_rms_squared()
   calc_rms_squared: from_sample(len as f32);   [calc_rms_squared]  ([of_nat] = that conversion)
     square_sum.map(|s| s / n)
   next = next_squared(..).map(sample_sqrt)     [rms_next]
   current = calc_rms_squared().map(sqrt)       [rms_current]
   window_frames / into_parts / derive(Clone)   [window_frames] [into_parts] [rms_clone]
   signal adaptor: next, next_squared,          [adaptor_next] [adaptor_next_squared]
     into_parts, derive(Clone)                  [adaptor_into_parts] [adaptor_clone]
   Frames are lists; map/zip_map go channel 0,1,.. (from_fn). *)
Require Import List Arith Bool.
From Dasp Require Import Base.Res Base.ListX Ring.Bounded Ring.Fixed.
Import ListNotations.

Record num := {
  T : Type;
  zero : T;
  add : T -> T -> T;
  sub : T -> T -> T;
  mul : T -> T -> T;
  div : T -> T -> T;
  ltb : T -> T -> bool;
  of_nat : nat -> T;      (* Sample::from_sample(n as f32) *)
  sqrt : T -> T           (* FloatSample::sample_sqrt *)
}.

Section Rms.
Variable K : num.
Notation T := (T K).
Definition frame := list T.

Fixpoint zip_map (g : T -> T -> T) (a b : frame) : frame :=
  match a, b with
  | x :: a', y :: b' => g x y :: zip_map g a' b'
  | _, _ => []
  end.

Record rms := { nch : nat; window : fixed frame; square_sum : frame }.

Definition equilibrium (c : nat) : frame := repeat (zero K) c.

Definition rms_new (c : nat) (w : fixed frame) : rms :=
  {| nch := c; window := w; square_sum := equilibrium c |}.

Definition rms_reset (st : rms) : res rms :=
  let* r := fmap_in_place (fun _ => equilibrium (nch st)) (window st) in
  Ok {| nch := nch st; window := fst r; square_sum := equilibrium (nch st) |}.

Definition window_frames (st : rms) : nat := flen (window st).

(* `if diff < EQUILIBRIUM { EQUILIBRIUM } else { diff }` *)
Definition clamp (d : T) : T := if ltb K d (zero K) then zero K else d.

Definition calc_rms_squared (st : rms) : frame :=
  let n := of_nat K (flen (window st)) in
  map (fun s => div K s n) (square_sum st).

Definition square_frame (fr : frame) : frame := map (fun s => mul K s s) fr.

(* [cl] is the clamp; the crate is [next_squared] = [next_squared_gen clamp] *)
Definition next_squared_gen (cl : T -> T) (st : rms) (fr : frame) : res (rms * frame) :=
  let sq := square_frame fr in
  let* r := fpush (window st) sq in
  let sum1 := zip_map (add K) (square_sum st) sq in
  let sum2 := zip_map (fun s r => cl (sub K s r)) sum1 (snd r) in
  let st' := {| nch := nch st; window := fst r; square_sum := sum2 |} in
  Ok (st', calc_rms_squared st').

Definition next_squared := next_squared_gen clamp.

Definition rms_next_gen (cl : T -> T) (st : rms) (fr : frame) : res (rms * frame) :=
  let* r := next_squared_gen cl st fr in Ok (fst r, map (sqrt K) (snd r)).
Definition rms_next := rms_next_gen clamp.

Definition rms_current (st : rms) : frame := map (sqrt K) (calc_rms_squared st).

Definition into_parts (st : rms) : fixed frame * frame := (window st, square_sum st).

(* #[derive(Clone)]: field-wise copy (the ring buffer owns its storage in every instantiation used) *)
Definition rms_clone (st : rms) : rms :=
  {| nch := nch st; window := window st; square_sum := square_sum st |}.

(* ---- histories ---- *)
Inductive op := ONext (fr : frame) | ONextSq (fr : frame) | OCurrent | OReset.

Definition step_gen (cl : T -> T) (st : rms) (o : op) : res (rms * frame) :=
  match o with
  | ONext fr => rms_next_gen cl st fr
  | ONextSq fr => next_squared_gen cl st fr
  | OCurrent => Ok (st, rms_current st)
  | OReset => let* st' := rms_reset st in Ok (st', [])
  end.

Fixpoint run_gen (cl : T -> T) (st : rms) (ops : list op) : res (rms * list frame) :=
  match ops with
  | [] => Ok (st, [])
  | o :: t => let* r := step_gen cl st o in
              let* r' := run_gen cl (fst r) t in Ok (fst r', snd r :: snd r')
  end.

Definition step := step_gen clamp.
Definition run := run_gen clamp.

(* ---- signal adaptor: `self.rms.next(self.signal.next())`; the source signal is a
   function of the pull counter, so "one source frame per output" is visible ---- *)
Record adaptor := { src : nat -> frame; pulls : nat; det : rms }.

Definition adaptor_new (s : nat -> frame) (c : nat) (w : fixed frame) : adaptor :=
  {| src := s; pulls := 0; det := rms_new c w |}.

Definition adaptor_next (a : adaptor) : res (adaptor * frame) :=
  let fr := src a (pulls a) in
  let* r := rms_next (det a) fr in
  Ok ({| src := src a; pulls := S (pulls a); det := fst r |}, snd r).

Definition adaptor_next_squared (a : adaptor) : res (adaptor * frame) :=
  let fr := src a (pulls a) in
  let* r := next_squared (det a) fr in
  Ok ({| src := src a; pulls := S (pulls a); det := fst r |}, snd r).

(* dasp_signal/src/rms.rs: `pub fn into_parts(self) -> (S, rms::Rms<S::Frame, D>)`: the source
   (a function of the pull counter here, so source + position) and the detector *)
Definition adaptor_into_parts (a : adaptor) : (nat -> frame) * nat * rms := (src a, pulls a, det a).

(* #[derive(Clone)] on the adaptor: source and detector cloned field by field *)
Definition adaptor_clone (a : adaptor) : adaptor :=
  {| src := src a; pulls := pulls a; det := rms_clone (det a) |}.

Fixpoint adaptor_run (a : adaptor) (k : nat) : res (adaptor * list frame) :=
  match k with
  | 0 => Ok (a, [])
  | S k' => let* r := adaptor_next a in
            let* r' := adaptor_run (fst r) k' in Ok (fst r', snd r :: snd r')
  end.

End Rms.
Arguments ONext {K} fr.
Arguments ONextSq {K} fr.
Arguments OCurrent {K}.
Arguments OReset {K}.
