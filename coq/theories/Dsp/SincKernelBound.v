(* C18, "a constant input is reproduced within 1 % once the buffer is primed", depths 4 .. 16, on exact reals
   with the true sin, cos, PI: the model's own [interpolate] on a primed constant buffer returns
   c * (weight sum) on every channel (SincConst.interpolate_const), and the weight sum is within 1/100 of 1
   for every fractional position (SincKernelBoundA-E, Interval, one lemma per depth). *)
Require Import Reals List Arith Lia Lra.
From Dasp Require Import Base.Res Ring.Fixed Dsp.Sinc Dsp.SincProofs Dsp.SincR Dsp.SincConst
  Dsp.SincKernelBoundA Dsp.SincKernelBoundB Dsp.SincKernelBoundC Dsp.SincKernelBoundD Dsp.SincKernelBoundE.
Open Scope R_scope.

Lemma INR_lit (n : nat) (z : Z) : Z.of_nat n = z -> INR n = IZR z.
Proof. intros <-. apply INR_IZR_INZ. Qed.

Definition kernel_depth_lo : nat := 4.
Definition kernel_depth_hi : nat := 16.

Theorem K_bound (d : nat) : (kernel_depth_lo <= d <= kernel_depth_hi)%nat ->
  forall x, 0 < x < 1 -> Rabs (K (INR d) x 0 d - 1) <= 1 / 100.
Proof.
  unfold kernel_depth_lo, kernel_depth_hi. intros Hd.
  do 4 (destruct d as [|d]; [lia|]).
  destruct d as [|d]; [rewrite (INR_lit 4 4 eq_refl); exact K_bound_4|].
  destruct d as [|d]; [rewrite (INR_lit 5 5 eq_refl); exact K_bound_5|].
  destruct d as [|d]; [rewrite (INR_lit 6 6 eq_refl); exact K_bound_6|].
  destruct d as [|d]; [rewrite (INR_lit 7 7 eq_refl); exact K_bound_7|].
  destruct d as [|d]; [rewrite (INR_lit 8 8 eq_refl); exact K_bound_8|].
  destruct d as [|d]; [rewrite (INR_lit 9 9 eq_refl); exact K_bound_9|].
  destruct d as [|d]; [rewrite (INR_lit 10 10 eq_refl); exact K_bound_10|].
  destruct d as [|d]; [rewrite (INR_lit 11 11 eq_refl); exact K_bound_11|].
  destruct d as [|d]; [rewrite (INR_lit 12 12 eq_refl); exact K_bound_12|].
  destruct d as [|d]; [rewrite (INR_lit 13 13 eq_refl); exact K_bound_13|].
  destruct d as [|d]; [rewrite (INR_lit 14 14 eq_refl); exact K_bound_14|].
  destruct d as [|d]; [rewrite (INR_lit 15 15 eq_refl); exact K_bound_15|].
  destruct d as [|d]; [rewrite (INR_lit 16 16 eq_refl); exact K_bound_16|].
  lia.
Qed.

(* the clause, about the model's own interpolate *)
Theorem constant_1pct_small_depths (ch d : nat) (s : sinc NumR FmtR) (c x : R) :
  (4 <= d <= 16)%nat -> WF NumR FmtR ch d s -> idx s = d ->
  (forall fr, In fr (fdata (frames s)) -> fr = repeat c ch) -> 0 <= x < 1 ->
  exists fr, interpolate NumR sin cos FmtR ch s x = Ok fr /\ length fr = ch /\
             Forall (fun y => Rabs (y - c) <= 1 / 100 * Rabs c) fr.
Proof.
  intros Hd W Hi Hc Hx.
  apply (interpolate_const_close ch d s c x (1 / 100) W Hi Hc Hx ltac:(lra)).
  apply K_bound. exact Hd.
Qed.
