(* |K d x - 1| <= 1/100 for 0 < x < 1, depths 14, 15 (Interval; see SincKernelTac.v).  Split over several
   files only so that they check in parallel. *)
Require Import Reals Lra.
From Interval Require Import Tactic.
From Dasp Require Import Dsp.SincConst Dsp.SincKernelTac.
Open Scope R_scope.

Lemma K_bound_14 : forall x, 0 < x < 1 -> Rabs (K 14 x 0 14 - 1) <= 1 / 100.
Proof. kbound. Qed.

Lemma K_bound_15 : forall x, 0 < x < 1 -> Rabs (K 15 x 0 15 - 1) <= 1 / 100.
Proof. kbound. Qed.

