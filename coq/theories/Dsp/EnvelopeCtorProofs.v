(* Constructors and derive(Clone) of the envelope detector (round 3, coverage closing).
   Every way of constructing a peak detector -- the three named constructors,
   Detector::peak_from_rectifier, Detector::new(Peak::from(R), ..) -- yields the detector that uses
   the rectifier it was given / named after, with the attack and release times in the order given. *)
Require Import ZArith List.
From Dasp Require Import Dsp.EnvNum Dsp.Envelope.
Open Scope Z_scope.

Lemma peak_ctor_same {G} (ctor which : Z) (a r : G) :
  which = 0 \/ which = 1 \/ which = 2 ->
  peak_ctor ctor which a r = (which, a, r).
Proof.
  intros [H|[H|H]]; subst; unfold peak_ctor, peak_ctor_named, peak_ctor_from_rectifier,
    peak_full_wave, peak_positive_half_wave, peak_negative_half_wave, peak_from;
    destruct ctor as [|[p|p|]|]; reflexivity.
Qed.

Lemma peak_from_rectifier_named {G} (which : Z) (a r : G) :
  which = 0 \/ which = 1 \/ which = 2 ->
  peak_ctor_from_rectifier which a r = peak_ctor_named which a r.
Proof.
  intros H. change (peak_ctor 1 which a r = peak_ctor 0 which a r). now rewrite !peak_ctor_same.
Qed.

Lemma det_clone_same (N : num) (dt : detector N) : det_clone N dt = dt.
Proof. destruct dt; reflexivity. Qed.

(* a clone continues exactly as the original would *)
Lemma det_clone_run (N : num) (dt : detector N) (ops : list (dop N)) :
  det_run N (det_clone N dt) ops = det_run N dt ops.
Proof. now rewrite det_clone_same. Qed.

Lemma detector_clone_spec (N : num) (dt : detector N) (ops : list (dop N)) :
  det_clone N dt = dt /\ det_run N (det_clone N dt) ops = det_run N dt ops.
Proof. split; [apply det_clone_same|apply det_clone_run]. Qed.
