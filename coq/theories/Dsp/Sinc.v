(* Model of dasp_interpolate::sinc::Sinc (dasp_interpolate/src/sinc/mod.rs:26-132) and of the
   Converter loop that drives it (dasp_signal/src/interpolate.rs:141-165), written after the
   source: same index arithmetic, same order of operations.

   One model, several arithmetics: the f64 computations of the source (PI, +, -, *, /, `n as f64`,
   `a == 0.0`, `v >= 1.0`) are the fields of a record [num]; libm's sin and cos are Section
   variables [sin_o], [cos_o] (oracles); the sample format of the frames (f64 / f32 / i16 / R) is a
   record [fmt] giving EQUILIBRIUM, `to_sample::<f64>()` and
   `vs.add_amp(p.to_sample::<S>().to_signed_sample())`.

   usize: `nl - n` is a checked subtraction ([usub], Panic POverflow on underflow = debug build);
   `frames[i]` is Fixed's wrapping Index ([fget] of Ring/Fixed.v). No proofs in this file. *)
Require Import List Arith ZArith Bool.
From Dasp Require Import Base.Res Base.ListX Ring.Bounded Ring.Fixed.
Import ListNotations.

Record num := {
  T : Type;
  n_zero : T; n_one : T; n_half : T; n_pi : T;   (* 0.0, 1.0, 0.5, core::f64::consts::PI *)
  n_add : T -> T -> T; n_sub : T -> T -> T; n_mul : T -> T -> T; n_div : T -> T -> T;
  n_of_nat : nat -> T;                      (* `n as f64` *)
  n_eq0 : T -> bool;                        (* `a == 0.0` *)
  n_ge1 : T -> bool;                        (* `v >= 1.0` *)
}.

Record fmt (N : num) := {
  smp : Type;
  equil : smp;                                (* Sample::EQUILIBRIUM *)
  to_f : smp -> T N;                          (* r_lag.to_sample::<f64>() *)
  add_amp_f : smp -> T N -> res smp;            (* vs.add_amp(p.to_sample::<S>().to_signed_sample()) *)
}.
Arguments smp {N} f.
Arguments equil {N} f.
Arguments to_f {N} f.
Arguments add_amp_f {N} f.

(* usize subtraction, debug semantics *)
Definition usub (a b : nat) : res nat := if b <=? a then Ok (a - b) else Panic POverflow.

Section Sinc.
Variable N : num.
Variables sin_o cos_o : T N -> T N.
Variable M : fmt N.
Variable ch : nat.                          (* Frame::NumChannels *)

Notation frame := (list (smp M)).

Record sinc := { frames : fixed frame; idx : nat }.

Definition equil_frame : frame := repeat (equil M) ch.

(* Sinc::new: assert!(frames.len() % 2 == 0) *)
Definition sinc_new (f : fixed frame) : res sinc :=
  if flen f mod 2 =? 0 then Ok {| frames := f; idx := 0 |} else Panic PAssert.

Definition sdepth (s : sinc) : nat := flen (frames s) / 2.

(* the three-way branch of interpolate *)
Definition max_depth (s : sinc) : res nat :=
  let nl := idx s in
  let nr := idx s + 1 in
  let depth := sdepth s in
  let rightmost := nl + depth in
  let leftmost := (Z.of_nat nr - Z.of_nat depth)%Z in     (* nr as isize - depth as isize *)
  if flen (frames s) <=? rightmost then usub (flen (frames s)) depth
  else if (leftmost <? 0)%Z then Ok (Z.to_nat (Z.of_nat depth + leftmost))
  else Ok depth.

(* let a = PI * (phi + n as f64) *)
Definition tap_arg (phi : T N) (n : nat) : T N := n_mul N (n_pi N) (n_add N phi (n_of_nat N n)).

(* first * second *)
Definition weight (depth : nat) (a : T N) : T N :=
  let first := if n_eq0 N a then n_one N else n_div N (sin_o a) a in
  let second := n_add N (n_half N) (n_mul N (n_half N) (cos_o (n_div N a (n_of_nat N depth)))) in
  n_mul N first second.

(* v.zip_map(fr, |vs, r_lag| vs.add_amp((first * second * r_lag.to_sample::<f64>()).to_sample().to_signed_sample())) *)
Fixpoint zip_acc (w : T N) (v fr : frame) : res frame :=
  match v, fr with
  | [], [] => Ok []
  | vs :: v', r :: fr' =>
    let* s := add_amp_f M vs (n_mul N w (to_f M r)) in
    let* t := zip_acc w v' fr' in
    Ok (s :: t)
  | _, _ => UB
  end.

(* the body of the fold closure *)
Definition tap_step (s : sinc) (x : T N) (depth : nat) (v : frame) (n : nat) : res frame :=
  let phil := x in
  let phir := n_sub N (n_one N) x in
  let nl := idx s in
  let nr := idx s + 1 in
  let wl := weight depth (tap_arg phil n) in
  let* il := usub nl n in
  let* fl := fget (frames s) il in
  let* v1 := zip_acc wl v fl in
  let wr := weight depth (tap_arg phir n) in
  let* fr := fget (frames s) (nr + n) in
  zip_acc wr v1 fr.

(* (n0 .. n0+k).fold(v, f) *)
Fixpoint fold_range (f : frame -> nat -> res frame) (v : frame) (n0 k : nat) : res frame :=
  match k with
  | 0 => Ok v
  | S k' => let* v' := f v n0 in fold_range f v' (S n0) k'
  end.

Definition interpolate (s : sinc) (x : T N) : res frame :=
  let* md := max_depth s in
  fold_range (tap_step s x (sdepth s)) equil_frame 0 md.

Definition next_source_frame (s : sinc) (fr : frame) : res sinc :=
  let* r := fpush (frames s) fr in
  Ok {| frames := fst r; idx := if idx s <? sdepth s then idx s + 1 else idx s |}.

Definition reset (s : sinc) : res sinc :=
  let* f1 := fset_first (frames s) 0 in
  let* r := fmap_in_place (fun _ => equil_frame) f1 in
  Ok {| frames := fst r; idx := 0 |}.

(* Sinc::new(Fixed::from(vec![EQUILIBRIUM; 2*depth])) *)
Definition sinc_init (depth : nat) : res sinc :=
  let* f := f_from (repeat equil_frame (2 * depth)) in sinc_new f.

(* ---- Converter<Src, Sinc> ---- *)
Record conv := { src : list frame; pulls : nat; itp : sinc; ival : T N; ratio : T N }.

(* instrumented source: the listed frames, then EQUILIBRIUM for ever *)
Definition src_frame (c : conv) : frame := nth (pulls c) (src c) equil_frame.

(* while *interpolation_value >= 1.0 { next_source_frame(source.next()); value -= 1.0 }
   None = the loop did not finish within the fuel *)
Fixpoint advance (fuel : nat) (c : conv) : res (option conv) :=
  if n_ge1 N (ival c) then
    match fuel with
    | 0 => Ok None
    | S fuel' =>
      let* s' := next_source_frame (itp c) (src_frame c) in
      advance fuel' {| src := src c; pulls := S (pulls c); itp := s';
                       ival := n_sub N (ival c) (n_one N); ratio := ratio c |}
    end
  else Ok (Some c).

Definition conv_next (fuel : nat) (c : conv) : res (option (frame * conv)) :=
  let* oc := advance fuel c in
  match oc with
  | None => Ok None
  | Some c1 =>
    let* out := interpolate (itp c1) (ival c1) in
    Ok (Some (out, {| src := src c1; pulls := pulls c1; itp := itp c1;
                      ival := n_add N (ival c1) (ratio c1); ratio := ratio c1 |}))
  end.

(* the first k outputs *)
Fixpoint conv_run (fuel : nat) (c : conv) (k : nat) : res (option (list frame * conv)) :=
  match k with
  | 0 => Ok (Some ([], c))
  | S k' =>
    let* r := conv_next fuel c in
    match r with
    | None => Ok None
    | Some (o, c1) =>
      let* r' := conv_run fuel c1 k' in
      match r' with None => Ok None | Some (os, c2) => Ok (Some (o :: os, c2)) end
    end
  end.

(* Converter::scale_playback_hz(source, interpolator, scale) *)
Definition conv_new (source : list frame) (s : sinc) (scale : T N) : conv :=
  {| src := source; pulls := 0; itp := s; ival := n_zero N; ratio := scale |}.

End Sinc.

Arguments frames {N M} s.
Arguments idx {N M} s.
Arguments src {N M} c.
Arguments pulls {N M} c.
Arguments itp {N M} c.
Arguments ival {N M} c.
Arguments ratio {N M} c.
