(* IEEE theorems about the RMS model: while the stored running sum is finite, every output of
   next / next_squared / current is non-negative (not < 0) and not NaN.  The clamp makes the
   stored sum not-less-than zero, the divisor `len as f32` is positive for every len >= 1,
   Bdiv keeps the sign and Bsqrt of a non-negative is not NaN.
   Known-finding class K4 (overflow of x*x) with its witness. *)
Require Import Floats.SpecFloat.
Require Import ZArith Reals Bool List Lia Lra.
From Flocq Require Import Core BinarySingleNaN.
From Dasp Require Import Base.Res Base.ListX Base.Float Ring.Bounded Ring.Fixed Dsp.Rms Dsp.Sqrt Dsp.RmsInst.
Import ListNotations.
Open Scope Z_scope.

Section Gen.
Variables prec emax : Z.
Context (Hp : Prec_gt_0 prec) (He : Prec_lt_emax prec emax).
Notation bf := (binary_float prec emax).
Notation z0 := (B754_zero false : bf).
Notation lt := (glt prec emax).

(* zero of either sign, positive finite, or +infinity *)
Definition nn (x : bf) : Prop :=
  match x with
  | B754_zero _ => True
  | B754_finite false _ _ _ => True
  | B754_infinity false => True
  | _ => False
  end.
(* positive: finite non-zero positive or +infinity *)
Definition pos (x : bf) : Prop :=
  match x with
  | B754_finite false _ _ _ => True
  | B754_infinity false => True
  | _ => False
  end.
Definition good (x : bf) : Prop := is_nan x = false /\ lt x z0 = false.

Lemma lt_zero_pos n : lt z0 n = true -> pos n.
Proof. destruct n as [b|[|]| |[|] m e H]; simpl; intros E; try discriminate; exact I. Qed.

Lemma finite_ge0_nn s : is_finite s = true -> lt s z0 = false -> nn s.
Proof. destruct s as [b|b| |[|] m e H]; simpl; intros F E; try discriminate; exact I. Qed.

Lemma nn_good x : nn x -> good x.
Proof. destruct x as [[|]|[|]| |[|] m e H]; simpl; intros N; try contradiction; split; reflexivity. Qed.

Lemma clamp_ge0 (d : bf) : lt (if lt d z0 then z0 else d) z0 = false.
Proof. destruct (lt d z0) eqn:E; [reflexivity|exact E]. Qed.

Lemma finite_not_nan (x : bf) : is_finite x = true -> is_nan x = false.
Proof. destruct x; simpl; congruence. Qed.

Lemma div_nn s n : nn s -> is_finite s = true -> pos n -> nn (gdiv prec emax Hp He s n).
Proof.
  intros Ns Fs Pn.
  destruct n as [bn|[|]| |[|] mn en Hn]; try contradiction;
  destruct s as [bs|bs| |[|] ms es Hs]; try contradiction; try discriminate; try exact I.
  pose proof (Bdiv_correct prec emax Hp He mode_NE (B754_finite false ms es Hs) (B754_finite false mn en Hn)) as HC.
  assert (Hy : B2R (B754_finite false mn en Hn) <> 0%R).
  { simpl. apply Rgt_not_eq. apply F2R_gt_0. reflexivity. }
  specialize (HC Hy). unfold gdiv.
  destruct (Rlt_bool _ _).
  - destruct HC as (_ & HF & HS).
    pose proof (finite_not_nan _ HF) as HN. specialize (HS HN).
    destruct (Bdiv mode_NE (B754_finite false ms es Hs) (B754_finite false mn en Hn)) as [b|b| |b m e H];
      simpl in *; try discriminate; try exact I. subst b. exact I.
  - destruct (Bdiv mode_NE (B754_finite false ms es Hs) (B754_finite false mn en Hn)) as [b|b| |b m e H];
      simpl in *; try discriminate. inversion HC. exact I.
Qed.

Lemma sqrt_nn_good m : nn m -> good (gsqrt prec emax Hp He m).
Proof.
  intros N. destruct m as [b|[|]| |[|] mm em Hm]; try contradiction.
  - unfold gsqrt. simpl. apply nn_good. exact I.
  - unfold gsqrt. simpl. apply nn_good. exact I.
  - destruct (Bsqrt_correct prec emax Hp He mode_NE (B754_finite false mm em Hm)) as (_ & HF & HS).
    unfold gsqrt. pose proof (finite_not_nan _ HF) as HN. specialize (HS HN).
    apply nn_good.
    destruct (Bsqrt mode_NE (B754_finite false mm em Hm)) as [b|b| |b m e H]; simpl in *; try discriminate; try exact I.
    subst b. exact I.
Qed.

(* one channel of calc_rms_squared followed by the IEEE sqrt *)
Lemma channel_good s n : is_finite s = true -> lt s z0 = false -> lt z0 n = true ->
  good (gdiv prec emax Hp He s n) /\ good (gsqrt prec emax Hp He (gdiv prec emax Hp He s n)).
Proof.
  intros F G Pn. pose proof (div_nn s n (finite_ge0_nn s F G) F (lt_zero_pos n Pn)) as Hd.
  split; [apply nn_good; exact Hd|apply sqrt_nn_good; exact Hd].
Qed.

(* positivity of a normalised positive integer mantissa *)
Lemma normalize_pos m e : (0 < m) ->
  pos (binary_normalize prec emax Hp He mode_NE m e false) \/
  B2R (binary_normalize prec emax Hp He mode_NE m e false) = 0%R.
Proof.
  intros Hm. pose proof (binary_normalize_correct prec emax Hp He mode_NE m e false) as HC. cbv zeta in HC.
  assert (Hx : (0 < F2R (Float radix2 m e))%R) by (apply F2R_gt_0; exact Hm).
  destruct (Rlt_bool _ _).
  - destruct HC as (HB & HF & HS). rewrite (Rcompare_Gt _ _ Hx) in HS.
    destruct (binary_normalize prec emax Hp He mode_NE m e false) as [b|b| |b mm ee H]; simpl in *; try discriminate.
    + right; reflexivity.
    + left. subst b. exact I.
  - rewrite Rlt_bool_false in HC by lra. left.
    destruct (binary_normalize prec emax Hp He mode_NE m e false) as [b|b| |b mm ee H]; simpl in *; try discriminate.
    inversion HC. exact I.
Qed.

End Gen.

(* ---------- the divisor `len as f32` (and its f64 image) is positive for every len >= 1 ---------- *)
Lemma round_pos_ge prec emax (Hp : Prec_gt_0 prec) (He : Prec_lt_emax prec emax) (x : R) (k : Z) :
  (3 - emax - prec <= k)%Z -> (bpow radix2 k <= x)%R ->
  (0 < round radix2 (SpecFloat.fexp prec emax) (round_mode mode_NE) x)%R.
Proof.
  intros Hk Hx.
  apply Rlt_le_trans with (bpow radix2 k); [apply bpow_gt_0|].
  apply round_ge_generic; auto with typeclass_instances.
  - apply (fexp_correct prec emax Hp).
  - apply generic_format_bpow. unfold SpecFloat.fexp, SpecFloat.emin. pose proof Hp as Hp'. unfold Prec_gt_0 in Hp'. lia.
Qed.

Lemma normalize_pos_strict prec emax (Hp : Prec_gt_0 prec) (He : Prec_lt_emax prec emax) m e k :
  (0 < m)%Z -> (3 - emax - prec <= k)%Z -> (bpow radix2 k <= F2R (Float radix2 m e))%R ->
  pos prec emax (binary_normalize prec emax Hp He mode_NE m e false).
Proof.
  intros Hm Hk Hx.
  pose proof (binary_normalize_correct prec emax Hp He mode_NE m e false) as HC. cbv zeta in HC.
  assert (Hx0 : (0 < F2R (Float radix2 m e))%R) by (apply F2R_gt_0; exact Hm).
  pose proof (round_pos_ge prec emax Hp He _ k Hk Hx) as Hr.
  destruct (Rlt_bool _ _).
  - destruct HC as (HB & HF & HS). rewrite (Rcompare_Gt _ _ Hx0) in HS.
    destruct (binary_normalize prec emax Hp He mode_NE m e false) as [b|b| |b mm ee H]; simpl in *; try discriminate.
    + rewrite <- HB in Hr. lra.
    + subst b. exact I.
  - rewrite Rlt_bool_false in HC by lra.
    destruct (binary_normalize prec emax Hp He mode_NE m e false) as [b|b| |b mm ee H]; simpl in *; try discriminate.
    inversion HC. exact I.
Qed.

Lemma pos_lt prec emax (x : binary_float prec emax) : pos prec emax x -> glt prec emax (B754_zero false) x = true.
Proof. destruct x as [b|[|]| |[|] m e H]; simpl; intros P; try contradiction; reflexivity. Qed.

Lemma of_nat32_pos (n : nat) : (1 <= n)%nat -> F32.ltb F32.zero (of_nat32 n) = true.
Proof.
  intros Hn. apply pos_lt. unfold of_nat32, F32.of_Z, gof_Z.
  apply (normalize_pos_strict 24 128 p24 pe24 (Z.of_nat n) 0 0); try lia.
  unfold F2R. simpl. rewrite Rmult_1_r. apply IZR_le. lia.
Qed.

Lemma bounded_emin prec emax m e : SpecFloat.bounded prec emax m e = true -> (3 - emax - prec <= e)%Z.
Proof.
  unfold SpecFloat.bounded. intros H. apply andb_prop in H. destruct H as [H _].
  unfold SpecFloat.canonical_mantissa in H. apply Zeq_bool_eq in H.
  unfold SpecFloat.fexp, SpecFloat.emin in H. lia.
Qed.

Lemma of_nat64_pos (n : nat) : (1 <= n)%nat -> F64.ltb F64.zero (of_nat64 n) = true.
Proof.
  intros Hn. apply pos_lt. unfold of_nat64.
  pose proof (of_nat32_pos n Hn) as H32. apply lt_zero_pos in H32. unfold of_nat32 in H32.
  destruct (F32.of_Z (Z.of_nat n)) as [b|[|]| |[|] m e H]; try contradiction; simpl; try exact I.
  unfold gof_ZE.
  apply (normalize_pos_strict 53 1024 p53 pe53 (Z.pos m) e (-149)); try lia.
  pose proof (bounded_emin 24 128 m e H) as Hb.
  unfold F2R. cbn [Fnum Fexp].
  replace (bpow radix2 (-149)) with (1 * bpow radix2 (-149))%R by ring.
  apply Rmult_le_compat; try lra.
  - apply bpow_ge_0.
  - apply IZR_le. lia.
  - apply bpow_le. lia.
Qed.

(* ---------- lifting to the model ---------- *)
Section Model.
Variable K : num.
Variable P Q : T K -> Prop.

Lemma zip_map_Forall (g : T K -> T K -> T K) a b : (forall x y, P (g x y)) -> Forall P (zip_map K g a b).
Proof. intros H. revert b; induction a as [|x a IH]; intros [|y b]; simpl; auto. Qed.
End Model.

Lemma next_squared_sum_clamped K st fr st' out :
  next_squared K st fr = Ok (st', out) ->
  Forall (fun s => ltb K s (zero K) = false \/ s = zero K) (square_sum K st') /\
  out = calc_rms_squared K st' /\ flen (window K st') = flen (window K st).
Proof.
  unfold next_squared, next_squared_gen. destruct (fpush (window K st) (square_frame K fr)) as [[w' old]| |] eqn:E; simpl; try discriminate.
  intros H. inversion H; subst; clear H. cbn [square_sum window]. split; [|split; [reflexivity|]].
  - apply zip_map_Forall. intros x y. unfold clamp. destruct (ltb K (sub K x y) (zero K)) eqn:E'; auto.
  - unfold fpush in E. destruct (get_unchecked (fdata (window K st)) (first (window K st))); simpl in E; try discriminate.
    inversion E; subst. unfold flen. simpl. apply set_nth_length.
Qed.

Definition good32 (o : f32) : Prop := F32.is_nan o = false /\ F32.ltb o F32.zero = false.
Definition good64 (o : f64) : Prop := F64.is_nan o = false /\ F64.ltb o F64.zero = false.

Lemma current_good32 st : (1 <= flen (window NumF32std st))%nat ->
  Forall (fun s => F32.is_finite s = true /\ F32.ltb s F32.zero = false) (square_sum NumF32std st) ->
  Forall good32 (calc_rms_squared NumF32std st) /\ Forall good32 (rms_current NumF32std st).
Proof.
  intros HN HS. unfold rms_current, calc_rms_squared.
  pose proof (of_nat32_pos _ HN) as Hn.
  induction HS as [|s l [F G] HS IH]; simpl; [split; constructor|].
  destruct IH as [IH1 IH2].
  destruct (channel_good 24 128 p24 pe24 s (of_nat32 (flen (window NumF32std st))) F G Hn) as [G1 G2].
  split; constructor; auto.
Qed.

Lemma current_good64 st : (1 <= flen (window NumF64std st))%nat ->
  Forall (fun s => F64.is_finite s = true /\ F64.ltb s F64.zero = false) (square_sum NumF64std st) ->
  Forall good64 (calc_rms_squared NumF64std st) /\ Forall good64 (rms_current NumF64std st).
Proof.
  intros HN HS. unfold rms_current, calc_rms_squared.
  pose proof (of_nat64_pos _ HN) as Hn.
  induction HS as [|s l [F G] HS IH]; simpl; [split; constructor|].
  destruct IH as [IH1 IH2].
  destruct (channel_good 53 1024 p53 pe53 s (of_nat64 (flen (window NumF64std st))) F G Hn) as [G1 G2].
  split; constructor; auto.
Qed.

Lemma sum_ok32 st fr st' out : next_squared NumF32std st fr = Ok (st', out) ->
  Forall (fun s => F32.is_finite s = true) (square_sum NumF32std st') ->
  Forall (fun s => F32.is_finite s = true /\ F32.ltb s F32.zero = false) (square_sum NumF32std st').
Proof.
  intros E HF. destruct (next_squared_sum_clamped _ _ _ _ _ E) as (HC & _).
  revert HC. induction HF as [|s l F HF IH]; intros HC; constructor; inversion HC; subst; auto.
  split; auto. destruct H1 as [H1| ->]; auto.
Qed.

Lemma sum_ok64 st fr st' out : next_squared NumF64std st fr = Ok (st', out) ->
  Forall (fun s => F64.is_finite s = true) (square_sum NumF64std st') ->
  Forall (fun s => F64.is_finite s = true /\ F64.ltb s F64.zero = false) (square_sum NumF64std st').
Proof.
  intros E HF. destruct (next_squared_sum_clamped _ _ _ _ _ E) as (HC & _).
  revert HC. induction HF as [|s l F HF IH]; intros HC; constructor; inversion HC; subst; auto.
  split; auto. destruct H1 as [H1| ->]; auto.
Qed.

(* from ANY state (hence after any history): if the running sum stored by this step is finite,
   the outputs of next_squared, next and a following current are not negative and not NaN *)
Theorem rms_nonneg_nonnan_f32 st fr st' out :
  (1 <= flen (window NumF32std st))%nat ->
  rms_next NumF32std st fr = Ok (st', out) ->
  Forall (fun s => F32.is_finite s = true) (square_sum NumF32std st') ->
  Forall good32 out /\ Forall good32 (rms_current NumF32std st') /\
  (exists sq, next_squared NumF32std st fr = Ok (st', sq) /\ Forall good32 sq).
Proof.
  intros HN E HF. unfold rms_next, rms_next_gen in E. fold (next_squared NumF32std st fr) in E.
  destruct (next_squared NumF32std st fr) as [[st1 sq]| |] eqn:E1; simpl in E; try discriminate.
  inversion E; subst; clear E.
  destruct (next_squared_sum_clamped _ _ _ _ _ E1) as (_ & Hsq & HL).
  pose proof (sum_ok32 _ _ _ _ E1 HF) as HS.
  assert (HN' : (1 <= flen (window NumF32std st'))%nat) by lia.
  destruct (current_good32 st' HN' HS) as [G1 G2].
  split; [|split; [exact G2|exists sq; split; [reflexivity|subst sq; exact G1]]].
  subst sq. exact G2.
Qed.

Theorem rms_nonneg_nonnan_f64 st fr st' out :
  (1 <= flen (window NumF64std st))%nat ->
  rms_next NumF64std st fr = Ok (st', out) ->
  Forall (fun s => F64.is_finite s = true) (square_sum NumF64std st') ->
  Forall good64 out /\ Forall good64 (rms_current NumF64std st') /\
  (exists sq, next_squared NumF64std st fr = Ok (st', sq) /\ Forall good64 sq).
Proof.
  intros HN E HF. unfold rms_next, rms_next_gen in E. fold (next_squared NumF64std st fr) in E.
  destruct (next_squared NumF64std st fr) as [[st1 sq]| |] eqn:E1; simpl in E; try discriminate.
  inversion E; subst; clear E.
  destruct (next_squared_sum_clamped _ _ _ _ _ E1) as (_ & Hsq & HL).
  pose proof (sum_ok64 _ _ _ _ E1 HF) as HS.
  assert (HN' : (1 <= flen (window NumF64std st'))%nat) by lia.
  destruct (current_good64 st' HN' HS) as [G1 G2].
  split; [|split; [exact G2|exists sq; split; [reflexivity|subst sq; exact G1]]].
  subst sq. exact G2.
Qed.

(* new / reset states: the sum is +0 in every channel *)
Lemma new_sum_ok32 C w : Forall (fun s => F32.is_finite s = true /\ F32.ltb s F32.zero = false)
                                (square_sum NumF32std (rms_new NumF32std C w)).
Proof. unfold rms_new, equilibrium. simpl. induction C; simpl; constructor; auto. Qed.

(* ---------- known-finding class K4 ---------- *)
Definition KnownClass_K4_f32 (inputs : list (list f32)) : Prop :=
  exists fr x, In fr inputs /\ In x fr /\ F32.is_finite (F32.mul x x) = false.

(* window 2, inputs 1e20, 0.5, 0.5 -> inf, inf, NaN *)
Definition k4_witness : list (list f32) :=
  [[F32.of_bits 1621981420]; [F32.of_bits 1056964608]; [F32.of_bits 1056964608]].

Definition K4_f32_b (inputs : list (list f32)) : bool :=
  existsb (existsb (fun x => negb (F32.is_finite (F32.mul x x)))) inputs.

Lemma K4_f32_b_sound inputs : K4_f32_b inputs = true -> KnownClass_K4_f32 inputs.
Proof.
  unfold K4_f32_b. intros H. apply existsb_exists in H. destruct H as (fr & Hfr & H).
  apply existsb_exists in H. destruct H as (x & Hx & H). exists fr, x. repeat split; auto.
  now apply negb_true_iff in H.
Qed.

(* every input finite, yet the third output is NaN (and the first two +inf) *)
Lemma k4_refuted :
  KnownClass_K4_f32 k4_witness /\
  forallb (forallb F32.is_finite) k4_witness = true /\
  match run NumF32std (rms_new NumF32std 1 {| first := 0; fdata := [[F32.zero]; [F32.zero]] |})
            (map (@ONext NumF32std) k4_witness) with
  | Ok (_, outs) => map (map F32.bits) outs = [[2139095040]; [2139095040]; [2143289344]]
  | _ => False
  end.
Proof.
  split; [|split].
  - apply K4_f32_b_sound. vm_compute. reflexivity.
  - vm_compute. reflexivity.
  - vm_compute. reflexivity.
Qed.
