(* Vocabulary of the end-to-end drift theorem of C11 (definitions only, all executable).

   [NumG]        the IEEE instance of the numeric record for ANY binary format (prec, emax);
                 NumF32 sq / NumF64 sq of RmsInst.v are the instances (24,128) / (53,1024) (convertible).
   [sums_finite] the "no overflow" hypothesis of the theorem as a boolean on the model run: after every
                 operation of the history every channel of the STORED running sum is finite (this is
                 also what the verdict of the correspondence tests before it applies the tolerance E,
                 RmsRun.chan_events).  It implies that every input, every square x*x, every
                 intermediate sum and difference of the run was finite (RmsDriftProofs.step_cases).
   [chan_evs]    the events of one channel of a history: Some x for a pushed sample, None for a reset
                 (current() does not change the state).
   [chan_dy]     the same events as exact dyadic numbers: the input of the executable bound
                 [e_bound] of RmsErr.v.
   [spush]/[srun] the scalar (one channel, window oldest-first) view of the detector; a proof device:
                 RmsDriftProofs.run_proj shows that every channel of the frame model follows it. *)
Require Import Floats.SpecFloat.
Require Import ZArith Reals List Bool.
From Flocq Require Import Core BinarySingleNaN.
From Dasp Require Import Base.Res Base.Float Ring.Fixed Ring.FixedSpec Dsp.Rms Dsp.RmsInst Dsp.RmsErr.
Import ListNotations.

Definition NumG (prec emax : Z) (Hp : Prec_gt_0 prec) (He : Prec_lt_emax prec emax)
  (ofn : nat -> binary_float prec emax) (sq : binary_float prec emax -> binary_float prec emax) : num :=
  {| T := binary_float prec emax; zero := B754_zero false;
     add := gadd prec emax Hp He; sub := gsub prec emax Hp He; mul := gmul prec emax Hp He;
     div := gdiv prec emax Hp He; ltb := glt prec emax; of_nat := ofn; sqrt := sq |}.

(* the exact dyadic value of a float (0 for infinities and NaN; the theorems only use it on finite values) *)
Definition B2Dy {prec emax} (x : binary_float prec emax) : dy :=
  match x with
  | B754_finite s m e _ => Float radix2 (cond_Zopp s (Zpos m)) e
  | _ => d0
  end.

Section Chan.
Variable K : num.
Notation T := (T K).

Definition zero_window (N C : nat) (fst0 : nat) : fixed (frame K) :=
  {| first := fst0; fdata := repeat (equilibrium K C) N |}.
(* Rms::new over a zero-initialised window of N frames of C channels, any start index *)
Definition new_stateK (N C fst0 : nat) : rms K := rms_new K C (zero_window N C fst0).

Definition opK_ok (C : nat) (o : op K) : Prop :=
  match o with ONext fr | ONextSq fr => length fr = C | _ => True end.

(* every stored running sum along the run satisfies [fin] (and the run does not panic) *)
Fixpoint sums_ok (fin : T -> bool) (st : rms K) (ops : list (op K)) : bool :=
  match ops with
  | [] => true
  | o :: t =>
    match step K st o with
    | Ok (st', _) => forallb fin (square_sum K st') && sums_ok fin st' t
    | _ => false
    end
  end.

Definition chan_evs (c : nat) (ops : list (op K)) : list (option T) :=
  flat_map (fun o => match o with
                     | ONext fr | ONextSq fr => [Some (nth c fr (zero K))]
                     | OCurrent => []
                     | OReset => [None]
                     end) ops.

(* scalar view: (window oldest first, running sum) *)
Definition sstate := (list T * T)%type.
Definition spush (cl : T -> T) (st : sstate) (x : T) : sstate :=
  match fst st with
  | [] => st
  | old :: q' => (q' ++ [mul K x x], cl (sub K (add K (snd st) (mul K x x)) old))
  end.
Definition sreset (n : nat) : sstate := (repeat (zero K) n, zero K).
Fixpoint srun (cl : T -> T) (n : nat) (st : sstate) (evs : list (option T)) : sstate :=
  match evs with
  | [] => st
  | None :: t => srun cl n (sreset n) t
  | Some x :: t => srun cl n (spush cl st x) t
  end.
(* the stored sums along a scalar run all satisfy [fin] *)
Fixpoint srun_ok (fin : T -> bool) (cl : T -> T) (n : nat) (st : sstate) (evs : list (option T)) : bool :=
  match evs with
  | [] => true
  | None :: t => srun_ok fin cl n (sreset n) t
  | Some x :: t => fin (snd (spush cl st x)) && srun_ok fin cl n (spush cl st x) t
  end.

(* what the verdict of the correspondence sees of one channel: every pushed sample with the sum
   stored after it, resets ([toD] = exact dyadic reading) *)
Fixpoint sobs (toD : T -> dy) (cl : T -> T) (n : nat) (st : sstate) (evs : list (option T)) : list ev :=
  match evs with
  | [] => []
  | None :: t => EReset :: sobs toD cl n (sreset n) t
  | Some x :: t => EPush (toD x) (toD (snd (spush cl st x))) :: sobs toD cl n (spush cl st x) t
  end.

Definition proj (c : nat) (st : rms K) : sstate :=
  (map (fun f => nth c f (zero K)) (fq (window K st)), nth c (square_sum K st) (zero K)).

End Chan.

Section Dy.
Variables prec emax : Z.
Notation bf := (binary_float prec emax).

Definition dy_evs (evs : list (option bf)) : list (option dy) := map (option_map B2Dy) evs.

(* the executable bound after a scalar history: exact window sum [esum] and error bound [eerr] *)
Definition e_after (N : nat) (evs : list (option bf)) : est :=
  e_bound (u_of prec) (eta_of prec emax) N (e_init N) (dy_evs evs).
End Dy.

(* a history over floats read as a history over the reals (the exact inputs) *)
Definition opR {K : num} (toR : Rms.T K -> R) (o : op K) : op NumR :=
  match o with
  | ONext fr => @ONext NumR (map toR fr)
  | ONextSq fr => @ONextSq NumR (map toR fr)
  | OCurrent => @OCurrent NumR
  | OReset => @OReset NumR
  end.
