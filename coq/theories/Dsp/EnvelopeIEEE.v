(* IEEE companion of the `between` clause: on binary32/binary64 the envelope update stays
   between the detected value d and L' = RN(d + RN(l - d)), i.e. the previous envelope l up to
   two roundings.  Exact `between l d` is not a theorem of IEEE arithmetic (1-ulp overshoots
   occur when the gain rounds to 1.0). *)
Require Import Floats.SpecFloat.
Require Import ZArith Bool Lia Reals Lra.
From Flocq Require Import Core BinarySingleNaN Ulp.
From Dasp Require Import Base.Float Dsp.EnvNum Dsp.Envelope.
Open Scope R_scope.

Section IEEE.
Variables prec emax : Z.
Context (prec_gt_0_ : Prec_gt_0 prec).
Context (prec_lt_emax_ : Prec_lt_emax prec emax).
Hypothesis Hemax : (3 <= emax)%Z.
Notation bf := (BinarySingleNaN.binary_float prec emax).
Let emin := (3 - emax - prec)%Z.
Let fexp := FLT_exp emin prec.
Notation rnd := (round radix2 fexp ZnearestE).

Local Instance fexp_valid : Valid_exp fexp := @fexp_correct prec emax prec_gt_0_.

Definition gstep (g l d : bf) : bf :=
  gadd prec emax prec_gt_0_ prec_lt_emax_ d
    (gmul prec emax prec_gt_0_ prec_lt_emax_ (gadd prec emax prec_gt_0_ prec_lt_emax_ l (gneg prec emax d)) g).

(* the two-roundings image of the previous envelope *)
Definition two_roundings (l d : R) : R := rnd (d + rnd (l - d)).

Lemma rnd_core (l d g : R) : generic_format radix2 fexp d -> 0 <= g <= 1 ->
  Rmin d (two_roundings l d) <= rnd (d + rnd (rnd (l - d) * g)) <= Rmax d (two_roundings l d).
Proof.
  intros Fd Hg. unfold two_roundings. set (diff := rnd (l - d)).
  assert (Fdiff : generic_format radix2 fexp diff) by (apply generic_format_round; auto with typeclass_instances).
  assert (Rd : rnd d = d) by (apply round_generic; auto with typeclass_instances).
  destruct (Rle_dec 0 diff) as [P|Nn].
  - assert (B : 0 <= rnd (diff * g) <= diff).
    { split.
      - rewrite <- (round_0 radix2 fexp ZnearestE). apply round_le; auto with typeclass_instances. nra.
      - rewrite <- (round_generic radix2 fexp ZnearestE diff Fdiff) at 2. apply round_le; auto with typeclass_instances. nra. }
    assert (E1 : d <= rnd (d + rnd (diff * g))).
    { rewrite <- Rd at 1. apply round_le; auto with typeclass_instances. lra. }
    assert (E2 : rnd (d + rnd (diff * g)) <= rnd (d + diff)).
    { apply round_le; auto with typeclass_instances. lra. }
    split.
    + eapply Rle_trans; [apply Rmin_l | exact E1].
    + eapply Rle_trans; [exact E2 | apply Rmax_r].
  - assert (B : diff <= rnd (diff * g) <= 0).
    { split.
      - rewrite <- (round_generic radix2 fexp ZnearestE diff Fdiff) at 1. apply round_le; auto with typeclass_instances. nra.
      - rewrite <- (round_0 radix2 fexp ZnearestE). apply round_le; auto with typeclass_instances. nra. }
    assert (E1 : rnd (d + rnd (diff * g)) <= d).
    { rewrite <- Rd at 2. apply round_le; auto with typeclass_instances. lra. }
    assert (E2 : rnd (d + diff) <= rnd (d + rnd (diff * g))).
    { apply round_le; auto with typeclass_instances. lra. }
    split.
    + eapply Rle_trans; [apply Rmin_r | exact E2].
    + eapply Rle_trans; [exact E1 | apply Rmax_l].
Qed.

(* L' is the previous envelope up to two half-ulp errors *)
Lemma two_roundings_close (l d : R) :
  Rabs (two_roundings l d - l) <=
    / 2 * ulp radix2 fexp (l - d) + / 2 * ulp radix2 fexp (d + rnd (l - d)).
Proof.
  unfold two_roundings.
  replace (rnd (d + rnd (l - d)) - l) with
    ((rnd (d + rnd (l - d)) - (d + rnd (l - d))) + (rnd (l - d) - (l - d))) by ring.
  eapply Rle_trans; [apply Rabs_triang|]. rewrite Rplus_comm.
  apply Rplus_le_compat; apply error_le_half_ulp; auto with typeclass_instances.
Qed.

Lemma bpow_fmt (e : Z) : (emin <= e)%Z -> generic_format radix2 fexp (bpow radix2 e).
Proof.
  intros He. apply generic_format_bpow. unfold fexp, FLT_exp.
  pose proof prec_gt_0_ as P; unfold Prec_gt_0 in P. lia.
Qed.

Lemma rnd_abs_le (x : R) (e : Z) : (emin <= e)%Z -> Rabs x <= bpow radix2 e -> Rabs (rnd x) <= bpow radix2 e.
Proof. intros He Hx. apply abs_round_le_generic; auto with typeclass_instances. now apply bpow_fmt. Qed.

Lemma emin_small : (emin <= emax - 3)%Z.
Proof. unfold emin. pose proof prec_gt_0_ as P; unfold Prec_gt_0 in P. lia. Qed.

Theorem gstep_between (g l d : bf) :
  is_finite g = true -> is_finite l = true -> is_finite d = true ->
  0 <= B2R g <= 1 ->
  Rabs (B2R l) <= bpow radix2 (emax - 3) -> Rabs (B2R d) <= bpow radix2 (emax - 3) ->
  is_finite (gstep g l d) = true /\
  B2R (gstep g l d) = rnd (B2R d + rnd (rnd (B2R l - B2R d) * B2R g)) /\
  Rmin (B2R d) (two_roundings (B2R l) (B2R d)) <= B2R (gstep g l d) <= Rmax (B2R d) (two_roundings (B2R l) (B2R d)).
Proof.
  intros Fg Fl Fd Hg Hl Hd. pose proof emin_small as Hem.
  assert (Fd' : generic_format radix2 fexp (B2R d)) by apply generic_format_B2R.
  (* diff = l + (-d) *)
  pose proof (@Bplus_correct prec emax prec_gt_0_ prec_lt_emax_ mode_NE l (Bopp d) Fl) as H1.
  rewrite is_finite_Bopp in H1. specialize (H1 Fd). rewrite B2R_Bopp in H1.
  change (round radix2 (SpecFloat.fexp prec emax) (round_mode mode_NE)) with rnd in H1.
  replace (B2R l + - B2R d) with (B2R l - B2R d) in H1 by ring.
  assert (B1 : Rabs (rnd (B2R l - B2R d)) <= bpow radix2 (emax - 2)).
  { apply rnd_abs_le; [lia|]. replace (emax - 2)%Z with (emax - 3 + 1)%Z by lia. rewrite bpow_plus_1.
    unfold Rminus. eapply Rle_trans; [apply Rabs_triang|]. rewrite Rabs_Ropp. simpl IZR. lra. }
  rewrite Rlt_bool_true in H1 by (eapply Rle_lt_trans; [exact B1 | apply bpow_lt; lia]).
  destruct H1 as (R1 & F1 & _).
  set (diff := Bplus mode_NE l (Bopp d)) in *.
  (* p = diff * g *)
  pose proof (@Bmult_correct prec emax prec_gt_0_ prec_lt_emax_ mode_NE diff g) as H2.
  change (round radix2 (SpecFloat.fexp prec emax) (round_mode mode_NE)) with rnd in H2.
  assert (B2 : Rabs (rnd (B2R diff * B2R g)) <= bpow radix2 (emax - 2)).
  { apply rnd_abs_le; [lia|]. rewrite Rabs_mult, (Rabs_pos_eq (B2R g)) by lra. rewrite R1.
    pose proof (Rabs_pos (rnd (B2R l - B2R d))). nra. }
  rewrite Rlt_bool_true in H2 by (eapply Rle_lt_trans; [exact B2 | apply bpow_lt; lia]).
  destruct H2 as (R2 & F2 & _). rewrite F1, Fg in F2. cbn [andb] in F2.
  set (p := Bmult mode_NE diff g) in *.
  (* e = d + p *)
  pose proof (@Bplus_correct prec emax prec_gt_0_ prec_lt_emax_ mode_NE d p Fd F2) as H3.
  change (round radix2 (SpecFloat.fexp prec emax) (round_mode mode_NE)) with rnd in H3.
  assert (B3 : Rabs (rnd (B2R d + B2R p)) <= bpow radix2 (emax - 1)).
  { apply rnd_abs_le; [lia|]. replace (emax - 1)%Z with (emax - 2 + 1)%Z by lia. rewrite bpow_plus_1.
    eapply Rle_trans; [apply Rabs_triang|]. rewrite R2. simpl IZR.
    assert (bpow radix2 (emax - 3) <= bpow radix2 (emax - 2)) by (apply bpow_le; lia). lra. }
  rewrite Rlt_bool_true in H3 by (eapply Rle_lt_trans; [exact B3 | apply bpow_lt; lia]).
  destruct H3 as (R3 & F3 & _).
  unfold gstep, gadd, gmul, gneg. fold diff. fold p.
  split; [exact F3|]. split.
  - rewrite R3, R2, R1. reflexivity.
  - rewrite R3, R2, R1. apply rnd_core; assumption.
Qed.
End IEEE.

(* instances: the model's own update function *)
Lemma env_step_f32_gstep ga gr l d :
  env_step NumF32 ga gr l d = gstep 24 128 p24 pe24 (if F32.ltb l d then ga else gr) l d.
Proof. reflexivity. Qed.

Lemma env_step_f64_gstep ga gr l d :
  env_step NumF64 ga gr l d = gstep 53 1024 p53 pe53 (f32_to_f64 (if F64.ltb l d then ga else gr)) l d.
Proof. reflexivity. Qed.

(* `gain.to_sample::<f64>()` = `gain as f64` is exact *)
Lemma f32_to_f64_exact (x : f32) : is_finite x = true ->
  B2R (f32_to_f64 x) = B2R x /\ is_finite (f32_to_f64 x) = true.
Proof.
  intros Fx. destruct x as [s| | |s m e Hb]; try discriminate; [cbn; auto|].
  unfold f32_to_f64, gconv, gof_ZE.
  pose proof (@binary_normalize_correct 53 1024 p53 pe53 mode_NE (if s then Z.neg m else Z.pos m) e s) as H.
  cbv zeta in H.
  assert (E : F2R (Float radix2 (if s then Z.neg m else Z.pos m) e) = B2R (B754_finite s m e Hb : f32)).
  { cbn [B2R]. unfold cond_Zopp. destruct s; reflexivity. }
  rewrite E in H.
  assert (Fmt : generic_format radix2 (SpecFloat.fexp 53 1024) (B2R (B754_finite s m e Hb : f32))).
  { apply generic_inclusion_mag with (fexp1 := SpecFloat.fexp 24 128).
    - intros _. unfold SpecFloat.fexp, SpecFloat.emin. lia.
    - apply generic_format_B2R. }
  rewrite round_generic in H by (auto with typeclass_instances).
  rewrite Rlt_bool_true in H.
  - destruct H as (H1 & H2 & _). split; assumption.
  - eapply Rlt_trans; [apply abs_B2R_lt_emax|]. apply bpow_lt. lia.
Qed.

Theorem between_ieee_f32 (ga gr l d : f32) :
  is_finite ga = true -> is_finite gr = true -> is_finite l = true -> is_finite d = true ->
  0 <= B2R ga <= 1 -> 0 <= B2R gr <= 1 ->
  Rabs (B2R l) <= bpow radix2 125 -> Rabs (B2R d) <= bpow radix2 125 ->
  let e := env_step NumF32 ga gr l d in
  let L' := two_roundings 24 128 (B2R l) (B2R d) in
  is_finite e = true /\ Rmin (B2R d) L' <= B2R e <= Rmax (B2R d) L' /\
  Rabs (L' - B2R l) <= / 2 * ulp radix2 (SpecFloat.fexp 24 128) (B2R l - B2R d)
                       + / 2 * ulp radix2 (SpecFloat.fexp 24 128) (B2R d + round radix2 (SpecFloat.fexp 24 128) ZnearestE (B2R l - B2R d)).
Proof.
  intros Fa Fr Fl Fd Ha Hr Hl Hd e L'. subst e L'. rewrite env_step_f32_gstep.
  assert (Fg : is_finite (if F32.ltb l d then ga else gr) = true) by (destruct (F32.ltb l d); assumption).
  assert (Hg : 0 <= B2R (if F32.ltb l d then ga else gr) <= 1) by (destruct (F32.ltb l d); assumption).
  destruct (gstep_between 24 128 p24 pe24 ltac:(lia) _ l d Fg Fl Fd Hg Hl Hd) as (A & _ & B).
  split; [exact A|]. split; [exact B|]. apply (two_roundings_close 24 128 p24).
Qed.

Theorem between_ieee_f64 (ga gr : f32) (l d : f64) :
  is_finite ga = true -> is_finite gr = true -> is_finite l = true -> is_finite d = true ->
  0 <= B2R ga <= 1 -> 0 <= B2R gr <= 1 ->
  Rabs (B2R l) <= bpow radix2 1021 -> Rabs (B2R d) <= bpow radix2 1021 ->
  let e := env_step NumF64 ga gr l d in
  let L' := two_roundings 53 1024 (B2R l) (B2R d) in
  is_finite e = true /\ Rmin (B2R d) L' <= B2R e <= Rmax (B2R d) L' /\
  Rabs (L' - B2R l) <= / 2 * ulp radix2 (SpecFloat.fexp 53 1024) (B2R l - B2R d)
                       + / 2 * ulp radix2 (SpecFloat.fexp 53 1024) (B2R d + round radix2 (SpecFloat.fexp 53 1024) ZnearestE (B2R l - B2R d)).
Proof.
  intros Fa Fr Fl Fd Ha Hr Hl Hd e L'. subst e L'. rewrite env_step_f64_gstep.
  set (g := if F64.ltb l d then ga else gr).
  assert (Fg0 : is_finite g = true) by (unfold g; destruct (F64.ltb l d); assumption).
  assert (Hg0 : 0 <= B2R g <= 1) by (unfold g; destruct (F64.ltb l d); assumption).
  destruct (f32_to_f64_exact g Fg0) as [Eg Fg]. rewrite <- Eg in Hg0.
  destruct (gstep_between 53 1024 p53 pe53 ltac:(lia) _ l d Fg Fl Fd Hg0 Hl Hd) as (A & _ & B).
  split; [exact A|]. split; [exact B|]. apply (two_roundings_close 53 1024 p53).
Qed.
