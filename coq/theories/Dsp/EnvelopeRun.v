(* Executable Z-level interface of the C19 models with the observation encoding of
   harness/src/bin/c19.rs; evaluated by coqc (vm_compute) on the correspondence cases.
   Gains are libm results (powf): they are read from the implementation's observation
   (tag 22) and passed to the model as data; everything else is recomputed here. *)
Require Import Floats.SpecFloat.
Require Import ZArith Bool List.
From Flocq Require Import Core BinarySingleNaN.
From Dasp Require Import Base.Res Base.Float Dsp.MInt Dsp.EnvNum Dsp.Peak Dsp.Envelope.
Import ListNotations.
Open Scope Z_scope.

(* EPull: one more pull from the adaptor after its finite source is exhausted (the source yields
   Frame::EQUILIBRIUM, DetectEnvelope::next feeds it to the detector like any other frame);
   EParts v: DetectEnvelope::into_parts, then the returned detector gets frame v (mode 0: the detector itself);
   EClone: the detector (mode 0) / the adaptor is replaced by its clone() (derive(Clone): the same state).
   ctor: how the detector is constructed -- 0 the named constructor (Detector::peak, peak_positive_half_wave,
   peak_negative_half_wave, rms), 1 Detector::peak_from_rectifier(R, ..) (rms: Detector::new(Rms::new(w), ..)),
   2 Detector::new(Peak::from(R), ..) (rms: as 1).  The attack and release times are swapped by no constructor:
   the model hands them on in the order given (peak_ctor). *)
Inductive eop := EFrame (v : list Z) | EAttack (bits : Z) | ERelease (bits : Z) | EPull | EParts (v : list Z) | EClone.
Inductive c19case :=
| RCase (fmt nch : Z) (frames : list (list Z))
| ECase (fmt nch det window attack release mode ctor : Z) (ops : list eop).

Definition ifmt_of (c : Z) : option ifmt :=
  match c with
  | 0 => Some I8 | 1 => Some I16 | 2 => Some I24 | 3 => Some I32 | 4 => Some I48 | 5 => Some I64
  | 6 => Some U8 | 7 => Some U16 | 8 => Some U24 | 9 => Some U32 | 10 => Some U48 | 11 => Some U64
  | _ => None
  end.

Definition zn (k : nat) : Z := Z.of_nat k.
Definition panic_obs {A} (r : res A) (ok : A -> list Z) : list Z :=
  match r with Ok a => ok a | Panic k => [8; zn (panic_code k)] | UB => [-2] end.

(* ---------------- rectifiers ---------------- *)
Definition rect_frame_i (f : ifmt) (fr : list Z) : list (list Z) :=
  [ panic_obs (full_wave_frame_i f fr) (fun v => 10 :: v);
    11 :: pos_half_frame_i f fr;
    12 :: neg_half_frame_i f fr ].

Definition rect_frame_n (N : num) (dec : Z -> T N) (enc : T N -> Z) (fr : list Z) : list (list Z) :=
  let x := map dec fr in
  [ 10 :: map enc (map (full_wave_n N) x);
    11 :: map enc (map (pos_half_n N) x);
    12 :: map enc (map (neg_half_n N) x) ].

Definition run_rect (fmt : Z) (frames : list (list Z)) : list (list Z) :=
  match ifmt_of fmt with
  | Some f => flat_map (rect_frame_i f) frames
  | None =>
    if fmt =? 12 then flat_map (rect_frame_n NumF32 F32.of_bits F32.bits) frames
    else flat_map (rect_frame_n NumF64 F64.of_bits F64.bits) frames
  end.

(* ---------------- envelope: generic driver ----------------
   X: envelope sample type; DS: state of the Detect implementation *)
Section Drive.
Variables (X DS : Type).
Variable enc : X -> Z.
Variable step_frame : f32 -> f32 -> list X -> list X -> res (list X).   (* ga gr last detected *)
Variable detect : DS -> list Z -> res (list X * DS).
Variable adapt : bool.          (* adaptor modes: tag 24 with the is_exhausted flag *)
Variable eqframe : list Z.      (* Frame::EQUILIBRIUM of the source format *)

Definition is_frame (o : eop) : bool := match o with EFrame _ => true | _ => false end.

Definition is_zero_time (b : Z) : bool := F32.eqb (F32.of_bits b) F32.zero.

(* expected gain observation: [22; A; R; A; R]; A is the observed one unless the time is 0 *)
Definition gain_bits (time_bits observed : Z) : Z := if is_zero_time time_bits then 0 else observed.

Fixpoint drive (fuel : nat) (last : list X) (ga gr : Z) (ds : DS) (ops : list eop) (obs : list (list Z))
  : list (list Z) :=
  match fuel with O => [] | S fuel' =>
  match ops with
  | [] => []
  | EAttack b :: t =>
    let g := gain_bits b (match obs with (_ :: a :: _) :: _ => a | _ => -1 end) in
    [22; g; gr; g; gr] :: drive fuel' last g gr ds t (tl obs)
  | ERelease b :: t =>
    let g := gain_bits b (match obs with (_ :: _ :: r :: _) :: _ => r | _ => -1 end) in
    [22; ga; g; ga; g] :: drive fuel' last ga g ds t (tl obs)
  | EFrame v :: t =>
    match detect ds v with
    | Ok (d, ds') =>
      match step_frame (F32.of_bits ga) (F32.of_bits gr) last d with
      | Ok e => ((if adapt then [24; 0] else [20]) ++ map enc e ++ map enc d) :: drive fuel' e ga gr ds' t (tl obs)
      | Panic k => [[8; zn (panic_code k)]]
      | UB => [[-2]]
      end
    | Panic k => [[8; zn (panic_code k)]]
    | UB => [[-2]]
    end
  | EClone :: t => [26] :: drive fuel' last ga gr ds t (tl obs)
  | EPull :: t =>
    (* only meaningful in the adaptor modes once every source frame has been pulled *)
    if negb adapt || existsb is_frame t then [[-3]] else
    match detect ds eqframe with
    | Ok (d, ds') =>
      match step_frame (F32.of_bits ga) (F32.of_bits gr) last d with
      | Ok e => ([24; 1] ++ map enc e ++ map enc d) :: drive fuel' e ga gr ds' t (tl obs)
      | Panic k => [[8; zn (panic_code k)]]
      | UB => [[-2]]
      end
    | Panic k => [[8; zn (panic_code k)]]
    | UB => [[-2]]
    end
  | EParts v :: t =>
    (* into_parts hands back the source (exhausted iff no frame is left: here always, the generator
       puts EParts last) and the detector with its envelope state and gains intact *)
    match detect ds v with
    | Ok (d, ds') =>
      match step_frame (F32.of_bits ga) (F32.of_bits gr) last d with
      | Ok e => ([25; ga; gr; if adapt then 1 else 0] ++ map enc e ++ map enc d) :: nil
      | Panic k => [[8; zn (panic_code k)]]
      | UB => [[-2]]
      end
    | Panic k => [[8; zn (panic_code k)]]
    | UB => [[-2]]
    end
  end end.

Definition drive_case (init : list X) (ds : DS) (attack release : Z) (ops : list eop) (obs : list (list Z))
  : list (list Z) :=
  let ga := gain_bits attack (match obs with (_ :: a :: _) :: _ => a | _ => -1 end) in
  let gr := gain_bits release (match obs with (_ :: _ :: r :: _) :: _ => r | _ => -1 end) in
  [22; ga; gr; ga; gr] :: drive (S (length ops)) init ga gr ds ops (tl obs).
End Drive.

(* float frame formats *)
Definition fstep (N : num) (gconv : f32 -> G N) (ga gr : f32) (last d : list (T N)) : res (list (T N)) :=
  Ok (map2 (env_step N (gconv ga) (gconv gr)) last d).

Inductive fdet (N : num) := FPeak (which : Z) | FRms (r : rms N).
Arguments FPeak {N}. Arguments FRms {N}.

Definition fdetect (N : num) (dec : Z -> T N) (ds : fdet N) (v : list Z) : res (list (T N) * fdet N) :=
  match ds with
  | FPeak w => Ok (detect_peak N w (map dec v), FPeak w)
  | FRms r => let* (d, r') := rms_next N r (map dec v) in Ok (d, FRms r')
  end.

Definition run_env_float (N : num) (gconv : f32 -> G N) (dec : Z -> T N) (enc : T N -> Z)
  (nch det win attack release : Z) (adapt : bool) (ops : list eop) (obs : list (list Z)) : list (list Z) :=
  let k := Z.to_nat nch in
  let ds := if det =? 3 then FRms (rms_new N k (Z.to_nat win)) else FPeak det in
  drive_case (T N) (fdet N) enc (fstep N gconv) (fdetect N dec) adapt (repeat 0 k)
    (repeat (nzero N) k) ds attack release ops obs.

(* integer frame formats, peak detectors: envelope in the integer format *)
Definition run_env_int_peak (f : ifmt) (nch det attack release : Z) (adapt : bool) (ops : list eop) (obs : list (list Z)) :=
  let of := peak_out_fmt f det in
  drive_case Z unit (fun z => z)
    (fun ga gr last d => map2M (env_step_i of ga gr) last d)
    (fun _ v => let* d := detect_peak_i f det v in Ok (d, tt))
    adapt (repeat (equil f) (Z.to_nat nch))
    (repeat (equil of) (Z.to_nat nch)) tt attack release ops obs.

(* integer frame formats, RMS detector: to_float_frame then everything in f32 *)
Definition run_env_int_rms (f : ifmt) (nch win attack release : Z) (adapt : bool) (ops : list eop) (obs : list (list Z)) :=
  let k := Z.to_nat nch in
  drive_case f32 (rms NumF32) F32.bits (fstep NumF32 (fun g => g))
    (fun r v => let* x := mapM (to_f32 f) v in rms_next NumF32 r x)
    adapt (repeat (equil f) k)
    (repeat F32.zero k) (rms_new NumF32 k (Z.to_nat win)) attack release ops obs.

Definition nchan (nch : Z) : Z := if nch =? 0 then 1 else nch.   (* 0 = bare sample as mono frame *)

Definition model_obs (c : c19case) (obs : list (list Z)) : list (list Z) :=
  match c with
  | RCase fmt _ frames => run_rect fmt frames
  | ECase fmt nch det0 win attack0 release0 mode ctor ops =>
    let k := nchan nch in
    let adapt := negb (mode =? 0) in
    (* peak detectors: the rectifier the constructed detector uses and the order of the two times *)
    let '(det, attack, release) :=
      if det0 =? 3 then (det0, attack0, release0) else peak_ctor ctor det0 attack0 release0 in
    match ifmt_of fmt with
    | Some f => if det =? 3 then run_env_int_rms f k win attack release adapt ops obs
                else run_env_int_peak f k det attack release adapt ops obs
    | None =>
      if fmt =? 12 then run_env_float NumF32 (fun g => g) F32.of_bits F32.bits k det win attack release adapt ops obs
      else run_env_float NumF64 (fun g => g) F64.of_bits F64.bits k det win attack release adapt ops obs
    end
  end.

Definition zll_eqb (a b : list (list Z)) : bool :=
  if list_eq_dec (list_eq_dec Z.eq_dec) a b then true else false.

Definition check (c : c19case * list (list Z)) : bool := zll_eqb (model_obs (fst c) (snd c)) (snd c).
Definition run_case (c : c19case * list (list Z)) : list (list Z) := model_obs (fst c) (snd c).
