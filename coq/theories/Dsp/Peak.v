(* dasp_peak/src/lib.rs: the three rectifiers, written after the source.
   Integer formats: over MInt (to_signed_sample, comparison with EQUILIBRIUM, negation that
   panics on overflow in a debug build).  Float formats: over [num] (EnvNum.v).
   Definitions only; proofs in PeakProofs.v. *)
Require Import ZArith Bool List.
From Dasp Require Import Base.Res Dsp.MInt Dsp.EnvNum.
Import ListNotations.
Open Scope Z_scope.

(* ---- integer sample formats ---- *)

(* full_wave: |s| let signed = s.to_signed_sample(); if signed < EQUILIBRIUM { -signed } else { signed } *)
Definition full_wave_i (f : ifmt) (s : Z) : res Z :=
  let* signed := to_signed f s in
  if signed <? equil (signed_fmt f) then tneg (signed_fmt f) signed else Ok signed.

(* positive_half_wave: if s < EQUILIBRIUM { EQUILIBRIUM } else { s } *)
Definition pos_half_i (f : ifmt) (s : Z) : Z := if s <? equil f then equil f else s.

(* negative_half_wave: if s > EQUILIBRIUM { EQUILIBRIUM } else { s } *)
Definition neg_half_i (f : ifmt) (s : Z) : Z := if s >? equil f then equil f else s.

(* frames: Frame::map, channel by channel *)
Definition full_wave_frame_i (f : ifmt) (fr : list Z) : res (list Z) := mapM (full_wave_i f) fr.
Definition pos_half_frame_i (f : ifmt) (fr : list Z) : list Z := map (pos_half_i f) fr.
Definition neg_half_frame_i (f : ifmt) (fr : list Z) : list Z := map (neg_half_i f) fr.

(* ---- float sample formats (to_signed_sample is the identity, EQUILIBRIUM = 0.0) ---- *)
Section Num.
Variable N : num.
Definition full_wave_n (s : T N) : T N := if nltb N s (nzero N) then nneg N s else s.
Definition pos_half_n (s : T N) : T N := if nltb N s (nzero N) then nzero N else s.
Definition neg_half_n (s : T N) : T N := if nltb N (nzero N) s then nzero N else s.
End Num.
