(* dasp_envelope/src/detect/{mod,peak,rms}.rs and dasp_signal/src/envelope.rs, written after
   the source.  Float frame formats over [num] (EnvNum.v); integer frame formats over MInt with
   the binary32 companion (every integer format used here has Float = f32).
   Definitions only; proofs in EnvelopeProofs.v. *)
Require Import Floats.SpecFloat.
Require Import ZArith Bool List.
From Flocq Require Import Core BinarySingleNaN.
From Dasp Require Import Base.Res Base.Float Dsp.MInt Dsp.EnvNum Dsp.Peak.
Import ListNotations.
Open Scope Z_scope.

Fixpoint map2 {A B C} (g : A -> B -> C) (l1 : list A) (l2 : list B) : list C :=
  match l1, l2 with
  | x :: t1, y :: t2 => g x y :: map2 g t1 t2
  | _, _ => []
  end.

(* =========================================================================
   Detector over a float sample format *)
Section Num.
Variable N : num.
Notation T := (T N).
Notation G := (G N).

(* the closure of Detector::next (to_signed_sample / to_sample are identities on floats,
   add_amp is plus, mul_amp is times):
     let gain = if l < d { attack_gain } else { release_gain };
     let diff = l.add_amp(-d.to_signed_sample());
     d.add_amp(diff.mul_amp(gain.to_sample()).to_sample())                                *)
Definition env_step (ga gr : G) (l d : T) : T :=
  let gain := if nltb N l d then ga else gr in
  let diff := nadd N l (nneg N d) in
  nadd N d (nmul N diff (of_gain N gain)).

Record detector := { last_env : list T; attack_gain : G; release_gain : G }.

(* Detector::new: last_env_frame = EQUILIBRIUM *)
Definition det_new (nch : nat) (ga gr : G) : detector :=
  {| last_env := repeat (nzero N) nch; attack_gain := ga; release_gain := gr |}.

Definition set_attack_gain (dt : detector) (g : G) : detector :=
  {| last_env := last_env dt; attack_gain := g; release_gain := release_gain dt |}.
Definition set_release_gain (dt : detector) (g : G) : detector :=
  {| last_env := last_env dt; attack_gain := attack_gain dt; release_gain := g |}.

(* Detector::next given the detected frame: zip_map, store, return *)
Definition det_next (dt : detector) (detected : list T) : list T * detector :=
  let e := map2 (env_step (attack_gain dt) (release_gain dt)) (last_env dt) detected in
  (e, {| last_env := e; attack_gain := attack_gain dt; release_gain := release_gain dt |}).

(* a run: detected frames interleaved with setter calls (gains already computed) *)
Inductive dop := DFrame (d : list T) | DSetAttack (g : G) | DSetRelease (g : G).

Definition det_op (dt : detector) (o : dop) : list (list T) * detector :=
  match o with
  | DFrame d => let (e, dt') := det_next dt d in ([e], dt')
  | DSetAttack g => ([], set_attack_gain dt g)
  | DSetRelease g => ([], set_release_gain dt g)
  end.

Fixpoint det_run (dt : detector) (ops : list dop) : list (list T) * detector :=
  match ops with
  | [] => ([], dt)
  | o :: t => let (out, dt') := det_op dt o in
              let (outs, dt'') := det_run dt' t in (out ++ outs, dt'')
  end.

(* n frames of the same detected frame *)
Fixpoint det_const (dt : detector) (d : list T) (n : nat) : detector :=
  match n with O => dt | S k => det_const (snd (det_next dt d)) d k end.

(* calc_gain: `if n_frames == 0.0 { 0.0 } else { powf32(E, -1.0 / n_frames) }`.
   powf is libm: a section variable.  [geqb0] is `== 0.0`, [gnegone_div n] is `-1.0 / n`. *)
Section Gain.
Variables (pow : G -> G -> G) (gE gzero : G) (geqb0 : G -> bool) (gnegone_div : G -> G).
Definition calc_gain (n_frames : G) : G :=
  if geqb0 n_frames then gzero else pow gE (gnegone_div n_frames).
Definition set_attack_frames (dt : detector) (n : G) := set_attack_gain dt (calc_gain n).
Definition set_release_frames (dt : detector) (n : G) := set_release_gain dt (calc_gain n).
Definition detector_new (nch : nat) (attack release : G) := det_new nch (calc_gain attack) (calc_gain release).
End Gain.

(* #[derive(Clone)] on Detector: field by field *)
Definition det_clone (dt : detector) : detector :=
  {| last_env := last_env dt; attack_gain := attack_gain dt; release_gain := release_gain dt |}.

(* Peak detection: the rectifier per channel *)
Definition detect_peak (which : Z) (fr : list T) : list T :=
  match which with
  | 0 => map (full_wave_n N) fr
  | 1 => map (pos_half_n N) fr
  | _ => map (neg_half_n N) fr
  end.

(* dasp_rms::Rms::next on a frame already converted with to_float_frame.
   window : oldest first (ring_buffer::Fixed::push replaces the oldest and returns it; C06). *)
Record rms := { window : list (list T); square_sum : list T }.

Definition rms_new (nch : nat) (len : nat) : rms :=
  {| window := repeat (repeat (nzero N) nch) len; square_sum := repeat (nzero N) nch |}.

Definition rms_next (r : rms) (fr : list T) : res (list T * rms) :=
  match window r with
  | [] => Panic PIndex      (* empty window: not generated *)
  | removed :: rest =>
    let sq := map (fun s => nmul N s s) fr in
    let sum1 := map2 (nadd N) (square_sum r) sq in
    let sum2 := map2 (fun s rm => let diff := nsub N s rm in
                                  if nltb N diff (nzero N) then nzero N else diff) sum1 removed in
    let nf := nof_len N (Z.of_nat (length (window r))) in
    Ok (map (fun s => nsqrt N (ndiv N s nf)) sum2,
        {| window := rest ++ [sq]; square_sum := sum2 |})
  end.

(* the signal adaptor DetectEnvelope::next: detector.next(signal.next()) — the same
   function of the source frames; [det_run] over the detected frames is its model. *)
End Num.

Arguments DFrame {N}. Arguments DSetAttack {N}. Arguments DSetRelease {N}.
Arguments last_env {N}. Arguments attack_gain {N}. Arguments release_gain {N}.

(* =========================================================================
   Constructors of a peak detector (detect/peak.rs).  A rectifier is its code (0 FullWave,
   1 PositiveHalfWave, 2 NegativeHalfWave); `Peak<R>` wraps the rectifier (`impl From<R> for Peak<R>`),
   `Detect for Peak<R>` is `self.rectifier.rectify(frame)`.  A constructed peak detector is the
   triple (rectifier code used by detect, attack time, release time) handed to Detector::new. *)
Definition peak_from (rectifier : Z) : Z := rectifier.                      (* Peak { rectifier } *)
Definition peak_full_wave : Z := peak_from 0.                               (* peak::FullWave.into() *)
Definition peak_positive_half_wave : Z := peak_from 1.
Definition peak_negative_half_wave : Z := peak_from 2.
(* which: 0 Detector::peak, 1 Detector::peak_positive_half_wave, 2 Detector::peak_negative_half_wave *)
Definition peak_ctor_named {G} (which : Z) (attack release : G) : Z * G * G :=
  (match which with 0 => peak_full_wave | 1 => peak_positive_half_wave | _ => peak_negative_half_wave end,
   attack, release).
(* Detector::peak_from_rectifier(rectifier, attack_frames, release_frames):
   `let peak = rectifier.into(); Self::new(peak, attack_frames, release_frames)` *)
Definition peak_ctor_from_rectifier {G} (rectifier : Z) (attack release : G) : Z * G * G :=
  (peak_from rectifier, attack, release).
(* how the correspondence cases construct the detector: 0 the named constructor, 1 peak_from_rectifier,
   2 Detector::new(Peak::from(rectifier), ..) *)
Definition peak_ctor {G} (ctor which : Z) (attack release : G) : Z * G * G :=
  match ctor with
  | 0 => peak_ctor_named which attack release
  | 1 => peak_ctor_from_rectifier which attack release
  | _ => (peak_from which, attack, release)
  end.

(* =========================================================================
   Detector over an integer sample format whose Float is f32 (i8 i16 u8 u16).
   [f] is the format of the detected/envelope samples (D::Output::Sample). *)

Definition pow2f (k : Z) : f32 := F32.of_Z (2 ^ k).

(* s as f32 / 2^(bits-1).0  for the signed format [sf] *)
Definition signed_to_f32 (sf : ifmt) (s : Z) : f32 := F32.div (F32.of_Z s) (pow2f (bits sf - 1)).
(* (x * 2^(bits-1).0) as iN : saturating cast *)
Definition f32_to_signed (sf : ifmt) (x : f32) : Z :=
  F32.to_Z_sat (imin sf) (imax sf) (F32.mul x (pow2f (bits sf - 1))).

(* conv.rs i8::to_u8 / i16::to_u16:
   if s < 0 { (s + MAXs + 1) as uN } else { (s as uN) + 2^(N-1) } *)
Definition from_signed (f : ifmt) (s : Z) : res Z :=
  match f with
  | U8 | U16 =>
    let sf := signed_fmt f in
    if s <? 0 then let* a := chk sf (s + imax sf) in let* b := chk sf (a + 1) in Ok (wrap f b)
    else chk f (wrap f s + equil f)
  | _ => Ok s
  end.

Definition to_f32 (f : ifmt) (s : Z) : res f32 :=
  let* sg := to_signed f s in Ok (signed_to_f32 (signed_fmt f) sg).
Definition from_f32 (f : ifmt) (x : f32) : res Z := from_signed f (f32_to_signed (signed_fmt f) x).

(* Sample::add_amp: (self.to_signed_sample() + amp).to_sample() *)
Definition add_amp_i (f : ifmt) (s amp : Z) : res Z :=
  let* ss := to_signed f s in
  let* r := tadd (signed_fmt f) ss amp in
  from_signed f r.

(* Sample::mul_amp: (self.to_float_sample() * amp).to_sample() *)
Definition mul_amp_i (f : ifmt) (s : Z) (amp : f32) : res Z :=
  let* sf := to_f32 f s in from_f32 f (F32.mul sf amp).

Definition env_step_i (f : ifmt) (ga gr : f32) (l d : Z) : res Z :=
  let gain := if l <? d then ga else gr in
  let* ds := to_signed f d in
  let* nd := tneg (signed_fmt f) ds in
  let* diff := add_amp_i f l nd in
  let* m := mul_amp_i f diff gain in
  let* ms := to_signed f m in
  add_amp_i f d ms.

Record idetector := { ilast : list Z; iattack : f32; irelease : f32 }.

Definition idet_new (f : ifmt) (nch : nat) (ga gr : f32) : idetector :=
  {| ilast := repeat (equil f) nch; iattack := ga; irelease := gr |}.

Definition idet_next (f : ifmt) (dt : idetector) (detected : list Z) : res (list Z * idetector) :=
  let* e := map2M (env_step_i f (iattack dt) (irelease dt)) (ilast dt) detected in
  Ok (e, {| ilast := e; iattack := iattack dt; irelease := irelease dt |}).

(* peak detection on integer frames; the output format is [signed_fmt f] for the full wave *)
Definition detect_peak_i (f : ifmt) (which : Z) (fr : list Z) : res (list Z) :=
  match which with
  | 0 => full_wave_frame_i f fr
  | 1 => Ok (pos_half_frame_i f fr)
  | _ => Ok (neg_half_frame_i f fr)
  end.
Definition peak_out_fmt (f : ifmt) (which : Z) : ifmt := match which with 0 => signed_fmt f | _ => f end.

(* a run of the peak detector over integer frames (gains fixed): detect, then update *)
Fixpoint idet_run (f : ifmt) (which : Z) (dt : idetector) (frames : list (list Z)) : res (list (list Z)) :=
  match frames with
  | [] => Ok []
  | fr :: t =>
    let* d := detect_peak_i f which fr in
    let* (e, dt') := idet_next (peak_out_fmt f which) dt d in
    let* r := idet_run f which dt' t in
    Ok (e :: r)
  end.

(* Known class K2 (DESIGN section 7): integer frame format, full-wave (0) or negative-half-wave (2)
   peak detector, some channel of some input frame at the format's minimum amplitude. *)
Definition KnownClass_K2 (f : ifmt) (which : Z) (frames : list (list Z)) : Prop :=
  (which = 0 \/ which = 2) /\ exists fr, In fr frames /\ In (imin f) fr.
