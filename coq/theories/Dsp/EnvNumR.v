(* The real-number instance of [num]: exact arithmetic, the instance the exact clauses of
   C19 are proved on. *)
Require Import Floats.SpecFloat.
Require Import ZArith Reals.
From Flocq Require Import Core.
From Dasp Require Import Dsp.EnvNum.

Definition NumR : num := {|
  T := R; G := R; of_gain := fun g => g;
  nadd := Rplus; nsub := Rminus; nmul := Rmult; ndiv := Rdiv; nneg := Ropp; nsqrt := sqrt;
  nltb := Rlt_bool; nzero := 0%R; nof_len := IZR |}.
