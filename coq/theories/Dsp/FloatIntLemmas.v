(* Flocq facts about the int <-> float sample conversions used by the integer envelope
   follower: `z as f / 2^k.0` is exact for |z| <= 2^k < 2^prec, multiplying by a gain in [0,1]
   does not increase the magnitude nor change the sign, `* 2^k.0` is exact, `as iN` truncates. *)
Require Import Floats.SpecFloat.
Require Import ZArith Bool Lia Reals Lra.
From Flocq Require Import Core BinarySingleNaN.
From Dasp Require Import Base.Float.
Open Scope Z_scope.

Section G.
Variables prec emax : Z.
Context (prec_gt_0_ : Prec_gt_0 prec).
Context (prec_lt_emax_ : Prec_lt_emax prec emax).
Notation bf := (BinarySingleNaN.binary_float prec emax).
Let emin := (3 - emax - prec)%Z.
Let fexp := FLT_exp emin prec.
Notation rnd := (round radix2 fexp ZnearestE).
Notation of_int := (gof_Z prec emax prec_gt_0_ prec_lt_emax_).
Notation fmul := (gmul prec emax prec_gt_0_ prec_lt_emax_).
Notation fdiv := (gdiv prec emax prec_gt_0_ prec_lt_emax_).

Local Instance fexp_valid' : Valid_exp fexp := @fexp_correct prec emax prec_gt_0_.

Lemma pl : 0 < prec < emax.
Proof. pose proof prec_lt_emax_ as H. unfold Prec_lt_emax in H. pose proof prec_gt_0_ as P. unfold Prec_gt_0 in P. lia. Qed.

Lemma fmt_F2R (m e : Z) : Z.abs m < 2 ^ prec -> emin <= e -> generic_format radix2 fexp (F2R (Float radix2 m e)).
Proof. intros Hm He. apply generic_format_FLT. now apply (FLT_spec radix2 emin prec _ (Float radix2 m e)). Qed.

Lemma IZR_abs_lt_bpow (z e : Z) : 0 <= e -> Z.abs z < 2 ^ e -> (Rabs (IZR z) < bpow radix2 e)%R.
Proof.
  intros He H. rewrite <- abs_IZR. change 2 with (radix_val radix2) in H.
  rewrite <- IZR_Zpower by exact He. now apply IZR_lt.
Qed.

Lemma of_int_exact (z : Z) : Z.abs z < 2 ^ prec ->
  B2R (of_int z) = IZR z /\ is_finite (of_int z) = true.
Proof.
  intros Hz. unfold gof_Z.
  pose proof (@binary_normalize_correct prec emax prec_gt_0_ prec_lt_emax_ mode_NE z 0 false) as H.
  cbv zeta in H.
  change (round radix2 (SpecFloat.fexp prec emax) (round_mode mode_NE)) with rnd in H.
  assert (E : F2R (Float radix2 z 0) = IZR z) by (unfold F2R; simpl; ring).
  assert (Fz : generic_format radix2 fexp (IZR z)).
  { rewrite <- E. apply fmt_F2R; [exact Hz|]. unfold emin. pose proof pl. lia. }
  rewrite E, round_generic in H by (auto with typeclass_instances).
  rewrite Rlt_bool_true in H.
  - destruct H as (H1 & H2 & _). split; assumption.
  - pose proof pl as PL. eapply Rlt_trans; [apply IZR_abs_lt_bpow with (e := prec); [lia | exact Hz]|]. apply bpow_lt. lia.
Qed.

Lemma pow2_exact (k : Z) : 0 <= k < prec ->
  B2R (of_int (2 ^ k)) = bpow radix2 k /\ is_finite (of_int (2 ^ k)) = true.
Proof.
  intros Hk. destruct (of_int_exact (2 ^ k)) as [H1 H2].
  { rewrite Z.abs_eq by (apply Z.pow_nonneg; lia). apply Z.pow_lt_mono_r; lia. }
  split; [|exact H2]. rewrite H1. change (IZR (2 ^ k)) with (IZR (radix2 ^ k)). now rewrite IZR_Zpower by lia.
Qed.

(* `z as f / 2^k.0` *)
Lemma div_pow2_exact (z k : Z) : 0 <= k < prec -> Z.abs z <= 2 ^ k ->
  B2R (fdiv (of_int z) (of_int (2 ^ k))) = (IZR z / bpow radix2 k)%R /\
  is_finite (fdiv (of_int z) (of_int (2 ^ k))) = true.
Proof.
  intros Hk Hz.
  assert (Hz' : Z.abs z < 2 ^ prec).
  { eapply Z.le_lt_trans; [exact Hz|]. apply Z.pow_lt_mono_r; lia. }
  destruct (of_int_exact z Hz') as [Hx Fx]. destruct (pow2_exact k Hk) as [Hy Fy].
  pose proof (@Bdiv_correct prec emax prec_gt_0_ prec_lt_emax_ mode_NE (of_int z) (of_int (2 ^ k))) as H.
  change (round radix2 (SpecFloat.fexp prec emax) (round_mode mode_NE)) with rnd in H.
  rewrite Hx, Hy in H.
  assert (Hne : bpow radix2 k <> 0%R) by (apply Rgt_not_eq, bpow_gt_0). specialize (H Hne).
  assert (E : (IZR z / bpow radix2 k)%R = F2R (Float radix2 z (- k))).
  { unfold F2R, Rdiv. simpl Fnum. simpl Fexp. now rewrite bpow_opp. }
  assert (Fq : generic_format radix2 fexp (IZR z / bpow radix2 k)).
  { rewrite E. apply fmt_F2R; [exact Hz'|]. unfold emin. pose proof pl. lia. }
  rewrite round_generic in H by (auto with typeclass_instances).
  rewrite Rlt_bool_true in H.
  - destruct H as (H1 & H2 & _). split; [exact H1 | unfold gdiv; rewrite H2; exact Fx].
  - unfold Rdiv. rewrite Rabs_mult, (Rabs_pos_eq (/ _)) by (left; apply Rinv_0_lt_compat, bpow_gt_0).
    apply Rle_lt_trans with (bpow radix2 k * / bpow radix2 k)%R.
    + apply Rmult_le_compat_r; [left; apply Rinv_0_lt_compat, bpow_gt_0|].
      rewrite <- abs_IZR. change 2 with (radix_val radix2) in Hz. rewrite <- IZR_Zpower by lia. now apply IZR_le.
    + rewrite Rinv_r by exact Hne. change 1%R with (bpow radix2 0). apply bpow_lt. pose proof pl. lia.
Qed.

(* x * g with 0 <= g <= 1: rounded product, no larger in magnitude, same side of 0 *)
Lemma mul_gain (x g : bf) : is_finite x = true -> is_finite g = true -> (0 <= B2R g <= 1)%R ->
  is_finite (fmul x g) = true /\ B2R (fmul x g) = rnd (B2R x * B2R g) /\
  ((0 <= B2R x)%R -> (0 <= B2R (fmul x g) <= B2R x)%R) /\
  ((B2R x <= 0)%R -> (B2R x <= B2R (fmul x g) <= 0)%R).
Proof.
  intros Fx Fg Hg.
  assert (Fmt : generic_format radix2 fexp (B2R x)) by apply generic_format_B2R.
  assert (Rx : rnd (B2R x) = B2R x) by (apply round_generic; auto with typeclass_instances).
  assert (Bnd : (Rabs (rnd (B2R x * B2R g)) <= Rabs (B2R x))%R).
  { apply abs_round_le_generic; auto with typeclass_instances.
    - now apply generic_format_abs.
    - rewrite Rabs_mult, (Rabs_pos_eq (B2R g)) by lra. pose proof (Rabs_pos (B2R x)). nra. }
  pose proof (@Bmult_correct prec emax prec_gt_0_ prec_lt_emax_ mode_NE x g) as H.
  change (round radix2 (SpecFloat.fexp prec emax) (round_mode mode_NE)) with rnd in H.
  rewrite Rlt_bool_true in H by (eapply Rle_lt_trans; [exact Bnd | apply abs_B2R_lt_emax]).
  destruct H as (H1 & H2 & _). rewrite Fx, Fg in H2. unfold gmul. split; [exact H2|]. split; [exact H1|].
  rewrite H1. split; intros Sx.
  - split.
    + rewrite <- (round_0 radix2 fexp ZnearestE). apply round_le; auto with typeclass_instances. nra.
    + rewrite <- Rx at 2. apply round_le; auto with typeclass_instances. nra.
  - split.
    + rewrite <- Rx at 1. apply round_le; auto with typeclass_instances. nra.
    + rewrite <- (round_0 radix2 fexp ZnearestE). apply round_le; auto with typeclass_instances. nra.
Qed.

(* x * 2^k.0 is exact (scaling up never loses bits) when it cannot overflow *)
Lemma mul_pow2_exact (x : bf) (k : Z) : is_finite x = true -> 0 <= k < prec -> (Rabs (B2R x) <= 1)%R ->
  B2R (fmul x (of_int (2 ^ k))) = (B2R x * bpow radix2 k)%R /\ is_finite (fmul x (of_int (2 ^ k))) = true.
Proof.
  intros Fx Hk Hx. destruct (pow2_exact k Hk) as [Hy Fy].
  pose proof (@Bmult_correct prec emax prec_gt_0_ prec_lt_emax_ mode_NE x (of_int (2 ^ k))) as H.
  change (round radix2 (SpecFloat.fexp prec emax) (round_mode mode_NE)) with rnd in H.
  rewrite Hy in H.
  assert (Fmt : generic_format radix2 fexp (B2R x * bpow radix2 k)).
  { destruct (@FLT_format_generic radix2 emin prec prec_gt_0_ (B2R x) (generic_format_B2R prec emax x)) as [f E Hm He].
    rewrite E. unfold F2R. rewrite Rmult_assoc, <- bpow_plus.
    change (IZR (Fnum f) * bpow radix2 (Fexp f + k))%R with (F2R (Float radix2 (Fnum f) (Fexp f + k))).
    apply fmt_F2R; [exact Hm | lia]. }
  rewrite round_generic in H by (auto with typeclass_instances).
  rewrite Rlt_bool_true in H.
  - destruct H as (H1 & H2 & _). rewrite Fx, Fy in H2. unfold gmul. split; assumption.
  - rewrite Rabs_mult, (Rabs_pos_eq (bpow radix2 k)) by apply bpow_ge_0.
    apply Rle_lt_trans with (1 * bpow radix2 k)%R.
    + apply Rmult_le_compat_r; [apply bpow_ge_0 | exact Hx].
    + rewrite Rmult_1_l. apply bpow_lt. pose proof pl. lia.
Qed.

(* `x as iN` on a finite value *)
Lemma to_Z_sat_finite (lo hi : Z) (x : bf) : is_finite x = true ->
  gto_Z_sat prec emax lo hi x = Z.max lo (Z.min hi (Ztrunc (B2R x))).
Proof.
  intros Fx.
  assert (E : BinarySingleNaN.Btrunc x = Ztrunc (B2R x)).
  { apply eq_IZR. rewrite (@Btrunc_correct prec emax prec_lt_emax_ x). apply round_FIX_IZR. }
  destruct x; try discriminate; unfold gto_Z_sat; now rewrite E.
Qed.
End G.
