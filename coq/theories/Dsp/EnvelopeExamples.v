(* Non-vacuity examples and witnesses for C19: concrete inputs meeting each theorem's
   hypotheses, the K2 witnesses, and the IEEE counter-example to exact `between`. *)
Require Import Floats.SpecFloat.
Require Import ZArith Bool List Lia Reals Lra.
From Flocq Require Import Core BinarySingleNaN.
From Dasp Require Import Base.Res Base.Float Dsp.MInt Dsp.EnvNum Dsp.EnvNumR Dsp.Peak Dsp.Envelope
  Dsp.PeakProofs Dsp.EnvelopeProofs Dsp.EnvelopeIEEE Dsp.EnvelopeIntProofs Dsp.EnvelopeRun.
Import ListNotations.
Open Scope Z_scope.

(* ---- rectifiers, integer formats ---- *)
Example ex_full_wave_u24 : full_wave_i U24 1 = Ok 2147483392 /\ signed_amp U24 1 = -2147483392.
Proof. split; reflexivity. Qed.
Example ex_full_wave_u8_frame :
  Forall (fun s => in_range U8 s /\ in_range (signed_fmt U8) (- signed_amp U8 s)) [1; 128; 255] /\
  full_wave_frame_i U8 [1; 128; 255] = Ok [127; 0; 127] /\
  pos_half_frame_i U8 [1; 128; 255] = [128; 128; 255] /\ neg_half_frame_i U8 [1; 128; 255] = [1; 128; 128].
Proof.
  split; [|repeat split]. repeat constructor; unfold in_range; cbn; lia.
Qed.
(* the excluded samples really are excluded: the minimum amplitude panics in a debug build *)
Example ex_full_wave_min : full_wave_i I8 (-128) = Panic POverflow /\ full_wave_i U8 0 = Panic POverflow /\
  full_wave_i I24 (-8388608) = Panic POverflow /\ full_wave_i U24 0 = Panic POverflow /\
  full_wave_i U64 0 = Panic POverflow.
Proof. repeat split. Qed.

(* ---- rectifiers, float formats: -1.5f32 ---- *)
Example ex_rect_f32 :
  let x := F32.of_bits 3217031168 in
  is_finite x = true /\ F32.bits (full_wave_n NumF32 x) = 1069547520 /\
  F32.bits (pos_half_n NumF32 x) = 0 /\ F32.bits (neg_half_n NumF32 x) = 3217031168.
Proof. vm_compute. repeat split. Qed.

(* ---- one-pole update on the reals ---- *)
Open Scope R_scope.
Example ex_one_pole_attack : env_step NumR (/ 2) (/ 4) 0 1 = / 2.
Proof. destruct (env_step_attack_iff (/ 2) (/ 4) 0 1) as [A _]. rewrite A by lra. lra. Qed.
Example ex_one_pole_release : env_step NumR (/ 2) (/ 4) 1 0 = / 4.
Proof. destruct (env_step_attack_iff (/ 2) (/ 4) 1 0) as [_ B]. rewrite B by lra. lra. Qed.
Example ex_const_two_channels :
  let dt := Build_detector NumR [0; 2] (/ 2) (/ 4) in
  last_env (det_const NumR dt [1; 1] 2) = [1 + (/ 2) ^ 2 * (0 - 1); 1 + (/ 4) ^ 2 * (2 - 1)].
Proof.
  intros dt.
  assert (Ha : 0 <= attack_gain dt) by (cbn; lra). assert (Hr : 0 <= release_gain dt) by (cbn; lra).
  assert (HL : length (last_env dt) = length [1; 1]) by reflexivity.
  destruct (det_const_frames dt [1; 1] 2 Ha Hr HL) as (E & _).
  rewrite E. cbn [map2 last_env attack_gain release_gain dt].
  rewrite gsel_attack by lra. rewrite gsel_release by lra. reflexivity.
Qed.
Example ex_gain_exp : 0 <= calc_gain_R Rpower (exp 1) 10 <= 1 /\ calc_gain_R Rpower (exp 1) 10 = exp (- 1 / 10).
Proof. split; [apply calc_gain_range; [apply exp_pow_range | lra] | apply calc_gain_exp; lra]. Qed.
Close Scope R_scope.

(* ---- IEEE companion: hypotheses are satisfiable; exact `between` is refuted ---- *)
Definition f32_le1 (x : f32) : bool := F32.leb F32.zero x && F32.leb x F32.one.

(* gain = 1.0f32 (3.4e7 frames: powf rounds to 1.0), l = 0.11530567, d = 0.852: the output is one
   ulp BELOW l although d > l: outside [min l d, max l d] *)
Example between_ieee_refuted :
  let g := F32.of_bits 1065353216 in let l := F32.of_bits 1038886241 in let d := F32.of_bits 1062870188 in
  let e := env_step NumF32 g g l d in
  f32_le1 g = true /\ is_finite l = true /\ is_finite d = true /\
  F32.ltb l d = true /\ F32.ltb e l = true /\ F32.bits e = 1038886240.
Proof. vm_compute. repeat split. Qed.

(* ---- known class K2 ---- *)
Definition e_inv : f32 := F32.of_bits 1052531378.   (* powf(E, -1/1) *)

(* negative half wave: the detected value is MIN and -d overflows *)
Example c19_k2_refuted_neg_half :
  KnownClass_K2 I8 2 [[-128]] /\
  detect_peak_i I8 2 [-128] = Ok [-128] /\
  idet_next (peak_out_fmt I8 2) (idet_new (peak_out_fmt I8 2) 1 e_inv e_inv) [-128] = Panic POverflow.
Proof.
  split; [|split]; [| reflexivity | vm_compute; reflexivity].
  split; [now right|]. exists [-128]. split; left; reflexivity.
Qed.

(* full wave: the rectifier's own negation overflows (u8 sample 0 = amplitude -128) *)
Example c19_k2_refuted_full_wave :
  KnownClass_K2 U8 0 [[0]] /\ detect_peak_i U8 0 [0] = Panic POverflow.
Proof.
  split; [|reflexivity]. split; [now left|]. exists [0]. split; left; reflexivity.
Qed.

(* an ordinary integer step for comparison: i8, l = 0, d = -127, gain e^-1: -127 + trunc(0.3679*127) = -81 *)
Example ex_int_step : env_step_i I8 e_inv e_inv 0 (-127) = Ok (-81).
Proof. vm_compute. reflexivity. Qed.

(* the run interface on a tiny case (the first doc-style frame) *)
Example ex_run_check :
  check (ECase 0 1 2 0 1065353216 1065353216 0 0 [EFrame [-127]; EFrame [-100]],
         [[22; 1052531378; 1052531378; 1052531378; 1052531378]; [20; -81; -127]; [20; -94; -100]]) = true.
Proof. vm_compute. reflexivity. Qed.

(* the same detector constructed by Detector::peak_from_rectifier(NegativeHalfWave, ..) (ctor 1) and cloned
   between the two frames; and the check REJECTS an observation in which the constructor used another
   rectifier (positive half wave: detected 0 instead of -127) *)
Example ex_run_check_ctor :
  check (ECase 0 1 2 0 1065353216 1065353216 0 1 [EFrame [-127]; EClone; EFrame [-100]],
         [[22; 1052531378; 1052531378; 1052531378; 1052531378]; [20; -81; -127]; [26]; [20; -94; -100]]) = true /\
  check (ECase 0 1 2 0 1065353216 1065353216 0 1 [EFrame [-127]],
         [[22; 1052531378; 1052531378; 1052531378; 1052531378]; [20; 0; 0]]) = false.
Proof. vm_compute. split; reflexivity. Qed.

(* the integer run theorem applies to a concrete history (negative half wave, i8, two channels,
   rising then falling, no sample at the minimum) and the run is the expected one *)
Example ex_int_run :
  let dt := idet_new (peak_out_fmt I8 2) 2 e_inv e_inv in
  let frames := [[-127; -3]; [-100; -90]; [5; -120]] in
  f32_unit e_inv = true /\ ~ KnownClass_K2 I8 2 frames /\
  Forall (fun fr => Forall (in_range I8) fr /\ length fr = length (ilast dt)) frames /\
  idet_run I8 2 dt frames = Ok [[-81; -2]; [-94; -58]; [-34; -98]].
Proof.
  cbv zeta. split; [vm_compute; reflexivity|]. split; [|split].
  - intros [_ (fr & I & M)]. cbn in I. destruct I as [<-|[<-|[<-|[]]]]; cbn in M; intuition lia.
  - repeat constructor; unfold in_range; cbn; lia.
  - vm_compute. reflexivity.
Qed.
