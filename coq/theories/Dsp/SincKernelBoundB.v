(* |K d x - 1| <= 1/100 for 0 < x < 1, depths 9, 10, 11 (Interval; see SincKernelTac.v).  Split over several
   files only so that they check in parallel. *)
Require Import Reals Lra.
From Interval Require Import Tactic.
From Dasp Require Import Dsp.SincConst Dsp.SincKernelTac.
Open Scope R_scope.

Lemma K_bound_9 : forall x, 0 < x < 1 -> Rabs (K 9 x 0 9 - 1) <= 1 / 100.
Proof. kbound. Qed.

Lemma K_bound_10 : forall x, 0 < x < 1 -> Rabs (K 10 x 0 10 - 1) <= 1 / 100.
Proof. kbound. Qed.

Lemma K_bound_11 : forall x, 0 < x < 1 -> Rabs (K 11 x 0 11 - 1) <= 1 / 100.
Proof. kbound. Qed.

