(* Proofs about the rectifier models (Peak.v): integer formats and IEEE formats. *)
Require Import Floats.SpecFloat.
Require Import ZArith Bool List Lia Reals Lra.
From Flocq Require Import Core BinarySingleNaN.
From Dasp Require Import Base.Res Base.Float Dsp.MInt Dsp.EnvNum Dsp.Peak.
Import ListNotations.
Open Scope Z_scope.

(* ---------------- machine-integer facts ---------------- *)

Lemma in_rangeb_spec f z : in_rangeb f z = true <-> in_range f z.
Proof. unfold in_rangeb, in_range. rewrite andb_true_iff, !Z.leb_le. tauto. Qed.

Lemma chk_ok f z : in_range f z -> chk f z = Ok z.
Proof. intros H. unfold chk. apply in_rangeb_spec in H. now rewrite H. Qed.

Lemma chk_panic f z : ~ in_range f z -> chk f z = Panic POverflow.
Proof.
  intros H. unfold chk. destruct (in_rangeb f z) eqn:E; [|reflexivity].
  apply in_rangeb_spec in E. contradiction.
Qed.

Lemma in_range_rep f z : in_range f z -> in_range (rep f) z.
Proof. unfold in_range; destruct f; cbn; lia. Qed.

Lemma tchk_ok f z : in_range f z -> tchk f z = Ok z.
Proof. intros H. unfold tchk. rewrite (chk_ok _ _ (in_range_rep _ _ H)). cbn. now apply chk_ok. Qed.

Lemma tchk_panic f z : ~ in_range f z -> tchk f z = Panic POverflow.
Proof.
  intros H. unfold tchk, chk. destruct (in_rangeb (rep f) z); cbn; [|reflexivity].
  destruct (in_rangeb f z) eqn:E; [|reflexivity]. apply in_rangeb_spec in E. contradiction.
Qed.

Lemma wrap_id f z : in_range f z -> wrap f z = z.
Proof.
  unfold in_range, wrap, imin, imax. intros H.
  assert (P : 0 < 2 ^ (bits f - 1)) by (apply Z.pow_pos_nonneg; destruct f; cbn; lia).
  assert (E : 2 ^ bits f = 2 * 2 ^ (bits f - 1)).
  { rewrite <- Z.pow_succ_r by (destruct f; cbn; lia). f_equal. lia. }
  destruct (is_signed f).
  - rewrite E. replace (2 * 2 ^ (bits f - 1) / 2) with (2 ^ (bits f - 1)) by (rewrite Z.mul_comm, Z.div_mul; lia).
    rewrite Z.mod_small by lia. lia.
  - apply Z.mod_small. lia.
Qed.

(* to_signed_sample computes the amplitude about equilibrium, scaled into the signed format,
   without panic, for every in-range sample of every format *)
Lemma to_signed_ok f s : in_range f s ->
  to_signed f s = Ok (signed_amp f s) /\ in_range (signed_fmt f) (signed_amp f s).
Proof.
  intros H. unfold signed_amp.
  destruct f; unfold in_range, imin, imax, equil in *; cbn [bits is_signed signed_fmt to_signed] in *;
    try (split; [f_equal; cbn; lia | cbn; lia]).
  - (* U8 *) destruct (Z.ltb_spec s 128).
    + rewrite (wrap_id I8) by (unfold in_range; cbn; cbn in H; lia).
      rewrite chk_ok by (unfold in_range; cbn; cbn in H; lia). cbn [bind].
      rewrite chk_ok by (unfold in_range; cbn; cbn in H; lia). split; [f_equal; cbn; lia | cbn; cbn in H; lia].
    + rewrite chk_ok by (unfold in_range; cbn; cbn in H; lia). cbn [bind].
      rewrite (wrap_id I8) by (unfold in_range; cbn; cbn in H; lia). split; [f_equal; cbn; lia | cbn; cbn in H; lia].
  - (* U16 *) destruct (Z.ltb_spec s 32768).
    + rewrite (wrap_id I16) by (unfold in_range; cbn; cbn in H; lia).
      rewrite chk_ok by (unfold in_range; cbn; cbn in H; lia). cbn [bind].
      rewrite chk_ok by (unfold in_range; cbn; cbn in H; lia). split; [f_equal; cbn; lia | cbn; cbn in H; lia].
    + rewrite chk_ok by (unfold in_range; cbn; cbn in H; lia). cbn [bind].
      rewrite (wrap_id I16) by (unfold in_range; cbn; cbn in H; lia). split; [f_equal; cbn; lia | cbn; cbn in H; lia].
  - (* U24 *)
    rewrite chk_ok by (unfold in_range; cbn; cbn in H; lia). cbn [bind].
    rewrite (wrap_id I32) by (unfold in_range; cbn; cbn in H; lia). split; [f_equal; cbn; lia | cbn; cbn in H; lia].
  - (* U32 *) destruct (Z.ltb_spec s 2147483648).
    + rewrite (wrap_id I32) by (unfold in_range; cbn; cbn in H; lia).
      rewrite chk_ok by (unfold in_range; cbn; cbn in H; lia). cbn [bind].
      rewrite chk_ok by (unfold in_range; cbn; cbn in H; lia). split; [f_equal; cbn; lia | cbn; cbn in H; lia].
    + rewrite chk_ok by (unfold in_range; cbn; cbn in H; lia). cbn [bind].
      rewrite (wrap_id I32) by (unfold in_range; cbn; cbn in H; lia). split; [f_equal; cbn; lia | cbn; cbn in H; lia].
  - (* U48 *)
    rewrite chk_ok by (unfold in_range; cbn; cbn in H; lia). cbn [bind].
    rewrite (wrap_id I64) by (unfold in_range; cbn; cbn in H; lia). split; [f_equal; cbn; lia | cbn; cbn in H; lia].
  - (* U64 *) destruct (Z.ltb_spec s 9223372036854775808).
    + rewrite (wrap_id I64) by (unfold in_range; cbn; cbn in H; lia).
      rewrite chk_ok by (unfold in_range; cbn; cbn in H; lia). cbn [bind].
      rewrite chk_ok by (unfold in_range; cbn; cbn in H; lia). split; [f_equal; cbn; lia | cbn; cbn in H; lia].
    + rewrite chk_ok by (unfold in_range; cbn; cbn in H; lia). cbn [bind].
      rewrite (wrap_id I64) by (unfold in_range; cbn; cbn in H; lia). split; [f_equal; cbn; lia | cbn; cbn in H; lia].
Qed.

Lemma equil_signed_fmt f : equil (signed_fmt f) = 0.
Proof. destruct f; reflexivity. Qed.

(* ---------------- the rectifier clause, integer formats ---------------- *)

Theorem full_wave_i_spec f s :
  in_range f s -> in_range (signed_fmt f) (- signed_amp f s) ->
  full_wave_i f s = Ok (Z.abs (signed_amp f s)).
Proof.
  intros H Hn. unfold full_wave_i. destruct (to_signed_ok f s H) as [E R]. rewrite E. cbn [bind].
  rewrite equil_signed_fmt. destruct (Z.ltb_spec (signed_amp f s) 0).
  - unfold tneg. rewrite tchk_ok by exact Hn. f_equal. lia.
  - f_equal. lia.
Qed.

(* ... and exactly the excluded samples panic (debug build) *)
Theorem full_wave_i_unrepresentable f s :
  in_range f s -> ~ in_range (signed_fmt f) (- signed_amp f s) -> full_wave_i f s = Panic POverflow.
Proof.
  intros H Hn. unfold full_wave_i. destruct (to_signed_ok f s H) as [E R]. rewrite E. cbn [bind].
  rewrite equil_signed_fmt. destruct (Z.ltb_spec (signed_amp f s) 0).
  - unfold tneg. now apply tchk_panic.
  - exfalso. apply Hn. clear Hn E. unfold in_range, imin, imax in *. destruct f; cbn in *; lia.
Qed.

Theorem pos_half_i_spec f s : pos_half_i f s = Z.max s (equil f).
Proof. unfold pos_half_i. destruct (Z.ltb_spec s (equil f)); lia. Qed.

Theorem neg_half_i_spec f s : neg_half_i f s = Z.min s (equil f).
Proof. unfold neg_half_i. destruct (Z.gtb_spec s (equil f)); lia. Qed.

(* per channel *)
Theorem rectifiers_frame_i f (fr : list Z) :
  Forall (fun s => in_range f s /\ in_range (signed_fmt f) (- signed_amp f s)) fr ->
  full_wave_frame_i f fr = Ok (map (fun s => Z.abs (signed_amp f s)) fr) /\
  pos_half_frame_i f fr = map (fun s => Z.max s (equil f)) fr /\
  neg_half_frame_i f fr = map (fun s => Z.min s (equil f)) fr.
Proof.
  intros H. split; [|split].
  - unfold full_wave_frame_i. induction H as [|s t [Hs Hn] Ht IH]; [reflexivity|].
    cbn [mapM map]. rewrite (full_wave_i_spec f s Hs Hn). cbn [bind]. rewrite IH. reflexivity.
  - unfold pos_half_frame_i. apply map_ext. intros. apply pos_half_i_spec.
  - unfold neg_half_frame_i. apply map_ext. intros. apply neg_half_i_spec.
Qed.

(* the half-wave rectifiers need no hypothesis at all *)
Theorem half_wave_frame_i f (fr : list Z) :
  pos_half_frame_i f fr = map (fun s => Z.max s (equil f)) fr /\
  neg_half_frame_i f fr = map (fun s => Z.min s (equil f)) fr.
Proof.
  split; [unfold pos_half_frame_i | unfold neg_half_frame_i]; apply map_ext; intros;
    [apply pos_half_i_spec | apply neg_half_i_spec].
Qed.

(* ---------------- IEEE formats ---------------- *)
Section Generic.
Variables prec emax : Z.
Context (prec_gt_0_ : Prec_gt_0 prec).
Context (prec_lt_emax_ : Prec_lt_emax prec emax).
Notation bf := (BinarySingleNaN.binary_float prec emax).
Notation z0 := (B754_zero false : bf).

Definition gfull (x : bf) : bf := if glt prec emax x z0 then gneg prec emax x else x.
Definition gpos (x : bf) : bf := if glt prec emax x z0 then z0 else x.
Definition gnegh (x : bf) : bf := if glt prec emax z0 x then z0 else x.

Lemma glt_R (x y : bf) : is_finite x = true -> is_finite y = true ->
  glt prec emax x y = Rlt_bool (B2R x) (B2R y).
Proof.
  intros Fx Fy. unfold glt, gcmp. rewrite Bcompare_correct by assumption.
  unfold Rlt_bool. destruct (Rcompare (B2R x) (B2R y)); reflexivity.
Qed.

Lemma gfull_R (x : bf) : is_finite x = true ->
  B2R (gfull x) = Rabs (B2R x) /\ is_finite (gfull x) = true.
Proof.
  intros Fx. unfold gfull. rewrite glt_R by (auto; reflexivity). cbn [B2R].
  destruct (Rlt_bool_spec (B2R x) 0) as [L|L].
  - unfold gneg. rewrite B2R_Bopp, is_finite_Bopp. split; [|exact Fx]. now rewrite Rabs_left.
  - split; [|exact Fx]. now rewrite Rabs_pos_eq.
Qed.

Lemma gpos_R (x : bf) : is_finite x = true ->
  B2R (gpos x) = Rmax (B2R x) 0 /\ is_finite (gpos x) = true.
Proof.
  intros Fx. unfold gpos. rewrite glt_R by (auto; reflexivity). cbn [B2R].
  destruct (Rlt_bool_spec (B2R x) 0) as [L|L].
  - cbn [B2R is_finite]. split; [|reflexivity]. rewrite Rmax_right; lra.
  - split; [|exact Fx]. rewrite Rmax_left; lra.
Qed.

Lemma gnegh_R (x : bf) : is_finite x = true ->
  B2R (gnegh x) = Rmin (B2R x) 0 /\ is_finite (gnegh x) = true.
Proof.
  intros Fx. unfold gnegh. rewrite glt_R by (auto; reflexivity). cbn [B2R].
  destruct (Rlt_bool_spec 0 (B2R x)) as [L|L].
  - cbn [B2R is_finite]. split; [|reflexivity]. rewrite Rmin_right; lra.
  - split; [|exact Fx]. rewrite Rmin_left; lra.
Qed.

(* non-finite inputs: infinities behave like the reals would suggest, NaN is kept *)
Lemma gfull_inf s : gfull (B754_infinity s) = B754_infinity false.
Proof. destruct s; reflexivity. Qed.
Lemma gpos_inf s : gpos (B754_infinity s) = if s then z0 else B754_infinity false.
Proof. destruct s; reflexivity. Qed.
Lemma gnegh_inf s : gnegh (B754_infinity s) = if s then B754_infinity true else z0.
Proof. destruct s; reflexivity. Qed.
Lemma grect_nan : gfull B754_nan = B754_nan /\ gpos B754_nan = B754_nan /\ gnegh B754_nan = B754_nan.
Proof. repeat split. Qed.
End Generic.

Theorem rectifiers_f32 (x : f32) : is_finite x = true ->
  B2R (full_wave_n NumF32 x) = Rabs (B2R x) /\ B2R (pos_half_n NumF32 x) = Rmax (B2R x) 0 /\
  B2R (neg_half_n NumF32 x) = Rmin (B2R x) 0 /\
  is_finite (full_wave_n NumF32 x) = true /\ is_finite (pos_half_n NumF32 x) = true /\
  is_finite (neg_half_n NumF32 x) = true.
Proof.
  intros Fx.
  destruct (gfull_R 24 128 x Fx) as [A1 A2], (gpos_R 24 128 x Fx) as [B1 B2], (gnegh_R 24 128 x Fx) as [C1 C2].
  repeat split; assumption.
Qed.

Theorem rectifiers_f64 (x : f64) : is_finite x = true ->
  B2R (full_wave_n NumF64 x) = Rabs (B2R x) /\ B2R (pos_half_n NumF64 x) = Rmax (B2R x) 0 /\
  B2R (neg_half_n NumF64 x) = Rmin (B2R x) 0 /\
  is_finite (full_wave_n NumF64 x) = true /\ is_finite (pos_half_n NumF64 x) = true /\
  is_finite (neg_half_n NumF64 x) = true.
Proof.
  intros Fx.
  destruct (gfull_R 53 1024 x Fx) as [A1 A2], (gpos_R 53 1024 x Fx) as [B1 B2], (gnegh_R 53 1024 x Fx) as [C1 C2].
  repeat split; assumption.
Qed.

Theorem rectifiers_nonfinite_f32 :
  (forall s, full_wave_n NumF32 (B754_infinity s) = B754_infinity false) /\
  pos_half_n NumF32 (B754_infinity false) = B754_infinity false /\
  neg_half_n NumF32 (B754_infinity true) = B754_infinity true /\
  full_wave_n NumF32 B754_nan = B754_nan /\ pos_half_n NumF32 B754_nan = B754_nan /\ neg_half_n NumF32 B754_nan = B754_nan.
Proof. repeat split. intros []; reflexivity. Qed.

Theorem rectifiers_nonfinite_f64 :
  (forall s, full_wave_n NumF64 (B754_infinity s) = B754_infinity false) /\
  pos_half_n NumF64 (B754_infinity false) = B754_infinity false /\
  neg_half_n NumF64 (B754_infinity true) = B754_infinity true /\
  full_wave_n NumF64 B754_nan = B754_nan /\ pos_half_n NumF64 B754_nan = B754_nan /\ neg_half_n NumF64 B754_nan = B754_nan.
Proof. repeat split. intros []; reflexivity. Qed.
