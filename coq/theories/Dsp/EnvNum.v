(* The small numeric interface the C19 models are written over: one definition of the
   rectifiers / envelope follower / RMS detection, instantiated with IEEE binary32 and
   binary64 (execution, correspondence, IEEE companion theorems) and with the reals
   (EnvNumR.v: exact-arithmetic theorems).  [G] is the type of the stored gains (f32 in
   the source) and [of_gain] the `gain.to_sample()` conversion into the sample's float type. *)
Require Import Floats.SpecFloat.
Require Import ZArith.
From Flocq Require Import Core BinarySingleNaN.
From Dasp Require Import Base.Float.

Record num := {
  T : Type;
  G : Type;
  of_gain : G -> T;
  nadd : T -> T -> T;
  nsub : T -> T -> T;
  nmul : T -> T -> T;
  ndiv : T -> T -> T;
  nneg : T -> T;
  nsqrt : T -> T;
  nltb : T -> T -> bool;
  nzero : T;
  nof_len : Z -> T;     (* `Sample::from_sample(len as f32)` *)
}.

Definition NumF32 : num := {|
  T := f32; G := f32; of_gain := fun g => g;
  nadd := F32.add; nsub := F32.sub; nmul := F32.mul; ndiv := F32.div; nneg := F32.neg; nsqrt := F32.sqrt;
  nltb := F32.ltb; nzero := F32.zero; nof_len := F32.of_Z |}.

Definition NumF64 : num := {|
  T := f64; G := f32; of_gain := f32_to_f64;
  nadd := F64.add; nsub := F64.sub; nmul := F64.mul; ndiv := F64.div; nneg := F64.neg; nsqrt := F64.sqrt;
  nltb := F64.ltb; nzero := F64.zero; nof_len := fun z => f32_to_f64 (F32.of_Z z) |}.
