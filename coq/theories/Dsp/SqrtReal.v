(* Real-number core of the no_std square-root bit trick: with x = 2^(b-bias) (1+m), 0 <= m < 1,
   halving the biased-exponent/mantissa pattern gives 2^j (1 + t) for even b-bias = 2j and
   2^j (3/2 + t) for odd b-bias = 2j+1, where t is m/2 rounded down to the mantissa grid;
   both are within 7% of sqrt x. *)
Require Import Reals Lra Lia Psatz ZArith.
From Flocq Require Import Core.
Open Scope R_scope.

Lemma sq_le_le a b : 0 <= a -> 0 <= b -> a * a <= b * b -> a <= b.
Proof. intros Ha Hb H. destruct (Rle_or_lt a b) as [|L]; [assumption|]. nra. Qed.

Lemma within_7pct y s : 0 <= y -> 0 <= s ->
  0.8649 * (s * s) <= y * y <= 1.1449 * (s * s) -> Rabs (y - s) <= 0.07 * s.
Proof.
  intros Hy Hs [H1 H2].
  assert (L : 0.93 * s <= y) by (apply sq_le_le; nra).
  assert (U : y <= 1.07 * s) by (apply sq_le_le; nra).
  apply Rabs_le. lra.
Qed.

Lemma trick_even m t : 0 <= m <= 1 -> m / 2 - 1 / 1000 <= t <= m / 2 ->
  Rabs ((1 + t) - sqrt (1 + m)) <= 0.07 * sqrt (1 + m).
Proof.
  intros Hm Ht. apply within_7pct; [lra|apply sqrt_pos|].
  rewrite sqrt_sqrt by lra. split; nra.
Qed.

Lemma trick_odd m t : 0 <= m <= 1 -> m / 2 - 1 / 1000 <= t <= m / 2 ->
  Rabs ((3 / 2 + t) - sqrt (2 * (1 + m))) <= 0.07 * sqrt (2 * (1 + m)).
Proof.
  intros Hm Ht. apply within_7pct; [lra|apply sqrt_pos|].
  rewrite sqrt_sqrt by lra. split; nra.
Qed.

(* scaling by the exponent *)
Lemma sqrt_scaled_even j v : 0 <= v -> sqrt (v * bpow radix2 (2 * j)) = sqrt v * bpow radix2 j.
Proof. intros Hv. rewrite sqrt_mult by (try apply bpow_ge_0; lra). now rewrite sqrt_bpow. Qed.

Lemma sqrt_scaled_odd j v : 0 <= v -> sqrt (v * bpow radix2 (2 * j + 1)) = sqrt (2 * v) * bpow radix2 j.
Proof.
  intros Hv. rewrite bpow_plus. change (bpow radix2 1) with 2.
  replace (v * (bpow radix2 (2 * j) * 2)) with ((2 * v) * bpow radix2 (2 * j)) by ring.
  apply sqrt_scaled_even. lra.
Qed.

Lemma scale_7pct y s p : 0 <= p -> Rabs (y - s) <= 0.07 * s -> Rabs (y * p - s * p) <= 0.07 * (s * p).
Proof.
  intros Hp H. replace (y * p - s * p) with ((y - s) * p) by ring.
  rewrite Rabs_mult, (Rabs_pos_eq p Hp). nra.
Qed.

(* the decoded value of a normal bit pattern with biased exponent b and mantissa field M *)
Definition dec (mw bias b M : Z) : R := (1 + IZR M / bpow radix2 mw) * bpow radix2 (b - bias).

(* integer part of the trick: (b*2^mw + M + bias*2^mw) / 2, bias odd *)
Lemma trick_split mw bias b M : (1 <= mw)%Z -> Z.odd bias = true -> (0 <= M < 2 ^ mw)%Z ->
  ((b * 2 ^ mw + M + bias * 2 ^ mw) / 2 =
   if Z.odd b then ((b + bias) / 2) * 2 ^ mw + M / 2
   else ((b + bias) / 2) * 2 ^ mw + (2 ^ (mw - 1) + M / 2))%Z.
Proof.
  intros Hmw Hb HM.
  assert (H2 : (2 ^ mw = 2 * 2 ^ (mw - 1))%Z).
  { replace mw with (1 + (mw - 1))%Z at 1 by lia. rewrite Z.pow_add_r by lia. reflexivity. }
  rewrite (Zodd_ex_iff bias) in Hb || idtac.
  destruct (Z.odd b) eqn:Eb.
  - apply Z.odd_spec in Eb. apply Z.odd_spec in Hb. destruct Eb as [p ->]. destruct Hb as [q ->].
    replace (2 * p + 1 + (2 * q + 1))%Z with ((p + q + 1) * 2)%Z by lia. rewrite Z.div_mul by lia.
    replace ((2 * p + 1) * 2 ^ mw + M + (2 * q + 1) * 2 ^ mw)%Z with (M + ((p + q + 1) * 2 ^ mw) * 2)%Z by lia.
    rewrite Z.div_add by lia. lia.
  - assert (Eb' : Z.even b = true) by (rewrite <- Z.negb_odd, Eb; reflexivity).
    apply Z.even_spec in Eb'. apply Z.odd_spec in Hb. destruct Eb' as [p ->]. destruct Hb as [q ->].
    replace (2 * p + (2 * q + 1))%Z with (1 + (p + q) * 2)%Z by lia. rewrite Z.div_add by lia.
    replace (1 / 2)%Z with 0%Z by reflexivity.
    replace (2 * p * 2 ^ mw + M + (2 * q + 1) * 2 ^ mw)%Z with (M + ((p + q) * 2 ^ mw + 2 ^ (mw - 1)) * 2)%Z by lia.
    rewrite Z.div_add by lia. lia.
Qed.

Lemma half_floor_bounds mw M : (10 <= mw)%Z -> (0 <= M < 2 ^ mw)%Z ->
  let m := IZR M / bpow radix2 mw in let t := IZR (M / 2) / bpow radix2 mw in
  0 <= m <= 1 /\ m / 2 - 1 / 1000 <= t <= m / 2.
Proof.
  intros Hmw HM m t. unfold m, t.
  assert (Hp : 0 < bpow radix2 mw) by apply bpow_gt_0.
  assert (Hbig : 1024 <= bpow radix2 mw).
  { change 1024 with (bpow radix2 10). apply bpow_le. lia. }
  assert (HM1 : 0 <= IZR M) by (apply IZR_le; lia).
  assert (HM2 : IZR M <= bpow radix2 mw).
  { rewrite <- IZR_Zpower by lia. apply IZR_le. change (radix_val radix2) with 2%Z. lia. }
  assert (Hd := Z.div_mod M 2 ltac:(lia)). assert (Hr := Z.mod_pos_bound M 2 ltac:(lia)).
  assert (H1 : 2 * IZR (M / 2) <= IZR M) by (rewrite <- mult_IZR; apply IZR_le; lia).
  assert (H2 : IZR M - 1 <= 2 * IZR (M / 2)) by (rewrite <- mult_IZR, <- minus_IZR; apply IZR_le; lia).
  assert (Hi : 0 < / bpow radix2 mw) by now apply Rinv_0_lt_compat.
  assert (Hi2 : / bpow radix2 mw <= / 1024) by (apply Rinv_le; lra).
  unfold Rdiv. repeat split; try nra.
  apply Rmult_le_reg_r with (bpow radix2 mw); [assumption|]. rewrite Rmult_assoc, Rinv_l by lra. lra.
Qed.

(* value-level statement of the trick for a normal pattern *)
Theorem trick_value mw bias b M : (10 <= mw)%Z -> Z.odd bias = true -> (0 <= M < 2 ^ mw)%Z ->
  let z' := ((b * 2 ^ mw + M + bias * 2 ^ mw) / 2)%Z in
  let x := dec mw bias b M in
  exists k M', (z' = k * 2 ^ mw + M')%Z /\ (0 <= M' < 2 ^ mw)%Z /\ k = ((b + bias) / 2)%Z /\
    Rabs (dec mw bias k M' - sqrt x) <= 0.07 * sqrt x.
Proof.
  intros Hmw Hb HM z' x. unfold z', x. rewrite (trick_split mw bias b M) by (try lia; assumption).
  destruct (half_floor_bounds mw M Hmw HM) as [Hm Ht].
  assert (H2 : (2 ^ mw = 2 * 2 ^ (mw - 1))%Z).
  { replace mw with (1 + (mw - 1))%Z at 1 by lia. rewrite Z.pow_add_r by lia. reflexivity. }
  assert (Hh : (0 <= M / 2 < 2 ^ (mw - 1))%Z).
  { split; [apply Z.div_pos; lia|apply Z.div_lt_upper_bound; lia]. }
  assert (Hpw : (0 < 2 ^ (mw - 1))%Z) by (apply Z.pow_pos_nonneg; lia).
  set (k := ((b + bias) / 2)%Z).
  destruct (Z.odd b) eqn:Eb.
  - exists k, (M / 2)%Z. split; [reflexivity|]. split; [lia|]. split; [reflexivity|].
    assert (Hk : (b - bias = 2 * (k - bias))%Z).
    { unfold k. apply Z.odd_spec in Eb. apply Z.odd_spec in Hb. destruct Eb as [p ->]. destruct Hb as [q ->].
      replace (2 * p + 1 + (2 * q + 1))%Z with ((p + q + 1) * 2)%Z by lia. rewrite Z.div_mul by lia. lia. }
    unfold dec. rewrite Hk, sqrt_scaled_even by lra.
    apply scale_7pct; [apply bpow_ge_0|]. apply trick_even; assumption.
  - exists k, (2 ^ (mw - 1) + M / 2)%Z. split; [reflexivity|]. split; [lia|]. split; [reflexivity|].
    assert (Hk : (b - bias = 2 * (k - bias) + 1)%Z).
    { unfold k. assert (Eb' : Z.even b = true) by (rewrite <- Z.negb_odd, Eb; reflexivity).
      apply Z.even_spec in Eb'. apply Z.odd_spec in Hb. destruct Eb' as [p ->]. destruct Hb as [q ->].
      replace (2 * p + (2 * q + 1))%Z with (1 + (p + q) * 2)%Z by lia. rewrite Z.div_add by lia.
      replace (1 / 2)%Z with 0%Z by reflexivity. lia. }
    unfold dec. rewrite Hk, sqrt_scaled_odd by lra.
    apply scale_7pct; [apply bpow_ge_0|].
    assert (Hhalf : IZR (2 ^ (mw - 1) + M / 2) / bpow radix2 mw = 1 / 2 + IZR (M / 2) / bpow radix2 mw).
    { rewrite plus_IZR. change (2 ^ (mw - 1))%Z with (radix2 ^ (mw - 1))%Z. rewrite (IZR_Zpower radix2 (mw - 1)) by lia.
      replace (bpow radix2 mw) with (2 * bpow radix2 (mw - 1)).
      - pose proof (bpow_gt_0 radix2 (mw - 1)). field. lra.
      - replace mw with (1 + (mw - 1))%Z at 2 by lia. now rewrite bpow_plus. }
    rewrite Hhalf.
    replace (1 + (1 / 2 + IZR (M / 2) / bpow radix2 mw)) with (3 / 2 + IZR (M / 2) / bpow radix2 mw) by lra.
    apply trick_odd; assumption.
Qed.
