(* The verdict of the correspondence (RmsErr.e_verdict: every stored sum within the running bound
   of the exact dyadic window sum) can never reject a run of the IEEE MODEL whose stored sums are
   finite: it is a consequence of the drift theorem.  So a verdict failure in the check would mean
   a broken proof/model link, and crate = model (bit for bit) + this theorem is what places the
   crate's running sum inside E. *)
Require Import Floats.SpecFloat.
Require Import ZArith Reals List Bool Arith Lia Lra.
From Flocq Require Import Core BinarySingleNaN Calc.Operations.
From Dasp Require Import Base.Res Base.Float Ring.Fixed Dsp.Rms Dsp.RmsInst Dsp.RmsErr Dsp.RmsErrProofs
  Dsp.RmsDrift Dsp.RmsProjProofs Dsp.RmsDriftProofs.
Import ListNotations.
Open Scope R_scope.

Lemma dleb_correct (a b : dy) : dleb a b = true <-> F2R a <= F2R b.
Proof.
  unfold dleb. pose proof (Falign_spec a b) as H.
  destruct (Falign a b) as [[m1 m2] e]. destruct H as [H1 H2]. rewrite H1, H2, Z.leb_le.
  split; [apply F2R_le|apply le_F2R].
Qed.

Section V.
Variables prec emax : Z.
Context (Hp : Prec_gt_0 prec) (He : Prec_lt_emax prec emax).
Notation bf := (binary_float prec emax).
Variable ofn : nat -> bf.
Variable sq : bf -> bf.
Notation KG := (NumG prec emax Hp He ofn sq).
Notation ud := (u_of prec).
Notation etad := (eta_of prec emax).

Lemma verdict_scalar N : (1 <= N)%nat -> forall evs st e, Rel prec emax Hp He ofn sq N st e ->
  srun_ok KG is_finite (clamp KG) N st evs = true ->
  e_verdict ud etad N e (sobs KG B2Dy (clamp KG) N st evs) = true.
Proof.
  intros HN. induction evs as [|[x|] evs IH]; intros st e HR Hok; cbn [sobs e_verdict srun_ok] in *.
  - reflexivity.
  - apply andb_prop in Hok. destruct Hok as [H1 H2].
    pose proof (Rel_push prec emax Hp He ofn sq N st e x HN HR H1) as HR'.
    apply andb_true_intro. split; [|apply IH; assumption].
    apply dleb_correct. destruct HR' as (_ & _ & _ & _ & _ & HE).
    unfold dabs, dsub. rewrite F2R_abs, F2R_minus, (B2R_B2Dy prec emax). exact HE.
  - apply IH; [apply Rel_reset|exact Hok].
Qed.

Theorem verdict_model (N C fst0 : nat) (ops : list (op KG)) :
  (1 <= N)%nat -> (fst0 < N)%nat -> Forall (opK_ok KG C) ops ->
  sums_ok KG is_finite (new_stateK KG N C fst0) ops = true ->
  forall c, (c < C)%nat ->
    e_verdict ud etad N (e_init N) (sobs KG B2Dy (clamp KG) N (sreset KG N) (chan_evs KG c ops)) = true.
Proof.
  intros HN Hf Hops Hfin c Hc.
  destruct (SInv_new KG N C fst0 Hf) as [I0 P0].
  destruct (run_proj KG is_finite N C ops _ I0 Hops) as (st' & outs & E & I' & P & F).
  specialize (F Hfin c Hc). rewrite P0 in F.
  apply verdict_scalar; [exact HN|apply Rel_reset|exact F].
Qed.
End V.

Lemma verdict_model_f32 (sq : f32 -> f32) (N C fst0 : nat) (ops : list (op (NumF32 sq))) :
  (1 <= N)%nat -> (fst0 < N)%nat -> Forall (opK_ok (NumF32 sq) C) ops ->
  sums_ok (NumF32 sq) F32.is_finite (new_stateK (NumF32 sq) N C fst0) ops = true ->
  forall c, (c < C)%nat ->
    e_verdict (u_of 24) (eta_of 24 128) N (e_init N)
      (sobs (NumF32 sq) B2Dy (clamp (NumF32 sq)) N (sreset (NumF32 sq) N) (chan_evs (NumF32 sq) c ops)) = true.
Proof. exact (verdict_model 24 128 p24 pe24 of_nat32 sq N C fst0 ops). Qed.

Lemma verdict_model_f64 (sq : f64 -> f64) (N C fst0 : nat) (ops : list (op (NumF64 sq))) :
  (1 <= N)%nat -> (fst0 < N)%nat -> Forall (opK_ok (NumF64 sq) C) ops ->
  sums_ok (NumF64 sq) F64.is_finite (new_stateK (NumF64 sq) N C fst0) ops = true ->
  forall c, (c < C)%nat ->
    e_verdict (u_of 53) (eta_of 53 1024) N (e_init N)
      (sobs (NumF64 sq) B2Dy (clamp (NumF64 sq)) N (sreset (NumF64 sq) N) (chan_evs (NumF64 sq) c ops)) = true.
Proof. exact (verdict_model 53 1024 p53 pe53 of_nat64 sq N C fst0 ops). Qed.
