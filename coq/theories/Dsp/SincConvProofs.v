(* Proofs about the setter / accessor operations of the Converter model (Dsp/SincConv.v).

   1. The setters change the ratio and nothing else, at every value of the accumulator
      ([setters_only_ratio]); re-announcing the ratio in force is the identity ([conv_set_ratio_same]).
   2. For EVERY arithmetic (reals, IEEE binary64), every sinc state, every accumulator value: a script
      of `next` calls with setter calls in between that all (re-)announce the ratio the converter
      already runs at, and accessor calls, produces exactly the frames of the bare `next` calls
      ([conv_script_reannounce]).
   3. Hence, over the reals with the true sin / cos / PI, the ratio-1 clause of C18 survives any such
      script: output j is source frame j - depth ([converter_delay_script]). *)
Require Import Reals List Arith Bool Lia Lra.
From Dasp Require Import Base.Res Base.ListX Ring.Bounded Ring.Fixed
  Dsp.Sinc Dsp.SincProofs Dsp.SincR Dsp.SincRProofs Dsp.SincConv.
Import ListNotations.

Section Generic.
Variable N : num.
Variable M : fmt N.
Variable ch : nat.
Variables sin_o cos_o : T N -> T N.

Notation conv := (conv N M).

Lemma conv_set_ratio_same (c : conv) : conv_set_ratio N M c (ratio c) = c.
Proof. destruct c; reflexivity. Qed.

(* only the ratio changes: the position (accumulator), the interpolator, the source and its pull counter
   are untouched whatever the accumulator holds *)
Lemma setters_only_ratio (c : conv) (x a b : T N) :
  let c1 := conv_set_playback_hz_scale N M c x in
  let c2 := conv_set_hz_to_hz N M c a b in
  let c3 := conv_set_sample_hz_scale N M c x in
  (src c1 = src c /\ pulls c1 = pulls c /\ itp c1 = itp c /\ ival c1 = ival c /\ ratio c1 = x) /\
  (src c2 = src c /\ pulls c2 = pulls c /\ itp c2 = itp c /\ ival c2 = ival c /\ ratio c2 = n_div N a b) /\
  (src c3 = src c /\ pulls c3 = pulls c /\ itp c3 = itp c /\ ival c3 = ival c /\ ratio c3 = n_div N (n_one N) x).
Proof. cbv zeta. repeat split. Qed.

(* the accessors: is_exhausted is a function of the state; a pull through source_mut() moves the source
   and nothing else *)
Lemma source_pull_only_source (c : conv) :
  let c' := snd (conv_source_pull N M ch c) in
  fst (conv_source_pull N M ch c) = src_frame N M ch c /\
  src c' = src c /\ pulls c' = S (pulls c) /\ itp c' = itp c /\ ival c' = ival c /\ ratio c' = ratio c.
Proof. cbv zeta. repeat split. Qed.

Lemma advance_ratio fuel : forall (c c' : conv),
  advance N M ch fuel c = Ok (Some c') -> ratio c' = ratio c.
Proof.
  induction fuel as [|fuel IH]; intros c c' H; cbn [advance] in H.
  - destruct (n_ge1 N (ival c)); [discriminate|]. injection H as <-. reflexivity.
  - destruct (n_ge1 N (ival c)).
    + destruct (next_source_frame N M (itp c) (src_frame N M ch c)) as [s'| |]; cbn [bind] in H; try discriminate.
      apply IH in H. exact H.
    + injection H as <-. reflexivity.
Qed.

Lemma conv_next_ratio fuel (c c' : conv) o :
  conv_next N sin_o cos_o M ch fuel c = Ok (Some (o, c')) -> ratio c' = ratio c.
Proof.
  unfold conv_next. intros H.
  destruct (advance N M ch fuel c) as [[c1|]| |] eqn:E; cbn [bind] in H; try discriminate.
  destruct (interpolate N sin_o cos_o M ch (itp c1) (ival c1)) as [fr| |]; cbn [bind] in H; try discriminate.
  injection H as _ <-. cbn [ratio]. exact (advance_ratio fuel c c1 E).
Qed.

(* what a non-`next` operation announces *)
Definition announces (r : T N) (o : cop N) : Prop :=
  match o with
  | CNext | CPeek => True
  | CSetPlay x => x = r
  | CSetHz a b => n_div N a b = r
  | CSetSample x => n_div N (n_one N) x = r
  end.

Lemma count_next_cons_next (t : list (cop N)) : count_next N (CNext :: t) = S (count_next N t).
Proof. reflexivity. Qed.

(* re-announcing the ratio in force, and looking at the source, between outputs is invisible *)
Theorem conv_script_reannounce fuel : forall (ops : list (cop N)) (c : conv),
  Forall (announces (ratio c)) ops ->
  conv_script N M ch sin_o cos_o fuel c ops = conv_run N sin_o cos_o M ch fuel c (count_next N ops).
Proof.
  induction ops as [|o t IH]; intros c HF.
  - reflexivity.
  - inversion HF as [|? ? Ho Ht]; subst.
    destruct o as [|x|a b|x|]; cbn [conv_script].
    + rewrite count_next_cons_next. cbn [conv_run].
      destruct (conv_next N sin_o cos_o M ch fuel c) as [[[o1 c1]|]| |] eqn:E; cbn [bind]; try reflexivity.
      rewrite IH; [reflexivity|]. rewrite (conv_next_ratio fuel c c1 o1 E). exact Ht.
    + cbn [announces] in Ho. unfold conv_set_playback_hz_scale. rewrite Ho, conv_set_ratio_same.
      exact (IH c Ht).
    + cbn [announces] in Ho. unfold conv_set_hz_to_hz, conv_set_playback_hz_scale. rewrite Ho, conv_set_ratio_same.
      exact (IH c Ht).
    + cbn [announces] in Ho. unfold conv_set_sample_hz_scale, conv_set_playback_hz_scale. rewrite Ho, conv_set_ratio_same.
      exact (IH c Ht).
    + exact (IH c Ht).
Qed.

End Generic.

(* ---- the ratio-1 clause through scripts, over the reals ---- *)
Local Open Scope R_scope.

(* the three public ways of announcing ratio exactly 1 *)
Lemma announces_one_play : announces NumR 1 (CSetPlay (1 : T NumR)).
Proof. reflexivity. Qed.

Lemma announces_one_hz (a : R) : a <> 0 -> announces NumR 1 (CSetHz (a : T NumR) a).
Proof. intros H. cbn [announces n_div NumR]. unfold Rdiv. apply Rinv_r. exact H. Qed.

Lemma announces_one_sample : announces NumR 1 (CSetSample (1 : T NumR)).
Proof. cbn [announces n_div n_one NumR]. lra. Qed.

Theorem converter_delay_script : forall (ch d : nat), (1 <= d)%nat -> forall (source : list (list R)),
  (forall fr, In fr source -> length fr = ch) -> forall (fuel : nat) (ops : list (cop NumR)), (1 <= fuel)%nat ->
  Forall (announces NumR 1) ops ->
  exists s0 c', sinc_init NumR FmtR ch d = Ok s0 /\
    conv_script NumR FmtR ch sin cos fuel (conv_new NumR FmtR source s0 1) ops
    = Ok (Some (map (fun j => if (j <? d)%nat then repeat 0 ch else nth (j - d) source (repeat 0 ch))
                    (seq 0 (count_next NumR ops)), c')) /\
    pulls c' = (count_next NumR ops - 1)%nat.
Proof.
  intros ch d Hd source Hsrc fuel ops Hf HA.
  destruct (converter_delay ch d Hd source Hsrc fuel (count_next NumR ops) Hf) as (s0 & c' & Hi & Hr & Hp).
  exists s0, c'. split; [exact Hi|]. split; [|exact Hp].
  rewrite conv_script_reannounce; [exact Hr|]. exact HA.
Qed.
