(* Executable Z-level interface of the RMS model for the correspondence check
   (lib/props/c11.py, harness/src/bin/c11.rs, harness_nostd/src/bin/c11n.rs).

   case:
     RCase fmt nostd chans first init ops     detector driven through its public API
     ACase fmt nostd chans n frames sq k fin cl   signal adaptor: from a counting source, k x next
                                              (sq = 1: next_squared); fin = 0: the source is a closure
                                              (gen_mut: the frames, then equilibrium, never exhausted);
                                              fin = 1: signal::from_iter over the finite frame list
                                              (one frame of look-ahead; exhausted once all are pulled);
                                              cl >= 0: before call number cl the adaptor is replaced by
                                              its clone() (derive(Clone): the same state);
                                              after the k calls: into_parts(), the returned detector is
                                              observed and fed one more frame of the returned source
   chans 0 = the bare sample type as a mono frame, 1.. = arrays.
   fmt 0 f32, 1 f64 (frame samples = bit patterns), 2 i16, 3 u8 (samples = integer values;
   Float companion f32; hand-written `s as f32 / 2^k`), 10 + c for the integer format with
   ConvSpec.fmt_code c (i8 i16 I24 i32 I48 i64 u8 u16 U24 u32 U48 u64; samples = integer values):
   to_float_frame through the conversions GENERATED from conv.rs (gen/ConvFloatGen.v) and the Float
   companion of the GENERATED impl_sample! table (gen/SampleTable.v: f64 for the 48/64-bit formats).  init = the window handed to Rms::new as bit patterns of F::Float
   (Fixed::from_raw_parts(first, init)); nostd = 1 selects the bit-trick square root.
   observations (RCase): per op  [2; out bits..] (reset: [7])  then  [3; square_sum bits..]
     (clone().into_parts()); at the end [5; window in iteration order, flattened]; [4; window_frames];
     a panicking constructor: [8; code].
     op ZWindow: [5; window in iteration order, flattened] then [3; square_sum bits..].
     op ZClone (the detector is replaced by its clone(), derive(Clone)): [10] then [3; square_sum bits..].
   (ACase): per next [2; out bits..]; then [4; number of frames pulled from the source];
     fin = 1: [3; is_exhausted] before the first call and after every call, and the count
     is the number of items taken from the iterator = min (length frames) (k + 1).
     Then dasp_signal::rms::Rms::into_parts() = (source, detector): [5; window of the detector];
     [3; square_sum]; [4; window_frames]; [2; current()]; [2; detector.next(source.next())];
     fin = 1: [3; source.is_exhausted()]; [4; count again].

   The to_float_frame conversions of the integer formats are GENERATED from the source, so the model
   follows a wrong conversion; the verdict therefore also checks every converted input sample against
   the independent specification amplitude / 2^(bits-1) (ConvSpec.amp) within one rounding (u |x|).
   [check_code] = 1*(model and crate disagree) + 2*(property verdict fails on the model run)
                + 4*(K4 class: some square x*x is not finite). *)
Require Import Floats.SpecFloat.
Require Import ZArith List Bool.
From Flocq Require Import Core BinarySingleNaN.
From Dasp Require Import Base.Res Base.ListX Base.Float Base.FloatRun Ring.Bounded Ring.Fixed.
From Dasp Require Import Dsp.Rms Dsp.Sqrt Dsp.RmsInst Dsp.RmsErr.
From Dasp Require Sample.Rint Sample.ConvSpec.
From DaspGen Require ConvFloatGen SampleTable.
Import ListNotations.
Open Scope Z_scope.

Inductive zop := ZNext (fr : list Z) | ZNextSq (fr : list Z) | ZCurrent | ZReset | ZWindow | ZClone.

Inductive case :=
| RCase (fmt nostd chans first : Z) (init : list (list Z)) (ops : list zop)
| ACase (fmt nostd chans n : Z) (frames : list (list Z)) (sq k fin cl : Z).

Definition B2D {prec emax} (x : binary_float prec emax) : dy :=
  match x with
  | B754_finite s m e _ => Float radix2 (cond_Zopp s (Zpos m)) e
  | _ => d0
  end.

Definition i16_to_f32 (z : Z) : f32 := F32.div (F32.of_Z z) (F32.of_Z 32768).
(* u8 -> i8 (s - 128) -> `s as f32 / 128.0` *)
Definition u8_to_f32 (z : Z) : f32 := F32.div (F32.of_Z (z - 128)) (F32.of_Z 128).

(* one executed operation: the op, the (converted) input frame, output frame, stored sum *)
Record tr (K : num) := { t_op : Z; t_in : list (T K); t_out : list (T K); t_sum : list (T K) }.
Arguments t_op {K}. Arguments t_in {K}. Arguments t_out {K}. Arguments t_sum {K}.

Section RunK.
Variable K : num.
Variable tobits : T K -> Z.
Variable ofbits : Z -> T K.
Variable inconv : Z -> T K.
Variable finite : T K -> bool.
Variable isnan : T K -> bool.
Variable toD : T K -> dy.
Variables prec emax : Z.
Variable exact_in : Z -> option dy.   (* the exact amplitude of an integer sample; None for float frames *)

Definition conv_op (o : zop) : op K :=
  match o with
  | ZNext fr => ONext (map inconv fr)
  | ZNextSq fr => ONextSq (map inconv fr)
  | ZCurrent | ZWindow | ZClone => OCurrent
  | ZReset => OReset
  end.
Definition op_code (o : zop) : Z :=
  match o with ZNext _ => 0 | ZNextSq _ => 1 | ZCurrent => 2 | ZReset => 3 | ZWindow => 4 | ZClone => 5 end.
Definition op_in (o : zop) : list (T K) :=
  match o with ZNext fr | ZNextSq fr => map inconv fr | _ => [] end.

(* trace of a history; stops at the first panic/UB with its code *)
Fixpoint trace (st : rms K) (ops : list zop) : list (tr K) * rms K * option Z :=
  match ops with
  | [] => ([], st, None)
  | o :: t =>
    (* ZClone: the detector is replaced by [rms_clone] of itself; ZWindow/ZClone go through
       OCurrent, which leaves the state alone *)
    match step K (match o with ZClone => rms_clone K st | _ => st end) (conv_op o) with
    | Ok (st', out) =>
      let '(l, stf, e) := trace st' t in
      let out' := match o with ZWindow => concat (fiter (window K st')) | ZClone => [] | _ => out end in
      ({| t_op := op_code o; t_in := op_in o; t_out := out'; t_sum := square_sum K st' |} :: l, stf, e)
    | Panic k => ([], st, Some (Z.of_nat (panic_code k)))
    | UB => ([], st, Some 99)
    end
  end.

Definition obs_of_trace (r : list (tr K) * rms K * option Z) : list (list Z) :=
  let '(l, stf, e) := r in
  flat_map (fun t => [ (if t_op t =? 3 then [7] else if t_op t =? 5 then [10]
                        else (if t_op t =? 4 then 5 else 2) :: map tobits (t_out t));
                       3 :: map tobits (t_sum t) ]) l
  ++ match e with
     | Some c => [[8; c]]
     | None => [ 5 :: flat_map (map tobits) (fiter (window K stf)); [4; Z.of_nat (window_frames K stf)] ]
     end.

Definition mk_state (chans first : Z) (init : list (list Z)) : res (rms K) :=
  let* w := f_from_raw_parts (Z.to_nat first) (map (map ofbits) init) in
  Ok (rms_new K (Z.to_nat chans) w).

Definition run_rcase (chans first : Z) (init : list (list Z)) (ops : list zop) : list (list Z) :=
  match mk_state chans first init with
  | Ok st => obs_of_trace (trace st ops)
  | Panic k => [[8; Z.of_nat (panic_code k)]]
  | UB => [[9]]
  end.

(* adaptor: source = the given frames, then silence (signal::from_iter semantics are not used:
   the harness source is a counting closure that returns the k-th frame, equilibrium afterwards) *)
Definition run_acase (chans n : Z) (eqz : Z) (frames : list (list Z)) (sq k fin cl : Z) : list (list Z) :=
  let c := Z.to_nat chans in
  let w := {| first := 0; fdata := repeat (equilibrium K c) (Z.to_nat n) |} in
  let s := fun i => map inconv (nth i frames (repeat eqz c)) in
  let len := Z.of_nat (length frames) in
  let exh_at (p : nat) : list (list Z) :=
    if fin =? 1 then [[3; b2z (len <=? Z.of_nat p)]] else [] in
  let exh (a : adaptor K) := exh_at (pulls K a) in
  let count_at (p : nat) : list Z :=
    [4; if fin =? 1 then Z.min len (Z.of_nat p + 1) else Z.of_nat p] in
  (* dasp_signal::rms::Rms::into_parts, then the parts are used on their own *)
  let parts (a : adaptor K) : list (list Z) :=
    let '(src', p, d) := adaptor_into_parts K a in
    [ 5 :: flat_map (map tobits) (fiter (window K d));
      3 :: map tobits (square_sum K d);
      [4; Z.of_nat (window_frames K d)];
      2 :: map tobits (rms_current K d) ]
    ++ match rms_next K d (src' p) with
       | Ok (_, out) => (2 :: map tobits out) :: exh_at (S p) ++ [count_at (S p)]
       | Panic q => [[8; Z.of_nat (panic_code q)]]
       | UB => [[9]]
       end in
  let fix go (a : adaptor K) (j : nat) (i : Z) : list (list Z) :=
    match j with
    | O => count_at (pulls K a) :: parts a
    | S j' =>
      let a := if i =? cl then adaptor_clone K a else a in
      match (if sq =? 1 then adaptor_next_squared K a else adaptor_next K a) with
      | Ok (a', out) => (2 :: map tobits out) :: exh a' ++ go a' j' (i + 1)
      | Panic p => [[8; Z.of_nat (panic_code p)]]
      | UB => [[9]]
      end
    end in
  let a0 := adaptor_new K s c w in
  exh a0 ++ go a0 (Z.to_nat k) 0.

(* ---- property verdict on the model run (zero-initialised window only) ---- *)
Definition all_zero_init (init : list (list Z)) : bool :=
  forallb (forallb (fun z => z =? 0)) init.

Definition chan_events (c : nat) (l : list (tr K)) : option (list ev) :=
  fold_right (fun t acc =>
    match acc with
    | None => None
    | Some evs =>
      if t_op t =? 3 then Some (EReset :: evs)
      else if (t_op t =? 2) || (t_op t =? 4) || (t_op t =? 5) then Some evs
      else match nth_error (t_in t) c, nth_error (t_sum t) c with
           | Some x, Some s => if finite x && finite s then Some (EPush (toD x) (toD s) :: evs) else None
           | _, _ => None
           end
    end) (Some []) l.

Definition outputs_ok (l : list (tr K)) : bool :=
  forallb (fun t => forallb (fun o => negb (isnan o) && negb (ltb K o (zero K))) (t_out t)) l.

Definition verdict (chans : Z) (n : nat) (l : list (tr K)) : bool :=
  outputs_ok l &&
  forallb (fun c => match chan_events c l with
                    | Some evs => e_verdict (u_of prec) (eta_of prec emax) n (e_init n) evs
                    | None => false
                    end) (seq 0 (Z.to_nat chans)).

Definition conv_ok (ops : list zop) : bool :=
  forallb (fun o => match o with
                    | ZNext fr | ZNextSq fr =>
                      forallb (fun z => match exact_in z with
                                        | None => true
                                        | Some x => finite (inconv z) &&
                                                    dleb (dabs (dsub (toD (inconv z)) x)) (dmul (u_of prec) (dabs x))
                                        end) fr
                    | _ => true
                    end) ops.

Definition k4_class (ops : list zop) : bool :=
  existsb (fun o => existsb (fun x => negb (finite (mul K x x))) (op_in o)) ops.

Definition zll_eqb (a b : list (list Z)) : bool :=
  if list_eq_dec (list_eq_dec Z.eq_dec) a b then true else false.

Definition code_rcase (chans first : Z) (init : list (list Z)) (ops : list zop) (obs : list (list Z)) : Z :=
  match mk_state chans first init with
  | Ok st =>
    let r := trace st ops in
    let '(l, stf, e) := r in
    (if zll_eqb (obs_of_trace r) obs then 0 else 1)
    + (if (if all_zero_init init then
              verdict chans (length init) l && match e with None => true | _ => false end
            else true) && conv_ok ops then 0 else 2)
    + (if k4_class ops then 4 else 0)
  | Panic k => if zll_eqb [[8; Z.of_nat (panic_code k)]] obs then 0 else 1
  | UB => 1
  end.

End RunK.

Definition eq_input (fmt : Z) : Z :=
  match (if 10 <=? fmt then ConvSpec.fmt_of_code (fmt - 10) else None) with
  | Some fi => ConvSpec.equilibrium fi
  | None => if fmt =? 3 then 128 else 0
  end.

Definition NumF32sel (nostd : Z) := NumF32 (if nostd =? 1 then sqrt_trick32 else sqrt_std32).
Definition NumF64sel (nostd : Z) := NumF64 (if nostd =? 1 then sqrt_trick64 else sqrt_std64).
(* generated conversions (debug profile; they cannot panic on in-range samples, a panic would show
   as NaN here and as an `8` observation on the crate side) *)
Definition gen_to_f32 (fi : ConvSpec.fmt) (z : Z) : f32 :=
  match ConvFloatGen.to_sample_f32_of_int Rint.Checked fi z with Ok x => x | _ => B754_nan end.
Definition gen_to_f64 (fi : ConvSpec.fmt) (z : Z) : f64 :=
  match ConvFloatGen.to_sample_f64_of_int Rint.Checked fi z with Ok x => x | _ => B754_nan end.
Definition gen_fmt (fmt : Z) : option ConvSpec.fmt := if 10 <=? fmt then ConvSpec.fmt_of_code (fmt - 10) else None.
(* does the frame format use the f64 companion? *)
Definition is64 (fmt : Z) : bool :=
  match gen_fmt fmt with Some fi => SampleTable.src_float64 fi | None => fmt =? 1 end.
Definition inconv32 (fmt : Z) : Z -> f32 :=
  match gen_fmt fmt with
  | Some fi => gen_to_f32 fi
  | None => match fmt with 2 => i16_to_f32 | 3 => u8_to_f32 | _ => F32.of_bits end
  end.
Definition inconv64 (fmt : Z) : Z -> f64 :=
  match gen_fmt fmt with Some fi => gen_to_f64 fi | None => F64.of_bits end.

Definition exact_amp (fmt : Z) (z : Z) : option dy :=
  match gen_fmt fmt with
  | Some fi => Some (Float radix2 (ConvSpec.amp fi z) (1 - ConvSpec.bits fi))
  | None => match fmt with
            | 2 => Some (Float radix2 z (-15))
            | 3 => Some (Float radix2 (z - 128) (-7))
            | _ => None
            end
  end.

(* chans = 0: the bare sample type as a mono frame (Rms<f32, _>, Rms<i16, _>: Frame for a sample type has one
   channel; to_float_frame is to_float_sample = to_sample, the same conversion) *)
Definition nchan (chans : Z) : Z := if chans =? 0 then 1 else chans.

Definition run_case (c : case) : list (list Z) :=
  match c with
  | RCase fmt nostd chans0 first init ops =>
    let chans := nchan chans0 in
    if is64 fmt then run_rcase (NumF64sel nostd) F64.bits F64.of_bits (inconv64 fmt) chans first init ops
    else run_rcase (NumF32sel nostd) F32.bits F32.of_bits (inconv32 fmt) chans first init ops
  | ACase fmt nostd chans0 n frames sq k fin cl =>
    let chans := nchan chans0 in
    if is64 fmt then run_acase (NumF64sel nostd) F64.bits (inconv64 fmt) chans n (eq_input fmt) frames sq k fin cl
    else run_acase (NumF32sel nostd) F32.bits (inconv32 fmt) chans n (eq_input fmt) frames sq k fin cl
  end.

Definition check_code (c : case * list (list Z)) : Z :=
  match fst c with
  | RCase fmt nostd chans0 first init ops =>
    let chans := nchan chans0 in
    if is64 fmt then
      code_rcase (NumF64sel nostd) F64.bits F64.of_bits (inconv64 fmt) F64.is_finite F64.is_nan B2D 53 1024
                 (exact_amp fmt) chans first init ops (snd c)
    else
      code_rcase (NumF32sel nostd) F32.bits F32.of_bits (inconv32 fmt) F32.is_finite F32.is_nan B2D 24 128
                 (exact_amp fmt) chans first init ops (snd c)
  | ACase _ _ _ _ _ _ _ _ _ => if zll_eqb (run_case (fst c)) (snd c) then 0 else 1
  end.

Definition check (c : case * list (list Z)) : bool := check_code c =? 0.
