(* Exact-arithmetic theorems about the sinc model (Dsp/SincR.v instance):
   linearity in the buffered frames (for ANY sin/cos oracle: the weights do not depend on the data),
   and, with the true sin, cos, PI: transparency on the sample grid (x = 0 reads frames[idx]) and the
   exact delay by [depth] frames through the Converter at ratio 1. *)
Require Import Reals List Arith Lia Lra.
From Dasp Require Import Base.Res Base.ListX Ring.Bounded Ring.Fixed Ring.FixedSpec Ring.FixedProofs
  Dsp.Sinc Dsp.SincProofs Dsp.SincR.
Import ListNotations.
Local Arguments Nat.mul : simpl never.
Local Arguments Nat.modulo : simpl never.
Local Arguments Nat.div : simpl never.
Local Arguments INR : simpl never.
Open Scope R_scope.

(* [smp FmtR] and [R] are convertible but not syntactically equal: normalise before lia *)
Ltac rlia := cbn [smp FmtR] in *; lia.

Definition acc (w vs r : R) : R := vs + w * r.

Lemma zip2_length {A B C} (f : A -> B -> C) : forall l1 l2, length l1 = length l2 -> length (zip2 f l1 l2) = length l1.
Proof. induction l1; destruct l2; simpl; intros; try discriminate; auto; try (f_equal; apply IHl1; rlia). Qed.

(* goals about lengths of zip2 / lin_frame combinations *)
Ltac len := cbn [smp FmtR] in *; unfold lin_frame; repeat (rewrite zip2_length by len); lia.

Lemma nth_error_zip2 {A B C} (f : A -> B -> C) : forall l1 l2 i,
  nth_error (zip2 f l1 l2) i =
  match nth_error l1 i, nth_error l2 i with Some x, Some y => Some (f x y) | _, _ => None end.
Proof.
  induction l1 as [|a l1 IH]; intros [|b l2] [|i]; simpl; auto;
    try (destruct (nth_error l1 i); reflexivity).
Qed.

Lemma zip_acc_R w : forall v fr, length v = length fr -> zip_acc NumR FmtR w v fr = Ok (zip2 (acc w) v fr).
Proof.
  induction v as [|vs v IH]; intros [|r fr] H; simpl in *; try discriminate; auto.
  rewrite IH by rlia. reflexivity.
Qed.

Lemma zip2_lin a b w : forall vF vG fF fG,
  length vF = length vG -> length vF = length fF -> length vG = length fG ->
  zip2 (acc w) (lin_frame a b vF vG) (lin_frame a b fF fG) =
  lin_frame a b (zip2 (acc w) vF fF) (zip2 (acc w) vG fG).
Proof.
  unfold lin_frame.
  induction vF as [|x vF IH]; intros [|y vG] [|p fF] [|q fG] H1 H2 H3; simpl in *; try discriminate; auto.
  f_equal; [unfold acc; ring|]. apply IH; rlia.
Qed.

Lemma lin_zero a b n : lin_frame a b (repeat 0 n) (repeat 0 n) = repeat 0 n.
Proof. unfold lin_frame. induction n; simpl; auto. f_equal; auto. ring. Qed.

Lemma lin_frame_length a b f g : length f = length g -> length (lin_frame a b f g) = length f.
Proof. apply zip2_length. Qed.

(* ------------------------------------------------------------------------------------------- *)
Section Linear.
Variables sin_o cos_o : R -> R.
Variable ch : nat.

Notation WF := (WF NumR FmtR ch).
Notation interp := (interpolate NumR sin_o cos_o FmtR ch).
Notation step := (tap_step NumR sin_o cos_o FmtR).

Lemma lin_sinc_wf a b d sF sG : WF d sF -> WF d sG -> WF d (lin_sinc a b sF sG).
Proof.
  intros (IF & LF & Hd & Hi & HF) (IG & LG & _ & _ & HG).
  unfold WF, lin_sinc, InvF, flen in *. cbn [frames idx first fdata smp FmtR] in *.
  rewrite (zip2_length (lin_frame a b) _ _ (eq_trans LF (eq_sym LG))). repeat split; auto.
  intros fr Hin. apply In_nth_error in Hin. destruct Hin as [i Hi']. rewrite nth_error_zip2 in Hi'. cbn [smp FmtR] in *.
  match type of Hi' with context [match ?t with _ => _ end] => destruct t as [x|] eqn:Ex; try discriminate end.
  match type of Hi' with context [match ?t with _ => _ end] => destruct t as [y|] eqn:Ey; try discriminate end.
  injection Hi' as <-. apply nth_error_In in Ex. apply nth_error_In in Ey.
  rewrite lin_frame_length; [auto|]. rewrite (HF _ Ex), (HG _ Ey). reflexivity.
Qed.

Lemma fget_lin a b d sF sG i : WF d sF -> WF d sG -> first (frames sF) = first (frames sG) ->
  exists fF fG, fget (frames sF) i = Ok fF /\ fget (frames sG) i = Ok fG /\ length fF = ch /\ length fG = ch /\
    fget (frames (lin_sinc a b sF sG)) i = Ok (lin_frame a b fF fG).
Proof.
  intros WFf WGf Hfirst.
  destruct (fget_wf NumR FmtR ch d sF i WFf) as (w1 & fF & E1 & Hw1 & G1 & N1 & L1).
  destruct (fget_wf NumR FmtR ch d sG i WGf) as (w2 & fG & E2 & Hw2 & G2 & N2 & L2).
  exists fF, fG. repeat split; auto.
  destruct WFf as (_ & LF & _). destruct WGf as (_ & LG & _).
  unfold fwrapped in E1, E2. rewrite <- Hfirst, LG, <- LF in E2. rewrite E1 in E2. inversion E2; subst w2.
  unfold fget, fwrapped, lin_sinc. cbn [frames first fdata]. unfold flen in *. cbn [fdata smp FmtR] in *.
  rewrite zip2_length by rlia. rewrite E1. cbn [bind].
  unfold get_checked. rewrite nth_error_zip2, N1, N2. reflexivity.
Qed.

Lemma step_lin a b d sF sG x dd n vF vG : WF d sF -> WF d sG ->
  first (frames sF) = first (frames sG) -> idx sF = idx sG ->
  (n < Nat.min (idx sF + 1) d)%nat -> length vF = ch -> length vG = ch ->
  exists rF rG, step sF x dd vF n = Ok rF /\ step sG x dd vG n = Ok rG /\ length rF = ch /\ length rG = ch /\
    step (lin_sinc a b sF sG) x dd (lin_frame a b vF vG) n = Ok (lin_frame a b rF rG).
Proof.
  intros WFf WGf Hfirst Hidx Hn LvF LvG.
  unfold tap_step. cbn [idx lin_sinc]. rewrite <- Hidx.
  rewrite (no_underflow NumR FmtR ch d sF n WFf Hn). cbn [bind].
  destruct (fget_lin a b d sF sG (idx sF - n) WFf WGf Hfirst) as (f1 & g1 & E1 & E2 & Lf1 & Lg1 & E3).
  destruct (fget_lin a b d sF sG (idx sF + 1 + n) WFf WGf Hfirst) as (f2 & g2 & E4 & E5 & Lf2 & Lg2 & E6).
  cbn [smp FmtR frames lin_sinc] in *.
  rewrite E1, E2, E3. cbn [bind].
  rewrite !zip_acc_R by len. cbn [bind].
  rewrite E4, E5, E6. cbn [bind].
  rewrite !zip_acc_R by len.
  eexists _, _. split; [reflexivity|]. split; [reflexivity|].
  split; [len|]. split; [len|].
  rewrite !zip2_lin by len. reflexivity.
Qed.

Lemma fold_lin a b d sF sG x dd : WF d sF -> WF d sG ->
  first (frames sF) = first (frames sG) -> idx sF = idx sG ->
  forall k n0 vF vG, (n0 + k <= Nat.min (idx sF + 1) d)%nat -> length vF = ch -> length vG = ch ->
  exists rF rG, fold_range NumR FmtR (step sF x dd) vF n0 k = Ok rF /\
                fold_range NumR FmtR (step sG x dd) vG n0 k = Ok rG /\
                length rF = ch /\ length rG = ch /\
                fold_range NumR FmtR (step (lin_sinc a b sF sG) x dd) (lin_frame a b vF vG) n0 k
                = Ok (lin_frame a b rF rG).
Proof.
  intros WFf WGf Hfirst Hidx. induction k as [|k IH]; intros n0 vF vG Hk LF LG; simpl.
  - exists vF, vG. auto.
  - destruct (step_lin a b d sF sG x dd n0 vF vG WFf WGf Hfirst Hidx ltac:(rlia) LF LG)
      as (rF & rG & -> & -> & LrF & LrG & ->). cbn [bind].
    apply IH; auto. rlia.
Qed.

(* linearity: the interpolated frame of the pointwise combination a*F + b*G of two buffers (same
   position in the stream) is the same combination of the two interpolated frames *)
Theorem interpolate_linear a b d sF sG x : WF d sF -> WF d sG ->
  first (frames sF) = first (frames sG) -> idx sF = idx sG ->
  exists rF rG, interp sF x = Ok rF /\ interp sG x = Ok rG /\
                interp (lin_sinc a b sF sG) x = Ok (lin_frame a b rF rG).
Proof.
  intros WFf WGf Hfirst Hidx.
  pose proof (lin_sinc_wf a b d sF sG WFf WGf) as WH.
  unfold interpolate.
  rewrite (max_depth_wf _ _ _ d sF WFf), (max_depth_wf _ _ _ d sG WGf), (max_depth_wf _ _ _ d _ WH).
  rewrite (sdepth_wf _ _ _ d sF WFf), (sdepth_wf _ _ _ d sG WGf), (sdepth_wf _ _ _ d _ WH).
  cbn [idx lin_sinc]. rewrite <- Hidx. cbn [bind].
  destruct (fold_lin a b d sF sG x d WFf WGf Hfirst Hidx (Nat.min (idx sF + 1) d) 0%nat
              (equil_frame NumR FmtR ch) (equil_frame NumR FmtR ch) ltac:(rlia)
              (equil_frame_length _ _ _) (equil_frame_length _ _ _)) as (rF & rG & E1 & E2 & _ & _ & E3).
  exists rF, rG. repeat split; auto.
  unfold equil_frame in *. cbn [equil FmtR] in *. rewrite lin_zero in E3. exact E3.
Qed.

End Linear.

(* ------------------------------------------------------------------------------------------- *)
Section Grid.
Variable ch : nat.
Notation WF := (WF NumR FmtR ch).
Notation interp := (interpolate NumR sin cos FmtR ch).
Notation step := (tap_step NumR sin cos FmtR).
Notation zeros := (equil_frame NumR FmtR ch).

Lemma weight_origin dd a : a = 0 -> weight NumR sin cos dd a = 1.
Proof.
  intros ->. unfold weight. cbn [T n_eq0 n_one n_div n_add n_mul n_half n_of_nat NumR].
  destruct (Req_EM_T 0 0) as [_|H]; [|contradiction].
  replace (0 / INR dd) with 0 by (unfold Rdiv; ring). rewrite cos_0. field.
Qed.

Lemma weight_grid dd a k : (1 <= k)%nat -> a = PI * INR k -> weight NumR sin cos dd a = 0.
Proof.
  intros Hk ->. unfold weight. cbn [T n_eq0 n_one n_div n_add n_mul n_half n_of_nat NumR].
  assert (Hpos : 0 < PI * INR k).
  { apply Rmult_lt_0_compat; [apply PI_RGT_0|]. apply lt_0_INR. rlia. }
  destruct (Req_EM_T (PI * INR k) 0) as [H|_]; [lra|].
  assert (Hs : sin (PI * INR k) = 0).
  { apply sin_eq_0_1. exists (Z.of_nat k). rewrite <- INR_IZR_INZ. ring. }
  rewrite Hs. unfold Rdiv. ring.
Qed.

Lemma zip2_acc0 : forall (v fr : list R), length v = length fr -> zip2 (acc 0) v fr = v.
Proof.
  induction v as [|x v IH]; intros [|r fr] H; simpl in *; try discriminate; auto.
  f_equal; [unfold acc; ring|apply IH; lia].
Qed.

Lemma zip2_acc1 : forall (fr : list R), zip2 (acc 1) (repeat 0 (length fr)) fr = fr.
Proof. induction fr as [|r fr IH]; simpl; auto. f_equal; [unfold acc; ring|exact IH]. Qed.

Lemma zip_acc_w0 v fr : length v = length fr -> zip_acc NumR FmtR 0 v fr = Ok v.
Proof. intros H. rewrite zip_acc_R by auto. rewrite zip2_acc0 by auto. reflexivity. Qed.

Lemma zip_acc_w1 fr : length fr = ch -> zip_acc NumR FmtR 1 zeros fr = Ok fr.
Proof.
  intros H. rewrite zip_acc_R by (rewrite equil_frame_length; auto).
  unfold equil_frame. cbn [equil FmtR]. subst ch. rewrite zip2_acc1. reflexivity.
Qed.

(* at x = 0 every tap but the first carries sin(pi*k) = 0 *)
Lemma step_grid d s dd v n : WF d s -> (1 <= n)%nat -> (n < Nat.min (idx s + 1) d)%nat -> length v = ch ->
  step s 0 dd v n = Ok v.
Proof.
  intros W H1 Hn Lv. unfold tap_step.
  rewrite (no_underflow NumR FmtR ch d s n W Hn). cbn [bind].
  destruct (fget_wf NumR FmtR ch d s (idx s - n) W) as (w1 & f1 & _ & _ & -> & _ & L1). cbn [bind].
  rewrite (weight_grid dd _ n H1) by (unfold tap_arg; cbn [n_mul n_add n_pi n_of_nat NumR]; ring).
  rewrite zip_acc_w0 by rlia. cbn [bind].
  destruct (fget_wf NumR FmtR ch d s (idx s + 1 + n) W) as (w2 & f2 & _ & _ & -> & _ & L2). cbn [bind].
  rewrite (weight_grid dd _ (S n)) by
    (try rlia; unfold tap_arg; cbn [n_mul n_add n_sub n_one n_pi n_of_nat NumR]; rewrite S_INR; ring).
  apply zip_acc_w0. rlia.
Qed.

Lemma fold_grid d s dd : WF d s -> forall k n0 v, (1 <= n0)%nat -> (n0 + k <= Nat.min (idx s + 1) d)%nat ->
  length v = ch -> fold_range NumR FmtR (step s 0 dd) v n0 k = Ok v.
Proof.
  intros W. induction k as [|k IH]; intros n0 v H1 Hk Lv; simpl; auto.
  rewrite (step_grid d s dd v n0 W H1 ltac:(rlia) Lv). cbn [bind]. apply IH; auto; rlia.
Qed.

(* transparency on the sample grid: x = 0 returns frames[idx], exactly *)
Theorem interpolate_grid d s : WF d s -> interp s 0 = fget (frames s) (idx s).
Proof.
  intros W. unfold interpolate. rewrite (max_depth_wf _ _ _ d s W). cbn [bind].
  pose proof W as (_ & _ & Hd & Hi & _).
  destruct (Nat.min (idx s + 1) d) as [|m] eqn:Em; [rlia|].
  cbn [fold_range]. unfold tap_step at 1.
  rewrite (no_underflow NumR FmtR ch d s 0 W ltac:(rlia)). cbn [bind].
  rewrite Nat.sub_0_r.
  destruct (fget_wf NumR FmtR ch d s (idx s) W) as (w1 & f1 & _ & _ & E1 & _ & L1). rewrite E1. cbn [bind].
  rewrite (weight_origin _ (tap_arg NumR 0 0)) by
    (unfold tap_arg; cbn [n_mul n_add n_pi n_of_nat NumR]; change (INR 0) with 0; ring).
  rewrite zip_acc_w1 by auto. cbn [bind].
  destruct (fget_wf NumR FmtR ch d s (idx s + 1 + 0) W) as (w2 & f2 & _ & _ & -> & _ & L2). cbn [bind].
  rewrite (weight_grid _ _ 1%nat) by
    (try rlia; unfold tap_arg; cbn [n_mul n_add n_sub n_one n_pi n_of_nat NumR];
     change (INR 0) with 0; change (INR 1) with 1; ring).
  rewrite zip_acc_w0 by rlia. cbn [bind].
  apply (fold_grid d s _ W); auto; rlia.
Qed.

(* ---- the converter at ratio exactly 1 ---- *)
Variable d : nat.
Hypothesis Hd : (1 <= d)%nat.
Variable source : list (list R).
Hypothesis Hsrc : forall fr, In fr source -> length fr = ch.

Definition srcf (j : nat) : list R := nth j source zeros.
Definition out (j : nat) : list R := if (j <? d)%nat then zeros else srcf (j - d).
(* the padding followed by the first k source frames *)
Definition hist (k : nat) : list (list R) := repeat zeros (2 * d) ++ map srcf (seq 0 k).

Definition Pushed (k : nat) (s : sinc NumR FmtR) : Prop :=
  WF d s /\ idx s = Nat.min k d /\ fq (frames s) = skipn k (hist k).

Lemma srcf_length j : length (srcf j) = ch.
Proof.
  unfold srcf. destruct (Nat.lt_ge_cases j (length source)) as [H|H].
  - apply Hsrc. apply nth_In. exact H.
  - rewrite nth_overflow by exact H. exact (equil_frame_length NumR FmtR ch).
Qed.

Lemma hist_length k : length (hist k) = (2 * d + k)%nat.
Proof. unfold hist. rewrite app_length, repeat_length, map_length, seq_length. reflexivity. Qed.

Lemma hist_S k : hist (S k) = hist k ++ [srcf k].
Proof. unfold hist. rewrite seq_S, map_app, app_assoc. reflexivity. Qed.

Lemma skipn_S_tl {A} : forall k (l : list A), skipn (S k) l = tl (skipn k l).
Proof. induction k as [|k IH]; intros [|a l]; simpl; auto. rewrite <- IH. reflexivity. Qed.

Lemma pushed_0 : Pushed 0 (silent NumR FmtR ch d).
Proof.
  split; [apply silent_wf; exact Hd|]. split; [reflexivity|].
  unfold silent, fq, rotl, hist. cbn [frames first fdata seq map skipn firstn]. reflexivity.
Qed.

Lemma pushed_step k s : Pushed k s ->
  exists s', next_source_frame NumR FmtR s (srcf k) = Ok s' /\ Pushed (S k) s'.
Proof.
  intros (W & Hi & Hq).
  destruct (next_source_frame_wf NumR FmtR ch d s (srcf k) W (srcf_length k))
    as (s' & E & W' & Hi' & old & q' & Hq1 & Hq2).
  exists s'. split; [exact E|]. split; [exact W'|]. split; [rlia|].
  rewrite Hq2, hist_S.
  rewrite skipn_app. rewrite hist_length.
  replace (S k - (2 * d + k))%nat with 0%nat by rlia. rewrite skipn_O.
  f_equal. rewrite skipn_S_tl, <- Hq, Hq1. reflexivity.
Qed.

Lemma hist_read k : nth (k + Nat.min k d) (hist k) zeros = out k.
Proof.
  unfold out, hist. destruct (Nat.ltb_spec k d) as [H|H].
  - rewrite app_nth1 by (rewrite repeat_length; rlia). apply nth_repeat.
  - rewrite app_nth2 by (rewrite repeat_length; rlia). rewrite repeat_length.
    replace (k + Nat.min k d - 2 * d)%nat with (k - d)%nat by rlia.
    rewrite (nth_indep _ zeros (srcf 0)) by (rewrite map_length, seq_length; rlia).
    rewrite map_nth, seq_nth by rlia. reflexivity.
Qed.

Lemma pushed_read k s : Pushed k s -> interp s 0 = Ok (out k).
Proof.
  intros (W & Hi & Hq). rewrite (interpolate_grid d s W).
  pose proof W as (I & HL & _ & Hid & _).
  destruct (fget_refines (frames s) (idx s) I) as (v & -> & Hv). f_equal.
  rewrite Nat.mod_small in Hv by rlia.
  rewrite Hq, nth_error_skipn, Hi in Hv.
  rewrite <- hist_read. symmetry. apply nth_error_nth. exact Hv.
Qed.

(* state of the converter before output number j *)
Definition CI (j : nat) (c : conv NumR FmtR) : Prop :=
  src c = source /\ ratio c = 1 /\ pulls c = (j - 1)%nat /\ Pushed (j - 1) (itp c) /\
  ival c = (if (j =? 0)%nat then 0 else 1).

Lemma advance_done fuel (c : conv NumR FmtR) : n_ge1 NumR (ival c) = false ->
  advance NumR FmtR ch fuel c = Ok (Some c).
Proof. intros H. destruct fuel; cbn [advance]; rewrite H; reflexivity. Qed.

Lemma ge1_0 v : v = 0 -> n_ge1 NumR v = false.
Proof. intros ->. cbn [n_ge1 NumR]. destruct (Rle_dec 1 0); [lra|reflexivity]. Qed.

Lemma ge1_1 v : v = 1 -> n_ge1 NumR v = true.
Proof. intros ->. cbn [n_ge1 NumR]. destruct (Rle_dec 1 1); [reflexivity|lra]. Qed.

Lemma conv_step fuel j c : (1 <= fuel)%nat -> CI j c ->
  exists c', conv_next NumR sin cos FmtR ch fuel c = Ok (Some (out j, c')) /\ CI (S j) c'.
Proof.
  intros Hf (Hs & Hr & Hp & HP & Hv). unfold conv_next.
  destruct j as [|j].
  - (* first output: nothing pulled *)
    cbn [Nat.eqb] in Hv. rewrite (advance_done fuel c (ge1_0 _ Hv)). cbn [bind].
    rewrite Hv. rewrite (pushed_read 0 (itp c) HP). cbn [bind].
    eexists. split; [reflexivity|].
    unfold CI. cbn [src ratio pulls itp ival Nat.eqb].
    split; [exact Hs|]. split; [exact Hr|]. split; [exact Hp|]. split; [exact HP|].
    cbn [T n_add NumR]. rewrite Hr. ring.
  - cbn [Nat.eqb] in Hv. replace (S j - 1)%nat with j in * by rlia.
    destruct fuel as [|fuel]; [rlia|]. cbn [advance]. rewrite (ge1_1 _ Hv).
    assert (Hfr : src_frame NumR FmtR ch c = srcf j) by (unfold src_frame, srcf; rewrite Hs, Hp; reflexivity).
    rewrite Hfr. destruct (pushed_step j (itp c) HP) as (s' & -> & HP'). cbn [bind].
    rewrite advance_done by (cbn [ival]; apply ge1_0; rewrite Hv; cbn [n_sub n_one NumR]; ring).
    cbn [bind]. cbn [itp ival].
    replace (n_sub NumR (ival c) (n_one NumR)) with 0 by (rewrite Hv; cbn [n_sub n_one NumR]; ring).
    rewrite (pushed_read (S j) s' HP'). cbn [bind].
    eexists. split; [reflexivity|].
    unfold CI. cbn [src ratio pulls itp ival Nat.eqb]. replace (S (S j) - 1)%nat with (S j) by rlia.
    split; [exact Hs|]. split; [exact Hr|]. split; [rewrite Hp; reflexivity|]. split; [exact HP'|].
    cbn [T n_add NumR]. rewrite Hr. ring.
Qed.

Lemma conv_run_ratio1 fuel : (1 <= fuel)%nat -> forall k j c, CI j c ->
  exists c', conv_run NumR sin cos FmtR ch fuel c k = Ok (Some (map out (seq j k), c')) /\ CI (j + k) c'.
Proof.
  intros Hf. induction k as [|k IH]; intros j c H.
  - exists c. rewrite Nat.add_0_r. split; [reflexivity|exact H].
  - destruct (conv_step fuel j c Hf H) as (c1 & E1 & H1).
    destruct (IH (S j) c1 H1) as (c2 & E2 & H2).
    exists c2. cbn [conv_run seq map]. rewrite E1. cbn [bind]. rewrite E2. cbn [bind].
    split; [reflexivity|]. replace (j + S k)%nat with (S j + k)%nat by rlia. exact H2.
Qed.

(* through the converter at ratio exactly 1: output j is source frame j - depth, zeros before *)
Theorem converter_delay fuel k : (1 <= fuel)%nat ->
  exists s0 c', sinc_init NumR FmtR ch d = Ok s0 /\
    conv_run NumR sin cos FmtR ch fuel (conv_new NumR FmtR source s0 1) k
    = Ok (Some (map out (seq 0 k), c')) /\ pulls c' = (k - 1)%nat.
Proof.
  intros Hf. exists (silent NumR FmtR ch d).
  assert (H0 : CI 0 (conv_new NumR FmtR source (silent NumR FmtR ch d) 1)).
  { unfold CI, conv_new. cbn [src ratio pulls itp ival Nat.eqb Nat.sub].
    split; [reflexivity|]. split; [reflexivity|]. split; [reflexivity|]. split; [exact pushed_0|reflexivity]. }
  destruct (conv_run_ratio1 fuel Hf k 0%nat _ H0) as (c' & E & H').
  exists c'. split; [apply sinc_init_silent; exact Hd|]. split; [exact E|].
  destruct H' as (_ & _ & Hp & _). exact Hp.
Qed.

End Grid.
