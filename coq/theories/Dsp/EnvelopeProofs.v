(* Proofs about the envelope-follower model (Envelope.v) on the real-number instance. *)
Require Import Floats.SpecFloat.
Require Import ZArith Bool List Lia Reals Lra.
From Flocq Require Import Core.
From Dasp Require Import Base.Res Dsp.EnvNum Dsp.EnvNumR Dsp.Peak Dsp.Envelope.
Import ListNotations.
Open Scope R_scope.

(* the gain chosen by one update: attack iff the detected value exceeds the previous envelope *)
Definition gsel (ga gr l d : R) : R := if Rlt_bool l d then ga else gr.

Lemma gsel_attack ga gr l d : l < d -> gsel ga gr l d = ga.
Proof. intros H. unfold gsel. now rewrite Rlt_bool_true. Qed.
Lemma gsel_release ga gr l d : ~ l < d -> gsel ga gr l d = gr.
Proof. intros H. unfold gsel. rewrite Rlt_bool_false; [reflexivity | lra]. Qed.

(* env' = d + g (env - d) *)
Lemma env_step_one_pole ga gr l d : env_step NumR ga gr l d = d + gsel ga gr l d * (l - d).
Proof. unfold env_step, gsel. cbn. destruct (Rlt_bool l d); ring. Qed.

Lemma env_step_attack_iff ga gr l d :
  (d > l -> env_step NumR ga gr l d = d + ga * (l - d)) /\
  (~ d > l -> env_step NumR ga gr l d = d + gr * (l - d)).
Proof.
  split; intros H; rewrite env_step_one_pole.
  - rewrite gsel_attack by lra. reflexivity.
  - rewrite gsel_release by lra. reflexivity.
Qed.

Lemma env_step_between ga gr l d : 0 <= ga <= 1 -> 0 <= gr <= 1 ->
  Rmin l d <= env_step NumR ga gr l d <= Rmax l d.
Proof.
  intros Ha Hr. rewrite env_step_one_pole.
  assert (Hg : 0 <= gsel ga gr l d <= 1) by (unfold gsel; destruct (Rlt_bool l d); assumption).
  set (g := gsel ga gr l d) in *. clearbody g.
  unfold Rmin, Rmax. destruct (Rle_dec l d); split; nra.
Qed.

Lemma env_step_zero_gain ga gr l d : gsel ga gr l d = 0 -> env_step NumR ga gr l d = d.
Proof. intros H. rewrite env_step_one_pole, H. cbn [T NumR]. ring. Qed.

Lemma env_step_zero_attack gr l d : l < d -> env_step NumR 0 gr l d = d.
Proof. intros H. apply env_step_zero_gain. now apply gsel_attack. Qed.
Lemma env_step_zero_release ga l d : ~ l < d -> env_step NumR ga 0 l d = d.
Proof. intros H. apply env_step_zero_gain. now apply gsel_release. Qed.

(* constant detected value: geometric, sign-preserving approach *)
Fixpoint iter_env (ga gr l d : R) (n : nat) : R :=
  match n with O => l | S k => iter_env ga gr (env_step NumR ga gr l d) d k end.

Lemma gsel_stable ga gr l d : 0 <= ga -> 0 <= gr ->
  let l' := env_step NumR ga gr l d in
  gsel ga gr l d * (l' - d) = gsel ga gr l' d * (l' - d).
Proof.
  intros Ha Hr l'. subst l'. rewrite env_step_one_pole.
  destruct (Rlt_dec l d) as [L|L].
  - rewrite (gsel_attack _ _ l d L).
    destruct (Req_dec ga 0) as [->|NZ]; [ring_simplify; ring|].
    rewrite gsel_attack; [reflexivity|]. nra.
  - rewrite (gsel_release _ _ l d L).
    destruct (Req_dec gr 0) as [->|NZ]; [ring_simplify; ring|].
    destruct (Req_dec l d) as [->|NE]; [ring_simplify; ring|].
    rewrite gsel_release; [reflexivity|]. nra.
Qed.

Lemma iter_env_geometric ga gr l d n : 0 <= ga -> 0 <= gr ->
  iter_env ga gr l d n = d + gsel ga gr l d ^ n * (l - d).
Proof.
  intros Ha Hr. revert l. induction n as [|n IH]; intros l.
  - cbn. ring.
  - cbn [iter_env]. rewrite IH.
    pose proof (gsel_stable ga gr l d Ha Hr) as S. cbv zeta in S.
    set (l' := env_step NumR ga gr l d) in *.
    assert (E : l' - d = gsel ga gr l d * (l - d)) by (unfold l'; rewrite env_step_one_pole; ring).
    (* g'^n (l' - d) = g^n (l' - d) by induction on n using S *)
    assert (P : forall k, gsel ga gr l' d ^ k * (l' - d) = gsel ga gr l d ^ k * (l' - d)).
    { induction k as [|k IHk]; [reflexivity|]. cbn [pow].
      rewrite Rmult_assoc, IHk. rewrite <- Rmult_assoc, (Rmult_comm (gsel ga gr l' d)), Rmult_assoc, <- S. ring. }
    rewrite P, E. cbn [pow]. ring.
Qed.

Lemma iter_env_abs ga gr l d n : 0 <= ga -> 0 <= gr ->
  Rabs (iter_env ga gr l d n - d) = gsel ga gr l d ^ n * Rabs (l - d).
Proof.
  intros Ha Hr. rewrite iter_env_geometric by assumption.
  replace (d + gsel ga gr l d ^ n * (l - d) - d) with (gsel ga gr l d ^ n * (l - d)) by ring.
  rewrite Rabs_mult. f_equal. apply Rabs_pos_eq. apply pow_le. unfold gsel. destruct (Rlt_bool l d); assumption.
Qed.

Lemma iter_env_monotone ga gr l d n : 0 <= ga <= 1 -> 0 <= gr <= 1 ->
  Rabs (iter_env ga gr l d (S n) - d) <= Rabs (iter_env ga gr l d n - d) /\
  (l <= d -> iter_env ga gr l d n <= iter_env ga gr l d (S n) <= d) /\
  (d <= l -> d <= iter_env ga gr l d (S n) <= iter_env ga gr l d n).
Proof.
  intros Ha Hr.
  assert (Hg : 0 <= gsel ga gr l d <= 1) by (unfold gsel; destruct (Rlt_bool l d); assumption).
  rewrite !iter_env_abs, !iter_env_geometric by lra. set (g := gsel ga gr l d) in *. clearbody g.
  assert (Hp : 0 <= g ^ n <= 1).
  { split; [apply pow_le; lra|]. rewrite <- (pow1 n). apply pow_incr. lra. }
  cbn [pow]. set (p := g ^ n) in *. clearbody p.
  assert (Hq : 0 <= g * p <= p) by nra. set (q := g * p) in *. clearbody q.
  pose proof (Rabs_pos (l - d)) as Hab.
  split; [|split].
  - assert (0 <= (p - q) * Rabs (l - d)) by (apply Rmult_le_pos; lra). lra.
  - intros Hld. assert (0 <= (p - q) * (d - l)) by (apply Rmult_le_pos; lra).
    assert (0 <= q * (d - l)) by (apply Rmult_le_pos; lra). lra.
  - intros Hld. assert (0 <= (p - q) * (l - d)) by (apply Rmult_le_pos; lra).
    assert (0 <= q * (l - d)) by (apply Rmult_le_pos; lra). lra.
Qed.

(* ---------------- frames, detector, setters ---------------- *)

Lemma det_next_frames (dt : detector NumR) (d : list R) :
  fst (det_next NumR dt d) = map2 (fun l x => x + gsel (attack_gain dt) (release_gain dt) l x * (l - x)) (last_env dt) d /\
  last_env (snd (det_next NumR dt d)) = fst (det_next NumR dt d) /\
  attack_gain (snd (det_next NumR dt d)) = attack_gain dt /\
  release_gain (snd (det_next NumR dt d)) = release_gain dt.
Proof.
  unfold det_next. cbn [fst snd last_env attack_gain release_gain]. repeat split.
  generalize (last_env dt). intros l. revert d. induction l as [|x l IH]; intros [|y d]; cbn [map2]; try reflexivity.
  rewrite env_step_one_pole, IH. reflexivity.
Qed.

Lemma map2_length {A B C} (g : A -> B -> C) l1 l2 : length l1 = length l2 -> length (map2 g l1 l2) = length l1.
Proof. revert l2; induction l1 as [|x l1 IH]; intros [|y l2] H; cbn in *; try discriminate; auto. Qed.

Lemma det_const_frames (dt : detector NumR) (d : list R) n :
  0 <= attack_gain dt -> 0 <= release_gain dt -> length (last_env dt) = length d ->
  last_env (det_const NumR dt d n) =
    map2 (fun l x => x + gsel (attack_gain dt) (release_gain dt) l x ^ n * (l - x)) (last_env dt) d /\
  attack_gain (det_const NumR dt d n) = attack_gain dt /\ release_gain (det_const NumR dt d n) = release_gain dt.
Proof.
  intros Ha Hr. revert dt Ha Hr. induction n as [|n IH]; intros dt Ha Hr HL.
  - cbn [det_const pow]. repeat split. revert d HL. generalize (last_env dt). intros l.
    induction l as [|x l IHl]; intros [|y d] HL; cbn in *; try discriminate; [reflexivity|].
    f_equal; [ring | apply IHl; lia].
  - cbn [det_const]. destruct (det_next_frames dt d) as (E1 & E2 & E3 & E4).
    specialize (IH (snd (det_next NumR dt d))). rewrite E3, E4, E2, E1 in IH.
    specialize (IH Ha Hr). rewrite map2_length in IH by exact HL. specialize (IH HL).
    destruct IH as (I1 & I2 & I3). repeat split; [|exact I2|exact I3]. rewrite I1.
    clear - Ha Hr HL. revert d HL. generalize (last_env dt). intros l.
    induction l as [|x l IHl]; intros [|y d] HL; cbn in *; try discriminate; [reflexivity|].
    f_equal; [|apply IHl; lia].
    pose proof (iter_env_geometric (attack_gain dt) (release_gain dt) x y (S n) Ha Hr) as G1.
    cbn [iter_env] in G1. rewrite iter_env_geometric in G1 by assumption.
    rewrite env_step_one_pole in G1. exact G1.
Qed.

(* setters change the gain and nothing else *)
Lemma setters_state (N : num) (dt : detector N) (g : G N) :
  last_env (set_attack_gain N dt g) = last_env dt /\ release_gain (set_attack_gain N dt g) = release_gain dt /\
  attack_gain (set_attack_gain N dt g) = g /\
  last_env (set_release_gain N dt g) = last_env dt /\ attack_gain (set_release_gain N dt g) = attack_gain dt /\
  release_gain (set_release_gain N dt g) = g.
Proof. repeat split. Qed.

(* a run is causal: the outputs of a prefix do not depend on what follows (in particular not on
   later setter calls), and the rest of the run continues from the state the prefix left *)
Lemma det_run_app (N : num) (dt : detector N) (ops1 ops2 : list (dop N)) :
  det_run N dt (ops1 ++ ops2) =
    (fst (det_run N dt ops1) ++ fst (det_run N (snd (det_run N dt ops1)) ops2),
     snd (det_run N (snd (det_run N dt ops1)) ops2)).
Proof.
  revert dt. induction ops1 as [|o t IH]; intros dt.
  - cbn. now destruct (det_run N dt ops2).
  - cbn [app det_run]. destruct (det_op N dt o) as [out dt']. rewrite IH.
    destruct (det_run N dt' t) as [outs dt'']. cbn [fst snd].
    destruct (det_run N dt'' ops2) as [o2 d2]. cbn [fst snd]. now rewrite app_assoc.
Qed.

Lemma setter_only_subsequent (N : num) (dt : detector N) (ops1 ops2 : list (dop N)) (o : dop N) :
  (forall d, o <> DFrame d) ->
  fst (det_run N dt (ops1 ++ o :: ops2)) =
    fst (det_run N dt ops1) ++ fst (det_run N (snd (det_op N (snd (det_run N dt ops1)) o)) ops2) /\
  last_env (snd (det_op N (snd (det_run N dt ops1)) o)) = last_env (snd (det_run N dt ops1)).
Proof.
  intros Ho. rewrite det_run_app. cbn [fst det_run].
  destruct o as [d|g|g]; [exfalso; now apply (Ho d)| |]; cbn [det_op fst snd];
    destruct (det_run N _ ops2); split; reflexivity.
Qed.

(* ---------------- the gain ---------------- *)
Section Gain.
Variable pow : R -> R -> R.
Variable gE : R.
Hypothesis pow_range : forall x, x <= 0 -> 0 <= pow gE x <= 1.

Definition calc_gain_R (n : R) : R :=
  calc_gain NumR pow gE 0 (fun x => if Req_EM_T x 0 then true else false) (fun x => -1 / x) n.

Lemma calc_gain_range n : 0 <= n -> 0 <= calc_gain_R n <= 1.
Proof.
  intros Hn. unfold calc_gain_R, calc_gain. destruct (Req_EM_T n 0) as [E|NE]; [lra|].
  apply pow_range. assert (0 < n) by lra. assert (0 < / n) by now apply Rinv_0_lt_compat. unfold Rdiv. nra.
Qed.

Lemma calc_gain_zero : calc_gain_R 0 = 0.
Proof. unfold calc_gain_R, calc_gain. destruct (Req_EM_T 0 0); [reflexivity|contradiction]. Qed.
End Gain.

(* with the true exponential the hypothesis holds and the gain is exp(-1/n) *)
Lemma exp_pow_range : forall x, x <= 0 -> 0 <= Rpower (exp 1) x <= 1.
Proof.
  intros x Hx. unfold Rpower. rewrite ln_exp, Rmult_1_r. split; [left; apply exp_pos|].
  rewrite <- exp_0. destruct Hx as [L|E]; [left; now apply exp_increasing | rewrite E; right; reflexivity].
Qed.

Lemma calc_gain_exp n : 0 < n -> calc_gain_R Rpower (exp 1) n = exp (- 1 / n).
Proof.
  intros Hn. unfold calc_gain_R, calc_gain. destruct (Req_EM_T n 0); [lra|].
  unfold Rpower. now rewrite ln_exp, Rmult_1_r.
Qed.
