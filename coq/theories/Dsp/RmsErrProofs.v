(* The drift recurrence behind the executable error bound E (RmsErr.v).
   PROVED here: (1) the one-step inequality on reals, from the standard model of each rounded
   operation |fl(t) - t| <= u |t| + eta (valid for *, +, - of finite binary32/binary64 values
   when the result does not overflow), including the clamp at zero; (2) the executable [e_next]
   dominates the real recurrence (so rounding the bound up to 64 bits is sound).
   The induction that instantiates (1) with Flocq's Bmult/Bplus/Bminus along the model run
   (Relative.error_N_FLT for each operation and the window bookkeeping tying the evicted float
   square to the evicted exact square) is in RmsDriftProofs.v (`c11_drift_bound`); this file is
   its real-number core (`c11_drift_step`). *)
Require Import Reals Lra Lia Psatz ZArith List.
From Flocq Require Import Core Calc.Operations.
From Dasp Require Import Dsp.RmsErr.
Open Scope R_scope.

Definition clampR (d : R) : R := if Rlt_bool d 0 then 0 else d.

Definition next_bound (u eta S T q r : R) : R :=
  let A := S + T + q + (u * q + eta) in
  let B := (1 + u) * A + eta + r + (u * r + eta) in
  T + (u * q + eta) + (u * r + eta) + (u * A + eta) + (u * B + eta).

Lemma drift_step_real (u eta S T q r s qt rt a d : R) :
  0 <= u -> 0 <= eta -> 0 <= S -> 0 <= T -> 0 <= q -> 0 <= r -> 0 <= S + q - r ->
  Rabs (s - S) <= T ->
  Rabs (qt - q) <= u * q + eta ->
  Rabs (rt - r) <= u * r + eta ->
  Rabs (a - (s + qt)) <= u * Rabs (s + qt) + eta ->
  Rabs (d - (a - rt)) <= u * Rabs (a - rt) + eta ->
  Rabs (clampR d - (S + q - r)) <= next_bound u eta S T q r.
Proof.
  intros Hu He HS HT Hq Hr HS' H1 H2 H3 H4 H5. unfold next_bound. cbv zeta.
  set (A := S + T + q + (u * q + eta)).
  set (B := (1 + u) * A + eta + r + (u * r + eta)).
  apply Rabs_le_inv in H1, H2, H3.
  assert (HX : Rabs (s + qt) <= A) by (apply Rabs_le; unfold A; lra).
  assert (HuX : u * Rabs (s + qt) <= u * A) by (apply Rmult_le_compat_l; assumption).
  assert (H4' : Rabs (a - (s + qt)) <= u * A + eta) by lra.
  apply Rabs_le_inv in H4'. pose proof (Rabs_le_inv _ _ HX) as HX'.
  assert (HY : Rabs (a - rt) <= B) by (apply Rabs_le; unfold B; lra).
  assert (HuY : u * Rabs (a - rt) <= u * B) by (apply Rmult_le_compat_l; assumption).
  assert (H5' : Rabs (d - (a - rt)) <= u * B + eta) by lra.
  apply Rabs_le_inv in H5'.
  assert (Hd : Rabs (d - (S + q - r)) <= T + (u * q + eta) + (u * r + eta) + (u * A + eta) + (u * B + eta))
    by (apply Rabs_le; lra).
  unfold clampR. destruct (Rlt_bool_spec d 0) as [Hneg|Hpos]; [|exact Hd].
  apply Rabs_le_inv in Hd. apply Rabs_le. lra.
Qed.

(* ---- the executable bound dominates the real recurrence ---- *)
Lemma dup_ge (a : dy) : F2R a <= F2R (dup a).
Proof.
  unfold dup. destruct (Z.ltb_spec 0 (Z.log2 (Fnum a) - 64)) as [Hk|Hk]; [|lra].
  set (k := (Z.log2 (Fnum a) - 64)%Z) in *.
  unfold F2R. cbn [Fnum Fexp]. rewrite bpow_plus.
  replace (IZR ((Fnum a + 2 ^ k - 1) / 2 ^ k) * (bpow radix2 (Fexp a) * bpow radix2 k))
    with (IZR ((Fnum a + 2 ^ k - 1) / 2 ^ k) * bpow radix2 k * bpow radix2 (Fexp a)) by ring.
  apply Rmult_le_compat_r; [apply bpow_ge_0|].
  rewrite <- IZR_Zpower by lia. rewrite <- mult_IZR. apply IZR_le.
  change (radix_val radix2) with 2%Z.
  assert (Hp : (0 < 2 ^ k)%Z) by (apply Z.pow_pos_nonneg; lia).
  pose proof (Z.div_mod (Fnum a + 2 ^ k - 1) (2 ^ k) ltac:(lia)) as Hd.
  pose proof (Z.mod_pos_bound (Fnum a + 2 ^ k - 1) (2 ^ k) Hp) as Hm. nia.
Qed.

Lemma e_next_ge (u eta S T q r : dy) :
  next_bound (F2R u) (F2R eta) (F2R S) (F2R T) (F2R q) (F2R r) <= F2R (e_next u eta S T q r).
Proof.
  unfold e_next. cbv zeta. eapply Rle_trans; [|apply dup_ge].
  unfold dadd, dmul, d1. rewrite !F2R_plus, !F2R_mult, !F2R_plus, !F2R_mult, !F2R_plus.
  unfold next_bound. cbv zeta.
  replace (F2R (Float radix2 1 0)) with 1 by (unfold F2R; simpl; ring).
  rewrite ?F2R_mult. apply Req_le. ring.
Qed.

(* one step of the verdict's bookkeeping is sound with respect to the rounding model *)
Theorem drift_step (u eta S T q r : dy) (s qt rt a d : R) :
  0 <= F2R u -> 0 <= F2R eta -> 0 <= F2R S -> 0 <= F2R T -> 0 <= F2R q -> 0 <= F2R r ->
  0 <= F2R (dsub (dadd S q) r) ->
  Rabs (s - F2R S) <= F2R T ->
  Rabs (qt - F2R q) <= F2R u * F2R q + F2R eta ->
  Rabs (rt - F2R r) <= F2R u * F2R r + F2R eta ->
  Rabs (a - (s + qt)) <= F2R u * Rabs (s + qt) + F2R eta ->
  Rabs (d - (a - rt)) <= F2R u * Rabs (a - rt) + F2R eta ->
  Rabs (clampR d - F2R (dsub (dadd S q) r)) <= F2R (e_next u eta S T q r).
Proof.
  intros Hu He HS HT Hq Hr HS' H1 H2 H3 H4 H5.
  eapply Rle_trans; [|apply e_next_ge].
  unfold dsub, dadd in *. rewrite F2R_minus, F2R_plus in *.
  apply (drift_step_real _ _ _ _ _ _ s qt rt a d); assumption.
Qed.
