(* Executable IEEE instance of Dsp/Sinc.v and its Z-level interface used by the correspondence
   (lib/props/c18.py, harness/src/bin/c18.rs).

   libm's sin/cos are NOT modelled: the case carries the list of arguments at which the model will
   call them, the implementation side (the harness, calling the same f64::sin / f64::cos the crate
   calls) answers with the values, and the model runs with these finite tables as oracles.  The
   check fails when the model needs an argument that is not in the tables.  Everything else
   (index arithmetic, pulls, weights from the oracle values, accumulation, sample conversions)
   is then determined by IEEE-754 / integer semantics and compared bit for bit. *)
Require Import Floats.SpecFloat.
Require Import List ZArith Bool.
From Flocq Require Import Core BinarySingleNaN.
From Dasp Require Import Base.Res Base.ListX Base.Float Ring.Bounded Ring.Fixed Dsp.Sinc Dsp.SincConv.
Import ListNotations.
Open Scope Z_scope.

Definition f64_half : f64 := F64.of_bits 4602678819172646912.    (* 0x3FE0000000000000 *)
Definition f64_pi : f64 := F64.of_bits 4614256656552045848.      (* 0x400921FB54442D18 = core::f64::consts::PI *)
Definition f64_32768 : f64 := F64.of_Z 32768.

Definition NumF64 : num := {|
  T := f64;
  n_zero := F64.zero; n_one := F64.one; n_half := f64_half; n_pi := f64_pi;
  n_add := F64.add; n_sub := F64.sub; n_mul := F64.mul; n_div := F64.div;
  n_of_nat := fun k => F64.of_Z (Z.of_nat k);
  n_eq0 := fun a => F64.eqb a F64.zero;
  n_ge1 := fun v => F64.geb v F64.one;
|}.

(* f64 frames: to_sample identity, add_amp = + *)
Definition FmtF64 : fmt NumF64 :=
  @Build_fmt NumF64 f64 F64.zero (fun s : f64 => s) (fun (v : f64) (p : f64) => Ok (F64.add v p)).

(* f32 frames: `s as f64`, `p as f32`, + in f32 *)
Definition FmtF32 : fmt NumF64 :=
  @Build_fmt NumF64 f32 F32.zero f32_to_f64 (fun (v : f32) (p : f64) => Ok (F32.add v (f64_to_f32 p))).

(* i16 frames: `s as f64 / 32768.0`, `(p * 32768.0) as i16` (saturating, NaN -> 0),
   i16 + i16 with the overflow check of debug builds *)
Definition FmtI16 : fmt NumF64 :=
  @Build_fmt NumF64 Z 0 (fun s : Z => F64.div (F64.of_Z s) f64_32768)
    (fun (v : Z) (p : f64) =>
      let q := F64.to_Z_sat (-32768) 32767 (F64.mul p f64_32768) in
      let r := v + q in
      if (-32768 <=? r) && (r <=? 32767) then Ok r else Panic POverflow).

(* ---- oracle tables ---- *)
Fixpoint lookup (tbl : list (Z * Z)) (k : Z) : option Z :=
  match tbl with [] => None | (a, v) :: t => if a =? k then Some v else lookup t k end.

Definition oracle (tbl : list (Z * Z)) (a : f64) : f64 :=
  match lookup tbl (F64.bits a) with Some v => F64.of_bits v | None => B754_nan end.

(* ---- cases ---- *)
Inductive zop :=
| ZPush (fr : list Z) | ZInterp (xbits : Z) | ZReset        (* direct use of the Interpolator impl *)
| ZNext | ZSetRatio (bits : Z)                              (* through the Converter *)
(* the other public operations of the Converter (Dsp/SincConv.v), callable between any two outputs *)
| ZSetHz (a b : Z)                  (* set_hz_to_hz(a, b) *)
| ZSetSample (x : Z)                (* set_sample_hz_scale(x) *)
| ZSource                           (* source(): the source's pull counter *)
| ZSrcPull                          (* source_mut().next() *)
| ZIsExh                            (* Signal::is_exhausted *)
| ZAcc                              (* the accumulator (hook verif_interpolation_value) *)
| ZRebuild (kind a b : Z).          (* into_source(), then a constructor (0 scale_playback_hz(a), 1 from_hz_to_hz(a, b),
                                       2 scale_sample_hz(a)) over the returned source with a fresh Sinc of the same depth *)

Inductive scase :=
| DCase (fcode ch depth : Z) (sin_args cos_args : list Z) (ops : list zop)
| VCase (fcode ch depth ratio : Z) (source : list (list Z)) (sin_args cos_args : list Z) (ops : list zop).

Definition zn (k : nat) : Z := Z.of_nat k.
Definition FUEL : nat := 64.
Definition f64_gt0 (x : f64) : bool := F64.ltb F64.zero x.          (* assert!(scale > 0.0) *)
Definition b2z (b : bool) : Z := if b then 1 else 0.
(* the scale a constructor hands to scale_playback_hz *)
Definition ctor_scale (kind a b : Z) : f64 :=
  match kind with
  | 0 => F64.of_bits a
  | 1 => F64.div (F64.of_bits a) (F64.of_bits b)
  | _ => F64.div F64.one (F64.of_bits a)
  end.

Section Runner.
Variable M : fmt NumF64.
Variables (dec : Z -> smp M) (enc : smp M -> Z).
Variables sin_t cos_t : list (Z * Z).
Variable ch : nat.

Notation sin_o := (oracle sin_t).
Notation cos_o := (oracle cos_t).

(* arguments the model passes to the oracles in one interpolate call; all must be tabulated *)
Definition args_ok (s : sinc NumF64 M) (x : f64) : bool :=
  match max_depth NumF64 M s with
  | Ok md =>
    forallb (fun k =>
      forallb (fun a =>
        (if F64.eqb a F64.zero then true else match lookup sin_t (F64.bits a) with Some _ => true | None => false end)
        && match lookup cos_t (F64.bits (F64.div a (F64.of_Z (zn (sdepth NumF64 M s))))) with Some _ => true | None => false end)
        [tap_arg NumF64 x k; tap_arg NumF64 (F64.sub F64.one x) k])
      (seq 0 md)
  | _ => true
  end.

Definition out_frame (r : res (list (smp M))) (extra : list Z) : list Z :=
  match r with
  | Ok fr => 1 :: extra ++ map enc fr
  | Panic k => [8; zn (panic_code k)]
  | UB => [-2]
  end.

Fixpoint drun (s : sinc NumF64 M) (ops : list zop) : list (list Z) :=
  match ops with
  | [] => []
  | ZPush fr :: t =>
    match next_source_frame NumF64 M s (map dec fr) with
    | Ok s' => [7] :: drun s' t
    | Panic k => [[8; zn (panic_code k)]]
    | UB => [[-2]]
    end
  | ZInterp xb :: t =>
    let x := F64.of_bits xb in
    if args_ok s x then out_frame (interpolate NumF64 sin_o cos_o M ch s x) [] :: drun s t
    else [[-4]]
  | ZReset :: t =>
    match reset NumF64 M ch s with
    | Ok s' => [7] :: drun s' t
    | Panic k => [[8; zn (panic_code k)]]
    | UB => [[-2]]
    end
  | _ :: _ => [[-5]]
  end.

(* the Converter; a panic inside next() ends the case (the harness stops there too) *)
Fixpoint vrun (c : conv NumF64 M) (ops : list zop) : list (list Z) :=
  match ops with
  | [] => []
  | ZNext :: t =>
    match advance NumF64 M ch FUEL c with
    | Ok (Some c1) =>
      if args_ok (itp c1) (ival c1) then
        match conv_next NumF64 sin_o cos_o M ch FUEL c with
        | Ok (Some (o, c2)) => (1 :: zn (pulls c2) :: map enc o) :: vrun c2 t
        | Ok None => [[-3]]
        | Panic k => [[8; zn (panic_code k)]]
        | UB => [[-2]]
        end
      else [[-4]]
    | Ok None => [[-3]]
    | Panic k => [[8; zn (panic_code k)]]
    | UB => [[-2]]
    end
  | ZSetRatio b :: t =>
    [7] :: vrun {| src := src c; pulls := pulls c; itp := itp c; ival := ival c; ratio := F64.of_bits b |} t
  | ZSetHz a b :: t => [7] :: vrun (conv_set_hz_to_hz NumF64 M c (F64.of_bits a) (F64.of_bits b)) t
  | ZSetSample x :: t => [7] :: vrun (conv_set_sample_hz_scale NumF64 M c (F64.of_bits x)) t
  | ZSource :: t => [2; zn (pulls c)] :: vrun c t
  | ZSrcPull :: t =>
    let (fr, c') := conv_source_pull NumF64 M ch c in (3 :: zn (pulls c') :: map enc fr) :: vrun c' t
  | ZIsExh :: t => [4; b2z (conv_is_exhausted NumF64 M c)] :: vrun c t
  | ZAcc :: t => [5; F64.bits (ival c)] :: vrun c t
  | ZRebuild kind a b :: t =>
    match sinc_init NumF64 M ch (sdepth NumF64 M (itp c)) with
    | Ok s =>
      match conv_rebuild NumF64 M f64_gt0 c s (ctor_scale kind a b) with
      | Ok c' => [7] :: vrun c' t
      | Panic _ => [[8; 9]]         (* the assertion carries a custom message: harness class 9 *)
      | UB => [[-2]]
      end
    | Panic k => [[8; zn (panic_code k)]]
    | UB => [[-2]]
    end
  | _ :: _ => [[-5]]
  end.

Definition run_d (depth : nat) (ops : list zop) : list (list Z) :=
  match sinc_init NumF64 M ch depth with
  | Ok s => [7] :: drun s ops
  | Panic k => [[8; zn (panic_code k)]]
  | UB => [[-2]]
  end.

Definition run_v (depth : nat) (ratio : Z) (source : list (list Z)) (ops : list zop) : list (list Z) :=
  match sinc_init NumF64 M ch depth with
  | Ok s => [7]
            :: vrun (conv_new NumF64 M (map (map dec) source) s (F64.of_bits ratio)) ops
  | Panic k => [[8; zn (panic_code k)]]
  | UB => [[-2]]
  end.
End Runner.

Definition id_z (z : Z) : Z := z.

Definition run_fmt (fcode : Z) (sin_t cos_t : list (Z * Z)) (ch : nat)
  (k : forall M : fmt NumF64, (Z -> smp M) -> (smp M -> Z) -> list (list Z)) : list (list Z) :=
  match fcode with
  | 0 => k FmtF64 F64.of_bits F64.bits
  | 1 => k FmtF32 F32.of_bits F32.bits
  | 2 => k FmtI16 id_z id_z
  | _ => [[-6]]
  end.

(* observations: [sin values]; [cos values]; [7] (constructed) or [8 code]; one per op *)
Definition run_case (c : scase) (sin_v cos_v : list Z) : list (list Z) :=
  match c with
  | DCase fcode ch depth sa ca ops =>
    run_fmt fcode (combine sa sin_v) (combine ca cos_v) (Z.to_nat ch)
      (fun M dec enc => run_d M dec enc (combine sa sin_v) (combine ca cos_v) (Z.to_nat ch) (Z.to_nat depth) ops)
  | VCase fcode ch depth ratio source sa ca ops =>
    run_fmt fcode (combine sa sin_v) (combine ca cos_v) (Z.to_nat ch)
      (fun M dec enc => run_v M dec enc (combine sa sin_v) (combine ca cos_v) (Z.to_nat ch) (Z.to_nat depth) ratio source ops)
  end.

Definition case_args (c : scase) : list Z * list Z :=
  match c with DCase _ _ _ sa ca _ => (sa, ca) | VCase _ _ _ _ _ sa ca _ => (sa, ca) end.

Definition zll_eqb (a b : list (list Z)) : bool :=
  if list_eq_dec (list_eq_dec Z.eq_dec) a b then true else false.

Definition check (c : scase * list (list Z)) : bool :=
  match snd c with
  | sin_v :: cos_v :: rest =>
    (length sin_v =? length (fst (case_args (fst c))))%nat
    && (length cos_v =? length (snd (case_args (fst c))))%nat
    && zll_eqb (run_case (fst c) sin_v cos_v) rest
  | _ => false
  end.
