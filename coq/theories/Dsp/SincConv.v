(* The remaining public operations of dasp_signal::interpolate::Converter over the Sinc model of
   Dsp/Sinc.v (dasp_signal/src/interpolate.rs:35-118, 165-167), written after the source:

     from_hz_to_hz / scale_playback_hz / scale_sample_hz   (constructors, `assert!(scale > 0.0)`)
     set_hz_to_hz / set_playback_hz_scale / set_sample_hz_scale
     source() / source_mut() / into_source()
     Signal::is_exhausted

   The semantics of the three setters is "ONLY THE RATIO CHANGES": source, pull counter, interpolator
   and the accumulator (interpolation_value) are the ones before the call, whatever the accumulator's
   value is (0, fractional, exactly 1.0 pending, above 1).  Re-announcing the ratio the converter
   already runs at is therefore the identity ([conv_set_ratio_same]).
   The accessors do not change the converter; what a caller does THROUGH `source_mut()` is his own
   business: [conv_source_pull] is `source_mut().next()` on the instrumented source.
   Definitions only (the proofs are in Dsp/SincConvProofs.v). *)
Require Import List Arith Bool.
From Dasp Require Import Base.Res Base.ListX Ring.Bounded Ring.Fixed Dsp.Sinc.
Import ListNotations.

Section SincConv.
Variable N : num.
Variable M : fmt N.
Variable ch : nat.

Notation frame := (list (smp M)).
Notation conv := (conv N M).

(* self.source_to_target_ratio = scale; *)
Definition conv_set_ratio (c : conv) (r : T N) : conv :=
  {| src := src c; pulls := pulls c; itp := itp c; ival := ival c; ratio := r |}.

Definition conv_set_playback_hz_scale (c : conv) (scale : T N) : conv := conv_set_ratio c scale.

(* self.set_playback_hz_scale(source_hz / target_hz) *)
Definition conv_set_hz_to_hz (c : conv) (source_hz target_hz : T N) : conv :=
  conv_set_playback_hz_scale c (n_div N source_hz target_hz).

(* self.set_playback_hz_scale(1.0 / scale) *)
Definition conv_set_sample_hz_scale (c : conv) (scale : T N) : conv :=
  conv_set_playback_hz_scale c (n_div N (n_one N) scale).

(* the instrumented source: exhausted once every listed frame has been pulled *)
Definition conv_src_exhausted (c : conv) : bool := length (src c) <=? pulls c.

(* self.source.is_exhausted() && self.interpolation_value >= 1.0 *)
Definition conv_is_exhausted (c : conv) : bool := conv_src_exhausted c && n_ge1 N (ival c).

(* source_mut().next(): the caller takes one frame from the source behind the converter's back *)
Definition conv_source_pull (c : conv) : frame * conv :=
  (src_frame N M ch c,
   {| src := src c; pulls := S (pulls c); itp := itp c; ival := ival c; ratio := ratio c |}).

(* into_source() followed by a constructor over the returned source with a new interpolator:
   the source continues where the old converter left it, everything else starts afresh.
   [gt0 scale] is the constructor's `assert!(scale > 0.0)`. *)
Definition conv_rebuild (gt0 : T N -> bool) (c : conv) (s : sinc N M) (scale : T N) : res conv :=
  if gt0 scale
  then Ok {| src := src c; pulls := pulls c; itp := s; ival := n_zero N; ratio := scale |}
  else Panic PAssert.

(* ---- scripts: a converter driven by `next` with setter / accessor calls in between ---- *)
Inductive cop :=
| CNext                                   (* Signal::next *)
| CSetPlay (x : T N)                      (* set_playback_hz_scale(x) *)
| CSetHz (a b : T N)                      (* set_hz_to_hz(a, b) *)
| CSetSample (x : T N)                    (* set_sample_hz_scale(x) *)
| CPeek.                                  (* source() / source_mut() without a pull / is_exhausted() *)

Variables sin_o cos_o : T N -> T N.

(* the frames produced by the `next` calls of the script, in order *)
Fixpoint conv_script (fuel : nat) (c : conv) (ops : list cop) : res (option (list frame * conv)) :=
  match ops with
  | [] => Ok (Some ([], c))
  | CNext :: t =>
    let* r := conv_next N sin_o cos_o M ch fuel c in
    match r with
    | None => Ok None
    | Some (o, c1) =>
      let* r' := conv_script fuel c1 t in
      match r' with None => Ok None | Some (os, c2) => Ok (Some (o :: os, c2)) end
    end
  | CSetPlay x :: t => conv_script fuel (conv_set_playback_hz_scale c x) t
  | CSetHz a b :: t => conv_script fuel (conv_set_hz_to_hz c a b) t
  | CSetSample x :: t => conv_script fuel (conv_set_sample_hz_scale c x) t
  | CPeek :: t => conv_script fuel c t
  end.

Definition is_next (o : cop) : bool := match o with CNext => true | _ => false end.
Definition count_next (ops : list cop) : nat := length (filter is_next ops).

End SincConv.

Arguments CNext {N}.
Arguments CSetPlay {N} x.
Arguments CSetHz {N} a b.
Arguments CSetSample {N} x.
Arguments CPeek {N}.
