(* C10 -- proofs about the in-place slice operations with a frame operation that can panic
   (Frame/SliceFallible.v): the loop with unchecked accesses is safe when the lengths agree, equals the
   structural specification [zip_r_spec], a panic in the frame operation leaves exactly the frames before it
   updated, a total frame operation gives back the operations of Frame/Slice.v (so every theorem about those
   carries over), a length mismatch is the assert panic before anything is touched. *)
Require Import List Arith Lia.
From Dasp Require Import Base.Res Base.ListX Frame.Slice Frame.SliceSpec Frame.SliceProofs Frame.SliceFallible.
Import ListNotations.

Section Proofs.
Context {FA FB AMP : Type}.

Lemma nth_error_app_mid' {X} (pre : list X) x t k : k = length pre -> nth_error (pre ++ x :: t) k = Some x.
Proof. intros ->. induction pre; simpl; auto. Qed.

Lemma set_nth_app_mid' {X} (pre : list X) x t z k : k = length pre -> set_nth k z (pre ++ x :: t) = pre ++ z :: t.
Proof. intros ->. induction pre; simpl; congruence. Qed.

Lemma zip_loop_r_spec (f : FA -> FB -> res FA) (a : list FA) : forall pre_b b pre,
  length pre = length pre_b -> length a = length b ->
  zip_loop_r f (pre_b ++ b) (length a) (length pre) (pre ++ a) =
  (pre ++ fst (zip_r_spec f a b), snd (zip_r_spec f a b)).
Proof.
  induction a as [|x a IH]; intros pre_b b pre Hp Hl.
  - destruct b; [|discriminate]. reflexivity.
  - destruct b as [|y b]; [discriminate|]. cbn [length zip_loop_r zip_r_spec]. unfold get_unchecked.
    rewrite (nth_error_app_mid' pre x a _ eq_refl), (nth_error_app_mid' pre_b y b _ Hp).
    destruct (f x y) as [v|k|] eqn:Ef; cbn [fst snd]; try reflexivity.
    rewrite (set_nth_app_mid' pre x a _ _ eq_refl).
    replace (pre_b ++ y :: b) with ((pre_b ++ [y]) ++ b) by (now rewrite <- app_assoc).
    replace (pre ++ v :: a) with ((pre ++ [v]) ++ a) by (now rewrite <- app_assoc).
    replace (S (length pre)) with (length (pre ++ [v])) by (rewrite app_length; simpl; lia).
    rewrite IH.
    + rewrite <- app_assoc. reflexivity.
    + rewrite !app_length. simpl. lia.
    + simpl in Hl. lia.
Qed.

(* equal lengths: no unchecked access leaves either slice; the outcome is the structural specification *)
Lemma zip_map_r_spec (f : FA -> FB -> res FA) a b : length a = length b ->
  zip_map_in_place_r f a b = zip_r_spec f a b.
Proof.
  intros H. unfold zip_map_in_place_r, zip_map_in_place_unchecked_r. rewrite H, Nat.eqb_refl, <- H.
  pose proof (zip_loop_r_spec f a [] b [] eq_refl H) as E. cbn [app length] in E. rewrite E.
  now destruct (zip_r_spec f a b).
Qed.

Lemma zip_map_r_mismatch (f : FA -> FB -> res FA) a b : length a <> length b ->
  zip_map_in_place_r f a b = (a, Panic PAssert).
Proof.
  intros H. unfold zip_map_in_place_r. destruct (Nat.eqb_spec (length a) (length b)); [contradiction|reflexivity].
Qed.

(* every call returns: the specification is the element-wise image *)
Lemma zip_r_spec_total (f : FA -> FB -> res FA) (g : FA -> FB -> FA) : forall a b,
  length a = length b ->
  (forall i x y, nth_error a i = Some x -> nth_error b i = Some y -> f x y = Ok (g x y)) ->
  zip_r_spec f a b = (map2 g a b, Ok tt).
Proof.
  induction a as [|x a IH]; intros [|y b] Hl Hf; try discriminate; [reflexivity|].
  cbn [zip_r_spec]. rewrite (Hf 0 x y eq_refl eq_refl).
  rewrite IH; [reflexivity|simpl in Hl; lia|].
  intros i x' y' Hx Hy. exact (Hf (S i) x' y' Hx Hy).
Qed.

(* a frame operation that never panics on the frames it meets: the operation of Frame/Slice.v *)
Lemma zip_map_r_total (f : FA -> FB -> res FA) (g : FA -> FB -> FA) a b :
  (forall i x y, nth_error a i = Some x -> nth_error b i = Some y -> f x y = Ok (g x y)) ->
  zip_map_in_place_r f a b = zip_map_in_place g a b.
Proof.
  intros Hf. destruct (Nat.eq_dec (length a) (length b)) as [H|H].
  - rewrite zip_map_r_spec, zip_map_spec by exact H. now apply zip_r_spec_total.
  - now rewrite zip_map_r_mismatch, zip_map_mismatch.
Qed.

(* the first panicking call: [vs] are the results of the calls before it; those frames are stored, the frame of
   the panicking call and all later ones keep their old value, and the panic is the call's *)
Lemma zip_r_spec_first_panic (f : FA -> FB -> res FA) : forall a1 b1 vs x y a2 b2 k,
  length a1 = length b1 -> map2 f a1 b1 = map Ok vs -> f x y = Panic k ->
  zip_r_spec f (a1 ++ x :: a2) (b1 ++ y :: b2) = (vs ++ x :: a2, Panic k).
Proof.
  induction a1 as [|x1 a1 IH]; intros [|y1 b1] vs x y a2 b2 k Hl Hm Hf; try discriminate.
  - destruct vs; [|discriminate]. cbn [app zip_r_spec]. now rewrite Hf.
  - destruct vs as [|v vs]; [discriminate|]. unfold map2 in Hm. cbn in Hm. injection Hm as Hv Hm.
    cbn [app zip_r_spec]. rewrite Hv. rewrite (IH b1 vs x y a2 b2 k); [reflexivity|simpl in Hl; lia|exact Hm|exact Hf].
Qed.

Lemma zip_map_r_first_panic (f : FA -> FB -> res FA) a1 b1 vs x y a2 b2 k :
  length a1 = length b1 -> length a2 = length b2 -> map2 f a1 b1 = map Ok vs -> f x y = Panic k ->
  zip_map_in_place_r f (a1 ++ x :: a2) (b1 ++ y :: b2) = (vs ++ x :: a2, Panic k).
Proof.
  intros H1 H2 Hm Hf. rewrite zip_map_r_spec by (rewrite !app_length; simpl; lia).
  now apply zip_r_spec_first_panic.
Qed.

(* the unsafe loop adds no undefined behaviour of its own *)
Lemma zip_r_spec_no_UB (f : FA -> FB -> res FA) : (forall x y, f x y <> UB) ->
  forall a b, snd (zip_r_spec f a b) <> UB.
Proof.
  intros Hf. induction a as [|x a IH]; intros [|y b]; cbn [zip_r_spec snd]; try discriminate.
  destruct (f x y) eqn:E; cbn [snd]; [apply IH|discriminate|now apply Hf in E].
Qed.

Lemma zip_map_r_no_UB (f : FA -> FB -> res FA) a b : (forall x y, f x y <> UB) ->
  snd (zip_map_in_place_r f a b) <> UB.
Proof.
  intros Hf. destruct (Nat.eq_dec (length a) (length b)) as [H|H].
  - rewrite zip_map_r_spec by exact H. now apply zip_r_spec_no_UB.
  - rewrite zip_map_r_mismatch by exact H. discriminate.
Qed.

(* the destination keeps its length, whatever happens *)
Lemma zip_r_spec_length (f : FA -> FB -> res FA) : forall a b, length (fst (zip_r_spec f a b)) = length a.
Proof.
  induction a as [|x a IH]; intros [|y b]; cbn [zip_r_spec fst]; try reflexivity.
  destruct (f x y); cbn [fst length]; try reflexivity. now rewrite IH.
Qed.

(* map_in_place *)
Lemma map_in_place_r_total (m : FA -> res FA) (g : FA -> FA) : forall a,
  (forall x, In x a -> m x = Ok (g x)) -> map_in_place_r m a = (map_in_place g a, Ok tt).
Proof.
  induction a as [|x a IH]; intros Hm; [reflexivity|].
  cbn [map_in_place_r map_in_place]. rewrite (Hm x (or_introl eq_refl)).
  rewrite IH; [reflexivity|]. intros x' Hx. apply Hm. now right.
Qed.

Lemma map_in_place_r_first_panic (m : FA -> res FA) : forall a1 vs x a2 k,
  map m a1 = map Ok vs -> m x = Panic k ->
  map_in_place_r m (a1 ++ x :: a2) = (vs ++ x :: a2, Panic k).
Proof.
  induction a1 as [|x1 a1 IH]; intros vs x a2 k Hm Hf.
  - destruct vs; [|discriminate]. cbn [app map_in_place_r]. now rewrite Hf.
  - destruct vs as [|v vs]; [discriminate|]. cbn in Hm. injection Hm as Hv Hm.
    cbn [app map_in_place_r]. rewrite Hv, (IH vs x a2 k Hm Hf). reflexivity.
Qed.

(* derived operations *)
Lemma add_in_place_r_spec (add_amp : FA -> FB -> res FA) a b : length a = length b ->
  add_in_place_r add_amp a b = zip_r_spec add_amp a b.
Proof. intros H. unfold add_in_place_r. now rewrite zip_map_r_spec. Qed.

Lemma add_with_amp_r_spec (add_amp : FA -> FB -> res FA) (mul_amp : FB -> AMP -> res FB) a b amp :
  length a = length b ->
  add_in_place_with_amp_per_channel_r add_amp mul_amp a b amp =
  zip_r_spec (fun x y => let* s := mul_amp y amp in add_amp x s) a b.
Proof. intros H. unfold add_in_place_with_amp_per_channel_r. now rewrite zip_map_r_spec. Qed.

End Proofs.
