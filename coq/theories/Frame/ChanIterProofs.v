(* C03 -- whatever script of iterator steps is applied to ONE channels() iterator, every step observes, and the
   iterator is left at, exactly what a list iterator over the frame's channels would: the provided methods of
   core::iter (nth, skip, step_by, count, last), run through the model of the crate's next(), refine the list
   semantics.  Proved for any next() that pops the head of an abstract "remaining" list, then instantiated
   with Frame.channels_next ([S; N]) and Frame.mono_channels_next (bare sample). *)
Require Import List Arith Bool Lia.
From Dasp Require Import Base.Res Base.ListX Frame.Frame Frame.ChanIter.
Import ListNotations.

Section Refine.
Context {A St : Type}.
Variable next : St -> option A * St.
Variable len : St -> res nat.
Variable rem : St -> list A.
Variable Inv : St -> Prop.
Hypothesis Hnext : forall st, Inv st ->
  fst (next st) = hd_error (rem st) /\ rem (snd (next st)) = tl (rem st) /\ Inv (snd (next st)).
Hypothesis Hlen : forall st, Inv st -> len st = Ok (length (rem st)).

Lemma nth_via_spec k : forall st, Inv st ->
  fst (nth_via next k st) = nth_error (rem st) k /\ rem (snd (nth_via next k st)) = skipn (S k) (rem st) /\
  Inv (snd (nth_via next k st)).
Proof.
  induction k as [|k IH]; intros st Hi; cbn [nth_via].
  - destruct (Hnext st Hi) as (H1 & H2 & H3). rewrite H1, H2. repeat split; auto; destruct (rem st); reflexivity.
  - destruct (Hnext st Hi) as (H1 & H2 & H3). destruct (next st) as [[a|] st'] eqn:E; cbn [fst snd] in *.
    + destruct (IH st' H3) as (I1 & I2 & I3). rewrite I1, I2, H2.
      destruct (rem st) as [|x t]; [discriminate|]. cbn. repeat split; auto.
    + destruct (rem st) as [|x t]; [|discriminate]. cbn in *. rewrite H2. repeat split; auto.
Qed.

Lemma step_rest_spec km1 t : forall st, Inv st ->
  fst (step_rest_via next km1 t st) = fst (l_step_rest km1 t (rem st)) /\
  rem (snd (step_rest_via next km1 t st)) = snd (l_step_rest km1 t (rem st)) /\
  Inv (snd (step_rest_via next km1 t st)).
Proof.
  induction t as [|t IH]; intros st Hi; cbn [step_rest_via l_step_rest]; [auto|].
  destruct (nth_via_spec km1 st Hi) as (H1 & H2 & H3).
  destruct (nth_via next km1 st) as [[a|] st'] eqn:E; cbn [fst snd] in *; rewrite <- H1.
  - destruct (IH st' H3) as (I1 & I2 & I3). rewrite <- H2.
    destruct (step_rest_via next km1 t st') as [r st'']. destruct (l_step_rest km1 t (rem st')) as [r' l'].
    cbn [fst snd] in *. subst. auto.
  - cbn. rewrite H2. assert (length (rem st) <= km1) by (apply nth_error_None; congruence).
    rewrite skipn_all2 by lia. auto.
Qed.

Lemma step_take_spec k t st : Inv st ->
  fst (step_take_via next k t st) = fst (l_step_take k t (rem st)) /\
  rem (snd (step_take_via next k t st)) = snd (l_step_take k t (rem st)) /\
  Inv (snd (step_take_via next k t st)).
Proof.
  intros Hi. destruct t as [|t]; cbn [step_take_via l_step_take]; [auto|].
  destruct (Hnext st Hi) as (H1 & H2 & H3).
  destruct (next st) as [[a|] st'] eqn:E; cbn [fst snd] in *.
  - destruct (rem st) as [|x l] eqn:Er; [discriminate|]. cbn in H1, H2. inversion H1; subst x.
    destruct (step_rest_spec (k - 1) t st' H3) as (I1 & I2 & I3). rewrite H2 in *.
    destruct (step_rest_via next (k - 1) t st') as [r st'']. destruct (l_step_rest (k - 1) t l) as [r' l'].
    cbn [fst snd] in *. subst. auto.
  - destruct (rem st) as [|x l] eqn:Er; [|discriminate]. cbn in *. rewrite H2. auto.
Qed.

Lemma drain_spec fuel : forall st, Inv st -> length (rem st) < fuel ->
  fst (drain_via next fuel st) = rem st /\ rem (snd (drain_via next fuel st)) = [] /\ Inv (snd (drain_via next fuel st)).
Proof.
  induction fuel as [|f IH]; intros st Hi Hf; [lia|]. cbn [drain_via].
  destruct (Hnext st Hi) as (H1 & H2 & H3).
  destruct (next st) as [[a|] st'] eqn:E; cbn [fst snd] in *.
  - destruct (rem st) as [|x l] eqn:Er; [discriminate|]. cbn in H1, H2, Hf. inversion H1; subst x.
    destruct (IH st' H3 ltac:(rewrite H2; lia)) as (I1 & I2 & I3).
    destruct (drain_via next f st') as [r st'']. cbn [fst snd] in *. rewrite I1, H2. auto.
  - destruct (rem st) as [|x l] eqn:Er; [|discriminate]. cbn in *. rewrite H2. auto.
Qed.

Lemma list_step_shorter (s : step) (l : list A) : length (snd (run_step_list s l)) <= length l.
Proof.
  destruct s; cbn [run_step_list snd]; try (cbn; lia).
  - destruct l; cbn; lia.
  - rewrite skipn_length. lia.
  - rewrite skipn_length. lia.
  - destruct (l_step_take k t l) as [r l'] eqn:E. cbn [snd].
    assert (G : forall km1 t (l : list A), length (snd (l_step_rest km1 t l)) <= length l).
    { clear. intros km1 t; induction t as [|t IH]; intros l; cbn [l_step_rest]; [cbn; lia|].
      destruct (nth_error l km1); [|cbn; lia].
      specialize (IH (skipn (S km1) l)). destruct (l_step_rest km1 t (skipn (S km1) l)). cbn [snd] in *.
      rewrite skipn_length in IH. lia. }
    unfold l_step_take in E. destruct t; [inversion E; lia|]. destruct l as [|a l0]; [inversion E; cbn; lia|].
    specialize (G (k - 1) t l0). destruct (l_step_rest (k - 1) t l0). inversion E; subst. cbn [snd length] in *. lia.
  - destruct l as [|x t]; [cbn; lia|]. rewrite removelast_firstn_len, firstn_length. lia.
  - rewrite firstn_length. lia.
Qed.

(* one step *)
Theorem run_step_refines fuel (s : step) st : Inv st -> length (rem st) < fuel -> by_value_step s = true ->
  fst (run_step_via next len fuel s st) = fst (run_step_list s (rem st)) /\
  rem (snd (run_step_via next len fuel s st)) = snd (run_step_list s (rem st)) /\
  Inv (snd (run_step_via next len fuel s st)).
Proof.
  intros Hi Hf Hs. destruct s; try discriminate; cbn [run_step_via run_step_list].
  - destruct (Hnext st Hi) as (H1 & H2 & H3). destruct (next st); cbn [fst snd] in *. subst. auto.
  - destruct (nth_via_spec k st Hi) as (H1 & H2 & H3). destruct (nth_via next k st); cbn [fst snd] in *. subst. auto.
  - unfold skip_next_via. destruct (nth_via_spec k st Hi) as (H1 & H2 & H3).
    destruct (nth_via next k st); cbn [fst snd] in *. subst. auto.
  - destruct (step_take_spec k t st Hi) as (H1 & H2 & H3).
    destruct (step_take_via next k t st); destruct (l_step_take k t (rem st)); cbn [fst snd] in *. subst. auto.
  - destruct (drain_spec fuel st Hi Hf) as (H1 & H2 & H3). destruct (drain_via next fuel st); cbn [fst snd] in *.
    subst. auto.
  - destruct (drain_spec fuel st Hi Hf) as (H1 & H2 & H3). destruct (drain_via next fuel st); cbn [fst snd] in *.
    subst. auto.
  - rewrite (Hlen st Hi). auto.
  - destruct (Hnext st Hi) as (H1 & H2 & H3). destruct (next st) as [o st']; cbn [fst snd] in *.
    rewrite (Hlen st' H3), H2. subst. auto.
Qed.

(* any script *)
Theorem run_script_refines fuel (sc : list step) : forall st, Inv st -> length (rem st) < fuel ->
  forallb by_value_step sc = true ->
  fst (run_script_via next len fuel sc st) = fst (run_script_list sc (rem st)) /\
  rem (snd (run_script_via next len fuel sc st)) = snd (run_script_list sc (rem st)).
Proof.
  induction sc as [|s t IH]; intros st Hi Hf Hs; cbn [run_script_via run_script_list]; [auto|].
  cbn [forallb] in Hs. apply andb_prop in Hs. destruct Hs as [Hs Ht].
  destruct (run_step_refines fuel s st Hi Hf Hs) as (H1 & H2 & H3).
  pose proof (list_step_shorter s (rem st)) as Hsh.
  destruct (run_step_via next len fuel s st) as [o st']. destruct (run_step_list s (rem st)) as [o' l'].
  cbn [fst snd] in *. subst.
  destruct (IH st' H3 ltac:(lia) Ht) as (I1 & I2).
  destruct (run_script_via next len fuel t st') as [os st'']. destruct (run_script_list t (rem st')) as [os' l''].
  cbn [fst snd] in *. subst. auto.
Qed.
End Refine.

(* ---- [S; N].channels() ---- *)
Definition ch_rem {A} (it : @channels_it A) : list A := skipn (next_idx it) (cframe it).

Lemma hd_skipn {A} (l : list A) i : hd_error (skipn i l) = nth_error l i.
Proof. revert l; induction i as [|i IH]; intros [|x t]; cbn; auto. Qed.
Lemma tl_skipn {A} (l : list A) i : tl (skipn i l) = skipn (S i) l.
Proof.
  revert l; induction i as [|i IH]; intros l; [destruct l; reflexivity|].
  destruct l as [|x t]; [reflexivity|]. change (skipn (S i) (x :: t)) with (skipn i t).
  change (skipn (S (S i)) (x :: t)) with (skipn (S i) t). apply IH.
Qed.

Theorem channels_script_spec {A} (N : nat) (sc : list step) (fr : list A) :
  length fr = N -> forallb by_value_step sc = true ->
  fst (channels_script N sc fr) = fst (run_script_list sc fr) /\
  ch_rem (snd (channels_script N sc fr)) = snd (run_script_list sc fr).
Proof.
  intros HN Hs. unfold channels_script.
  apply (run_script_refines channels_next (channels_len N) ch_rem
           (fun it => cframe it = fr /\ next_idx it <= N)); auto.
  - intros it [Hf Hi]. unfold channels_next, channel, ch_rem.
    destruct (nth_error (cframe it) (next_idx it)) as [s|] eqn:E; cbn [fst snd cframe next_idx].
    + rewrite hd_skipn, tl_skipn, E. repeat split; auto.
      assert (next_idx it < length (cframe it)) by (apply nth_error_Some; congruence). rewrite Hf in *. lia.
    + rewrite hd_skipn, tl_skipn, E. repeat split; auto.
      apply nth_error_None in E. rewrite !skipn_all2 by lia. reflexivity.
  - intros it [Hf Hi]. unfold channels_len, ch_rem. rewrite skipn_length, Hf, HN.
    destruct (Nat.leb_spec (next_idx it) N); [reflexivity|lia].
  - cbn. split; [reflexivity|lia].
  - unfold ch_rem. cbn. lia.
Qed.

(* ---- a bare sample's channels() ---- *)
Definition mono_rem {A} (it : @mono_channels_it A) : list A := if m_next_idx it =? 0 then [m_frame it] else [].

Theorem mono_channels_script_spec {A} (sc : list step) (s : A) : forallb by_value_step sc = true ->
  fst (mono_channels_script sc s) = fst (run_script_list sc [s]) /\
  mono_rem (snd (mono_channels_script sc s)) = snd (run_script_list sc [s]).
Proof.
  intros Hs. unfold mono_channels_script. change [s] with (mono_rem (mono_channels s)).
  apply (run_script_refines mono_channels_next mono_channels_len mono_rem (fun it => m_next_idx it <= 1)); auto.
  - intros [i f] Hi. unfold mono_channels_next, mono_channel, mono_rem. cbn in *.
    destruct i as [|[|k]]; cbn; repeat split; auto; lia.
  - intros [i f] Hi. unfold mono_channels_len, mono_rem. cbn in *. destruct i as [|[|k]]; cbn; auto; lia.
Qed.
