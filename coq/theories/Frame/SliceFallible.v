(* C10 -- the in-place slice operations of dasp_slice/src/lib.rs when the frame operation handed to them can
   PANIC (Sample::add_amp on an integer format is `+` with an overflow check in a debug build; the I24/I48
   operators `expect`).  Frame/Slice.v models the same loops for total frame operations; this file is the same
   code with a closure of type `.. -> res FA`, so that what a caught panic leaves behind (the frames stored
   before the panicking call, the untouched rest) is part of the model.  Definitions only.

     pub fn map_in_place(a, mut map)          { for f in a { *f = map( *f ); } }
     pub fn zip_map_in_place(a, b, zip_map)   { assert_eq!(a.len(), b.len()); unsafe { zip_map_in_place_unchecked(a, b, zip_map) } }
     unsafe fn zip_map_in_place_unchecked(..) { for i in 0..a.len() { *a.get_unchecked_mut(i) = zip_map( *a.get_unchecked(i), *b.get_unchecked(i)); } }
     pub fn add_in_place(a, b)                { zip_map_in_place(a, b, |a, b| a.add_amp(b)); }
     pub fn add_in_place_with_amp_per_channel(a, b, amp_per_channel)
                                              { zip_map_in_place(a, b, |af, bf| af.add_amp(bf.mul_amp(amp_per_channel))); }

   In `*slot = closure(..)` the right-hand side is evaluated first: a panic inside the closure unwinds before
   the store, so slot i keeps its old frame and slots 0..i-1 hold the new ones. *)
Require Import List Arith.
From Dasp Require Import Base.Res Base.ListX Frame.Slice.
Import ListNotations.

Section OpsR.
Context {FA FB AMP : Type}.
Variable add_amp : FA -> FB -> res FA.          (* Frame::add_amp, may panic *)
Variable mul_amp : FB -> AMP -> res FB.         (* Frame::mul_amp, may panic *)

Definition outcome_r := (list FA * res unit)%type.

(* map_in_place: for f in a { *f = map( *f ); } *)
Fixpoint map_in_place_r (m : FA -> res FA) (a : list FA) : outcome_r :=
  match a with
  | [] => ([], Ok tt)
  | f :: t =>
    match m f with
    | Ok v => let r := map_in_place_r m t in (v :: fst r, snd r)
    | Panic k => (f :: t, Panic k)
    | UB => (f :: t, UB)
    end
  end.

(* zip_map_in_place_unchecked; [n] = iterations left, [i] = loop counter *)
Fixpoint zip_loop_r (f : FA -> FB -> res FA) (b : list FB) (n i : nat) (a : list FA) : outcome_r :=
  match n with
  | O => (a, Ok tt)
  | S n' =>
    match get_unchecked a i, get_unchecked b i with
    | Ok x, Ok y =>
      match f x y with
      | Ok v => zip_loop_r f b n' (S i) (set_nth i v a)
      | Panic k => (a, Panic k)
      | UB => (a, UB)
      end
    | _, _ => (a, UB)
    end
  end.

Definition zip_map_in_place_unchecked_r (f : FA -> FB -> res FA) (a : list FA) (b : list FB) : outcome_r :=
  zip_loop_r f b (length a) 0 a.

Definition zip_map_in_place_r (f : FA -> FB -> res FA) (a : list FA) (b : list FB) : outcome_r :=
  if length a =? length b then zip_map_in_place_unchecked_r f a b else (a, Panic PAssert).

Definition add_in_place_r (a : list FA) (b : list FB) : outcome_r :=
  zip_map_in_place_r (fun a b => add_amp a b) a b.

(* the argument `bf.mul_amp(amp_per_channel)` is evaluated before `af.add_amp(..)` is called *)
Definition add_in_place_with_amp_per_channel_r (a : list FA) (b : list FB) (amp : AMP) : outcome_r :=
  zip_map_in_place_r (fun af bf => let* scaled := mul_amp bf amp in add_amp af scaled) a b.

End OpsR.

(* ---- what the loops compute, as plain structural recursion (the specification side) ---- *)

(* frames are replaced from the front while the operation returns; the first panic stops the walk and leaves
   that frame and everything after it as it was *)
Fixpoint zip_r_spec {FA FB} (f : FA -> FB -> res FA) (a : list FA) (b : list FB) : list FA * res unit :=
  match a, b with
  | x :: a', y :: b' =>
    match f x y with
    | Ok v => let r := zip_r_spec f a' b' in (v :: fst r, snd r)
    | Panic k => (a, Panic k)
    | UB => (a, UB)
    end
  | _, _ => (a, Ok tt)
  end.
