(* C03 -- the mutable channel accessors (Frame/FrameMut.v) are per-channel: a write through channel_mut /
   channel_unchecked_mut / channels_mut changes exactly the addressed channel(s), in channel order, and nothing else;
   the unchecked forms hit no UB for idx < N; the mono impls are the 1-channel case. *)
Require Import List Arith Bool Lia.
From Dasp Require Import Base.Res Base.ListX Frame.Frame Frame.FrameMut.
Import ListNotations.

Section Proofs.
Context {A : Type}.

(* channel_mut(idx) is Some exactly when channel(idx) is; writing v through it makes channel(idx) read v and leaves
   every other channel (and the channel count) as it was; a None leaves the frame untouched *)
Lemma channel_mut_write_spec (fr : list A) (idx : nat) (v : A) :
  fst (channel_mut_write fr idx v) = (match channel fr idx with Some _ => true | None => false end) /\
  length (snd (channel_mut_write fr idx v)) = length fr /\
  (forall j, channel (snd (channel_mut_write fr idx v)) j =
             if (idx =? j) && (idx <? length fr) then Some v else channel fr j) /\
  (channel fr idx = None -> snd (channel_mut_write fr idx v) = fr).
Proof.
  unfold channel_mut_write, channel.
  destruct (Nat.ltb_spec idx (length fr)) as [H|H]; cbn [fst snd].
  - repeat split.
    + destruct (nth_error fr idx) eqn:E; [reflexivity|]. apply nth_error_None in E. lia.
    + apply set_nth_length.
    + intros j. rewrite nth_error_set_nth. destruct (Nat.ltb_spec idx (length fr)); [reflexivity|lia].
    + intros E. apply nth_error_None in E. lia.
  - repeat split.
    + destruct (nth_error fr idx) eqn:E; [|reflexivity].
      assert (idx < length fr) by (apply nth_error_Some; congruence). lia.
    + intros j. now rewrite andb_false_r.
Qed.

(* the unchecked forms inside the bounds the compile-time channel count guarantees: no UB, same effect as the checked ones *)
Lemma channel_unchecked_spec (fr : list A) (idx : nat) : idx < length fr ->
  exists x, get_unchecked fr idx = Ok x /\ channel fr idx = Some x.
Proof.
  intros H. unfold get_unchecked, channel. destruct (nth_error fr idx) as [x|] eqn:E.
  - exists x. split; reflexivity.
  - apply nth_error_None in E. lia.
Qed.

Lemma channel_unchecked_mut_write_spec (fr : list A) (idx : nat) (v : A) : idx < length fr ->
  channel_unchecked_mut_write fr idx v = Ok (snd (channel_mut_write fr idx v)) /\
  fst (channel_mut_write fr idx v) = true.
Proof.
  intros H. unfold channel_unchecked_mut_write, channel_mut_write.
  destruct (Nat.ltb_spec idx (length fr)); [split; reflexivity|lia].
Qed.

(* writing through channels_mut(): the first min(len news, N) channels take the new values in order *)
Lemma overwrite_closed (news fr : list A) :
  overwrite news fr = firstn (length fr) news ++ skipn (length news) fr.
Proof.
  revert fr; induction news as [|v ns IH]; intros [|x t]; cbn [overwrite length firstn skipn app]; try reflexivity.
  now rewrite IH.
Qed.

Lemma overwrite_spec (news fr : list A) :
  length (overwrite news fr) = length fr /\
  forall j, channel (overwrite news fr) j =
            if (j <? length news) && (j <? length fr) then nth_error news j else channel fr j.
Proof.
  unfold channel. revert fr; induction news as [|v ns IH]; intros fr.
  - cbn. split; [destruct fr; reflexivity|]. intros j. destruct fr; reflexivity.
  - destruct fr as [|x t]; cbn [overwrite length].
    + split; [reflexivity|]. intros j. now rewrite andb_false_r.
    + destruct (IH t) as [L J]. split; [now rewrite L|].
      intros [|j]; [reflexivity|]. cbn [nth_error]. rewrite J. reflexivity.
Qed.

(* ... and through channels_mut().rev(): the LAST min(len news, N) channels, last first *)
Lemma overwrite_back_closed (news fr : list A) :
  overwrite_back news fr = firstn (length fr - length news) fr ++ rev (firstn (length fr) news).
Proof.
  unfold overwrite_back. rewrite overwrite_closed, rev_app_distr, rev_length, skipn_rev, rev_involutive.
  reflexivity.
Qed.

Lemma overwrite_back_length (news fr : list A) : length (overwrite_back news fr) = length fr.
Proof. unfold overwrite_back. rewrite rev_length. destruct (overwrite_spec news (rev fr)) as [L _]. now rewrite L, rev_length. Qed.

(* the mono impls are the 1-channel case of the array impl *)
Lemma mono_channel_mut_write_spec (s : A) (idx : nat) (v : A) :
  mono_channel_mut_write s idx v =
  (fst (channel_mut_write [s] idx v), hd s (snd (channel_mut_write [s] idx v))).
Proof. unfold mono_channel_mut_write, channel_mut_write. destruct idx as [|[|k]]; reflexivity. Qed.

Lemma mono_channel_unchecked_mut_write_spec (s : A) (v : A) :
  rmap (fun x => [x]) (mono_channel_unchecked_mut_write s 0 v) = channel_unchecked_mut_write [s] 0 v.
Proof. reflexivity. Qed.

Lemma mono_overwrite_spec (news : list A) (s : A) :
  [mono_overwrite news s] = overwrite news [s] /\ [mono_overwrite news s] = overwrite_back news [s].
Proof. destruct news as [|v [|w t]]; split; reflexivity. Qed.

End Proofs.

(* everything above for one frame, as one statement (props/C03.v: c03_channel_mut) *)
Theorem channel_mut_all : forall (A : Type) (fr : list A) (idx : nat) (v : A),
  (* checked *)
  (fst (channel_mut_write fr idx v) = (match channel fr idx with Some _ => true | None => false end) /\
   length (snd (channel_mut_write fr idx v)) = length fr /\
   (forall j, channel (snd (channel_mut_write fr idx v)) j =
              if (idx =? j) && (idx <? length fr) then Some v else channel fr j) /\
   (channel fr idx = None -> snd (channel_mut_write fr idx v) = fr)) /\
  (* unchecked, inside the bounds *)
  (idx < length fr ->
   (exists x, get_unchecked fr idx = Ok x /\ channel fr idx = Some x) /\
   channel_unchecked_mut_write fr idx v = Ok (snd (channel_mut_write fr idx v))).
Proof.
  intros A fr idx v. split; [apply channel_mut_write_spec|].
  intros H. split; [now apply channel_unchecked_spec|]. now apply channel_unchecked_mut_write_spec.
Qed.

Theorem channels_mut_write_all : forall (A : Type) (news fr : list A),
  (length (overwrite news fr) = length fr /\
   forall j, channel (overwrite news fr) j =
             if (j <? length news) && (j <? length fr) then nth_error news j else channel fr j) /\
  overwrite news fr = firstn (length fr) news ++ skipn (length news) fr /\
  overwrite_back news fr = firstn (length fr - length news) fr ++ rev (firstn (length fr) news).
Proof.
  intros A news fr. split; [apply overwrite_spec|]. split; [apply overwrite_closed|apply overwrite_back_closed].
Qed.

Theorem mono_mut_all : forall (A : Type) (s v : A) (idx : nat) (news : list A),
  mono_channel_mut_write s idx v = (fst (channel_mut_write [s] idx v), hd s (snd (channel_mut_write [s] idx v))) /\
  rmap (fun x => [x]) (mono_channel_unchecked_mut_write s 0 v) = channel_unchecked_mut_write [s] 0 v /\
  [mono_overwrite news s] = overwrite news [s] /\ [mono_overwrite news s] = overwrite_back news [s] /\
  mono_num_channels = num_channels (length [s]).
Proof.
  intros A s v idx news. split; [apply mono_channel_mut_write_spec|]. split; [reflexivity|].
  destruct (mono_overwrite_spec news s) as [H1 H2]. repeat split; assumption.
Qed.
