(* C03 -- every amplitude method of Frame on [S; N] is the per-channel sample method, in channel order
   (the first failing channel decides a panic), for every N; the mono impls agree with the 1-channel array. *)
Require Import Floats.SpecFloat.
Require Import List ZArith Bool Lia.
From Flocq Require Import Core BinarySingleNaN.
From Dasp Require Import Base.Res Base.ListX Base.Float Sample.Rint Sample.ConvSpec Sample.SampleFmt Sample.SampleOps
  Frame.Frame Frame.FrameProofs Frame.FrameOps.
From DaspGen Require Import SampleTable.
Import ListNotations.

(* reference: apply h to every channel, first to last; the first failure is the result *)
Fixpoint mapM {A B} (h : A -> res B) (l : list A) : res (list B) :=
  match l with
  | [] => Ok []
  | x :: t => let* y := h x in let* r := mapM h t in Ok (y :: r)
  end.
Fixpoint zipM {A B C} (h : A -> B -> res C) (l : list A) (l2 : list B) : res (list C) :=
  match l, l2 with
  | x :: t, y :: t2 => let* z := h x y in let* r := zipM h t t2 in Ok (z :: r)
  | _, _ => Ok []
  end.

Lemma run_pure_traverse {A B} (h : A -> res B) (l : list A) :
  run_pure (traverse l (pure1 h) tt) = mapM h l.
Proof.
  induction l as [|x t IH]; cbn; [reflexivity|]. unfold pure1 at 1.
  destruct (h x) as [y| |]; cbn; auto. rewrite <- IH.
  destruct (traverse t (pure1 h) tt) as [[r []]| |]; reflexivity.
Qed.

Lemma run_pure_traverse2 {A B C} (h : A -> B -> res C) (l : list A) (l2 : list B) :
  run_pure (traverse2 l l2 (pure2 h) tt) = zipM h l l2.
Proof.
  revert l2; induction l as [|x t IH]; intros [|y t2]; cbn; try reflexivity. unfold pure2 at 1.
  destruct (h x y) as [z| |]; cbn; auto. rewrite <- IH.
  destruct (traverse2 t t2 (pure2 h) tt) as [[r []]| |]; reflexivity.
Qed.

(* what "per channel, in channel order" means for a successful result *)
Lemma mapM_ok {A B} (h : A -> res B) (l : list A) (r : list B) : mapM h l = Ok r ->
  length r = length l /\
  forall i x, nth_error l i = Some x -> exists y, h x = Ok y /\ nth_error r i = Some y.
Proof.
  revert r; induction l as [|x t IH]; intros r; cbn.
  - intros H; inversion H; subst. split; [reflexivity|]. intros [|i] y; discriminate.
  - destruct (h x) as [y| |] eqn:E; cbn; try discriminate.
    destruct (mapM h t) as [r'| |]; cbn; try discriminate.
    intros H; inversion H; subst. destruct (IH r' eq_refl) as [HL HN]. split; [cbn; lia|].
    intros [|i] z; cbn; [intros Hz; inversion Hz; subst; eauto | apply HN].
Qed.

Lemma mapM_all_ok {A B} (h : A -> res B) (k : A -> B) (l : list A) :
  (forall x, In x l -> h x = Ok (k x)) -> mapM h l = Ok (List.map k l).
Proof.
  induction l as [|x t IH]; intros H; cbn; [reflexivity|].
  rewrite (H x (or_introl eq_refl)). cbn. rewrite IH by (intros; apply H; now right). reflexivity.
Qed.

Lemma zipM_ok {A B C} (h : A -> B -> res C) (l : list A) (l2 : list B) (r : list C) :
  length l2 = length l -> zipM h l l2 = Ok r ->
  length r = length l /\
  forall i x y, nth_error l i = Some x -> nth_error l2 i = Some y -> exists z, h x y = Ok z /\ nth_error r i = Some z.
Proof.
  revert l2 r; induction l as [|x t IH]; intros [|y t2] r HL; cbn in *; try discriminate.
  - intros H; inversion H; subst. split; [reflexivity|]. intros [|i] ? ?; discriminate.
  - destruct (h x y) as [z| |] eqn:E; cbn; try discriminate.
    destruct (zipM h t t2) as [r'| |] eqn:E2; cbn; try discriminate.
    intros H; inversion H; subst. destruct (IH t2 r' ltac:(lia) E2) as [HL' HN]. split; [cbn; lia|].
    intros [|i] a b; cbn; [intros Ha Hb; inversion Ha; inversion Hb; subst; eauto | apply HN].
Qed.

Section Ops.
Variable m : mode.
Variable f : sfmt.

Theorem offset_amp_pointwise N fr a : length fr = N ->
  f_offset_amp m f N fr a = mapM (fun s => add_amp m f s a) fr.
Proof. intros H. unfold f_offset_amp. rewrite map_spec by exact H. apply run_pure_traverse. Qed.

Theorem scale_amp_pointwise N fr g : length fr = N ->
  f_scale_amp m f N fr g = mapM (fun s => mul_amp m f s g) fr.
Proof. intros H. unfold f_scale_amp. rewrite map_spec by exact H. apply run_pure_traverse. Qed.

Theorem add_amp_pointwise N fr other : length fr = N -> length other = N ->
  f_add_amp m f N fr other = zipM (add_amp m f) fr other.
Proof. intros H H2. unfold f_add_amp. rewrite zip_map_spec by assumption. apply run_pure_traverse2. Qed.

Theorem mul_amp_pointwise N fr other : length fr = N -> length other = N ->
  f_mul_amp m f N fr other = zipM (mul_amp m f) fr other.
Proof. intros H H2. unfold f_mul_amp. rewrite zip_map_spec by assumption. apply run_pure_traverse2. Qed.

Theorem to_signed_pointwise N fr : f_to_signed m f N fr = mapM (to_signed m f) fr.
Proof. apply run_pure_traverse. Qed.

Theorem to_float_pointwise N fr : f_to_float m f N fr = mapM (to_float m f) fr.
Proof. apply run_pure_traverse. Qed.

Theorem equilibrium_pointwise N :
  length (f_equilibrium f N) = N /\ forall i, (i < N)%nat -> nth_error (f_equilibrium f N) i = Some (equilibrium_of f).
Proof.
  unfold f_equilibrium. split; [apply repeat_length|].
  induction N as [|n IH]; intros i Hi; [lia|]. destruct i; cbn; [reflexivity|]. apply IH. lia.
Qed.

(* ---- a bare sample behaves as the 1-channel frame of that sample ---- *)
Definition single {X} (x : X) : list X := [x].

Theorem mono_is_one_channel (s : sty f) (a : sty (signed_of f)) (g : sty (float_of f)) :
  f_offset_amp m f 1 [s] a = rmap single (m_offset_amp m f s a) /\
  f_scale_amp m f 1 [s] g = rmap single (m_scale_amp m f s g) /\
  f_add_amp m f 1 [s] [a] = rmap single (m_add_amp m f s a) /\
  f_add_amp m f 1 [s] [a] = rmap single (m_add_amp_arr m f s [a]) /\
  f_mul_amp m f 1 [s] [g] = rmap single (m_mul_amp m f s g) /\
  f_to_signed m f 1 [s] = rmap single (m_to_signed m f s) /\
  f_to_float m f 1 [s] = rmap single (m_to_float m f s) /\
  f_equilibrium f 1 = single (m_equilibrium f).
Proof.
  unfold f_offset_amp, f_scale_amp, f_add_amp, f_mul_amp, f_to_signed, f_to_float, f_equilibrium,
    m_offset_amp, m_scale_amp, m_add_amp, m_add_amp_arr, m_mul_amp, m_to_signed, m_to_float, m_equilibrium,
    map, zip_map, from_fn, mono_map, mono_zip_map, mono_from_fn, mono_channel_unchecked, run_pure, pure1, pure2, single.
  cbn.
  repeat split.
  - destruct (add_amp m f s a); reflexivity.
  - destruct (mul_amp m f s g); reflexivity.
  - destruct (add_amp m f s a); reflexivity.
  - destruct (add_amp m f s a); reflexivity.
  - destruct (mul_amp m f s g); reflexivity.
  - destruct (to_signed m f s); reflexivity.
  - destruct (to_float m f s); reflexivity.
Qed.

End Ops.
