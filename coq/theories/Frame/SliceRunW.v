(* C10 -- executable interface for the in-place slice operations over EVERY sample format (the fourteen formats of
   Sample/SampleFmt.v) with the frame operations of the C03 model (Frame/FrameOps.v over Sample/SampleOps.v:
   add_amp / mul_amp / scale_amp / offset_amp / EQUILIBRIUM per format and per build mode) as the element-wise
   reference, run by coqc on the same cases as harness/src/bin/c10.rs (`W` lines).

   Frames travel as lists of Z (integers as their value, floats as IEEE bit patterns); a bare sample used as a
   one-channel frame is a one-element list.
     mode   0 debug build (overflow checks on) / 1 release build
     op     0 equilibrium   1 map_in_place(a, |f| f.offset_amp(k))
            2 zip_map_in_place(a, b, |x, y| x.add_amp(y.scale_amp(g)))        g = first entry of amp
            3 write         4 add_in_place         5 add_in_place_with_amp_per_channel
     fmt    Sample/SampleFmt.sfmt_code of FA's sample format; b holds frames of the Signed format (write: of FA's
            format), amp a frame of the Float format of the Signed format, k a Signed sample
     shape  0 the bare sample type is the frame, N >= 1 the array [S; N]
   Observations as for the `Z` lines: [5; a before..]; [7] | [8; panic kind]; [5; a after..]. *)
Require Import Floats.SpecFloat.
Require Import List ZArith Bool.
From Flocq Require Import Core BinarySingleNaN.
From Dasp Require Import Base.Res Base.Float Sample.Rint Sample.ConvSpec Sample.ConvRun Sample.SampleFmt Sample.SampleOps
  Frame.Frame Frame.FrameOps.
From DaspGen Require Import SampleTable.
From Dasp Require Frame.Slice Frame.SliceFallible Frame.SliceRun.
Import ListNotations.
Open Scope Z_scope.

Section RunW.
Variable m : mode.
Variable f : sfmt.
Variable shape : Z.
Notation sg := (signed_of f).
Notation fl := (float_of (signed_of f)).
Notation FAt := (list (sty f)).
Notation FBt := (list (sty sg)).
Notation AMPt := (list (sty fl)).
Let N : nat := Z.to_nat shape.
Let bare : bool := shape =? 0.

Definition hd_r {X} (l : list X) : res X := get_checked l 0.
Definition one {X} (r : res X) : res (list X) := rmap (fun v => [v]) r.

(* Frame::add_amp(self, other) of FA;  Frame::mul_amp / scale_amp of FB;  Frame::offset_amp of FA *)
Definition w_add (x : FAt) (y : FBt) : res FAt :=
  if bare then (let* s := hd_r x in let* o := hd_r y in one (m_add_amp m f s o)) else f_add_amp m f N x y.
Definition w_mul (y : FBt) (g : AMPt) : res FBt :=
  if bare then (let* s := hd_r y in let* o := hd_r g in one (m_mul_amp m sg s o)) else f_mul_amp m sg N y g.
Definition w_scale (g : sty fl) (y : FBt) : res FBt :=
  if bare then (let* s := hd_r y in one (m_scale_amp m sg s g)) else f_scale_amp m sg N y g.
Definition w_offset (k : sty sg) (x : FAt) : res FAt :=
  if bare then (let* s := hd_r x in one (m_offset_amp m f s k)) else f_offset_amp m f N x k.
Definition w_equilibrium : FAt := if bare then [m_equilibrium f] else f_equilibrium f N.

Definition w_run (op : Z) (a : list FAt) (bs : list FBt) (bw : list FAt) (amp : AMPt) (k : sty sg) : list FAt * res unit :=
  match op with
  | 0 => (Slice.equilibrium w_equilibrium a, Ok tt)
  | 1 => SliceFallible.map_in_place_r (w_offset k) a
  | 2 => match amp with
         | g :: _ => SliceFallible.zip_map_in_place_r (fun x y => let* s := w_scale g y in w_add x s) a bs
         | [] => (a, UB)
         end
  | 3 => Slice.write a bw
  | 4 => SliceFallible.add_in_place_r w_add a bs
  | _ => SliceFallible.add_in_place_with_amp_per_channel_r w_add w_mul a bs amp
  end.

Definition run_w (op : Z) (a b : list (list Z)) (amp : list Z) (k : Z) : list (list Z) :=
  let da := List.map (List.map (dec f)) a in
  let r := w_run op da (List.map (List.map (dec sg)) b) (List.map (List.map (dec f)) b) (List.map (dec fl) amp) (dec sg k) in
  let e := fun fs : list FAt => List.concat (List.map (List.map (enc f)) fs) in
  [5 :: e da; SliceRun.enc_status (snd r); 5 :: e (fst r)].

End RunW.

(* ------------------------------------------------------------------------- *)
(* `I` lines: the identity impls of the conversion traits (lib.rs, frame/mod.rs, boxed.rs)
     impl FromSampleSlice<'a, S> for &'a [S]   { fn from_sample_slice(slice) -> Option<Self> { Some(slice) } }
     impl ToSampleSlice<'a, S> for &'a [S]     { fn to_sample_slice(self) -> &'a [S] { self } }
     impl FromFrameSlice<'a, F> for &'a [F]    { fn from_frame_slice(slice) -> Self { slice } }
     impl ToFrameSlice<'a, F> for &'a [F]      { fn to_frame_slice(self) -> Option<&'a [F]> { Some(self) } }
   (and the Mut / Box forms): the result IS the argument - same reference, nothing allocated or freed - followed by
   the free-function forms of the real boxed conversions with N = 2 (SliceRun.run_boxed_once). *)
Definition ident_ref (r : Slice.sref) : Slice.sref := r.

Definition run_ident (sz : nat) (d : list Z) : list (list Z) :=
  let m := {| Slice.base := SliceRun.BASE_V; Slice.cells := d |} in
  let sr := ident_ref (Slice.sample_ref m) in
  let os := SliceRun.enc_sview m (Ok (sr, d)) in
  let osh := SliceRun.enc_sview_hdr m (Ok (sr, d)) in
  let K := (length d / 2)%nat in
  let fs := Slice.chunks 2 K d in
  let f0 := Slice.frame_mem SliceRun.BASE_F fs in
  let fr := ident_ref (Slice.frame_ref SliceRun.BASE_F fs) in
  let of_ := SliceRun.enc_fview f0 (Ok (Some (fr, fs))) in
  let ofh := SliceRun.enc_fview_hdr f0 (Ok (Some (fr, fs))) in
  (* boxed identities: same block, live-byte delta 0 *)
  let bs := 1 :: SliceRun.same m sr :: SliceRun.zn (Slice.len sr) :: 0 :: d in
  let bf := 1 :: SliceRun.same f0 fr :: SliceRun.zn (Slice.len fr) :: 0 :: List.concat fs in
  [os; os; osh; osh; of_; of_; ofh; ofh; bs; bs; bf; bf] ++ SliceRun.run_boxed_once 2 sz d.

Inductive xcase :=
| XI (sz : Z) (d : list Z)
| XZ (c : SliceRun.zcase)
| XW (mode op fmt shape : Z) (a b : list (list Z)) (amp : list Z) (k : Z).

Definition run_xcase (c : xcase) : list (list Z) :=
  match c with
  | XI sz d => run_ident (Z.to_nat sz) d
  | XZ c' => SliceRun.run_case c'
  | XW mo op fc shape a b amp k =>
    match sfmt_of_code fc with
    | Some f => run_w (mode_of mo) f shape op a b amp k
    | None => [[-1]]
    end
  end.

Definition checkx (c : xcase * list (list Z)) : bool := SliceRun.zll_eqb (run_xcase (fst c)) (snd c).
