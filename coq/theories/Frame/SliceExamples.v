(* Non-vacuity: concrete non-trivial inputs meeting the hypotheses of the C10 theorems. *)
Require Import List ZArith Arith Lia.
From Dasp Require Import Base.Res Base.ListX Frame.Slice Frame.SliceSpec Frame.SliceProofs.
Import ListNotations.

(* N = 3, L = 7: the view is refused *)
Definition ex_m7 : mem Z := {| base := 1000; cells := [1; 2; 3; 4; 5; 6; 7]%Z |}.
Example ex_not_divides : ~ Nat.divide 3 (length (cells ex_m7)).
Proof. intros [k Hk]. simpl in Hk. lia. Qed.
Example ex_view_fails : to_frame_slice 3 ex_m7 = Ok None /\ to_frame_slice_mut 3 ex_m7 = Ok None.
Proof. split; reflexivity. Qed.

(* N = 2, L = 6: three frames in the same memory *)
Definition ex_m6 : mem Z := {| base := 1000; cells := [1; 2; 3; 4; 5; 6]%Z |}.
Definition ex_fr6 : sref := {| addr := 1000; len := 3 |}.
Example ex_divides : Nat.divide 2 (length (cells ex_m6)).
Proof. exists 3. reflexivity. Qed.
Example ex_view_ok : to_frame_slice 2 ex_m6 = Ok (Some (ex_fr6, [[1; 2]; [3; 4]; [5; 6]]%Z)).
Proof. reflexivity. Qed.
Example ex_view_elem : frame_get [[1; 2]; [3; 4]; [5; 6]]%Z 2 1 = nth_error (cells ex_m6) (2 * 2 + 1).
Proof. reflexivity. Qed.
Example ex_roundtrip : to_sample_slice 2 ex_m6 ex_fr6 = Ok (sample_ref ex_m6, cells ex_m6).
Proof. reflexivity. Qed.
Example ex_frames_of : frames_of 2 [[1; 2]; [3; 4]; [5; 6]]%Z.
Proof. repeat constructor. Qed.
Example ex_roundtrip_frames :
  to_frame_slice 2 (frame_mem 2000 [[1; 2]; [3; 4]; [5; 6]]%Z) = Ok (Some (frame_ref 2000 [[1; 2]; [3; 4]; [5; 6]]%Z, [[1; 2]; [3; 4]; [5; 6]]%Z)).
Proof. reflexivity. Qed.

(* a store into frame 1, channel 1 of the view lands in cell 3 of the original *)
Example ex_write_through :
  match store_frame_chan 2 ex_m6 ex_fr6 1 1 99%Z with
  | Ok m' => cells m' = [1; 2; 3; 99; 5; 6]%Z /\
             to_frame_slice 2 m' = Ok (Some (ex_fr6, [[1; 2]; [3; 99]; [5; 6]]%Z))
  | _ => False
  end.
Proof. split; reflexivity. Qed.
(* a store into sample 4 of the sample view of three frames lands in frame 2, channel 0 *)
Example ex_write_through_samples :
  match store_sample (frame_mem 2000 [[1; 2]; [3; 4]; [5; 6]]%Z) {| addr := 2000; len := 6 |} 4 77%Z with
  | Ok m' => to_frame_slice 2 m' = Ok (Some ({| addr := 2000; len := 3 |}, [[1; 2]; [3; 4]; [77; 6]]%Z))
  | _ => False
  end.
Proof. reflexivity. Qed.
(* stores outside the view are refused by the bounds check, not UB *)
Example ex_store_oob : store_frame_chan 2 ex_m6 ex_fr6 3 0 9%Z = Panic PIndex /\ store_frame_chan 2 ex_m6 ex_fr6 0 2 9%Z = Panic PIndex.
Proof. split; reflexivity. Qed.
(* a reference that overstates the length is UB to dereference: the model can tell a wrong new_len *)
Example ex_bad_len_UB : deref_frames 2 ex_m6 {| addr := 1000; len := 4 |} = UB.
Proof. reflexivity. Qed.

(* boxed, 4-byte samples, between two unrelated live blocks *)
Definition ex_h (L : nat) : heap := [(500, 8, true); (1000, L * 4, true); (3000, 16, false)].
Example ex_boxed_ok :
  from_boxed_sample_slice 2 4 (ex_h 6) {| addr := 1000; len := 6 |} = Ok (ex_h 6, Some ex_fr6).
Proof. reflexivity. Qed.
Example ex_boxed_fail :
  from_boxed_sample_slice 3 4 (ex_h 7) {| addr := 1000; len := 7 |} = Ok ([(500, 8, true); (3000, 16, false)], None).
Proof. reflexivity. Qed.
Example ex_boxed_fail_alone :
  from_boxed_sample_slice 3 4 [(1000, 28, true)] {| addr := 1000; len := 7 |} = Ok ([], None).
Proof. reflexivity. Qed.
Example ex_boxed_back :
  from_boxed_frame_slice 2 4 (ex_h 6) ex_fr6 = Ok (ex_h 6, {| addr := 1000; len := 6 |}).
Proof. reflexivity. Qed.
Example ex_addr_fresh : ~ In 1000 (addrs [(500, 8, true)]).
Proof. simpl. lia. Qed.
(* the ledger tells the pre-repair order (forget, then test) apart: nothing would own the block *)
Example ex_forget_then_fail_leaks :
  match forget [(1000, 28, true)] 1000 28 with Ok h => h = [(1000, 28, false)] /\ live_bytes h = 28 | _ => False end.
Proof. split; reflexivity. Qed.

(* two-slice operations on pairs of integers *)
Definition ex_f (x y : Z * Z) : Z * Z := (fst x - snd y, snd x + 2 * fst y)%Z.
Example ex_zip_equal :
  zip_map_in_place ex_f [(1, 2); (3, 4)]%Z [(10, 20); (30, 40)]%Z = ([(-19, 22); (-37, 64)]%Z, Ok tt).
Proof. reflexivity. Qed.
Example ex_zip_mismatch :
  zip_map_in_place ex_f [(1, 2); (3, 4)]%Z [(10, 20); (30, 40); (50, 60)]%Z = ([(1, 2); (3, 4)]%Z, Panic PAssert) /\
  zip_map_in_place ex_f [(1, 2); (3, 4)]%Z [(10, 20)]%Z = ([(1, 2); (3, 4)]%Z, Panic PAssert).
Proof. split; reflexivity. Qed.
Example ex_unchecked_UB : snd (zip_map_in_place_unchecked ex_f [(1, 2); (3, 4)]%Z [(10, 20)]%Z) = UB.
Proof. reflexivity. Qed.
Example ex_write : write [1; 2; 3]%Z [7; 8; 9]%Z = ([7; 8; 9]%Z, Ok tt) /\ write [1; 2; 3]%Z [7; 8]%Z = ([1; 2; 3]%Z, Panic PAssert).
Proof. split; reflexivity. Qed.
Example ex_add_gain :
  add_in_place_with_amp_per_channel Z.add Z.mul [1; 2; 3]%Z [10; 20; 30]%Z 2%Z = ([21; 42; 63]%Z, Ok tt).
Proof. reflexivity. Qed.
Example ex_equilibrium : equilibrium 128%Z [1; 2; 3]%Z = [128; 128; 128]%Z.
Proof. reflexivity. Qed.

(* For the record (defect F3, repaired in /repo by 521ad3c): the pre-repair text forgot the box
   first and tested divisibility afterwards.  On the ledger the difference is visible: with
   N = 2, L = 3 the block stays live and unowned (12 bytes leaked), which is exactly what
   c10_boxed_fail_releases excludes for the current text. *)
Definition from_boxed_sample_slice_f3 (N sz : nat) (h : heap) (slice : sref) : res (heap * option sref) :=
  let len_ := len slice in
  let* h1 := forget h (addr slice) (len_ * sz) in
  match from_sample_slice_mut_ref N {| addr := addr slice; len := len_ |} with
  | Some p => let* h2 := from_raw h1 (addr p) (len p * (N * sz)) in Ok (h2, Some p)
  | None => Ok (h1, None)
  end.
Example ex_f3_leaked :
  from_boxed_sample_slice_f3 2 4 [(1000, 12, true)] {| addr := 1000; len := 3 |} = Ok ([(1000, 12, false)], None) /\
  from_boxed_sample_slice 2 4 [(1000, 12, true)] {| addr := 1000; len := 3 |} = Ok ([], None).
Proof. split; reflexivity. Qed.
