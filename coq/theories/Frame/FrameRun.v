(* C03 -- executable Z-level interface of the sample / frame model, evaluated by coqc on the same
   cases as the real crates (lib/props/c03.py, harness/src/bin/c03.rs).
   Values travel as Z: integer samples as their value, f32/f64 as IEEE bit patterns (Sample/SampleFmt.v enc/dec).
   One observation (list Z) per operation:
     [0; v..]  returned (a sample, a frame, frame ++ log)      [8; k]  panicked with kind k      [9]  UB in the model *)
Require Import Floats.SpecFloat.
Require Import List ZArith NArith Bool Uint63.
From Flocq Require Import Core BinarySingleNaN.
From Dasp Require Import Base.Res Base.Float Sample.Rint Sample.ConvSpec Sample.ConvRun Sample.SampleFmt Sample.SampleOps
  Frame.Frame Frame.FrameOps Frame.ChanIter Frame.FrameMut.
From DaspGen Require Import SampleTable.
Import ListNotations.
Open Scope Z_scope.

Inductive zop :=
(* Sample:: methods on one value *)
| ZSAdd (v a : Z) | ZSMul (v g : Z) | ZSSigned (v : Z) | ZSFloat (v : Z) | ZSEquil
(* Frame:: methods; [fr] has the case's N entries (1 for a bare sample) *)
| ZMap (fr outs : list Z)                 (* closure: records its argument, returns outs[number of calls so far] *)
| ZZip (fr other outs : list Z)           (* other: a frame of the Signed type *)
| ZFromFn (outs : list Z)                 (* closure: records the index, returns outs[index] *)
| ZFromSamples (l : list Z)               (* iterator over l counting its next() calls *)
| ZChannels (fr : list Z)
| ZChannel (fr : list Z) (i : Z)
| ZOffset (fr : list Z) (a : Z) | ZScale (fr : list Z) (g : Z)
| ZAddF (fr other : list Z) | ZMulF (fr other : list Z)
| ZToSigned (fr : list Z) | ZToFloat (fr : list Z) | ZEquilF
(* bare-sample cases only: map bare -> [_; 1], map [_; 1] -> bare, add_amp with a [Signed; 1] argument *)
| ZMapBA (fr outs : list Z) | ZMapAB (fr outs : list Z) | ZAddFA (fr other : list Z)
(* iterator-adaptor script on ONE iterator: kind 0 channels() (by value), 1 channels_ref(), 2 channels_mut();
   script = triples [code; a; b]: 0 next, 1 nth a, 2 skip a then next, 3 step_by a take b, 4 count, 5 last,
   6 len + size_hint, 7 next_back, 8 rev take a, 9 clone: next and len of the clone *)
| ZIter (kind : Z) (fr script : list Z)
(* round 3 (coverage of the whole Frame surface) *)
| ZSIdentity                               (* <S as Sample>::IDENTITY *)
| ZNumChannels                             (* <F as Frame>::CHANNELS *)
| ZChannelMut (fr : list Z) (i v : Z)      (* if let Some(r) = fr.channel_mut(i) { *r = v }  -> flag, frame afterwards *)
| ZChannelUnchecked (fr : list Z) (i : Z)  (* unsafe { *fr.channel_unchecked(i) }, generated for i < N only *)
| ZChannelUncheckedMut (fr : list Z) (i v : Z)   (* unsafe { *fr.channel_unchecked_mut(i) = v }, i < N only *)
| ZChannelsMutWrite (fr news : list Z) (dir : Z). (* for (r, v) in fr.channels_mut()[.rev() if dir = 1].zip(news) { *r = v } *)

(* mode: 0 debug / 1 release;  fmt: SampleFmt.sfmt_code;  n: channel count;  bare: 1 = a bare sample used as a frame *)
Inductive fcase := FCase (mode fmt n bare : Z) (ops : list zop).

Definition obs_res (r : res (list Z)) : list Z :=
  match r with Ok l => 0 :: l | Panic k => [8; Z.of_nat (panic_code k)] | UB => [9] end.

(* recording closures *)
Definition rec_map {X Y} (outs : list Y) : list X -> X -> res (Y * list X) :=
  fun log x => let* y := get_checked outs (length log) in Ok (y, (log ++ [x])%list).
Definition rec_zip {X1 X2 Y} (outs : list Y) : list X1 * list X2 -> X1 -> X2 -> res (Y * (list X1 * list X2)) :=
  fun log a b => let* y := get_checked outs (length (fst log)) in Ok (y, ((fst log ++ [a])%list, (snd log ++ [b])%list)).
Definition rec_idx {Y} (outs : list Y) : list nat -> nat -> res (Y * list nat) :=
  fun log i => let* y := get_checked outs i in Ok (y, (log ++ [i])%list).

Definition zb (b : bool) : Z := if b then 1 else 0.
Definition znat (n : nat) : Z := Z.of_nat n.
Definition hd1 {X} (l : list X) : res X := get_checked l 0.


(* ---- iterator scripts ---- *)
Fixpoint steps_of (fuel : nat) (l : list Z) : list step :=
  match fuel, l with
  | S f, c :: a :: b :: r =>
    let an := Z.to_nat a in
    (match c with
     | 0 => SNext | 1 => SNth an | 2 => SSkipNext an | 3 => SStepBy an (Z.to_nat b) | 4 => SCount | 5 => SLast
     | 6 => SLen | 7 => SNextBack | 8 => SRevTake an | _ => SClonePeek
     end) :: steps_of f r
  | _, _ => []
  end.

(* kind 0: Channels does not override size_hint (core's default (0, None)); kinds 1, 2: slice iterators, (n, Some n) *)
Definition enc_sobs {X} (e : X -> Z) (kind : Z) (s : step) (o : sobs X) : list Z :=
  match o with
  | OOpt None => [0]
  | OOpt (Some v) => [1; e v]
  | OList l => znat (length l) :: List.map e l
  | ONat (Ok n) =>
    match s with
    | SLen => if kind =? 0 then [znat n; 0; -1] else [znat n; znat n; znat n]
    | _ => [znat n]
    end
  | ONat _ => [-8]
  | OUnsupported => [-1]
  | OPeek o n => ((match o with None => [0] | Some v => [1; e v] end) ++
                  (match n with Ok n => [znat n] | _ => [-8] end))%list
  end.
Definition enc_script {X} (e : X -> Z) (kind : Z) (sc : list step) (os : list (sobs X)) : list Z :=
  0 :: List.concat (List.map (fun p => enc_sobs e kind (fst p) (snd p)) (combine sc os)).

Section Run.
Variable m : mode.
Variable f : sfmt.
Variable N : nat.
Notation e := (enc f).
Notation d := (dec f).
Notation es := (enc (signed_of f)).
Notation ds := (dec (signed_of f)).
Notation ef := (enc (float_of f)).
Notation df := (dec (float_of f)).
Definition dl := List.map d.
Definition el := List.map e.

Definition run_sample_op (o : zop) : option (list Z) :=
  match o with
  | ZSAdd v a => Some (obs_res (rmap (fun r => [e r]) (add_amp m f (d v) (ds a))))
  | ZSMul v g => Some (obs_res (rmap (fun r => [e r]) (mul_amp m f (d v) (df g))))
  | ZSSigned v => Some (obs_res (rmap (fun r => [es r]) (to_signed m f (d v))))
  | ZSFloat v => Some (obs_res (rmap (fun r => [ef r]) (to_float m f (d v))))
  | ZSEquil => Some [0; e (equilibrium_of f)]
  | ZSIdentity => Some [0; ef (identity_of f)]
  | _ => None
  end.

Definition obs_from_samples (r : res (option (list (sty f)) * iter)) : list Z :=
  match r with
  | Ok (Some fr, (rest, calls)) => (1 :: el fr ++ znat calls :: el rest)%list
  | Ok (None, (rest, calls)) => (0 :: znat calls :: el rest)%list
  | Panic k => [8; Z.of_nat (panic_code k)]
  | UB => [9]
  end.

(* [S; N] *)
Definition run_arr_op (o : zop) : list Z :=
  match run_sample_op o with Some r => r | None =>
  match o with
  | ZMap fr outs =>
    obs_res (rmap (fun r => el (fst r) ++ el (snd r))%list (map N (dl fr) (rec_map (dl outs)) []))
  | ZZip fr other outs =>
    obs_res (rmap (fun r => el (fst r) ++ el (fst (snd r)) ++ List.map es (snd (snd r)))%list
                  (zip_map N (dl fr) (List.map ds other) (rec_zip (dl outs)) ([], [])))
  | ZFromFn outs =>
    obs_res (rmap (fun r => el (fst r) ++ List.map znat (snd r))%list (from_fn N (rec_idx (dl outs)) []))
  | ZFromSamples l => obs_from_samples (from_samples N (dl l, O))
  | ZChannels fr =>
    let it := channels (dl fr) in
    let (items, it1) := channels_collect (S (S N)) it in
    let (x1, it2) := channels_next it1 in
    let (x2, it3) := channels_next it2 in
    (obs_res (rmap (fun n => [znat n]) (channels_len N it)) ++ el items ++
     obs_res (rmap (fun n => [znat n]) (channels_len N it3)) ++
     [zb (match x1 with Some _ => true | None => false end) + zb (match x2 with Some _ => true | None => false end)])%list
  | ZChannel fr i =>
    match (if i <? 0 then None else channel (dl fr) (Z.to_nat i)) with Some v => [1; e v] | None => [0] end
  | ZOffset fr a => obs_res (rmap el (f_offset_amp m f N (dl fr) (ds a)))
  | ZScale fr g => obs_res (rmap el (f_scale_amp m f N (dl fr) (df g)))
  | ZAddF fr other => obs_res (rmap el (f_add_amp m f N (dl fr) (List.map ds other)))
  | ZMulF fr other => obs_res (rmap el (f_mul_amp m f N (dl fr) (List.map df other)))
  | ZToSigned fr => obs_res (rmap (List.map es) (f_to_signed m f N (dl fr)))
  | ZToFloat fr => obs_res (rmap (List.map ef) (f_to_float m f N (dl fr)))
  | ZEquilF => 0 :: el (f_equilibrium f N)
  | ZIter kind fr script =>
    let sc := steps_of (length script) script in
    if kind =? 0 then enc_script e kind sc (fst (channels_script N sc (dl fr)))
    else enc_script e kind sc (fst (run_script_list sc (dl fr)))
  | ZNumChannels => [0; znat (num_channels N)]
  | ZChannelMut fr i v =>
    if i <? 0 then [-1] else
    let r := channel_mut_write (dl fr) (Z.to_nat i) (d v) in (0 :: zb (fst r) :: el (snd r))
  | ZChannelUnchecked fr i =>
    if i <? 0 then [-1] else obs_res (rmap (fun x => [e x]) (get_unchecked (dl fr) (Z.to_nat i)))
  | ZChannelUncheckedMut fr i v =>
    if i <? 0 then [-1] else obs_res (rmap el (channel_unchecked_mut_write (dl fr) (Z.to_nat i) (d v)))
  | ZChannelsMutWrite fr news dir =>
    0 :: el (if dir =? 0 then overwrite (dl news) (dl fr) else overwrite_back (dl news) (dl fr))
  | _ => [-1]
  end end.

(* a bare sample used as a frame: the frame arguments are one-element lists *)
Definition run_bare_op (o : zop) : list Z :=
  match run_sample_op o with Some r => r | None =>
  match o with
  | ZMap fr outs =>
    obs_res (let* s := hd1 (dl fr) in
             rmap (fun r => e (fst r) :: el (snd r)) (mono_map s (rec_map (dl outs)) []))
  | ZMapBA fr outs =>
    obs_res (let* s := hd1 (dl fr) in
             rmap (fun r => el (fst r) ++ el (snd r))%list (mono_map_to_arr s (rec_map (dl outs)) []))
  | ZMapAB fr outs =>
    obs_res (rmap (fun r => e (fst r) :: el (snd r)) (arr_map_to_mono (dl fr) (rec_map (dl outs)) []))
  | ZZip fr other outs =>
    obs_res (let* s := hd1 (dl fr) in let* o := hd1 (List.map ds other) in
             rmap (fun r => e (fst r) :: el (fst (snd r)) ++ List.map es (snd (snd r)))%list
                  (mono_zip_map s o (rec_zip (dl outs)) ([], [])))
  | ZFromFn outs =>
    obs_res (rmap (fun r => e (fst r) :: List.map znat (snd r)) (mono_from_fn (rec_idx (dl outs)) []))
  | ZFromSamples l =>
    match mono_from_samples (dl l, O) with
    | (Some s, (rest, calls)) => (1 :: e s :: znat calls :: el rest)%list
    | (None, (rest, calls)) => (0 :: znat calls :: el rest)%list
    end
  | ZChannels fr =>
    match dl fr with
    | [s] =>
      let it := mono_channels s in
      let (items, it1) := mono_channels_collect 3 it in
      let (x1, it2) := mono_channels_next it1 in
      let (x2, it3) := mono_channels_next it2 in
      (obs_res (rmap (fun n => [znat n]) (mono_channels_len it)) ++ el items ++
       obs_res (rmap (fun n => [znat n]) (mono_channels_len it3)) ++
       [zb (match x1 with Some _ => true | None => false end) + zb (match x2 with Some _ => true | None => false end)])%list
    | _ => [-1]
    end
  | ZChannel fr i =>
    match dl fr with
    | [s] => match (if i <? 0 then None else mono_channel s (Z.to_nat i)) with Some v => [1; e v] | None => [0] end
    | _ => [-1]
    end
  | ZOffset fr a => obs_res (let* s := hd1 (dl fr) in rmap (fun r => [e r]) (m_offset_amp m f s (ds a)))
  | ZScale fr g => obs_res (let* s := hd1 (dl fr) in rmap (fun r => [e r]) (m_scale_amp m f s (df g)))
  | ZAddF fr other =>
    obs_res (let* s := hd1 (dl fr) in let* o := hd1 (List.map ds other) in rmap (fun r => [e r]) (m_add_amp m f s o))
  | ZAddFA fr other =>
    obs_res (let* s := hd1 (dl fr) in rmap (fun r => [e r]) (m_add_amp_arr m f s (List.map ds other)))
  | ZMulF fr other =>
    obs_res (let* s := hd1 (dl fr) in let* o := hd1 (List.map df other) in rmap (fun r => [e r]) (m_mul_amp m f s o))
  | ZToSigned fr => obs_res (let* s := hd1 (dl fr) in rmap (fun r => [es r]) (m_to_signed m f s))
  | ZToFloat fr => obs_res (let* s := hd1 (dl fr) in rmap (fun r => [ef r]) (m_to_float m f s))
  | ZEquilF => [0; e (m_equilibrium f)]
  | ZIter kind fr script =>
    let sc := steps_of (length script) script in
    match dl fr with
    | [s] => if kind =? 0 then enc_script e kind sc (fst (mono_channels_script sc s))
             else enc_script e kind sc (fst (run_script_list sc [s]))
    | _ => [-1]
    end
  | ZNumChannels => [0; znat mono_num_channels]
  | ZChannelMut fr i v =>
    match dl fr with
    | [s] => if i <? 0 then [-1] else
             let r := mono_channel_mut_write s (Z.to_nat i) (d v) in [0; zb (fst r); e (snd r)]
    | _ => [-1]
    end
  | ZChannelUnchecked fr i =>
    match dl fr with
    | [s] => if i <? 0 then [-1] else obs_res (rmap (fun x => [e x]) (mono_channel_unchecked s (Z.to_nat i)))
    | _ => [-1]
    end
  | ZChannelUncheckedMut fr i v =>
    match dl fr with
    | [s] => if i <? 0 then [-1] else
             obs_res (rmap (fun x => [e x]) (mono_channel_unchecked_mut_write s (Z.to_nat i) (d v)))
    | _ => [-1]
    end
  | ZChannelsMutWrite fr news dir =>
    match dl fr with
    | [s] => [0; e (mono_overwrite (dl news) s)]
    | _ => [-1]
    end
  | _ => [-1]
  end end.

End Run.

Definition run_case (c : fcase) : list (list Z) :=
  match c with
  | FCase mo fc n bare ops =>
    match sfmt_of_code fc with
    | Some f =>
      if bare =? 1 then List.map (run_bare_op (mode_of mo) f) ops
      else List.map (run_arr_op (mode_of mo) f (Z.to_nat n)) ops
    | None => [[-1]]
    end
  end.

Definition check (c : fcase * list (list Z)) : bool := zll_eqb (run_case (fst c)) (snd c).
