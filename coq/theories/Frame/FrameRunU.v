(* C03 -- compact transport of correspondence cases: a whole (case, observations) pair travels as ONE list of
   primitive 63-bit integers (parsing Z literals and nested list notations dominated the check's run time).
   Value encoding (python side: lib/props/c03.py enc_z): a = 4 * q + tag;
     tag 0: q;  tag 1: -q;  tag 2: q * 2^32 + next int;  tag 3: -(q * 2^32 + next int).
   Stream: mode fmt n bare nops (opcode nlists (len v..)..).. nobs (len v..)..
   The decoded pair is handed to FrameRun.check; nothing else changes. *)
Require Import Floats.SpecFloat.
Require Import List ZArith Bool Uint63.
From Dasp Require Import Frame.FrameRun.
Import ListNotations.
Open Scope Z_scope.

Fixpoint unz (l : list int) : list Z :=
  match l with
  | [] => []
  | a :: r =>
    let q := Uint63.to_Z (a >> 2)%uint63 in
    let tag := Uint63.to_Z (a land 3)%uint63 in
    if tag =? 0 then q :: unz r
    else if tag =? 1 then (- q) :: unz r
    else match r with
         | b :: r' => let v := q * 4294967296 + Uint63.to_Z b in (if tag =? 2 then v else - v) :: unz r'
         | [] => []
         end
  end.

Fixpoint take_lists (k : nat) (s : list Z) : list (list Z) * list Z :=
  match k with
  | O => ([], s)
  | S k' => match s with
            | [] => ([], [])
            | len :: r => let n := Z.to_nat len in
                          let (ls, rest) := take_lists k' (skipn n r) in (firstn n r :: ls, rest)
            end
  end.

Definition mk_op (code : Z) (ls : list (list Z)) : option zop :=
  match code, ls with
  | 1, [[v; a]] => Some (ZSAdd v a) | 2, [[v; g]] => Some (ZSMul v g) | 3, [[v]] => Some (ZSSigned v)
  | 4, [[v]] => Some (ZSFloat v) | 5, _ => Some ZSEquil
  | 6, [fr; outs] => Some (ZMap fr outs) | 7, [fr; other; outs] => Some (ZZip fr other outs)
  | 8, [outs] => Some (ZFromFn outs) | 9, [l] => Some (ZFromSamples l) | 10, [fr] => Some (ZChannels fr)
  | 11, [fr; [i]] => Some (ZChannel fr i) | 12, [fr; [a]] => Some (ZOffset fr a) | 13, [fr; [g]] => Some (ZScale fr g)
  | 14, [fr; o] => Some (ZAddF fr o) | 15, [fr; o] => Some (ZMulF fr o) | 16, [fr] => Some (ZToSigned fr)
  | 17, [fr] => Some (ZToFloat fr) | 18, _ => Some ZEquilF
  | 19, [fr; outs] => Some (ZMapBA fr outs) | 20, [fr; outs] => Some (ZMapAB fr outs) | 21, [fr; o] => Some (ZAddFA fr o)
  | 22, [[kind]; fr; sc] => Some (ZIter kind fr sc)
  | 23, _ => Some ZSIdentity | 24, _ => Some ZNumChannels
  | 25, [fr; [i]; [v]] => Some (ZChannelMut fr i v) | 26, [fr; [i]] => Some (ZChannelUnchecked fr i)
  | 27, [fr; [i]; [v]] => Some (ZChannelUncheckedMut fr i v)
  | 28, [fr; news; [dir]] => Some (ZChannelsMutWrite fr news dir)
  | _, _ => None
  end.

Fixpoint take_ops (k : nat) (s : list Z) : option (list zop) * list Z :=
  match k with
  | O => (Some [], s)
  | S k' => match s with
            | code :: nl :: r =>
              let (ls, rest) := take_lists (Z.to_nat nl) r in
              let (ops, rest') := take_ops k' rest in
              (match mk_op code ls, ops with Some o, Some os => Some (o :: os) | _, _ => None end, rest')
            | _ => (None, [])
            end
  end.

Definition decode (s : list Z) : option (fcase * list (list Z)) :=
  match s with
  | mo :: fc :: n :: bare :: nops :: r =>
    match take_ops (Z.to_nat nops) r with
    | (Some ops, nobs :: r') =>
      let (obs, rest) := take_lists (Z.to_nat nobs) r' in
      match rest with [] => Some (FCase mo fc n bare ops, obs) | _ => None end
    | _ => None
    end
  | _ => None
  end.

Definition checku (l : list int) : bool :=
  match decode (unz l) with Some c => check c | None => false end.
