(* C03 -- non-vacuity: concrete non-trivial inputs meeting the hypotheses of the theorems, run through the model. *)
Require Import Floats.SpecFloat.
Require Import List ZArith Bool.
From Flocq Require Import Core BinarySingleNaN.
From Dasp Require Import Base.Res Base.Float Sample.Rint Sample.ConvSpec Sample.SampleFmt Sample.SampleOps
  Frame.Frame Frame.FrameOps Frame.ChanIter Frame.FrameMut.
From DaspGen Require Import SampleTable.
Import ListNotations.
Open Scope Z_scope.

(* unsigned samples are re-centred: u8 200 is amplitude +72; +20 fits i8, +100 does not (debug panic, release wrap) *)
Example ex_add_u8 : add_amp Checked (SInt FU8) 200 20 = Ok 220. Proof. vm_compute. reflexivity. Qed.
Example ex_add_u8_overflow : add_amp Checked (SInt FU8) 200 100 = Panic POverflow. Proof. vm_compute. reflexivity. Qed.
Example ex_add_u8_release : add_amp Wrapping (SInt FU8) 200 100 = Ok 44. Proof. vm_compute. reflexivity. Qed.
(* U24's Signed companion is i32: the offset is in 1/256 steps of a U24 step *)
Example ex_add_u24 : add_amp Checked (SInt FU24) 8388608 256 = Ok 8388609 /\ add_amp Checked (SInt FU24) 8388608 255 = Ok 8388608
  /\ add_amp Checked (SInt FU24) 8388608 (-1) = Ok 8388607.
Proof. vm_compute. repeat split; reflexivity. Qed.
(* I24 overflow is the expect() of types.rs, not rustc's overflow check *)
Example ex_add_i24_overflow : add_amp Checked (SInt FI24) 8388607 1 = Panic PExpect. Proof. vm_compute. reflexivity. Qed.
Example ex_mul_u8 : mul_amp Checked (SInt FU8) 200 identity32 = Ok 200 /\ mul_amp Checked (SInt FU8) 200 F32.zero = Ok 128
  /\ mul_amp Checked (SInt FU8) 200 (F32.of_bits 1056964608) = Ok 164.    (* 0.5: amplitude 72 -> 36 *)
Proof. vm_compute. repeat split; reflexivity. Qed.

(* frames: 3 distinct channels, per-channel result in channel order; the first overflowing channel panics *)
Example ex_offset : f_offset_amp Checked (SInt FU8) 3 [10; 128; 200] 20 = Ok [30; 148; 220]. Proof. vm_compute. reflexivity. Qed.
Example ex_offset_panic : f_offset_amp Checked (SInt FU8) 3 [10; 250; 200] 20 = Panic POverflow. Proof. vm_compute. reflexivity. Qed.
Example ex_add_frame : f_add_amp Checked (SInt FI16) 2 [100; -100] [1; -1] = Ok [101; -101]. Proof. vm_compute. reflexivity. Qed.
Example ex_to_signed : f_to_signed Checked (SInt FU16) 3 [0; 32768; 65535] = Ok [-32768; 0; 32767]. Proof. vm_compute. reflexivity. Qed.
(* a frame shorter than the target's channel count WOULD be UB in the unchecked-index code: the length hypothesis matters *)
Example ex_map_ub : map 3 [1; 2] (fun (st : unit) x => Ok (x, st)) tt = UB. Proof. reflexivity. Qed.
Example ex_map_order : map 3 [7; 8; 9] (fun log x => Ok (x + 1, log ++ [x])%list) [] = Ok ([8; 9; 10], [7; 8; 9]).
Proof. reflexivity. Qed.
(* from_samples: short iterator (partial fill then None, 3 next() calls for 2 items), exact, long *)
Example ex_from_samples_short : from_samples 3 ([1; 2], O) = Ok (None, ([], 3%nat)). Proof. reflexivity. Qed.
Example ex_from_samples_long : from_samples 2 ([1; 2; 3], O) = Ok (Some [1; 2], ([3], 2%nat)). Proof. reflexivity. Qed.
Example ex_channels : channels_collect 5 (channels [4; 5; 6]) = ([4; 5; 6], mkChannels 3 [4; 5; 6]). Proof. reflexivity. Qed.
(* iterator scripts: nth on a partly consumed channels() is relative to the current position *)
Example ex_script : fst (channels_script 4 [SNext; SNext; SNth 0; SLen] [10; 20; 30; 40])
  = [OOpt (Some 10); OOpt (Some 20); OOpt (Some 30); ONat (Ok 1%nat)]. Proof. reflexivity. Qed.
Example ex_script_mono : fst (mono_channels_script [SNext; SNth 0; SLen] 7)
  = [OOpt (Some 7); OOpt None; ONat (Ok 0%nat)]. Proof. reflexivity. Qed.
(* a clone of a partly consumed channels() continues from the SAME position (not from 0) and does not advance the original *)
Example ex_script_clone : fst (channels_script 4 [SNext; SClonePeek; SNext; SClonePeek; SLen] [10; 20; 30; 40])
  = [OOpt (Some 10); OPeek (Some 20) (Ok 2%nat); OOpt (Some 20); OPeek (Some 30) (Ok 1%nat); ONat (Ok 2%nat)].
Proof. reflexivity. Qed.
(* mutable accessors: a write through channel_mut changes that channel only; out of range: None, frame untouched *)
Example ex_channel_mut : channel_mut_write [4; 5; 6] 1 9 = (true, [4; 9; 6]) /\ channel_mut_write [4; 5; 6] 3 9 = (false, [4; 5; 6]).
Proof. split; reflexivity. Qed.
Example ex_channel_unchecked_mut : channel_unchecked_mut_write [4; 5; 6] 2 9 = Ok [4; 5; 9] /\ channel_unchecked_mut_write [4; 5; 6] 3 9 = UB.
Proof. split; reflexivity. Qed.
(* writes through channels_mut(): front to back, and (through .rev()) back to front; the shorter side ends the zip *)
Example ex_channels_mut_write : overwrite [7; 8] [1; 2; 3] = [7; 8; 3] /\ overwrite_back [7; 8] [1; 2; 3] = [1; 8; 7]
  /\ overwrite [7; 8; 9; 10] [1; 2; 3] = [7; 8; 9].
Proof. repeat split; reflexivity. Qed.

