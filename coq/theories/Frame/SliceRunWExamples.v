(* C10 -- non-vacuity examples for the fallible in-place operations over the real sample formats
   (Frame/SliceRunW.v), evaluated by vm_compute.

   1. A gain of exactly 1.0 on every channel does NOT make add_in_place_with_amp_per_channel the same as
      add_in_place for the formats whose float companion cannot hold every sample: mul_amp(1.0) takes the
      sample through f32 (i32/u32) or f64 (i64/u64).  A "unity gain" shortcut is therefore wrong.
   2. A panic in the middle of a slice (checked build): frames before it are stored, the rest is untouched;
      the release build wraps and completes. *)
Require Import Floats.SpecFloat.
Require Import List ZArith Bool.
From Flocq Require Import Core BinarySingleNaN.
From Dasp Require Import Frame.SliceRun Frame.SliceRunW.
Import ListNotations.
Open Scope Z_scope.

Definition one32 : Z := 1065353216.             (* 1.0f32 *)
Definition one64 : Z := 4607182418800017408.    (* 1.0f64 *)

(* i32 stereo, gains [1.0; 1.0], source 2^24 + 1: the frame operation adds 2^24 *)
Example unity_gain_i32_is_not_plain_add :
  run_xcase (XW 0 5 3 2 [[0; 0]] [[16777217; -16777217]] [one32; one32] 0) = [[5; 0; 0]; [7]; [5; 16777216; -16777216]] /\
  run_xcase (XW 0 4 3 2 [[0; 0]] [[16777217; -16777217]] [] 0) = [[5; 0; 0]; [7]; [5; 16777217; -16777217]].
Proof. split; vm_compute; reflexivity. Qed.

(* u32 destination (bare sample as the frame), i32 source *)
Example unity_gain_u32_is_not_plain_add :
  run_xcase (XW 0 5 9 0 [[2147483648]] [[16777219]] [one32] 0) <> run_xcase (XW 0 4 9 0 [[2147483648]] [[16777219]] [] 0).
Proof. vm_compute. discriminate. Qed.

(* i64 / u64 through f64: 2^53 + 1 *)
Example unity_gain_i64_is_not_plain_add :
  run_xcase (XW 0 5 5 2 [[0; 0]] [[9007199254740993; 5]] [one64; one64] 0) <>
  run_xcase (XW 0 4 5 2 [[0; 0]] [[9007199254740993; 5]] [] 0).
Proof. vm_compute. discriminate. Qed.

Example unity_gain_u64_is_not_plain_add :
  run_xcase (XW 1 5 11 3 [[9223372036854775808; 0; 1]] [[9007199254740993; 5; 7]] [one64; one64; one64] 0) <>
  run_xcase (XW 1 4 11 3 [[9223372036854775808; 0; 1]] [[9007199254740993; 5; 7]] [] 0).
Proof. vm_compute. discriminate. Qed.

(* the narrow formats and I48 are exact under the round trip: there the two operations agree on these inputs *)
Example unity_gain_i16_agrees :
  run_xcase (XW 0 5 1 2 [[0; -3]] [[32767; -32768]] [one32; one32] 0) = run_xcase (XW 0 4 1 2 [[0; -3]] [[32767; -32768]] [] 0).
Proof. vm_compute. reflexivity. Qed.

(* a panic in the second of three frames: checked build stops there, wrapping build completes *)
Example panic_mid_slice_checked :
  run_xcase (XW 0 4 3 2 [[1; 2]; [2147483647; 0]; [5; 6]] [[10; 20]; [1; 1]; [1; 1]] [] 0) =
  [[5; 1; 2; 2147483647; 0; 5; 6]; [8; 1]; [5; 11; 22; 2147483647; 0; 5; 6]].
Proof. vm_compute. reflexivity. Qed.

Example panic_mid_slice_wrapping :
  run_xcase (XW 1 4 3 2 [[1; 2]; [2147483647; 0]; [5; 6]] [[10; 20]; [1; 1]; [1; 1]] [] 0) =
  [[5; 1; 2; 2147483647; 0; 5; 6]; [7]; [5; 11; 22; -2147483648; 1; 6; 7]].
Proof. vm_compute. reflexivity. Qed.

(* length mismatch through a wide format: assert panic, destination untouched *)
Example mismatch_u64 :
  run_xcase (XW 0 5 11 0 [[1]; [2]] [[3]] [one64] 0) = [[5; 1; 2]; [8; 3]; [5; 1; 2]].
Proof. vm_compute. reflexivity. Qed.
