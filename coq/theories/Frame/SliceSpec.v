(* Specification vocabulary of C10: what the slice views and the in-place
   operations are compared against.  Definitions only. *)
Require Import List Arith.
Import ListNotations.

(* channel c of frame i of a list of frames *)
Definition frame_get {A} (fs : list (list A)) (i c : nat) : option A :=
  match nth_error fs i with Some f => nth_error f c | None => None end.

(* the element-wise application of a binary frame operation *)
Definition map2 {X Y Z} (f : X -> Y -> Z) (a : list X) (b : list Y) : list Z :=
  map (fun p => f (fst p) (snd p)) (combine a b).

(* every frame has exactly N channels *)
Definition frames_of {A} (N : nat) (fs : list (list A)) : Prop := Forall (fun f => length f = N) fs.

(* addresses of the live blocks of a ledger *)
Definition addrs (h : list (nat * nat * bool)) : list nat := map (fun b => fst (fst b)) h.
