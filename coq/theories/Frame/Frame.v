(* C03 -- model of dasp_frame/src/lib.rs: `impl<S, const N: usize> Frame for [S; N]`, the mono impls
   `impl Frame for $T` (impl_frame_for_sample!), the `Channels` iterator and `array_from_iter`,
   written after the source.  Definitions only (proofs: FrameProofs.v).

   A frame [S; N] is a list; the channel count N is a separate parameter wherever the source takes it
   from the TYPE (`F::from_fn` iterates over F's N, not over the length of `self`), and the theorems
   assume `length fr = N` -- the compile-time witness `F: Frame<NumChannels = Self::NumChannels>` that
   the source relies on for its unchecked indexing.  Closures are state-passing
   ([St -> X -> res (Y * St)]: FnMut with captured state, may panic), so call order is part of the model.
   `get_unchecked` is Base.Res.get_unchecked: out of range = UB. *)
Require Import List Arith Bool.
From Dasp Require Import Base.Res Base.ListX.
Import ListNotations.

Section Generic.
Context {A B C St : Type}.

(* ---- core::array::from_fn(cb): cb(0), cb(1), .., cb(N-1), in this order; a panic of cb propagates ---- *)
Fixpoint from_fn_idx {X} (g : St -> nat -> res (X * St)) (idxs : list nat) (st : St) : res (list X * St) :=
  match idxs with
  | [] => Ok ([], st)
  | i :: rest =>
    let* (x, st1) := g st i in
    let* (r, st2) := from_fn_idx g rest st1 in
    Ok (x :: r, st2)
  end.

(* <[S; N] as Frame>::from_fn(from) = core::array::from_fn(from) *)
Definition from_fn {X} (N : nat) (g : St -> nat -> res (X * St)) (st : St) : res (list X * St) :=
  from_fn_idx g (seq 0 N) st.

(* fn map<F, M>(self, mut map: M) -> F  { F::from_fn(|channel_idx| unsafe { map( *self.channel_unchecked(channel_idx)) }) }
   N = F's channel count *)
Definition map (N : nat) (fr : list A) (f : St -> A -> res (B * St)) (st : St) : res (list B * St) :=
  from_fn N (fun st i => let* x := get_unchecked fr i in f st x) st.

(* fn zip_map<O, F, M>(self, other: O, mut zip_map: M) -> F
   { F::from_fn(|channel_idx| unsafe { zip_map( *self.channel_unchecked(channel_idx), *other.channel_unchecked(channel_idx)) }) } *)
Definition zip_map (N : nat) (fr : list A) (other : list B) (f : St -> A -> B -> res (C * St)) (st : St)
  : res (list C * St) :=
  from_fn N (fun st i => let* a := get_unchecked fr i in let* b := get_unchecked other i in f st a b) st.

(* core::array::map -- <[T; N]>::map(self, f), the INHERENT method of arrays: f on each element, first to last.
   (Library code, modelled by what its documentation promises; it is also the reference the theorems
   compare Frame::map with.)  `self.map(..)` inside `impl Frame for [S; N]` (to_signed_frame, to_float_frame)
   resolves to this inherent method, not to Frame::map: inherent methods win method resolution. *)
Fixpoint traverse (l : list A) (f : St -> A -> res (B * St)) (st : St) : res (list B * St) :=
  match l with
  | [] => Ok ([], st)
  | x :: t =>
    let* (y, st1) := f st x in
    let* (r, st2) := traverse t f st1 in
    Ok (y :: r, st2)
  end.
Fixpoint traverse2 (l : list A) (l2 : list B) (f : St -> A -> B -> res (C * St)) (st : St) : res (list C * St) :=
  match l, l2 with
  | x :: t, y :: t2 =>
    let* (z, st1) := f st x y in
    let* (r, st2) := traverse2 t t2 f st1 in
    Ok (z :: r, st2)
  | _, _ => Ok ([], st)
  end.

(* fn channel(&self, idx) -> Option<&S> { self.get(idx) } *)
Definition channel (fr : list A) (idx : nat) : option A := nth_error fr idx.

(* ---- struct Channels<F> { next_idx, frame };  fn channels(self) { Channels { next_idx: 0, frame: self } }
   next(): self.frame.channel(self.next_idx).map(|&s| s).map(|s| { self.next_idx += 1; s })
   len():  F::CHANNELS - self.next_idx   (usize subtraction) ---- *)
Record channels_it := mkChannels { next_idx : nat; cframe : list A }.
Definition channels (fr : list A) : channels_it := mkChannels 0 fr.
Definition channels_next (it : channels_it) : option A * channels_it :=
  match channel (cframe it) (next_idx it) with
  | Some s => (Some s, mkChannels (S (next_idx it)) (cframe it))
  | None => (None, it)
  end.
Definition channels_len (N : nat) (it : channels_it) : res nat :=
  if next_idx it <=? N then Ok (N - next_idx it) else Panic POverflow.
(* what `for s in it` / collect() sees: next() until the first None (at most [fuel] calls) *)
Fixpoint channels_collect (fuel : nat) (it : channels_it) : list A * channels_it :=
  match fuel with
  | O => ([], it)
  | S k => match channels_next it with
           | (Some s, it') => let (r, it'') := channels_collect k it' in (s :: r, it'')
           | (None, it') => ([], it')
           end
  end.

(* ---- iterators handed to from_samples: the items still to come and the number of next() calls made ---- *)
Definition iter := (list A * nat)%type.
Definition iter_next (it : iter) : option A * iter :=
  match fst it with
  | [] => (None, ([], S (snd it)))
  | x :: t => (Some x, (t, S (snd it)))
  end.

(* ---- array_from_iter: [MaybeUninit<T>; N] as a list of optional slots ----
     let mut result: [MaybeUninit<T>; N] = MaybeUninit::uninit().assume_init();
     for i in 0..N {
         if let Some(sample) = iter.next() { result[i].write(sample); }
         else { for i in 0..i { result[i].assume_init_drop() } return None; }
     }
     Some(result.map(|v| v.assume_init()))
   result[i] is a checked index; assume_init / assume_init_drop on a slot never written is UB. *)
Definition uninit (N : nat) : list (option A) := repeat None N.
Definition slot_write (i : nat) (x : A) (slots : list (option A)) : res (list (option A)) :=
  if i <? length slots then Ok (set_nth i (Some x) slots) else Panic PIndex.
Definition slot_drop (i : nat) (slots : list (option A)) : res unit :=
  match nth_error slots i with
  | None => Panic PIndex
  | Some None => UB
  | Some (Some _) => Ok tt
  end.
Fixpoint drop_slots (idxs : list nat) (slots : list (option A)) : res unit :=
  match idxs with
  | [] => Ok tt
  | i :: rest => let* _ := slot_drop i slots in drop_slots rest slots
  end.
Fixpoint assume_init_all (slots : list (option A)) : res (list A) :=
  match slots with
  | [] => Ok []
  | None :: _ => UB
  | Some x :: t => let* r := assume_init_all t in Ok (x :: r)
  end.
Fixpoint fill_loop (idxs : list nat) (slots : list (option A)) (it : iter) : res (option (list (option A)) * iter) :=
  match idxs with
  | [] => Ok (Some slots, it)
  | i :: rest =>
    match iter_next it with
    | (Some x, it') => let* slots' := slot_write i x slots in fill_loop rest slots' it'
    | (None, it') => let* _ := drop_slots (seq 0 i) slots in Ok (None, it')
    end
  end.
(* <[S; N] as Frame>::from_samples(&mut samples) = array_from_iter(samples) *)
Definition from_samples (N : nat) (it : iter) : res (option (list A) * iter) :=
  let* (r, it') := fill_loop (seq 0 N) (uninit N) it in
  match r with
  | Some slots => let* fr := assume_init_all slots in Ok (Some fr, it')
  | None => Ok (None, it')
  end.

(* ---- the mono impls: `impl Frame for $T` (a bare sample is a 1-channel frame) ---- *)
(* fn channel(&self, idx) { if idx == 0 { Some(self) } else { None } } *)
Definition mono_channel (s : A) (idx : nat) : option A := if idx =? 0 then Some s else None.
(* unsafe fn channel_unchecked(&self, _idx) -> &S { self }   -- never out of bounds, whatever the index *)
Definition mono_channel_unchecked {X} (s : X) (idx : nat) : res X := Ok s.
(* fn from_fn(mut from) -> Self { from(0) } *)
Definition mono_from_fn {X} (g : St -> nat -> res (X * St)) (st : St) : res (X * St) := g st 0.
(* fn from_samples(samples) -> Option<Self> { samples.next() } *)
Definition mono_from_samples (it : iter) : option A * iter := iter_next it.
(* map / zip_map: the same text as the array impl; F::from_fn is the target's from_fn.
   bare -> bare (F = a bare sample type), bare -> [_; 1], [_; 1] -> bare *)
Definition mono_map (s : A) (f : St -> A -> res (B * St)) (st : St) : res (B * St) :=
  mono_from_fn (fun st i => let* x := mono_channel_unchecked s i in f st x) st.
Definition mono_map_to_arr (s : A) (f : St -> A -> res (B * St)) (st : St) : res (list B * St) :=
  from_fn 1 (fun st i => let* x := mono_channel_unchecked s i in f st x) st.
Definition arr_map_to_mono (fr : list A) (f : St -> A -> res (B * St)) (st : St) : res (B * St) :=
  mono_from_fn (fun st i => let* x := get_unchecked fr i in f st x) st.
Definition mono_zip_map (s : A) (other : B) (f : St -> A -> B -> res (C * St)) (st : St) : res (C * St) :=
  mono_from_fn (fun st i => let* a := mono_channel_unchecked s i in
                            let* b := mono_channel_unchecked other i in f st a b) st.
(* Channels over a bare sample: frame.channel = mono_channel *)
Record mono_channels_it := mkMonoChannels { m_next_idx : nat; m_frame : A }.
Definition mono_channels (s : A) : mono_channels_it := mkMonoChannels 0 s.
Definition mono_channels_next (it : mono_channels_it) : option A * mono_channels_it :=
  match mono_channel (m_frame it) (m_next_idx it) with
  | Some s => (Some s, mkMonoChannels (S (m_next_idx it)) (m_frame it))
  | None => (None, it)
  end.
Definition mono_channels_len (it : mono_channels_it) : res nat :=
  if m_next_idx it <=? 1 then Ok (1 - m_next_idx it) else Panic POverflow.
Fixpoint mono_channels_collect (fuel : nat) (it : mono_channels_it) : list A * mono_channels_it :=
  match fuel with
  | O => ([], it)
  | S k => match mono_channels_next it with
           | (Some s, it') => let (r, it'') := mono_channels_collect k it' in (s :: r, it'')
           | (None, it') => ([], it')
           end
  end.

End Generic.

(* closures without captured state *)
Definition pure1 {A B} (h : A -> res B) : unit -> A -> res (B * unit) :=
  fun st x => let* y := h x in Ok (y, st).
Definition pure2 {A B C} (h : A -> B -> res C) : unit -> A -> B -> res (C * unit) :=
  fun st x y => let* z := h x y in Ok (z, st).
Definition run_pure {X} (r : res (X * unit)) : res X := rmap fst r.
