(* C03 -- iterator-adaptor scripts on the channel iterators of dasp_frame.

   `Channels<F>` (by value, `frame.channels()`) implements only `Iterator::next` (+ `ExactSizeIterator::len`);
   `ChannelsRef` / `ChannelsMut` forward next / size_hint / len / next_back to core::slice::Iter(Mut).
   Everything else a caller can do with them (nth, skip, step_by, count, last, rev, ...) is a PROVIDED method
   of core::iter, defined from next() / next_back().  This file models
     - the provided methods, written after core::iter over an abstract [next] (section Via), so that the
       by-value iterator is run through the model of ITS next() (Frame.channels_next / mono_channels_next);
     - the reference: a list iterator (the channels still to come), on which a script of steps has the
       obvious meaning (section ListIter).  ChannelsRef/ChannelsMut are slice iterators: the list model itself.
   Definitions only; ChanIterProofs.v proves that the first refines the second. *)
Require Import List Arith Bool.
From Dasp Require Import Base.Res Frame.Frame.
Import ListNotations.

(* one step applied to ONE iterator instance (through by_ref() where the adaptor takes self by value) *)
Inductive step :=
| SNext                      (* it.next() *)
| SNth (k : nat)             (* it.nth(k) *)
| SSkipNext (k : nat)        (* it.by_ref().skip(k).next() *)
| SStepBy (k t : nat)        (* it.by_ref().step_by(k).take(t).collect(), k >= 1 *)
| SCount                     (* it.by_ref().count() *)
| SLast                      (* it.by_ref().last() *)
| SLen                       (* it.len() *)
| SNextBack                  (* it.next_back()                    -- ChannelsRef / ChannelsMut only *)
| SRevTake (t : nat)         (* it.by_ref().rev().take(t).collect() -- ChannelsRef / ChannelsMut only *)
| SClonePeek.                (* let mut c = it.clone(); (c.next(), c.len()); `it` itself is not touched
                                -- Channels / ChannelsRef (both #[derive(Clone)]; ChannelsMut is not Clone) *)

Inductive sobs (A : Type) :=
| OOpt (o : option A) | OList (l : list A) | ONat (n : res nat) | OUnsupported | OPeek (o : option A) (n : res nat).
Arguments OOpt {A} o. Arguments OList {A} l. Arguments ONat {A} n. Arguments OUnsupported {A}. Arguments OPeek {A} o n.

Definition last_error {A} (l : list A) : option A :=
  match l with [] => None | x :: t => Some (last t x) end.

(* ---- provided methods of Iterator, from next() ---- *)
Section Via.
Context {A St : Type}.
Variable next : St -> option A * St.
Variable len : St -> res nat.

(* fn nth(&mut self, n) { self.advance_by(n).ok()?; self.next() }   advance_by stops at the first None *)
Fixpoint nth_via (n : nat) (st : St) : option A * St :=
  match n with
  | O => next st
  | S k => match next st with (Some _, st') => nth_via k st' | (None, st') => (None, st') end
  end.

(* Skip::next: if n > 0 { iter.nth(take(n)) } else { iter.next() } -- the first next() of skip(k) is nth(k) *)
Definition skip_next_via (k : nat) (st : St) : option A * St := nth_via k st.

(* StepBy::next: the first call is iter.next(), every later one iter.nth(step - 1); Take(t) makes at most t calls;
   collect stops at the first None *)
Fixpoint step_rest_via (km1 t : nat) (st : St) : list A * St :=
  match t with
  | O => ([], st)
  | S t' => match nth_via km1 st with
            | (Some a, st') => let (r, st'') := step_rest_via km1 t' st' in (a :: r, st'')
            | (None, st') => ([], st')
            end
  end.
Definition step_take_via (k t : nat) (st : St) : list A * St :=
  match t with
  | O => ([], st)
  | S t' => match next st with
            | (Some a, st') => let (r, st'') := step_rest_via (k - 1) t' st' in (a :: r, st'')
            | (None, st') => ([], st')
            end
  end.

(* count() / last(): fold over next() until the first None ([fuel] bounds the loop) *)
Fixpoint drain_via (fuel : nat) (st : St) : list A * St :=
  match fuel with
  | O => ([], st)
  | S f => match next st with
           | (Some a, st') => let (r, st'') := drain_via f st' in (a :: r, st'')
           | (None, st') => ([], st')
           end
  end.

Definition run_step_via (fuel : nat) (s : step) (st : St) : sobs A * St :=
  match s with
  | SNext => let (o, st') := next st in (OOpt o, st')
  | SNth k => let (o, st') := nth_via k st in (OOpt o, st')
  | SSkipNext k => let (o, st') := skip_next_via k st in (OOpt o, st')
  | SStepBy k t => let (l, st') := step_take_via k t st in (OList l, st')
  | SCount => let (l, st') := drain_via fuel st in (ONat (Ok (length l)), st')
  | SLast => let (l, st') := drain_via fuel st in (OOpt (last_error l), st')
  | SLen => (ONat (len st), st)
  | SNextBack | SRevTake _ => (OUnsupported, st)
  (* a clone is a copy of the state: what its next() returns and the len() it then reports; the original keeps its state *)
  | SClonePeek => let (o, st') := next st in (OPeek o (len st'), st)
  end.

Fixpoint run_script_via (fuel : nat) (sc : list step) (st : St) : list (sobs A) * St :=
  match sc with
  | [] => ([], st)
  | s :: t => let (o, st') := run_step_via fuel s st in
              let (os, st'') := run_script_via fuel t st' in (o :: os, st'')
  end.
End Via.

(* ---- the reference: a (double-ended) list iterator = the channels still to come ---- *)
Section ListIter.
Context {A : Type}.

Fixpoint l_step_rest (km1 t : nat) (l : list A) : list A * list A :=
  match t with
  | O => ([], l)
  | S t' => match nth_error l km1 with
            | Some a => let (r, l') := l_step_rest km1 t' (skipn (S km1) l) in (a :: r, l')
            | None => ([], [])
            end
  end.
Definition l_step_take (k t : nat) (l : list A) : list A * list A :=
  match t, l with
  | O, _ => ([], l)
  | S t', a :: l' => let (r, l'') := l_step_rest (k - 1) t' l' in (a :: r, l'')
  | S _, [] => ([], [])
  end.

Definition run_step_list (s : step) (l : list A) : sobs A * list A :=
  match s with
  | SNext => (OOpt (hd_error l), tl l)
  | SNth k | SSkipNext k => (OOpt (nth_error l k), skipn (S k) l)
  | SStepBy k t => let (r, l') := l_step_take k t l in (OList r, l')
  | SCount => (ONat (Ok (length l)), [])
  | SLast => (OOpt (last_error l), [])
  | SLen => (ONat (Ok (length l)), l)
  | SNextBack => (OOpt (last_error l), removelast l)
  | SRevTake t => (OList (firstn t (rev l)), firstn (length l - t) l)
  | SClonePeek => (OPeek (hd_error l) (Ok (length (tl l))), l)
  end.

Fixpoint run_script_list (sc : list step) (l : list A) : list (sobs A) * list A :=
  match sc with
  | [] => ([], l)
  | s :: t => let (o, l') := run_step_list s l in
              let (os, l'') := run_script_list t l' in (o :: os, l'')
  end.

Definition by_value_step (s : step) : bool :=
  match s with SNextBack | SRevTake _ => false | _ => true end.
End ListIter.

(* the by-value iterators of Frame.v as instances *)
Definition channels_script {A} (N : nat) (sc : list step) (fr : list A) : list (sobs A) * channels_it :=
  run_script_via channels_next (channels_len N) (S N) sc (channels fr).
Definition mono_channels_script {A} (sc : list step) (s : A) : list (sobs A) * mono_channels_it :=
  run_script_via mono_channels_next mono_channels_len 2 sc (mono_channels s).
