(* Proofs about the slice model (Frame/Slice.v) against Frame/SliceSpec.v. *)
Require Import List Arith Bool Lia.
From Dasp Require Import Base.Res Base.ListX Frame.Slice Frame.SliceSpec.
Import ListNotations.

(* ------------------------------------------------------------------------- *)
(* arithmetic *)

Lemma div_exact_mul N L : N <> 0 -> L mod N = 0 -> L / N * N = L.
Proof. intros HN H. apply (proj2 (Nat.div_exact L N HN)) in H. lia. Qed.

Lemma mod0_divide N L : N <> 0 -> (L mod N = 0 <-> Nat.divide N L).
Proof. intros HN. apply Nat.mod_divide; exact HN. Qed.

(* (i, c) |-> i*N + c is injective on c < N *)
Lemma flat_index_inj N i c j d : c < N -> d < N -> i * N + c = j * N + d -> i = j /\ c = d.
Proof. intros Hc Hd H. assert (i = j) by nia. subst. lia. Qed.

Lemma flat_index_lt N k i c : i < k -> c < N -> i * N + c < k * N.
Proof. intros Hi Hc. nia. Qed.

(* ------------------------------------------------------------------------- *)
(* lists *)

Section Lists.
Context {A : Type}.
Implicit Types (l : list A).

Lemma skipn_add a b l : skipn (a + b) l = skipn b (skipn a l).
Proof. revert l; induction a as [|a IH]; intros [|x l]; simpl; auto. now destruct b. Qed.

Lemma firstn_add a b l : firstn (a + b) l = firstn a l ++ firstn b (skipn a l).
Proof.
  revert l; induction a as [|a IH]; intros [|x l]; simpl; auto.
  - now rewrite firstn_nil.
  - now rewrite IH.
Qed.

Lemma firstn_app_len N (f r : list A) : length f = N -> firstn N (f ++ r) = f.
Proof. intros <-. induction f; simpl; congruence. Qed.

Lemma skipn_app_len N (f r : list A) : length f = N -> skipn N (f ++ r) = r.
Proof. intros <-. induction f; simpl; auto. Qed.

Lemma chunks_length N k l : length (chunks N k l) = k.
Proof. revert l; induction k as [|k IH]; intros l; simpl; auto. Qed.

Lemma chunks_nth N k l i : i < k -> nth_error (chunks N k l) i = Some (firstn N (skipn (i * N) l)).
Proof.
  revert l i; induction k as [|k IH]; intros l i Hi; [lia|].
  destruct i as [|i]; cbn [chunks nth_error]; [reflexivity|].
  rewrite IH by lia. change (S i * N) with (N + i * N). now rewrite skipn_add.
Qed.

Lemma chunks_concat N k l : concat (chunks N k l) = firstn (k * N) l.
Proof.
  revert l; induction k as [|k IH]; intros l; [reflexivity|].
  cbn [chunks concat]. rewrite IH. change (S k * N) with (N + k * N). now rewrite firstn_add.
Qed.

Lemma chunks_frames N k l : k * N <= length l -> frames_of N (chunks N k l).
Proof.
  revert l; induction k as [|k IH]; intros l H; [constructor|].
  cbn [chunks]. change (S k * N) with (N + k * N) in H. constructor.
  - apply firstn_length_le. lia.
  - apply IH. rewrite skipn_length. lia.
Qed.

Lemma chunks_of_concat N (fs : list (list A)) rest :
  frames_of N fs -> chunks N (length fs) (concat fs ++ rest) = fs.
Proof.
  induction 1 as [|f fs Hf _ IH]; [reflexivity|].
  cbn [length chunks concat]. rewrite <- app_assoc.
  rewrite (firstn_app_len N f _ Hf), (skipn_app_len N f _ Hf), IH. reflexivity.
Qed.

Lemma concat_frames_length N (fs : list (list A)) : frames_of N fs -> length (concat fs) = length fs * N.
Proof.
  induction 1 as [|f fs Hf _ IH]; [reflexivity|].
  cbn [concat length]. rewrite app_length, IH, Hf. reflexivity.
Qed.

(* channel c of chunk i is cell i*N + c *)
Lemma chunk_elem N l i c : c < N -> nth_error (firstn N (skipn (i * N) l)) c = nth_error l (i * N + c).
Proof.
  intros Hc. rewrite nth_error_firstn. destruct (Nat.ltb_spec c N); [|lia].
  apply nth_error_skipn.
Qed.

Lemma chunks_get N k l i c : i < k -> c < N -> frame_get (chunks N k l) i c = nth_error l (i * N + c).
Proof. intros Hi Hc. unfold frame_get. rewrite chunks_nth by exact Hi. now apply chunk_elem. Qed.

End Lists.

(* ------------------------------------------------------------------------- *)
(* views *)

Section ViewProofs.
Context {A : Type}.
Implicit Types (m : mem A).

Definition whole_frames N m : sref := {| addr := base m; len := length (cells m) / N |}.

(* the complete behaviour of to_frame_slice: never UB, never a panic *)
Lemma to_frame_slice_spec N m : N <> 0 ->
  to_frame_slice N m =
  if length (cells m) mod N =? 0
  then Ok (Some (whole_frames N m, chunks N (length (cells m) / N) (cells m)))
  else Ok None.
Proof.
  intros HN. unfold to_frame_slice, to_frame_slice_ref, from_sample_slice_ref, sample_ref, whole_frames.
  cbv zeta. cbn [addr len].
  destruct (Nat.eqb_spec (length (cells m) mod N) 0) as [H|H]; [|reflexivity].
  unfold deref_frames, valid_frames. cbn [addr len].
  rewrite Nat.eqb_refl, (div_exact_mul _ _ HN H), Nat.leb_refl. reflexivity.
Qed.

Lemma to_frame_slice_mut_eq N m : to_frame_slice_mut N m = to_frame_slice N m.
Proof. reflexivity. Qed.

Lemma to_sample_slice_mut_eq N m fr : to_sample_slice_mut N m fr = to_sample_slice N m fr.
Proof. reflexivity. Qed.

Lemma view_iff N m : 1 <= N ->
  (Nat.divide N (length (cells m)) <-> exists v, to_frame_slice N m = Ok (Some v)) /\
  (~ Nat.divide N (length (cells m)) <-> to_frame_slice N m = Ok None).
Proof.
  intros HN. assert (HN0 : N <> 0) by lia. rewrite (to_frame_slice_spec N m HN0).
  rewrite <- (mod0_divide N _ HN0).
  destruct (Nat.eqb_spec (length (cells m) mod N) 0) as [H|H]; split; split; intros H'; try congruence; eauto.
  - destruct H' as [v Hv]. discriminate.
Qed.

Lemma view_len N m fr fs : 1 <= N -> to_frame_slice N m = Ok (Some (fr, fs)) ->
  len fr = length (cells m) / N /\ length fs = length (cells m) / N /\ frames_of N fs /\
  length (cells m) / N * N = length (cells m).
Proof.
  intros HN. assert (HN0 : N <> 0) by lia. rewrite (to_frame_slice_spec N m HN0).
  destruct (Nat.eqb_spec (length (cells m) mod N) 0) as [H|H]; [|discriminate].
  intros E. injection E as <- <-. pose proof (div_exact_mul _ _ HN0 H) as HM.
  repeat split; auto.
  - apply chunks_length.
  - apply chunks_frames. lia.
Qed.

Lemma view_elem N m fr fs i c : 1 <= N -> to_frame_slice N m = Ok (Some (fr, fs)) ->
  i < length (cells m) / N -> c < N -> frame_get fs i c = nth_error (cells m) (i * N + c).
Proof.
  intros HN. assert (HN0 : N <> 0) by lia. rewrite (to_frame_slice_spec N m HN0).
  destruct (Nat.eqb_spec (length (cells m) mod N) 0) as [H|H]; [|discriminate].
  intros E Hi Hc. injection E as <- <-. now apply chunks_get.
Qed.

(* ... and that cell exists: the view reads inside the allocation only *)
Lemma view_elem_some N m fr fs i c : 1 <= N -> to_frame_slice N m = Ok (Some (fr, fs)) ->
  i < length (cells m) / N -> c < N -> exists x, frame_get fs i c = Some x /\ nth_error (cells m) (i * N + c) = Some x.
Proof.
  intros HN E Hi Hc. rewrite (view_elem N m fr fs i c HN E Hi Hc).
  destruct (view_len N m fr fs HN E) as (_ & _ & _ & HM).
  destruct (nth_error_lt_Some (cells m) (i * N + c)) as [x Hx]; [|eauto].
  rewrite <- HM. now apply flat_index_lt.
Qed.

Lemma view_same_memory N m fr fs : 1 <= N -> to_frame_slice N m = Ok (Some (fr, fs)) -> addr fr = base m.
Proof.
  intros HN. assert (HN0 : N <> 0) by lia. rewrite (to_frame_slice_spec N m HN0).
  destruct (Nat.eqb_spec (length (cells m) mod N) 0) as [H|H]; [|discriminate].
  intros E. injection E as <- _. reflexivity.
Qed.

(* samples -> frames -> samples: the very same reference and contents *)
Lemma roundtrip_samples N m fr fs : 1 <= N -> to_frame_slice N m = Ok (Some (fr, fs)) ->
  to_sample_slice N m fr = Ok (sample_ref m, cells m) /\ concat fs = cells m.
Proof.
  intros HN. assert (HN0 : N <> 0) by lia. rewrite (to_frame_slice_spec N m HN0).
  destruct (Nat.eqb_spec (length (cells m) mod N) 0) as [H|H]; [|discriminate].
  intros E. injection E as <- <-. pose proof (div_exact_mul _ _ HN0 H) as HM.
  unfold to_sample_slice, to_sample_slice_ref, from_frame_slice_ref, deref_samples, valid_samples, whole_frames, sample_ref.
  cbv zeta. cbn [addr len]. rewrite HM, Nat.eqb_refl, Nat.leb_refl. cbn [andb bind].
  rewrite firstn_all. split; [reflexivity|].
  rewrite chunks_concat, HM. apply firstn_all.
Qed.

(* frames -> samples -> frames, for frames stored anywhere *)
Lemma roundtrip_frames N b (fs : list (list A)) : 1 <= N -> frames_of N fs ->
  to_sample_slice N (frame_mem b fs) (frame_ref b fs) = Ok (sample_ref (frame_mem b fs), concat fs) /\
  len (sample_ref (frame_mem b fs)) = length fs * N /\
  to_frame_slice N (frame_mem b fs) = Ok (Some (frame_ref b fs, fs)).
Proof.
  intros HN HF. assert (HN0 : N <> 0) by lia. pose proof (concat_frames_length N fs HF) as HL.
  split; [|split].
  - unfold to_sample_slice, to_sample_slice_ref, from_frame_slice_ref, deref_samples, valid_samples, frame_mem, frame_ref, sample_ref.
    cbv zeta. cbn [addr len base cells]. rewrite <- HL, Nat.eqb_refl, Nat.leb_refl. cbn [andb bind].
    now rewrite firstn_all.
  - cbn. exact HL.
  - rewrite (to_frame_slice_spec N _ HN0). unfold whole_frames, frame_mem, frame_ref. cbn [base cells].
    rewrite HL, Nat.mod_mul, Nat.div_mul by exact HN0. cbn [Nat.eqb].
    rewrite <- (app_nil_r (concat fs)), (chunks_of_concat N fs [] HF). reflexivity.
Qed.

(* a store through the mutable frame view is the store at flat index i*N + c
   of the original allocation, and nothing else moves *)
Lemma write_through N m fr fs i c x : 1 <= N -> to_frame_slice_mut N m = Ok (Some (fr, fs)) ->
  i < length (cells m) / N -> c < N ->
  exists m', store_frame_chan N m fr i c x = Ok m' /\
    base m' = base m /\ cells m' = set_nth (i * N + c) x (cells m) /\
    nth_error (cells m') (i * N + c) = Some x /\
    (forall p, p <> i * N + c -> nth_error (cells m') p = nth_error (cells m) p) /\
    exists fs', to_frame_slice_mut N m' = Ok (Some (fr, fs')) /\
      forall j d, j < length (cells m) / N -> d < N ->
        frame_get fs' j d = if (j =? i) && (d =? c) then Some x else frame_get fs j d.
Proof.
  intros HN E Hi Hc. rewrite to_frame_slice_mut_eq in E. assert (HN0 : N <> 0) by lia.
  destruct (view_len N m fr fs HN E) as (Hlen & _ & _ & HM).
  pose proof (view_same_memory N m fr fs HN E) as Haddr.
  assert (Hp : i * N + c < length (cells m)) by (rewrite <- HM; now apply flat_index_lt).
  set (m' := {| base := base m; cells := set_nth (i * N + c) x (cells m) |}).
  exists m'. split; [|split; [reflexivity|split; [reflexivity|split; [|split]]]].
  - unfold store_frame_chan, valid_frames. rewrite Hlen, Haddr.
    destruct (Nat.leb_spec (length (cells m) / N) i); [lia|].
    destruct (Nat.leb_spec N c); [lia|]. cbn [orb].
    rewrite Nat.eqb_refl, HM, Nat.leb_refl. reflexivity.
  - cbn [cells m']. now apply nth_error_set_nth_eq.
  - intros p Hne. cbn [cells m']. apply nth_error_set_nth_neq. congruence.
  - assert (HL' : length (cells m') = length (cells m)) by (cbn [cells m']; apply set_nth_length).
    assert (E' : to_frame_slice N m' = Ok (Some (fr, chunks N (length (cells m) / N) (cells m')))).
    { rewrite (to_frame_slice_spec N m' HN0), HL'.
      rewrite (to_frame_slice_spec N m HN0) in E.
      destruct (Nat.eqb_spec (length (cells m) mod N) 0) as [H|H]; [|discriminate].
      injection E as <- _. unfold whole_frames. rewrite HL'. reflexivity. }
    eexists. split; [rewrite to_frame_slice_mut_eq; exact E'|].
    intros j d Hj Hd.
    rewrite chunks_get by assumption.
    rewrite (view_elem N m fr fs j d HN E Hj Hd).
    cbn [cells m']. rewrite nth_error_set_nth.
    destruct (Nat.ltb_spec (i * N + c) (length (cells m))); [|lia]. rewrite andb_true_r.
    destruct (Nat.eqb_spec (i * N + c) (j * N + d)) as [Heq|Hne].
    + destruct (flat_index_inj N i c j d Hc Hd Heq) as [-> ->]. now rewrite !Nat.eqb_refl.
    + destruct (Nat.eqb_spec j i) as [->|]; [|reflexivity].
      destruct (Nat.eqb_spec d c) as [->|]; [congruence|]. reflexivity.
Qed.

(* a store through the mutable sample view of a frame slice is the store into
   channel j mod N of frame j / N, i.e. the frame view of the result differs at
   exactly the (i, c) with i*N + c = j *)
Lemma write_through_samples N b (fs : list (list A)) j x : 1 <= N -> frames_of N fs -> j < length fs * N ->
  exists sr ss m', to_sample_slice_mut N (frame_mem b fs) (frame_ref b fs) = Ok (sr, ss) /\
    store_sample (frame_mem b fs) sr j x = Ok m' /\ base m' = b /\
    exists fs', to_frame_slice N m' = Ok (Some (frame_ref b fs, fs')) /\
      forall i c, i < length fs -> c < N ->
        frame_get fs' i c = if i * N + c =? j then Some x else frame_get fs i c.
Proof.
  intros HN HF Hj. assert (HN0 : N <> 0) by lia.
  destruct (roundtrip_frames N b fs HN HF) as (E1 & HL & E2).
  pose proof (concat_frames_length N fs HF) as HC.
  eexists _, _, {| base := b; cells := set_nth j x (concat fs) |}.
  split; [rewrite to_sample_slice_mut_eq; exact E1|]. split; [|split; [reflexivity|]].
  - unfold store_sample, valid_samples, sample_ref, frame_mem. cbn [addr len base cells].
    rewrite HC. destruct (Nat.leb_spec (length fs * N) j); [lia|].
    now rewrite Nat.eqb_refl, Nat.leb_refl.
  - set (m' := {| base := b; cells := set_nth j x (concat fs) |}).
    assert (HL' : length (cells m') = length fs * N) by (cbn [cells m']; now rewrite set_nth_length).
    exists (chunks N (length fs) (cells m')). split.
    + rewrite (to_frame_slice_spec N m' HN0). unfold whole_frames.
      rewrite HL', Nat.mod_mul, Nat.div_mul by exact HN0. reflexivity.
    + intros i c Hi Hc. rewrite chunks_get by assumption. cbn [cells m'].
      rewrite nth_error_set_nth, HC.
      destruct (Nat.ltb_spec j (length fs * N)); [|lia]. rewrite andb_true_r.
      rewrite (Nat.eqb_sym j).
      destruct (Nat.eqb_spec (i * N + c) j); [reflexivity|].
      assert (Hv : frame_get fs i c = nth_error (cells (frame_mem b fs)) (i * N + c)).
      { apply (view_elem N (frame_mem b fs) (frame_ref b fs) fs i c HN E2); [|exact Hc].
        cbn [cells frame_mem]. rewrite HC, Nat.div_mul by exact HN0. exact Hi. }
      rewrite Hv. reflexivity.
Qed.

End ViewProofs.

(* ------------------------------------------------------------------------- *)
(* ownership ledger and the boxed conversions *)

Section Ledger.

Lemma forget_spec h1 h2 a bytes : ~ In a (addrs h1) ->
  forget (h1 ++ (a, bytes, true) :: h2) a bytes = Ok (h1 ++ (a, bytes, false) :: h2).
Proof.
  induction h1 as [|[[a' b'] o] h1 IH]; intros Hn.
  - cbn. now rewrite !Nat.eqb_refl.
  - cbn [app forget]. cbn in Hn. destruct (Nat.eqb_spec a' a) as [->|Hne]; [tauto|].
    rewrite IH by tauto. reflexivity.
Qed.

Lemma from_raw_spec h1 h2 a bytes : ~ In a (addrs h1) ->
  from_raw (h1 ++ (a, bytes, false) :: h2) a bytes = Ok (h1 ++ (a, bytes, true) :: h2).
Proof.
  induction h1 as [|[[a' b'] o] h1 IH]; intros Hn.
  - cbn. now rewrite !Nat.eqb_refl.
  - cbn [app from_raw]. cbn in Hn. destruct (Nat.eqb_spec a' a) as [->|Hne]; [tauto|].
    rewrite IH by tauto. reflexivity.
Qed.

Lemma drop_box_spec h1 h2 a bytes : ~ In a (addrs h1) ->
  drop_box (h1 ++ (a, bytes, true) :: h2) a bytes = Ok (h1 ++ h2).
Proof.
  induction h1 as [|[[a' b'] o] h1 IH]; intros Hn.
  - cbn. now rewrite !Nat.eqb_refl.
  - cbn [app drop_box]. cbn in Hn. destruct (Nat.eqb_spec a' a) as [->|Hne]; [tauto|].
    rewrite IH by tauto. reflexivity.
Qed.

Lemma live_bytes_app h1 h2 : live_bytes (h1 ++ h2) = live_bytes h1 + live_bytes h2.
Proof.
  induction h1 as [|b h1 IH]; [reflexivity|].
  change (snd (fst b) + live_bytes (h1 ++ h2) = snd (fst b) + live_bytes h1 + live_bytes h2). lia.
Qed.

Lemma live_bytes_mid h1 h2 a bytes o :
  live_bytes (h1 ++ (a, bytes, o) :: h2) = live_bytes (h1 ++ h2) + bytes.
Proof.
  rewrite !live_bytes_app. change (live_bytes ((a, bytes, o) :: h2)) with (bytes + live_bytes h2). lia.
Qed.

(* success: the one block changes hands and comes back; the ledger is as before *)
Lemma boxed_reuse N sz h1 h2 a L : 1 <= N -> Nat.divide N L -> ~ In a (addrs h1) ->
  let h := h1 ++ (a, L * sz, true) :: h2 in
  from_boxed_sample_slice N sz h {| addr := a; len := L |} = Ok (h, Some {| addr := a; len := L / N |}) /\
  L / N * (N * sz) = L * sz.
Proof.
  intros HN HD Hn h. assert (HN0 : N <> 0) by lia.
  apply (mod0_divide N L HN0) in HD. pose proof (div_exact_mul N L HN0 HD) as HM.
  assert (HB : L / N * (N * sz) = L * sz) by (rewrite Nat.mul_assoc, HM; reflexivity).
  split; [|exact HB].
  unfold from_boxed_sample_slice, h. cbv zeta. cbn [addr len]. rewrite HD. cbn [Nat.eqb negb].
  rewrite forget_spec by exact Hn. cbn [bind].
  unfold from_sample_slice_mut_ref. cbv zeta. cbn [addr len]. rewrite HD. cbn [Nat.eqb addr len].
  rewrite HB, from_raw_spec by exact Hn. reflexivity.
Qed.

(* failure: the block is freed; nothing of it remains in the ledger *)
Lemma boxed_fail_releases N sz h1 h2 a L : 1 <= N -> ~ Nat.divide N L -> ~ In a (addrs h1) ->
  from_boxed_sample_slice N sz (h1 ++ (a, L * sz, true) :: h2) {| addr := a; len := L |} = Ok (h1 ++ h2, None).
Proof.
  intros HN HD Hn. assert (HN0 : N <> 0) by lia.
  rewrite <- (mod0_divide N L HN0) in HD.
  unfold from_boxed_sample_slice. cbv zeta. cbn [addr len].
  destruct (Nat.eqb_spec (L mod N) 0) as [H|H]; [contradiction|]. cbn [negb].
  rewrite drop_box_spec by exact Hn. reflexivity.
Qed.

(* frames -> samples, boxed: always succeeds, same block, same byte size *)
Lemma boxed_back N sz h1 h2 a K : ~ In a (addrs h1) ->
  from_boxed_frame_slice N sz (h1 ++ (a, K * (N * sz), true) :: h2) {| addr := a; len := K |} =
  Ok (h1 ++ (a, K * N * sz, true) :: h2, {| addr := a; len := K * N |}) /\ K * N * sz = K * (N * sz).
Proof.
  intros Hn. assert (HB : K * N * sz = K * (N * sz)) by (now rewrite Nat.mul_assoc).
  split; [|exact HB].
  unfold from_boxed_frame_slice. cbv zeta. cbn [addr len].
  rewrite forget_spec by exact Hn. cbn [bind]. rewrite HB, from_raw_spec by exact Hn. reflexivity.
Qed.

End Ledger.

(* ------------------------------------------------------------------------- *)
(* in-place operations *)

Section OpsProofs.
Context {FA FB AMP : Type}.

Lemma nth_error_app_mid {X} (pre : list X) x t k : k = length pre -> nth_error (pre ++ x :: t) k = Some x.
Proof. intros ->. induction pre; simpl; auto. Qed.

Lemma set_nth_app_mid {X} (pre : list X) x t z k : k = length pre -> set_nth k z (pre ++ x :: t) = pre ++ z :: t.
Proof. intros ->. induction pre; simpl; congruence. Qed.

Lemma map2_length {X Y Z} (f : X -> Y -> Z) a b : length a = length b -> length (map2 f a b) = length a.
Proof. intros H. unfold map2. rewrite map_length, combine_length. lia. Qed.

Lemma map2_nth {X Y Z} (f : X -> Y -> Z) a b i x y :
  nth_error a i = Some x -> nth_error b i = Some y -> nth_error (map2 f a b) i = Some (f x y).
Proof.
  revert b i; induction a as [|x0 a IH]; intros [|y0 b] [|i]; simpl; try discriminate.
  - intros [= ->] [= ->]. reflexivity.
  - apply IH.
Qed.

Lemma zip_loop_spec (f : FA -> FB -> FA) (a : list FA) : forall pre_b b pre,
  length pre = length pre_b -> length a = length b ->
  zip_loop f (pre_b ++ b) (length a) (length pre) (pre ++ a) = (pre ++ map2 f a b, Ok tt).
Proof.
  induction a as [|x a IH]; intros pre_b b pre Hp Hl.
  - destruct b; [|discriminate]. reflexivity.
  - destruct b as [|y b]; [discriminate|]. cbn [length zip_loop]. unfold get_unchecked.
    rewrite (nth_error_app_mid pre x a _ eq_refl), (nth_error_app_mid pre_b y b _ Hp).
    rewrite (set_nth_app_mid pre x a _ _ eq_refl).
    destruct (Nat.ltb_spec (length pre) (length (pre ++ x :: a))) as [_|H];
      [|rewrite app_length in H; simpl in H; lia].
    replace (pre_b ++ y :: b) with ((pre_b ++ [y]) ++ b) by (now rewrite <- app_assoc).
    replace (pre ++ f x y :: a) with ((pre ++ [f x y]) ++ a) by (now rewrite <- app_assoc).
    replace (S (length pre)) with (length (pre ++ [f x y])) by (rewrite app_length; simpl; lia).
    rewrite IH.
    + rewrite <- app_assoc. reflexivity.
    + rewrite !app_length. simpl. lia.
    + simpl in Hl. lia.
Qed.

(* equal lengths: the loop is safe (no unchecked access leaves the slices) and
   the destination becomes the element-wise image *)
Lemma zip_map_spec (f : FA -> FB -> FA) a b : length a = length b ->
  zip_map_in_place f a b = (map2 f a b, Ok tt).
Proof.
  intros H. unfold zip_map_in_place, zip_map_in_place_unchecked. rewrite H, Nat.eqb_refl, <- H.
  exact (zip_loop_spec f a [] b [] eq_refl H).
Qed.

(* unequal lengths: the assertion fires and the destination is what it was *)
Lemma zip_map_mismatch (f : FA -> FB -> FA) a b : length a <> length b ->
  zip_map_in_place f a b = (a, Panic PAssert).
Proof.
  intros H. unfold zip_map_in_place. destruct (Nat.eqb_spec (length a) (length b)); [contradiction|reflexivity].
Qed.

(* why the assertion is needed: without it a longer destination reads past the source *)
Lemma unchecked_short_source_UB (f : FA -> FB -> FA) a b : length b < length a ->
  snd (zip_map_in_place_unchecked f a b) = UB.
Proof.
  unfold zip_map_in_place_unchecked.
  assert (G : forall (b : list FB) pre_b pre (a : list FA), length pre = length pre_b -> length b < length a ->
    snd (zip_loop f (pre_b ++ b) (length a) (length pre) (pre ++ a)) = UB).
  { clear a b. induction b as [|y b IH]; intros pre_b pre a Hp Hl.
    - destruct a as [|x a]; [simpl in Hl; lia|]. cbn [length zip_loop]. unfold get_unchecked.
      rewrite (nth_error_app_mid pre x a _ eq_refl), app_nil_r.
      assert (E : nth_error pre_b (length pre) = None) by (apply nth_error_None; lia).
      rewrite E. reflexivity.
    - destruct a as [|x a]; [simpl in Hl; lia|]. cbn [length zip_loop]. unfold get_unchecked.
      rewrite (nth_error_app_mid pre x a _ eq_refl), (nth_error_app_mid pre_b y b _ Hp).
      rewrite (set_nth_app_mid pre x a _ _ eq_refl).
      destruct (Nat.ltb_spec (length pre) (length (pre ++ x :: a))) as [_|H]; [|reflexivity].
      replace (pre_b ++ y :: b) with ((pre_b ++ [y]) ++ b) by (now rewrite <- app_assoc).
      replace (pre ++ f x y :: a) with ((pre ++ [f x y]) ++ a) by (now rewrite <- app_assoc).
      replace (S (length pre)) with (length (pre ++ [f x y])) by (rewrite app_length; simpl; lia).
      apply IH; [rewrite !app_length; simpl; lia|simpl in Hl; lia]. }
  intros H. exact (G b [] [] a eq_refl H).
Qed.

Lemma map_in_place_spec (g : FA -> FA) a : map_in_place g a = map g a.
Proof. induction a; simpl; congruence. Qed.

Lemma equilibrium_spec (e : FA) a : equilibrium e a = map (fun _ => e) a.
Proof. apply map_in_place_spec. Qed.

Lemma equilibrium_repeat (e : FA) a : equilibrium e a = repeat e (length a).
Proof. rewrite equilibrium_spec. induction a; simpl; congruence. Qed.

Lemma add_in_place_spec (add_amp : FA -> FB -> FA) a b : length a = length b ->
  add_in_place add_amp a b = (map2 add_amp a b, Ok tt).
Proof. intros H. unfold add_in_place. now rewrite zip_map_spec. Qed.

Lemma add_with_amp_spec (add_amp : FA -> FB -> FA) (mul_amp : FB -> AMP -> FB) a b amp : length a = length b ->
  add_in_place_with_amp_per_channel add_amp mul_amp a b amp =
  (map2 (fun x y => add_amp x (mul_amp y amp)) a b, Ok tt).
Proof. intros H. unfold add_in_place_with_amp_per_channel. now rewrite zip_map_spec. Qed.

Lemma map2_snd {X} (a b : list X) : length a = length b -> map2 (fun _ y => y) a b = b.
Proof.
  revert b; induction a as [|x a IH]; intros [|y b] H; simpl in *; try discriminate; auto.
  unfold map2 in *. simpl. rewrite IH by lia. reflexivity.
Qed.

End OpsProofs.

Lemma write_spec {F} (a b : list F) : length a = length b -> write a b = (b, Ok tt).
Proof. intros H. unfold write. rewrite zip_map_spec by exact H. now rewrite map2_snd. Qed.

Lemma write_mismatch {F} (a b : list F) : length a <> length b -> write a b = (a, Panic PAssert).
Proof. intros H. unfold write. now apply zip_map_mismatch. Qed.

(* shared, mutable and boxed conversions of the same allocation yield the same reference *)
Lemma boxed_same_view {A} N sz h1 h2 (m : mem A) : 1 <= N ->
  Nat.divide N (length (cells m)) -> ~ In (base m) (addrs h1) ->
  let h := h1 ++ (base m, length (cells m) * sz, true) :: h2 in
  exists fr fs, to_frame_slice N m = Ok (Some (fr, fs)) /\ to_frame_slice_mut N m = Ok (Some (fr, fs)) /\
                to_boxed_frame_slice N sz h (sample_ref m) = Ok (h, Some fr).
Proof.
  intros HN HD Hn h. assert (HN0 : N <> 0) by lia.
  exists (whole_frames N m), (chunks N (length (cells m) / N) (cells m)).
  change (to_frame_slice_mut N m) with (to_frame_slice N m). rewrite (to_frame_slice_spec N m HN0).
  rewrite (proj2 (mod0_divide N _ HN0) HD). cbn [Nat.eqb]. split; [reflexivity|split; [reflexivity|]].
  exact (proj1 (boxed_reuse N sz h1 h2 (base m) (length (cells m)) HN HD Hn)).
Qed.
