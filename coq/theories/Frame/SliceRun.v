(* Executable Z-level interface of the slice model, with the observation encoding
   of harness/src/bin/c10.rs; evaluated by coqc on the correspondence cases. *)
Require Import Floats.SpecFloat.
From Flocq Require Import Core BinarySingleNaN.
Require Import List ZArith Bool Arith.
From Dasp Require Import Base.Res Base.ListX Base.Float Frame.Slice.
Import ListNotations.
Open Scope Z_scope.

Definition zn (k : nat) : Z := Z.of_nat k.
Definition nz (z : Z) : nat := Z.to_nat z.
Definition b2z (b : bool) : Z := if b then 1 else 0.
Definition pcode (k : panic_kind) : Z := zn (panic_code k).

(* abstract base addresses of the two allocations a view case uses *)
Definition BASE_V : nat := 1000.
Definition BASE_F : nat := 2000.

Definition same (m : mem Z) (r : sref) : Z := b2z (Nat.eqb (addr r) (base m)).

(* Some/None, pointer identity, length, contents flattened frame by frame *)
Definition enc_fview (m : mem Z) (r : res (option (sref * list (list Z)))) : list Z :=
  match r with
  | Ok None => [0]
  | Ok (Some (fr, fs)) => 1 :: same m fr :: zn (len fr) :: concat fs
  | Panic k => [8; pcode k]
  | UB => [-2]
  end.

Definition enc_fview_hdr (m : mem Z) (r : res (option (sref * list (list Z)))) : list Z :=
  match r with
  | Ok None => [0]
  | Ok (Some (fr, fs)) => [1; same m fr; zn (len fr)]
  | Panic k => [8; pcode k]
  | UB => [-2]
  end.

Definition enc_sview (m : mem Z) (r : res (sref * list Z)) : list Z :=
  match r with
  | Ok (sr, ss) => 1 :: same m sr :: zn (len sr) :: ss
  | Panic k => [8; pcode k]
  | UB => [-2]
  end.

Definition enc_sview_hdr (m : mem Z) (r : res (sref * list Z)) : list Z :=
  match r with
  | Ok (sr, ss) => [1; same m sr; zn (len sr)]
  | Panic k => [8; pcode k]
  | UB => [-2]
  end.

(* a store through a view: the observation and the memory afterwards *)
Definition enc_store (m : mem Z) (r : res (mem Z)) : list Z * mem Z :=
  match r with
  | Ok m' => ([7], m')
  | Panic k => ([8; pcode k], m)
  | UB => ([-2], m)
  end.

(* mutable frame view of [m], then `view[wi][wc] = wx`; three observations *)
Definition mut_fview (mutf : nat -> mem Z -> res (option (sref * list (list Z))))
           (N : nat) (m : mem Z) (w : list Z) : list (list Z) * mem Z :=
  let v := mutf N m in
  match v, w with
  | Ok (Some (fr, _)), [wi; wc; wx] =>
    let (o, m') := enc_store m (store_frame_chan N m fr (nz wi) (nz wc) wx) in
    ([enc_fview_hdr m v; o; 5 :: cells m'], m')
  | _, _ => ([enc_fview_hdr m v; [0]; 5 :: cells m], m)
  end.

Definition mut_sview (muts : nat -> mem Z -> sref -> res (sref * list Z))
           (N : nat) (m : mem Z) (fr : sref) (w : list Z) : list (list Z) * mem Z :=
  let v := muts N m fr in
  match v, w with
  | Ok (sr, _), [sj; sx] =>
    let (o, m') := enc_store m (store_sample m sr (nz sj) sx) in
    ([enc_sview_hdr m v; o; 5 :: cells m'], m')
  | _, _ => ([enc_sview_hdr m v; [0]; 5 :: cells m], m)
  end.

Definition run_view (N : nat) (d w1 w2 s1 s2 : list Z) : list (list Z) :=
  let m0 := {| base := BASE_V; cells := d |} in
  let o1 := enc_fview m0 (to_frame_slice N m0) in
  let o2 := enc_fview m0 (to_frame_slice N m0) in      (* from_sample_slice: same function *)
  let (o3, m1) := mut_fview to_frame_slice_mut N m0 w1 in
  let (o4, m2) := mut_fview to_frame_slice_mut N m1 w2 in
  (* samples -> frames -> samples *)
  let o5 := match to_frame_slice N m2 with
            | Ok (Some (fr, _)) => enc_sview m2 (to_sample_slice N m2 fr)
            | Ok None => [0]
            | Panic k => [8; pcode k]
            | UB => [-2]
            end in
  (* a separate allocation holding the first L/N frames of the current samples *)
  let K := (length (cells m2) / N)%nat in
  let fs := chunks N K (cells m2) in
  let f0 := frame_mem BASE_F fs in
  let fr := frame_ref BASE_F fs in
  let o6 := enc_sview f0 (to_sample_slice N f0 fr) in
  let o7 := enc_sview f0 (to_sample_slice N f0 fr) in   (* from_frame_slice *)
  let (o8, f1) := mut_sview to_sample_slice_mut N f0 fr s1 in
  let (o9, f2) := mut_sview to_sample_slice_mut N f1 fr s2 in
  (* frames -> samples -> frames *)
  let o10 := match to_sample_slice N f2 fr with
             | Ok (sr, _) =>
               (* the sample reference covers exactly the frame allocation *)
               if (Nat.eqb (addr sr) (base f2)) && (Nat.eqb (len sr) (length (cells f2)))
               then enc_fview f2 (to_frame_slice N f2) else [-3]
             | Panic k => [8; pcode k]
             | UB => [-2]
             end in
  [o1; o2] ++ o3 ++ o4 ++ [o5; o6; o7] ++ o8 ++ o9 ++ [o10].

(* ------------------------------------------------------------------------- *)
(* boxed conversions: live-byte deltas from the ledger *)

Definition live (h : heap) : Z := zn (live_bytes h).

Definition run_boxed_once (N sz : nat) (d : list Z) : list (list Z) :=
  let m := {| base := BASE_V; cells := d |} in
  let h0 : heap := [] in
  let h1 := alloc_box h0 BASE_V (length d * sz) in
  let oa := [4; live h1 - live h0] in
  match to_boxed_frame_slice N sz h1 (sample_ref m) with
  | Ok (h2, None) => [oa; [0; live h2 - live h1]]
  | Ok (h2, Some fr) =>
    let oc := match deref_frames N m fr with
              | Ok fs => 1 :: same m fr :: zn (len fr) :: (live h2 - live h1) :: concat fs
              | _ => [-2]
              end in
    match to_boxed_sample_slice N sz h2 fr with
    | Ok (h3, sr) =>
      let ob := match deref_samples m sr with
                | Ok ss => 1 :: same m sr :: zn (len sr) :: (live h3 - live h2) :: ss
                | _ => [-2]
                end in
      match drop_box h3 (addr sr) (len sr * sz) with
      | Ok h4 => [oa; oc; ob; [4; live h4 - live h3]]
      | _ => [oa; oc; ob; [-2]]
      end
    | _ => [oa; oc; [-2]]
    end
  | Panic k => [oa; [8; pcode k]]
  | UB => [oa; [-2]]
  end.

(* the harness runs the method forms, then the free-function forms, on fresh boxes *)
Definition run_boxed (N sz : nat) (d : list Z) : list (list Z) :=
  run_boxed_once N sz d ++ run_boxed_once N sz d.

(* ------------------------------------------------------------------------- *)
(* in-place operations on frames; format 0 = [i32;2], 1 = [f32;2] (bits), 2 = [u8;2],
   3 = f32 (a bare sample as a one-channel frame; frames are one-element lists) *)

Definition zmap2 (f : Z -> Z -> Z) (a b : list Z) : list Z :=
  map (fun p => f (fst p) (snd p)) (combine a b).

Definition f32_add (x y : Z) : Z := F32.bits (F32.add (F32.of_bits x) (F32.of_bits y)).
Definition f32_mul (x y : Z) : Z := F32.bits (F32.mul (F32.of_bits x) (F32.of_bits y)).

(* Frame::add_amp / mul_amp on arrays: channel-wise Sample::add_amp / mul_amp *)
Definition fr_add (fmt : Z) (a b : list Z) : list Z :=
  match fmt with 1 | 3 => zmap2 f32_add a b | _ => zmap2 Z.add a b end.
Definition fr_mul (fmt : Z) (b amp : list Z) : list Z :=
  match fmt with 1 | 3 => zmap2 f32_mul b amp | _ => b end.
Definition fr_equilibrium (fmt : Z) : list Z :=
  match fmt with 2 => [128; 128] | 3 => [0] | _ => [0; 0] end.

(* the closures the harness passes to map_in_place / zip_map_in_place (i32 frames) *)
Definition clo_map (k : Z) (f : list Z) : list Z :=
  match f with [x; y] => [y + k; 2 * x] | _ => f end.
Definition clo_zip (a b : list Z) : list Z :=
  match a, b with [a0; a1], [b0; b1] => [a0 - b1; a1 + 2 * b0] | _, _ => a end.

Definition enc_status (r : res unit) : list Z :=
  match r with Ok _ => [7] | Panic k => [8; pcode k] | UB => [-2] end.

Definition run_op (op fmt : Z) (a b : list (list Z)) (amp : list Z) (k : Z) : list (list Z) :=
  let r : list (list Z) * res unit :=
    match op with
    | 0 => (equilibrium (fr_equilibrium fmt) a, Ok tt)
    | 1 => (map_in_place (clo_map k) a, Ok tt)
    | 2 => zip_map_in_place clo_zip a b
    | 3 => write a b
    | 4 => add_in_place (fr_add fmt) a b
    | _ => add_in_place_with_amp_per_channel (fr_add fmt) (fr_mul fmt) a b amp
    end in
  [5 :: concat a; enc_status (snd r); 5 :: concat (fst r)].

(* ------------------------------------------------------------------------- *)

Inductive zcase :=
| CView (N : Z) (d w1 w2 s1 s2 : list Z)
| CBoxed (N sz : Z) (d : list Z)
| COp (op fmt : Z) (a b : list (list Z)) (amp : list Z) (k : Z).

Definition run_case (c : zcase) : list (list Z) :=
  match c with
  | CView N d w1 w2 s1 s2 => run_view (nz N) d w1 w2 s1 s2
  | CBoxed N sz d => run_boxed (nz N) (nz sz) d
  | COp op fmt a b amp k => run_op op fmt a b amp k
  end.

Definition zll_eqb (a b : list (list Z)) : bool :=
  if list_eq_dec (list_eq_dec Z.eq_dec) a b then true else false.

Definition check (c : zcase * list (list Z)) : bool := zll_eqb (run_case (fst c)) (snd c).
