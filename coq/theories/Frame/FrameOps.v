(* C03 -- the amplitude methods of `trait Frame` on [S; N] and on a bare sample, written after
   dasp_frame/src/lib.rs, over the sample operations of Sample/SampleOps.v.  Definitions only.

   provided methods of the trait (used by [S; N], and by the mono impls unless overridden):
     fn offset_amp(self, offset) -> Self { self.map(|s| s.add_amp(offset)) }
     fn scale_amp(self, amp)     -> Self { self.map(|s| s.mul_amp(amp)) }
     fn add_amp<F>(self, other: F) -> Self { self.zip_map(other, Sample::add_amp) }
     fn mul_amp<F>(self, other: F) -> Self { self.zip_map(other, Sample::mul_amp) }
   [S; N]:   to_signed_frame / to_float_frame = self.map(|s| s.to_sample()) where `self: [S; N]`, so this is the
             INHERENT core::array::map (Frame.traverse), not Frame::map;  EQUILIBRIUM = [S::EQUILIBRIUM; N]
   mono $T:  to_signed_frame = self.to_signed_sample(), to_float_frame = self.to_float_sample(),
             scale_amp = Sample::mul_amp(self, amp), add_amp = Sample::add_amp(self, *other.channel_unchecked(0)),
             EQUILIBRIUM = <$T as Sample>::EQUILIBRIUM;  offset_amp and mul_amp are the provided methods. *)
Require Import Floats.SpecFloat.
Require Import List ZArith Bool.
From Flocq Require Import Core BinarySingleNaN.
From Dasp Require Import Base.Res Base.Float Sample.Rint Sample.ConvSpec Sample.SampleFmt Sample.SampleOps Frame.Frame.
From DaspGen Require Import SampleTable.
Import ListNotations.

Section Ops.
Variable m : mode.
Variable f : sfmt.
Notation Smp := (sty f).
Notation Sg := (sty (signed_of f)).
Notation Fl := (sty (float_of f)).

(* ---- [S; N] ---- *)
Definition f_offset_amp (N : nat) (fr : list Smp) (offset : Sg) : res (list Smp) :=
  run_pure (map N fr (pure1 (fun s => add_amp m f s offset)) tt).
Definition f_scale_amp (N : nat) (fr : list Smp) (amp : Fl) : res (list Smp) :=
  run_pure (map N fr (pure1 (fun s => mul_amp m f s amp)) tt).
Definition f_add_amp (N : nat) (fr : list Smp) (other : list Sg) : res (list Smp) :=
  run_pure (zip_map N fr other (pure2 (add_amp m f)) tt).
Definition f_mul_amp (N : nat) (fr : list Smp) (other : list Fl) : res (list Smp) :=
  run_pure (zip_map N fr other (pure2 (mul_amp m f)) tt).
Definition f_to_signed (N : nat) (fr : list Smp) : res (list Sg) :=
  run_pure (traverse fr (pure1 (to_signed m f)) tt).
Definition f_to_float (N : nat) (fr : list Smp) : res (list Fl) :=
  run_pure (traverse fr (pure1 (to_float m f)) tt).
Definition f_equilibrium (N : nat) : list Smp := repeat (equilibrium_of f) N.

(* ---- bare sample ---- *)
Definition m_offset_amp (s : Smp) (offset : Sg) : res Smp :=
  run_pure (mono_map s (pure1 (fun s => add_amp m f s offset)) tt).
Definition m_scale_amp (s : Smp) (amp : Fl) : res Smp := mul_amp m f s amp.
(* other: a bare Signed sample, or a [Signed; 1] array (both have NumChannels = NChannels<1>) *)
Definition m_add_amp (s : Smp) (other : Sg) : res Smp :=
  let* o := mono_channel_unchecked other 0 in add_amp m f s o.
Definition m_add_amp_arr (s : Smp) (other : list Sg) : res Smp :=
  let* o := get_unchecked other 0 in add_amp m f s o.
Definition m_mul_amp (s : Smp) (other : Fl) : res Smp :=
  run_pure (mono_zip_map s other (pure2 (mul_amp m f)) tt).
Definition m_to_signed (s : Smp) : res Sg := to_signed m f s.
Definition m_to_float (s : Smp) : res Fl := to_float m f s.
Definition m_equilibrium : Smp := equilibrium_of f.

End Ops.
