(* C03 -- the MUTABLE channel accessors of `trait Frame` (dasp_frame/src/lib.rs), written after the source:
     [S; N]:  fn channel_mut(&mut self, idx) -> Option<&mut S>        { self.get_mut(idx) }
              unsafe fn channel_unchecked(&self, idx) -> &S           { self.get_unchecked(idx) }
              unsafe fn channel_unchecked_mut(&mut self, idx) -> &mut S { self.get_unchecked_mut(idx) }
              fn channels_mut(&mut self) -> ChannelsMut<'_, Self>     { ChannelsMut(self.iter_mut()) }
     mono $T: fn channel_mut(&mut self, idx) { if idx == 0 { Some(self) } else { None } }
              unsafe fn channel_unchecked(&self, _idx) -> &S { self }     unsafe fn channel_unchecked_mut(&mut self, _idx) { self }
              fn channels_mut(&mut self) { ChannelsMut(core::slice::from_mut(self).iter_mut()) }
   and the associated const CHANNELS (N for [S; N], 1 for a bare sample).
   A `&mut S` is modelled by what can be done with it: the value it reads and the frame that results from writing
   through it.  Definitions only (proofs: FrameMutProofs.v). *)
Require Import List Arith Bool.
From Dasp Require Import Base.Res Base.ListX Frame.Frame.
Import ListNotations.

Section Mut.
Context {A : Type}.

(* if let Some(r) = fr.channel_mut(idx) { *r = v; true } else { false }   -> (flag, the frame afterwards) *)
Definition channel_mut_write (fr : list A) (idx : nat) (v : A) : bool * list A :=
  if idx <? length fr then (true, set_nth idx v fr) else (false, fr).

(* unsafe { *fr.channel_unchecked_mut(idx) = v }: out of range = UB (get_unchecked_mut) *)
Definition channel_unchecked_mut_write (fr : list A) (idx : nat) (v : A) : res (list A) :=
  if idx <? length fr then Ok (set_nth idx v fr) else UB.

(* for (r, v) in fr.channels_mut().zip(news) { *r = v }: the slice iterator hands out the channels first to last,
   zip stops at the shorter side *)
Fixpoint overwrite (news fr : list A) : list A :=
  match news, fr with
  | v :: ns, _ :: t => v :: overwrite ns t
  | _, _ => fr
  end.
(* for (r, v) in fr.channels_mut().rev().zip(news) { *r = v }: last channel first (next_back of the slice iterator) *)
Definition overwrite_back (news fr : list A) : list A := rev (overwrite news (rev fr)).

(* ---- the mono impls ---- *)
Definition mono_channel_mut_write (s : A) (idx : nat) (v : A) : bool * A :=
  if idx =? 0 then (true, v) else (false, s).
(* `_idx` is ignored: never out of bounds *)
Definition mono_channel_unchecked_mut_write (s : A) (idx : nat) (v : A) : res A := Ok v.
(* the slice is [s]: one reference, whichever end the iteration starts from *)
Definition mono_overwrite (news : list A) (s : A) : A := match news with v :: _ => v | [] => s end.

End Mut.

(* <[S; N] as Frame>::CHANNELS = N;  <$T as Frame>::CHANNELS = 1 *)
Definition num_channels (N : nat) : nat := N.
Definition mono_num_channels : nat := 1.
