(* Model of dasp_slice (dasp_slice/src/{lib.rs, boxed.rs, frame/mod.rs,
   frame/fixed_size_array.rs}), written after the source.  No proofs here.

   Memory.  One allocation is a flat run of samples [cells] at an abstract base
   address [base].  A slice reference (&[T], &mut [T], the fat pointer inside a
   Box<[T]>) is a data pointer and an element count, [sref]: this is all the
   conversion code computes with.  What a reference denotes is obtained by
   dereferencing it against the memory: a reference to [S] reads [len] cells, a
   reference to [[S; N]] reads [len * N] cells, frame i being cells
   i*N .. i*N+N-1.  Dereferencing a reference whose address is not the base of
   the allocation, or whose extent exceeds it, is [UB] (that is what
   core::slice::from_raw_parts with a wrong length would be).

   Ownership.  The boxed conversions are modelled over a ledger
   [heap = list (addr * bytes * owned)] of live allocations: [forget] gives up
   ownership without freeing, [from_raw] takes ownership of an unowned block of
   exactly that byte size, [drop_box] frees an owned block.  Anything else
   (forgetting / dropping a block one does not own, re-owning an owned block,
   a layout that differs from the allocation's) is [UB]. *)
Require Import List Arith Bool.
From Dasp Require Import Base.Res Base.ListX.
Import ListNotations.

(* ------------------------------------------------------------------------- *)
(* references and memory *)

Record sref := { addr : nat; len : nat }.

Section Views.
Context {A : Type}.

Record mem := { base : nat; cells : list A }.

(* the &[S] / &mut [S] covering the whole allocation *)
Definition sample_ref (m : mem) : sref := {| addr := base m; len := length (cells m) |}.

(* [k] consecutive groups of [N] cells *)
Fixpoint chunks (N k : nat) (l : list A) : list (list A) :=
  match k with
  | O => []
  | S k' => firstn N l :: chunks N k' (skipn N l)
  end.

(* frames laid out in memory: a [[S; N]] slice stored at [b] *)
Definition frame_mem (b : nat) (fs : list (list A)) : mem := {| base := b; cells := concat fs |}.
Definition frame_ref (b : nat) (fs : list (list A)) : sref := {| addr := b; len := length fs |}.

Definition valid_samples (m : mem) (r : sref) : bool :=
  (addr r =? base m) && (len r <=? length (cells m)).
Definition valid_frames (N : nat) (m : mem) (r : sref) : bool :=
  (addr r =? base m) && (len r * N <=? length (cells m)).

(* reading through a &[S] *)
Definition deref_samples (m : mem) (r : sref) : res (list A) :=
  if valid_samples m r then Ok (firstn (len r) (cells m)) else UB.

(* reading through a &[[S; N]] *)
Definition deref_frames (N : nat) (m : mem) (r : sref) : res (list (list A)) :=
  if valid_frames N m r then Ok (chunks N (len r) (cells m)) else UB.

(* `view[j] = x` through a &mut [S]: bounds-checked against the reference's length *)
Definition store_sample (m : mem) (r : sref) (j : nat) (x : A) : res mem :=
  if len r <=? j then Panic PIndex
  else if valid_samples m r then Ok {| base := base m; cells := set_nth j x (cells m) |}
  else UB.

(* `view[i][c] = x` through a &mut [[S; N]]: both indices bounds-checked; the
   cell written is number i*N + c of the allocation *)
Definition store_frame_chan (N : nat) (m : mem) (r : sref) (i c : nat) (x : A) : res mem :=
  if (len r <=? i) || (N <=? c) then Panic PIndex
  else if valid_frames N m r then Ok {| base := base m; cells := set_nth (i * N + c) x (cells m) |}
  else UB.

End Views.
Arguments mem A : clear implicits.

(* ------------------------------------------------------------------------- *)
(* fixed_size_array.rs: the conversions, on references (one instance per N) *)

(* from_sample_slice:
     let len = slice.len();
     if len % N == 0 { let new_len = len / N; let ptr = slice.as_ptr() as *const _;
                       Some(from_raw_parts(ptr, new_len)) } else { None } *)
Definition from_sample_slice_ref (N : nat) (slice : sref) : option sref :=
  let len_ := len slice in
  if len_ mod N =? 0 then
    let new_len := len_ / N in
    let ptr := addr slice in
    Some {| addr := ptr; len := new_len |}
  else None.

(* from_sample_slice_mut: the same text with *mut / from_raw_parts_mut *)
Definition from_sample_slice_mut_ref (N : nat) (slice : sref) : option sref :=
  let len_ := len slice in
  if len_ mod N =? 0 then
    let new_len := len_ / N in
    let ptr := addr slice in
    Some {| addr := ptr; len := new_len |}
  else None.

(* from_frame_slice: let new_len = slice.len() * N; let ptr = slice.as_ptr() as *const _;
                     from_raw_parts(ptr, new_len) *)
Definition from_frame_slice_ref (N : nat) (slice : sref) : sref :=
  let new_len := len slice * N in
  let ptr := addr slice in
  {| addr := ptr; len := new_len |}.

Definition from_frame_slice_mut_ref (N : nat) (slice : sref) : sref :=
  let new_len := len slice * N in
  let ptr := addr slice in
  {| addr := ptr; len := new_len |}.

(* ToSampleSlice / ToFrameSlice (and the free functions of lib.rs, frame/mod.rs) forward *)
Definition to_sample_slice_ref := from_frame_slice_ref.
Definition to_sample_slice_mut_ref := from_frame_slice_mut_ref.
Definition to_frame_slice_ref := from_sample_slice_ref.
Definition to_frame_slice_mut_ref := from_sample_slice_mut_ref.

Section ViewFns.
Context {A : Type}.

(* to_frame_slice(&v[..]) on an allocation: the returned reference and what it reads *)
Definition to_frame_slice (N : nat) (m : mem A) : res (option (sref * list (list A))) :=
  match to_frame_slice_ref N (sample_ref m) with
  | Some fr => let* fs := deref_frames N m fr in Ok (Some (fr, fs))
  | None => Ok None
  end.

Definition to_frame_slice_mut (N : nat) (m : mem A) : res (option (sref * list (list A))) :=
  match to_frame_slice_mut_ref N (sample_ref m) with
  | Some fr => let* fs := deref_frames N m fr in Ok (Some (fr, fs))
  | None => Ok None
  end.

(* to_sample_slice(frames) for a frame reference [fr] into [m] *)
Definition to_sample_slice (N : nat) (m : mem A) (fr : sref) : res (sref * list A) :=
  let sr := to_sample_slice_ref N fr in
  let* ss := deref_samples m sr in Ok (sr, ss).

Definition to_sample_slice_mut (N : nat) (m : mem A) (fr : sref) : res (sref * list A) :=
  let sr := to_sample_slice_mut_ref N fr in
  let* ss := deref_samples m sr in Ok (sr, ss).

End ViewFns.

(* ------------------------------------------------------------------------- *)
(* ownership ledger *)

Definition heap := list (nat * nat * bool).   (* address, byte size, owned by a Box *)

Definition live_bytes (h : heap) : nat := fold_right (fun b s => snd (fst b) + s) 0 h.

(* Box::new / into_boxed_slice: a fresh owned block *)
Definition alloc_box (h : heap) (a bytes : nat) : heap := (a, bytes, true) :: h.

(* core::mem::forget(box): the block stays allocated, nobody owns it any more *)
Fixpoint forget (h : heap) (a bytes : nat) : res heap :=
  match h with
  | [] => UB
  | (a', b', o) :: t =>
    if a' =? a then (if (b' =? bytes) && o then Ok ((a', b', false) :: t) else UB)
    else let* t' := forget t a bytes in Ok ((a', b', o) :: t')
  end.

(* Box::from_raw(ptr) with a layout of [bytes]: takes ownership of an unowned block of that size *)
Fixpoint from_raw (h : heap) (a bytes : nat) : res heap :=
  match h with
  | [] => UB
  | (a', b', o) :: t =>
    if a' =? a then (if (b' =? bytes) && negb o then Ok ((a', b', true) :: t) else UB)
    else let* t' := from_raw t a bytes in Ok ((a', b', o) :: t')
  end.

(* drop(box): frees the owned block *)
Fixpoint drop_box (h : heap) (a bytes : nat) : res heap :=
  match h with
  | [] => UB
  | (a', b', o) :: t =>
    if a' =? a then (if (b' =? bytes) && o then Ok t else UB)
    else let* t' := drop_box t a bytes in Ok ((a', b', o) :: t')
  end.

(* from_boxed_sample_slice (fixed_size_array.rs, [sz] = size_of::<S>()), in the order written:
     let len = slice.len();
     if len % N != 0 { return None; }                     // `slice` dropped here
     let slice_ptr = &mut slice as &mut [S] as *mut [S];
     core::mem::forget(slice);
     let sample_slice = from_raw_parts_mut(slice_ptr->as_mut_ptr(), len);
     let frame_slice = match <&mut [[S; N]]>::from_sample_slice_mut(sample_slice) {
         Some(slice) => slice, None => return None };     // nothing owns the block on this path
     let ptr = frame_slice as *mut [[S; N]];
     let new_slice = Box::from_raw(ptr);
     Some(new_slice) *)
Definition from_boxed_sample_slice (N sz : nat) (h : heap) (slice : sref) : res (heap * option sref) :=
  let len_ := len slice in
  if negb (len_ mod N =? 0) then
    let* h1 := drop_box h (addr slice) (len_ * sz) in Ok (h1, None)
  else
    let slice_ptr := slice in
    let* h1 := forget h (addr slice) (len_ * sz) in
    let sample_slice := {| addr := addr slice_ptr; len := len_ |} in
    match from_sample_slice_mut_ref N sample_slice with
    | Some frame_slice =>
      let ptr := frame_slice in
      let* h2 := from_raw h1 (addr ptr) (len ptr * (N * sz)) in
      Ok (h2, Some ptr)
    | None => Ok (h1, None)
    end.

(* from_boxed_frame_slice:
     let new_len = slice.len() * N;
     let frame_slice_ptr = &mut slice as &mut [[S; N]] as *mut [[S; N]];
     core::mem::forget(slice);
     let sample_slice_ptr = frame_slice_ptr as *mut [S];
     let ptr = sample_slice_ptr->as_mut_ptr();
     let sample_slice = from_raw_parts_mut(ptr, new_len);
     Box::from_raw(sample_slice as *mut _) *)
Definition from_boxed_frame_slice (N sz : nat) (h : heap) (slice : sref) : res (heap * sref) :=
  let new_len := len slice * N in
  let frame_slice_ptr := slice in
  let* h1 := forget h (addr slice) (len slice * (N * sz)) in
  let ptr := addr frame_slice_ptr in
  let sample_slice := {| addr := ptr; len := new_len |} in
  let* h2 := from_raw h1 (addr sample_slice) (len sample_slice * sz) in
  Ok (h2, sample_slice).

Definition to_boxed_frame_slice := from_boxed_sample_slice.
Definition to_boxed_sample_slice := from_boxed_frame_slice.

(* ------------------------------------------------------------------------- *)
(* lib.rs: in-place operations on slices of frames.  The frame type and the
   frame operations are parameters.  A call leaves the destination in some
   state and returns, panics or is UB: [outcome] = (destination after, status),
   so that what a caught panic leaves behind is part of the model. *)

Section Ops.
Context {FA FB AMP : Type}.
Variable equilibrium_frame : FA.                (* F::EQUILIBRIUM *)
Variable add_amp : FA -> FB -> FA.              (* Frame::add_amp *)
Variable mul_amp : FB -> AMP -> FB.             (* Frame::mul_amp *)

Definition outcome := (list FA * res unit)%type.

(* map_in_place: for f in a { *f = map( *f ); } *)
Fixpoint map_in_place (m : FA -> FA) (a : list FA) : list FA :=
  match a with
  | [] => []
  | f :: t => m f :: map_in_place m t
  end.

(* equilibrium: map_in_place(a, |_| F::EQUILIBRIUM) *)
Definition equilibrium (a : list FA) : list FA := map_in_place (fun _ => equilibrium_frame) a.

(* zip_map_in_place_unchecked:
     for i in 0..a.len() { *a.get_unchecked_mut(i) = zip_map( *a.get_unchecked(i), *b.get_unchecked(i) ); }
   [n] = iterations left, [i] = loop counter *)
Fixpoint zip_loop (f : FA -> FB -> FA) (b : list FB) (n i : nat) (a : list FA) : outcome :=
  match n with
  | O => (a, Ok tt)
  | S n' =>
    match get_unchecked a i, get_unchecked b i with
    | Ok x, Ok y =>
      if i <? length a then zip_loop f b n' (S i) (set_nth i (f x y) a) else (a, UB)
    | _, _ => (a, UB)
    end
  end.

Definition zip_map_in_place_unchecked (f : FA -> FB -> FA) (a : list FA) (b : list FB) : outcome :=
  zip_loop f b (length a) 0 a.

(* zip_map_in_place: assert_eq!(a.len(), b.len()); unsafe { zip_map_in_place_unchecked(a, b, zip_map) } *)
Definition zip_map_in_place (f : FA -> FB -> FA) (a : list FA) (b : list FB) : outcome :=
  if length a =? length b then zip_map_in_place_unchecked f a b else (a, Panic PAssert).

(* add_in_place: zip_map_in_place(a, b, |a, b| a.add_amp(b)) *)
Definition add_in_place (a : list FA) (b : list FB) : outcome :=
  zip_map_in_place (fun a b => add_amp a b) a b.

(* add_in_place_with_amp_per_channel:
     zip_map_in_place(a, b, |af, bf| af.add_amp(bf.mul_amp(amp_per_channel))) *)
Definition add_in_place_with_amp_per_channel (a : list FA) (b : list FB) (amp : AMP) : outcome :=
  zip_map_in_place (fun af bf => add_amp af (mul_amp bf amp)) a b.

End Ops.

(* write: zip_map_in_place(a, b, |_, b| b)  -- both slices of the same frame type *)
Definition write {F : Type} (a b : list F) : @outcome F :=
  zip_map_in_place (fun _ b => b) a b.
