(* C03 -- proofs about the generic frame model (Frame/Frame.v): for every channel count N and every frame of
   length N, the unchecked-index code of map / zip_map never leaves the frame (no UB) and equals the in-order
   traversal; from_fn calls its closure for 0..N-1 in order; array_from_iter returns Some(first N items) iff
   there are N items, consumes exactly min(N, len) items, and never touches an unwritten slot;
   the Channels iterator enumerates the frame; the mono impls equal the 1-channel array impl. *)
Require Import List Arith Bool Lia.
From Dasp Require Import Base.Res Base.ListX Frame.Frame.
Import ListNotations.

Section Proofs.
Context {A B C : Type}.

(* ---- from_fn ---- *)
Lemma from_fn_idx_traverse {St} {X} (g : St -> nat -> res (X * St)) idxs st :
  from_fn_idx g idxs st = traverse idxs g st.
Proof. revert st; induction idxs as [|i t IH]; intros st; cbn; [reflexivity|].
  destruct (g st i) as [[x st1]| |]; cbn; auto. now rewrite IH. Qed.

Lemma from_fn_spec {St} {X} N (g : St -> nat -> res (X * St)) st :
  from_fn N g st = traverse (seq 0 N) g st.
Proof. apply from_fn_idx_traverse. Qed.

(* a closure that never fails, logging the indices it is called with *)
Lemma traverse_log {X Y} (h : X -> Y) (l : list X) (log : list X) :
  traverse l (fun lg x => Ok (h x, lg ++ [x])) log = Ok (List.map h l, log ++ l).
Proof. revert log; induction l as [|x t IH]; intros log; cbn.
  - now rewrite app_nil_r.
  - rewrite IH. cbn. now rewrite <- app_assoc. Qed.

Lemma traverse_pure {St} {X Y} (h : X -> Y) (l : list X) (st : St) :
  traverse l (fun s x => Ok (h x, s)) st = Ok (List.map h l, st).
Proof. induction l as [|x t IH]; cbn; [reflexivity|]. now rewrite IH. Qed.

Lemma from_fn_order {X} N (h : nat -> X) (log : list nat) :
  from_fn N (fun lg i => Ok (h i, lg ++ [i])) log = Ok (List.map h (seq 0 N), log ++ seq 0 N).
Proof. rewrite from_fn_spec. apply traverse_log. Qed.

Lemma from_fn_length {St} {X} N (g : St -> nat -> res (X * St)) st fr st' :
  from_fn N g st = Ok (fr, st') -> length fr = N.
Proof.
  rewrite from_fn_spec. rewrite <- (seq_length N 0) at 2. generalize (seq 0 N). intros l.
  revert st fr st'; induction l as [|i t IH]; intros st fr st'; cbn.
  - intros H; inversion H; reflexivity.
  - destruct (g st i) as [[x st1]| |]; cbn; try discriminate.
    destruct (traverse t g st1) as [[r st2]| |] eqn:E; cbn; try discriminate.
    intros H; inversion H; subst; cbn. f_equal. eapply IH; eauto.
Qed.

(* ---- map: the unchecked reads stay inside the frame ---- *)
Lemma get_unchecked_app_mid {X} (pre : list X) x post : get_unchecked (pre ++ x :: post) (length pre) = Ok x.
Proof. unfold get_unchecked. rewrite nth_error_app2 by lia. now rewrite Nat.sub_diag. Qed.

Lemma map_gen {St} (pre fr : list A) (f : St -> A -> res (B * St)) st :
  from_fn_idx (fun st i => let* x := get_unchecked (pre ++ fr) i in f st x) (seq (length pre) (length fr)) st
  = traverse fr f st.
Proof.
  revert pre st; induction fr as [|a fr IH]; intros pre st; cbn [length seq from_fn_idx traverse]; [reflexivity|].
  rewrite get_unchecked_app_mid. cbn [bind].
  destruct (f st a) as [[y st1]| |]; cbn [bind]; auto.
  replace (pre ++ a :: fr) with ((pre ++ [a]) ++ fr) by (rewrite <- app_assoc; reflexivity).
  replace (S (length pre)) with (length (pre ++ [a])) by (rewrite app_length; cbn; lia).
  now rewrite IH.
Qed.

Theorem map_spec {St} N (fr : list A) (f : St -> A -> res (B * St)) st :
  length fr = N -> map N fr f st = traverse fr f st.
Proof. intros <-. unfold map, from_fn. apply (map_gen [] fr f st). Qed.

Corollary map_pure {St} N (fr : list A) (h : A -> B) (st : St) :
  length fr = N -> map N fr (fun s x => Ok (h x, s)) st = Ok (List.map h fr, st).
Proof. intros H. rewrite map_spec by exact H. apply traverse_pure. Qed.

(* ---- zip_map ---- *)
Lemma zip_gen {St} (pre fr : list A) (pre2 other : list B) (f : St -> A -> B -> res (C * St)) st :
  length pre2 = length pre -> length other = length fr ->
  from_fn_idx (fun st i => let* a := get_unchecked (pre ++ fr) i in
                           let* b := get_unchecked (pre2 ++ other) i in f st a b)
              (seq (length pre) (length fr)) st
  = traverse2 fr other f st.
Proof.
  revert pre pre2 other st; induction fr as [|a fr IH]; intros pre pre2 [|b other] st Hp Ho;
    cbn [length seq from_fn_idx traverse2] in *; try discriminate; [reflexivity|].
  rewrite get_unchecked_app_mid. rewrite <- Hp. rewrite get_unchecked_app_mid. cbn [bind].
  destruct (f st a b) as [[y st1]| |]; cbn [bind]; auto.
  replace (pre ++ a :: fr) with ((pre ++ [a]) ++ fr) by (rewrite <- app_assoc; reflexivity).
  replace (pre2 ++ b :: other) with ((pre2 ++ [b]) ++ other) by (rewrite <- app_assoc; reflexivity).
  replace (S (length pre2)) with (length (pre ++ [a])) by (rewrite app_length; cbn; lia).
  rewrite IH; [reflexivity | rewrite !app_length; cbn; lia | lia].
Qed.

Theorem zip_map_spec {St} N (fr : list A) (other : list B) (f : St -> A -> B -> res (C * St)) st :
  length fr = N -> length other = N -> zip_map N fr other f st = traverse2 fr other f st.
Proof. intros <- Ho. unfold zip_map, from_fn. apply (zip_gen [] fr [] other f st); [reflexivity|exact Ho]. Qed.

Lemma traverse2_pure {St} {X Y Z} (h : X -> Y -> Z) (l : list X) (l2 : list Y) (st : St) :
  length l2 = length l ->
  traverse2 l l2 (fun s x y => Ok (h x y, s)) st = Ok (List.map (fun p => h (fst p) (snd p)) (combine l l2), st).
Proof. revert l2; induction l as [|x t IH]; intros [|y t2] H; cbn in *; try discriminate; [reflexivity|].
  rewrite IH by lia. reflexivity. Qed.

Lemma traverse2_log {X Y Z} (h : X -> Y -> Z) (l : list X) (l2 : list Y) (la : list X) (lb : list Y) :
  length l2 = length l ->
  traverse2 l l2 (fun lg x y => Ok (h x y, (fst lg ++ [x], snd lg ++ [y]))) (la, lb)
  = Ok (List.map (fun p => h (fst p) (snd p)) (combine l l2), (la ++ l, lb ++ l2)).
Proof. revert l2 la lb; induction l as [|x t IH]; intros [|y t2] la lb H; cbn in *; try discriminate.
  - now rewrite !app_nil_r.
  - rewrite IH by lia. cbn. now rewrite <- !app_assoc. Qed.

(* ---- array_from_iter ---- *)
Lemma drop_slots_ok (slots : list (option A)) s n :
  (forall j, s <= j < s + n -> exists x, nth_error slots j = Some (Some x)) ->
  drop_slots (seq s n) slots = Ok tt.
Proof.
  revert s; induction n as [|n IH]; intros s H; cbn; [reflexivity|].
  unfold slot_drop. destruct (H s ltac:(lia)) as [x ->]. cbn. apply IH. intros j Hj. apply H. lia.
Qed.

Lemma set_nth_app_mid {X} (a : list X) n x y b : length a = n -> set_nth n x (a ++ y :: b) = a ++ x :: b.
Proof. intros <-. induction a as [|h t IH]; cbn; [reflexivity|]. now rewrite IH. Qed.

Lemma assume_init_all_some (l : list A) : assume_init_all (List.map Some l) = Ok l.
Proof. induction l as [|x t IH]; cbn; [reflexivity|]. now rewrite IH. Qed.

Lemma fill_loop_spec k : forall (done l : list A) c,
  fill_loop (seq (length done) k) (List.map Some done ++ repeat None k) (l, c)
  = if k <=? length l
    then Ok (Some (List.map Some (done ++ firstn k l)), (skipn k l, c + k))
    else Ok (None, ([], c + length l + 1)).
Proof.
  induction k as [|k IH]; intros done l c.
  - cbn. rewrite !app_nil_r, Nat.add_0_r. reflexivity.
  - cbn [seq fill_loop]. destruct l as [|x t].
    + cbn [iter_next fst snd length]. rewrite drop_slots_ok.
      * cbn. repeat f_equal. lia.
      * intros j Hj. destruct (nth_error_lt_Some done j ltac:(lia)) as [v Hv].
        exists v. rewrite nth_error_app1 by (rewrite map_length; lia). now rewrite nth_error_map_in, Hv.
    + cbn [iter_next fst snd]. unfold slot_write.
      replace (length done <? length (List.map Some done ++ repeat None (S k))) with true
        by (symmetry; apply Nat.ltb_lt; rewrite app_length, map_length, repeat_length; lia).
      cbn [bind repeat].
      rewrite set_nth_app_mid by apply map_length.
      replace (List.map Some done ++ Some x :: repeat None k) with (List.map Some (done ++ [x]) ++ repeat None k)
        by (rewrite map_app, <- app_assoc; reflexivity).
      replace (S (length done)) with (length (done ++ [x])) by (rewrite app_length; cbn; lia).
      rewrite IH. cbn [length firstn skipn].
      change (S k <=? S (length t)) with (k <=? length t).
      destruct (k <=? length t).
      * rewrite <- app_assoc. cbn [app]. replace (S c + k) with (c + S k) by lia. reflexivity.
      * replace (S c + length t + 1) with (c + S (length t) + 1) by lia. reflexivity.
Qed.

Theorem from_samples_spec N (l : list A) c :
  from_samples N (l, c)
  = Ok (if N <=? length l then Some (firstn N l) else None,
        (skipn N l, c + (if N <=? length l then N else S (length l)))).
Proof.
  unfold from_samples, uninit.
  pose proof (fill_loop_spec N [] l c) as H. cbn [length List.map app] in H. rewrite H.
  destruct (Nat.leb_spec N (length l)) as [Hle|Hgt]; cbn [bind].
  - rewrite assume_init_all_some. reflexivity.
  - rewrite skipn_all2 by lia. replace (c + length l + 1) with (c + S (length l)) by lia. reflexivity.
Qed.

(* ---- Channels ---- *)
Lemma channels_collect_spec (fr : list A) : forall fuel i,
  i <= length fr -> length fr - i < fuel ->
  channels_collect fuel (mkChannels i fr) = (skipn i fr, mkChannels (length fr) fr).
Proof.
  induction fuel as [|fuel IH]; intros i Hi Hf; [lia|].
  cbn [channels_collect]. unfold channels_next, channel. cbn [cframe next_idx].
  destruct (nth_error fr i) as [s|] eqn:E.
  - assert (i < length fr) by (apply nth_error_Some; congruence).
    rewrite IH by lia.
    f_equal. clear -E. revert i E; induction fr as [|a t IHt]; intros [|i] E; cbn in *; try discriminate.
    + now inversion E.
    + now apply IHt.
  - apply nth_error_None in E. assert (i = length fr) by lia. subst. now rewrite skipn_all.
Qed.

Theorem channels_spec (fr : list A) fuel : length fr < fuel ->
  channels_collect fuel (channels fr) = (fr, mkChannels (length fr) fr) /\
  channels_next (mkChannels (length fr) fr) = (None, mkChannels (length fr) fr) /\
  channels_len (length fr) (channels fr) = Ok (length fr) /\
  channels_len (length fr) (mkChannels (length fr) fr) = Ok 0.
Proof.
  intros H. repeat split.
  - unfold channels. rewrite channels_collect_spec by lia. reflexivity.
  - unfold channels_next, channel. cbn. replace (nth_error fr (length fr)) with (@None A); [reflexivity|].
    symmetry. apply nth_error_None. lia.
  - unfold channels_len, channels. cbn. now rewrite Nat.sub_0_r.
  - unfold channels_len. cbn. rewrite Nat.leb_refl. now rewrite Nat.sub_diag.
Qed.

(* ---- mono impls = the 1-channel array ---- *)
Definition wrap1 {St} {X} (r : res (X * St)) : res (list X * St) := rmap (fun p => ([fst p], snd p)) r.

Lemma mono_from_fn_eq {St} {X} (g : St -> nat -> res (X * St)) st : from_fn 1 g st = wrap1 (mono_from_fn g st).
Proof. unfold from_fn, mono_from_fn, wrap1. cbn. destruct (g st 0) as [[x s]| |]; reflexivity. Qed.

Lemma mono_map_eq {St} (s : A) (f : St -> A -> res (B * St)) st : map 1 [s] f st = wrap1 (mono_map s f st).
Proof. unfold map, mono_map. rewrite mono_from_fn_eq. reflexivity. Qed.

Lemma mono_map_to_arr_eq {St} (s : A) (f : St -> A -> res (B * St)) st : mono_map_to_arr s f st = map 1 [s] f st.
Proof. reflexivity. Qed.

Lemma arr_map_to_mono_eq {St} (s : A) (f : St -> A -> res (B * St)) st : wrap1 (arr_map_to_mono [s] f st) = map 1 [s] f st.
Proof. unfold map. rewrite mono_from_fn_eq. reflexivity. Qed.

Lemma mono_map_value {St} (s : A) (f : St -> A -> res (B * St)) st : mono_map s f st = f st s.
Proof. reflexivity. Qed.

Lemma mono_zip_map_eq {St} (s : A) (o : B) (f : St -> A -> B -> res (C * St)) st :
  zip_map 1 [s] [o] f st = wrap1 (mono_zip_map s o f st).
Proof. unfold zip_map, mono_zip_map. rewrite mono_from_fn_eq. reflexivity. Qed.

Lemma mono_from_samples_eq (l : list A) c :
  from_samples 1 (l, c) = Ok (option_map (fun x => [x]) (fst (mono_from_samples (l, c))), snd (mono_from_samples (l, c))).
Proof.
  rewrite from_samples_spec. unfold mono_from_samples, iter_next. cbn [fst snd].
  destruct l as [|x t]; cbn; repeat f_equal; lia.
Qed.

Lemma mono_channel_eq (s : A) idx : mono_channel s idx = channel [s] idx.
Proof. unfold mono_channel, channel. destruct idx as [|[|k]]; reflexivity. Qed.

Lemma mono_channels_eq (s : A) fuel : 1 < fuel ->
  mono_channels_collect fuel (mono_channels s) = ([s], mkMonoChannels 1 s) /\
  mono_channels_next (mkMonoChannels 1 s) = (None, mkMonoChannels 1 s) /\
  mono_channels_len (mono_channels s) = Ok 1 /\ mono_channels_len (mkMonoChannels 1 s) = Ok 0.
Proof. intros H. destruct fuel as [|[|fuel]]; try lia. repeat split; reflexivity. Qed.

End Proofs.
