(* GraphNode: copy the inputs into the designated inner nodes, process the inner graph,
   copy the output node's buffers out.  The inner graph is abstract: a state [G] with a
   buffer lens ([gbufs]/[gset]) and a processing function [gprocess] (C09's subject). *)
Require Import List Arith Bool Lia.
From Dasp Require Import Base.Res Base.ListX Graph.Nodes Graph.NodesSpec Graph.NodesProofs.
Import ListNotations.

Lemma firstn_subset' {B} n (l : list B) x : In x (firstn n l) -> In x l.
Proof. revert l; induction n as [|n IH]; intros [|a l] H; simpl in *; auto; try contradiction. destruct H; auto. Qed.

Section GraphProofs.
Context {Smp G : Type}.
Variable LEN : nat.
Variable gbufs : G -> nat -> option (list (list Smp)).
Variable gset : G -> nat -> list (list Smp) -> G.
Variable gprocess : G -> nat -> res G.
(* storing into an existing node's buffers is seen by that node only *)
Hypothesis get_set_eq : forall g n b, gbufs g n <> None -> gbufs (gset g n b) n = Some b.
Hypothesis get_set_neq : forall g n m b, m <> n -> gbufs (gset g n b) m = gbufs g m.

Notation bufs := (list (list Smp)).
Notation wfbs := (wfbs (Smp:=Smp) LEN).

Lemma graph_copy_in_ok : forall (inputs : list bufs) (ids : list nat) (g : G),
  Forall wfbs inputs -> NoDup ids ->
  (forall n, In n ids -> exists nb, gbufs g n = Some nb /\ wfbs nb) ->
  exists g1, graph_copy_in gbufs gset g inputs ids = Ok g1 /\
    (forall j n inp nb, nth_error ids j = Some n -> nth_error inputs j = Some inp -> gbufs g n = Some nb ->
       gbufs g1 n = Some (zip_copy_spec nb inp)) /\
    (forall m, ~ In m (firstn (length inputs) ids) -> gbufs g1 m = gbufs g m).
Proof.
  induction inputs as [|inp it IH]; intros ids g Hin Hnd Hex.
  - exists g. cbn. split; [reflexivity|]. split; auto. intros [|j] ? ? ? ? E; discriminate.
  - destruct ids as [|n nt].
    { exists g. cbn. split; [reflexivity|]. split; auto. intros [|j] ? ? ? E; discriminate. }
    inversion Hin as [|? ? Hinp Hit]; inversion Hnd as [|? ? Hnn Hnt]; subst.
    destruct (Hex n (or_introl eq_refl)) as [nb [Eb Wb]].
    cbn [graph_copy_in]. rewrite Eb, (zip_copy_ok LEN nb inp Wb Hinp). cbn [bind].
    set (g' := gset g n (zip_copy_spec nb inp)).
    assert (Hother : forall m, m <> n -> gbufs g' m = gbufs g m) by (intros; now apply get_set_neq).
    assert (Hn : gbufs g' n = Some (zip_copy_spec nb inp)) by (apply get_set_eq; congruence).
    destruct (IH nt g' Hit Hnt) as [g1 [E [P Q]]].
    { intros m Hm. rewrite Hother by (intros ->; contradiction). apply Hex. now right. }
    exists g1. split; [exact E|]. split.
    + intros [|j] m inp' nb' Ei Ej Eg; cbn [nth_error] in Ei, Ej.
      * inversion Ei; inversion Ej; subst. rewrite Q.
        -- rewrite Hn. congruence.
        -- intros Hc. apply Hnn. eapply firstn_subset'. exact Hc.
      * assert (m <> n) by (intros ->; apply Hnn; eapply nth_error_In; eauto).
        eapply P; eauto. now rewrite Hother.
    + intros m Hm. cbn [length firstn] in Hm. rewrite Q by (intros Hc; apply Hm; now right).
      apply Hother. intros ->. apply Hm. now left.
Qed.

(* the whole node: with g1 the graph after copy-in, the output is the output node's buffers
   after processing g1, zip-copied onto the node's own buffers *)
Theorem graph_node_correct (ids : list nat) (on : nat) (g : G) (inputs : list bufs) (output : bufs) :
  Forall wfbs inputs -> wfbs output -> NoDup ids ->
  (forall n, In n ids -> exists nb, gbufs g n = Some nb /\ wfbs nb) ->
  exists g1, graph_copy_in gbufs gset g inputs ids = Ok g1 /\
    (forall j n inp nb, nth_error ids j = Some n -> nth_error inputs j = Some inp -> gbufs g n = Some nb ->
       gbufs g1 n = Some (zip_copy_spec nb inp)) /\
    (forall m, ~ In m (firstn (length inputs) ids) -> gbufs g1 m = gbufs g m) /\
    (forall g2 ob, gprocess g1 on = Ok g2 -> gbufs g2 on = Some ob -> wfbs ob ->
       graph_process gbufs gset gprocess ids on g inputs output = Ok (g2, zip_copy_spec output ob)) /\
    (forall k, gprocess g1 on = Panic k -> graph_process gbufs gset gprocess ids on g inputs output = Panic k).
Proof.
  intros Hin Ho Hnd Hex. destruct (graph_copy_in_ok inputs ids g Hin Hnd Hex) as [g1 [E [P Q]]].
  exists g1. split; [exact E|]. split; [exact P|]. split; [exact Q|]. split.
  - intros g2 ob E2 Eb Wb. unfold graph_process. rewrite E. cbn [bind]. rewrite E2. cbn [bind].
    rewrite Eb, (zip_copy_ok LEN output ob Ho Wb). reflexivity.
  - intros k E2. unfold graph_process. rewrite E. cbn [bind]. rewrite E2. reflexivity.
Qed.

End GraphProofs.
