(* Model of the petgraph-0.5.1 containers and traversal that dasp_graph::process relies on.
   Definitions only (no proofs): they keep running inside coqc when a proof breaks.

   Multigraph (petgraph::Graph / StableGraph, directed):
     slots  node slots, [None] = vacant slot of a StableGraph (plain Graph: never vacant)
     edges  the live edges in insertion order (removing a node removes its edges and keeps
            the relative order of the others: petgraph unlinks them from the adjacency lists)
     free   StableGraph's free list of vacant slots, most recently vacated first
   neighbors_directed walks the per-node adjacency list, which add_edge extends at the HEAD:
   newest edge first.  Self-loops and parallel edges are yielded like any other edge.

   DfsPostOrder (visit/traversal.rs:153-220): stack, discovered, finished; [step] is one
   iteration of the `while let Some(&nx) = self.stack.last()` loop of `next`. *)
Require Import List Arith Bool.
From Dasp Require Import Base.Res Base.ListX.
Import ListNotations.

Section Multigraph.
Context {W : Type}.

Record graph := { slots : list (option W); edges : list (nat * nat); free : list nat }.

Definition empty_graph : graph := {| slots := []; edges := []; free := [] |}.

(* node_weight *)
Definition weight (g : graph) (n : nat) : option W :=
  match nth_error (slots g) n with Some (Some w) => Some w | _ => None end.

Definition live (g : graph) (n : nat) : bool :=
  match weight g n with Some _ => true | None => false end.

(* StableGraph::add_node re-uses the most recently vacated slot; otherwise appends. *)
Definition add_node (w : W) (g : graph) : graph * nat :=
  match free g with
  | i :: fr => ({| slots := set_nth i (Some w) (slots g); edges := edges g; free := fr |}, i)
  | [] => ({| slots := slots g ++ [Some w]; edges := edges g; free := [] |}, length (slots g))
  end.

(* add_edge panics when an end point is not a node of the graph *)
Definition add_edge (a b : nat) (g : graph) : res graph :=
  if live g a && live g b
  then Ok {| slots := slots g; edges := edges g ++ [(a, b)]; free := free g |}
  else Panic PIndex.

(* StableGraph::remove_node: None when there is no such node *)
Definition remove_node (a : nat) (g : graph) : graph * bool :=
  if live g a
  then ({| slots := set_nth a None (slots g);
           edges := filter (fun e => negb (fst e =? a) && negb (snd e =? a)) (edges g);
           free := a :: free g |}, true)
  else (g, false).

(* node_weight_mut(n) = w *)
Definition set_weight (g : graph) (n : nat) (w : W) : graph :=
  {| slots := set_nth n (Some w) (slots g); edges := edges g; free := free g |}.

(* neighbors_directed(n, Incoming): sources of the edges into n, newest edge first;
   a vacant or out-of-range n has no adjacency list. *)
Definition neighbors_in (g : graph) (n : nat) : list nat :=
  if live g n then map fst (filter (fun e => snd e =? n) (rev (edges g))) else [].

(* neighbors_directed(n, Outgoing) *)
Definition neighbors_out (g : graph) (n : nat) : list nat :=
  if live g n then map snd (filter (fun e => fst e =? n) (rev (edges g))) else [].

(* node_identifiers(): the live slots in index order *)
Definition node_identifiers (g : graph) : list nat :=
  filter (live g) (seq 0 (length (slots g))).

(* node_bound(): one past the last live slot (Graph: node_count()) *)
Fixpoint bound_from (i : nat) (l : list (option W)) : nat :=
  match l with
  | [] => 0
  | s :: t => let r := bound_from (S i) t in
              if r =? 0 then (match s with Some _ => S i | None => 0 end) else r
  end.
Definition node_bound (g : graph) : nat := bound_from 0 (slots g).

End Multigraph.
Arguments graph W : clear implicits.

(* ---------------------------------------------------------------- DfsPostOrder *)
Definition mem (x : nat) (l : list nat) : bool := existsb (Nat.eqb x) l.

(* [disc]/[fin] model the FixedBitSets `discovered`/`finished` as sets; [fin] is kept
   newest-first so that its reverse is the order in which nodes were finished. *)
Record st := { stack : list nat; disc : list nat; fin : list nat }.

Definition st_empty : st := {| stack := []; disc := []; fin := [] |}.

Section DFS.
Variable succ : nat -> list nat.      (* graph.neighbors(nx) of the graph handed to `next` *)

(* One iteration of the loop body for a non-empty stack, top = head of [stack]:
     if discovered.visit(nx) { for succ in neighbors(nx) { if !discovered.is_visited(succ) { push } } }
     else { pop; if finished.visit(nx) { return Some(nx) } }
   The second component is the value returned by `next`, if this iteration returns. *)
Definition step_core (s : st) : option (st * option nat) :=
  match stack s with
  | [] => None
  | x :: s' =>
    if mem x (disc s) then
      Some ({| stack := s'; disc := disc s;
               fin := if mem x (fin s) then fin s else x :: fin s |},
            if mem x (fin s) then None else Some x)
    else
      let d' := x :: disc s in
      let pushed := filter (fun w => negb (mem w d')) (succ x) in
      Some ({| stack := rev pushed ++ x :: s'; disc := d'; fin := fin s |}, None)
  end.

(* FixedBitSet::put asserts bit < length ([cap] = length of both bit sets) *)
Definition step (cap : nat) (s : st) : res (option (st * option nat)) :=
  match stack s with
  | [] => Ok None
  | x :: _ => if x <? cap then Ok (step_core s) else Panic PAssert
  end.

(* DfsPostOrder::next.  Running out of [fuel] is reported as UB; c09_terminates shows the
   fuel [process] passes is never exhausted. *)
Fixpoint next (fuel : nat) (cap : nat) (s : st) : res (st * option nat) :=
  match fuel with
  | O => UB
  | S k =>
    match step cap s with
    | Ok None => Ok (s, None)
    | Ok (Some (s', Some x)) => Ok (s', Some x)
    | Ok (Some (s', None)) => next k cap s'
    | Panic e => Panic e
    | UB => UB
    end
  end.

End DFS.
