(* Transport layer of the correspondence check: cases and observations are written with
   primitive 63-bit integer literals (parsing tens of thousands of Z literals per file is
   too slow) and converted to the Z-level cases of NodesRun.v before the model runs.
   Nothing in the proofs depends on this file. *)
Require Import List ZArith Bool.
Require Import Uint63.
From Dasp Require Import Graph.NodesRun.
Import ListNotations.

Inductive unode :=
| USum | USumB | UPass
| UDelay (rings : list (int * list int))
| USig (ch : int) (frames : list (list int))
| UGraph (ins : list (list int)) (ids : list int) (cfill : list int) (core : unode).

Inductive ucase := UCase (nd : unode) (out0 : list (list int)) (calls : list ((int * int) * list (list (list int)))).

Definition z (i : int) : Z := Uint63.to_Z i.
Definition zs := map z.
Definition zss := map zs.

Fixpoint u2z (u : unode) : znode :=
  match u with
  | USum => ZSum | USumB => ZSumB | UPass => ZPass
  | UDelay rings => ZDelay (map (fun r => (z (fst r), zs (snd r))) rings)
  | USig ch frames => ZSig (z ch) (zss frames)
  | UGraph ins ids cfill core => ZGraph (zss ins) (zs ids) (zs cfill) (u2z core)
  end.

Definition urun_case (c : ucase) : list (list Z) :=
  let '(UCase nd out0 calls) := c in
  run_case (Case (u2z nd) (zss out0) (map (fun c => ((z (fst (fst c)), z (snd (fst c))), map zss (snd c))) calls)).

Definition ucheck (c : ucase * list (list int)) : bool := zll_eqb (urun_case (fst c)) (zss (snd c)).
