(* C16 x C09: the built-in nodes (the deep embedding [node] of Graph/NodesRun.v that the
   correspondence runs: Sum, SumBuffers, Pass, Delay, the dyn-Signal node) satisfy what
   NodesComposeProofs asks of an inner node type: under an invariant of the node state (delay
   rings valid, signal frames of the signal's channel count) Node::process, given well-formed
   inputs and buffers, returns, keeps the invariant and leaves well-formed buffers.  So the
   theorems about graph nodes apply to graphs of built-in nodes, to graphs of graph nodes of
   built-in nodes, and so on. *)
Require Import Floats.SpecFloat.
Require Import List Arith Bool Lia.
From Dasp Require Import Base.Res Base.ListX Ring.Fixed Ring.FixedSpec Graph.Nodes Graph.NodesSpec Graph.NodesProofs
  Graph.NodesDelayProofs Graph.NodesSignalProofs Graph.NodesRun.
Import ListNotations.
Local Open Scope nat_scope.

Section Inst.
Context {Smp : Type}.
Variable zero : Smp.
Variable add : Smp -> Smp -> Smp.
Notation bufs := (list (list Smp)).
Notation wfbs := (wfbs (Smp:=Smp) BLEN).
Notation node := (node Smp).

Definition frames_ok (ch : nat) (frames : list (list Smp)) : Prop := Forall (fun f => length f = ch) frames.

(* the star-shaped graph node of NodesRun.v is superseded by the composed one and is not an
   instance *)
Definition builtin_ok (nd : node) : Prop :=
  match nd with
  | NSum | NSumBuffers | NPass => True
  | NDelay rings => Forall InvF rings
  | NSignal ch frames _ => frames_ok ch frames
  | NGraph _ _ _ _ => False
  end.

Lemma sum_spec_wf (inputs : list bufs) n : wfbs (sum_spec zero add BLEN inputs n).
Proof.
  unfold sum_spec. apply Forall_forall. intros b Hb. apply in_map_iff in Hb. destruct Hb as (c & <- & _).
  unfold wfb, sum_row. now rewrite map_length, seq_length.
Qed.

Lemma sumb_rows_wf (inputs : list bufs) (output : bufs) :
  wfbs (map (fun _ => sumb_row zero add BLEN inputs) output).
Proof.
  apply Forall_forall. intros b Hb. apply in_map_iff in Hb. destruct Hb as (c & <- & _).
  unfold wfb, sumb_row. now rewrite map_length, seq_length.
Qed.

(* a frame-length-normalising variant of sig_next: equal to it on well-formed frame lists *)
Definition norm (ch : nat) (f : list Smp) : list Smp := firstn ch f ++ repeat zero (ch - length f).
Definition sig_next_n (ch : nat) (st : list (list Smp) * nat) : list Smp * (list (list Smp) * nat) :=
  (norm ch (fst (sig_next zero ch st)), snd (sig_next zero ch st)).

Lemma norm_len ch f : length (norm ch f) = ch.
Proof. unfold norm. rewrite app_length, firstn_length, repeat_length. lia. Qed.

Lemma norm_id ch f : length f = ch -> norm ch f = f.
Proof. intros <-. unfold norm. now rewrite firstn_all, Nat.sub_diag, app_nil_r. Qed.

Lemma sig_next_agree ch st : frames_ok ch (fst st) ->
  sig_next_n ch st = sig_next zero ch st /\ frames_ok ch (fst (snd (sig_next zero ch st))).
Proof.
  destruct st as [[|f t] k]; intros H; unfold sig_next_n, sig_next; cbn [fst snd] in *.
  - rewrite norm_id by apply repeat_length. split; [reflexivity|constructor].
  - inversion H as [|? ? Hf Ht]. rewrite (norm_id ch f Hf). split; [reflexivity|exact Ht].
Qed.

Lemma sig_frames_agree ch : forall ixs channels st (out : bufs), frames_ok ch (fst st) ->
  sig_frames (sig_next zero ch) ixs channels st out = sig_frames (sig_next_n ch) ixs channels st out /\
  forall st' out', sig_frames (sig_next zero ch) ixs channels st out = Ok (st', out') -> frames_ok ch (fst st').
Proof.
  induction ixs as [|ix t IH]; intros channels st out H; cbn [sig_frames].
  - split; [reflexivity|]. intros st' out' [= <- _]. exact H.
  - destruct (sig_next_agree ch st H) as [E K]. rewrite E.
    destruct (sig_scatter (seq 0 channels) ix (fst (sig_next zero ch st)) out) as [o1| |]; cbn [bind].
    + apply IH. exact K.
    + split; [reflexivity|discriminate].
    + split; [reflexivity|discriminate].
Qed.

Theorem builtin_process_ok : forall (nd : node) (inp : list bufs) (out : bufs),
  builtin_ok nd -> Forall wfbs inp -> wfbs out ->
  exists nd' out', nprocess zero add nd inp out = Ok (nd', out') /\ builtin_ok nd' /\ wfbs out'.
Proof.
  intros [| | |rings|ch frames pulls|? ? ? ?] inp out Hok Hin Hout; cbn [nprocess builtin_ok] in *.
  - rewrite (sum_correct zero add BLEN inp out Hin Hout). cbn [bind]. eexists _, _. split; [reflexivity|].
    split; [exact I|apply sum_spec_wf].
  - rewrite (sum_buffers_correct zero add BLEN inp out Hin Hout). cbn [bind]. eexists _, _. split; [reflexivity|].
    split; [exact I|apply sumb_rows_wf].
  - rewrite (pass_correct BLEN inp out Hin Hout). cbn [bind]. eexists _, _. split; [reflexivity|].
    split; [exact I|]. destruct inp as [|inp0 rest]; [exact Hout|]. inversion Hin; subst.
    now apply (zip_copy_spec_wf BLEN).
  - destruct (delay_call_total BLEN rings inp out Hok Hin Hout) as (rings' & out' & E & K1 & K2 & _).
    rewrite E. cbn [bind fst snd]. eauto.
  - unfold signal_process.
    destruct (sig_frames_agree ch (seq 0 BLEN) (Nat.min ch (length out)) (frames, pulls) out Hok) as [E K].
    pose proof (signal_call BLEN (sig_next_n ch) ch (fun st => norm_len ch _) (frames, pulls) inp out Hout) as (out' & E' & W & _).
    unfold signal_process in E'. rewrite E, E'. cbn [bind fst snd].
    eexists _, _. split; [reflexivity|]. split; [|exact W].
    rewrite E' in E. specialize (K _ _ E). exact K.
  - destruct Hok.
Qed.

End Inst.
