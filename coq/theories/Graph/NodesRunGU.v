(* Transport layer for the composed-graph-node cases (see NodesRunU.v): primitive 63-bit
   integer literals converted to the Z-level cases of NodesRunG.v.  Nothing in the proofs
   depends on this file. *)
Require Import List ZArith Bool.
Require Import Uint63.
From Dasp Require Import Graph.NodesRun Graph.NodesRunU Graph.NodesRunG.
Import ListNotations.

Inductive ucnode :=
| ULeaf (u : unode)
| UCG (nodes : list (ucnode * list int)) (edges : list (int * int)) (removed : list int) (ids : list int) (on : int).

Inductive ugcase := UGCase (nd : ucnode) (out0 : list (list int)) (calls : list ((int * int) * list (list (list int)))).

Fixpoint uc2z (u : ucnode) : zcnode :=
  match u with
  | ULeaf l => ZLeaf (u2z l)
  | UCG nodes es removed ids on =>
    ZCG (map (fun p : ucnode * list int => let (a, fills) := p in (uc2z a, zs fills)) nodes)
        (map (fun e => (z (fst e), z (snd e))) es) (zs removed) (zs ids) (z on)
  end.

Definition urun_gcase (c : ugcase) : list (list Z) :=
  let '(UGCase nd out0 calls) := c in
  run_gcase (GCase (uc2z nd) (zss out0) (map (fun c => ((z (fst (fst c)), z (snd (fst c))), map zss (snd c))) calls)).

Definition ugcheck (c : ugcase * list (list int)) : bool := zll_eqb (urun_gcase (fst c)) (zss (snd c)).
