(* Non-vacuity of the NodeData theorems (props/C09.v: c09_constructed_node_in_graph ...): concrete
   graphs meeting the hypotheses, and the script operation ZC of the executable model. *)
Require Import List ZArith Lia.
From Dasp Require Import Base.Res Base.ListX Graph.Dfs Graph.Process Graph.ProcessPanic Graph.NodeData
  Graph.NodeDataProofs Graph.GraphRun.
Import ListNotations.

(* a StableGraph with a vacated slot: [boxed2 8; new1 7], node 0 removed *)
Definition vac : @graph (node_data Z Z) :=
  fst (remove_node 0 (fst (add_node (construct 0%Z CNew1 7%Z) (fst (add_node (construct 0%Z CBoxed2 8%Z) empty_graph))))).

Example vac_free_ok : free_ok vac.
Proof.
  unfold vac. apply free_ok_by_construction. apply free_ok_by_construction. apply free_ok_by_construction.
  apply free_ok_by_construction.
Qed.

Example vac_has_vacancy : free vac = [0] /\ weight vac 0 = None /\ option_map nd_buffers (weight vac 1) = Some [0%Z].
Proof. vm_compute. auto. Qed.

(* new2 into the re-used slot 0: two silent buffers there, node 1 untouched *)
Example ctor_into_vacancy :
  let r := add_node (construct 0%Z CNew2 9%Z) vac in
  snd r = 0 /\ option_map nd_node (weight (fst r) 0) = Some 9%Z /\
  option_map nd_buffers (weight (fst r) 0) = Some [0%Z; 0%Z] /\
  option_map nd_buffers (weight (fst r) 1) = Some [0%Z].
Proof. vm_compute. auto. Qed.

(* the theorem applied to it *)
Example ctor_theorem_instance :
  option_map nd_buffers (weight (fst (add_node (construct 0%Z CBoxed1 3%Z) vac)) (snd (add_node (construct 0%Z CBoxed1 3%Z) vac)))
  = Some (repeat 0%Z 1).
Proof. exact (proj1 (proj2 (constructed_node_in_graph 0%Z CBoxed1 3%Z vac vac_free_ok))). Qed.

(* the script: new2 feeds boxed1; the downstream node sees ONE input showing TWO buffers, the
   constructor observation reports (2 buffers, all bits zero) resp. (1 buffer, all bits zero) *)
Example ctor_script :
  run_case [ZC 2 0; ZC 3 0; ZE 0 1; ZP 1; ZB]%Z =
  [[1; 0]; [19; 2; 0]; [1; 1]; [19; 1; 0]; [2];
   [10; 2]; [11; 0; 0]; [11; 1; 1; 2; 0; 14];
   [12; 7; 56]; [13; 1; 1]; [16; 2; 1]]%Z.
Proof. vm_compute. reflexivity. Qed.
