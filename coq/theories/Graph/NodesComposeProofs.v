(* C16 x C09: the nested graph node computes the functional evaluation of its inner graph.

   1. [process_r_total]   while every node of the graph is "ok" (a predicate preserved by the node
                          function, under which the node function does not panic) the loops with
                          panicking nodes ARE the C09 model [process] with the totalised node
                          function -- so every C09 theorem applies to them -- and ok-ness is kept.
   2. [gn_process_c09]    GraphNode::process on ANY inner multigraph (cycles included) = copy-in
                          (closed form [copy_in_spec]); C09 process from the output node; copy-out:
                          no panic, and the node can be called again (hypotheses are kept).
   3. [gn_process_functional]  acyclic inner upstream: the inner graph ends as the functional
                          evaluation [eval] of the graph after copy-in, the output is the evaluated
                          output node's buffers zip-copied onto the node's own.
   4. [outer_graph_node_composed]  the same for a graph node sitting in an OUTER graph processed by
                          the C09 model: its inputs are the final buffers of the outer nodes
                          feeding it. *)
Require Import List Arith Lia Bool Relations.
From Dasp Require Import Base.Res Base.ListX Graph.Dfs Graph.Process Graph.ProcessSpec Graph.DfsProofs
  Graph.ProcessProofs Graph.EvalProofs Graph.ExtraProofs Graph.Nodes Graph.NodesSpec Graph.NodesProofs
  Graph.NodesCompose.
Import ListNotations.

(* ------------------------------------------------------------------ 1. process_r = process *)
Section R.
Context {W B : Type}.
Variable bufs : W -> B.
Variable nstep : W -> list B -> res W.
Variable ok : W -> Prop.
Variable okb : B -> Prop.
Hypothesis ok_bufs : forall w, ok w -> okb (bufs w).
Hypothesis step_ok : forall w ins, ok w -> Forall okb ins -> exists w', nstep w ins = Ok w' /\ ok w'.

Notation graph := (graph W).

Definition all_ok (g : graph) : Prop := forall n w, weight g n = Some w -> ok w.

(* a sufficient condition that can be checked slot by slot *)
Lemma all_ok_slots (g : graph) :
  Forall (fun s => match s with Some w => ok w | None => True end) (slots g) -> all_ok g.
Proof.
  intros H n w Hw. unfold weight in Hw.
  destruct (nth_error (slots g) n) as [[w0|]|] eqn:E; try discriminate. injection Hw as <-.
  apply nth_error_In in E. rewrite Forall_forall in H. exact (H _ E).
Qed.

Lemma collect_okb (g : graph) n : all_ok g -> forall l r, collect bufs g n l = Ok r -> Forall okb (map snd r).
Proof.
  intros Hok. induction l as [|u t IH]; intros r; cbn [collect].
  - intros [= <-]. constructor.
  - destruct (n =? u); [apply IH|].
    destruct (weight g u) as [w|] eqn:Hw; [|discriminate].
    destruct (collect bufs g n t) as [r0| |]; cbn [bind]; try discriminate.
    intros [= <-]. cbn [map snd]. constructor; [apply ok_bufs; eapply Hok; eauto|now apply IH].
Qed.

Lemma all_ok_set (g : graph) n w0 w' : all_ok g -> weight g n = Some w0 -> ok w' -> all_ok (set_weight g n w').
Proof.
  intros Hok Hw Hw' m w. rewrite weight_set_weight.
  - destruct (n =? m); [intros [= <-]; exact Hw'|apply Hok].
  - apply live_lt. apply live_weight. eauto.
Qed.

Lemma loop_r_total : forall k F p (g : graph) log, all_ok g ->
  process_loop_r bufs nstep k F p g log = process_loop bufs (tot nstep) k F p g log.
Proof.
  induction k as [|k IH]; intros F p g log Hok; [reflexivity|].
  cbn [process_loop_r Process.process_loop].
  destruct (next (neighbors_in g) F (cap p) (dfs p)) as [[s' [x|]]| |]; cbn [bind fst snd]; try reflexivity.
  destruct (weight g x) as [w|] eqn:Hw; [|reflexivity].
  destruct (collect bufs g x (neighbors_in g x)) as [ins0| |] eqn:Hc; cbn [bind]; try reflexivity.
  destruct (step_ok w (map snd ins0) (Hok _ _ Hw) (collect_okb g x Hok _ _ Hc)) as (w' & Hs & Hw').
  unfold tot. rewrite Hs. cbn [bind]. apply IH. eapply all_ok_set; eauto.
Qed.

Lemma loop_all_ok : forall k F p (g : graph) log p' g' log', all_ok g ->
  process_loop bufs (tot nstep) k F p g log = Ok (p', g', log') -> all_ok g'.
Proof.
  induction k as [|k IH]; intros F p g log p' g' log' Hok; cbn [Process.process_loop]; [discriminate|].
  destruct (next (neighbors_in g) F (cap p) (dfs p)) as [[s' [x|]]| |]; cbn [bind fst snd]; try discriminate.
  - destruct (weight g x) as [w|] eqn:Hw; [|discriminate].
    destruct (collect bufs g x (neighbors_in g x)) as [ins0| |] eqn:Hc; cbn [bind]; try discriminate.
    destruct (step_ok w (map snd ins0) (Hok _ _ Hw) (collect_okb g x Hok _ _ Hc)) as (w' & Hs & Hw').
    intros Hp. eapply IH; [|exact Hp]. unfold tot. rewrite Hs. eapply all_ok_set; eauto.
  - intros [= _ <- _]. exact Hok.
Qed.

(* the loops with panicking nodes are the C09 model with the totalised node function *)
Theorem process_r_total p (g : graph) out : all_ok g ->
  process_r bufs nstep p g out = process bufs (tot nstep) p g out.
Proof. intros Hok. apply loop_r_total. exact Hok. Qed.

Theorem process_all_ok p (g : graph) out p' g' log : all_ok g ->
  process bufs (tot nstep) p g out = Ok (p', g', log) -> all_ok g'.
Proof. intros Hok Hp. eapply loop_all_ok; eauto. Qed.

End R.

(* ------------------------------------------------------------------ C09 corollaries used below *)
Section C09.
Context {W B : Type}.
Variable bufs : W -> B.
Variable nproc : W -> list B -> W.
Notation graph := (graph W).

Lemma process_same_shape p (g : graph) out p' g' log : wf g -> live g out = true ->
  process bufs nproc p g out = Ok (p', g', log) -> same_shape g g'.
Proof.
  intros Hwf Hout Hp. destruct (process_inputs bufs nproc p g out p' g' log Hwf Hout Hp) as [H _].
  apply (f_equal fst) in H. cbn [fst] in H. rewrite H. apply shape_spec_run.
Qed.

(* acyclic upstream: every invoked node ends as its initial state processed once on the FINAL
   buffers of the nodes feeding it *)
Theorem process_final_equation p (g : graph) out p' g' log :
  wf g -> live g out = true -> acyclic_upstream g out ->
  process bufs nproc p g out = Ok (p', g', log) ->
  forall v w, upstream g out v -> weight g v = Some w ->
    weight g' v = Some (nproc w (flat_map (fun u => match weight g' u with Some w' => [bufs w'] | None => [] end)
                                          (ins g v))).
Proof.
  intros Hwf Hout Hac Hp v w Hv Hw.
  destruct (process_spec bufs nproc p g out Hwf Hout) as (p1 & order & Hrun & _ & _ & _ & Hup & Hnd & Hpost).
  rewrite Hrun in Hp. injection Hp as _ <- _.
  apply Hup in Hv as Hin. apply in_split in Hin. destruct Hin as (A & Bt & Heq).
  rewrite (final_equation bufs nproc g order A v Bt Heq Hnd).
  - now rewrite Hw.
  - intros u [He Hne]. eapply (Hpost Hac); eauto.
Qed.

Lemma shape_symm (g g' : graph) : same_shape g g' -> same_shape g' g.
Proof. intros (He & Hl & Hn). repeat split; auto. Qed.

Lemma upstream_shape (g g' : graph) out v : same_shape g g' -> upstream g out v <-> upstream g' out v.
Proof.
  intros (He & _). unfold upstream, edge. rewrite He. reflexivity.
Qed.

Lemma acyclic_shape (g g' : graph) out : same_shape g g' -> acyclic_upstream g out -> acyclic_upstream g' out.
Proof.
  intros Hs Hac x Hx Hc. apply (Hac x).
  - now apply (upstream_shape g g' out x Hs).
  - eapply t_mono; [|exact Hc]. intros a b [Hab Hne]. split; [|exact Hne].
    destruct Hs as (He & _). unfold edge in *. now rewrite <- He.
Qed.

End C09.

(* ------------------------------------------------------------------ 2./3. the graph node *)
Section GNP.
Context {Smp N : Type}.
Variable LEN : nat.
Notation bufs := (list (list Smp)).
Notation wfbs := (wfbs (Smp:=Smp) LEN).
Variable nprocess : N -> list bufs -> bufs -> res (N * bufs).
(* what is asked of the inner node type: an invariant [nok] under which Node::process, given
   well-formed inputs and buffers, does not panic, keeps the invariant and leaves well-formed
   buffers (the built-in nodes: NodesComposeInst.v) *)
Variable nok : N -> Prop.
Hypothesis nprocess_ok : forall nd ins out, nok nd -> Forall wfbs ins -> wfbs out ->
  exists nd' out', nprocess nd ins out = Ok (nd', out') /\ nok nd' /\ wfbs out'.

Notation igraph := (graph (N * bufs)).
Notation istep := (istep nprocess).
Notation ieval := (eval (@ibufs Smp N) (tot istep)).

Definition wok (w : N * bufs) : Prop := nok (fst w) /\ wfbs (snd w).
Notation aok := (all_ok wok).

Lemma wok_bufs w : wok w -> wfbs (ibufs w).
Proof. intros [_ H]. exact H. Qed.

Lemma wok_step w ins : wok w -> Forall wfbs ins -> exists w', istep w ins = Ok w' /\ wok w'.
Proof.
  intros [H1 H2] Hi. destruct (nprocess_ok (fst w) ins (snd w) H1 Hi H2) as (nd' & out' & E & K1 & K2).
  exists (nd', out'). split; [exact E|]. split; assumption.
Qed.

(* the copy-in loop: no panic, closed form, shape and ok-ness kept (ids may repeat: the later
   input overwrites the earlier one, as in the code) *)
Lemma copy_in_ok : forall (inputs : list bufs) (ids : list nat) p (g : igraph),
  Forall wfbs inputs -> aok g -> (forall n, In n ids -> live g n = true) ->
  graph_copy_in gs_bufs gs_set (p, g) inputs ids = Ok (p, copy_in_spec g inputs ids) /\
  same_shape g (copy_in_spec g inputs ids) /\ aok (copy_in_spec g inputs ids).
Proof.
  induction inputs as [|inp it IH]; intros ids p g Hin Hok Hl.
  - cbn. split; [reflexivity|]. split; [apply shape_refl|exact Hok].
  - destruct ids as [|n nt]; [cbn; split; [reflexivity|]; split; [apply shape_refl|exact Hok]|].
    inversion Hin as [|? ? Hinp Hit]; subst.
    assert (Hn : live g n = true) by (apply Hl; now left).
    destruct (proj1 (live_weight g n) Hn) as [w Hw].
    cbn [graph_copy_in copy_in_spec].
    assert (Hgb : gs_bufs (p, g) n = Some (snd w)) by (unfold gs_bufs; cbn [snd]; now rewrite Hw).
    rewrite Hgb, Hw.
    destruct (Hok _ _ Hw) as [Hk Hb].
    rewrite (zip_copy_ok LEN (snd w) inp Hb Hinp). cbn [bind].
    set (g' := set_weight g n (fst w, zip_copy_spec (snd w) inp)).
    assert (Hgs : gs_set (p, g) n (zip_copy_spec (snd w) inp) = (p, g')).
    { unfold gs_set. cbn [fst snd]. now rewrite Hw. }
    rewrite Hgs.
    assert (Hs : same_shape g g') by (apply shape_set_weight; [apply shape_refl|exact Hn]).
    assert (Hok' : aok g').
    { eapply all_ok_set; eauto. split; [exact Hk|]. cbn [snd]. apply (zip_copy_spec_wf LEN); assumption. }
    destruct (IH nt p g' Hit Hok') as (E & S & K).
    { intros m Hm. destruct Hs as (_ & Hlv & _). rewrite Hlv. apply Hl. now right. }
    split; [exact E|]. split; [eapply shape_trans; eauto|exact K].
Qed.

(* GraphNode::process on ANY inner multigraph: copy-in, the C09 model from the output node,
   copy-out; it returns (no panic, no out-of-bounds access) and can be called again *)
Theorem gn_process_c09 ids on p (g : igraph) (inputs : list bufs) (output : bufs) :
  wf g -> live g on = true -> aok g -> (forall n, In n ids -> live g n = true) ->
  Forall wfbs inputs -> wfbs output ->
  let g1 := copy_in_spec g inputs ids in
  exists p' g2 log wo,
    process ibufs (tot istep) p g1 on = Ok (p', g2, log) /\ weight g2 on = Some wo /\
    gn_process nprocess ids on (p, g) inputs output = Ok ((p', g2), zip_copy_spec output (snd wo)) /\
    same_shape g g1 /\ same_shape g g2 /\ aok g2 /\ wfbs (zip_copy_spec output (snd wo)).
Proof.
  intros Hwf Hon Hok Hids Hin Hout g1.
  destruct (copy_in_ok inputs ids p g Hin Hok Hids) as (Ec & Sc & Kc). fold g1 in Ec, Sc, Kc.
  pose proof (shape_wf _ _ Sc Hwf) as Hwf1.
  assert (Hon1 : live g1 on = true) by (destruct Sc as (_ & Hl & _); now rewrite Hl).
  destruct (process_terminates ibufs (tot istep) p g1 on Hwf1 Hon1) as (p' & g2 & log & Hp).
  pose proof (process_same_shape _ _ _ _ _ _ _ _ Hwf1 Hon1 Hp) as S2.
  pose proof (process_all_ok ibufs istep wok (wfbs) wok_bufs wok_step p g1 on p' g2 log Kc Hp) as K2.
  assert (Hon2 : live g2 on = true) by (destruct S2 as (_ & Hl & _); now rewrite Hl).
  destruct (proj1 (live_weight g2 on) Hon2) as [wo Hwo].
  destruct (K2 _ _ Hwo) as [_ Hbo].
  exists p', g2, log, wo. split; [exact Hp|]. split; [exact Hwo|]. split.
  - unfold gn_process, graph_process. rewrite Ec. cbn [bind]. unfold gs_process. cbn [fst snd].
    rewrite (process_r_total ibufs istep wok (wfbs) wok_bufs wok_step p g1 on Kc), Hp. cbn [bind fst snd].
    unfold gs_bufs. cbn [snd]. rewrite Hwo. cbn [option_map].
    rewrite (zip_copy_ok LEN output (snd wo) Hout Hbo). reflexivity.
  - split; [exact Sc|]. split; [eapply shape_trans; eauto|]. split; [exact K2|].
    apply (zip_copy_spec_wf LEN); assumption.
Qed.

(* acyclic inner upstream subgraph (any shape: chains, diamonds, fan-in with parallel edges,
   unused nodes ...): the inner graph ends as the functional evaluation of the graph after copy-in,
   nodes that do not feed the output node are untouched, and the node's output is the evaluated
   output node's buffers zip-copied onto its own buffers *)
Theorem gn_process_functional ids on p (g : igraph) (inputs : list bufs) (output : bufs) :
  wf g -> live g on = true -> aok g -> (forall n, In n ids -> live g n = true) ->
  Forall wfbs inputs -> wfbs output -> acyclic_upstream g on ->
  let g1 := copy_in_spec g inputs ids in
  exists p' g2 wo,
    gn_process nprocess ids on (p, g) inputs output = Ok ((p', g2), zip_copy_spec output (snd wo)) /\
    ieval g1 (length (slots g1)) on = Some wo /\
    (forall v, upstream g1 on v -> weight g2 v = ieval g1 (length (slots g1)) v) /\
    (forall v, ~ upstream g1 on v -> weight g2 v = weight g1 v) /\
    same_shape g g2 /\ aok g2 /\ wfbs (zip_copy_spec output (snd wo)).
Proof.
  intros Hwf Hon Hok Hids Hin Hout Hac g1.
  destruct (gn_process_c09 ids on p g inputs output Hwf Hon Hok Hids Hin Hout)
    as (p' & g2 & log & wo & Hp & Hwo & Hg & S1 & S2 & K2 & Wo). fold g1 in Hp, S1.
  pose proof (shape_wf _ _ S1 Hwf) as Hwf1.
  assert (Hon1 : live g1 on = true) by (destruct S1 as (_ & Hl & _); now rewrite Hl).
  pose proof (acyclic_shape _ _ on S1 Hac) as Hac1.
  destruct (process_functional ibufs (tot istep) p g1 on p' g2 log Hwf1 Hon1 Hac1 Hp) as [F1 F2].
  exists p', g2, wo. split; [exact Hg|]. split.
  - rewrite <- (F1 on); [exact Hwo|]. apply rt_refl.
  - auto.
Qed.

End GNP.

(* ------------------------------------------------------------------ 4. in an outer graph *)
Section Outer.
Context {Smp N : Type}.
Variable LEN : nat.
Notation bufs := (list (list Smp)).
Notation wfbs := (wfbs (Smp:=Smp) LEN).
Variable nprocess : N -> list bufs -> bufs -> res (N * bufs).
Variable nok : N -> Prop.
Hypothesis nprocess_ok : forall nd ins out, nok nd -> Forall wfbs ins -> wfbs out ->
  exists nd' out', nprocess nd ins out = Ok (nd', out') /\ nok nd' /\ wfbs out'.

Notation onode := (@onode Smp N).
Notation oprocess := (oprocess nprocess).
Notation ograph := (graph (onode * bufs)).
Notation ieval := (eval (@ibufs Smp N) (tot (istep nprocess))).

(* what is asked of a graph node: its inner graph is a graph petgraph can hold, the output and
   input nodes exist, every inner node satisfies the inner node type's invariant and has
   well-formed buffers.  Nothing about the inner shape. *)
Definition gn_ok (g : graph (N * bufs)) (ids : list nat) (on : nat) : Prop :=
  wf g /\ live g on = true /\ all_ok (wok LEN nok) g /\ (forall n, In n ids -> live g n = true).

Definition onok (o : onode) : Prop :=
  match o with OLeaf nd => nok nd | OGraph _ g ids on => gn_ok g ids on end.

(* the node type one level up satisfies what was asked of the inner one: the construction nests *)
Theorem oprocess_ok : forall o ins out, onok o -> Forall wfbs ins -> wfbs out ->
  exists o' out', oprocess o ins out = Ok (o', out') /\ onok o' /\ wfbs out'.
Proof.
  intros [nd|p g ids on] ins out Ho Hi Hout; cbn [NodesCompose.oprocess onok] in *.
  - destruct (nprocess_ok nd ins out Ho Hi Hout) as (nd' & out' & E & K1 & K2).
    rewrite E. cbn [bind fst snd]. eauto.
  - destruct Ho as (Hwf & Hon & Hok & Hids).
    destruct (gn_process_c09 LEN nprocess nok nprocess_ok ids on p g ins out Hwf Hon Hok Hids Hi Hout)
      as (p' & g2 & log & wo & _ & _ & Hg & _ & S2 & K2 & Wo).
    rewrite Hg. cbn [bind fst snd]. eexists _, _. split; [reflexivity|]. split; [|exact Wo].
    split; [eapply shape_wf; eauto|]. split; [destruct S2 as (_ & Hl & _); now rewrite Hl|].
    split; [exact K2|]. intros n Hn. destruct S2 as (_ & Hl & _). rewrite Hl. now apply Hids.
Qed.

Notation owok := (wok LEN onok).
Notation ostep := (istep oprocess).

(* a graph node wrapped in an outer graph that is processed by the C09 model: the call returns
   (no node panics, whatever the inner shapes -- inner cycles included), every C09 theorem applies
   to the run, and every graph node t upstream of the outer output node whose inner upstream
   subgraph is acyclic ends with: inner graph = functional evaluation of the inner graph after
   copy-in of INS, output buffers = the evaluated inner output node's buffers zip-copied onto its
   own, where INS = the FINAL buffers of the outer nodes feeding t, one per edge, newest first *)
Theorem outer_graph_node_composed p (G : ograph) out :
  wf G -> live G out = true -> acyclic_upstream G out -> all_ok owok G ->
  exists p' G' log,
    process_r ibufs ostep p G out = Ok (p', G', log) /\
    process ibufs (tot ostep) p G out = Ok (p', G', log) /\
    all_ok owok G' /\
    forall t pi gi ids on ob, upstream G out t -> weight G t = Some (OGraph pi gi ids on, ob) ->
      acyclic_upstream gi on ->
      let INS := flat_map (fun u => match weight G' u with Some w' => [ibufs w'] | None => [] end) (ins G t) in
      let g1 := copy_in_spec gi INS ids in
      exists pi' gi' wo,
        weight G' t = Some (OGraph pi' gi' ids on, zip_copy_spec ob (snd wo)) /\
        ieval g1 (length (slots g1)) on = Some wo /\
        (forall v, upstream g1 on v -> weight gi' v = ieval g1 (length (slots g1)) v) /\
        (forall v, ~ upstream g1 on v -> weight gi' v = weight g1 v).
Proof.
  intros Hwf Hout Hac Hok.
  assert (Hb : forall w, owok w -> wfbs (ibufs w)) by (intros w Hw; exact (proj2 Hw)).
  pose proof (wok_step LEN oprocess onok oprocess_ok) as Hst.
  destruct (process_terminates ibufs (tot ostep) p G out Hwf Hout) as (p' & G' & log & Hp).
  pose proof (process_all_ok ibufs ostep owok wfbs Hb Hst p G out p' G' log Hok Hp) as Hok'.
  exists p', G', log. split; [|split; [exact Hp|split; [exact Hok'|]]].
  - rewrite (process_r_total ibufs ostep owok wfbs Hb Hst p G out Hok). exact Hp.
  - intros t pi gi ids on ob Ht Hw Haci INS g1.
    pose proof (process_final_equation ibufs (tot ostep) p G out p' G' log Hwf Hout Hac Hp t _ Ht Hw) as Hfin.
    fold INS in Hfin.
    assert (HINS : Forall wfbs INS).
    { unfold INS. apply Forall_forall. intros b Hbin. apply in_flat_map in Hbin.
      destruct Hbin as (u & _ & Hu). destruct (weight G' u) as [w'|] eqn:Hw'; [|destruct Hu].
      destruct Hu as [<-|[]]. apply Hb. eapply Hok'; eauto. }
    destruct (Hok _ _ Hw) as [Hgn Hob]. cbn [fst snd onok] in Hgn, Hob.
    destruct Hgn as (Hwfi & Honi & Hoki & Hidsi).
    destruct (gn_process_functional LEN nprocess nok nprocess_ok ids on pi gi INS ob Hwfi Honi Hoki Hidsi HINS Hob Haci)
      as (pi' & gi' & wo & Hg & He & F1 & F2 & _).
    fold g1 in He, F1, F2.
    exists pi', gi', wo. split; [|auto].
    rewrite Hfin. unfold tot, NodesCompose.istep. cbn [fst snd NodesCompose.oprocess].
    rewrite Hg. cbn [bind fst snd]. reflexivity.
Qed.

End Outer.
