(* Non-vacuity of the Buffer theorems (props/C16.v: c16_buffer_eq ..., c16_buffer_default) and the
   buffer-list operations 3 / 4 of the executable model on small concrete cases. *)
Require Import Floats.SpecFloat.
Require Import List ZArith Bool.
From Flocq Require Import Core BinarySingleNaN.
From Dasp Require Import Base.Res Base.ListX Base.Float Graph.Nodes Graph.BufferOps Graph.BufferOpsProofs
  Graph.NodesRun Graph.NodesRunBufProofs.
Import ListNotations.
Local Open Scope Z_scope.

Definition qnan : Z := 0x7FC00000.
Definition one : Z := 0x3F800000.
Definition mzero : Z := 0x80000000.

(* identical bit patterns, but a NaN inside: not equal *)
Example eq_with_nan : buffer_eq bits_eqb [one; qnan; one] [one; qnan; one] = false.
Proof. vm_compute. reflexivity. Qed.
(* different bit patterns, only the sign of a zero: equal *)
Example eq_zero_signs : buffer_eq bits_eqb [one; 0; mzero] [one; mzero; 0] = true.
Proof. vm_compute. reflexivity. Qed.
(* the last sample differs by one ulp: not equal; a shorter buffer: not equal *)
Example eq_last_ulp : buffer_eq bits_eqb [one; one; one] [one; one; one + 1] = false.
Proof. vm_compute. reflexivity. Qed.
Example eq_lengths : buffer_eq bits_eqb [one; one] [one; one; one] = false.
Proof. vm_compute. reflexivity. Qed.
Example eq_same : buffer_eq bits_eqb [one; 0; one + 5] [one; 0; one + 5] = true.
Proof. vm_compute. reflexivity. Qed.

(* the buffer list grows by default-made buffers: 1 -> 3 buffers, the first kept, two silent ones *)
Example resize_default_grows :
  apply_bop 0 (BResizeDefault 3) [repeat one 64] = [repeat one 64; repeat 0 64; repeat 0 64].
Proof. vm_compute. reflexivity. Qed.
Example resize_default_shrinks :
  apply_bop 0 (BResizeDefault 1) [repeat one 64; repeat qnan 64] = [repeat one 64].
Proof. vm_compute. reflexivity. Qed.

(* a Pass node, one input with one buffer, two outputs: call 1 writes `one`s, call 2 (an op-4 call)
   writes a buffer whose last sample is a NaN: buffer 0 differs from what it was, the surplus buffer
   (never written, all `one + 1`) still equals itself *)
Example compare_call :
  let a := repeat one 64 in
  let b := repeat one 63 ++ [qnan] in
  let s := repeat (one + 1) 64 in
  run_case (Case ZPass [s; s] [((0, 0), [[a]]); ((4, 0), [[b]]); ((4, 0), [[b]])]) =
  [[9; 2]; a; s; [7; 0];
   [9; 2]; b; s; [7; 0]; [21; 0; 1];
   [9; 2]; b; s; [7; 0]; [21; 0; 1]].
Proof. vm_compute. reflexivity. Qed.
