(* Executable interface of the node models for the correspondence check
   (lib/props/c16.py, harness/src/bin/c16.rs): a deep embedding of node
   configurations (so that nested graph nodes can be run), instantiated over f32
   (Flocq, for the summing nodes: bit-exact, in the code's order of summation) and
   over raw bit patterns (Z; for the nodes that only move samples). *)
Require Import Floats.SpecFloat.
Require Import List ZArith Bool Arith.
From Flocq Require Import Core BinarySingleNaN.
From Dasp Require Import Base.Res Base.ListX Base.Float Ring.Bounded Ring.Fixed Graph.Nodes Graph.BufferOps.
Import ListNotations.
Local Open Scope nat_scope.

Definition BLEN : nat := 64.   (* Buffer::LEN *)

Section Deep.
Context {Smp : Type}.
Variable zero : Smp.
Variable add : Smp -> Smp -> Smp.

Notation bufs := (list (list Smp)).

(* a node configuration with its state.  [NGraph ins ids cbufs core] is a GraphNode
   whose inner graph is a star: in-nodes 0..k-1 (k = length ins; `Pass` nodes without
   inputs, i.e. nodes that leave their buffers as they are) all feeding the core node
   (id k, the output node) in this order; [ids] = input_nodes. *)
Inductive node :=
| NSum | NSumBuffers | NPass
| NDelay (rings : list (fixed Smp))
| NSignal (ch : nat) (frames : list (list Smp)) (pulls : nat)   (* pulls: how often Signal::next ran *)
| NGraph (ins : list bufs) (ids : list nat) (cbufs : bufs) (core : node).

(* dasp_signal::from_iter over the remaining frames; EQUILIBRIUM once exhausted *)
Definition sig_next (ch : nat) (st : list (list Smp) * nat) : list Smp * (list (list Smp) * nat) :=
  match fst st with
  | [] => (repeat zero ch, ([], S (snd st)))
  | f :: t => (f, (t, S (snd st)))
  end.

Definition star : Type := list bufs * bufs * node.

Definition star_bufs (g : star) (n : nat) : option bufs :=
  let '(ins, cb, _) := g in
  if n <? length ins then nth_error ins n else if n =? length ins then Some cb else None.

Definition star_set (g : star) (n : nat) (b : bufs) : star :=
  let '(ins, cb, c) := g in
  if n <? length ins then (set_nth n b ins, cb, c) else if n =? length ins then (ins, b, c) else g.

Fixpoint nprocess (nd : node) (inputs : list bufs) (output : bufs) {struct nd} : res (node * bufs) :=
  match nd with
  | NSum => let* o := sum_process zero add BLEN inputs output in Ok (NSum, o)
  | NSumBuffers => let* o := sum_buffers_process zero add BLEN inputs output in Ok (NSumBuffers, o)
  | NPass => let* o := pass_process inputs output in Ok (NPass, o)
  | NDelay rings => let* p := delay_process rings inputs output in Ok (NDelay (fst p), snd p)
  | NSignal ch frames pulls =>
    let* p := signal_process BLEN (sig_next ch) ch (frames, pulls) inputs output in
    Ok (NSignal ch (fst (fst p)) (snd (fst p)), snd p)
  | NGraph ins ids cb core =>
    (* Processor::process on the star: the in-nodes have no inputs and leave their buffers
       alone, then the core is processed with the in-nodes' buffers as its inputs *)
    let gproc (g : star) (_ : nat) : res star :=
      let '(ins1, cb1, _) := g in
      let* r := nprocess core ins1 cb1 in Ok (ins1, snd r, fst r) in
    let* p := graph_process star_bufs star_set gproc ids (length ins) (ins, cb, core) inputs output in
    let '(ins2, cb2, core2) := fst p in
    Ok (NGraph ins2 ids cb2 core2, snd p)
  end.

(* total number of Signal::next calls made so far by the signal nodes of the configuration *)
Fixpoint pulls_of (nd : node) : nat :=
  match nd with
  | NSignal _ _ k => k
  | NGraph _ _ _ core => pulls_of core
  | _ => 0
  end.

(* what the owner of the graph does to the node's `buffers: Vec<Buffer>` before a call *)
Inductive bop :=
| BKeep
| BResize (n : nat)     (* buffers.resize(n, Buffer::SILENT) *)
| BTake                 (* mem::take for the duration of this call, put back afterwards *)
| BResizeDefault (n : nat)   (* buffers.resize_with(n, Buffer::default) *)
| BCmp.                 (* buffers untouched; after the call every buffer is compared (Buffer::eq) with
                           the clone of itself taken before the call *)

Definition apply_bop (op : bop) (out : bufs) : bufs :=
  match op with
  | BKeep => out
  | BResize n => firstn n out ++ repeat (repeat zero BLEN) (n - length out)
  | BTake => []
  | BResizeDefault n => vec_resize n (buffer_default zero BLEN) out
  | BCmp => out
  end.

Variable enc : Smp -> Z.
Variable eqs : Smp -> Smp -> bool.   (* `==` on samples *)

(* the observation an op-4 call adds: one 0/1 per buffer, (before the call) == (after the call) *)
Definition cmp_obs (op : bop) (before after : bufs) : list (list Z) :=
  match op with
  | BCmp => [21%Z :: map (fun e : bool => if e then 1%Z else 0%Z) (zip_eq eqs before after)]
  | _ => []
  end.

Fixpoint run_calls (nd : node) (out : bufs) (calls : list (bop * list bufs)) : list (list Z) :=
  match calls with
  | [] => []
  | (op, inputs) :: t =>
    match nprocess nd inputs (apply_bop op out) with
    | Ok (nd', out') =>
      [9%Z; Z.of_nat (length out')] :: map (map enc) out'
        ++ [7%Z; Z.of_nat (pulls_of nd')] :: cmp_obs op (apply_bop op out) out'
        ++ run_calls nd' (match op with BTake => out | _ => out' end) t
    | Panic k => [[8%Z; Z.of_nat (panic_code k)]]
    | UB => [[(-2)%Z]]
    end
  end.

End Deep.
Arguments node Smp : clear implicits.

(* ---- Z-level cases ---- *)
Inductive znode :=
| ZSum | ZSumB | ZPass
| ZDelay (rings : list (Z * list Z))          (* (first, data) per channel *)
| ZSig (ch : Z) (frames : list (list Z))
| ZGraph (ins : list (list Z)) (ids : list Z) (cfill : list Z) (core : znode).
  (* ins: per in-node, one fill value per buffer; cfill: the same for the core's buffers *)

(* a call: (buffer-op code, argument) and the inputs;  0 keep, 1 resize to arg, 2 take,
   3 resize_with(arg, Buffer::default), 4 compare every buffer before / after the call *)
Inductive zcase := Case (nd : znode) (out0 : list (list Z)) (calls : list ((Z * Z) * list (list (list Z)))).

Definition to_bop (c : Z * Z) : bop :=
  match fst c with
  | 1%Z => BResize (Z.to_nat (snd c)) | 2%Z => BTake | 3%Z => BResizeDefault (Z.to_nat (snd c)) | 4%Z => BCmp
  | _ => BKeep
  end.

Section Conv.
Context {Smp : Type}.
Variable dec : Z -> Smp.

Definition fill (v : Z) : list Smp := repeat (dec v) BLEN.

Fixpoint to_node (z : znode) : node Smp :=
  match z with
  | ZSum => NSum | ZSumB => NSumBuffers | ZPass => NPass
  | ZDelay rings => NDelay (map (fun r => {| first := Z.to_nat (fst r); fdata := map dec (snd r) |}) rings)
  | ZSig ch frames => NSignal (Z.to_nat ch) (map (map dec) frames) 0
  | ZGraph ins ids cfill core =>
    NGraph (map (map fill) ins) (map Z.to_nat ids) (map fill cfill) (to_node core)
  end.
End Conv.

Fixpoint uses_float (z : znode) : bool :=
  match z with
  | ZSum | ZSumB => true
  | ZGraph _ _ _ core => uses_float core
  | _ => false
  end.

(* `==` of two f32 given by their bit patterns (the routing nodes are run on raw bit patterns) *)
Definition bits_eqb (a b : Z) : bool := F32.eqb (F32.of_bits a) (F32.of_bits b).

Definition run_case (c : zcase) : list (list Z) :=
  let '(Case nd out0 calls) := c in
  if uses_float nd then
    run_calls F32.zero F32.add F32.bits F32.eqb (to_node F32.of_bits nd)
      (map (map F32.of_bits) out0) (map (fun c => (to_bop (fst c), map (map (map F32.of_bits)) (snd c))) calls)
  else
    run_calls 0%Z Z.add (fun z => z) bits_eqb (to_node (fun z => z) nd) out0 (map (fun c => (to_bop (fst c), snd c)) calls).

Definition zll_eqb (a b : list (list Z)) : bool :=
  if list_eq_dec (list_eq_dec Z.eq_dec) a b then true else false.

Definition check (c : zcase * list (list Z)) : bool := zll_eqb (run_case (fst c)) (snd c).
