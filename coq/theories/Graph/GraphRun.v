(* Executable instance of the graph model over Z with the observation encoding of
   harness/src/bin/c09.rs; evaluated by coqc on the correspondence cases. *)
Require Import List ZArith Bool.
From Dasp Require Import Base.Res Base.ListX Graph.Dfs Graph.Process Graph.ProcessPanic Graph.NodeData.
Import ListNotations.
Local Open Scope Z_scope.

(* the instrumented node of the harness: identity, kind (0 pure / 1 counts its calls),
   call count, value, number of output buffers (0, 1, 2, ...: a node may have none).
   What an Input to the node shows: its list of buffers, each (value, identity sentinel). *)
Record znode := { ident : Z; kind : Z; count : Z; val : Z; nbufs : nat; armed : bool }.
Definition zbuf := list (Z * Z).
Definition zbufs (w : znode) : zbuf := repeat (val w, ident w) (nbufs w).

(* what a node reads from one input: the sum of the values in the buffers it shows *)
Definition bsum (b : zbuf) : Z := fold_right (fun x acc => fst x + acc) 0 b.

Fixpoint wsum (i : Z) (l : list zbuf) : Z :=
  match l with [] => 0 | b :: t => 3 * i * bsum b + wsum (i + 1) t end.

Definition znproc (w : znode) (ins : list zbuf) : znode :=
  {| ident := ident w; kind := kind w; count := count w + 1;
     val := ((ident w + 1) * 7 + 1000 * kind w * count w + wsum 1 ins) mod 65521;
     nbufs := nbufs w; armed := armed w |}.

(* an armed node panics inside Node::process on its next invocation, once: it has logged what
   it was given and disarmed itself, but neither counted the call nor written its buffers *)
Definition znfail (w : znode) (_ : list zbuf) : option znode :=
  if armed w
  then Some {| ident := ident w; kind := kind w; count := count w; val := val w; nbufs := nbufs w; armed := false |}
  else None.

Inductive zop := ZN (k b : Z) | ZE (a b : Z) | ZR (a : Z) | ZP (o : Z) | ZB | ZQ | ZA (a : Z)
  | ZC (c k : Z).   (* add a node built by NodeData::new1 (c = 1), new2 (2), boxed1 (3), boxed2 (4) *)

(* Buffer::SILENT as the harness reads it: Buffer::LEN = 64 samples whose bit pattern is 0 *)
Definition zsilent : list Z := repeat 0 64.
Definition zctor (c : Z) : ctor := match c with 1 => CNew1 | 2 => CNew2 | 3 => CBoxed1 | _ => CBoxed2 end.
Definition bits_sum (bs : list (list Z)) : Z := fold_right (fun b acc => fold_right Z.add 0 b + acc) 0 bs.

Definition n (z : Z) : nat := Z.to_nat z.
Definition zn (k : nat) : Z := Z.of_nat k.

(* the identity of an input is observable only through the sentinel in its first buffer *)
Definition enc_from (ub : nat * zbuf) : Z := match snd ub with [] => -1 | _ => zn (fst ub) end.

Definition enc_inv (i : invocation zbuf) : list Z :=
  11 :: zn (who i) :: zn (length (from i)) ::
  map (fun b => zn (length b)) (seen i) ++ map enc_from (combine (from i) (seen i)) ++ map bsum (seen i).

Definition slot_val (s : option znode) : Z :=
  match s with Some w => (match nbufs w with O => -2 | _ => val w end) | None => -1 end.
Definition slot_count (s : option znode) : Z := match s with Some w => count w | None => -1 end.
Definition slot_nbufs (s : option znode) : Z := match s with Some w => zn (nbufs w) | None => -1 end.

Definition zstate := (graph znode * fprocessor)%type.

(* one script operation: new state and its observations, or the panic that ends the case *)
Definition zstep (st : zstate) (o : zop) : res (zstate * list (list Z)) :=
  let (g, p) := st in
  match o with
  | ZN k b =>
    let (g1, i) := add_node {| ident := 0; kind := k; count := 0; val := 0; nbufs := n b; armed := false |} g in
    let g2 := set_weight g1 i {| ident := zn i; kind := k; count := 0; val := 50000 + zn i; nbufs := n b; armed := false |} in
    Ok ((g2, p), [[1; zn i]])
  | ZC c k =>
    (* the constructor decides the buffers: how many there are and what they hold is observed
       (number of buffers, sum of the bit patterns of all their samples) before the harness
       writes its sentinels into them; from then on the node is as one added by ZN *)
    let d := construct zsilent (zctor c) k in
    let nb := length (nd_buffers d) in
    let (g1, i) := add_node {| ident := 0; kind := nd_node d; count := 0; val := 0; nbufs := nb; armed := false |} g in
    let g2 := set_weight g1 i {| ident := zn i; kind := nd_node d; count := 0; val := 50000 + zn i; nbufs := nb; armed := false |} in
    Ok ((g2, p), [[1; zn i]; [19; zn nb; bits_sum (nd_buffers d)]])
  | ZE a b => let* g' := add_edge (n a) (n b) g in Ok ((g', p), [[2]])
  | ZR a => let (g', r) := remove_node (n a) g in Ok ((g', p), [[3; if r then 1 else 0]])
  | ZP o =>
    let* r := process_f zbufs znproc znfail p g (n o) in
    let '(p', g', log, fr) := r in
    Ok ((g', p'), ([10; zn (length log)] :: map enc_inv log) ++
                  match fr with Done => [] | NodePanic x => [[17; zn x]] end)
  | ZB => Ok (st, [12 :: map slot_val (slots g); 13 :: map slot_count (slots g); 16 :: map slot_nbufs (slots g)])
  | ZQ => Ok (st, [14 :: map zn (sources g); 15 :: map zn (sinks g)])
  | ZA a =>
    match weight g (n a) with
    | Some w => Ok ((set_weight g (n a) {| ident := ident w; kind := kind w; count := count w; val := val w;
                                            nbufs := nbufs w; armed := true |}, p), [[18]])
    | None => Ok (st, [[18]])
    end
  end.

Fixpoint zrun (st : zstate) (ops : list zop) : list (list Z) :=
  match ops with
  | [] => []
  | o :: t => match zstep st o with
              | Ok (st', obs) => obs ++ zrun st' t
              | Panic k => [[8; zn (panic_code k)]]
              | UB => [[-2]]
              end
  end.

(* the graph kind (Graph / StableGraph) only restricts the script (no ZR on a plain Graph) *)
Definition run_case (ops : list zop) : list (list Z) := zrun (empty_graph, new_fprocessor) ops.

Definition zll_eqb (a b : list (list Z)) : bool :=
  if list_eq_dec (list_eq_dec Z.eq_dec) a b then true else false.

Definition check (c : list zop * list (list Z)) : bool := zll_eqb (run_case (fst c)) (snd c).
