(* Executable instance of the graph model over Z with the observation encoding of
   harness/src/bin/c09.rs; evaluated by coqc on the correspondence cases. *)
Require Import List ZArith Bool.
From Dasp Require Import Base.Res Base.ListX Graph.Dfs Graph.Process.
Import ListNotations.
Local Open Scope Z_scope.

(* the instrumented node of the harness: identity, kind (0 pure / 1 counts its calls),
   call count, buffer value; an input buffer shows (value, identity sentinel) *)
Record znode := { ident : Z; kind : Z; count : Z; val : Z }.
Definition zbuf := (Z * Z)%type.
Definition zbufs (w : znode) : zbuf := (val w, ident w).

Fixpoint wsum (i : Z) (l : list zbuf) : Z :=
  match l with [] => 0 | b :: t => 3 * i * fst b + wsum (i + 1) t end.

Definition znproc (w : znode) (ins : list zbuf) : znode :=
  {| ident := ident w; kind := kind w; count := count w + 1;
     val := ((ident w + 1) * 7 + 1000 * kind w * count w + wsum 1 ins) mod 65521 |}.

Inductive zop := ZN (k : Z) | ZE (a b : Z) | ZR (a : Z) | ZP (o : Z) | ZB | ZQ.

Definition n (z : Z) : nat := Z.to_nat z.
Definition zn (k : nat) : Z := Z.of_nat k.

Definition enc_inv (i : invocation zbuf) : list Z :=
  11 :: zn (who i) :: zn (length (from i)) :: map zn (from i) ++ map fst (seen i).

Definition slot_val (s : option znode) : Z := match s with Some w => val w | None => -1 end.
Definition slot_count (s : option znode) : Z := match s with Some w => count w | None => -1 end.

Definition zstate := (graph znode * processor)%type.

(* one script operation: new state and its observations, or the panic that ends the case *)
Definition zstep (st : zstate) (o : zop) : res (zstate * list (list Z)) :=
  let (g, p) := st in
  match o with
  | ZN k =>
    let (g1, i) := add_node {| ident := 0; kind := k; count := 0; val := 0 |} g in
    let g2 := set_weight g1 i {| ident := zn i; kind := k; count := 0; val := 50000 + zn i |} in
    Ok ((g2, p), [[1; zn i]])
  | ZE a b => let* g' := add_edge (n a) (n b) g in Ok ((g', p), [[2]])
  | ZR a => let (g', r) := remove_node (n a) g in Ok ((g', p), [[3; if r then 1 else 0]])
  | ZP o =>
    let* r := process zbufs znproc p g (n o) in
    let '(p', g', log) := r in
    Ok ((g', p'), [10; zn (length log)] :: map enc_inv log)
  | ZB => Ok (st, [12 :: map slot_val (slots g); 13 :: map slot_count (slots g)])
  | ZQ => Ok (st, [14 :: map zn (sources g); 15 :: map zn (sinks g)])
  end.

Fixpoint zrun (st : zstate) (ops : list zop) : list (list Z) :=
  match ops with
  | [] => []
  | o :: t => match zstep st o with
              | Ok (st', obs) => obs ++ zrun st' t
              | Panic k => [[8; zn (panic_code k)]]
              | UB => [[-2]]
              end
  end.

(* the graph kind (Graph / StableGraph) only restricts the script (no ZR on a plain Graph) *)
Definition run_case (ops : list zop) : list (list Z) := zrun (empty_graph, new_processor) ops.

Definition zll_eqb (a b : list (list Z)) : bool :=
  if list_eq_dec (list_eq_dec Z.eq_dec) a b then true else false.

Definition check (c : list zop * list (list Z)) : bool := zll_eqb (run_case (fst c)) (snd c).
