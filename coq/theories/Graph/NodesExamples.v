(* Non-vacuity: concrete non-trivial configurations meeting the hypotheses of each
   theorem of props/C16.v, evaluated by the kernel. *)
Require Import List Arith Bool Lia.
From Dasp Require Import Base.Res Base.ListX Ring.Bounded Ring.Fixed Ring.FixedSpec
  Graph.Nodes Graph.NodesSpec Graph.NodesProofs Graph.NodesDelayProofs Graph.NodesSignalProofs
  Graph.NodesGraphProofs.
Import ListNotations.

(* samples are naturals, buffers have 4 samples *)
Definition L := 4.
Definition b (k : nat) : list nat := [k; k + 1; k + 2; k + 3].

(* Sum: three inputs with 2, 1 and 0 buffers, three outputs holding old content *)
Definition ex_inputs : list (list (list nat)) := [[b 10; b 20]; [b 100]; []].
Definition ex_output : list (list nat) := [b 7; b 8; b 9].

Example ex_wf : Forall (wfbs L) ex_inputs /\ wfbs L ex_output.
Proof. split; repeat constructor. Qed.

Example ex_sum : sum_process 0 Nat.add L ex_inputs ex_output
  = Ok [[110; 112; 114; 116]; [20; 21; 22; 23]; [0; 0; 0; 0]].
Proof. reflexivity. Qed.

Example ex_sum_spec : sum_spec 0 Nat.add L ex_inputs 3 = [[110; 112; 114; 116]; [20; 21; 22; 23]; [0; 0; 0; 0]].
Proof. reflexivity. Qed.

Example ex_sum_buffers : sum_buffers_process 0 Nat.add L ex_inputs ex_output
  = Ok [[130; 133; 136; 139]; [130; 133; 136; 139]; [130; 133; 136; 139]].
Proof. reflexivity. Qed.

(* Pass: the first input has two buffers, the third output is surplus *)
Example ex_pass : pass_process ex_inputs ex_output = Ok [b 10; b 20; b 9]
  /\ pass_process [[]; [b 1]] ex_output = Ok ex_output /\ pass_process [] ex_output = Ok ex_output.
Proof. repeat split. Qed.

(* Delay: a wrapped ring shorter than a buffer and one longer than a buffer; the second
   call has no input at all, the third feeds only channel 0 *)
Definition ex_rings : list (fixed nat) :=
  [ {| first := 2; fdata := [52; 53; 51] |}; {| first := 1; fdata := [66; 61; 62; 63; 64; 65] |} ].
Definition ex_calls : list (list (list (list nat))) := [[[b 10; b 20]]; []; [[b 30]]].

Example ex_delay_hyps : Forall InvF ex_rings /\ Forall (wf_call L) ex_calls /\ wfbs L ex_output.
Proof. split; [|split]; repeat constructor. Qed.

Example ex_delay : delay_calls ex_rings ex_calls ex_output =
  Ok ([ {| first := 1; fdata := [33; 31; 32] |}; {| first := 5; fdata := [66; 20; 21; 22; 23; 65] |} ],
      [[[51; 52; 53; 10]; [61; 62; 63; 64]; b 9];
       [[51; 52; 53; 10]; [61; 62; 63; 64]; b 9];
       [[11; 12; 13; 30]; [61; 62; 63; 64]; b 9]]).
Proof. reflexivity. Qed.

Example ex_delay_stream :
  fed_stream 0 ex_calls [[[51; 52; 53; 10]; [61; 62; 63; 64]; b 9]; [[51; 52; 53; 10]; [61; 62; 63; 64]; b 9];
                         [[11; 12; 13; 30]; [61; 62; 63; 64]; b 9]]
  = firstn 8 ([51; 52; 53] ++ b 10 ++ b 30).
Proof. reflexivity. Qed.

(* Signal node: a 3-channel counter signal scattered onto 2 outputs (of 3 buffers: the
   third is beyond min(CHANNELS, outputs)... here CHANNELS = 2 < 3 outputs), two calls *)
Definition ex_next (k : nat) : list nat * nat := ([10 * k; 10 * k + 1], S k).

Example ex_signal_hyp : forall st, length (fst (ex_next st)) = 2.
Proof. reflexivity. Qed.

Example ex_signal : signal_calls L ex_next 2 2 5 ex_output =
  Ok (13, [[[50; 60; 70; 80]; [51; 61; 71; 81]; b 9]; [[90; 100; 110; 120]; [91; 101; 111; 121]; b 9]]).
Proof. reflexivity. Qed.

(* GraphNode: an inner graph given by association lists; processing it = a Sum at node 2
   over nodes 0 and 1 *)
Definition eg := list (list (list nat)).     (* node id -> buffers *)
Definition eg_bufs (g : eg) (n : nat) := nth_error g n.
Definition eg_set (g : eg) (n : nat) (v : list (list nat)) : eg := set_nth n v g.
Definition eg_process (g : eg) (n : nat) : res eg :=
  match nth_error g n with
  | Some ob => let* o := sum_process 0 Nat.add L (firstn 2 g) ob in Ok (set_nth n o g)
  | None => Panic PExpect
  end.

Example eg_get_set_eq : forall g n v, eg_bufs g n <> None -> eg_bufs (eg_set g n v) n = Some v.
Proof.
  intros g n v H. unfold eg_bufs, eg_set in *. apply nth_error_set_nth_eq. now apply nth_error_Some.
Qed.

Example eg_get_set_neq : forall g n m v, m <> n -> eg_bufs (eg_set g n v) m = eg_bufs g m.
Proof. intros. unfold eg_bufs, eg_set. apply nth_error_set_nth_neq. congruence. Qed.

Definition eg0 : eg := [[b 1; b 2]; [b 3]; [b 4; b 5]].

Example ex_graph_hyps : NoDup [1; 0] /\ forall n, In n [1; 0] -> exists nb, eg_bufs eg0 n = Some nb /\ wfbs L nb.
Proof.
  split; [repeat constructor; cbn; intuition congruence|].
  intros n [<-|[<-|[]]]; eexists; (split; [reflexivity|repeat constructor]).
Qed.

(* input 0 goes to node 1 (one buffer: truncated), input 1 to node 0; node 2 sums them *)
Example ex_graph : graph_process eg_bufs eg_set eg_process [1; 0] 2 eg0 [[b 10; b 20]; [b 100]] ex_output
  = Ok ([[b 100; b 2]; [b 10]; [[110; 112; 114; 116]; b 2]], [[110; 112; 114; 116]; b 2; b 9]).
Proof. reflexivity. Qed.

(* the owner replaces the node's buffer list between calls: with buffers, with none, with
   buffers again.  The signal advances by L frames in EVERY call, also the one without buffers
   (the third call starts at frame 2*L: state 5 + 8 = 13) *)
Example ex_signal_v : signal_calls_v L ex_next 2 [[b 7]; []; [b 7; b 8]] 5 =
  Ok (17, [[[50; 60; 70; 80]]; []; [[130; 140; 150; 160]; [131; 141; 151; 161]]]).
Proof. reflexivity. Qed.

(* Delay: channel 1 loses its output buffer during the second call (not advanced), channel 0
   stays continuous *)
Example ex_delay_v : delay_calls_v ex_rings [([[b 10; b 20]], ex_output); ([[b 30; b 40]], [b 7]); ([[b 50; b 60]], ex_output)] =
  Ok ([ {| first := 2; fdata := [52; 53; 51] |}; {| first := 3; fdata := [61; 62; 63; 22; 23; 60] |} ],
      [[[51; 52; 53; 10]; [61; 62; 63; 64]; b 9]; [[11; 12; 13; 30]];
       [[31; 32; 33; 50]; [65; 66; 20; 21]; b 9]]).
Proof. reflexivity. Qed.
