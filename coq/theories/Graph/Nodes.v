(* Model of the built-in dasp_graph nodes, written after the source
   (dasp_graph/src/node/{sum,pass,delay,signal,graph,boxed,mod}.rs, buffer.rs,
   dasp_slice::add_in_place).  Definitions only; proofs are in NodesProofs.v.

   Samples are abstract (a type [Smp] with [zero] and [add]); a Buffer is a list of
   samples (the Rust type fixes its length to Buffer::LEN = 64, here the parameter
   [LEN]; well-formedness [length b = LEN] is a hypothesis of the theorems, and the
   length checks of copy_from_slice / add_in_place are modelled, so that the theorems
   prove they never fire).  What a node sees of one input is that input node's
   buffer list ([Input::buffers()]), so [inputs : list (list buffer)].

   Every [process] returns the new output buffers (and the new node state where the
   node has one).  Wrappers (&mut T, Box<T>, BoxedNode, BoxedNodeSend, dyn Fn, dyn
   FnMut, fn pointers: node/mod.rs:129-163, boxed.rs:45-55) only forward the call:
   they are the identity in the model. *)
Require Import List Arith Bool.
From Dasp Require Import Base.Res Base.ListX Ring.Bounded Ring.Fixed.
Import ListNotations.

(* monadic traversals in the code's iteration order *)
Section ResList.
Context {A B : Type}.

Fixpoint mapM (f : A -> res B) (l : list A) : res (list B) :=
  match l with
  | [] => Ok []
  | x :: t => let* y := f x in let* r := mapM f t in Ok (y :: r)
  end.

(* iter_mut().enumerate() *)
Fixpoint mapiM (f : nat -> A -> res B) (i : nat) (l : list A) : res (list B) :=
  match l with
  | [] => Ok []
  | x :: t => let* y := f i x in let* r := mapiM f (S i) t in Ok (y :: r)
  end.

(* `for x in l { a = f(a, x) }` *)
Fixpoint foldM (f : B -> A -> res B) (l : list A) (a : B) : res B :=
  match l with
  | [] => Ok a
  | x :: t => let* a' := f a x in foldM f t a'
  end.

End ResList.

Section Nodes.
Context {Smp : Type}.
Variable zero : Smp.
Variable add : Smp -> Smp -> Smp.
Variable LEN : nat.

Notation buffer := (list Smp).
Notation bufs := (list (list Smp)).

(* ---- buffer.rs / slices ---- *)

(* <[T]>::copy_from_slice: panics unless the lengths agree *)
Definition copy_from_slice (dst src : buffer) : res buffer :=
  if length dst =? length src then Ok src else Panic PAssert.

Definition silent : buffer := repeat zero LEN.

(* Buffer::silence: self.data.copy_from_slice(&Self::SILENT) *)
Definition silence (b : buffer) : res buffer := copy_from_slice b silent.

(* dasp_slice::zip_map_in_place_unchecked: for i in 0..a.len() { a[i] = a[i] + b[i] }, unchecked *)
Fixpoint zip_add (a b : buffer) : res buffer :=
  match a with
  | [] => Ok []
  | x :: a' => match b with
               | [] => UB
               | y :: b' => let* r := zip_add a' b' in Ok (add x y :: r)
               end
  end.

(* dasp_slice::add_in_place = zip_map_in_place(a, b, |a, b| a.add_amp(b)); for f32 frames
   add_amp is `a + b` (Signed = f32, conversions are the identity) *)
Definition add_in_place (a b : buffer) : res buffer :=
  if length a =? length b then zip_add a b else Panic PAssert.

(* `for (d, s) in dst.iter_mut().zip(src) { d.copy_from_slice(s) }` *)
Fixpoint zip_copy (dst src : bufs) : res bufs :=
  match dst, src with
  | d :: dt, s :: st => let* d' := copy_from_slice d s in let* r := zip_copy dt st in Ok (d' :: r)
  | _, _ => Ok dst
  end.

(* ---- sum.rs ---- *)

(* `if let Some(in_buffer) = input.buffers().get(channel) { add_in_place(out_buffer, in_buffer) }` *)
Definition sum_onto (c : nat) (ob : buffer) (inp : bufs) : res buffer :=
  match nth_error inp c with
  | Some ib => add_in_place ob ib
  | None => Ok ob
  end.

Definition sum_process (inputs : list bufs) (output : bufs) : res bufs :=
  let* o1 := mapM silence output in
  mapiM (fun c ob => foldM (sum_onto c) inputs ob) 0 o1.

Definition sum_buffers_process (inputs : list bufs) (output : bufs) : res bufs :=
  match output with
  | [] => Ok []
  | first :: rest =>
    let* f0 := silence first in
    let* f1 := foldM (fun acc inp => foldM add_in_place inp acc) inputs f0 in
    let* rest' := mapM (fun ob => copy_from_slice ob f1) rest in
    Ok (f1 :: rest')
  end.

(* ---- pass.rs ---- *)

Definition pass_process (inputs : list bufs) (output : bufs) : res bufs :=
  match inputs with
  | [] => Ok output
  | inp :: _ => zip_copy output inp
  end.

(* ---- delay.rs ---- *)

(* `for (i, out) in out_buf.iter_mut().enumerate() { *out = ring_buf.push(in_buf[i]); }` *)
Fixpoint delay_chan (i : nat) (r : fixed Smp) (ib ob : buffer) : res (fixed Smp * buffer) :=
  match ob with
  | [] => Ok (r, [])
  | _ :: ot =>
    let* x := get_checked ib i in
    let* p := fpush r x in
    let* q := delay_chan (S i) (fst p) ib ot in
    Ok (fst q, snd p :: snd q)
  end.

(* `self.0.iter_mut().zip(input.buffers()).zip(output)` *)
Fixpoint delay_zip (rings : list (fixed Smp)) (inb outb : bufs) : res (list (fixed Smp) * bufs) :=
  match rings, inb, outb with
  | r :: rt, ib :: it, ob :: ot =>
    let* p := delay_chan 0 r ib ob in
    let* q := delay_zip rt it ot in
    Ok (fst p :: fst q, snd p :: snd q)
  | _, _, _ => Ok (rings, outb)
  end.

Definition delay_process (rings : list (fixed Smp)) (inputs : list bufs) (output : bufs)
  : res (list (fixed Smp) * bufs) :=
  match inputs with
  | [] => Ok (rings, output)
  | inp :: _ => delay_zip rings inp output
  end.

(* consecutive process calls: the ring state and the output buffers persist *)
Fixpoint delay_calls (rings : list (fixed Smp)) (calls : list (list bufs)) (output : bufs)
  : res (list (fixed Smp) * list bufs) :=
  match calls with
  | [] => Ok (rings, [])
  | inputs :: t =>
    let* p := delay_process rings inputs output in
    let* q := delay_calls (fst p) t (snd p) in
    Ok (fst q, snd p :: snd q)
  end.

(* consecutive calls between which the owner of the graph replaces the node's buffer list
   (NodeData::buffers is a pub Vec<Buffer>: taken away, put back, resized): every call comes
   with the buffer list it runs on; only the rings persist *)
Fixpoint delay_calls_v (rings : list (fixed Smp)) (calls : list (list bufs * bufs))
  : res (list (fixed Smp) * list bufs) :=
  match calls with
  | [] => Ok (rings, [])
  | (inputs, output) :: t =>
    let* p := delay_process rings inputs output in
    let* q := delay_calls_v (fst p) t in
    Ok (fst q, snd p :: snd q)
  end.

(* ---- signal.rs ---- *)
Section SignalNode.
Context {St : Type}.
Variable next : St -> list Smp * St.     (* Signal::next: one frame (its channels), new state *)
Variable CH : nat.                     (* F::CHANNELS *)

(* `output[ch][ix] = *frame.channel_unchecked(ch)` for ch in the given list *)
Fixpoint sig_scatter (chs : list nat) (ix : nat) (frame : list Smp) (out : bufs) : res bufs :=
  match chs with
  | [] => Ok out
  | ch :: t =>
    let* x := get_unchecked frame ch in
    let* ob := get_checked out ch in
    if ix <? length ob then sig_scatter t ix frame (set_nth ch (set_nth ix x ob) out)
    else Panic PIndex
  end.

Fixpoint sig_frames (ixs : list nat) (channels : nat) (st : St) (out : bufs) : res (St * bufs) :=
  match ixs with
  | [] => Ok (st, out)
  | ix :: t =>
    let fr := next st in
    let* out' := sig_scatter (seq 0 channels) ix (fst fr) out in
    sig_frames t channels (snd fr) out'
  end.

Definition signal_process (st : St) (inputs : list bufs) (output : bufs) : res (St * bufs) :=
  let channels := Nat.min CH (length output) in
  sig_frames (seq 0 LEN) channels st output.

Fixpoint signal_calls (n : nat) (st : St) (output : bufs) : res (St * list bufs) :=
  match n with
  | O => Ok (st, [])
  | S k =>
    let* p := signal_process st [] output in
    let* q := signal_calls k (fst p) (snd p) in
    Ok (fst q, snd p :: snd q)
  end.

(* one call per given buffer list (see delay_calls_v) *)
Fixpoint signal_calls_v (outs : list bufs) (st : St) : res (St * list bufs) :=
  match outs with
  | [] => Ok (st, [])
  | output :: t =>
    let* p := signal_process st [] output in
    let* q := signal_calls_v t (fst p) in
    Ok (fst q, snd p :: snd q)
  end.

End SignalNode.

(* ---- graph.rs ---- *)
Section GraphNode.
Context {G : Type}.                         (* the inner graph with all its node states *)
Variable gbufs : G -> nat -> option bufs.   (* graph.node_weight(n).map(|w| &w.buffers) *)
Variable gset : G -> nat -> bufs -> G.      (* store into node n's buffers *)
Variable gprocess : G -> nat -> res G.      (* Processor::process(graph, node)  (C09) *)

(* `for (input, &in_n) in inputs.iter().zip(input_nodes)`: copy input buffers into the
   designated node's buffers; a missing node is the `.expect(..)` panic *)
Fixpoint graph_copy_in (g : G) (inputs : list bufs) (input_nodes : list nat) : res G :=
  match inputs, input_nodes with
  | inp :: it, n :: nt =>
    match gbufs g n with
    | None => Panic PExpect
    | Some nb => let* nb' := zip_copy nb inp in graph_copy_in (gset g n nb') it nt
    end
  | _, _ => Ok g
  end.

Definition graph_process (input_nodes : list nat) (output_node : nat)
  (g : G) (inputs : list bufs) (output : bufs) : res (G * bufs) :=
  let* g1 := graph_copy_in g inputs input_nodes in
  let* g2 := gprocess g1 output_node in
  match gbufs g2 output_node with
  | None => Panic PExpect
  | Some ob => let* out' := zip_copy output ob in Ok (g2, out')
  end.

End GraphNode.

End Nodes.
