(* Facts about the Buffer operations of Graph/BufferOps.v: Buffer::eq is sample-wise IEEE
   equality over equal lengths (so: not reflexive on a buffer holding a NaN, blind to the sign of
   zero), Buffer::default is the silent buffer, and resizing the buffer list with either
   keeps the old buffers and appends silent ones. *)
Require Import Floats.SpecFloat.
Require Import List Arith Bool Lia ZArith.
From Flocq Require Import Core BinarySingleNaN.
From Dasp Require Import Base.Res Base.ListX Base.Float Graph.BufferOps.
Import ListNotations.
Local Open Scope nat_scope.

Section Eq.
Context {Smp : Type}.
Variable eqs : Smp -> Smp -> bool.

Lemma slice_eq_spec (a b : list Smp) :
  slice_eq eqs a b = true <->
  length a = length b /\
  forall i x y, nth_error a i = Some x -> nth_error b i = Some y -> eqs x y = true.
Proof.
  revert b. induction a as [|x a IH]; intros [|y b]; cbn [slice_eq length].
  - split; [intros _; split; [reflexivity|]|reflexivity]. intros [|i] ? ? H; discriminate H.
  - split; [discriminate|intros [H _]; discriminate H].
  - split; [discriminate|intros [H _]; discriminate H].
  - rewrite andb_true_iff, IH. split.
    + intros [Hxy [Hl Hr]]. split; [now rewrite Hl|].
      intros [|i] x' y'; cbn [nth_error].
      * now intros [= <-] [= <-].
      * apply Hr.
    + intros [Hl Hr]. split; [exact (Hr 0 x y eq_refl eq_refl)|]. split; [now injection Hl|].
      intros i x' y' Hx Hy. exact (Hr (S i) x' y' Hx Hy).
Qed.

(* one differing pair anywhere makes the buffers differ *)
Lemma slice_eq_differs (a b : list Smp) i x y :
  nth_error a i = Some x -> nth_error b i = Some y -> eqs x y = false -> slice_eq eqs a b = false.
Proof.
  intros Hx Hy Hne. destruct (slice_eq eqs a b) eqn:E; [|reflexivity].
  apply slice_eq_spec in E. destruct E as [_ E]. rewrite (E i x y Hx Hy) in Hne. discriminate.
Qed.

(* compared with itself a buffer is equal exactly when every sample equals itself *)
Lemma slice_eq_self (a : list Smp) : slice_eq eqs a a = forallb (fun x => eqs x x) a.
Proof. induction a as [|x a IH]; [reflexivity|]. cbn [slice_eq forallb]. now rewrite IH. Qed.

End Eq.

(* f32: x == x fails exactly for NaN *)
Lemma f32_eqb_self (x : F32.t) : F32.eqb x x = negb (F32.is_nan x).
Proof.
  unfold F32.eqb, F32.is_nan, geq, gcmp, gis_nan, Bcompare.
  destruct x as [s|s| |s m e H]; cbn; try reflexivity.
  - now destruct s.
  - destruct s; rewrite Z.compare_refl, Pos.compare_cont_refl; reflexivity.
Qed.

Lemma f32_buffer_eq_self (a : list F32.t) :
  buffer_eq F32.eqb a a = negb (existsb F32.is_nan a).
Proof.
  unfold buffer_eq. rewrite slice_eq_self. induction a as [|x a IH]; [reflexivity|].
  cbn [forallb existsb]. rewrite IH, f32_eqb_self. now rewrite negb_orb.
Qed.

(* +0.0 == -0.0 although the bit patterns differ *)
Lemma f32_zero_signs : F32.eqb (B754_zero false) (B754_zero true) = true /\
                       F32.bits (B754_zero false) <> F32.bits (B754_zero true).
Proof. split; [reflexivity|discriminate]. Qed.

(* resizing the buffer list *)
Lemma vec_resize_spec {A} (n : nat) (v : A) (l : list A) :
  length (vec_resize n v l) = n /\
  (forall i, i < n -> i < length l -> nth_error (vec_resize n v l) i = nth_error l i) /\
  (forall i, i < n -> length l <= i -> nth_error (vec_resize n v l) i = Some v).
Proof.
  unfold vec_resize. split; [|split].
  - rewrite app_length, firstn_length, repeat_length. lia.
  - intros i Hn Hl. rewrite nth_error_app1 by (rewrite firstn_length; lia).
    rewrite nth_error_firstn. destruct (Nat.ltb_spec i n); [reflexivity|lia].
  - intros i Hn Hl. rewrite nth_error_app2 by (rewrite firstn_length; lia).
    rewrite firstn_length, Nat.min_r by lia. apply nth_error_repeat. lia.
Qed.

Lemma buffer_default_silent {Smp} (zero : Smp) (LEN : nat) :
  buffer_default zero LEN = repeat zero LEN /\ length (buffer_default zero LEN) = LEN /\
  forall x, In x (buffer_default zero LEN) -> x = zero.
Proof.
  unfold buffer_default, buffer_silent. split; [reflexivity|]. split; [apply repeat_length|].
  intros x. apply repeat_spec.
Qed.
