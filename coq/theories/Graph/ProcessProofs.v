(* Proofs about dasp_graph::process (Graph/Process.v) against the edge-level specification
   (Graph/ProcessSpec.v). *)
Require Import List Arith Lia Bool Relations.
From Dasp Require Import Base.Res Base.ListX Graph.Dfs Graph.Process Graph.ProcessSpec Graph.DfsProofs.
Import ListNotations.

(* ---------- closures ---------- *)
Lemma rt_mono {A} (R1 R2 : A -> A -> Prop) a b :
  (forall x y, R1 x y -> R2 x y \/ x = y) -> clos_refl_trans A R1 a b -> clos_refl_trans A R2 a b.
Proof.
  intros H R. induction R as [x y Hxy|x|x y z _ IH1 _ IH2].
  - destruct (H x y Hxy) as [H2| ->]; [now apply rt_step|apply rt_refl].
  - apply rt_refl.
  - eapply rt_trans; eauto.
Qed.

Lemma rt_flip {A} (R : A -> A -> Prop) a b :
  clos_refl_trans A (fun x y => R y x) a b -> clos_refl_trans A R b a.
Proof.
  intros H. induction H as [x y Hxy|x|x y z _ IH1 _ IH2].
  - now apply rt_step.
  - apply rt_refl.
  - eapply rt_trans; eauto.
Qed.

Lemma t_mono {A} (R1 R2 : A -> A -> Prop) a b :
  (forall x y, R1 x y -> R2 x y) -> clos_trans A R1 a b -> clos_trans A R2 a b.
Proof.
  intros H R. induction R as [x y Hxy|x y z _ IH1 _ IH2].
  - apply t_step; auto.
  - eapply t_trans; eauto.
Qed.

Lemma t_flip {A} (R : A -> A -> Prop) a b :
  clos_trans A (fun x y => R y x) a b -> clos_trans A R b a.
Proof.
  intros H. induction H as [x y Hxy|x y z _ IH1 _ IH2].
  - now apply t_step.
  - eapply t_trans; eauto.
Qed.

Lemma filter_none {A} (f : A -> bool) l : (forall x, In x l -> f x = false) -> filter f l = [].
Proof.
  induction l as [|a l IH]; intros H; simpl; [reflexivity|].
  rewrite (H a (or_introl eq_refl)). apply IH. intros x Hx. apply H. now right.
Qed.

Section P.
Context {W B : Type}.
Variable bufs : W -> B.
Variable nproc : W -> list B -> W.

Notation graph := (graph W).
Notation process_loop := (process_loop bufs nproc).
Notation process := (process bufs nproc).
Notation spec_run := (spec_run bufs nproc).
Notation invoke := (invoke bufs nproc).
Notation inputs_of := (inputs_of bufs).
Notation inv_rec := (inv_rec bufs).

(* ---------- the container ---------- *)
Lemma live_weight (g : graph) n : live g n = true <-> exists w, weight g n = Some w.
Proof. unfold live. destruct (weight g n); split; eauto; try discriminate. intros [w H]; discriminate. Qed.

Lemma live_lt (g : graph) n : live g n = true -> n < length (slots g).
Proof.
  unfold live, weight. destruct (nth_error (slots g) n) eqn:E; [|discriminate].
  intros _. apply nth_error_Some. congruence.
Qed.

Lemma in_node_identifiers (g : graph) n : In n (node_identifiers g) <-> live g n = true.
Proof.
  unfold node_identifiers. rewrite filter_In, in_seq. split; [tauto|].
  intros H. split; [|assumption]. apply live_lt in H. lia.
Qed.

Lemma bound_from_pos (l : list (option W)) : forall i, bound_from i l = 0 \/ i < bound_from i l.
Proof.
  induction l as [|s t IH]; intros i; simpl; [now left|].
  destruct (IH (S i)) as [H|H].
  - rewrite H. simpl. destruct s; [right; lia|now left].
  - destruct (Nat.eqb_spec (bound_from (S i) t) 0); [lia|]. right. lia.
Qed.

Lemma live_bound_aux (l : list (option W)) : forall i j w,
  nth_error l j = Some (Some w) -> i + j < bound_from i l.
Proof.
  induction l as [|s t IH]; intros i j w H; [destruct j; discriminate|].
  simpl. destruct j as [|j]; simpl in H.
  - injection H as ->. destruct (bound_from_pos t (S i)) as [H0|H0].
    + rewrite H0. simpl. lia.
    + destruct (Nat.eqb_spec (bound_from (S i) t) 0); lia.
  - specialize (IH (S i) j w H).
    destruct (Nat.eqb_spec (bound_from (S i) t) 0); lia.
Qed.

Lemma live_bound (g : graph) n : live g n = true -> n < node_bound g.
Proof.
  unfold live, weight, node_bound. destruct (nth_error (slots g) n) as [[w|]|] eqn:E; try discriminate.
  intros _. apply (live_bound_aux _ 0 n w E).
Qed.

Lemma in_ins (g : graph) u v : In u (ins g v) <-> pedge g u v.
Proof.
  unfold ins, pedge, edge. rewrite in_map_iff. split.
  - intros [[a b] [<- H]]. apply filter_In in H. destruct H as [H1 H2]. apply in_rev in H1.
    apply andb_true_iff in H2. destruct H2 as [H2 H3]. simpl in *.
    apply Nat.eqb_eq in H2. apply negb_true_iff, Nat.eqb_neq in H3. subst. auto.
  - intros [H1 H2]. exists (u, v). split; [reflexivity|]. apply filter_In. split; [now apply -> in_rev|].
    simpl. rewrite Nat.eqb_refl. simpl. apply negb_true_iff, Nat.eqb_neq. exact H2.
Qed.

Lemma ins_eq (l : list (nat * nat)) v :
  filter (fun u => negb (u =? v)) (map fst (filter (fun e => snd e =? v) l))
  = map fst (filter (fun e => (snd e =? v) && negb (fst e =? v)) l).
Proof.
  induction l as [|a l IH]; simpl; [reflexivity|].
  destruct (snd a =? v); simpl; [|exact IH].
  destruct (fst a =? v); simpl; congruence.
Qed.

Lemma ins_neighbors (g : graph) v : wf g ->
  filter (fun u => negb (u =? v)) (neighbors_in g v) = ins g v.
Proof.
  intros Hwf. unfold neighbors_in. destruct (live g v) eqn:Hl.
  - apply ins_eq.
  - simpl. unfold ins. rewrite filter_none; [reflexivity|].
    intros [a b] H. apply in_rev in H. simpl.
    destruct (Nat.eqb_spec b v) as [->|]; [|reflexivity].
    destruct (Hwf a v H) as [_ H2]. congruence.
Qed.

Definition same_shape (g g' : graph) : Prop :=
  edges g' = edges g /\ (forall n, live g' n = live g n) /\ length (slots g') = length (slots g).

Lemma shape_refl g : same_shape g g.
Proof. repeat split. Qed.

Lemma weight_set_weight (g : graph) n w m : n < length (slots g) ->
  weight (set_weight g n w) m = if n =? m then Some w else weight g m.
Proof.
  intros H. unfold weight, set_weight; cbn [slots]. rewrite nth_error_set_nth.
  apply Nat.ltb_lt in H. rewrite H, andb_true_r. destruct (n =? m); reflexivity.
Qed.

Lemma shape_set_weight (g0 g : graph) n w : same_shape g0 g -> live g n = true ->
  same_shape g0 (set_weight g n w).
Proof.
  intros (He & Hl & Hn) Hn1. split; [exact He|]. split.
  - intros m. rewrite <- Hl. unfold live at 1. rewrite weight_set_weight by now apply live_lt.
    destruct (Nat.eqb_spec n m) as [<-|]; [now rewrite Hn1|reflexivity].
  - cbn [set_weight slots]. now rewrite set_nth_length.
Qed.

Lemma shape_nbrs (g g' : graph) : same_shape g g' -> forall x, neighbors_in g' x = neighbors_in g x.
Proof. intros (He & Hl & _) x. unfold neighbors_in. now rewrite He, Hl. Qed.

Lemma shape_ins (g g' : graph) : same_shape g g' -> forall x, ins g' x = ins g x.
Proof. intros (He & _) x. unfold ins. now rewrite He. Qed.

Lemma shape_wf (g g' : graph) : same_shape g g' -> wf g -> wf g'.
Proof. intros (He & Hl & _) H u v. unfold edge. rewrite He, !Hl. apply H. Qed.

(* ---------- collecting the inputs ---------- *)
Lemma collect_ok (g : graph) n l : (forall u, In u l -> u <> n -> live g u = true) ->
  collect bufs g n l =
  Ok (flat_map (fun u => match weight g u with Some w => [(u, bufs w)] | None => [] end)
               (filter (fun u => negb (u =? n)) l)).
Proof.
  induction l as [|u t IH]; intros H; simpl; [reflexivity|].
  rewrite (Nat.eqb_sym u n). destruct (Nat.eqb_spec n u) as [->|Hne]; simpl.
  - apply IH. intros x Hx. apply H. now right.
  - assert (Hl : live g u = true) by (apply H; [now left|congruence]).
    apply live_weight in Hl. destruct Hl as [w Hw]. rewrite Hw.
    rewrite IH by (intros x Hx; apply H; now right). reflexivity.
Qed.

Lemma collect_inputs (g : graph) n : wf g ->
  collect bufs g n (neighbors_in g n) = Ok (inputs_of g n).
Proof.
  intros Hwf. rewrite collect_ok.
  - unfold ProcessSpec.inputs_of. now rewrite ins_neighbors.
  - intros u Hu Hne. assert (Hi : In u (ins g n)).
    { rewrite <- ins_neighbors by assumption. apply filter_In. split; [assumption|].
      apply negb_true_iff, Nat.eqb_neq. exact Hne. }
    apply in_ins in Hi. destruct Hi as [He _]. apply (Hwf _ _ He).
Qed.

(* ---------- reachability in the traversal = upstream ---------- *)
Lemma reach_upstream (g : graph) out x : reach (ins g) out x <-> upstream g out x.
Proof.
  unfold reach, upstream, E. split; intros H.
  - apply rt_flip. eapply rt_mono; [|exact H]. intros a b Hab. cbv beta in Hab.
    apply in_ins in Hab. left. apply Hab.
  - apply (rt_flip (fun a b => In b (ins g a))). cbv beta.
    eapply rt_mono; [|exact H]. intros a b Hab.
    destruct (Nat.eq_dec a b) as [->|Hne]; [now right|]. left. apply in_ins. now split.
Qed.

Lemma acyclic_of_upstream (g : graph) out : acyclic_upstream g out -> acyclic (ins g) out.
Proof.
  intros H x Hx Ht. apply reach_upstream in Hx. apply (H x Hx).
  apply t_flip. eapply t_mono; [|exact Ht]. intros a b Hab. unfold E in Hab. now apply in_ins in Hab.
Qed.

Lemma upstream_live (g : graph) out x : wf g -> live g out = true -> upstream g out x -> live g x = true.
Proof.
  intros Hwf Ho H. unfold upstream in H. apply clos_rt_rt1n in H.
  induction H as [|a b c Hab _ _]; [assumption|]. apply (Hwf _ _ Hab).
Qed.

(* ---------- the specification run ---------- *)
Lemma spec_run_who (g : graph) order : map (@who B) (snd (spec_run g order)) = order.
Proof. revert g. induction order as [|v t IH]; intros g; simpl; [reflexivity|]. now rewrite IH. Qed.

Lemma spec_run_app (g : graph) o1 o2 :
  spec_run g (o1 ++ o2) =
  (fst (spec_run (fst (spec_run g o1)) o2), snd (spec_run g o1) ++ snd (spec_run (fst (spec_run g o1)) o2)).
Proof.
  revert g. induction o1 as [|v t IH]; intros g; simpl.
  - now destruct (spec_run g o2).
  - rewrite IH. reflexivity.
Qed.

(* ---------- the process loop ---------- *)
Section Loop.
Variable g0 : graph.
Variable out c F : nat.
Hypothesis Hwf : wf g0.
Hypothesis Hcap : forall x, live g0 x = true -> x < c.

Let succ0 := ins g0.
Let univ := node_identifiers g0.

Lemma univ_closed : forall x y, In x univ -> In y (succ0 x) -> In y univ.
Proof.
  intros x y _ Hy. apply in_node_identifiers. apply in_ins in Hy. destruct Hy as [He _].
  apply (Hwf _ _ He).
Qed.

Lemma univ_cap : forall x, In x univ -> x < c.
Proof. intros x Hx. apply Hcap. now apply in_node_identifiers. Qed.

Lemma next_shape (g : graph) fuel s : same_shape g0 g ->
  next (neighbors_in g) fuel c s = next succ0 fuel c s.
Proof.
  intros Hs. apply next_ext_step. intros s0. apply step_core_selfloop. intros x.
  unfold succ0. rewrite (shape_nbrs _ _ Hs). symmetry. now apply ins_neighbors.
Qed.

Lemma loop_spec : forall k p g log,
  same_shape g0 g -> cap p = c -> live g0 out = true ->
  Inv succ0 out (dfs p) -> in_univ univ (dfs p) ->
  mu succ0 univ (dfs p) < k -> mu succ0 univ (dfs p) < F ->
  exists p' order,
    process_loop k F p g log = Ok (p', fst (spec_run g order), rev log ++ snd (spec_run g order)) /\
    cap p' = c /\ stack (dfs p') = [] /\ Inv succ0 out (dfs p') /\
    rev (fin (dfs p')) = rev (fin (dfs p)) ++ order /\
    (acyclic succ0 out -> ordered succ0 (fin (dfs p)) -> ordered succ0 (fin (dfs p'))).
Proof.
  induction k as [|k IH]; intros p g log Hs Hc Hout I HU Hk HF; [lia|].
  cbn [Process.process_loop]. rewrite Hc, (next_shape g F (dfs p) Hs).
  destruct (next_ok succ0 out univ univ_closed c univ_cap F (dfs p) I HU HF) as (s' & r & Hn & I' & HU' & Hr).
  rewrite Hn. cbn [bind fst snd].
  destruct r as [x|].
  - destruct Hr as (Hfin & Hnin & Hmu).
    assert (Hlx0 : live g0 x = true).
    { eapply upstream_live; [exact Hwf|exact Hout|]. apply reach_upstream.
      apply (i_reach _ _ _ I'). right. apply (i_fin_disc _ _ _ I'). rewrite Hfin. now left. }
    assert (Hlx : live g x = true) by (destruct Hs as (_ & Hl & _); now rewrite Hl).
    destruct (proj1 (live_weight g x) Hlx) as [w Hw]. rewrite Hw.
    rewrite (collect_inputs g x (shape_wf _ _ Hs Hwf)). cbn [bind].
    set (g1 := set_weight g x (nproc w (map snd (inputs_of g x)))).
    assert (Hg1 : g1 = invoke g x) by (unfold ProcessSpec.invoke; now rewrite Hw).
    destruct (IH {| dfs := s'; cap := c |} g1
                 ({| who := x; from := map fst (inputs_of g x); seen := map snd (inputs_of g x) |} :: log))
      as (p' & order & Hrun & Hc' & Hst & I'' & Hfin' & Hord); cbn [dfs cap]; try assumption; try lia.
    { now apply shape_set_weight. }
    exists p', (x :: order). split; [|split; [|split; [|split; [|split]]]]; try assumption.
    + rewrite Hrun. cbn [ProcessSpec.spec_run fst snd]. rewrite <- Hg1.
      f_equal. f_equal. cbn [rev]. rewrite <- app_assoc. reflexivity.
    + cbn [dfs] in Hfin'. rewrite Hfin', Hfin. cbn [rev]. rewrite <- app_assoc. reflexivity.
    + intros Hac Ho. apply Hord; [assumption|]. cbn [dfs].
      eapply next_ordered; [exact Hac|exact I|exact Ho|exact Hn].
  - destruct Hr as (Hfin & Hst & Hmu).
    exists {| dfs := s'; cap := c |}, []. cbn [ProcessSpec.spec_run fst snd dfs cap].
    rewrite !app_nil_r, Hfin. auto 10.
Qed.

End Loop.

(* fuel: mu of the initial state is below fuel_of *)
Lemma wsum_le succ1 succ2 l : (forall u, length (succ1 u) <= length (succ2 u)) -> wsum succ1 l <= wsum succ2 l.
Proof. intros H. induction l as [|a l IH]; simpl; [lia|]. specialize (H a). lia. Qed.

Lemma ins_length_le (g : graph) u : wf g -> length (ins g u) <= length (neighbors_in g u).
Proof. intros H. rewrite <- ins_neighbors by assumption. apply filter_len_le. Qed.

Lemma fuel_enough (g : graph) out : wf g ->
  mu (ins g) (node_identifiers g) (init out) < fuel_of g.
Proof.
  intros Hwf. unfold fuel_of.
  change (fold_right (fun u acc => S (length (neighbors_in g u)) + acc) 0 (seq 0 (length (slots g))))
    with (wsum (neighbors_in g) (seq 0 (length (slots g)))).
  unfold mu, init, white; cbn [stack disc length].
  pose proof (wsum_filter_le (ins g) (fun u => negb (mem u [])) (node_identifiers g)) as H1.
  pose proof (wsum_filter_le (ins g) (live g) (seq 0 (length (slots g)))) as H2.
  pose proof (wsum_le (ins g) (neighbors_in g) (seq 0 (length (slots g))) (fun u => ins_length_le g u Hwf)) as H3.
  unfold node_identifiers in *. lia.
Qed.

(* ---------- process: everything at once ---------- *)
Theorem process_spec p (g : graph) out : wf g -> live g out = true ->
  exists p' order,
    process p g out = Ok (p', fst (spec_run g order), snd (spec_run g order)) /\
    cap p' = Nat.max (cap p) (node_bound g) /\ stack (dfs p') = [] /\ order = rev (fin (dfs p')) /\
    (forall v, In v order <-> upstream g out v) /\ NoDup order /\
    (acyclic_upstream g out ->
     forall A v B, order = A ++ v :: B -> forall u, edge g u v -> u <> v -> In u A).
Proof.
  intros Hwf Hout. unfold Process.process.
  assert (Hcap : forall x, live g x = true -> x < Nat.max (cap p) (node_bound g)).
  { intros x Hx. apply live_bound in Hx. lia. }
  pose proof (fuel_enough g out Hwf) as Hmu.
  destruct (loop_spec g out _ (fuel_of g) Hwf Hcap (fuel_of g) (move_to out (reset p g)) g [])
    as (p' & order & Hrun & Hc' & Hst & I' & Hfin & Hord).
  - apply shape_refl.
  - reflexivity.
  - exact Hout.
  - apply inv_init.
  - intros x [<-|[]]. now apply in_node_identifiers.
  - exact Hmu.
  - exact Hmu.
  - cbn in Hfin. exists p', order. split; [exact Hrun|]. split; [exact Hc'|]. split; [exact Hst|].
    split; [now symmetry|]. split; [|split].
    + intros v. rewrite <- Hfin, <- in_rev, <- reach_upstream.
      apply (done_visits_exactly_reachable _ _ _ I' Hst).
    + rewrite <- Hfin. apply NoDup_rev. apply (i_nodup _ _ _ I').
    + intros Hac A v B0 Heq u He Hne. rewrite <- Hfin in Heq.
      apply (ordered_rev (ins g) (fin (dfs p'))) with (v := v) (B := B0).
      * apply Hord; [now apply acyclic_of_upstream|apply ordered_nil].
      * exact Heq.
      * apply in_ins. now split.
Qed.

End P.
