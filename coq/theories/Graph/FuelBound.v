(* C09: the fuel process passes to its loops is at most 2 + |V| + |E|. *)
Require Import List Arith Lia Bool.
From Dasp Require Import Base.Res Base.ListX Graph.Dfs Graph.Process Graph.DfsProofs.
Import ListNotations.

Fixpoint sumf (f : nat -> nat) (l : list nat) : nat := match l with [] => 0 | u :: t => f u + sumf f t end.

Lemma sumf_add f1 f2 l : sumf (fun u => f1 u + f2 u) l = sumf f1 l + sumf f2 l.
Proof. induction l as [|a l IH]; simpl; [reflexivity|]. rewrite IH. lia. Qed.

Lemma sumf_le f1 f2 l : (forall u, f1 u <= f2 u) -> sumf f1 l <= sumf f2 l.
Proof. intros H. induction l as [|a l IH]; simpl; [lia|]. specialize (H a). lia. Qed.

Lemma sumf_indicator x l : NoDup l -> sumf (fun u => if x =? u then 1 else 0) l <= 1.
Proof.
  induction 1 as [|a l Hn _ IH]; simpl; [lia|].
  destruct (Nat.eqb_spec x a) as [->|]; [|lia].
  assert (E : sumf (fun u => if a =? u then 1 else 0) l = 0).
  { clear IH. induction l as [|b l IH]; simpl; [reflexivity|].
    destruct (Nat.eqb_spec a b) as [->|]; [exfalso; apply Hn; now left|].
    apply IH. intros H. apply Hn. now right. }
  lia.
Qed.

Lemma sumf_targets (E : list (nat * nat)) l : NoDup l ->
  sumf (fun u => length (filter (fun e => snd e =? u) E)) l <= length E.
Proof.
  intros Hn. induction E as [|e t IH]; simpl.
  - clear Hn. induction l as [|a l IHl]; simpl; lia.
  - assert (H : sumf (fun u => length (if snd e =? u then e :: filter (fun e0 => snd e0 =? u) t
                                       else filter (fun e0 => snd e0 =? u) t)) l
              = sumf (fun u => (if snd e =? u then 1 else 0) + length (filter (fun e0 => snd e0 =? u) t)) l).
    { clear. induction l as [|a l IH]; simpl; [reflexivity|]. rewrite IH. destruct (snd e =? a); reflexivity. }
    rewrite H, sumf_add. pose proof (sumf_indicator (snd e) l Hn). lia.
Qed.

Theorem fuel_bound {W} (g : graph W) : fuel_of g <= 2 + length (slots g) + length (edges g).
Proof.
  unfold fuel_of.
  assert (H : forall l, fold_right (fun u acc => S (length (neighbors_in g u)) + acc) 0 l
                        = length l + sumf (fun u => length (neighbors_in g u)) l).
  { induction l as [|a l IH]; [reflexivity|]. cbn [fold_right sumf length]. rewrite IH. lia. }
  rewrite H, seq_length.
  assert (H2 : sumf (fun u => length (neighbors_in g u)) (seq 0 (length (slots g))) <= length (edges g)).
  { rewrite <- (rev_length (edges g)).
    eapply Nat.le_trans; [|apply (sumf_targets (rev (edges g)) (seq 0 (length (slots g)))), seq_NoDup].
    apply sumf_le. intros u. unfold neighbors_in. destruct (live g u); [|simpl; lia].
    now rewrite map_length. }
  lia.
Qed.
