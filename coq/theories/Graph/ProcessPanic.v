(* dasp_graph::process when a node may PANIC inside Node::process and the host catches the
   unwinding (catch_unwind) and keeps using the same Processor.  Definitions only.

   Same loops as Graph/Process.v, plus
     - the processor's `inputs` vector as state: the nodes its Inputs point to.  It is cleared
       BEFORE every node's collection (`processor.inputs.clear()` precedes the `for in_n` loop),
       pushed to during the collection, and read by the node through the pointers at call time;
     - [nfail w ins = Some w']: this invocation of the node panics, leaving the node as w'.
       The call then unwinds out of `process`: the traversal state and the inputs vector stay
       as they are at that point, the nodes processed before keep their new buffers. *)
Require Import List Arith Bool.
From Dasp Require Import Base.Res Base.ListX Graph.Dfs Graph.Process.
Import ListNotations.

Section PF.
Context {W B : Type}.
Variable bufs : W -> B.
Variable nproc : W -> list B -> W.
Variable nfail : W -> list B -> option W.

Record fprocessor := { base : processor; inputs : list nat }.

Definition new_fprocessor : fprocessor := {| base := new_processor; inputs := [] |}.

(* how a process call ended: it returned, or node n panicked and the unwinding was caught *)
Inductive fresult := Done | NodePanic (n : nat).

(* inputs.clear() *)
Definition clear (l : list nat) : list nat := [].

(* the `for in_n in neighbors_directed(n, Incoming)` loop pushing onto the inputs vector *)
Fixpoint collect_ids (g : graph W) (n : nat) (l : list nat) (acc : list nat) : res (list nat) :=
  match l with
  | [] => Ok acc
  | u :: t =>
    if n =? u then collect_ids g n t acc
    else match weight g u with
         | None => Panic PExpect
         | Some _ => collect_ids g n t (acc ++ [u])
         end
  end.

(* what a node reads through its Inputs: the buffers of the nodes they point to, now;
   a pointer to a node that is gone would be dangling *)
Fixpoint deref (g : graph W) (ids : list nat) : res (list B) :=
  match ids with
  | [] => Ok []
  | u :: t => match weight g u with
              | None => UB
              | Some w => let* r := deref g t in Ok (bufs w :: r)
              end
  end.

Fixpoint process_loop_f (fuel F : nat) (p : fprocessor) (g : graph W) (log : list (invocation B))
  : res (fprocessor * graph W * list (invocation B) * fresult) :=
  match fuel with
  | O => UB
  | S k =>
    let* sr := next (neighbors_in g) F (cap (base p)) (dfs (base p)) in
    let b' := {| dfs := fst sr; cap := cap (base p) |} in
    match snd sr with
    | None => Ok ({| base := b'; inputs := inputs p |}, g, rev log, Done)
    | Some n =>
      match weight g n with
      | None => Panic PExpect
      | Some w =>
        let* ids := collect_ids g n (neighbors_in g n) (clear (inputs p)) in
        let p' := {| base := b'; inputs := ids |} in
        let* ins := deref g ids in
        let rec := {| who := n; from := ids; seen := ins |} in
        match nfail w ins with
        | Some w' => Ok (p', set_weight g n w', rev (rec :: log), NodePanic n)
        | None => process_loop_f k F p' (set_weight g n (nproc w ins)) (rec :: log)
        end
      end
    end
  end.

Definition process_f (p : fprocessor) (g : graph W) (out : nat)
  : res (fprocessor * graph W * list (invocation B) * fresult) :=
  process_loop_f (fuel_of g) (fuel_of g)
                 {| base := move_to out (reset (base p) g); inputs := inputs p |} g [].

(* a call's result without the processor *)
Definition foutcome (r : res (fprocessor * graph W * list (invocation B) * fresult))
  : res (graph W * list (invocation B) * fresult) :=
  rmap (fun x => (snd (fst (fst x)), snd (fst x), snd x)) r.

End PF.
