(* Model of `NodeData<T> { buffers: Vec<Buffer>, node: T }` and its constructors
   (dasp_graph/src/lib.rs:259-301), written after the source.  Definitions only.

     new(node, buffers)    = NodeData { node, buffers }
     new1(node)            = new(node, vec![Buffer::SILENT])
     new2(node)            = new(node, vec![Buffer::SILENT; 2])
     boxed(node, buffers)  = new(BoxedNode(Box::new(node)), buffers)
     boxed1(node)          = boxed(node, vec![Buffer::SILENT])
     boxed2(node)          = boxed(node, vec![Buffer::SILENT, Buffer::SILENT])

   [box] is what boxing does to the node type (the identity in every instance of the model:
   BoxedNode forwards Node::process, property C16); [silent] is Buffer::SILENT. *)
Require Import List.
Import ListNotations.

Record node_data (Buf N : Type) := mk_node_data { nd_node : N; nd_buffers : list Buf }.
Arguments mk_node_data {Buf N}. Arguments nd_node {Buf N}. Arguments nd_buffers {Buf N}.

Definition nd_new {Buf N} (node : N) (buffers : list Buf) : node_data Buf N :=
  mk_node_data node buffers.
Definition nd_new1 {Buf N} (silent : Buf) (node : N) : node_data Buf N := nd_new node [silent].
Definition nd_new2 {Buf N} (silent : Buf) (node : N) : node_data Buf N := nd_new node (repeat silent 2).
Definition nd_boxed {Buf T U} (box : T -> U) (node : T) (buffers : list Buf) : node_data Buf U :=
  nd_new (box node) buffers.
Definition nd_boxed1 {Buf T U} (silent : Buf) (box : T -> U) (node : T) : node_data Buf U :=
  nd_boxed box node [silent].
Definition nd_boxed2 {Buf T U} (silent : Buf) (box : T -> U) (node : T) : node_data Buf U :=
  nd_boxed box node [silent; silent].

(* the constructor a `C c k` operation of the correspondence script stands for *)
Inductive ctor := CNew1 | CNew2 | CBoxed1 | CBoxed2.

Definition construct {Buf T} (silent : Buf) (c : ctor) (node : T) : node_data Buf T :=
  match c with
  | CNew1 => nd_new1 silent node
  | CNew2 => nd_new2 silent node
  | CBoxed1 => nd_boxed1 silent (fun x => x) node
  | CBoxed2 => nd_boxed2 silent (fun x => x) node
  end.

(* number of buffers the constructor's documentation promises *)
Definition ctor_buffers (c : ctor) : nat :=
  match c with CNew1 | CBoxed1 => 1 | CNew2 | CBoxed2 => 2 end.
