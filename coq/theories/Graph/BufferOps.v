(* Model of the remaining public operations of `Buffer` (dasp_graph/src/buffer.rs) and of the
   owner's operations on `NodeData::buffers: Vec<Buffer>` that use them, written after the
   source.  Definitions only.

     impl Default for Buffer   { fn default() -> Self { Self::SILENT } }
     impl PartialEq for Buffer { fn eq(&self, other) -> bool { &self[..] == &other[..] } }

   `[f32] == [f32]` is core's slice equality: equal lengths and `==` of every pair of samples,
   where `==` on f32 is the IEEE comparison ([eqs]; NaN differs from itself, +0 == -0). *)
Require Import List Bool.
Import ListNotations.

Section BufferOps.
Context {Smp : Type}.
Variable eqs : Smp -> Smp -> bool.

Fixpoint slice_eq (a b : list Smp) : bool :=
  match a, b with
  | [], [] => true
  | x :: a', y :: b' => eqs x y && slice_eq a' b'
  | _, _ => false
  end.

(* Buffer::eq *)
Definition buffer_eq (a b : list Smp) : bool := slice_eq a b.

(* Buffer::SILENT = Buffer { data: [0.0; LEN] };  Buffer::default() = Self::SILENT *)
Definition buffer_silent (zero : Smp) (LEN : nat) : list Smp := repeat zero LEN.
Definition buffer_default (zero : Smp) (LEN : nat) : list Smp := buffer_silent zero LEN.

End BufferOps.

(* Vec::resize(n, v) (v cloned) and Vec::resize_with(n, f) (f called for every new element):
   truncation to n, or the old elements followed by n - len new ones *)
Definition vec_resize {A} (n : nat) (v : A) (l : list A) : list A := firstn n l ++ repeat v (n - length l).

(* `before.iter().zip(after.iter()).map(|(x, y)| x == y)` *)
Fixpoint zip_eq {Smp} (eqs : Smp -> Smp -> bool) (a b : list (list Smp)) : list bool :=
  match a, b with
  | x :: a', y :: b' => buffer_eq eqs x y :: zip_eq eqs a' b'
  | _, _ => []
  end.
