(* Non-vacuity: concrete non-trivial graphs meeting the hypotheses of the C09 theorems
   (a diamond, a cycle with a self-loop and a doubled edge, a stable graph with a vacancy),
   the executable instance used by the correspondence is an instance of the theorems. *)
Require Import List ZArith Arith Lia Bool Relations.
From Dasp Require Import Base.Res Base.ListX Graph.Dfs Graph.Process Graph.ProcessSpec Graph.DfsProofs
  Graph.ProcessProofs Graph.EvalProofs Graph.ExtraProofs Graph.ProcessPanic Graph.ProcessPanicProofs Graph.GraphRun.
Import ListNotations.

(* decidable sufficient conditions for the hypotheses *)
Definition wfb {W} (g : graph W) : bool :=
  forallb (fun e => live g (fst e) && live g (snd e)) (edges g).

Lemma wfb_wf {W} (g : graph W) : wfb g = true -> wf g.
Proof.
  unfold wfb, wf, edge. rewrite forallb_forall. intros H u v He.
  specialize (H (u, v) He). simpl in H. now apply andb_true_iff in H.
Qed.

(* every edge (self-loops aside) goes from a smaller to a larger index => no cycle *)
Definition topob {W} (g : graph W) : bool :=
  forallb (fun e => (fst e <? snd e) || (fst e =? snd e)) (edges g).

Lemma topob_acyclic {W} (g : graph W) out : topob g = true -> acyclic_upstream g out.
Proof.
  unfold topob. rewrite forallb_forall. intros H x _ Hc.
  assert (Hlt : forall a b, clos_trans nat (pedge g) a b -> a < b).
  { intros a b T. induction T as [a b [He Hne]|a b c _ IH1 _ IH2]; [|lia].
    specialize (H (a, b) He). simpl in H. apply orb_true_iff in H.
    destruct H as [H|H]; [now apply Nat.ltb_lt|apply Nat.eqb_eq in H; congruence]. }
  specialize (Hlt x x Hc). lia.
Qed.

Lemma wf_set_weight_any {W} (g : graph W) n w : wf g -> wf (set_weight g n w).
Proof.
  intros Hwf u v He. destruct (Hwf u v He) as [Hu Hv].
  assert (H : forall m, live g m = true -> live (set_weight g n w) m = true).
  { intros m Hm. unfold live, weight in *; cbn [set_weight slots]. rewrite nth_error_set_nth.
    destruct ((n =? m) && (n <? length (slots g))); [reflexivity|exact Hm]. }
  split; apply H; assumption.
Qed.

(* the graph a script builds *)
Definition built (ops : list zop) : graph znode :=
  fst (fold_left (fun st o => match zstep st o with Ok (st', _) => st' | _ => st end) ops
                 (empty_graph, new_fprocessor)).

Local Open Scope Z_scope.

(* ---------- the instrumented nodes of the harness are an instance ---------- *)
Definition zkey (w : znode) : Z * Z * nat := (ident w, kind w * count w, nbufs w).
Definition zf (k : Z * Z * nat) (ins : list zbuf) : zbuf :=
  repeat (((fst (fst k) + 1) * 7 + 1000 * snd (fst k) + GraphRun.wsum 1 ins) mod 65521, fst (fst k)) (snd k).

Example znodes_pure : pure_nodes zbufs znproc zkey zf.
Proof.
  intros w i. unfold zbufs, znproc, zkey, zf; cbn [fst snd ident kind count val nbufs].
  f_equal. apply f_equal2; [|reflexivity]. apply (f_equal (fun x => x mod 65521)). ring.
Qed.

(* every graph a script reaches satisfies the hypothesis of the theorems *)
Lemma zstep_wf g p o g' p' obs : wf g -> zstep (g, p) o = Ok ((g', p'), obs) -> wf g'.
Proof.
  intros Hwf. destruct o as [k b|a b|a|o| | |a|c k]; cbn [zstep].
  - destruct (add_node _ g) as [g1 i] eqn:Ha. intros H.
    apply (f_equal (fun r => match r with Ok x => fst (fst x) | _ => g end)) in H. cbn [fst] in H. subst g'.
    pose proof (wf_add_node g {| ident := 0; kind := k; count := 0; val := 0; nbufs := n b; armed := false |} Hwf) as H1.
    rewrite Ha in H1. cbn [fst] in H1.
    now apply wf_set_weight_any.
  - destruct (add_edge _ _ g) as [g1| |] eqn:Ha; cbn [bind]; try discriminate.
    intros [= <- _ _]. eapply wf_add_edge; eauto.
  - destruct (remove_node _ g) as [g1 r] eqn:Ha. intros [= <- _ _].
    pose proof (wf_remove_node g (n a) Hwf) as H1. now rewrite Ha in H1.
  - destruct (process_f zbufs znproc znfail p g (n o)) as [[[[p1 g1] l1] r1]| |] eqn:Hp; cbn [bind]; try discriminate.
    intros H. apply (f_equal (fun r => match r with Ok x => fst (fst x) | _ => g end)) in H. cbn [fst] in H. subst g'.
    eapply shape_wf; [eapply process_f_shape; exact Hp|exact Hwf].
  - intros [= <- _ _]. exact Hwf.
  - intros [= <- _ _]. exact Hwf.
  - destruct (weight g (n a)) as [w|].
    + intros H. apply (f_equal (fun r => match r with Ok x => fst (fst x) | _ => g end)) in H. cbn [fst] in H. subst g'.
      now apply wf_set_weight_any.
    + intros [= <- _ _]. exact Hwf.
  - destruct (add_node _ g) as [g1 i] eqn:Ha. intros H.
    apply (f_equal (fun r => match r with Ok x => fst (fst x) | _ => g end)) in H. cbn [fst] in H. subst g'.
    match type of Ha with add_node ?w g = _ => pose proof (wf_add_node g w Hwf) as H1 end.
    rewrite Ha in H1. cbn [fst] in H1.
    now apply wf_set_weight_any.
Qed.

(* ---------- a diamond: 0 -> 1 -> 3, 0 -> 2 -> 3 ---------- *)
Definition diamond := built [ZN 0 1; ZN 0 1; ZN 0 1; ZN 0 1; ZE 0 1; ZE 0 2; ZE 1 3; ZE 2 3].

Example diamond_wf : wf diamond.
Proof. apply wfb_wf. vm_compute. reflexivity. Qed.
Example diamond_acyclic : acyclic_upstream diamond 3.
Proof. apply topob_acyclic. vm_compute. reflexivity. Qed.
Example diamond_live : live diamond 3 = true.
Proof. vm_compute. reflexivity. Qed.

(* node 0 (reached by two paths) runs once and first; 3 sees [2; 1] (newest edge first);
   the final buffers are the functional evaluation *)
Example diamond_run :
  match process zbufs znproc new_processor diamond 3 with
  | Ok (_, g', log) =>
    map (@who zbuf) log = [0; 1; 2; 3]%nat /\
    map (@from zbuf) log = [[]; [0]; [0]; [2; 1]]%nat /\
    map (fun v => option_map zbufs (weight g' v)) [0; 1; 2; 3]%nat =
    map (peval zbufs zkey zf diamond 4) [0; 1; 2; 3]%nat /\
    option_map val (weight g' 3%nat) = Some 364
  | _ => False
  end.
Proof. vm_compute. repeat split; reflexivity. Qed.

(* ---------- a cycle 0 -> 1 -> 2 -> 0 with a doubled edge 0 -> 1 and a self-loop on 1 ---------- *)
Definition cyclic := built [ZN 0 1; ZN 1 1; ZN 0 1; ZE 0 1; ZE 1 2; ZE 2 0; ZE 1 1; ZE 0 1].

Example cyclic_wf : wf cyclic.
Proof. apply wfb_wf. vm_compute. reflexivity. Qed.
Example cyclic_not_acyclic : ~ acyclic_upstream cyclic 1.
Proof.
  intros H. apply (H 1%nat); [apply rt_refl|].
  assert (E : forall a b, In (a, b) (edges cyclic) -> a <> b -> clos_trans nat (pedge cyclic) a b).
  { intros a b Hi Hn. apply t_step. now split. }
  eapply t_trans; [apply (E 1 2)%nat|eapply t_trans; [apply (E 2 0)%nat|apply (E 0 1)%nat]];
    vm_compute; auto; lia.
Qed.

(* every node once although 1 is its own and (twice) 0's neighbour; 1 gets node 0 twice and
   never itself; 2 reads 1's not-yet-processed buffer (50001) *)
Example cyclic_run :
  match process zbufs znproc new_processor cyclic 1 with
  | Ok (_, g', log) =>
    map (@who zbuf) log = [2; 0; 1]%nat /\
    map (@from zbuf) log = [[1]; [2]; [0; 0]]%nat /\
    map (fun i => map bsum (seen i)) log = [[50001]; [18982]; [56953; 56953]]
  | _ => False
  end.
Proof. vm_compute. repeat split; reflexivity. Qed.

(* ---------- a stable graph with a vacancy: slot 0 removed, 1 -> 2 -> 3 remain ---------- *)
Definition holed := built [ZN 0 1; ZN 0 1; ZN 0 1; ZN 0 1; ZE 0 1; ZE 1 2; ZE 2 3; ZE 3 0; ZR 0].

Example holed_wf : wf holed.
Proof. apply wfb_wf. vm_compute. reflexivity. Qed.
Example holed_vacancy : live holed 0 = false /\ live holed 3 = true /\ edges holed = [(1, 2); (2, 3)]%nat.
Proof. vm_compute. auto. Qed.
Example holed_acyclic : acyclic_upstream holed 3.
Proof. apply topob_acyclic. vm_compute. reflexivity. Qed.
Example holed_sources_sinks : sources holed = [1]%nat /\ sinks holed = [3]%nat.
Proof. vm_compute. auto. Qed.
Example holed_run :
  match process zbufs znproc new_processor holed 3 with
  | Ok (_, _, log) => map (@who zbuf) log = [1; 2; 3]%nat
  | _ => False
  end.
Proof. vm_compute. reflexivity. Qed.
(* the vacant slot is not a node: panic, also on a processor whose bit sets are long enough *)
Example holed_no_node :
  process zbufs znproc new_processor holed 0 = Panic PExpect /\
  process zbufs znproc new_processor holed 9 = Panic PAssert /\
  process zbufs znproc {| dfs := st_empty; cap := 20 |} holed 9 = Panic PExpect.
Proof. vm_compute. auto. Qed.

(* ---------- nodes without buffers (meters): 0 -> 1 -> 2 and 0 -> 2, node 1 has no buffers,
   node 0 has two ---------- *)
Definition metered := built [ZN 0 2; ZN 0 0; ZN 0 1; ZE 0 1; ZE 1 2; ZE 0 2].

Example metered_wf : wf metered.
Proof. apply wfb_wf. vm_compute. reflexivity. Qed.
Example metered_no_buffers : option_map zbufs (weight metered 1) = Some [].
Proof. vm_compute. reflexivity. Qed.
(* the node without buffers is invoked like any other, is presented to 2 as an input that
   shows no buffers, and may itself be the output node *)
Example metered_run :
  match process zbufs znproc new_processor metered 2 with
  | Ok (_, g', log) =>
    map (@who zbuf) log = [0; 1; 2]%nat /\
    map (@from zbuf) log = [[]; [0]; [0; 1]]%nat /\
    map (fun i => map (@length _) (seen i)) log = [[]; [2]; [2; 0]]%nat /\
    option_map count (weight g' 1%nat) = Some 1
  | _ => False
  end /\
  match process zbufs znproc new_processor metered 1 with
  | Ok (_, _, log) => map (@who zbuf) log = [0; 1]%nat
  | _ => False
  end.
Proof. vm_compute. repeat split; reflexivity. Qed.

(* ---------- a node panics once: chain 0 -> 1 -> 2, node 1 armed ---------- *)
Definition chain_armed := built [ZN 0 1; ZN 0 1; ZN 0 1; ZE 0 1; ZE 1 2; ZA 1].

Example chain_armed_wf : wf chain_armed.
Proof. apply wfb_wf. vm_compute. reflexivity. Qed.

(* the first call is aborted at node 1 (node 0 processed, node 2 not); the processor it leaves
   behind (traversal half done: 2 and 1 still stacked; inputs vector = [0]) then processes the
   chain exactly as a new processor does: node 0 gets no input, in particular not its own buffers *)
Example chain_armed_run :
  match process_f zbufs znproc znfail new_fprocessor chain_armed 2 with
  | Ok (p1, g1, log1, r1) =>
    r1 = NodePanic 1 /\ map (@who zbuf) log1 = [0; 1]%nat /\
    stack (dfs (base p1)) = [2]%nat /\ inputs p1 = [0]%nat /\
    match process_f zbufs znproc znfail p1 g1 2 with
    | Ok (_, _, log2, r2) =>
      r2 = Done /\ map (@who zbuf) log2 = [0; 1; 2]%nat /\ map (@from zbuf) log2 = [[]; [0]; [1]]%nat
    | _ => False
    end /\
    foutcome (process_f zbufs znproc znfail p1 g1 2) = foutcome (process_f zbufs znproc znfail new_fprocessor g1 2)
  | _ => False
  end.
Proof. vm_compute. repeat split; reflexivity. Qed.

(* ---------- reuse: a processor left in an arbitrary state behaves like a new one ---------- *)
Example reuse_dirty :
  outcome (process zbufs znproc {| dfs := {| stack := [7; 7; 2]%nat; disc := [0; 1; 2; 3]%nat; fin := [3; 1]%nat |}; cap := 2%nat |}
                   diamond 3%nat)
  = outcome (process zbufs znproc new_processor diamond 3%nat).
Proof. vm_compute. reflexivity. Qed.
